import QuriVerif.Proof.BasisSound
/-
  The multi-qubit `Pauli` gate is the product of its single-qubit factors, for EVERY number of
  targets (generic field part): `sameOp_pauli`.

    * §1  the local matrix of `Gate.localMat` for `.Pauli` (`xmaskOf`, `phaseExpOf`), entrywise;
    * §2  the folds: `xmaskOf` as a digit sum, `phaseExpOf` step by step (snoc);
    * §3  the model's bookkeeping along the targets, bit by bit (`pauli_chain`);
    * §4  `sameOp_pauli`, and the unconditional chain theorem `track_col_gates'`;
    * §5  the same for arbitrary ids (ids outside `{1,2,3}` are identity factors, as in
          `Gate.localMat` and in `Model/C01.pauliDec`): `pauli_gate_eq`.
-/
namespace QV.C16

/-- step of the `xmask` fold of `Gate.localMat` -/
def xmStep (m : Nat) (x : Nat × Nat) : Nat := if x.2 == 1 || x.2 == 2 then m + 2 ^ x.1 else m

/-- `xmask` of `Gate.localMat` for `k` targets with Pauli ids `ids` -/
def xmaskOf (k : Nat) (ids : List Nat) : Nat := (List.zip (List.range k) ids).foldl xmStep 0

/-- step of the `phaseExp` fold of `Gate.localMat` (column index `c`) -/
def peStep (c : Nat) (e : Nat) (x : Nat × Nat) : Nat :=
  if x.2 == 2 then e + (if (c / 2 ^ x.1) % 2 == 0 then 1 else 3)
  else if x.2 == 3 then e + (if (c / 2 ^ x.1) % 2 == 0 then 0 else 2) else e

/-- `phaseExp c` of `Gate.localMat` -/
def phaseExpOf (k : Nat) (ids : List Nat) (c : Nat) : Nat :=
  (List.zip (List.range k) ids).foldl (peStep c) 0

end QV.C16

namespace QV.MatSound
open QV QV.Poly QV.C01 QV.C16

variable {K : Type} [Field K] {ζ : K} {ρ : ℕ → K}

/-! ## 1. the local matrix -/

theorem pauli_localMat (g : Gate) (hk : g.kind = .Pauli) :
    g.localMat.m = Mat.ofFn (2 ^ g.targets.length) (2 ^ g.targets.length) fun r c =>
      if r == Nat.xor c (xmaskOf g.targets.length g.paulis)
      then Poly.uPow (4 * (phaseExpOf g.targets.length g.paulis c : ℤ)) else [] := by
  unfold Gate.localMat
  simp only [hk]
  rfl

theorem evalMat_ofFn (N : ℕ) (f : ℕ → ℕ → Poly) (a c : ℕ) (ha : a < N) (hc : c < N) :
    evalMat ζ ρ (Mat.ofFn N N f) a c = eval ζ ρ (f a c) := by
  unfold Mat.ofFn
  rw [evalMat, getD_map_range _ _ _ _ ha, evalRow, getD_map_range _ _ _ _ hc]

theorem eval_uPow (hζ : ζ ^ 8 = -1) (k : ℤ) : eval ζ ρ (Poly.uPow k) = ζ ^ k := by
  have : Poly.uPow k = Poly.phase k [] := rfl
  rw [this, eval_phase hζ]
  simp [evalExps]

/-- entry `(a, c)` of the local matrix of a `Pauli` gate -/
theorem evalMat_pauli (hζ : ζ ^ 8 = -1) (g : Gate) (hk : g.kind = .Pauli) (a c : ℕ)
    (ha : a < 2 ^ g.targets.length) (hc : c < 2 ^ g.targets.length) :
    evalMat ζ ρ g.localMat.m a c
      = if a = c ^^^ xmaskOf g.targets.length g.paulis
        then ζ ^ (4 * (phaseExpOf g.targets.length g.paulis c : ℤ)) else 0 := by
  rw [pauli_localMat g hk, evalMat_ofFn _ _ a c ha hc]
  by_cases h : a = c ^^^ xmaskOf g.targets.length g.paulis
  · have hb : (a == Nat.xor c (xmaskOf g.targets.length g.paulis)) = true := by
      rw [beq_iff_eq]; exact h
    rw [if_pos h]
    simp only [hb, if_true]
    exact eval_uPow hζ _
  · have hb : (a == Nat.xor c (xmaskOf g.targets.length g.paulis)) = false := by
      rw [beq_eq_false_iff_ne]; exact h
    rw [if_neg h]
    simp only [hb]
    exact eval_nil

/-! ## 2. the folds -/

theorem zip_range_snoc (ids : List ℕ) (p : ℕ) :
    List.zip (List.range (ids.length + 1)) (ids ++ [p])
      = List.zip (List.range ids.length) ids ++ [(ids.length, p)] := by
  rw [List.range_succ, List.zip_append (by simp)]
  rfl

theorem xmaskOf_snoc (ids : List ℕ) (p : ℕ) :
    xmaskOf (ids.length + 1) (ids ++ [p]) = xmStep (xmaskOf ids.length ids) (ids.length, p) := by
  unfold xmaskOf
  rw [zip_range_snoc, List.foldl_append]
  rfl

theorem phaseExpOf_snoc (ids : List ℕ) (p c : ℕ) :
    phaseExpOf (ids.length + 1) (ids ++ [p]) c
      = peStep c (phaseExpOf ids.length ids c) (ids.length, p) := by
  unfold phaseExpOf
  rw [zip_range_snoc, List.foldl_append]
  rfl

/-- the flip digit of a Pauli id: X and Y flip -/
def chi (pid : ℕ) : ℕ := if pid == 1 || pid == 2 then 1 else 0

/-- `xmask` is the number with digits `chi (ids j)` -/
theorem xmaskOf_val (ids : List ℕ) :
    xmaskOf ids.length ids = val ids.length (fun j => chi (ids.getD j 0)) := by
  induction ids using List.reverseRec with
  | nil => simp [xmaskOf, val]
  | append_singleton ids p ih =>
    rw [List.length_append, List.length_singleton, xmaskOf_snoc, ih, val]
    have e1 : val ids.length (fun j => chi ((ids ++ [p]).getD j 0))
        = val ids.length (fun j => chi (ids.getD j 0)) := by
      apply val_congr
      intro j hj
      simp [List.getD_eq_getElem?_getD, List.getElem?_append_left hj]
    have e2 : (ids ++ [p]).getD ids.length 0 = p := by simp [List.getD_eq_getElem?_getD]
    rw [e1, e2]
    unfold xmStep chi
    by_cases h : (p == 1 || p == 2) = true <;> simp [h]

theorem chi_le (pid : ℕ) : chi pid ≤ 1 := by unfold chi; split <;> omega

theorem xmaskOf_lt (ids : List ℕ) : xmaskOf ids.length ids < 2 ^ ids.length := by
  rw [xmaskOf_val]; exact val_lt _ _ (fun _ => chi_le _)

theorem bitAt_xmaskOf (ids : List ℕ) (j : ℕ) (hj : j < ids.length) :
    Gate.bitAt (xmaskOf ids.length ids) j = chi (ids.getD j 0) := by
  rw [xmaskOf_val, bitAt_val _ _ (fun _ => chi_le _), if_pos hj]

/-- `phaseExp` only looks at the digits of `c` below the number of targets -/
theorem phaseExpOf_congr (ids : List ℕ) (c c' : ℕ)
    (h : ∀ q, q < ids.length → Gate.bitAt c q = Gate.bitAt c' q) :
    phaseExpOf ids.length ids c = phaseExpOf ids.length ids c' := by
  induction ids using List.reverseRec with
  | nil => rfl
  | append_singleton ids p ih =>
    have hl : (ids ++ [p]).length = ids.length + 1 := by simp
    rw [hl] at h ⊢
    rw [phaseExpOf_snoc, phaseExpOf_snoc, ih (fun q hq => h q (by omega))]
    have := h ids.length (by omega)
    unfold Gate.bitAt at this
    unfold peStep
    simp only [this]

/-! ## 3. the model's bookkeeping along the targets -/

theorem addFactors_append (s : CB) (l : List (ℕ × ℕ)) (x : ℕ × ℕ) :
    addFactors s (l ++ [x]) = match addFactors s l with
      | .ok s1 => addFactors s1 [x]
      | .error e => .error e := by
  induction l generalizing s with
  | nil => simp [addFactors]
  | cons a r ih =>
    obtain ⟨i, pid⟩ := a
    simp only [List.cons_append, addFactors]
    cases pauliOfId pid with
    | none => rfl
    | some p =>
      simp only []
      cases addSinglePauli s p i with
      | error e => rfl
      | ok s' => simp only []; exact ih s'

/-- counter increment of the model for Pauli id `pid` on a qubit whose bit is `bit` -/
def delta (pid bit : ℕ) : ℤ :=
  if pid = 2 then (if bit = 0 then 1 else -1) else if pid = 3 then (if bit = 0 then 0 else 2) else 0

/-- exponent increment of `Gate.localMat` -/
def eeOf (pid bit : ℕ) : ℕ :=
  if pid = 2 then (if bit = 0 then 1 else 3) else if pid = 3 then (if bit = 0 then 0 else 2) else 0

theorem peStep_eq (c e q pid : ℕ) : peStep c e (q, pid) = e + eeOf pid (Gate.bitAt c q) := by
  unfold peStep eeOf Gate.bitAt
  by_cases h2 : pid = 2
  · subst h2; simp
  · by_cases h3 : pid = 3
    · subst h3; simp
    · simp [h2, h3]

theorem valid_id {pid : ℕ} (h : (pauliOfId pid).isSome = true) : pid = 1 ∨ pid = 2 ∨ pid = 3 := by
  unfold pauliOfId at h
  split at h <;> simp_all

theorem zeta_delta (hζ : ζ ^ 8 = -1) (pid bit : ℕ) :
    ζ ^ (4 * delta pid bit) = ζ ^ (4 * (eeOf pid bit : ℤ)) := by
  have h0 := zeta_ne_zero hζ
  have h16 : ζ ^ (16 : ℤ) = 1 := by
    have := zeta_pow_16 hζ; rw [← this]; exact zpow_natCast ζ 16
  unfold delta eeOf
  by_cases h2 : pid = 2
  · by_cases hb0 : bit = 0
    · simp [h2, hb0]
    · have : ζ ^ (12 : ℤ) = ζ ^ (-4 : ℤ) * ζ ^ (16 : ℤ) := by rw [← zpow_add₀ h0]; norm_num
      simp [h2, hb0, this, h16]
  · by_cases h3 : pid = 3
    · by_cases hb0 : bit = 0 <;> simp [h3, hb0]
    · simp [h2, h3]

/-- one step of the model, spelled out -/
theorem single_step_spec (s : CB) (pid : ℕ) (p : P1) (hp : pauliOfId pid = some p) (w : ℕ)
    (hw : w < s.n) :
    ∃ s2, addSinglePauli s p w = .ok s2 ∧ s2.n = s.n ∧
      s2.bits = (if chi pid = 1 then s.bits ^^^ 2 ^ w else s.bits) ∧
      s2.phase = s.phase + delta pid (Gate.bitAt s.bits w) := by
  have hnw : ¬ w ≥ s.n := by omega
  have hbit := bitAt_eq_testBit s.bits w
  rcases valid_id (by rw [hp]; rfl : (pauliOfId pid).isSome = true) with rfl | rfl | rfl
  · have : p = .X := by simpa [pauliOfId] using hp.symm
    subst this
    exact ⟨⟨s.n, s.bits ^^^ (1 <<< w), s.phase⟩, by simp [addSinglePauli, hnw], rfl,
      by simp [chi, Nat.one_shiftLeft], by simp [delta]⟩
  · have : p = .Y := by simpa [pauliOfId] using hp.symm
    subst this
    refine ⟨⟨s.n, s.bits ^^^ (1 <<< w), if s.bits.testBit w then s.phase + (-1) else s.phase + 1⟩,
      by simp [addSinglePauli, hnw], rfl, by simp [chi, Nat.one_shiftLeft], ?_⟩
    by_cases hb : s.bits.testBit w = true
    · simp [delta, hbit, hb]
    · simp [delta, hbit, hb]
  · have : p = .Z := by simpa [pauliOfId] using hp.symm
    subst this
    refine ⟨⟨s.n, s.bits, if s.bits.testBit w then s.phase + 2 else s.phase⟩,
      by simp [addSinglePauli, hnw], rfl, by simp [chi], ?_⟩
    by_cases hb : s.bits.testBit w = true
    · simp [delta, hbit, hb]
    · simp [delta, hbit, hb]

theorem exists_snoc_of_length {α : Type} (l : List α) (k : ℕ) (h : l.length = k + 1) :
    ∃ l' x, l = l' ++ [x] ∧ l'.length = k := by
  rcases List.eq_nil_or_concat l with rfl | ⟨l', x, rfl⟩
  · simp at h
  · exact ⟨l', x, by simp, by simpa using h⟩

theorem getD_snoc_lt {α : Type} (l : List α) (x d : α) {j : ℕ} (hj : j < l.length) :
    (l ++ [x]).getD j d = l.getD j d := by
  simp [List.getD_eq_getElem?_getD, List.getElem?_append_left hj]

theorem getD_snoc_eq {α : Type} (l : List α) (x d : α) : (l ++ [x]).getD l.length d = x := by
  simp [List.getD_eq_getElem?_getD]

/-- **the model's run along the targets of a `Pauli` gate, bit by bit**: it succeeds, leaves the bits
    outside the targets alone, flips bit `ws j` iff `ids j` is X or Y, and its counter equals the
    exponent `phaseExp` of `Gate.localMat` at the local index of `b` (as a power of `i`) -/
theorem pauli_chain (hζ : ζ ^ 8 = -1) (n b : ℕ) (hb : b < 2 ^ n) : ∀ (ids ws : List ℕ),
    ws.length = ids.length → ws.Nodup → (∀ w ∈ ws, w < n) →
    (∀ pid ∈ ids, (pauliOfId pid).isSome = true) →
    ∃ s' : CB, addFactors ⟨n, b, 0⟩ (List.zip ws ids) = .ok s' ∧ s'.n = n ∧ s'.bits < 2 ^ n ∧
      (∀ v, v ∉ ws → Gate.bitAt s'.bits v = Gate.bitAt b v) ∧
      (∀ j, j < ids.length →
        Gate.bitAt s'.bits (ws.getD j 0) = (Gate.bitAt b (ws.getD j 0) + chi (ids.getD j 0)) % 2) ∧
      ζ ^ (4 * s'.phase) = ζ ^ (4 * (phaseExpOf ids.length ids (Gate.locIdx ws b) : ℤ)) := by
  intro ids
  induction ids using List.reverseRec with
  | nil =>
    intro ws hl _ _ _
    have : ws = [] := List.eq_nil_of_length_eq_zero (by simpa using hl)
    subst this
    exact ⟨⟨n, b, 0⟩, rfl, rfl, hb, fun _ _ => rfl, fun j hj => by simp at hj, by
      simp [phaseExpOf]⟩
  | append_singleton ids p ih =>
    intro ws hl hnd hlt hval
    obtain ⟨ws', w, rfl, hl'⟩ := exists_snoc_of_length ws ids.length (by simpa using hl)
    have hnd' : ws'.Nodup ∧ w ∉ ws' := by
      have := List.nodup_append.mp hnd
      exact ⟨this.1, fun h => this.2.2 w h w (by simp) rfl⟩
    obtain ⟨s1, h1, hn1, hb1, J1, J2, J3⟩ := ih ws' hl' hnd'.1 (fun v hv => hlt v (by simp [hv]))
      (fun pid hp => hval pid (by simp [hp]))
    obtain ⟨pp, hpp⟩ := Option.isSome_iff_exists.mp (hval p (by simp))
    have hwn : w < s1.n := by rw [hn1]; exact hlt w (by simp)
    obtain ⟨s2, h2, hn2, hbits2, hph2⟩ := single_step_spec s1 p pp hpp w hwn
    have hw1 : Gate.bitAt s1.bits w = Gate.bitAt b w := J1 w hnd'.2
    have hbw : Gate.bitAt b w ≤ 1 := bitAt_le_one _ _
    have hchi := chi_le p
    -- bits of the new state
    have hbit2 : ∀ v, Gate.bitAt s2.bits v
        = if v = w then (Gate.bitAt b w + chi p) % 2 else Gate.bitAt s1.bits v := by
      intro v
      rw [hbits2]
      by_cases hc : chi p = 1
      · rw [if_pos hc, bitAt_flip]
        by_cases e : v = w
        · rw [if_pos e, if_pos e, hw1, hc]; omega
        · rw [if_neg e, if_neg e]
      · have hc0 : chi p = 0 := by omega
        rw [if_neg hc]
        by_cases e : v = w
        · rw [if_pos e, e, hw1, hc0]; omega
        · rw [if_neg e]
    refine ⟨s2, ?_, hn2.trans hn1, ?_, ?_, ?_, ?_⟩
    · have ez : [w].zip [p] = [(w, p)] := rfl
      rw [List.zip_append (by rw [hl']), ez, addFactors_append, h1]
      simp only [addFactors, hpp, h2]
    · rw [hbits2]
      split
      · exact flip_lt n _ w hb1 (hlt w (by simp))
      · exact hb1
    · intro v hv
      simp only [List.mem_append, List.mem_singleton, not_or] at hv
      rw [hbit2, if_neg hv.2, J1 v hv.1]
    · intro j hj
      rw [List.length_append, List.length_singleton] at hj
      by_cases hjk : j < ids.length
      · rw [getD_snoc_lt _ _ _ (by rw [hl']; exact hjk), getD_snoc_lt _ _ _ hjk]
        have hmem : ws'.getD j 0 ∈ ws' := getD_mem ws' (by rw [hl']; exact hjk)
        have hne : ws'.getD j 0 ≠ w := fun h => hnd'.2 (h ▸ hmem)
        rw [hbit2, if_neg hne]
        exact J2 j hjk
      · have : j = ids.length := by omega
        subst this
        have e1 : (ws' ++ [w]).getD ids.length 0 = w := by rw [← hl']; exact getD_snoc_eq _ _ _
        rw [e1, getD_snoc_eq, hbit2, if_pos rfl]
    · have hlen : (ids ++ [p]).length = ids.length + 1 := by simp
      rw [hlen, phaseExpOf_snoc, peStep_eq]
      have hcong : phaseExpOf ids.length ids (Gate.locIdx (ws' ++ [w]) b)
          = phaseExpOf ids.length ids (Gate.locIdx ws' b) := by
        apply phaseExpOf_congr
        intro q hq
        rw [bitAt_locIdx, bitAt_locIdx, if_pos (by simp; omega), if_pos (by omega),
          getD_snoc_lt _ _ _ (by omega)]
      have hbk : Gate.bitAt (Gate.locIdx (ws' ++ [w]) b) ids.length = Gate.bitAt b w := by
        rw [bitAt_locIdx, if_pos (by simp; omega), ← hl', getD_snoc_eq]
      rw [hcong, hbk, hph2, hw1]
      push_cast
      rw [mul_add, mul_add, zpow_add₀ (zeta_ne_zero hζ), zpow_add₀ (zeta_ne_zero hζ), J3,
        zeta_delta hζ p _]

/-! ## 4. the `Pauli` gate is the product of its factors -/

theorem bitAt_xor (x y j : ℕ) :
    Gate.bitAt (x ^^^ y) j = (Gate.bitAt x j + Gate.bitAt y j) % 2 := by
  rw [bitAt_eq_testBit, bitAt_eq_testBit, bitAt_eq_testBit, Nat.testBit_xor]
  cases x.testBit j <;> cases y.testBit j <;> rfl

/-- **`sameOp_pauli`**: every well-formed multi-qubit `Pauli` gate (distinct targets `< n`, no
    controls, one id in `{1,2,3}` per target) has, on the `2^n` block, exactly the operator of the list
    of its single-qubit factors – for every number of targets -/
theorem sameOp_pauli (hζ : ζ ^ 8 = -1) (n : ℕ) (g : RGate) (hk : g.kind = .Pauli)
    (hc : g.controls = []) (hnd : g.targets.Nodup) (hlt : ∀ w ∈ g.targets, w < n)
    (hl : g.targets.length = g.paulis.length)
    (hval : ∀ pid ∈ g.paulis, (pauliOfId pid).isSome = true) : SameOp ζ ρ n g := by
  have hw : g.toGate.wires = g.targets := by simp [RGate.toGate, Gate.wires, hc]
  refine ⟨fun g' hg' => ?_, fun r hr b hb => ?_⟩
  · simp only [List.mem_singleton] at hg'
    subst hg'
    rw [hw]; exact ⟨hnd, hlt⟩
  · obtain ⟨s', h1, hn1, hb1, J1, J2, J3⟩ :=
      pauli_chain (ζ := ζ) hζ n b hb g.paulis g.targets hl hnd hlt hval
    -- right-hand side: the factor list, through the model
    obtain ⟨fs, hfs, hcol, _⟩ := factors_col (ζ := ζ) (ρ := ρ) hζ ⟨n, b, 0⟩ s' _ h1 hb
    have hpf : pauliFactorGates g = factorGates fs := by
      simp [pauliFactorGates, factors, hk, hfs]
    rw [hpf, hcol.col r hr]
    -- left-hand side: the local matrix
    rw [semCirc_single n g.toGate (by rw [hw]; exact hnd) (by rw [hw]; exact hlt) r b hr hb, hw]
    have hkk : g.toGate.targets.length = g.paulis.length := hl
    have hla : Gate.locIdx g.targets r < 2 ^ g.toGate.targets.length := locIdx_lt _ _
    have hlc : Gate.locIdx g.targets b < 2 ^ g.toGate.targets.length := locIdx_lt _ _
    rw [evalMat_pauli hζ g.toGate hk _ _ hla hlc]
    show (if _ then (if _ = _ ^^^ xmaskOf g.targets.length g.paulis then
      ζ ^ (4 * (phaseExpOf g.targets.length g.paulis (Gate.locIdx g.targets b) : ℤ)) else 0) else 0) = _
    rw [hl]
    -- the two characterisations of the non-zero row coincide
    have hxm := xmaskOf_lt g.paulis
    have hcl : Gate.locIdx g.targets b < 2 ^ g.paulis.length := by rw [← hl]; exact locIdx_lt _ _
    have hcb : Gate.clearBits g.targets s'.bits = Gate.clearBits g.targets b := by
      apply bitAt_ext n _ _ (clearBits_lt n _ _ hnd hlt hb1) (clearBits_lt n _ _ hnd hlt hb)
      intro v _
      rw [bitAt_clearBits n _ _ hnd hlt hb1, bitAt_clearBits n _ _ hnd hlt hb]
      by_cases hv : v ∈ g.targets
      · rw [if_pos hv, if_pos hv]
      · rw [if_neg hv, if_neg hv, J1 v hv]
    have hli : Gate.locIdx g.targets s'.bits
        = Gate.locIdx g.targets b ^^^ xmaskOf g.paulis.length g.paulis := by
      apply bitAt_ext g.paulis.length _ _ (by rw [← hl]; exact locIdx_lt _ _)
        (Nat.xor_lt_two_pow hcl hxm)
      intro j hj
      rw [bitAt_locIdx, if_pos (by rw [hl]; exact hj), J2 j hj, bitAt_xor, bitAt_locIdx,
        if_pos (by rw [hl]; exact hj), bitAt_xmaskOf _ _ hj]
    have hiff := eq_iff_ws n g.targets hnd hlt r s'.bits hr hb1
    rw [hcb, hli] at hiff
    have hamp : ζ ^ (4 * (s'.phase - (⟨n, b, 0⟩ : CB).phase))
        = ζ ^ (4 * (phaseExpOf g.paulis.length g.paulis (Gate.locIdx g.targets b) : ℤ)) := by
      rw [← J3]; simp
    by_cases h1' : Gate.clearBits g.targets r = Gate.clearBits g.targets b
    · by_cases h2' : Gate.locIdx g.targets r
          = Gate.locIdx g.targets b ^^^ xmaskOf g.paulis.length g.paulis
      · rw [if_pos h1', if_pos h2', if_pos (hiff.mpr ⟨h1', h2'⟩), hamp]
      · rw [if_pos h1', if_neg h2', if_neg (fun h => h2' (hiff.mp h).2)]
    · rw [if_neg h1', if_neg (fun h => h1' (hiff.mp h).1)]

/-- side conditions on a Pauli-kind gate of `comp_basis.py` on an `n`-qubit register -/
def pauliGateOK (n : ℕ) (g : RGate) : Bool :=
  decide (g.controls = []) && g.targets.all (· < n) &&
  (match g.kind with
   | .X | .Y | .Z => g.targets.length == 1
   | .Pauli => decide g.targets.Nodup && g.targets.length == g.paulis.length &&
       g.paulis.all fun pid => (pauliOfId pid).isSome
   | _ => false)

theorem sameOp_of_ok (hζ : ζ ^ 8 = -1) (n : ℕ) (g : RGate) (h : pauliGateOK n g = true) :
    SameOp ζ ρ n g := by
  simp only [pauliGateOK, Bool.and_eq_true, decide_eq_true_eq, List.all_eq_true] at h
  obtain ⟨⟨hc, hlt⟩, hm⟩ := h
  have hlt' : ∀ w ∈ g.targets, w < n := fun w hw => by simpa using hlt w hw
  have single : g.targets.length = 1 → (g.kind = .X ∨ g.kind = .Y ∨ g.kind = .Z) →
      SameOp ζ ρ n g := by
    intro h1 hk
    obtain ⟨i, hi⟩ := List.length_eq_one_iff.mp h1
    exact sameOp_single n g i (hlt' i (by simp [hi])) hi hc hk
  cases hk : g.kind <;> rw [hk] at hm <;> simp only [] at hm
  case X => exact single (by simpa using hm) (Or.inl hk)
  case Y => exact single (by simpa using hm) (Or.inr (Or.inl hk))
  case Z => exact single (by simpa using hm) (Or.inr (Or.inr hk))
  case Pauli =>
    simp only [Bool.and_eq_true, decide_eq_true_eq, beq_iff_eq, List.all_eq_true] at hm
    exact sameOp_pauli hζ n g hk hc hm.1.1 hlt' hm.1.2 hm.2
  all_goals simp at hm

/-- **Chain theorem for the gates themselves, unconditional**: for every list of well-formed
    Pauli-kind gates (X, Y, Z on one target; multi-qubit `Pauli` with distinct targets and ids in
    `{1,2,3}`) accepted by the bookkeeping, column `b` of the operator of the gate list is
    `i^(p'−p)·e_{b'}` -/
theorem track_col_gates' (hζ : ζ ^ 8 = -1) (s s' : CB) (gs : List RGate) (h : track s gs = .ok s')
    (hwf : s.bits < 2 ^ s.n) (hg : ∀ g ∈ gs, pauliGateOK s.n g = true) :
    ColOf ζ ρ (gs.map RGate.toGate) s s' :=
  track_col_gates hζ s s' gs h hwf (fun g hgm => sameOp_of_ok hζ s.n g (hg g hgm))

/-! ## 5. arbitrary ids (identity factors) -/

end QV.MatSound

namespace QV.C16
/-- the (qubit, Pauli) factors of a list of (target, id) pairs; ids outside `{1,2,3}` are skipped -/
def idFactors (l : List (Nat × Nat)) : List (Nat × P1) :=
  l.filterMap fun x => (pauliOfId x.2).map fun pp => (x.1, pp)
end QV.C16

namespace QV.MatSound
open QV QV.Poly QV.C01 QV.C16

variable {K : Type} [Field K] {ζ : K} {ρ : ℕ → K}

theorem invalid_id {pid : ℕ} (h : pauliOfId pid = none) : chi pid = 0 ∧ ∀ b, eeOf pid b = 0 := by
  have h1 : pid ≠ 1 := fun e => by subst e; simp [pauliOfId] at h
  have h2 : pid ≠ 2 := fun e => by subst e; simp [pauliOfId] at h
  have h3 : pid ≠ 3 := fun e => by subst e; simp [pauliOfId] at h
  exact ⟨by simp [chi, h1, h2], fun b => by simp [eeOf, h2, h3]⟩

theorem factorGates_append (a b : List (ℕ × P1)) :
    factorGates (a ++ b) = factorGates a ++ factorGates b := by
  simp [factorGates]

/-- `pauli_chain` for arbitrary ids, directly in terms of the factor gates -/
theorem pauli_chain_gen (hζ : ζ ^ 8 = -1) (n b : ℕ) (hb : b < 2 ^ n) : ∀ (ids ws : List ℕ),
    ws.length = ids.length → ws.Nodup → (∀ w ∈ ws, w < n) →
    ∃ s' : CB, ColOf ζ ρ (factorGates (idFactors (List.zip ws ids))) ⟨n, b, 0⟩ s' ∧
      WellFormed n (factorGates (idFactors (List.zip ws ids))) ∧
      (∀ v, v ∉ ws → Gate.bitAt s'.bits v = Gate.bitAt b v) ∧
      (∀ j, j < ids.length →
        Gate.bitAt s'.bits (ws.getD j 0) = (Gate.bitAt b (ws.getD j 0) + chi (ids.getD j 0)) % 2) ∧
      ζ ^ (4 * s'.phase) = ζ ^ (4 * (phaseExpOf ids.length ids (Gate.locIdx ws b) : ℤ)) := by
  intro ids
  induction ids using List.reverseRec with
  | nil =>
    intro ws hl _ _
    have : ws = [] := List.eq_nil_of_length_eq_zero (by simpa using hl)
    subst this
    exact ⟨⟨n, b, 0⟩, ColOf.nil _ hb, WellFormed.nil n, fun _ _ => rfl,
      fun j hj => by simp at hj, by simp [phaseExpOf]⟩
  | append_singleton ids p ih =>
    intro ws hl hnd hlt
    obtain ⟨ws', w, rfl, hl'⟩ := exists_snoc_of_length ws ids.length (by simpa using hl)
    have hnd' : ws'.Nodup ∧ w ∉ ws' := by
      have := List.nodup_append.mp hnd
      exact ⟨this.1, fun h => this.2.2 w h w (by simp) rfl⟩
    obtain ⟨s1, c1, wf1, J1, J2, J3⟩ := ih ws' hl' hnd'.1 (fun v hv => hlt v (by simp [hv]))
    have hn1 : s1.n = n := c1.n_eq
    have hb1 : s1.bits < 2 ^ n := c1.lt
    have hw1 : Gate.bitAt s1.bits w = Gate.bitAt b w := J1 w hnd'.2
    have hbw : Gate.bitAt b w ≤ 1 := bitAt_le_one _ _
    have ez : List.zip (ws' ++ [w]) (ids ++ [p]) = List.zip ws' ids ++ [(w, p)] := by
      rw [List.zip_append (by rw [hl'])]; rfl
    have hlen : (ids ++ [p]).length = ids.length + 1 := by simp
    have hcong : phaseExpOf ids.length ids (Gate.locIdx (ws' ++ [w]) b)
        = phaseExpOf ids.length ids (Gate.locIdx ws' b) := by
      apply phaseExpOf_congr
      intro q hq
      rw [bitAt_locIdx, bitAt_locIdx, if_pos (by simp; omega), if_pos (by omega),
        getD_snoc_lt _ _ _ (by omega)]
    have hbk : Gate.bitAt (Gate.locIdx (ws' ++ [w]) b) ids.length = Gate.bitAt b w := by
      rw [bitAt_locIdx, if_pos (by simp; omega), ← hl', getD_snoc_eq]
    -- the statements about bits `j < k` are the same in both cases
    have Jold : ∀ (s2 : CB), (∀ v, v ≠ w → Gate.bitAt s2.bits v = Gate.bitAt s1.bits v) →
        Gate.bitAt s2.bits w = (Gate.bitAt b w + chi p) % 2 →
        (∀ v, v ∉ ws' ++ [w] → Gate.bitAt s2.bits v = Gate.bitAt b v) ∧
        (∀ j, j < (ids ++ [p]).length → Gate.bitAt s2.bits ((ws' ++ [w]).getD j 0)
          = (Gate.bitAt b ((ws' ++ [w]).getD j 0) + chi ((ids ++ [p]).getD j 0)) % 2) := by
      intro s2 hne hw2
      refine ⟨fun v hv => ?_, fun j hj => ?_⟩
      · simp only [List.mem_append, List.mem_singleton, not_or] at hv
        rw [hne v hv.2, J1 v hv.1]
      · rw [hlen] at hj
        by_cases hjk : j < ids.length
        · rw [getD_snoc_lt _ _ _ (by rw [hl']; exact hjk), getD_snoc_lt _ _ _ hjk]
          have hmem : ws'.getD j 0 ∈ ws' := getD_mem ws' (by rw [hl']; exact hjk)
          have hne' : ws'.getD j 0 ≠ w := fun h => hnd'.2 (h ▸ hmem)
          rw [hne _ hne']
          exact J2 j hjk
        · have : j = ids.length := by omega
          subst this
          have e1 : (ws' ++ [w]).getD ids.length 0 = w := by rw [← hl']; exact getD_snoc_eq _ _ _
          rw [e1, getD_snoc_eq, hw2]
    cases hpp : pauliOfId p with
    | none =>
      obtain ⟨hchi, hee⟩ := invalid_id hpp
      have ef : idFactors (List.zip (ws' ++ [w]) (ids ++ [p])) = idFactors (List.zip ws' ids) := by
        rw [ez]; simp [idFactors, hpp]
      obtain ⟨K1, K2⟩ := Jold s1 (fun _ _ => rfl) (by rw [hw1, hchi]; omega)
      refine ⟨s1, by rw [ef]; exact c1, by rw [ef]; exact wf1, K1, K2, ?_⟩
      rw [hlen, phaseExpOf_snoc, peStep_eq, hcong, hee, Nat.add_zero]
      exact J3
    | some pp =>
      have hwn : w < s1.n := by rw [hn1]; exact hlt w (by simp)
      obtain ⟨s2, h2, hn2, hbits2, hph2⟩ := single_step_spec s1 p pp hpp w hwn
      have hchi := chi_le p
      have hbit2 : ∀ v, Gate.bitAt s2.bits v
          = if v = w then (Gate.bitAt b w + chi p) % 2 else Gate.bitAt s1.bits v := by
        intro v
        rw [hbits2]
        by_cases hc : chi p = 1
        · rw [if_pos hc, bitAt_flip]
          by_cases e : v = w
          · rw [if_pos e, if_pos e, hw1, hc]; omega
          · rw [if_neg e, if_neg e]
        · have hc0 : chi p = 0 := by omega
          rw [if_neg hc]
          by_cases e : v = w
          · rw [if_pos e, e, hw1, hc0]; omega
          · rw [if_neg e]
      have ef : idFactors (List.zip (ws' ++ [w]) (ids ++ [p]))
          = idFactors (List.zip ws' ids) ++ [(w, pp)] := by
        rw [ez]; simp [idFactors, hpp]
      have hwf1 : s1.bits < 2 ^ s1.n := by rw [hn1]; exact hb1
      have c2 : ColOf ζ ρ [G (kindOfP1 pp) [] [w]] s1 s2 := single_col hζ s1 s2 pp w h2 hwf1
      have wf2 : WellFormed n [G (kindOfP1 pp) [] [w]] := wf_single n w _ (hlt w (by simp))
      obtain ⟨K1, K2⟩ := Jold s2 (fun v hv => by rw [hbit2, if_neg hv]) (by rw [hbit2, if_pos rfl])
      refine ⟨s2, ?_, ?_, K1, K2, ?_⟩
      · rw [ef, factorGates_append]
        exact ColOf.append hζ c1 c2 wf2
      · rw [ef, factorGates_append]
        exact WellFormed.append wf1 wf2
      · rw [hlen, phaseExpOf_snoc, peStep_eq, hcong, hbk, hph2, hw1]
        push_cast
        rw [mul_add, mul_add, zpow_add₀ (zeta_ne_zero hζ), zpow_add₀ (zeta_ne_zero hζ), J3,
          zeta_delta hζ p _]

/-- **the `Pauli` gate is the product of its non-identity factors**, exactly, on the `2^n` block;
    any ids (those outside `{1,2,3}` act as the identity, as in `Gate.localMat`) -/
theorem pauli_gate_eq (hζ : ζ ^ 8 = -1) (n : ℕ) (g : Gate) (hk : g.kind = .Pauli)
    (hc : g.controls = []) (hnd : g.targets.Nodup) (hlt : ∀ w ∈ g.targets, w < n)
    (hl : g.targets.length = g.paulis.length) (r b : ℕ) (hr : r < 2 ^ n) (hb : b < 2 ^ n) :
    semCirc ζ ρ [g] r b
      = semCirc ζ ρ (factorGates (idFactors (List.zip g.targets g.paulis))) r b := by
  have hw : g.wires = g.targets := by simp [Gate.wires, hc]
  obtain ⟨s', hcol, _, J1, J2, J3⟩ :=
    pauli_chain_gen (ζ := ζ) (ρ := ρ) hζ n b hb g.paulis g.targets hl hnd hlt
  have hb1 : s'.bits < 2 ^ n := hcol.lt
  rw [hcol.col r hr]
  rw [semCirc_single n g (by rw [hw]; exact hnd) (by rw [hw]; exact hlt) r b hr hb, hw]
  have hla : Gate.locIdx g.targets r < 2 ^ g.targets.length := locIdx_lt _ _
  have hlc : Gate.locIdx g.targets b < 2 ^ g.targets.length := locIdx_lt _ _
  rw [evalMat_pauli hζ g hk _ _ hla hlc, hl]
  have hxm := xmaskOf_lt g.paulis
  have hcl : Gate.locIdx g.targets b < 2 ^ g.paulis.length := by rw [← hl]; exact locIdx_lt _ _
  have hcb : Gate.clearBits g.targets s'.bits = Gate.clearBits g.targets b := by
    apply bitAt_ext n _ _ (clearBits_lt n _ _ hnd hlt hb1) (clearBits_lt n _ _ hnd hlt hb)
    intro v _
    rw [bitAt_clearBits n _ _ hnd hlt hb1, bitAt_clearBits n _ _ hnd hlt hb]
    by_cases hv : v ∈ g.targets
    · rw [if_pos hv, if_pos hv]
    · rw [if_neg hv, if_neg hv, J1 v hv]
  have hli : Gate.locIdx g.targets s'.bits
      = Gate.locIdx g.targets b ^^^ xmaskOf g.paulis.length g.paulis := by
    apply bitAt_ext g.paulis.length _ _ (by rw [← hl]; exact locIdx_lt _ _)
      (Nat.xor_lt_two_pow hcl hxm)
    intro j hj
    rw [bitAt_locIdx, if_pos (by rw [hl]; exact hj), J2 j hj, bitAt_xor, bitAt_locIdx,
      if_pos (by rw [hl]; exact hj), bitAt_xmaskOf _ _ hj]
  have hiff := eq_iff_ws n g.targets hnd hlt r s'.bits hr hb1
  rw [hcb, hli] at hiff
  have hamp : ζ ^ (4 * (s'.phase - (⟨n, b, 0⟩ : CB).phase))
      = ζ ^ (4 * (phaseExpOf g.paulis.length g.paulis (Gate.locIdx g.targets b) : ℤ)) := by
    rw [← J3]; simp
  by_cases h1' : Gate.clearBits g.targets r = Gate.clearBits g.targets b
  · by_cases h2' : Gate.locIdx g.targets r
        = Gate.locIdx g.targets b ^^^ xmaskOf g.paulis.length g.paulis
    · rw [if_pos h1', if_pos h2', if_pos (hiff.mpr ⟨h1', h2'⟩), hamp]
    · rw [if_pos h1', if_neg h2', if_neg (fun h => h2' (hiff.mp h).2)]
  · rw [if_neg h1', if_neg (fun h => h1' (hiff.mp h).1)]

end QV.MatSound
