import QuriVerif.Proof.C20
/-
  C20 — specifications of the reference-level helpers (`freezeR`, `copyR`, `ctorR`, the linear-mapped
  wrappers, `writeRef`, `allocCV`, `bindR`) w.r.t. the invariant and the abstraction function.
-/
namespace QV.C20

/-- what every reference-producing helper guarantees: the heap still satisfies the invariant, old
    handles see what they saw, the linear-mapped table is untouched -/
structure Step1 (s s' : St) : Prop where
  inv : Inv s'
  fr : Frame s s'
  ls : s'.ls = s.ls
  nL : s'.nL = s.nL

theorem Step1.refl {s : St} (hI : Inv s) : Step1 s s := ⟨hI, Frame.refl s, rfl, rfl⟩

theorem allocR_step1 {s : St} (c : RCell) (hI : Inv s) (hd : ∀ n, c.dc = some n → n = depth c.v.gs) :
    Step1 s (s.allocR c).1 :=
  ⟨allocR_inv c hI hd, allocR_frame s c, rfl, rfl⟩

theorem freezeR_spec (cfg : Cfg) {s : St} (hI : Inv s) {a : Nat} (ha : a < s.nR) :
    Step1 s (freezeR cfg s a).1 ∧ (freezeR cfg s a).2 < (freezeR cfg s a).1.nR ∧
    (((freezeR cfg s a).2 != a || !s.rMut a) = true →
      (freezeR cfg s a).1.rMut (freezeR cfg s a).2 = false ∧
      ((freezeR cfg s a).1.rs (freezeR cfg s a).2).v = (s.rs a).v.frozen) := by
  have alias : Step1 s s ∧ a < s.nR ∧ (((a != a || !s.rMut a) = true →
      s.rMut a = false ∧ (s.rs a).v = (s.rs a).v.frozen)) := by
    refine ⟨Step1.refl hI, ha, ?_⟩
    intro h
    have : s.rMut a = false := by simpa using h
    exact ⟨this, (RVal.frozen_of_not_mu (by simpa [St.rMut] using this)).symm⟩
  have clone : ∀ c : RCell, c.v = (s.rs a).v.frozen → c.dc = (s.rs a).dc →
      Step1 s (s.allocR c).1 ∧ (s.allocR c).2 < (s.allocR c).1.nR ∧
      ((((s.allocR c).2 != a || !s.rMut a) = true →
        (s.allocR c).1.rMut (s.allocR c).2 = false ∧ ((s.allocR c).1.rs (s.allocR c).2).v = (s.rs a).v.frozen)) := by
    intro c hv hdc
    refine ⟨allocR_step1 c hI ?_, by simp [St.allocR], ?_⟩
    · intro n hn
      rw [hv]; rw [hdc] at hn
      simpa [RVal.frozen] using hI.d a n ha hn
    · intro _
      simp [St.allocR, St.rMut, hv, RVal.frozen]
  unfold freezeR
  simp only
  split
  · exact alias
  · split
    · exact alias
    · split
      · exact alias
      · exact clone _ rfl rfl
    · exact clone _ rfl rfl

theorem copyR_spec (cfg : Cfg) {s : St} (hI : Inv s) {a : Nat} (ha : a < s.nR) :
    Step1 s (copyR cfg s a).1 ∧ (copyR cfg s a).2 = s.nR ∧ (copyR cfg s a).1.nR = s.nR + 1 ∧
    ((copyR cfg s a).1.rs s.nR).v = (s.rs a).v.thawed ∧ Unref (copyR cfg s a).1 s.nR := by
  unfold copyR
  simp only
  refine ⟨allocR_step1 _ hI ?_, by simp [St.allocR], by simp [St.allocR], by simp [St.allocR], allocR_unref _ hI⟩
  intro n hn
  simpa [RVal.thawed] using hI.d a n ha hn

theorem setFlag_step1 {s : St} (hI : Inv s) (a : Nat) (b : Bool) :
    Step1 s { s with rs := upd s.rs a { s.rs a with imm := b } } := by
  obtain ⟨b1, b2, o1, o2, o3, o4, t, d⟩ := hI
  refine ⟨?_, ?_, rfl, rfl⟩
  · constructor <;> simp only [St.rMut] at *
    · intro i hi; have := b1 i hi
      cases h : (s.hs i).ref <;> simp_all [RefOK]
    · exact b2
    · intro i j a' hi hj hij e1 e2
      have := o1 i j a' hi hj hij e1 e2
      grind [upd]
    · intro i l a' hi hl e1 e2
      have := o2 i l a' hi hl e1 e2
      grind [upd]
    · intro l l' hl hl' hne e
      have := o3 l l' hl hl' hne e
      grind [upd]
    · exact o4
    · intro l hl hm
      have := t l hl hm
      grind [upd]
    · intro a' n ha' h
      have := d a' n ha'
      grind [upd]
  · constructor <;> simp
    intro a' _
    by_cases h : a' = a <;> simp [upd, h]

theorem ctorR_spec (cfg : Cfg) {s : St} (hI : Inv s) {a : Nat} (ha : a < s.nR) :
    Step1 s (ctorR cfg s a).1 ∧ (ctorR cfg s a).2 < (ctorR cfg s a).1.nR ∧
    (((ctorR cfg s a).2 != a || !s.rMut a) = true →
      (ctorR cfg s a).1.rMut (ctorR cfg s a).2 = false ∧
      ((ctorR cfg s a).1.rs (ctorR cfg s a).2).v = (s.rs a).v.frozen) := by
  have clone : ∀ c : RCell, c.v = (s.rs a).v.frozen → c.dc = none →
      Step1 s (s.allocR c).1 ∧ (s.allocR c).2 < (s.allocR c).1.nR ∧
      ((((s.allocR c).2 != a || !s.rMut a) = true →
        (s.allocR c).1.rMut (s.allocR c).2 = false ∧ ((s.allocR c).1.rs (s.allocR c).2).v = (s.rs a).v.frozen)) := by
    intro c hv hdc
    refine ⟨allocR_step1 c hI ?_, by simp [St.allocR], ?_⟩
    · intro n hn; rw [hdc] at hn; cases hn
    · intro _
      simp [St.allocR, St.rMut, hv, RVal.frozen]
  unfold ctorR
  simp only
  split
  · refine ⟨setFlag_step1 hI a true, by simpa using ha, ?_⟩
    intro h
    have hm : s.rMut a = false := by simpa using h
    have hv := (RVal.frozen_of_not_mu (v := (s.rs a).v) (by simpa [St.rMut] using hm)).symm
    simp [St.rMut] at hm ⊢
    exact ⟨hm, hv⟩
  · exact clone _ rfl rfl
  · exact clone _ rfl rfl


/-- result of a helper that produces the reference for a new handle -/
structure Derived (s s' : St) (r' : Ref) (cv : CV) : Prop where
  inv : Inv s'
  fr : Frame s s'
  ho : Handout s' r'
  rd : s'.readRef r' = cv

theorem ctorL_spec (cfg : Cfg) {s : St} (hI : Inv s) {l : Nat} (hl : l < s.nL)
    (hok : (ctorL cfg s l).2.2 = true) :
    Derived s (ctorL cfg s l).1 (.l (ctorL cfg s l).2.1) (ctorV (s.readRef (.l l))) := by
  have hc := hI.b2 l hl
  obtain ⟨h1, h2, h3⟩ := freezeR_spec cfg hI hc
  unfold ctorL at hok ⊢
  simp only at hok ⊢
  obtain ⟨hm, hv⟩ := h3 hok
  have hI2 := allocL_inv { mu := false, mp := (s.ls l).mp, circ := (freezeR cfg s (s.ls l).circ).2 } h1.inv h2
    (by intro h; rw [hm] at h; cases h) (by intro h; cases h)
  refine ⟨hI2, h1.fr.trans (allocL_frame _ _), ?_, ?_⟩
  · simp [Handout, St.allocL]
  · simp [St.readRef, St.allocL, ctorV, hv]

theorem freezeL_spec (cfg : Cfg) {s : St} (hI : Inv s) {l : Nat} (hl : l < s.nL)
    (hok : (freezeL cfg s l).2.2 = true) :
    Derived s (freezeL cfg s l).1 (.l (freezeL cfg s l).2.1) (freezeV (s.readRef (.l l))) := by
  unfold freezeL at hok ⊢
  by_cases hm : (s.ls l).mu = true
  · simp only [hm, if_true] at hok ⊢
    have := ctorL_spec cfg hI hl hok
    simpa [freezeV, ctorV, St.readRef, hm] using this
  · simp only [hm] at hok ⊢
    refine ⟨hI, Frame.refl s, ?_, ?_⟩
    · simp [Handout, hl, hm]
    · simp [freezeV, St.readRef, hm]

theorem copyL_spec (cfg : Cfg) {s : St} (hI : Inv s) {l : Nat} (hl : l < s.nL) :
    Derived s (copyL cfg s l).1 (.l (copyL cfg s l).2) (copyV (s.readRef (.l l))) := by
  have hc := hI.b2 l hl
  obtain ⟨h1, h2, h3, h4, h5⟩ := copyR_spec cfg hI hc
  unfold copyL
  simp only
  rw [h2]
  have hmu : (copyR cfg s (s.ls l).circ).1.rMut s.nR = true := by simp [St.rMut, h4, RVal.thawed]
  have hI2 := allocL_inv { mu := true, mp := (s.ls l).mp, circ := s.nR } h1.inv (by show s.nR < _; rw [h3]; omega)
    (fun _ => h5) (fun _ => hmu)
  refine ⟨hI2, h1.fr.trans (allocL_frame _ _), ?_, ?_⟩
  · refine ⟨by simp [St.allocL], fun _ => ?_⟩
    have := allocL_unrefL { mu := true, mp := (s.ls l).mp, circ := s.nR } h1.inv
    simpa [St.allocL] using this
  · simp [St.readRef, St.allocL, copyV, h4]

theorem freezeRef_spec (cfg : Cfg) {s : St} (hI : Inv s) {r : Ref} (hr : RefOK s r)
    (hok : (freezeRef cfg s r).2.2 = true) :
    Derived s (freezeRef cfg s r).1 (freezeRef cfg s r).2.1 (freezeV (s.readRef r)) := by
  cases r with
  | r a =>
    obtain ⟨h1, h2, h3⟩ := freezeR_spec cfg hI hr
    simp only [freezeRef] at hok ⊢
    obtain ⟨hm, hv⟩ := h3 hok
    exact ⟨h1.inv, h1.fr, ⟨h2, by intro h; rw [hm] at h; cases h⟩, by simp [St.readRef, freezeV, hv]⟩
  | l l =>
    simp only [freezeRef] at hok ⊢
    exact freezeL_spec cfg hI hr hok

/-! ### writing through a reference -/

/-- nobody except handle `o` reaches the cells behind `r` -/
def Excl (s : St) (r : Ref) (o : Option Nat) : Prop :=
  match r with
  | .r a => (∀ i, i < s.nH → some i ≠ o → (s.hs i).ref ≠ .r a) ∧ (∀ l, l < s.nL → (s.ls l).circ ≠ a)
  | .l l => (∀ i, i < s.nH → some i ≠ o → (s.hs i).ref ≠ .l l) ∧
            (∀ i, i < s.nH → (s.hs i).ref ≠ .r (s.ls l).circ) ∧
            (∀ l', l' < s.nL → l' ≠ l → (s.ls l').circ ≠ (s.ls l).circ)

theorem excl_of_handle {s : St} (hI : Inv s) {h : Nat} (hh : h < s.nH) (hm : s.refMut (s.hs h).ref = true) :
    Excl s (s.hs h).ref (some h) := by
  obtain ⟨b1, b2, o1, o2, o3, o4, t, d⟩ := hI
  have hb := b1 h hh
  cases hr : (s.hs h).ref with
  | r a =>
    rw [hr] at hm hb
    simp only [St.refMut] at hm
    refine ⟨?_, ?_⟩
    · intro i hi hne e
      have := o1 i h a hi hh (by intro e'; apply hne; rw [e']) e hr
      rw [this] at hm; cases hm
    · intro l hl e
      have := o2 h l a hh hl hr e
      rw [this] at hm; cases hm
  | l l =>
    rw [hr] at hm hb
    simp only [St.refMut] at hm
    simp only [RefOK] at hb
    have hc := t l hb hm
    refine ⟨?_, ?_, ?_⟩
    · intro i hi hne e
      have := o4 i h l hi hh (by intro e'; apply hne; rw [e']) e hr
      rw [this] at hm; cases hm
    · intro i hi e
      have := o2 i l _ hi hb e rfl
      rw [this] at hc; cases hc
    · intro l' hl' hne e
      have := o3 l' l hl' hb hne e
      rw [e, hc] at this; cases this

theorem baseOk_inval {cfg : Cfg} (hb : cfg.baseOk = true) (c : Cls) : (cfg.fam c).invalidates = true := by
  simp [Cfg.baseOk] at hb
  unfold Cfg.fam
  split <;> simp [hb]

theorem writeRef_spec {cfg : Cfg} (hb : cfg.baseOk = true) {s : St} (hI : Inv s) {r : Ref} (hr : RefOK s r)
    {o : Option Nat} (hx : Excl s r o) (c : Core) :
    Inv (writeRef cfg s r c) ∧
    (∀ i, i < s.nH → some i ≠ o → (writeRef cfg s r c).absH i = s.absH i) ∧
    (writeRef cfg s r c).readRef r = (s.readRef r).setCore c ∧
    (writeRef cfg s r c).hs = s.hs ∧ (writeRef cfg s r c).nH = s.nH ∧ (writeRef cfg s r c).nR = s.nR ∧
    (writeRef cfg s r c).nL = s.nL ∧ (writeRef cfg s r c).np = s.np ∧
    (∀ r', (writeRef cfg s r c).refMut r' = s.refMut r') ∧
    (∀ l, ((writeRef cfg s r c).ls l).circ = (s.ls l).circ) := by
  obtain ⟨b1, b2, o1, o2, o3, o4, t, d⟩ := hI
  cases r with
  | r a =>
    obtain ⟨x1, x2⟩ := hx
    have hinv := baseOk_inval hb (s.rs a).v.cls
    simp only [writeRef, hinv, if_true]
    refine ⟨?_, ?_, ?_, by trivial, by trivial, by trivial, by trivial, by trivial, ?_, by intros; trivial⟩
    · constructor <;> simp only [St.rMut] at *
      · intro i hi; have := b1 i hi
        cases h : (s.hs i).ref <;> simp_all [RefOK]
      · exact b2
      · intro i j a' hi hj hij e1 e2
        have := o1 i j a' hi hj hij e1 e2
        grind [upd]
      · intro i l a' hi hl e1 e2
        have := o2 i l a' hi hl e1 e2
        grind [upd]
      · intro l l' hl hl' hne e
        have := o3 l l' hl hl' hne e
        grind [upd]
      · exact o4
      · intro l hl hm
        have := t l hl hm
        grind [upd]
      · intro a' n ha' h
        have := d a' n ha'
        grind [upd]
    · intro i hi hne
      have hx1 := x1 i hi hne
      have hb1 := b1 i hi
      unfold St.absH
      cases hh : s.hs i with
      | c r' =>
        cases r' with
        | r a' =>
          have : a' ≠ a := by intro e; apply hx1; simp [hh, Hd.ref, e]
          simp [St.readH, St.readRef, upd, this]
        | l l' =>
          have hl' : l' < s.nL := by simpa [hh, Hd.ref, RefOK] using hb1
          have := x2 l' hl'
          simp [St.readH, St.readRef, upd, this]
      | s r' =>
        cases r' with
        | r a' =>
          have : a' ≠ a := by intro e; apply hx1; simp [hh, Hd.ref, e]
          simp [St.readH, St.readRef, upd, this]
        | l l' =>
          have hl' : l' < s.nL := by simpa [hh, Hd.ref, RefOK] using hb1
          have := x2 l' hl'
          simp [St.readH, St.readRef, upd, this]
    · simp [St.readRef, CV.setCore]
    · intro r'
      cases r' with
      | r a' => by_cases h : a' = a <;> simp [St.refMut, St.rMut, upd, h]
      | l l' => simp [St.refMut]
  | l l =>
    obtain ⟨x1, x2, x3⟩ := hx
    have hinv := baseOk_inval hb (s.rs (s.ls l).circ).v.cls
    simp only [writeRef, hinv, if_true]
    refine ⟨?_, ?_, ?_, by trivial, by trivial, by trivial, by trivial, by trivial, ?_, ?_⟩
    · constructor <;> simp only [St.rMut] at *
      · intro i hi; have := b1 i hi
        cases h : (s.hs i).ref <;> simp_all [RefOK]
      · intro l' hl'
        have := b2 l' hl'
        grind [upd]
      · intro i j a' hi hj hij e1 e2
        have := o1 i j a' hi hj hij e1 e2
        grind [upd]
      · intro i l' a' hi hl e1 e2
        have := o2 i l' a' hi hl e1
        grind [upd]
      · intro l1 l2 hl1 hl2 hne e
        have := o3 l1 l2 hl1 hl2 hne
        grind [upd]
      · intro i j l' hi hj hij e1 e2
        have := o4 i j l' hi hj hij e1 e2
        grind [upd]
      · intro l' hl' hm
        have := t l' hl'
        grind [upd]
      · intro a' n ha' h
        have := d a' n ha'
        grind [upd]
    · intro i hi hne
      have hx1 := x1 i hi hne
      have hx2 := x2 i hi
      have hb1 := b1 i hi
      unfold St.absH
      cases hh : s.hs i with
      | c r' =>
        cases r' with
        | r a' =>
          have : a' ≠ (s.ls l).circ := by intro e; apply hx2; simp [hh, Hd.ref, e]
          simp [St.readH, St.readRef, upd, this]
        | l l' =>
          have hl' : l' < s.nL := by simpa [hh, Hd.ref, RefOK] using hb1
          have hne' : l' ≠ l := by intro e; apply hx1; simp [hh, Hd.ref, e]
          have := x3 l' hl' hne'
          simp [St.readH, St.readRef, upd, this, hne']
      | s r' =>
        cases r' with
        | r a' =>
          have : a' ≠ (s.ls l).circ := by intro e; apply hx2; simp [hh, Hd.ref, e]
          simp [St.readH, St.readRef, upd, this]
        | l l' =>
          have hl' : l' < s.nL := by simpa [hh, Hd.ref, RefOK] using hb1
          have hne' : l' ≠ l := by intro e; apply hx1; simp [hh, Hd.ref, e]
          have := x3 l' hl' hne'
          simp [St.readH, St.readRef, upd, this, hne']
    · simp [St.readRef, CV.setCore]
    · intro r'
      cases r' with
      | r a' => by_cases h : a' = (s.ls l).circ <;> simp [St.refMut, St.rMut, upd, h]
      | l l' => by_cases h : l' = l <;> simp [St.refMut, upd, h]
    · intro l'
      by_cases h : l' = l <;> simp [upd, h]

end QV.C20
