import QuriVerif.Model.C02
/-
  Soundness of the kind-level abstract interpretation (C02):
  for every circuit `c` with kinds in `K`, every pass, every fuel:
  if the model pass returns `r` then the kinds of `r` lie in `absPass … K`.
-/
namespace QV.C02
open QV QV.C01

theorem allKinds_mono {c : List NGate} {K K' : List Kind} (h : allKinds c K) (hs : ∀ k ∈ K, k ∈ K') :
    allKinds c K' := fun g hg => hs _ (h g hg)

theorem flatMap_kinds (d : NGate → List NGate) (ad : Kind → List Kind)
    (h : ∀ g, ∀ x ∈ d g, x.kind ∈ ad g.kind) (c : List NGate) (K : List Kind) (hc : allKinds c K) :
    allKinds (c.flatMap d) (K.flatMap ad) := by
  intro x hx
  rw [List.mem_flatMap] at hx
  obtain ⟨g, hg, hxg⟩ := hx
  rw [List.mem_flatMap]
  exact ⟨g.kind, hc g hg, h g x hxg⟩

theorem instantiate_kind (t : Template) (g : NGate) : ∀ x ∈ instantiate t g, x.kind ∈ bodyKinds t := by
  intro x hx
  simp only [instantiate, List.mem_map] at hx
  obtain ⟨b, hb, rfl⟩ := hx
  simp only [bodyKinds, List.mem_map]
  exact ⟨b, hb, rfl⟩

theorem decompPass_kinds (tbl : Table) (names : List String) (c : List NGate) (K : List Kind)
    (hc : allKinds c K) : allKinds (decompPass tbl names c) (absDecomp tbl names K) := by
  unfold decompPass absDecomp
  apply flatMap_kinds _ _ _ c K hc
  intro g x hx
  cases h : lookupKind tbl names g.kind with
  | none => simp only [h, List.mem_singleton] at hx ⊢; rw [hx]
  | some t => simp only [h] at hx ⊢; exact instantiate_kind t g x hx

theorem ladderRowOut_kinds (r : LadderRow) (alt : Nat) (g : NGate) :
    ∀ x ∈ ladderRowOut r alt g, x = g ∨ x.kind ∈
      (match r.alts.getD (if r.alts.length == 1 then 0 else alt) none with
       | none => []
       | some t => bodyKinds t) := by
  intro x hx
  unfold ladderRowOut at hx
  cases h : r.alts.getD (if r.alts.length == 1 then 0 else alt) none with
  | none => simp only [h, List.mem_singleton] at hx; exact Or.inl hx
  | some t => simp only [h] at hx; exact Or.inr (instantiate_kind t g x hx)

theorem ladderGate_kinds (l : Ladder) (alt : Nat) (g : NGate) :
    ∀ x ∈ ladderGate l alt g, x.kind ∈ g.kind :: l.rows.flatMap fun r =>
      match r.alts.getD (if r.alts.length == 1 then 0 else alt) none with
      | none => []
      | some t => bodyKinds t := by
  intro x hx
  unfold ladderGate at hx
  by_cases hk : (g.kind != l.kind) = true
  · simp only [hk, if_true, List.mem_singleton] at hx; rw [hx]; exact List.mem_cons_self
  · simp only [hk, Bool.false_eq_true, if_false] at hx
    cases hf : l.rows.find? (fun r => condHolds (ladderAngle l g) r.cond) with
    | none => simp only [hf, List.mem_singleton] at hx; rw [hx]; exact List.mem_cons_self
    | some r =>
      simp only [hf] at hx
      have hmem := List.mem_of_find?_eq_some hf
      cases ladderRowOut_kinds r alt g x hx with
      | inl h => rw [h]; exact List.mem_cons_self
      | inr h =>
        apply List.mem_cons_of_mem
        rw [List.mem_flatMap]
        exact ⟨r, hmem, h⟩

theorem ladderPass_kinds (ls : List Ladder) (alt : Nat) (c : List NGate) (K : List Kind)
    (hc : allKinds c K) : allKinds (ladderPass ls alt c) (K.flatMap (absLadderKind ls alt)) := by
  unfold ladderPass
  apply flatMap_kinds _ _ _ c K hc
  intro g x hx
  unfold absLadderKind
  cases h : ls.find? (·.kind == g.kind) with
  | none => simp only [h, List.mem_singleton] at hx ⊢; rw [hx]
  | some l => simp only [h] at hx ⊢; exact ladderGate_kinds l alt g x hx

theorem clifConvPass_kinds (table : List (Kind × List (List Kind))) (cliff1q tset : List Kind)
    (c : List NGate) (K : List Kind) (hc : allKinds c K) :
    allKinds (clifConvPass table cliff1q tset c) (K.flatMap (absClif table cliff1q tset)) := by
  unfold clifConvPass
  apply flatMap_kinds _ _ _ c K hc
  intro g x hx
  unfold absClif
  by_cases h1 : (!cliff1q.contains g.kind) = true
  · simp only [h1, if_true, List.mem_singleton] at hx ⊢; rw [hx]
  · simp only [h1, Bool.false_eq_true, if_false] at hx ⊢
    by_cases h2 : tset.contains g.kind = true
    · simp only [h2, if_true, List.mem_singleton] at hx ⊢; rw [hx]
    · simp only [h2, Bool.false_eq_true, if_false] at hx ⊢
      cases h3 : table.find? (·.1 == g.kind) with
      | none => simp only [h3, List.mem_singleton] at hx ⊢; rw [hx]
      | some kc =>
        obtain ⟨k, cands⟩ := kc
        simp only [h3] at hx ⊢
        cases h4 : cands.find? (fun cand => cand.all tset.contains) with
        | none => simp only [h4, List.mem_singleton] at hx ⊢; rw [hx]
        | some cand =>
          simp only [h4, List.mem_map] at hx ⊢
          obtain ⟨k', hk', hx⟩ := hx
          rw [← hx]
          exact hk'

/-- a predicate that holds on the input and is preserved by `fuse` holds on the fuser's output -/
theorem fuserLoop_all {G : Type} (P : G → Prop) (k : Nat) (isT : List G → Bool) (fuse : List G → List G)
    (hf : ∀ ts, (∀ x ∈ ts, P x) → ∀ y ∈ fuse ts, P y) :
    ∀ fuel xs ys out, (∀ x ∈ xs, P x) → (∀ y ∈ ys, P y) →
      fuserLoop k isT fuse fuel xs ys = some out → ∀ z ∈ out, P z := by
  intro fuel
  induction fuel with
  | zero => intro xs ys out _ _ e; simp [fuserLoop] at e
  | succ fuel ih =>
    intro xs ys out hx hy e
    unfold fuserLoop at e
    by_cases hk : k ≤ xs.length
    · simp only [hk, if_true] at e
      by_cases ht : isT (xs.take k) = true
      · simp only [ht, if_true] at e
        apply ih _ _ _ _ hy e
        intro x hxm
        rw [List.mem_append] at hxm
        cases hxm with
        | inl h => exact hf _ (fun y hy' => hx y (List.mem_of_mem_take hy')) x h
        | inr h => exact hx x (List.mem_of_mem_drop h)
      · simp only [ht] at e
        cases xs with
        | nil =>
          simp at e; subst e; exact hy
        | cons x rest =>
          simp at e
          apply ih _ _ _ _ _ e
          · intro y hy'; exact hx y (List.mem_cons_of_mem _ hy')
          · intro y hy'
            rw [List.mem_append] at hy'
            cases hy' with
            | inl h => exact hy y h
            | inr h => simp at h; rw [h]; exact hx x List.mem_cons_self
    · simp only [hk, if_false] at e
      injection e with e
      subst e
      intro z hz
      rw [List.mem_append] at hz
      cases hz with
      | inl h => exact hy z h
      | inr h => exact hx z h

theorem rotFuse_kind (K : List Kind) (ts : List NGate) (h : ∀ x ∈ ts, x.kind ∈ K) :
    ∀ y ∈ rotFuse ts, y.kind ∈ K := by
  intro y hy
  unfold rotFuse at hy
  split at hy
  · rename_i l r
    simp only [List.mem_singleton] at hy
    rw [hy]
    exact h l List.mem_cons_self
  · exact h y hy

theorem fuseRotPass_kinds (c r : List NGate) (K : List Kind) (hc : allKinds c K)
    (e : fuseRotPass c = some r) : allKinds r K := by
  unfold fuseRotPass at e
  exact fuserLoop_all (fun g => g.kind ∈ K) 2 rotIsTarget rotFuse (rotFuse_kind K) _ c [] r
    (fun x hx => hc x hx) (by intro y hy; cases hy) e

theorem fuseCHCPass_kinds (tpl : Template) (c r : List NGate) (K : List Kind) (hc : allKinds c K)
    (e : fuseCHCPass tpl c = some r) : allKinds r (K ++ bodyKinds tpl) := by
  unfold fuseCHCPass at e
  refine fuserLoop_all (fun g => g.kind ∈ K ++ bodyKinds tpl) 3 chcIsTarget (chcFuse tpl) ?_ _ c [] r
    (fun g hg => List.mem_append_left _ (hc g hg)) (by intro y hy; cases hy) e
  intro ts _ y hy
  unfold chcFuse at hy
  split at hy
  · exact List.mem_append_right _ (instantiate_kind tpl _ y hy)
  · cases hy

theorem pauliDec_kinds (g : NGate) : ∀ x ∈ pauliDec g, x.kind ∈ [Kind.X, .Y, .Z] := by
  intro x hx
  simp only [pauliDec, List.mem_filterMap] at hx
  obtain ⟨⟨q, p⟩, _, h⟩ := hx
  simp only at h
  split at h
  · injection h with h; subst h; simp
  · split at h
    · injection h with h; subst h; simp
    · split at h
      · injection h with h; subst h; simp
      · cases h

theorem rotGates_kinds (s : Int) (g : NGate) : ∀ x ∈ rotGates s g, x.kind ∈ [Kind.H, .RX, .CNOT, .RZ] := by
  intro x hx
  simp only [rotGates, List.mem_filterMap] at hx
  obtain ⟨⟨q, p⟩, _, h⟩ := hx
  simp only at h
  split at h
  · injection h with h; subst h; simp
  · split at h
    · injection h with h; subst h; simp
    · cases h

theorem pauliRotDec_kinds (g : NGate) : ∀ x ∈ pauliRotDec g, x.kind ∈ [Kind.H, .RX, .CNOT, .RZ] := by
  intro x hx
  unfold pauliRotDec at hx
  split at hx
  · cases hx
  · simp only [List.mem_append, List.mem_map, List.mem_singleton, List.mem_reverse] at hx
    rcases hx with (((h | h) | h) | h) | h
    · exact rotGates_kinds _ g x h
    · obtain ⟨_, _, rfl⟩ := h; simp
    · rw [h]; simp
    · obtain ⟨_, _, rfl⟩ := h; simp
    · exact rotGates_kinds _ g x h

theorem cnotRzRzzLoop_kinds (K : List Kind) : ∀ fuel xs ys,
    (∀ x ∈ xs, x.kind ∈ K ++ [Kind.RZZ]) → (∀ y ∈ ys, y.kind ∈ K ++ [Kind.RZZ]) →
    ∀ z ∈ cnotRzRzzLoop fuel xs ys, z.kind ∈ K ++ [Kind.RZZ] := by
  intro fuel
  induction fuel with
  | zero =>
    intro xs ys hx hy z hz
    simp only [cnotRzRzzLoop, List.mem_append] at hz
    cases hz with
    | inl h => exact hy z h
    | inr h => exact hx z h
  | succ fuel ih =>
    intro xs ys hx hy z hz
    unfold cnotRzRzzLoop at hz
    split at hz
    · rename_i a b c rest
      split at hz
      · apply ih _ _ _ _ z hz
        · intro x hx'; exact hx x (by simp [hx'])
        · intro y hy'
          rw [List.mem_append] at hy'
          cases hy' with
          | inl h => exact hy y h
          | inr h => simp at h; rw [h]; simp
      · apply ih _ _ _ _ z hz
        · intro x hx'; exact hx x (List.mem_cons_of_mem _ hx')
        · intro y hy'
          rw [List.mem_append] at hy'
          cases hy' with
          | inl h => exact hy y h
          | inr h => simp at h; rw [h]; exact hx a List.mem_cons_self
    · rw [List.mem_append] at hz
      cases hz with
      | inl h => exact hy z h
      | inr h => exact hx z h

/-- the abstract interpretation is sound for `runPass` and `runSeq` -/
theorem run_kinds (e : Env) : ∀ fuel,
    (∀ p c K r, allKinds c K → runPass e fuel p c = .ok r → allKinds r (absPass e fuel p K)) ∧
    (∀ ps c K r, allKinds c K → runSeq e fuel ps c = .ok r → allKinds r (absSeq e fuel ps K)) := by
  intro fuel
  induction fuel with
  | zero =>
    constructor
    · intro p c K r _ h; simp [runPass] at h
    · intro ps c K r _ h; simp [runSeq] at h
  | succ fuel ih =>
    obtain ⟨ihP, ihS⟩ := ih
    constructor
    · intro p c K r hc h
      cases p with
      | decomp names =>
        simp only [runPass] at h; injection h with h; subst h
        simp only [absPass]; exact decompPass_kinds _ _ _ _ hc
      | fuseRot =>
        simp only [runPass] at h
        split at h
        · rename_i r' hr; injection h with h; subst h
          simp only [absPass]; exact fuseRotPass_kinds _ _ _ hc hr
        · cases h
      | fuseCHC =>
        simp only [runPass] at h
        split at h
        · rename_i r' hr; injection h with h; subst h
          simp only [absPass]; exact fuseCHCPass_kinds _ _ _ _ hc hr
        · cases h
      | normalize lo =>
        simp only [runPass] at h; injection h with h; subst h
        simp only [absPass]
        intro x hx
        simp only [normalizePass, List.mem_map] at hx
        obtain ⟨g, hg, rfl⟩ := hx
        split
        · exact hc g hg
        · exact hc g hg
      | ladder names alt =>
        simp only [runPass] at h; injection h with h; subst h
        simp only [absPass]; exact ladderPass_kinds _ _ _ _ hc
      | clifConv tset =>
        simp only [runPass] at h; injection h with h; subst h
        simp only [absPass]; exact clifConvPass_kinds _ _ _ _ _ hc
      | idElim =>
        simp only [runPass] at h; injection h with h; subst h
        simp only [absPass]
        intro x hx
        simp only [idElimPass, List.mem_filter] at hx
        rw [List.mem_filter]
        exact ⟨hc x hx.1, hx.2⟩
      | idInsert n =>
        simp only [runPass] at h; injection h with h; subst h
        simp only [absPass]
        intro x hx
        unfold idInsertPass at hx
        simp only at hx
        split at hx
        · exact List.mem_append_left _ (hc x hx)
        · rw [List.mem_append] at hx
          cases hx with
          | inl h => exact List.mem_append_left _ (hc x h)
          | inr h =>
            simp only [List.mem_map] at h
            obtain ⟨_, _, rfl⟩ := h
            simp
      | pauliDec =>
        simp only [runPass] at h; injection h with h; subst h
        simp only [absPass, pauliDecPass]
        apply flatMap_kinds _ _ _ c K hc
        intro g x hx
        split at hx
        · rename_i hk
          have : g.kind = Kind.Pauli := by simpa using hk
          simp only [this, beq_self_eq_true, if_true]
          exact pauliDec_kinds g x hx
        · rename_i hk
          simp only [List.mem_singleton] at hx
          simp only [hk]
          simp only [Bool.false_eq_true, if_false, List.mem_singleton]; rw [hx]
      | pauliRotDec =>
        simp only [runPass] at h; injection h with h; subst h
        simp only [absPass, pauliRotDecPass]
        apply flatMap_kinds _ _ _ c K hc
        intro g x hx
        split at hx
        · rename_i hk
          have : g.kind = Kind.PauliRotation := by simpa using hk
          simp only [this, beq_self_eq_true, if_true]
          exact pauliRotDec_kinds g x hx
        · rename_i hk
          simp only [List.mem_singleton] at hx
          simp only [hk]
          simp only [Bool.false_eq_true, if_false, List.mem_singleton]; rw [hx]
      | um1 => simp only [runPass] at h; injection h with h; subst h; simpa only [absPass] using hc
      | um2 => simp only [runPass] at h; injection h with h; subst h; simpa only [absPass] using hc
      | cnotRzRzz =>
        simp only [runPass] at h; injection h with h; subst h
        simp only [absPass, cnotRzRzzPass]
        exact cnotRzRzzLoop_kinds K _ c [] (fun x hx => List.mem_append_left _ (hc x hx)) (by intro y hy; cases hy)
      | cliffApprox => simp only [runPass] at h; cases h
      | rotConv rots fav =>
        simp only [runPass] at h
        split at h
        · cases h
        · rename_i r' hr
          split at h
          · cases h
          · rename_i hv
            injection h with h; subst h
            simp only [absPass]
            intro x hx
            rw [List.mem_filter]
            refine ⟨ihS _ _ _ _ hc hr x hx, ?_⟩
            simp only [List.any_eq_true, not_exists, not_and] at hv
            have := hv x hx
            cases hr' : isRot x.kind <;> simp_all
      | gateSetConv gs validate =>
        simp only [runPass] at h
        split at h
        · cases h
        · rename_i r' hr
          split at h
          · cases h
          · rename_i hv
            injection h with h; subst h
            simp only [absPass]
            have hall := ihS _ _ _ _ hc hr
            cases validate with
            | false => simpa using hall
            | true =>
              simp only [if_true]
              intro x hx
              rw [List.mem_filter]
              refine ⟨hall x hx, ?_⟩
              simp only [Bool.true_and, List.any_eq_true, not_exists, not_and] at hv
              have := hv x hx
              simpa using this
    · intro ps c K r hc h
      cases ps with
      | nil => simp only [runSeq] at h; injection h with h; subst h; simpa only [absSeq] using hc
      | cons p ps =>
        simp only [runSeq] at h
        split at h
        · cases h
        · rename_i r' hr
          simp only [absSeq]
          exact ihS _ _ _ _ (ihP _ _ _ _ hc hr) h

end QV.C02
