import QuriVerif.Proof.C20Ops
/-
  C20 — one implementation step simulates one specification step (used by Props/C20.lean).
-/
namespace QV.C20

/-! ### remaining helpers: `allocCV`, `bindR` -/

/-- a mutable linear-mapped value wraps a mutable parametric circuit -/
def WfL : CV → Prop
  | .r _ => True
  | .l v => v.mu = true → v.pc.cls.mu = true

theorem allocCV_spec {s : St} (hI : Inv s) (cv : CV) (hw : WfL cv) (imm : Bool) (dc : Option Nat)
    (hd : ∀ n, dc = some n → n = depth cv.gs) :
    Derived s (allocCV s cv imm dc).1 (allocCV s cv imm dc).2 cv := by
  cases cv with
  | r v =>
    simp only [allocCV]
    refine ⟨allocR_inv _ hI (by simpa [CV.gs] using hd), allocR_frame _ _, ?_, by simp [St.readRef, St.allocR]⟩
    refine ⟨by simp [St.allocR], fun _ => ?_⟩
    simpa [St.allocR] using allocR_unref ⟨v, imm, dc, 0⟩ hI
  | l v =>
    simp only [allocCV]
    have hI1 := allocR_inv ⟨v.pc, imm, dc, 0⟩ hI (by simpa [CV.gs] using hd)
    have hu := allocR_unref ⟨v.pc, imm, dc, 0⟩ hI
    have hI2 := allocL_inv ⟨v.mu, v.mp, s.nR⟩ hI1 (by simp [St.allocR]) (fun _ => hu)
      (by intro h; simpa [St.allocR, St.rMut] using hw h)
    refine ⟨hI2, (allocR_frame _ _).trans (allocL_frame _ _), ?_, by simp [St.readRef, St.allocR, St.allocL]⟩
    refine ⟨by simp [St.allocR, St.allocL], fun _ => ?_⟩
    have := allocL_unrefL ⟨v.mu, v.mp, s.nR⟩ hI1
    simpa [St.allocR, St.allocL] using this

theorem depth_congr {gs gs' : List G} (h : gs.map (·.qs) = gs'.map (·.qs)) : depth gs = depth gs' := by
  simp [depth, h]

theorem bindR_spec (cfg : Cfg) {s : St} (hI : Inv s) {src : Nat} (hsrc : src < s.nR) (v : RVal)
    (hq : v.gs.map (·.qs) = (s.rs src).v.gs.map (·.qs)) :
    Derived s (bindR cfg s src v).1 (.r (bindR cfg s src v).2) (.r v) := by
  have hdep := depth_congr hq
  unfold bindR
  split
  · refine ⟨allocR_inv _ hI ?_, allocR_frame _ _, ?_, by simp [St.readRef, St.allocR, bindCell]⟩
    · intro n hn
      simp only [bindCell] at hn ⊢
      split at hn
      · rw [hdep]; exact hI.d src n hsrc hn
      · cases hn
    · refine ⟨by simp [St.allocR], fun _ => ?_⟩
      simpa [St.allocR] using allocR_unref (bindCell cfg s src v src) hI
  · obtain ⟨h1, h2, _⟩ := freezeR_spec cfg hI hsrc
    simp only
    have hsrc' : src < (freezeR cfg s src).1.nR := Nat.lt_of_lt_of_le hsrc h1.fr.nR
    refine ⟨allocR_inv _ h1.inv ?_, h1.fr.trans (allocR_frame _ _), ?_, by simp [St.readRef, St.allocR, bindCell]⟩
    · intro n hn
      simp only [bindCell] at hn ⊢
      split at hn
      · rw [hdep, ← h1.fr.rv src hsrc]; exact h1.inv.d src n hsrc' hn
      · cases hn
    · refine ⟨by simp [St.allocR], fun _ => ?_⟩
      simpa [St.allocR] using allocR_unref (bindCell cfg (freezeR cfg s src).1 src v (freezeR cfg s src).2) h1.inv

theorem bindGs_qs : ∀ (gs : List G) (vals : List Int) (r : List G × List (Nat × Int) × List Int),
    bindGs gs vals = some r → r.1.map (·.qs) = gs.map (·.qs)
  | [], vals, r, h => by simp [bindGs] at h; subst h; rfl
  | g :: gs, vals, r, h => by
    unfold bindGs at h
    split at h
    · simp only [Option.map_eq_some_iff] at h
      obtain ⟨r', hr', e⟩ := h
      subst e
      simp [bindGs_qs gs vals r' hr']
    · split at h
      · cases h
      · simp only [Option.map_eq_some_iff] at h
        obtain ⟨r', hr', e⟩ := h
        subst e
        simp [bindGs_qs gs _ r' hr']

theorem bindV_ok {w v : RVal} {vals : List Int} (h : bindV w vals = .ok v) :
    v.gs.map (·.qs) = w.gs.map (·.qs) := by
  unfold bindV at h
  split at h
  · rename_i gs m hb
    cases h
    exact bindGs_qs _ _ _ hb
  · cases h

theorem bindL_ok {w : LVal} {v : RVal} {vals : List Int} (h : bindL w vals = .ok v) :
    v.gs.map (·.qs) = w.pc.gs.map (·.qs) := by
  unfold bindL at h
  split at h
  · cases h
  · split at h
    · cases h
    · exact bindV_ok h

/-! ### relation between implementation and specification states -/

structure Rel (s : St) (t : Sp) : Prop where
  nH : s.nH = t.nH
  np : s.np = t.np
  vs : ∀ i, i < s.nH → s.absH i = t.vs i

theorem Rel.init : Rel St.init Sp.init := ⟨rfl, rfl, fun i hi => by simp [St.init] at hi⟩

theorem Rel.look {s : St} {t : Sp} (hR : Rel s t) : s.look = t.look := by
  funext i
  unfold St.look Sp.look
  rw [← hR.nH]
  split
  · rename_i h; rw [hR.vs i h]
  · rfl

theorem look_c {s : St} {h : Nat} {r : Ref} (hh : h < s.nH) (e : s.hs h = .c r) :
    s.look h = some (.c (s.readRef r)) := by simp [St.look, hh, St.absH, e, St.readH]
theorem look_s {s : St} {h : Nat} {r : Ref} (hh : h < s.nH) (e : s.hs h = .s r) :
    s.look h = some (.s (s.readRef r)) := by simp [St.look, hh, St.absH, e, St.readH]
theorem look_none {s : St} {h : Nat} (hh : ¬ h < s.nH) : s.look h = none := by simp [St.look, hh]

theorem sim_push_c {s s1 : St} {t : Sp} {r : Ref} {cv : CV} (hI : Inv s) (hR : Rel s t)
    (hD : Derived s s1 r cv) :
    Inv (s1.push (.c r)) ∧ Rel (s1.push (.c r)) ⟨upd t.vs t.nH (.c cv), t.nH + 1, t.np⟩ := by
  refine ⟨push_inv _ hD.inv hD.ho, ?_, ?_, ?_⟩
  · simp [St.push, hD.fr.nH, hR.nH]
  · simp [St.push, hD.fr.np, hR.np]
  · intro i hi
    have hn : s1.nH = s.nH := hD.fr.nH
    by_cases h : i < s.nH
    · rw [push_absH_old _ _ (by omega), hD.fr.absH hI h, hR.vs i h]
      exact (upd_ne _ _ (by rw [← hR.nH]; omega)).symm
    · have : i = s.nH := by simp [St.push] at hi; omega
      subst this
      rw [← hn, push_absH_new, hn, hR.nH]
      show s1.readH (Hd.c r) = upd t.vs t.nH (Val.c cv) t.nH
      rw [upd_same]
      simp [St.readH, hD.rd]

theorem sim_push_s {s s1 : St} {t : Sp} {r : Ref} {cv : CV} (hI : Inv s) (hR : Rel s t)
    (hD : Derived s s1 r cv) :
    Inv (s1.push (.s r)) ∧ Rel (s1.push (.s r)) ⟨upd t.vs t.nH (.s cv), t.nH + 1, t.np⟩ := by
  refine ⟨push_inv _ hD.inv hD.ho, ?_, ?_, ?_⟩
  · simp [St.push, hD.fr.nH, hR.nH]
  · simp [St.push, hD.fr.np, hR.np]
  · intro i hi
    have hn : s1.nH = s.nH := hD.fr.nH
    by_cases h : i < s.nH
    · rw [push_absH_old _ _ (by omega), hD.fr.absH hI h, hR.vs i h]
      exact (upd_ne _ _ (by rw [← hR.nH]; omega)).symm
    · have : i = s.nH := by simp [St.push] at hi; omega
      subst this
      rw [← hn, push_absH_new, hn, hR.nH]
      show s1.readH (Hd.s r) = upd t.vs t.nH (Val.s cv) t.nH
      rw [upd_same]
      simp [St.readH, hD.rd]

end QV.C20
