import QuriVerif.Proof.ConjSound
import QuriVerif.Proof.C07
/-
  C07 over the concrete operator semantics (generic field part): the measurement circuit of
  `bitwise_commuting_pauli_measurement_circuit` (`Model/C07.measCircuit`) diagonalises every member of
  the set it is built for, on every register size:

        ⟦V⟧ · ⟦P⟧ = ⟦Z on the support of P⟧ · ⟦V⟧            (exactly, scalar 1)

  and the diagonal entry of the `Z` string at outcome `x` is the sign the model's reconstructor returns.

    * §1  the gates of the model (`MGate.toGate`, `vq`), the three local certificates (H X = Z H,
          (H Sdag) Y = Z (H Sdag), nothing for Z) as exact two-list identities `exact2`, kernel-checked;
    * §2  one factor through the whole circuit (`single_conj`), a whole label (`string_conj`);
    * §3  invariants of the `pauli_map` loop (`buildMap_inv`);
    * §4  `measCircuit_sound`;
    * §5  the diagonal of the `Z` string (`zLabel_col`), parity of bits (`popcountParity`) and the
          reconstructor (`reconstructor_eq_zsign`), the eigenvalue form `meas_eigen`;
    * §6  a qubit-wise commuting set of well-formed labels is accepted (`qwc_buildMap`).
-/
namespace QV.MatSound
open QV QV.Poly QV.C01 QV.C06

variable {K : Type} [Field K] {ζ : K} {ρ : ℕ → K}

/-! ### §1  gates and local certificates -/

/-- the gates emitted by the model, as gates of `Found/Gate` -/
def MGate.toGate : C07.MGate → Gate
  | .H q => G .H [] [q]
  | .Sdag q => G .Sdag [] [q]

/-- the basis change for one entry `(qubit, id)` of the `pauli_map`: X ↦ H, Y ↦ Sdag then H, Z ↦ nothing -/
def vq (e : ℕ × ℕ) : List Gate :=
  if e.2 == 1 then [G .H [] [e.1]] else if e.2 == 2 then [G .Sdag [] [e.1], G .H [] [e.1]] else []

/-- the whole measurement circuit of a `pauli_map` -/
def measGates (m : List (ℕ × ℕ)) : List Gate := m.flatMap vq

theorem measGates_model (m : List (ℕ × ℕ)) :
    (m.flatMap fun e => if e.2 == 1 then [C07.MGate.H e.1]
      else if e.2 == 2 then [C07.MGate.Sdag e.1, C07.MGate.H e.1] else []).map MGate.toGate
      = measGates m := by
  unfold measGates
  rw [List.map_flatMap]
  congr 1
  funext e
  unfold vq
  split
  · rfl
  · split <;> rfl

/-- `P·V` then … : `V·σ_p = Z·V` for the local circuit of `p`, as an exact identity on one qubit -/
theorem cert_X : exact2 1 (pgate 0 1 ++ vq (0, 1)) (vq (0, 1) ++ pgate 0 3) 0 = true := by
  decide +kernel
theorem cert_Y : exact2 1 (pgate 0 2 ++ vq (0, 2)) (vq (0, 2) ++ pgate 0 3) 0 = true := by
  decide +kernel
theorem cert_Z : exact2 1 (pgate 0 3 ++ vq (0, 3)) (vq (0, 3) ++ pgate 0 3) 0 = true := by
  decide +kernel

theorem cert_all (p : ℕ) (hp : p = 1 ∨ p = 2 ∨ p = 3) :
    exact2 1 (pgate 0 p ++ vq (0, p)) (vq (0, p) ++ pgate 0 3) 0 = true := by
  rcases hp with rfl | rfl | rfl
  · exact cert_X
  · exact cert_Y
  · exact cert_Z

theorem relabel_vq (σ : ℕ → ℕ) (e : ℕ × ℕ) : (vq e).map (Gate.relabel σ) = vq (σ e.1, e.2) := by
  unfold vq
  split
  · rfl
  · split <;> rfl

theorem onWires_vq (e : ℕ × ℕ) : OnWires (vq e) [e.1] := by
  intro g hg
  unfold vq at hg
  split at hg
  · simp at hg; subst hg; exact ⟨e.1, by simp, rfl⟩
  · split at hg
    · simp at hg; rcases hg with rfl | rfl <;> exact ⟨e.1, by simp, rfl⟩
    · cases hg

theorem onWires_measGates (m : List (ℕ × ℕ)) : OnWires (measGates m) (m.map (·.1)) := by
  intro g hg
  obtain ⟨e, he, hge⟩ := List.mem_flatMap.mp hg
  obtain ⟨q, hq, h⟩ := onWires_vq e g hge
  have : q = e.1 := by simpa using hq
  subst this
  exact ⟨e.1, List.mem_map.mpr ⟨e, he, rfl⟩, h⟩

theorem wf_measGates (n : ℕ) (m : List (ℕ × ℕ)) (hm : Sup n m) : WellFormed n (measGates m) :=
  (onWires_measGates m).wf (by
    intro q hq; obtain ⟨e, he, rfl⟩ := List.mem_map.mp hq; exact hm e he)

theorem wf_vq (n : ℕ) (e : ℕ × ℕ) (he : e.1 < n) : WellFormed n (vq e) :=
  (onWires_vq e).wf (by intro q hq; have : q = e.1 := by simpa using hq
                        omega)

/-- the local certificate on wire `q` of an `n`-qubit register -/
theorem local_conj (hζ : ζ ^ 8 = -1) (hρ : ∀ j, ρ j ≠ 0) (h2 : (2 : K) ≠ 0) (n : ℕ) (e : ℕ × ℕ)
    (hq : e.1 < n) (hp : e.2 = 1 ∨ e.2 = 2 ∨ e.2 = 3) :
    SEq ζ ρ n 1 (vq e ++ pgate e.1 3) (pgate e.1 e.2 ++ vq e) := by
  have P : Placement (fun _ => e.1) 1 n :=
    ⟨fun a ha b hb _ => by omega, fun _ _ => hq⟩
  have h := exact2_placed (ζ := ζ) (ρ := ρ) hζ hρ h2 1 _ _ 0 (cert_all e.2 hp) P
  simp only [List.map_append, relabel_vq, relabel_pgate] at h
  exact h.scalar (by simp)

/-! ### §2  one factor, one label -/

theorem disjoint_of_keys {X R : List Gate} {ws1 ws2 : List ℕ} (h1 : OnWires X ws1)
    (h2 : OnWires R ws2) (hd : ∀ q ∈ ws1, q ∉ ws2) : DisjointWires X R :=
  OnWires.disjoint h1 h2 hd

/-- **one factor through the circuit**: if `e` is an entry of the map (distinct qubits `< n`),
    `V·σ_e = Z_e·V` -/
theorem single_conj (hζ : ζ ^ 8 = -1) (hρ : ∀ j, ρ j ≠ 0) (h2 : (2 : K) ≠ 0) (n : ℕ) :
    ∀ (m : List (ℕ × ℕ)), Valid m → Sup n m → ∀ e ∈ m, (e.2 = 1 ∨ e.2 = 2 ∨ e.2 = 3) →
      SEq ζ ρ n 1 (measGates m ++ pgate e.1 3) (pgate e.1 e.2 ++ measGates m) := by
  intro m
  induction m with
  | nil => intro _ _ e he; cases he
  | cons a m ih =>
    intro hv hs e he hp
    unfold Valid at hv
    rw [List.pairwise_cons] at hv
    have hs' : Sup n m := fun x hx => hs x (List.mem_cons_of_mem _ hx)
    have ha : a.1 < n := hs a (List.mem_cons_self ..)
    have hV : measGates (a :: m) = vq a ++ measGates m := by simp [measGates]
    have wfm := wf_measGates n m hs'
    have wfa := wf_vq n a ha
    rw [hV]
    rcases List.mem_cons.mp he with rfl | he'
    · -- the entry itself: certificate, then Z commutes with the rest
      have hq := ha
      have s1 := SEq.context (ζ := ζ) (ρ := ρ) [] (measGates m)
        (OnWires.append (onWires_vq e) (onWires_pgate e.1 3) |>.wf (by
          intro q hq'; have : q = e.1 := by simpa using hq'
          omega))
        (OnWires.append (onWires_pgate e.1 e.2) (onWires_vq e) |>.wf (by
          intro q hq'; have : q = e.1 := by simpa using hq'
          omega))
        wfm (local_conj hζ hρ h2 n e hq hp)
      have s2 := SEq.context (ζ := ζ) (ρ := ρ) (vq e) []
        (show WellFormed n (measGates m ++ pgate e.1 3) from
          fun g hg => by
            rcases List.mem_append.mp hg with h | h
            · exact wfm g h
            · exact wf_pgate n e.1 3 hq g h)
        (show WellFormed n (pgate e.1 3 ++ measGates m) from fun g hg => by
            rcases List.mem_append.mp hg with h | h
            · exact wf_pgate n e.1 3 hq g h
            · exact wfm g h)
        (WellFormed.nil n)
        (SEq.comm (ζ := ζ) (ρ := ρ) n (measGates m) (pgate e.1 3) wfm (wf_pgate n e.1 3 hq)
          (OnWires.disjoint (onWires_measGates m) (onWires_pgate e.1 3) (by
            intro q hq' hq''
            have : q = e.1 := by simpa using hq''
            subst this
            obtain ⟨x, hx, hx1⟩ := List.mem_map.mp hq'
            exact hv.1 x hx hx1.symm)))
      have t := s2.trans (by simpa [List.append_assoc] using s1)
      simpa [List.append_assoc] using t.scalar (by simp)
    · -- an entry of the rest: commute with `vq a`, then induction
      have hq : e.1 < n := hs' e he'
      have hne : a.1 ≠ e.1 := hv.1 e he'
      have s1 := SEq.context (ζ := ζ) (ρ := ρ) [] (measGates m)
        (show WellFormed n (vq a ++ pgate e.1 e.2) from fun g hg => by
          rcases List.mem_append.mp hg with h | h
          · exact wfa g h
          · exact wf_pgate n e.1 e.2 hq g h)
        (show WellFormed n (pgate e.1 e.2 ++ vq a) from fun g hg => by
          rcases List.mem_append.mp hg with h | h
          · exact wf_pgate n e.1 e.2 hq g h
          · exact wfa g h)
        wfm
        (SEq.comm (ζ := ζ) (ρ := ρ) n (vq a) (pgate e.1 e.2) wfa (wf_pgate n e.1 e.2 hq)
          (OnWires.disjoint (onWires_vq a) (onWires_pgate e.1 e.2) (by
            intro q hq' hq''
            have h1 : q = a.1 := by simpa using hq'
            have h2 : q = e.1 := by simpa using hq''
            exact hne (h1.symm.trans h2))))
      have s2 := SEq.context (ζ := ζ) (ρ := ρ) (vq a) []
        (show WellFormed n (measGates m ++ pgate e.1 3) from fun g hg => by
            rcases List.mem_append.mp hg with h | h
            · exact wfm g h
            · exact wf_pgate n e.1 3 hq g h)
        (show WellFormed n (pgate e.1 e.2 ++ measGates m) from fun g hg => by
            rcases List.mem_append.mp hg with h | h
            · exact wf_pgate n e.1 e.2 hq g h
            · exact wfm g h)
        (WellFormed.nil n) (ih hv.2 hs' e he' hp)
      have t := (show SEq ζ ρ n 1 (vq a ++ measGates m ++ pgate e.1 3)
          (vq a ++ pgate e.1 e.2 ++ measGates m) by simpa [List.append_assoc] using s2).trans
        (show SEq ζ ρ n 1 (vq a ++ pgate e.1 e.2 ++ measGates m)
          (pgate e.1 e.2 ++ vq a ++ measGates m) by simpa [List.append_assoc] using s1)
      simpa [List.append_assoc] using t.scalar (by simp)

/-- the `Z` string on the qubits of a label -/
def zLabel (P : Label) : Label := P.map fun e => (e.1, 3)

theorem sup_zLabel {n : ℕ} {P : Label} (h : Sup n P) : Sup n (zLabel P) := by
  intro x hx
  obtain ⟨e, he, rfl⟩ := List.mem_map.mp hx
  exact h e he

/-- **a whole label through the circuit**: `V·⟦P⟧ = ⟦Z_supp(P)⟧·V` whenever every entry of `P` is an
    entry of the map -/
theorem string_conj (hζ : ζ ^ 8 = -1) (hρ : ∀ j, ρ j ≠ 0) (h2 : (2 : K) ≠ 0) (n : ℕ)
    (m : List (ℕ × ℕ)) (hv : Valid m) (hs : Sup n m) :
    ∀ (P : Label), (∀ e ∈ P, e ∈ m ∧ (e.2 = 1 ∨ e.2 = 2 ∨ e.2 = 3)) →
      SEq ζ ρ n 1 (measGates m ++ labelGates (zLabel P)) (labelGates P ++ measGates m) := by
  have wfm := wf_measGates n m hs
  intro P
  induction P with
  | nil => intro _; simpa [labelGates, zLabel] using SEq.refl (ζ := ζ) (ρ := ρ) n (measGates m)
  | cons e P ih =>
    intro h
    have he := h e (List.mem_cons_self ..)
    have hP : ∀ x ∈ P, x ∈ m ∧ (x.2 = 1 ∨ x.2 = 2 ∨ x.2 = 3) :=
      fun x hx => h x (List.mem_cons_of_mem _ hx)
    have hq : e.1 < n := hs e he.1
    have hsP : Sup n P := fun x hx => hs x (hP x hx).1
    have wfZ := wf_labelGates n (zLabel P) (sup_zLabel hsP)
    have wfP := wf_labelGates n P hsP
    have e1 : labelGates (zLabel (e :: P)) = pgate e.1 3 ++ labelGates (zLabel P) := by
      simp [zLabel, labelGates]
    rw [labelGates_cons, e1]
    -- pgate e ++ (P ++ V)  ~  pgate e ++ (V ++ Z_P)
    have s1 := SEq.context (ζ := ζ) (ρ := ρ) (pgate e.1 e.2) []
      (show WellFormed n (measGates m ++ labelGates (zLabel P)) from fun g hg => by
        rcases List.mem_append.mp hg with h | h
        · exact wfm g h
        · exact wfZ g h)
      (show WellFormed n (labelGates P ++ measGates m) from fun g hg => by
        rcases List.mem_append.mp hg with h | h
        · exact wfP g h
        · exact wfm g h)
      (WellFormed.nil n) (ih hP)
    -- (pgate e ++ V) ++ Z_P  ~  (V ++ Z_e) ++ Z_P
    have s2 := SEq.context (ζ := ζ) (ρ := ρ) [] (labelGates (zLabel P))
      (show WellFormed n (measGates m ++ pgate e.1 3) from fun g hg => by
        rcases List.mem_append.mp hg with h | h
        · exact wfm g h
        · exact wf_pgate n e.1 3 hq g h)
      (show WellFormed n (pgate e.1 e.2 ++ measGates m) from fun g hg => by
        rcases List.mem_append.mp hg with h | h
        · exact wf_pgate n e.1 e.2 hq g h
        · exact wfm g h)
      wfZ (single_conj hζ hρ h2 n m hv hs e he.1 he.2)
    have t := (show SEq ζ ρ n 1 (measGates m ++ pgate e.1 3 ++ labelGates (zLabel P))
        (pgate e.1 e.2 ++ measGates m ++ labelGates (zLabel P)) by
          simpa [List.append_assoc] using s2).trans
      (show SEq ζ ρ n 1 (pgate e.1 e.2 ++ measGates m ++ labelGates (zLabel P))
        (pgate e.1 e.2 ++ labelGates P ++ measGates m) by simpa [List.append_assoc] using s1)
    simpa [List.append_assoc] using t.scalar (by simp)

/-! ### §3  the `pauli_map` loop -/

/-- one assignment `pauli_map[index] = pauli` with the conflict check -/
def bmStep (acc : Option (List (ℕ × ℕ))) (e : ℕ × ℕ) : Option (List (ℕ × ℕ)) :=
  match acc with
  | none => none
  | some m =>
    match C07.mapLookup m e.1 with
    | some p => if p != e.2 then none else some m
    | none => some (m ++ [e])

theorem buildMap_eq (set : List C07.Label) :
    C07.buildMap set = set.foldl (fun acc l => l.foldl bmStep acc) (some []) := rfl

theorem foldl_bmStep_none (l : List (ℕ × ℕ)) : l.foldl bmStep none = none := by
  induction l with
  | nil => rfl
  | cons e l ih => exact ih

theorem foldl_label_none (set : List C07.Label) :
    set.foldl (fun acc l => l.foldl bmStep acc) none = none := by
  induction set with
  | nil => rfl
  | cons l set ih => rw [List.foldl_cons, foldl_bmStep_none]; exact ih

theorem mapLookup_some {m : List (ℕ × ℕ)} {i p : ℕ} (h : C07.mapLookup m i = some p) : (i, p) ∈ m := by
  unfold C07.mapLookup at h
  cases hf : m.find? (·.1 == i) with
  | none => rw [hf] at h; cases h
  | some y =>
    rw [hf] at h
    simp only [Option.map_some, Option.some.injEq] at h
    have h1 := List.find?_some hf
    have h2 := List.mem_of_find?_eq_some hf
    have : y = (i, p) := by
      have h1' : y.1 = i := by simpa using h1
      exact Prod.ext h1' h
    rw [← this]; exact h2

theorem mapLookup_none {m : List (ℕ × ℕ)} {i : ℕ} (h : C07.mapLookup m i = none) :
    ∀ x ∈ m, x.1 ≠ i := by
  unfold C07.mapLookup at h
  cases hf : m.find? (·.1 == i) with
  | some y => rw [hf] at h; cases h
  | none =>
    intro x hx hxi
    have := List.find?_eq_none.mp hf x hx
    simp [hxi] at this

theorem bmStep_inv {m m' : List (ℕ × ℕ)} {e : ℕ × ℕ} (h : bmStep (some m) e = some m')
    (hv : Valid m) :
    Valid m' ∧ (∀ x ∈ m, x ∈ m') ∧ e ∈ m' ∧ (∀ x ∈ m', x ∈ m ∨ x = e) := by
  unfold bmStep at h
  simp only [] at h
  cases hl : C07.mapLookup m e.1 with
  | some p =>
    rw [hl] at h
    simp only [] at h
    split at h
    · cases h
    · rename_i hp
      have hpe : p = e.2 := by simpa using hp
      cases h
      have := mapLookup_some hl
      rw [hpe] at this
      exact ⟨hv, fun x hx => hx, this, fun x hx => Or.inl hx⟩
  | none =>
    rw [hl] at h
    simp only [Option.some.injEq] at h
    subst h
    refine ⟨?_, fun x hx => List.mem_append_left _ hx, by simp, fun x hx => ?_⟩
    · unfold Valid
      rw [List.pairwise_append]
      refine ⟨hv, List.pairwise_singleton _ _, ?_⟩
      intro a ha b hb
      simp only [List.mem_singleton] at hb
      subst hb
      exact mapLookup_none hl a ha
    · rcases List.mem_append.mp hx with h | h
      · exact Or.inl h
      · exact Or.inr (by simpa using h)

theorem bmLabel_inv : ∀ (l : List (ℕ × ℕ)) (m m' : List (ℕ × ℕ)),
    l.foldl bmStep (some m) = some m' → Valid m →
    Valid m' ∧ (∀ x ∈ m, x ∈ m') ∧ (∀ e ∈ l, e ∈ m') ∧ (∀ x ∈ m', x ∈ m ∨ x ∈ l) := by
  intro l
  induction l with
  | nil =>
    intro m m' h hv
    simp only [List.foldl_nil, Option.some.injEq] at h
    subst h
    exact ⟨hv, fun x hx => hx, fun e he => (by cases he), fun x hx => Or.inl hx⟩
  | cons e l ih =>
    intro m m' h hv
    rw [List.foldl_cons] at h
    cases h1 : bmStep (some m) e with
    | none => rw [h1, foldl_bmStep_none] at h; cases h
    | some m1 =>
      rw [h1] at h
      obtain ⟨v1, mono1, he1, sub1⟩ := bmStep_inv h1 hv
      obtain ⟨v2, mono2, hl2, sub2⟩ := ih m1 m' h v1
      refine ⟨v2, fun x hx => mono2 x (mono1 x hx), ?_, ?_⟩
      · intro x hx
        rcases List.mem_cons.mp hx with rfl | hx'
        · exact mono2 _ he1
        · exact hl2 x hx'
      · intro x hx
        rcases sub2 x hx with h' | h'
        · rcases sub1 x h' with h'' | h''
          · exact Or.inl h''
          · exact Or.inr (h'' ▸ List.mem_cons_self ..)
        · exact Or.inr (List.mem_cons_of_mem _ h')

theorem bmSet_inv : ∀ (set : List C07.Label) (m m' : List (ℕ × ℕ)),
    set.foldl (fun acc l => l.foldl bmStep acc) (some m) = some m' → Valid m →
    Valid m' ∧ (∀ x ∈ m, x ∈ m') ∧ (∀ L ∈ set, ∀ e ∈ L, e ∈ m') ∧
      (∀ x ∈ m', x ∈ m ∨ ∃ L ∈ set, x ∈ L) := by
  intro set
  induction set with
  | nil =>
    intro m m' h hv
    simp only [List.foldl_nil, Option.some.injEq] at h
    subst h
    exact ⟨hv, fun x hx => hx, fun L hL => (by cases hL), fun x hx => Or.inl hx⟩
  | cons l set ih =>
    intro m m' h hv
    rw [List.foldl_cons] at h
    cases h1 : l.foldl bmStep (some m) with
    | none => rw [h1, foldl_label_none] at h; cases h
    | some m1 =>
      rw [h1] at h
      obtain ⟨v1, mono1, hl1, sub1⟩ := bmLabel_inv l m m1 h1 hv
      obtain ⟨v2, mono2, hl2, sub2⟩ := ih m1 m' h v1
      refine ⟨v2, fun x hx => mono2 x (mono1 x hx), ?_, ?_⟩
      · intro L hL e he
        rcases List.mem_cons.mp hL with rfl | hL'
        · exact mono2 _ (hl1 e he)
        · exact hl2 L hL' e he
      · intro x hx
        rcases sub2 x hx with h' | ⟨L, hL, hxL⟩
        · rcases sub1 x h' with h'' | h''
          · exact Or.inl h''
          · exact Or.inr ⟨l, List.mem_cons_self .., h''⟩
        · exact Or.inr ⟨L, List.mem_cons_of_mem _ hL, hxL⟩

/-- **the `pauli_map`**: distinct qubits, contains every entry of every label of the set, nothing else -/
theorem buildMap_inv (set : List C07.Label) (m : List (ℕ × ℕ)) (h : C07.buildMap set = some m) :
    Valid m ∧ (∀ L ∈ set, ∀ e ∈ L, e ∈ m) ∧ (∀ x ∈ m, ∃ L ∈ set, x ∈ L) := by
  rw [buildMap_eq] at h
  obtain ⟨v, _, hl, sub⟩ := bmSet_inv set [] m h List.Pairwise.nil
  refine ⟨v, hl, fun x hx => ?_⟩
  rcases sub x hx with h' | h'
  · cases h'
  · exact h'

/-! ### §4  the measurement circuit -/

theorem measCircuit_inv (set : List C07.Label) (gates : List C07.MGate)
    (h : C07.measCircuit set = .ok gates) :
    ∃ m, C07.buildMap set = some m ∧ gates.map MGate.toGate = measGates m := by
  unfold C07.measCircuit at h
  split at h
  · cases h
  · cases hb : C07.buildMap set with
    | none => rw [hb] at h; cases h
    | some m =>
      rw [hb] at h
      simp only [C07.MRes.ok.injEq] at h
      exact ⟨m, rfl, by rw [← h]; exact measGates_model m⟩

/-- **`bitwise_commuting_pauli_measurement_circuit` is sound**: if the model returns a circuit for the
    set (all qubits `< n`), then for every member `P` (ids in {1,2,3}) the circuit `V` satisfies
    `⟦V⟧·⟦P⟧ = ⟦Z_supp(P)⟧·⟦V⟧` on the `2^n` block, exactly -/
theorem measCircuit_sound (hζ : ζ ^ 8 = -1) (hρ : ∀ j, ρ j ≠ 0) (h2 : (2 : K) ≠ 0) (n : ℕ)
    (set : List C07.Label) (gates : List C07.MGate) (h : C07.measCircuit set = .ok gates)
    (hsup : ∀ L ∈ set, Sup n L) (P : Label) (hP : P ∈ set)
    (hid : ∀ e ∈ P, e.2 = 1 ∨ e.2 = 2 ∨ e.2 = 3) :
    WellFormed n (gates.map MGate.toGate) ∧
    SEq ζ ρ n 1 (gates.map MGate.toGate ++ labelGates (zLabel P))
      (labelGates P ++ gates.map MGate.toGate) := by
  obtain ⟨m, hb, hg⟩ := measCircuit_inv set gates h
  obtain ⟨hv, hin, hfrom⟩ := buildMap_inv set m hb
  have hs : Sup n m := by
    intro x hx
    obtain ⟨L, hL, hxL⟩ := hfrom x hx
    exact hsup L hL x hxL
  rw [hg]
  exact ⟨wf_measGates n m hs,
    string_conj hζ hρ h2 n m hv hs P (fun e he => ⟨hin P hP e he, hid e he⟩)⟩

/-! ### §5  the diagonal of the `Z` string and the reconstructor -/

/-- parity of the bits of `x` on the qubits of the label -/
def zsign (x : ℕ) : Label → Bool
  | [] => false
  | e :: P => (x.testBit e.1) != zsign x P

theorem zsign_cons (x : ℕ) (e : ℕ × ℕ) (P : Label) :
    zsign x (e :: P) = (x.testBit e.1 != zsign x P) := rfl

/-- column `x` of the `Z` string on the qubits of `P` is `± e_x`, the sign being `zsign` -/
theorem zLabel_col (n : ℕ) (x : ℕ) (hx : x < 2 ^ n) : ∀ (P : Label), Sup n P →
    IsCol ζ ρ n (labelGates (zLabel P)) x x (if zsign x P then -1 else 1) := by
  intro P
  induction P with
  | nil => intro _; simpa [zLabel, labelGates, zsign] using IsCol.nil (ζ := ζ) (ρ := ρ) n x hx
  | cons e P ih =>
    intro hs
    have hq : e.1 < n := hs e (List.mem_cons_self ..)
    have hsP : Sup n P := fun y hy => hs y (List.mem_cons_of_mem _ hy)
    have e1 : labelGates (zLabel (e :: P)) = [G .Z [] [e.1]] ++ labelGates (zLabel P) := by
      simp [zLabel, labelGates, pgate]
    rw [e1]
    have c := IsCol.append (col_z (ζ := ζ) (ρ := ρ) n e.1 hq x hx) (ih hsP)
      (wf_labelGates n (zLabel P) (sup_zLabel hsP))
    refine ⟨c.1, fun r hr => ?_⟩
    rw [c.2 r hr]
    congr 1
    rw [bitAt_eq_testBit, zsign_cons]
    cases x.testBit e.1 <;> cases zsign x P <;> simp

/-- `popcountParity` one bit further -/
theorem pp_succ (k : ℕ) : ∀ m, C07.popcountParity (k + 1) m
    = (C07.popcountParity k m != m.testBit k) := by
  induction k with
  | zero =>
    intro m
    simp only [C07.popcountParity, Nat.testBit_zero]
    by_cases h : m % 2 = 1 <;> simp [h]
  | succ k ih =>
    intro m
    have h1 : C07.popcountParity (k + 1 + 1) m
        = ((m % 2 == 1) != C07.popcountParity (k + 1) (m / 2)) := rfl
    have h2 : C07.popcountParity (k + 1) m = ((m % 2 == 1) != C07.popcountParity k (m / 2)) := rfl
    rw [h1, ih (m / 2), h2, Nat.testBit_succ]
    cases (m % 2 == 1) <;> cases C07.popcountParity k (m / 2) <;> cases (m / 2).testBit k <;> rfl

theorem pp_xor (k : ℕ) (a b : ℕ) : C07.popcountParity k (a ^^^ b)
    = (C07.popcountParity k a != C07.popcountParity k b) := by
  induction k with
  | zero => rfl
  | succ k ih =>
    rw [pp_succ, pp_succ, pp_succ, ih, Nat.testBit_xor]
    cases C07.popcountParity k a <;> cases C07.popcountParity k b <;> cases a.testBit k <;>
      cases b.testBit k <;> rfl

theorem pp_stable (k : ℕ) (m : ℕ) (h : m < 2 ^ k) : ∀ d, C07.popcountParity (k + d) m
    = C07.popcountParity k m := by
  intro d
  induction d with
  | zero => rfl
  | succ d ih =>
    rw [← Nat.add_assoc, pp_succ, ih]
    have : m.testBit (k + d) = false :=
      Nat.testBit_lt_two_pow (lt_of_lt_of_le h (Nat.pow_le_pow_right (by norm_num) (by omega)))
    rw [this]; simp

theorem pp_two_pow (q : ℕ) : ∀ k, C07.popcountParity k (2 ^ q) = decide (q < k) := by
  intro k
  induction k with
  | zero => simp [C07.popcountParity]
  | succ k ih =>
    rw [pp_succ, ih, Nat.testBit_two_pow]
    by_cases h1 : q < k
    · have : ¬ q = k := by omega
      simp [h1, this]; omega
    · by_cases h2 : q = k
      · simp [h2]
      · have : ¬ q < k + 1 := by omega
        simp [h1, h2, this]

/-- the parity the reconstructor computes -/
def bitPar (m : ℕ) : Bool := C07.popcountParity (m.log2 + 1) m

theorem bitPar_eq (m k : ℕ) (h : m < 2 ^ k) : bitPar m = C07.popcountParity k m := by
  unfold bitPar
  have h1 := pp_stable (m.log2 + 1) m Nat.lt_log2_self k
  have h2 := pp_stable k m h (m.log2 + 1)
  rw [← h1, ← h2, Nat.add_comm]

theorem bitPar_zero : bitPar 0 = false := by
  rw [bitPar_eq 0 0 (by norm_num)]; rfl

theorem bitPar_xor (a b : ℕ) : bitPar (a ^^^ b) = (bitPar a != bitPar b) := by
  obtain ⟨k, ha, hb⟩ : ∃ k, a < 2 ^ k ∧ b < 2 ^ k :=
    ⟨a + b, lt_of_le_of_lt (Nat.le_add_right a b) Nat.lt_two_pow_self,
      lt_of_le_of_lt (Nat.le_add_left b a) Nat.lt_two_pow_self⟩
  rw [bitPar_eq _ k (Nat.xor_lt_two_pow ha hb), bitPar_eq a k ha, bitPar_eq b k hb, pp_xor]

theorem bitPar_two_pow (q : ℕ) : bitPar (2 ^ q) = true := by
  rw [bitPar_eq _ (q + 1) (Nat.pow_lt_pow_right (by norm_num) (by omega)), pp_two_pow]
  simp

/-- one step of `bsv` -/
def bstep (v : C07.Bsv) (e : ℕ × ℕ) : C07.Bsv :=
  if e.2 == 1 then { v with x := v.x ||| 2 ^ e.1 }
  else if e.2 == 2 then { x := v.x ||| 2 ^ e.1, z := v.z ||| 2 ^ e.1 }
  else if e.2 == 3 then { v with z := v.z ||| 2 ^ e.1 }
  else v

theorem bsv_eq (l : Label) : C07.bsv l = l.foldl bstep ⟨0, 0⟩ := rfl

/-- the x-bit / z-bit of a symplectic vector after a scan -/
theorem bstep_x (v : C07.Bsv) (e : ℕ × ℕ) (i : ℕ) :
    (bstep v e).x.testBit i = (v.x.testBit i || (decide (e.1 = i) && (e.2 == 1 || e.2 == 2))) := by
  unfold bstep
  by_cases h1 : (e.2 == 1) = true
  · simp [h1, Nat.testBit_or, Nat.testBit_two_pow]
  · by_cases h2 : (e.2 == 2) = true
    · simp [h1, h2, Nat.testBit_or, Nat.testBit_two_pow]
    · by_cases h3 : (e.2 == 3) = true <;> simp [h1, h2, h3]

theorem bstep_z (v : C07.Bsv) (e : ℕ × ℕ) (i : ℕ) :
    (bstep v e).z.testBit i = (v.z.testBit i || (decide (e.1 = i) && (e.2 == 2 || e.2 == 3))) := by
  unfold bstep
  by_cases h1 : (e.2 == 1) = true
  · have h2 : (e.2 == 2) = false := by
      have : e.2 = 1 := by simpa using h1
      simp [this]
    have h3 : (e.2 == 3) = false := by
      have : e.2 = 1 := by simpa using h1
      simp [this]
    simp [h1, h2, h3]
  · by_cases h2 : (e.2 == 2) = true
    · simp [h1, h2, Nat.testBit_or, Nat.testBit_two_pow]
    · by_cases h3 : (e.2 == 3) = true
      · simp [h1, h2, h3, Nat.testBit_or, Nat.testBit_two_pow]
      · simp [h1, h2, h3]

/-- the support mask `z | x` of the reconstructor -/
def maskOfB (v : C07.Bsv) : ℕ := v.z ||| v.x

theorem foldl_mask (l : Label) (hid : ∀ e ∈ l, e.2 = 1 ∨ e.2 = 2 ∨ e.2 = 3) (i : ℕ) :
    ∀ v : C07.Bsv, (maskOfB (l.foldl bstep v)).testBit i
      = ((maskOfB v).testBit i || l.any (fun e => e.1 == i)) := by
  induction l with
  | nil => intro v; simp
  | cons e l ih =>
    intro v
    rw [List.foldl_cons, ih (fun x hx => hid x (List.mem_cons_of_mem _ hx))]
    unfold maskOfB
    rw [Nat.testBit_or, Nat.testBit_or, bstep_x, bstep_z, List.any_cons]
    have := hid e (List.mem_cons_self ..)
    by_cases hei : e.1 = i
    · rcases this with h | h | h <;> simp [hei, h]
    · have hei' : (e.1 == i) = false := by simpa using hei
      simp [hei, hei']

theorem mask_testBit (P : Label) (hid : ∀ e ∈ P, e.2 = 1 ∨ e.2 = 2 ∨ e.2 = 3) (i : ℕ) :
    (maskOfB (C07.bsv P)).testBit i = P.any (fun e => e.1 == i) := by
  rw [bsv_eq, foldl_mask P hid i]
  simp [maskOfB]

theorem and_two_pow (x q : ℕ) : x &&& 2 ^ q = if x.testBit q then 2 ^ q else 0 := by
  apply Nat.eq_of_testBit_eq
  intro i
  rw [Nat.testBit_and, Nat.testBit_two_pow]
  by_cases h : q = i
  · subst h
    cases hx : x.testBit q <;> simp
  · cases hx : x.testBit q <;> simp [h]

/-- parity of `x & mask(P)` is the parity of the bits of `x` on the qubits of `P` -/
theorem bitPar_mask (x : ℕ) : ∀ (P : Label), Valid P → (∀ e ∈ P, e.2 = 1 ∨ e.2 = 2 ∨ e.2 = 3) →
    bitPar (x &&& maskOfB (C07.bsv P)) = zsign x P := by
  intro P
  induction P with
  | nil =>
    intro _ _
    have : maskOfB (C07.bsv []) = 0 := rfl
    rw [this, Nat.and_zero, bitPar_zero]; rfl
  | cons e P ih =>
    intro hv hid
    unfold Valid at hv
    rw [List.pairwise_cons] at hv
    have hidP : ∀ y ∈ P, y.2 = 1 ∨ y.2 = 2 ∨ y.2 = 3 :=
      fun y hy => hid y (List.mem_cons_of_mem _ hy)
    have key : x &&& maskOfB (C07.bsv (e :: P))
        = (x &&& 2 ^ e.1) ^^^ (x &&& maskOfB (C07.bsv P)) := by
      apply Nat.eq_of_testBit_eq
      intro i
      rw [Nat.testBit_and, Nat.testBit_xor, Nat.testBit_and, Nat.testBit_and, mask_testBit _ hid,
        mask_testBit _ hidP, List.any_cons, Nat.testBit_two_pow]
      by_cases hei : e.1 = i
      · have hnot : P.any (fun y => y.1 == i) = false := by
          rw [List.any_eq_false]
          intro y hy
          have := hv.1 y hy
          simpa using fun h : y.1 = i => this (hei.trans h.symm)
        simp [hei, hnot]
      · have hei' : (e.1 == i) = false := by simpa using hei
        simp [hei, hei']
    rw [key, bitPar_xor, ih hv.2 hidP, and_two_pow, zsign_cons]
    cases hx : x.testBit e.1
    · simp [bitPar_zero]
    · simp [bitPar_two_pow]

/-- **the reconstructor is the parity on the support**: `true` (= −1) iff an odd number of the bits of
    the outcome `x` on the qubits of `P` are set -/
theorem reconstructor_eq_zsign (P : Label) (hv : Valid P)
    (hid : ∀ e ∈ P, e.2 = 1 ∨ e.2 = 2 ∨ e.2 = 3) (x : ℕ) :
    C07.reconstructor P x = zsign x P := by
  unfold C07.reconstructor
  cases P with
  | nil => rfl
  | cons e P =>
    simp only [List.isEmpty_cons, Bool.false_eq_true, if_false]
    exact bitPar_mask x (e :: P) hv hid

/-- the diagonal form: `⟦Z_supp(P)⟧ r x = ± δ_{r x}` with the reconstructor's sign -/
theorem zLabel_diag (n : ℕ) (P : Label) (hP : LabelOK n P) (x : ℕ) (hx : x < 2 ^ n)
    (r : ℕ) (hr : r < 2 ^ n) :
    semCirc ζ ρ (labelGates (zLabel P)) r x
      = if r = x then (if C07.reconstructor P x then -1 else 1) else 0 := by
  rw [reconstructor_eq_zsign P hP.1 (fun e he => (hP.2 e he).2)]
  exact (zLabel_col n x hx P (fun e he => (hP.2 e he).1)).2 r hr

/-- **eigenvalue form**: row `r` of `V·P` is the reconstructor's sign at outcome `r` times row `r` of `V` -/
theorem meas_eigen (hζ : ζ ^ 8 = -1) (hρ : ∀ j, ρ j ≠ 0) (h2 : (2 : K) ≠ 0) (n : ℕ)
    (set : List C07.Label) (gates : List C07.MGate) (h : C07.measCircuit set = .ok gates)
    (hsup : ∀ L ∈ set, Sup n L) (P : Label) (hP : P ∈ set) (hok : LabelOK n P)
    (r : ℕ) (hr : r < 2 ^ n) (j : ℕ) (hj : j < 2 ^ n) :
    semCirc ζ ρ (labelGates P ++ gates.map MGate.toGate) r j
      = (if C07.reconstructor P r then -1 else 1) * semCirc ζ ρ (gates.map MGate.toGate) r j := by
  obtain ⟨_, hs⟩ := measCircuit_sound hζ hρ h2 n set gates h hsup P hP (fun e he => (hok.2 e he).2)
  have hsP : Sup n P := fun e he => (hok.2 e he).1
  rw [hs r hr j hj, one_mul, semCirc_append,
    actCirc_eq_sum n _ (wf_labelGates n (zLabel P) (sup_zLabel hsP)) _ r j hr]
  rw [List.map_congr_left (g := fun k => (if C07.reconstructor P r then (-1 : K) else 1) *
      ((idMat r k : K) * semCirc ζ ρ (gates.map MGate.toGate) k j)) (fun k hk => by
    have hk' := List.mem_range.mp hk
    rw [zLabel_diag n P hok k hk' r hr]
    by_cases e : r = k
    · subst e; simp [idMat]
    · simp [idMat, e])]
  rw [sum_map_mul_left, sum_range_ite (2 ^ n) r hr]

/-! ### §6  a qubit-wise commuting set is accepted -/

/-- no two entries of the set assign different Paulis to one qubit -/
def Agree (set : List C07.Label) : Prop :=
  ∀ a ∈ set, ∀ b ∈ set, ∀ e ∈ a, ∀ f ∈ b, e.1 = f.1 → e.2 = f.2

theorem bmLabel_total : ∀ (l : List (ℕ × ℕ)) (m : List (ℕ × ℕ)),
    (∀ x ∈ m, ∀ e ∈ l, x.1 = e.1 → x.2 = e.2) → (∀ e ∈ l, ∀ f ∈ l, e.1 = f.1 → e.2 = f.2) →
    ∃ m', l.foldl bmStep (some m) = some m' := by
  intro l
  induction l with
  | nil => intro m _ _; exact ⟨m, rfl⟩
  | cons e l ih =>
    intro m h1 h2
    rw [List.foldl_cons]
    have hl2 : ∀ a ∈ l, ∀ f ∈ l, a.1 = f.1 → a.2 = f.2 :=
      fun a ha f hf => h2 a (List.mem_cons_of_mem _ ha) f (List.mem_cons_of_mem _ hf)
    cases hl : C07.mapLookup m e.1 with
    | some p =>
      have hmem := mapLookup_some hl
      have hp : p = e.2 := h1 (e.1, p) hmem e (List.mem_cons_self ..) rfl
      have : bmStep (some m) e = some m := by
        unfold bmStep
        simp only [hl, hp, bne_self_eq_false, Bool.false_eq_true, if_false]
      rw [this]
      exact ih m (fun x hx f hf => h1 x hx f (List.mem_cons_of_mem _ hf)) hl2
    | none =>
      have : bmStep (some m) e = some (m ++ [e]) := by
        unfold bmStep
        simp only [hl]
      rw [this]
      refine ih (m ++ [e]) ?_ hl2
      intro x hx f hf hxf
      rcases List.mem_append.mp hx with hx' | hx'
      · exact h1 x hx' f (List.mem_cons_of_mem _ hf) hxf
      · have : x = e := by simpa using hx'
        subst this
        exact h2 x (List.mem_cons_self ..) f (List.mem_cons_of_mem _ hf) hxf

theorem bmSet_total : ∀ (set : List C07.Label) (m : List (ℕ × ℕ)), Valid m →
    (∀ x ∈ m, ∀ L ∈ set, ∀ e ∈ L, x.1 = e.1 → x.2 = e.2) → Agree set →
    ∃ m', set.foldl (fun acc l => l.foldl bmStep acc) (some m) = some m' := by
  intro set
  induction set with
  | nil => intro m _ _ _; exact ⟨m, rfl⟩
  | cons l set ih =>
    intro m hv h1 h2
    rw [List.foldl_cons]
    obtain ⟨m1, hm1⟩ := bmLabel_total l m (fun x hx e he => h1 x hx l (List.mem_cons_self ..) e he)
      (fun e he f hf => h2 l (List.mem_cons_self ..) l (List.mem_cons_self ..) e he f hf)
    rw [hm1]
    obtain ⟨v1, _, _, sub1⟩ := bmLabel_inv l m m1 hm1 hv
    refine ih m1 v1 ?_ (fun a ha b hb => h2 a (List.mem_cons_of_mem _ ha) b (List.mem_cons_of_mem _ hb))
    intro x hx L hL e he hxe
    rcases sub1 x hx with h' | h'
    · exact h1 x h' L (List.mem_cons_of_mem _ hL) e he hxe
    · exact h2 l (List.mem_cons_self ..) L (List.mem_cons_of_mem _ hL) x h' e he hxe

/-- a non-empty set whose entries agree qubit by qubit gets a circuit -/
theorem measCircuit_total (set : List C07.Label) (hne : set ≠ []) (ha : Agree set) :
    ∃ gates, C07.measCircuit set = .ok gates := by
  obtain ⟨m, hm⟩ := bmSet_total set [] List.Pairwise.nil (fun x hx => by cases hx) ha
  rw [← buildMap_eq] at hm
  unfold C07.measCircuit
  have : set.isEmpty = false := by
    cases set with
    | nil => exact absurd rfl hne
    | cons _ _ => rfl
  rw [this, hm]
  exact ⟨_, rfl⟩

theorem valid_unique {L : Label} (hv : Valid L) {e f : ℕ × ℕ} (he : e ∈ L) (hf : f ∈ L)
    (h : e.1 = f.1) : e = f := by
  induction L with
  | nil => cases he
  | cons a L ih =>
    unfold Valid at hv
    rw [List.pairwise_cons] at hv
    rcases List.mem_cons.mp he with rfl | he' <;> rcases List.mem_cons.mp hf with rfl | hf'
    · rfl
    · exact absurd h (hv.1 f hf')
    · exact absurd h.symm (hv.1 e he')
    · exact ih hv.2 he' hf'

theorem foldl_x (l : Label) (i : ℕ) : ∀ v : C07.Bsv, (l.foldl bstep v).x.testBit i
    = (v.x.testBit i || l.any fun e => decide (e.1 = i) && (e.2 == 1 || e.2 == 2)) := by
  induction l with
  | nil => intro v; simp
  | cons e l ih => intro v; rw [List.foldl_cons, ih, bstep_x, List.any_cons, Bool.or_assoc]

theorem foldl_z (l : Label) (i : ℕ) : ∀ v : C07.Bsv, (l.foldl bstep v).z.testBit i
    = (v.z.testBit i || l.any fun e => decide (e.1 = i) && (e.2 == 2 || e.2 == 3)) := by
  induction l with
  | nil => intro v; simp
  | cons e l ih => intro v; rw [List.foldl_cons, ih, bstep_z, List.any_cons, Bool.or_assoc]

theorem any_unique {L : Label} (hv : Valid L) {e : ℕ × ℕ} (he : e ∈ L) (φ : ℕ → Bool) :
    (L.any fun y => decide (y.1 = e.1) && φ y.2) = φ e.2 := by
  cases hφ : φ e.2
  · rw [List.any_eq_false]
    intro y hy
    by_cases h : y.1 = e.1
    · have := valid_unique hv hy he h
      subst this; simp [hφ]
    · simp [h]
  · rw [List.any_eq_true]
    exact ⟨e, he, by simp [hφ]⟩

/-- x-bit and z-bit of the symplectic vector at the qubit of an entry -/
theorem bsv_bits {L : Label} (hv : Valid L) {e : ℕ × ℕ} (he : e ∈ L) :
    (C07.bsv L).x.testBit e.1 = (e.2 == 1 || e.2 == 2) ∧
    (C07.bsv L).z.testBit e.1 = (e.2 == 2 || e.2 == 3) := by
  rw [bsv_eq, foldl_x, foldl_z, any_unique hv he (fun p => p == 1 || p == 2),
    any_unique hv he (fun p => p == 2 || p == 3)]
  simp

/-- **qubit-wise commuting (the model's `bsv_bitwise_commute`, pairwise) well-formed labels agree** -/
theorem agree_of_qwc (set : List C07.Label)
    (hok : ∀ L ∈ set, Valid L ∧ ∀ e ∈ L, e.2 = 1 ∨ e.2 = 2 ∨ e.2 = 3)
    (hq : ∀ a ∈ set, ∀ b ∈ set, C07.bitwiseCommute (C07.bsv a) (C07.bsv b) = true) : Agree set := by
  intro a ha b hb e he f hf hef
  have hc := (C07.commute_iff_bits _ _).mp (hq a ha b hb) e.1
  obtain ⟨xa, za⟩ := bsv_bits (hok a ha).1 he
  obtain ⟨xb, zb⟩ := bsv_bits (hok b hb).1 hf
  rw [← hef] at xb zb
  rw [xa, za, xb, zb] at hc
  rcases (hok a ha).2 e he with h1 | h1 | h1 <;> rcases (hok b hb).2 f hf with h2 | h2 | h2 <;>
    rw [h1, h2] at hc ⊢ <;> first | rfl | (exact absurd hc (by decide))

/-- a non-empty group of well-formed, pairwise qubit-wise commuting labels gets a measurement circuit -/
theorem qwc_measCircuit (set : List C07.Label) (hne : set ≠ [])
    (hok : ∀ L ∈ set, Valid L ∧ ∀ e ∈ L, e.2 = 1 ∨ e.2 = 2 ∨ e.2 = 3)
    (hq : ∀ a ∈ set, ∀ b ∈ set, C07.bitwiseCommute (C07.bsv a) (C07.bsv b) = true) :
    ∃ gates, C07.measCircuit set = .ok gates :=
  measCircuit_total set hne (agree_of_qwc set hok hq)

end QV.MatSound
