import QuriVerif.Model.C05
/- C05: ring laws of the Gaussian integers `K` (core Lean only) -/
namespace QV.C05
namespace K

@[ext] theorem ext' {a b : K} (h1 : a.re = b.re) (h2 : a.im = b.im) : a = b := by
  cases a; cases b; simp_all

theorem add_comm' (a b : K) : add a b = add b a := by ext <;> simp [add] <;> grind
theorem add_assoc' (a b c : K) : add (add a b) c = add a (add b c) := by ext <;> simp [add] <;> grind
theorem add_left_comm' (a b c : K) : add a (add b c) = add b (add a c) := by ext <;> simp [add] <;> grind
@[simp] theorem add_zero' (a : K) : add a zero = a := by ext <;> simp [add, zero]
@[simp] theorem zero_add' (a : K) : add zero a = a := by ext <;> simp [add, zero]
theorem mul_comm' (a b : K) : mul a b = mul b a := by ext <;> simp [mul] <;> grind
theorem mul_assoc' (a b c : K) : mul (mul a b) c = mul a (mul b c) := by ext <;> simp [mul] <;> grind
theorem mul_left_comm' (a b c : K) : mul a (mul b c) = mul b (mul a c) := by ext <;> simp [mul] <;> grind
@[simp] theorem mul_zero' (a : K) : mul a zero = zero := by ext <;> simp [mul, zero]
@[simp] theorem zero_mul' (a : K) : mul zero a = zero := by ext <;> simp [mul, zero]
@[simp] theorem mul_one' (a : K) : mul a one = a := by ext <;> simp [mul, one]
@[simp] theorem one_mul' (a : K) : mul one a = a := by ext <;> simp [mul, one]
theorem left_distrib' (a b c : K) : mul a (add b c) = add (mul a b) (mul a c) := by
  ext <;> simp [mul, add] <;> grind
theorem right_distrib' (a b c : K) : mul (add a b) c = add (mul a c) (mul b c) := by
  ext <;> simp [mul, add] <;> grind
theorem neg_one_mul' (a : K) : mul (ofInt (-1)) a = neg a := by ext <;> simp [mul, ofInt, neg]
@[simp] theorem add_neg' (a : K) : add a (neg a) = zero := by ext <;> simp [add, neg, zero] <;> omega
theorem sub_eq (a b : K) : sub a b = add a (neg b) := by ext <;> simp [sub, add, neg] <;> omega
theorem mul_neg' (a b : K) : mul a (neg b) = neg (mul a b) := by ext <;> simp [mul, neg] <;> grind
theorem neg_mul' (a b : K) : mul (neg a) b = neg (mul a b) := by ext <;> simp [mul, neg] <;> grind
theorem neg_add' (a b : K) : neg (add a b) = add (neg a) (neg b) := by ext <;> simp [add, neg] <;> omega
@[simp] theorem neg_zero' : neg zero = zero := by ext <;> simp [neg, zero]
@[simp] theorem neg_neg' (a : K) : neg (neg a) = a := by ext <;> simp [neg]

theorem isZero_iff (a : K) : a.isZero = true ↔ a = zero := by
  constructor
  · intro h; simp [isZero] at h; ext <;> simp [zero, h.1, h.2]
  · intro h; subst h; rfl

theorem isZero_false_iff (a : K) : a.isZero = false ↔ a ≠ zero := by
  have := isZero_iff a
  cases h : a.isZero <;> simp_all

theorem add_self_eq_zero {a : K} (h : add a a = zero) : a = zero := by
  have h1 := congrArg K.re h
  have h2 := congrArg K.im h
  simp [add, zero] at h1 h2
  ext <;> simp [zero] <;> omega

theorem add_eq_zero_iff_neg {a b : K} : add a b = zero ↔ b = neg a := by
  constructor
  · intro h
    have h1 := congrArg K.re h
    have h2 := congrArg K.im h
    simp [add, zero] at h1 h2
    ext <;> simp [neg] <;> omega
  · intro h; subst h; simp

@[simp] theorem conj_conj (a : K) : conj (conj a) = a := by ext <;> simp [conj]
theorem conj_add (a b : K) : conj (add a b) = add (conj a) (conj b) := by ext <;> simp [conj, add] <;> omega
theorem conj_mul (a b : K) : conj (mul a b) = mul (conj a) (conj b) := by ext <;> simp [conj, mul] <;> grind
@[simp] theorem conj_zero : conj zero = zero := by ext <;> simp [conj, zero]

theorem ipow_mod (k : Nat) : ipow (k % 4) = ipow k := by simp [ipow]

theorem ipow_add (a b : Nat) : ipow (a + b) = mul (ipow a) (ipow b) := by
  have ha : a % 4 < 4 := Nat.mod_lt _ (by decide)
  have hb : b % 4 < 4 := Nat.mod_lt _ (by decide)
  have : (a + b) % 4 = (a % 4 + b % 4) % 4 := by omega
  unfold ipow
  rw [this]
  generalize a % 4 = x at *
  generalize b % 4 = y at *
  have hx : x = 0 ∨ x = 1 ∨ x = 2 ∨ x = 3 := by omega
  have hy : y = 0 ∨ y = 1 ∨ y = 2 ∨ y = 3 := by omega
  rcases hx with rfl | rfl | rfl | rfl <;> rcases hy with rfl | rfl | rfl | rfl <;> decide

/-- `conj (i^k) = i^(3k)` -/
theorem conj_ipow (k : Nat) : conj (ipow k) = ipow (3 * k) := by
  have hk : k % 4 < 4 := Nat.mod_lt _ (by decide)
  have : (3 * k) % 4 = (3 * (k % 4)) % 4 := by omega
  unfold ipow
  rw [this]
  generalize k % 4 = x at *
  have hx : x = 0 ∨ x = 1 ∨ x = 2 ∨ x = 3 := by omega
  rcases hx with rfl | rfl | rfl | rfl <;> decide

theorem ipow_congr {a b : Nat} (h : a % 4 = b % 4) : ipow a = ipow b := by
  unfold ipow; rw [h]

theorem ipow_ne_zero (k : Nat) : ipow k ≠ zero := by
  have hk : k % 4 < 4 := Nat.mod_lt _ (by decide)
  unfold ipow
  generalize k % 4 = x at *
  have hx : x = 0 ∨ x = 1 ∨ x = 2 ∨ x = 3 := by omega
  rcases hx with rfl | rfl | rfl | rfl <;> decide

@[simp] theorem sum_nil : sum [] = zero := rfl
@[simp] theorem sum_cons (a : K) (l : List K) : sum (a :: l) = add a (sum l) := rfl

theorem sum_append (l1 l2 : List K) : sum (l1 ++ l2) = add (sum l1) (sum l2) := by
  induction l1 with
  | nil => simp
  | cons a r ih => simp [ih, add_assoc']

theorem sum_map_mul_left (k : K) (l : List K) : sum (l.map (mul k)) = mul k (sum l) := by
  induction l with
  | nil => simp
  | cons a r ih => simp [ih, left_distrib']

theorem sum_map_add {α} (f g : α → K) (l : List α) :
    sum (l.map fun x => add (f x) (g x)) = add (sum (l.map f)) (sum (l.map g)) := by
  induction l with
  | nil => simp
  | cons a r ih =>
    simp only [List.map_cons, sum_cons, ih]
    ext <;> simp [add] <;> omega

theorem sum_map_zero {α} (l : List α) : sum (l.map fun _ => zero) = zero := by
  induction l with
  | nil => rfl
  | cons a r ih => simp [ih]

end K
end QV.C05
