import QuriVerif.Proof.ConjSound
import QuriVerif.Proof.C05Bits
import QuriVerif.Proof.C05Mat
import QuriVerif.Proof.C05Prod
/-
  C05 over the concrete operator semantics (generic field part): the operator algebra of `Model/C05`
  (Pauli labels, `pauli_product`, dict arithmetic of `Operator`) denotes MATRICES built from the documented
  X / Y / Z gate matrices of `Found/Gate.lean`, embedded by `embedAct`, on every register size.

    * §1  the bridge.  `Model/C05` specifies Pauli strings by their action `actD` on basis states (its own
          table `P1.ph`, `P1.flips`).  `den_eq_ampL`: for a valid label on `n` qubits the matrix of the gate list
          `labelGates` (X, Y, Z gates of `Found/Gate`) has exactly the entries `ampL` of that specification,
          with `i ↦ ζ⁴` (`toF`).  This is where the model's single-qubit table meets the gate matrices.
    * §2  `toF : Gaussian integers → F` is a ring homomorphism.
    * §3  `Den n op = Σ c · den P`, `Den_eq_amp`; operators whose labels are valid on `n` qubits (`OpOn`) are closed
          under the model's operations.
    * §4  single-label product `den P · den Q = i^k · den R` for `(R, k) = pauli_product P Q`;
          `Den (a+b)`, `Den (a−b)`, `Den (c·a)`, `Den (a·b) = Den a · Den b` (matrix product on the block),
          commutator, `add_term` (deleting exactly cancelled terms does not change `Den`), exact division.
  The field is `F` here (the coefficient structure of the model is called `C05.K`).
-/
namespace QV.MatSound
open QV QV.Poly

variable {F : Type} [Field F] {ζ : F} {ρ : ℕ → F}

/-! ### §1  the specification `actD` and the gate matrices -/

/-- a `Model/C05` label as a label of `Proof/ConjSound` (ids 1, 2, 3) -/
def lab (l : C05.Label) : C06.Label := l.map fun e => (e.1, e.2.code)

theorem obsF_lab (l : C05.Label) (j : ℕ) : C06.obsF (lab l) j = (C05.lookup l j).code := by
  induction l with
  | nil => rfl
  | cons e l ih =>
    obtain ⟨i, p⟩ := e
    unfold C06.obsF at ih ⊢
    show C06.idOf (C06.obs ((i, p.code) :: lab l) j) = _
    rw [C06.obs_cons]
    simp only [C05.lookup]
    by_cases h : i = j
    · simp [h, C06.idOf]
    · simp only [h, if_false]; exact ih

theorem code_ids (p : C05.P1) (h : p ≠ .I) : p.code = 1 ∨ p.code = 2 ∨ p.code = 3 := by
  cases p <;> simp [C05.P1.code] at h ⊢

theorem labelOK_lab {n : ℕ} {l : C05.Label} (hv : C05.Valid l) (hb : C05.bound l ≤ n) :
    LabelOK n (lab l) := by
  constructor
  · unfold C06.Valid lab
    rw [List.pairwise_map]
    exact hv.1.imp (fun h => Nat.ne_of_lt h)
  · intro e he
    obtain ⟨x, hx, rfl⟩ := List.mem_map.mp he
    exact ⟨lt_of_lt_of_le (C05.idx_lt_bound hx) hb, code_ids x.2 (hv.2 x hx)⟩

theorem chi_code (p : C05.P1) : chi p.code = if p.flips then 1 else 0 := by
  cases p <;> rfl

theorem epsK_code (hζ : ζ ^ 8 = -1) (p : C05.P1) (x : Bool) :
    epsK ζ p.code (if x then 1 else 0) = ζ ^ (4 * p.ph x) := by
  cases p <;> cases x <;> simp [epsK, C05.P1.code, C05.P1.ph, zeta_pow_12 hζ, hζ]

/-- phase of a dense string with one more factor on top -/
theorem actD_snoc_phase (p : C05.P1) : ∀ (ps : List C05.P1) (b : ℕ),
    (C05.actD (ps ++ [p]) b).1 = ((C05.actD ps b).1 + p.ph (b.testBit ps.length)) % 4 := by
  intro ps
  induction ps with
  | nil =>
    intro b
    simp only [List.nil_append, C05.actD, List.length_nil, Nat.testBit_zero, Nat.zero_add, Nat.add_zero]
    congr 2
  | cons q ps ih =>
    intro b
    simp only [List.cons_append, C05.actD, List.length_cons, Nat.testBit_succ, ih (b / 2)]
    omega

theorem xD_snoc (p : C05.P1) : ∀ ps : List C05.P1,
    C05.xD (ps ++ [p]) = C05.xD ps + C05.bitOf p.flips * 2 ^ ps.length := by
  intro ps
  induction ps with
  | nil => simp [C05.xD]
  | cons q ps ih =>
    simp only [List.cons_append, C05.xD, ih, List.length_cons, pow_succ]
    ring

theorem xD_lt : ∀ ps : List C05.P1, C05.xD ps < 2 ^ ps.length := by
  intro ps
  induction ps with
  | nil => simp [C05.xD]
  | cons q ps ih =>
    simp only [C05.xD, List.length_cons, pow_succ]
    have := C05.bitOf_le q.flips
    omega

theorem add_two_pow_eq_xor (a k : ℕ) (h : a < 2 ^ k) : a + 2 ^ k = a ^^^ 2 ^ k := by
  have h1 : a + 2 ^ k < 2 ^ (k + 1) := by rw [pow_succ]; omega
  have h2 : a ^^^ 2 ^ k < 2 ^ (k + 1) :=
    Nat.xor_lt_two_pow (lt_of_lt_of_le h (Nat.pow_le_pow_right (by norm_num) (by omega)))
      (Nat.pow_lt_pow_right (by norm_num) (by omega))
  apply bitAt_ext (k + 1) _ _ h1 h2
  intro w hw
  have e : a + 2 ^ k = a + 1 * 2 ^ k := by ring
  rw [e, bitAt_add_mul_pow a 1 k w h, bitAt_flip]
  by_cases hwk : w < k
  · rw [if_pos hwk, if_neg (by omega)]
  · have : w = k := by omega
    subst this
    rw [if_neg hwk, if_pos rfl, bitAt_eq_zero_of_lt a w w h (le_refl w)]
    simp [Gate.bitAt]

theorem tab_snoc (g : ℕ → C05.P1) (m : ℕ) : C05.tab g 0 (m + 1) = C05.tab g 0 m ++ [g m] := by
  rw [C05.tab_add]
  simp [C05.tab]

/-- the flip mask of the dense string is the flip mask of the gate string -/
theorem xD_tab_maskX (g : ℕ → C05.P1) (m : ℕ) :
    C05.xD (C05.tab g 0 m) = maskX m (fun j => (g j).code) := by
  induction m with
  | zero => rfl
  | succ m ih =>
    rw [tab_snoc, xD_snoc, C05.tab_length, maskX, ← ih, chi_code]
    have hlt := xD_lt (C05.tab g 0 m)
    rw [C05.tab_length] at hlt
    cases (g m).flips
    · simp [C05.bitOf]
    · simp only [C05.bitOf, if_true, one_mul]
      exact add_two_pow_eq_xor _ _ hlt

/-- the phase of the dense string is the product of the single-gate amplitudes -/
theorem actD_tab_ampF (hζ : ζ ^ 8 = -1) (g : ℕ → C05.P1) (b : ℕ) (m : ℕ) :
    ζ ^ (4 * (C05.actD (C05.tab g 0 m) b).1) = ampF ζ m (fun j => (g j).code) b := by
  induction m with
  | zero => simp [C05.tab, C05.actD, ampF]
  | succ m ih =>
    rw [tab_snoc, actD_snoc_phase, C05.tab_length, zeta_pow_mod4 hζ, Nat.mul_add, pow_add, ih, ampF,
      bitAt_eq_testBit, epsK_code hζ]

/-! ### §2  Gaussian integers in the field -/

/-- `a + b·i ↦ a + b·ζ⁴` -/
def toF (ζ : F) (c : C05.K) : F := (c.re : F) + (c.im : F) * ζ ^ 4

theorem toF_zero : toF ζ C05.K.zero = 0 := by simp [toF, C05.K.zero]
theorem toF_one : toF ζ C05.K.one = 1 := by simp [toF, C05.K.one]

theorem toF_add (a b : C05.K) : toF ζ (C05.K.add a b) = toF ζ a + toF ζ b := by
  simp only [toF, C05.K.add]; push_cast; ring

theorem toF_neg (a : C05.K) : toF ζ (C05.K.neg a) = -toF ζ a := by
  simp only [toF, C05.K.neg]; push_cast; ring

theorem toF_sub (a b : C05.K) : toF ζ (C05.K.sub a b) = toF ζ a - toF ζ b := by
  simp only [toF, C05.K.sub]; push_cast; ring

theorem toF_mul (hζ : ζ ^ 8 = -1) (a b : C05.K) : toF ζ (C05.K.mul a b) = toF ζ a * toF ζ b := by
  have h4 := zeta4_sq hζ
  simp only [toF, C05.K.mul]
  push_cast
  linear_combination (-(a.im : F) * (b.im : F)) * h4

theorem toF_ofInt (n : ℤ) : toF ζ (C05.K.ofInt n) = (n : F) := by simp [toF, C05.K.ofInt]

theorem toF_ipow (hζ : ζ ^ 8 = -1) (k : ℕ) : toF ζ (C05.K.ipow k) = ζ ^ (4 * k) := by
  rw [← zeta_pow_mod4 hζ k]
  unfold C05.K.ipow
  have hk : k % 4 < 4 := Nat.mod_lt _ (by norm_num)
  generalize k % 4 = r at hk
  have : r = 0 ∨ r = 1 ∨ r = 2 ∨ r = 3 := by omega
  rcases this with rfl | rfl | rfl | rfl <;> simp [toF, zeta_pow_12 hζ, hζ]

theorem toF_sum (l : List C05.K) : toF ζ (C05.K.sum l) = (l.map (toF ζ)).sum := by
  induction l with
  | nil => exact toF_zero
  | cons a l ih => simp only [C05.K.sum, toF_add, ih, List.map_cons, List.sum_cons]

theorem toF_rangeSum (g : ℕ → C05.K) (M : ℕ) :
    toF ζ (C05.rangeSum g M) = ((List.range M).map fun k => toF ζ (g k)).sum := by
  induction M with
  | zero => exact toF_zero
  | succ M ih =>
    rw [C05.rangeSum, toF_add, ih, List.range_succ, List.map_append, List.sum_append]
    simp

/-! ### the bridge for one label -/

variable (ζ ρ) in
/-- **the matrix of a Pauli label**: the operator of its X / Y / Z gates -/
def den (l : C05.Label) : ℕ → ℕ → F := semCirc ζ ρ (labelGates (lab l))

/-- **the gate matrices realise the specification of `Model/C05`**: entry `(r, b)` of the matrix of a valid
    label on `n` qubits is `⟨r| P |b⟩` as computed by `actD` -/
theorem den_eq_ampL (hζ : ζ ^ 8 = -1) (n : ℕ) (l : C05.Label) (hv : C05.Valid l)
    (hb : C05.bound l ≤ n) (r b : ℕ) (hr : r < 2 ^ n) (hbn : b < 2 ^ n) :
    den ζ ρ l r b = toF ζ (C05.ampL l r b) := by
  have hL := labelOK_lab hv hb
  have h1 := labelGates_canon (ζ := ζ) (ρ := ρ) n (lab l) hL r hr b hbn
  rw [one_mul] at h1
  unfold den
  rw [h1]
  have hf : C06.obsF (lab l) = fun j => (C05.lookup l j).code := funext (obsF_lab l)
  have hcol := (canonM_col (ζ := ζ) (ρ := ρ) n (C06.obsF (lab l)) b hbn n (le_refl n)).2 r hr
  show semCirc ζ ρ (canonM n (C06.obsF (lab l))) r b = _
  rw [hcol, hf]
  have hdense : C05.toDense l n = C05.tab (C05.lookup l) 0 n := rfl
  have himg : (C05.actL l b).2 = b ^^^ maskX n fun j => (C05.lookup l j).code := by
    rw [C05.actL_eq hb, hdense, C05.actD_image, xD_tab_maskX]
  have hph : ζ ^ (4 * (C05.actL l b).1) = ampF ζ n (fun j => (C05.lookup l j).code) b := by
    rw [C05.actL_eq hb, hdense]; exact actD_tab_ampF hζ _ b n
  unfold C05.ampL
  simp only []
  by_cases e : r = b ^^^ maskX n fun j => (C05.lookup l j).code
  · rw [if_pos e, if_pos (himg.trans e.symm), toF_ipow hζ, hph]
  · rw [if_neg e, if_neg (fun h => e (h.symm.trans himg)), toF_zero]

/-- the empty label is the identity matrix -/
theorem den_nil (r j : ℕ) : den ζ ρ [] r j = idMat r j := rfl

/-! ### §3  operators -/

variable (ζ ρ) in
/-- **the matrix of an operator**: `Σ c · den P` over its term list -/
def Den (op : C05.Op) (r j : ℕ) : F := (op.map fun e => toF ζ e.2 * den ζ ρ e.1 r j).sum

/-- every label of the operator is a valid Pauli label on `n` qubits -/
def OpOn (n : ℕ) (op : C05.Op) : Prop := ∀ e ∈ op, C05.Valid e.1 ∧ C05.bound e.1 ≤ n

theorem OpOn.valid {n : ℕ} {op : C05.Op} (h : OpOn n op) : C05.OpValid op := fun e he => (h e he).1

theorem Den_eq_amp (hζ : ζ ^ 8 = -1) (n : ℕ) (op : C05.Op) (h : OpOn n op) (r j : ℕ) (hr : r < 2 ^ n)
    (hj : j < 2 ^ n) : Den ζ ρ op r j = toF ζ (C05.amp op r j) := by
  unfold Den C05.amp
  rw [toF_sum, List.map_map]
  congr 1
  apply List.map_congr_left
  intro e he
  simp only [Function.comp]
  rw [toF_mul hζ, den_eq_ampL hζ n e.1 (h e he).1 (h e he).2 r j hr hj]

theorem opOn_nil (n : ℕ) : OpOn n [] := fun _ h => by cases h

theorem opOn_addTerm {n : ℕ} {op : C05.Op} (h : OpOn n op) {l : C05.Label} (hv : C05.Valid l)
    (hb : C05.bound l ≤ n) (c : C05.K) : OpOn n (C05.addTerm op l c) := by
  intro e he
  unfold C05.addTerm at he
  split at he
  · exact h e he
  · simp only [] at he
    split at he
    · exact h e (C05.mem_odel he)
    · rcases C05.mem_oset he with rfl | h'
      · exact ⟨hv, hb⟩
      · exact h e h'

theorem opOn_foldl_addTerm {n : ℕ} (g : C05.Label × C05.K → C05.K) :
    ∀ (b a : C05.Op), OpOn n a → OpOn n b →
      OpOn n (b.foldl (fun o e => C05.addTerm o e.1 (g e)) a) := by
  intro b
  induction b with
  | nil => intro a ha _; exact ha
  | cons e b ih =>
    intro a ha hb
    rw [List.foldl_cons]
    exact ih _ (opOn_addTerm ha (hb e (List.mem_cons_self ..)).1 (hb e (List.mem_cons_self ..)).2 _)
      (fun x hx => hb x (List.mem_cons_of_mem _ hx))

theorem opOn_add {n : ℕ} {a b : C05.Op} (ha : OpOn n a) (hb : OpOn n b) : OpOn n (C05.add a b) :=
  opOn_foldl_addTerm (fun e => e.2) b a ha hb

theorem opOn_sub {n : ℕ} {a b : C05.Op} (ha : OpOn n a) (hb : OpOn n b) : OpOn n (C05.sub a b) :=
  opOn_foldl_addTerm (fun e => C05.K.mul (C05.K.ofInt (-1)) e.2) b a ha hb

theorem opOn_map_coef {n : ℕ} {a : C05.Op} (ha : OpOn n a) (f : C05.K → C05.K) :
    OpOn n (a.map fun e => (e.1, f e.2)) := by
  intro e he
  obtain ⟨x, hx, rfl⟩ := List.mem_map.mp he
  exact ha x hx

theorem opOn_smul {n : ℕ} {a : C05.Op} (ha : OpOn n a) (k : C05.K) : OpOn n (C05.smul k a) :=
  opOn_map_coef ha _

theorem opOn_herm {n : ℕ} {a : C05.Op} (ha : OpOn n a) : OpOn n (C05.herm a) := opOn_map_coef ha _

theorem opOn_idiv {n : ℕ} {a : C05.Op} (ha : OpOn n a) (k : C05.K) : OpOn n (C05.idiv a k) :=
  opOn_map_coef ha (fun c => C05.K.divExact c k)

theorem opOn_mul {n : ℕ} {a b : C05.Op} (ha : OpOn n a) (hb : OpOn n b) : OpOn n (C05.mul a b) := by
  unfold C05.mul
  have inner : ∀ (e : C05.Label × C05.K), C05.Valid e.1 → C05.bound e.1 ≤ n →
      ∀ (bs : C05.Op) (ret : C05.Op), OpOn n ret → OpOn n bs →
      OpOn n (bs.foldl (fun ret f =>
        let pr := C05.pauliProduct e.1 f.1
        C05.addTerm ret pr.1 (C05.K.mul (C05.K.mul e.2 f.2) (C05.K.ipow pr.2))) ret) := by
    intro e hv hbd bs
    induction bs with
    | nil => intro ret hr _; exact hr
    | cons f bs ih =>
      intro ret hr hbs
      rw [List.foldl_cons]
      have hf := hbs f (List.mem_cons_self ..)
      exact ih _ (opOn_addTerm hr (C05.pauliProduct_spec hv hf.1).1
        (C05.bound_product_le hv hf.1 hbd hf.2) _) (fun x hx => hbs x (List.mem_cons_of_mem _ hx))
  have outer : ∀ (as : C05.Op) (ret : C05.Op), OpOn n ret → OpOn n as →
      OpOn n (as.foldl (fun ret e => b.foldl (fun ret f =>
        let pr := C05.pauliProduct e.1 f.1
        C05.addTerm ret pr.1 (C05.K.mul (C05.K.mul e.2 f.2) (C05.K.ipow pr.2))) ret) ret) := by
    intro as
    induction as with
    | nil => intro ret hr _; exact hr
    | cons e as ih =>
      intro ret hr has
      rw [List.foldl_cons]
      have he := has e (List.mem_cons_self ..)
      exact ih _ (inner e he.1 he.2 b ret hr hb) (fun x hx => has x (List.mem_cons_of_mem _ hx))
  exact outer a [] (opOn_nil n) ha

theorem opOn_commutator {n : ℕ} {a b : C05.Op} (ha : OpOn n a) (hb : OpOn n b) :
    OpOn n (C05.commutator a b) :=
  opOn_sub (opOn_mul ha hb) (opOn_mul hb ha)

/-! ### §4  the algebra -/

/-- matrix product on the `2^n` block -/
def mulB (n : ℕ) (A B : ℕ → ℕ → F) (r j : ℕ) : F := ((List.range (2 ^ n)).map fun k => A r k * B k j).sum

/-- **single-label product**: `pauli_product P Q = (R, k)` means `den P · den Q = i^k · den R` as matrices -/
theorem den_product (hζ : ζ ^ 8 = -1) (n : ℕ) (p q : C05.Label) (hp : C05.Valid p) (hq : C05.Valid q)
    (hbp : C05.bound p ≤ n) (hbq : C05.bound q ≤ n) (r j : ℕ) (hr : r < 2 ^ n) (hj : j < 2 ^ n) :
    mulB n (den ζ ρ p) (den ζ ρ q) r j
      = ζ ^ (4 * (C05.pauliProduct p q).2) * den ζ ρ (C05.pauliProduct p q).1 r j := by
  have hR := C05.pauliProduct_spec hp hq
  have hbR := C05.bound_product_le hp hq hbp hbq
  unfold mulB
  rw [List.map_congr_left (g := fun k => toF ζ (C05.ampL p r k)
      * (if k = (C05.actL q j).2 then toF ζ (C05.K.ipow (C05.actL q j).1) else 0)) (fun k hk => by
    have hk' := List.mem_range.mp hk
    rw [den_eq_ampL hζ n p hp hbp r k hr hk', den_eq_ampL hζ n q hq hbq k j hk' hj]
    congr 1
    unfold C05.ampL
    simp only []
    by_cases e : (C05.actL q j).2 = k
    · rw [if_pos e, if_pos e.symm]
    · rw [if_neg e, if_neg (fun h => e h.symm), toF_zero])]
  rw [sum_ite_right (2 ^ n) _ (C05.actL_lt hbq hj), den_eq_ampL hζ n _ hR.1 hbR r j hr hj,
    ← toF_ipow hζ, ← toF_mul hζ, ← toF_mul hζ, C05.ampL_product hp hq r j, C05.K.mul_comm']

theorem Den_addTerm (hζ : ζ ^ 8 = -1) (n : ℕ) (op : C05.Op) (h : OpOn n op) (l : C05.Label)
    (hv : C05.Valid l) (hb : C05.bound l ≤ n) (c : C05.K) (r j : ℕ) (hr : r < 2 ^ n) (hj : j < 2 ^ n) :
    Den ζ ρ (C05.addTerm op l c) r j = Den ζ ρ op r j + toF ζ c * den ζ ρ l r j := by
  rw [Den_eq_amp hζ n _ (opOn_addTerm h hv hb c) r j hr hj, C05.amp_addTerm, toF_add, toF_mul hζ,
    Den_eq_amp hζ n op h r j hr hj, den_eq_ampL hζ n l hv hb r j hr hj]

theorem Den_add (hζ : ζ ^ 8 = -1) (n : ℕ) (a b : C05.Op) (ha : OpOn n a) (hb : OpOn n b) (r j : ℕ)
    (hr : r < 2 ^ n) (hj : j < 2 ^ n) :
    Den ζ ρ (C05.add a b) r j = Den ζ ρ a r j + Den ζ ρ b r j := by
  rw [Den_eq_amp hζ n _ (opOn_add ha hb) r j hr hj, C05.amp_add', toF_add,
    Den_eq_amp hζ n a ha r j hr hj, Den_eq_amp hζ n b hb r j hr hj]

theorem Den_sub (hζ : ζ ^ 8 = -1) (n : ℕ) (a b : C05.Op) (ha : OpOn n a) (hb : OpOn n b) (r j : ℕ)
    (hr : r < 2 ^ n) (hj : j < 2 ^ n) :
    Den ζ ρ (C05.sub a b) r j = Den ζ ρ a r j - Den ζ ρ b r j := by
  rw [Den_eq_amp hζ n _ (opOn_sub ha hb) r j hr hj, C05.amp_sub', toF_sub,
    Den_eq_amp hζ n a ha r j hr hj, Den_eq_amp hζ n b hb r j hr hj]

theorem Den_smul (hζ : ζ ^ 8 = -1) (n : ℕ) (k : C05.K) (a : C05.Op) (ha : OpOn n a) (r j : ℕ)
    (hr : r < 2 ^ n) (hj : j < 2 ^ n) :
    Den ζ ρ (C05.smul k a) r j = toF ζ k * Den ζ ρ a r j := by
  rw [Den_eq_amp hζ n _ (opOn_smul ha k) r j hr hj, C05.amp_smul', toF_mul hζ,
    Den_eq_amp hζ n a ha r j hr hj]

/-- **`op1 * op2` denotes the matrix product** on the `2^n` block -/
theorem Den_mul (hζ : ζ ^ 8 = -1) (n : ℕ) (a b : C05.Op) (ha : OpOn n a) (hb : OpOn n b) (r j : ℕ)
    (hr : r < 2 ^ n) (hj : j < 2 ^ n) :
    Den ζ ρ (C05.mul a b) r j = mulB n (Den ζ ρ a) (Den ζ ρ b) r j := by
  rw [Den_eq_amp hζ n _ (opOn_mul ha hb) r j hr hj,
    C05.amp_mul_matrix a b ha.valid hb.valid n (fun f hf => (hb f hf).2) r j hj, toF_rangeSum]
  unfold mulB
  congr 1
  apply List.map_congr_left
  intro k hk
  have hk' := List.mem_range.mp hk
  rw [toF_mul hζ, Den_eq_amp hζ n a ha r k hr hk', Den_eq_amp hζ n b hb k j hk' hj]

theorem Den_commutator (hζ : ζ ^ 8 = -1) (n : ℕ) (a b : C05.Op) (ha : OpOn n a) (hb : OpOn n b)
    (r j : ℕ) (hr : r < 2 ^ n) (hj : j < 2 ^ n) :
    Den ζ ρ (C05.commutator a b) r j
      = mulB n (Den ζ ρ a) (Den ζ ρ b) r j - mulB n (Den ζ ρ b) (Den ζ ρ a) r j := by
  unfold C05.commutator
  rw [Den_sub hζ n _ _ (opOn_mul ha hb) (opOn_mul hb ha) r j hr hj, Den_mul hζ n a b ha hb r j hr hj,
    Den_mul hζ n b a hb ha r j hr hj]

/-- exact division -/
theorem Den_idiv (hζ : ζ ^ 8 = -1) (n : ℕ) (a : C05.Op) (ha : OpOn n a) (k : C05.K)
    (hd : ∀ e ∈ a, C05.K.Divides k e.2) (r j : ℕ) (hr : r < 2 ^ n) (hj : j < 2 ^ n) :
    toF ζ k * Den ζ ρ (C05.idiv a k) r j = Den ζ ρ a r j := by
  rw [Den_eq_amp hζ n _ (opOn_idiv ha k) r j hr hj, ← toF_mul hζ, C05.amp_idiv' a k hd,
    Den_eq_amp hζ n a ha r j hr hj]

end QV.MatSound
