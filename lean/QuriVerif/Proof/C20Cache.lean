import QuriVerif.Model.C20Cache
/-
  C20 — content-keyed caches: every cached result was computed on a content with the entry's key.
-/
namespace QV.C20.Cache

variable {ρ : Type}

/-- cache invariant (uses the ghost field `src`) -/
def CInv (compute : Content → Nat → ρ) (s : CSt ρ) : Prop :=
  ∀ e, e ∈ s.cache → e.key = canon e.src ∧ e.res = compute e.src e.n

theorem CInv.init (compute : Content → Nat → ρ) : CInv compute (CSt.init : CSt ρ) := by
  intro e he; simp [CSt.init] at he

theorem findEntry_some {k : Content} {n : Nat} {es : List (Entry ρ)} {e : Entry ρ}
    (h : findEntry k n es = some e) : e ∈ es ∧ e.key = k ∧ e.n = n := by
  induction es with
  | nil => simp [findEntry] at h
  | cons x xs ih =>
    unfold findEntry at h
    split at h
    · rename_i hc
      cases h
      simp only [Bool.and_eq_true, beq_iff_eq] at hc
      exact ⟨List.mem_cons_self, hc.1, hc.2⟩
    · obtain ⟨h1, h2⟩ := ih h
      exact ⟨List.mem_cons_of_mem _ h1, h2⟩

theorem cstep_inv (compute : Content → Nat → ρ) {s : CSt ρ} (hI : CInv compute s) (op : COp) :
    CInv compute (cstep compute s op).1 := by
  cases op with
  | new => exact hI
  | set h l v => exact hI
  | del h l => exact hI
  | copy h =>
    simp only [cstep, cstepWith]
    split <;> exact hI
  | get h n =>
    simp only [cstep, cstepWith]
    split
    · split
      · exact hI
      · intro e he
        simp only [List.mem_cons] at he
        cases he with
        | inl he => subst he; exact ⟨rfl, rfl⟩
        | inr he => exact hI e he
    · exact hI

theorem crun_inv (compute : Content → Nat → ρ) {s : CSt ρ} (hI : CInv compute s) (ops : List COp) :
    CInv compute (crun compute s ops).1 := by
  induction ops generalizing s with
  | nil => exact hI
  | cons op ops ih => exact ih (cstep_inv compute hI op)

/-- a lookup returns a result that was computed on *some* content with the same item set as the
    operator's current content -/
theorem cstep_get_sound (compute : Content → Nat → ρ) {s : CSt ρ} (hI : CInv compute s) {h : Nat}
    (hh : h < s.ops.length) (n : Nat) :
    ∃ r hit c', (cstep compute s (.get h n)).2 = .res r hit ∧
      canon c' = canon (s.ops.getD h []) ∧ r = compute c' n := by
  simp only [cstep, cstepWith, hh, if_true, keyOf]
  cases hf : findEntry (canon (s.ops.getD h [])) n s.cache with
  | some e =>
    obtain ⟨h1, h2, h3⟩ := findEntry_some hf
    obtain ⟨i1, i2⟩ := hI e h1
    exact ⟨e.res, true, e.src, rfl, by rw [← i1, h2], by rw [i2, h3]⟩
  | none => exact ⟨_, false, s.ops.getD h [], rfl, rfl, rfl⟩

end QV.C20.Cache
