import QuriVerif.Proof.C05Act
/- C05: labels as canonical sorted sets of pairs; equality is independent of the construction route -/
namespace QV.C05

theorem code_lt (p : P1) : p.code < 4 := by cases p <;> decide
theorem code_inj {p q : P1} (h : p.code = q.code) : p = q := by cases p <;> cases q <;> simp_all [P1.code]

theorem key_inj {a b : Nat × P1} (h : key a = key b) : a = b := by
  have ha := code_lt a.2
  have hb := code_lt b.2
  unfold key at h
  have h1 : a.1 = b.1 := by omega
  have h2 : a.2.code = b.2.code := by omega
  exact Prod.ext h1 (code_inj h2)

theorem key_lt_of_idx_lt {a b : Nat × P1} (h : a.1 < b.1) : key a < key b := by
  have ha := code_lt a.2
  unfold key; omega

theorem idx_le_of_key_lt {a b : Nat × P1} (h : key a < key b) : a.1 ≤ b.1 := by
  have hb := code_lt b.2
  unfold key at h; omega

theorem mem_insertE (e x : Nat × P1) (l : Label) : x ∈ insertE e l ↔ x = e ∨ x ∈ l := by
  induction l with
  | nil => simp [insertE]
  | cons y ys ih =>
    simp only [insertE]
    split
    · simp
    · split
      · rename_i h1 h2
        have := key_inj h2
        subst this
        simp
      · simp [ih]
        constructor
        · rintro (h | h | h) <;> simp [h]
        · rintro (h | h | h) <;> simp [h]

theorem canonical_insertE (e : Nat × P1) (l : Label) (h : Canonical l) : Canonical (insertE e l) := by
  induction l with
  | nil => simp [insertE, Canonical]
  | cons y ys ih =>
    unfold Canonical at h ih ⊢
    rw [List.pairwise_cons] at h
    simp only [insertE]
    split
    · rename_i h1
      rw [List.pairwise_cons]
      refine ⟨?_, List.pairwise_cons.2 h⟩
      intro z hz
      rcases List.mem_cons.1 hz with rfl | hz
      · exact h1
      · exact Nat.lt_trans h1 (h.1 z hz)
    · split
      · exact List.pairwise_cons.2 h
      · rename_i h1 h2
        rw [List.pairwise_cons]
        refine ⟨?_, ih h.2⟩
        intro z hz
        rcases (mem_insertE e z ys).1 hz with rfl | hz
        · omega
        · exact h.1 z hz

theorem canonical_canon (es : List (Nat × P1)) : Canonical (canon es) := by
  induction es with
  | nil => simp [canon, Canonical]
  | cons e r ih => exact canonical_insertE e _ ih

theorem mem_canon (es : List (Nat × P1)) (x : Nat × P1) : x ∈ canon es ↔ x ∈ es := by
  induction es with
  | nil => simp [canon]
  | cons e r ih =>
    have : canon (e :: r) = insertE e (canon r) := rfl
    rw [this, mem_insertE, ih]; simp

/-- two strictly sorted lists with the same elements are the same list -/
theorem canonical_ext {l1 l2 : Label} (h1 : Canonical l1) (h2 : Canonical l2)
    (h : ∀ x, x ∈ l1 ↔ x ∈ l2) : l1 = l2 := by
  induction l1 generalizing l2 with
  | nil =>
    cases l2 with
    | nil => rfl
    | cons y ys => exact absurd ((h y).2 (by simp)) (by simp)
  | cons x xs ih =>
    cases l2 with
    | nil => exact absurd ((h x).1 (by simp)) (by simp)
    | cons y ys =>
      unfold Canonical at h1 h2
      rw [List.pairwise_cons] at h1 h2
      have hxy : x = y := by
        have hx := (h x).1 (by simp)
        have hy := (h y).2 (by simp)
        rcases List.mem_cons.1 hx with rfl | hx
        · rfl
        · rcases List.mem_cons.1 hy with rfl | hy
          · rfl
          · have := h2.1 x hx
            have := h1.1 y hy
            omega
      subst hxy
      congr 1
      apply ih h1.2 h2.2
      intro z
      constructor
      · intro hz
        have := (h z).1 (by simp [hz])
        rcases List.mem_cons.1 this with rfl | hz'
        · have := h1.1 z hz; omega
        · exact hz'
      · intro hz
        have := (h z).2 (by simp [hz])
        rcases List.mem_cons.1 this with rfl | hz'
        · have := h2.1 z hz; omega
        · exact hz'

theorem canon_of_canonical {l : Label} (h : Canonical l) : canon l = l :=
  canonical_ext (canonical_canon l) h (mem_canon l)

/-- **equality of labels is equality of the sets of pairs**, whatever the order / multiplicity in
    which the pairs were supplied -/
theorem canon_eq_iff (a b : List (Nat × P1)) : canon a = canon b ↔ ∀ x, x ∈ a ↔ x ∈ b := by
  constructor
  · intro h x
    rw [← mem_canon a, ← mem_canon b, h]
  · intro h
    apply canonical_ext (canonical_canon a) (canonical_canon b)
    intro x
    rw [mem_canon, mem_canon, h]

theorem canon_perm {a b : List (Nat × P1)} (h : a.Perm b) : canon a = canon b :=
  (canon_eq_iff a b).2 fun _ => h.mem_iff

theorem valid_canonical {l : Label} (h : Valid l) : Canonical l :=
  h.1.imp fun h => key_lt_of_idx_lt h

/-- at most one Pauli per index -/
def Fun (es : List (Nat × P1)) : Prop := ∀ a ∈ es, ∀ b ∈ es, a.1 = b.1 → a = b

theorem Fun.tail {e : Nat × P1} {r : List (Nat × P1)} (h : Fun (e :: r)) : Fun r :=
  fun a ha b hb hab => h a (by simp [ha]) b (by simp [hb]) hab

theorem fun_of_nodup {es : List (Nat × P1)} (h : (es.map (·.1)).Nodup) : Fun es := by
  induction es with
  | nil => intro a ha; simp at ha
  | cons e r ih =>
    rw [List.map_cons, List.nodup_cons] at h
    intro a ha b hb hab
    rcases List.mem_cons.1 ha with ha | ha <;> rcases List.mem_cons.1 hb with hb | hb
    · rw [ha, hb]
    · have := List.mem_map_of_mem (f := (·.1)) hb
      rw [← hab, ha] at this
      exact absurd this h.1
    · have := List.mem_map_of_mem (f := (·.1)) ha
      rw [hab, hb] at this
      exact absurd this h.1
    · exact ih h.2 a ha b hb hab

theorem valid_nodup {l : Label} (h : Valid l) : (l.map (·.1)).Nodup := by
  have := h.1
  unfold List.Nodup
  rw [List.pairwise_map]
  exact this.imp fun h => Nat.ne_of_lt h

theorem valid_fun {l : Label} (h : Valid l) : Fun l := fun_of_nodup (valid_nodup h)

theorem lookup_of_mem {l : List (Nat × P1)} (hf : Fun l) {j : Nat} {p : P1} (h : (j, p) ∈ l) : lookup l j = p := by
  induction l with
  | nil => simp at h
  | cons e r ih =>
    obtain ⟨i, a⟩ := e
    simp only [lookup]
    split
    · rename_i hij
      have := hf (i, a) (by simp) (j, p) h hij
      simp_all
    · rename_i hij
      rcases List.mem_cons.1 h with h | h
      · simp_all
      · exact ih hf.tail h

theorem mem_of_lookup {l : List (Nat × P1)} {j : Nat} {p : P1} (h : lookup l j = p) (hp : p ≠ .I) : (j, p) ∈ l := by
  induction l with
  | nil => simp [lookup] at h; exact absurd h.symm hp
  | cons e r ih =>
    obtain ⟨i, a⟩ := e
    simp only [lookup] at h
    split at h
    · rename_i hij; subst hij; subst h; simp
    · exact List.mem_cons_of_mem _ (ih h)

theorem lookup_eq_I_of_not_idx {l : List (Nat × P1)} {j : Nat} (h : ∀ e ∈ l, e.1 ≠ j) : lookup l j = .I := by
  induction l with
  | nil => rfl
  | cons e r ih =>
    obtain ⟨i, a⟩ := e
    simp only [lookup]
    rw [if_neg (h (i, a) (by simp)), ih fun e he => h e (by simp [he])]

theorem lookup_ne_I_of_mem {l : Label} (h : Valid l) {e : Nat × P1} (he : e ∈ l) : lookup l e.1 ≠ .I := by
  rw [lookup_of_mem (valid_fun h) (p := e.2) he]
  exact h.2 e he

theorem lookup_bound {l : List (Nat × P1)} {j : Nat} (h : bound l ≤ j) : lookup l j = .I := by
  apply lookup_eq_I_of_not_idx
  intro e he
  induction l with
  | nil => simp at he
  | cons x r ih =>
    obtain ⟨i, a⟩ := x
    simp only [bound] at h
    rcases List.mem_cons.1 he with rfl | he
    · simp; omega
    · exact ih (by omega) he

theorem idx_lt_bound {l : List (Nat × P1)} {e : Nat × P1} (he : e ∈ l) : e.1 < bound l := by
  induction l with
  | nil => simp at he
  | cons x r ih =>
    obtain ⟨i, a⟩ := x
    simp only [bound]
    rcases List.mem_cons.1 he with rfl | he
    · simp; omega
    · have := ih he; omega

/-- a valid label is determined by the finite map it denotes -/
theorem valid_ext {l1 l2 : Label} (h1 : Valid l1) (h2 : Valid l2) (h : ∀ j, lookup l1 j = lookup l2 j) : l1 = l2 := by
  apply canonical_ext (valid_canonical h1) (valid_canonical h2)
  intro x
  constructor
  · intro hx
    have := lookup_of_mem (valid_fun h1) (j := x.1) (p := x.2) hx
    exact mem_of_lookup ((h x.1).symm.trans this) (h1.2 x hx)
  · intro hx
    have := lookup_of_mem (valid_fun h2) (j := x.1) (p := x.2) hx
    exact mem_of_lookup ((h x.1).trans this) (h2.2 x hx)

/-- the frozenset of a functional, identity-free pair list is a valid label -/
theorem valid_canon {es : List (Nat × P1)} (hf : Fun es) (hI : ∀ e ∈ es, e.2 ≠ .I) : Valid (canon es) := by
  refine ⟨?_, fun e he => hI e ((mem_canon es e).1 he)⟩
  apply (canonical_canon es).imp_of_mem
  intro a b ha hb hab
  have hle := idx_le_of_key_lt hab
  rcases Nat.lt_or_eq_of_le hle with h | h
  · exact h
  · have := hf a ((mem_canon es a).1 ha) b ((mem_canon es b).1 hb) h
    subst this; omega

theorem lookup_canon {es : List (Nat × P1)} (hf : Fun es) (j : Nat) : lookup (canon es) j = lookup es j := by
  have hf' : Fun (canon es) := fun a ha b hb hab => hf a ((mem_canon es a).1 ha) b ((mem_canon es b).1 hb) hab
  by_cases h : ∃ p, (j, p) ∈ es
  · obtain ⟨p, hp⟩ := h
    rw [lookup_of_mem hf hp, lookup_of_mem hf' ((mem_canon es _).2 hp)]
  · have h1 : ∀ e ∈ es, e.1 ≠ j := fun e he hej => h ⟨e.2, by rw [← hej]; exact he⟩
    have h2 : ∀ e ∈ canon es, e.1 ≠ j := fun e he => h1 e ((mem_canon es e).1 he)
    rw [lookup_eq_I_of_not_idx h1, lookup_eq_I_of_not_idx h2]

/-- sum over the entries of a label = sum over positions of the finite map -/
theorem sum_entries (F : Nat → P1 → Nat) (hF : ∀ j, F j .I = 0) (l : List (Nat × P1))
    (hn : (l.map (·.1)).Nodup) (N : Nat) (hb : ∀ e ∈ l, e.1 < N) :
    (l.map fun e => F e.1 e.2).sum = psum (fun j => F j (lookup l j)) 0 N := by
  induction l with
  | nil => simp [lookup, hF, psum_zero]
  | cons e r ih =>
    obtain ⟨i, a⟩ := e
    rw [List.map_cons, List.nodup_cons] at hn
    have hri : lookup r i = .I := lookup_eq_I_of_not_idx fun e he hei => hn.1 (hei ▸ List.mem_map_of_mem (f := (·.1)) he)
    rw [List.map_cons, List.sum_cons, ih hn.2 fun e he => hb e (by simp [he])]
    rw [psum_update (fun j => F j (lookup r j)) (fun j => F j (lookup ((i, a) :: r) j)) i 0 N
      ⟨Nat.zero_le _, by simpa using hb (i, a) (by simp)⟩]
    · simp [lookup]; omega
    · intro j hj
      simp only [lookup]
      rw [if_neg (fun h => hj h.symm)]
    · simp [hri, hF]

end QV.C05
