import QuriVerif.Model.C08
/-
  C08 — helper lemmas (core Lean only).
-/
namespace QV.C08

/-! ## Gaussian rationals: the little algebra the fold needs -/

theorem C.add_def (a b : C) : a + b = ⟨a.re + b.re, a.im + b.im⟩ := rfl
theorem C.zero_def : (0 : C) = ⟨0, 0⟩ := rfl

theorem C.add_assoc (a b c : C) : a + b + c = a + (b + c) := by
  simp only [C.add_def, Rat.add_assoc]

theorem C.add_zero (a : C) : a + 0 = a := by
  cases a; simp only [C.add_def, C.zero_def, Rat.add_zero]

theorem C.zero_add (a : C) : 0 + a = a := by
  cases a; simp only [C.add_def, C.zero_def, Rat.zero_add]

/-! ## rounding down -/

theorem rounddown_dvd (num den u : Nat) : u ∣ rounddown num den u := ⟨_, rfl⟩

/-- `den · rounddown(num/den, u) ≤ num` : rounding down never exceeds the rational it rounds -/
theorem den_mul_rounddown_le (num den u : Nat) : den * rounddown num den u ≤ num := by
  unfold rounddown
  rw [← Nat.mul_assoc]
  exact Nat.mul_div_le num (den * u)

theorem sum_map_const_mul (k : Nat) (l : List Nat) : (l.map fun d => k * d).sum = k * l.sum := by
  induction l with
  | nil => simp
  | cons a l ih => simp only [List.map_cons, List.sum_cons, ih, Nat.mul_add]

/-! ## equipartition -/

theorem equipartition_ok {n total u : Nat} {a : List Nat} (h : equipartition n total u = .ok a) :
    n ≠ 0 ∧ u ≠ 0 ∧ a = List.replicate n (rounddown total n u) := by
  unfold equipartition at h
  split at h
  · cases h
  · split at h
    · cases h
    · injection h with h
      exact ⟨by assumption, by assumption, h.symm⟩

theorem equipartition_sum_le (n total u : Nat) :
    (List.replicate n (rounddown total n u)).sum ≤ total := by
  rw [List.sum_replicate_nat]
  exact den_mul_rounddown_le total n u

/-! ## proportional -/

theorem proportional_ok {ws : List Nat} {total u : Nat} {a : List Nat}
    (h : proportional ws total u = .ok a) :
    a = ws.map (fun w => rounddown (total * w) ws.sum u) ∧ (ws = [] ∨ (ws.sum ≠ 0 ∧ u ≠ 0)) := by
  unfold proportional at h
  split at h
  · injection h with h
    subst h
    rename_i hws
    subst hws
    exact ⟨rfl, Or.inl rfl⟩
  · split at h
    · cases h
    · split at h
      · cases h
      · injection h with h
        exact ⟨h.symm, Or.inr ⟨by assumption, by assumption⟩⟩

/-- the core inequality, for any sub-list `l` of the weights: `W · Σ alloc ≤ total · Σ w` -/
theorem proportional_partial_sum (W total u : Nat) (l : List Nat) :
    W * (l.map fun w => rounddown (total * w) W u).sum ≤ total * l.sum := by
  induction l with
  | nil => simp
  | cons w l ih =>
    simp only [List.map_cons, List.sum_cons, Nat.mul_add]
    exact Nat.add_le_add (den_mul_rounddown_le (total * w) W u) ih

theorem proportional_sum_le (ws : List Nat) (total u : Nat) :
    (ws.map fun w => rounddown (total * w) ws.sum u).sum ≤ total := by
  by_cases hW : ws.sum = 0
  · -- every term is `u * (x / 0) = 0`
    have hr : ∀ w, rounddown (total * w) ws.sum u = 0 := by
      intro w; simp [rounddown, hW]
    have : ∀ l : List Nat, (l.map fun w => rounddown (total * w) ws.sum u).sum = 0 := by
      intro l
      induction l with
      | nil => rfl
      | cons w l ih => rw [List.map_cons, List.sum_cons, ih, hr]
    rw [this]; exact Nat.zero_le _
  · have h := proportional_partial_sum ws.sum total u ws
    rw [Nat.mul_comm total ws.sum] at h
    exact Nat.le_of_mul_le_mul_left h (Nat.pos_of_ne_zero hW)

theorem sum_map_mul_left (k : Nat) (l : List Nat) : (l.map (k * ·)).sum = k * l.sum :=
  sum_map_const_mul k l

theorem rounddown_scale (k num den u : Nat) (hk : 0 < k) :
    rounddown (k * num) (k * den) u = rounddown num den u := by
  unfold rounddown
  rw [Nat.mul_assoc k den u, Nat.mul_div_mul_left _ _ hk]

/-! ## weighted random -/

theorem weightedRandom_ok {ws : List Nat} {u : Nat} {draw a : List Nat}
    (h : weightedRandom ws u draw = .ok a) :
    ws ≠ [] ∧ ws.sum ≠ 0 ∧ u ≠ 0 ∧ a = draw.map (fun d => u * d) := by
  unfold weightedRandom at h
  split at h
  · cases h
  · split at h
    · cases h
    · split at h
      · cases h
      · injection h with h
        rename_i h1 h2 h3
        refine ⟨h3, ?_, h2, h.symm⟩
        intro hs
        exact h1 ⟨h3, hs⟩

theorem mul_div_self_le (total u : Nat) : u * (total / u) ≤ total := Nat.mul_div_le total u

/-! ## distribute -/

theorem lookup_zip_map (f : Nat → Nat) (order : List Nat) (k : Nat) (hk : k ∈ order) :
    (order.zip (order.map f)).lookup k = some (f k) := by
  induction order with
  | nil => cases hk
  | cons o os ih =>
    simp only [List.map_cons, List.zip_cons_cons, List.lookup_cons]
    by_cases h : k = o
    · subst h; simp
    · have : (k == o) = false := by simpa using h
      rw [this]
      cases hk with
      | head => exact absurd rfl h
      | tail _ hm => exact ih hm

theorem shotsPerGroup_map (f : Nat → Nat) (order : List Nat) (ks : List Nat)
    (h : ∀ k ∈ ks, k ∈ order) :
    shotsPerGroup (order.zip (order.map f)) ks = .ok (ks.map f) := by
  induction ks with
  | nil => rfl
  | cons k ks ih =>
    have hk := lookup_zip_map f order k (h k (List.mem_cons_self ..))
    have ih' := ih (fun k' hk' => h k' (List.mem_cons_of_mem _ hk'))
    simp only [shotsPerGroup, lookupShots, hk, ih', List.map_cons]

theorem shotsPerGroup_keyError (m : List (Nat × Nat)) (ks : List Nat) (k : Nat) (hk : k ∈ ks)
    (hm : m.lookup k = none) : shotsPerGroup m ks = .error .keyError := by
  induction ks with
  | nil => cases hk
  | cons k' ks ih =>
    by_cases h : k = k'
    · subst h
      simp only [shotsPerGroup, lookupShots, hm]
    · have hk' : k ∈ ks := by
        cases hk with
        | head => exact absurd rfl h
        | tail _ hm' => exact hm'
      simp only [shotsPerGroup, ih hk', lookupShots]
      cases m.lookup k' <;> rfl

/-! ## prepared pairs -/

theorem prepFrom_shots_sum (i : Nat) (shots : List Nat) :
    ((prepFrom i shots).map (·.2)).sum = shots.sum := by
  induction shots generalizing i with
  | nil => rfl
  | cons s ss ih =>
    unfold prepFrom
    split
    · simp only [List.map_cons, List.sum_cons, ih]
    · have : s = 0 := by omega
      simp only [ih, List.sum_cons, this, Nat.zero_add]

theorem prepFrom_mem (i : Nat) (shots : List Nat) (p : Nat × Nat) (h : p ∈ prepFrom i shots) :
    p.2 ∈ shots ∧ p.2 > 0 := by
  induction shots generalizing i with
  | nil => cases h
  | cons s ss ih =>
    unfold prepFrom at h
    split at h
    · cases h with
      | head => exact ⟨List.mem_cons_self .., by assumption⟩
      | tail _ h' => exact ⟨List.mem_cons_of_mem _ (ih _ h').1, (ih _ h').2⟩
    · exact ⟨List.mem_cons_of_mem _ (ih _ h).1, (ih _ h).2⟩

theorem prepFrom_eq_filter (i : Nat) (shots : List Nat) :
    prepFrom i shots = ((shots.zipIdx i).filter fun p => p.1 > 0).map fun p => (p.2, p.1) := by
  induction shots generalizing i with
  | nil => rfl
  | cons s ss ih =>
    unfold prepFrom
    simp only [List.zipIdx_cons, List.filter_cons]
    split <;> simp_all

theorem prepFrom_all_zero (i : Nat) (ss : List Nat) (h : ss.all (· == 0) = true) :
    prepFrom i ss = [] := by
  induction ss generalizing i with
  | nil => rfl
  | cons s ss ih =>
    simp only [List.all_cons, Bool.and_eq_true, beq_iff_eq] at h
    unfold prepFrom
    simp only [h.1, Nat.lt_irrefl, gt_iff_lt, if_false]
    exact ih _ h.2

/-! ## normalisation of the counts -/

theorem countTotal_scale (k : Rat) (c : Counts) : countTotal (scaleCounts k c) = k * countTotal c := by
  induction c with
  | nil => simp [scaleCounts, countTotal]
  | cons p c ih =>
    obtain ⟨b, x⟩ := p
    simp only [scaleCounts, List.map_cons, countTotal] at ih ⊢
    rw [ih]; grind

theorem weightedSum_scale (rec : Nat → Int) (k : Rat) (c : Counts) :
    weightedSum rec (scaleCounts k c) = k * weightedSum rec c := by
  induction c with
  | nil => simp [scaleCounts, weightedSum]
  | cons p c ih =>
    obtain ⟨b, x⟩ := p
    simp only [scaleCounts, List.map_cons, weightedSum] at ih ⊢
    rw [ih]; grind

theorem pauliExp_scale (rec : Nat → Int) (isId : Bool) (k : Rat) (hk : k ≠ 0) (c : Counts) :
    pauliExp rec isId (scaleCounts k c) = pauliExp rec isId c := by
  unfold pauliExp
  rw [countTotal_scale, weightedSum_scale]
  have h1 : (scaleCounts k c = []) ↔ c = [] := by simp [scaleCounts]
  by_cases hc : c = []
  · simp [hc, scaleCounts]
  · have hc' : scaleCounts k c ≠ [] := fun h => hc (h1.mp h)
    simp only [hc, hc', if_false]
    by_cases hi : isId = true
    · simp [hi]
    · simp only [hi]
      by_cases ht : countTotal c = 0
      · simp [ht]
      · have : k * countTotal c ≠ 0 := by grind
        simp only [ht, this, if_false]
        congr 1
        grind
/-! ## pairing -/

/-- with the zero-shot groups last, zipping *all* groups with the delivered counts pairs the same
    (group, counts) as zipping only the groups that were sampled -/
theorem zip_all_eq_zip_positive {β : Type} (g : Nat × Nat → β) (groups : List Meas) (shots : List Nat)
    (i : Nat) (h : zerosLast shots = true) :
    groups.zip ((prepFrom i shots).map g) = (positiveGroups groups shots).zip ((prepFrom i shots).map g) := by
  induction groups generalizing shots i with
  | nil => simp [positiveGroups]
  | cons m ms ih =>
    cases shots with
    | nil => simp [positiveGroups, prepFrom]
    | cons s ss =>
      unfold zerosLast at h
      unfold prepFrom positiveGroups
      by_cases hs : s > 0
      · simp only [hs, if_true, List.map_cons, List.zip_cons_cons] at h ⊢
        rw [ih ss (i + 1) h]
      · simp only [hs, if_false] at h ⊢
        rw [prepFrom_all_zero _ _ h]
        simp

theorem zerosLast_of_all_pos (shots : List Nat) (h : ∀ s ∈ shots, s > 0) : zerosLast shots = true := by
  induction shots with
  | nil => rfl
  | cons s ss ih =>
    unfold zerosLast
    have hs : s > 0 := h s (List.mem_cons_self ..)
    simp only [hs, if_true]
    exact ih fun s' hs' => h s' (List.mem_cons_of_mem _ hs')

/-! ## ideal sampling -/

theorem sumTerms_ideal (op : Op) (recon : Nat → Nat → Int) (counts : Counts) (exact : Nat → Rat)
    (ps : List Nat)
    (h : ps.all (fun p => (op.lookup p).isNone || pauliExp (recon p) (p == 0) counts == .ok (exact p)) = true) :
    sumTerms op recon counts ps = .ok (exactSum op exact ps) := by
  induction ps with
  | nil => rfl
  | cons p ps ih =>
    simp only [List.all_cons, Bool.and_eq_true] at h
    have ih' := ih h.2
    unfold sumTerms exactSum
    cases hl : op.lookup p with
    | none => simpa using ih'
    | some c =>
      have hp := h.1
      simp only [hl, Option.isNone_some, Bool.false_or, beq_iff_eq] at hp
      simp only [hp, ih']

/-- the repaired pairing: every accumulated term is the exact weighted sum of a sampled group -/
theorem accumulate_positive (op : Op) (ideal : Nat → Nat → Counts) (exact : Nat → Rat)
    (groups : List Meas) (shots : List Nat) (i : Nat) (val : C)
    (h : idealFrom op ideal exact i groups shots = true) :
    accumulate op val ((positiveGroups groups shots).zip ((prepFrom i shots).map fun p => ideal p.1 p.2))
      = .ok (val + sumC ((positiveGroups groups shots).map fun m => exactSum op exact m.paulis)) := by
  induction groups generalizing shots i val with
  | nil => simp [positiveGroups, accumulate, sumC, C.add_zero]
  | cons m ms ih =>
    cases shots with
    | nil => simp [positiveGroups, accumulate, sumC, C.add_zero]
    | cons s ss =>
      unfold idealFrom at h
      simp only [Bool.and_eq_true, Bool.or_eq_true, beq_iff_eq] at h
      unfold positiveGroups prepFrom
      by_cases hs : s > 0
      · have hne : s ≠ 0 := by omega
        have hall := h.1.resolve_left hne
        simp only [hs, if_true, List.map_cons, List.zip_cons_cons, accumulate, pauliSumExp, sumC]
        rw [sumTerms_ideal op m.recon (ideal i s) exact m.paulis hall]
        simp only []
        rw [ih ss (i + 1) _ h.2, C.add_assoc]
      · simp only [hs, if_false]
        exact ih ss (i + 1) val h.2

theorem estimate_unfold (mode : PairMode) (op : Op) (fg : List Meas) (alloc : List Meas → R (List Nat))
    (sampler : List (Nat × Nat) → List Counts) (shots : List Nat) (hop : Sampled op)
    (ha : alloc (fg.filter fun m => !isIdentitySet m.paulis) = .ok shots) :
    samplingEstimate mode op fg alloc sampler =
      accumulate op (constOf op)
        (pairing mode (fg.filter fun m => !isIdentitySet m.paulis) shots (sampler (prepPairs shots))) := by
  unfold samplingEstimate
  simp only [hop.1, hop.2, if_false, ha]

end QV.C08
