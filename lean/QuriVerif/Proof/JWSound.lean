import QuriVerif.Proof.OpAlgSound
import QuriVerif.Proof.MeasSound
import QuriVerif.Model.C13JW
/-
  C13 — Jordan–Wigner at operator level (generic field part): the matrices of the JW ladder operators
  (`Model/C13JW.jwLadder`, read through `Proof/OpAlgSound.Den`, i.e. as sums of X/Y/Z gate matrices) ARE the
  Fock-space ladder operators of `Model/C13JW.fockLadder`, for every number of modes; words of ladder
  operators computed with the dict arithmetic `C05.mul` have the Fock-space matrix elements; the canonical
  anticommutation relations hold at matrix level.

    * §1  labels: validity, the column of `Z_0…Z_{p−1} A_p` (`den_jwLabel`);
    * §2  one ladder operator (`Den_ladder`);
    * §3  words (`Den_word`) and integer combinations of words (`Den_fop`);
    * §4  two-step products and the CAR (`car_mixed`, `car_same`, `number_diag`).
-/
namespace QV.MatSound
open QV QV.Poly QV.C13JW

variable {F : Type} [Field F] {ζ : F} {ρ : ℕ → F}

/-! ### §1  labels -/

/-- `Z_0 … Z_{p−1}` as a label of `Proof/ConjSound` -/
def zlab (p : ℕ) : C06.Label := (List.range p).map fun k => (k, 3)

theorem lab_jwLabel (p : ℕ) (a : C05.P1) : lab (jwLabel p a) = zlab p ++ [(p, a.code)] := by
  simp [lab, jwLabel, zString, zlab, List.map_map, Function.comp, C05.P1.code]

theorem zLabel_zlab (p : ℕ) : zLabel (zlab p) = zlab p := by
  simp [zLabel, zlab, List.map_map, Function.comp]

theorem valid_jwLabel (p : ℕ) (a : C05.P1) (ha : a ≠ .I) : C05.Valid (jwLabel p a) := by
  constructor
  · unfold jwLabel zString
    rw [List.pairwise_append]
    refine ⟨?_, List.pairwise_singleton _ _, ?_⟩
    · rw [List.pairwise_map]
      exact List.pairwise_lt_range
    · intro x hx y hy
      simp only [List.mem_singleton] at hy
      subst hy
      obtain ⟨k, hk, rfl⟩ := List.mem_map.mp hx
      exact List.mem_range.mp hk
  · intro e he
    unfold jwLabel zString at he
    rcases List.mem_append.mp he with h | h
    · obtain ⟨k, _, rfl⟩ := List.mem_map.mp h
      simp
    · simp only [List.mem_singleton] at h
      subst h
      exact ha

theorem bound_jwLabel (p n : ℕ) (hp : p < n) (a : C05.P1) : C05.bound (jwLabel p a) ≤ n := by
  apply C05.bound_le
  intro e he
  unfold jwLabel zString at he
  rcases List.mem_append.mp he with h | h
  · obtain ⟨k, hk, rfl⟩ := List.mem_map.mp h
    have := List.mem_range.mp hk
    show k < n
    omega
  · simp only [List.mem_singleton] at h
    subst h
    exact hp

theorem zsign_append (x : ℕ) : ∀ (A B : C06.Label), zsign x (A ++ B) = (zsign x A != zsign x B) := by
  intro A
  induction A with
  | nil => intro B; simp [zsign]
  | cons e A ih =>
    intro B
    rw [List.cons_append, zsign_cons, zsign_cons, ih]
    cases x.testBit e.1 <;> cases zsign x A <;> cases zsign x B <;> rfl

theorem zsign_zlab (x : ℕ) : ∀ p, zsign x (zlab p) = parBelow p x := by
  intro p
  induction p with
  | zero => rfl
  | succ p ih =>
    have e : zlab (p + 1) = zlab p ++ [(p, 3)] := by simp [zlab, List.range_succ]
    rw [e, zsign_append, ih, parBelow]
    simp [zsign]

theorem sup_zlab (p n : ℕ) (hp : p ≤ n) : Sup n (zlab p) := by
  intro e he
  obtain ⟨k, hk, rfl⟩ := List.mem_map.mp he
  have := List.mem_range.mp hk
  show k < n
  omega

/-- sign of the occupations below `p` as a field element -/
def sgnF (F : Type) [Field F] (b : Bool) : F := if b then -1 else 1

theorem signOf_cast (b : Bool) : ((signOf b : ℤ) : F) = sgnF F b := by
  unfold signOf sgnF; cases b <;> simp

/-- **the matrix of `Z_0…Z_{p−1} A_p`** (`A ∈ {X, Y}`): one entry per column, at the index with bit `p`
    flipped, the JW sign times the single-qubit amplitude -/
theorem den_jwLabel (n p : ℕ) (hp : p < n) (a : C05.P1) (hfl : chi a.code = 1) (r x : ℕ)
    (hr : r < 2 ^ n) (hx : x < 2 ^ n) :
    den ζ ρ (jwLabel p a) r x
      = if r = x ^^^ 2 ^ p then sgnF F (parBelow p x) * epsK ζ a.code (Gate.bitAt x p) else 0 := by
  unfold den
  rw [lab_jwLabel]
  have e1 : labelGates (zlab p ++ [(p, a.code)]) = labelGates (zLabel (zlab p)) ++ pgate p a.code := by
    rw [zLabel_zlab]; simp [labelGates]
  rw [e1]
  have c1 := zLabel_col (ζ := ζ) (ρ := ρ) n x hx (zlab p) (sup_zlab p n (by omega))
  have c2 := pgate_col (ζ := ζ) (ρ := ρ) n p a.code hp x hx
  rw [if_pos hfl] at c2
  have c := IsCol.append c1 c2 (wf_pgate n p a.code hp)
  rw [c.2 r hr, zsign_zlab]
  rfl

/-! ### §2  one ladder operator -/

theorem opOn_ladder (n p : ℕ) (hp : p < n) (dag : Bool) : OpOn n (jwLadder p dag) := by
  intro e he
  simp only [jwLadder, List.mem_cons, List.mem_nil_iff, or_false] at he
  rcases he with rfl | rfl
  · exact ⟨valid_jwLabel p .X (by decide), bound_jwLabel p n hp .X⟩
  · exact ⟨valid_jwLabel p .Y (by decide), bound_jwLabel p n hp .Y⟩

/-- a Fock-space action as a matrix: `s` at row `y` of column `x`, nothing if annihilated -/
def actMat (F : Type) [Field F] (o : Option (ℤ × ℕ)) (r : ℕ) : F :=
  match o with
  | none => 0
  | some (s, y) => if r = y then (s : F) else 0

/-- **the doubled JW ladder operator is (twice) the Fock-space ladder operator**, every `n > p` -/
theorem Den_ladder (hζ : ζ ^ 8 = -1) (n p : ℕ) (hp : p < n) (dag : Bool) (r x : ℕ) (hr : r < 2 ^ n)
    (hx : x < 2 ^ n) :
    Den ζ ρ (jwLadder p dag) r x = 2 * actMat F (fockLadder p dag x) r := by
  have h4 := zeta4_sq hζ
  unfold Den jwLadder
  simp only [List.map_cons, List.map_nil, List.sum_cons, List.sum_nil, add_zero]
  rw [den_jwLabel n p hp .X rfl r x hr hx, den_jwLabel n p hp .Y rfl r x hr hx, bitAt_eq_testBit]
  unfold fockLadder actMat
  have hX : ∀ β, epsK ζ C05.P1.X.code β = 1 := fun β => by simp [epsK, C05.P1.code]
  have hY : ∀ β, epsK ζ C05.P1.Y.code β = if β = 0 then ζ ^ 4 else -ζ ^ 4 := fun β => by
    simp [epsK, C05.P1.code]
  rw [hX, hY]
  have e1 : toF ζ ⟨1, 0⟩ = 1 := by simp [toF]
  have e2 : toF ζ ⟨0, 1⟩ = ζ ^ 4 := by simp [toF]
  have e3 : toF ζ ⟨0, -1⟩ = -ζ ^ 4 := by simp [toF]
  by_cases hrx : r = x ^^^ 2 ^ p
  · rw [if_pos hrx, if_pos hrx]
    cases hb : x.testBit p <;> cases dag
    · -- bit clear, annihilation: 0
      simp only [Bool.false_eq_true, if_false, if_true, beq_self_eq_true, e1, e2, mul_zero]
      linear_combination (sgnF F (parBelow p x)) * h4
    · -- bit clear, creation
      simp only [Bool.false_eq_true, if_false, if_true, e1, e3, if_pos hrx, signOf_cast,
        show (false == true) = false from rfl]
      linear_combination (-(sgnF F (parBelow p x))) * h4
    · -- bit set, annihilation
      simp only [Bool.false_eq_true, if_false, if_true, e1, e2, if_pos hrx, signOf_cast,
        show (true == false) = false from rfl, one_ne_zero]
      linear_combination (-(sgnF F (parBelow p x))) * h4
    · -- bit set, creation: 0
      simp only [if_true, beq_self_eq_true, e1, e3, mul_zero, one_ne_zero, if_false]
      linear_combination (sgnF F (parBelow p x)) * h4
  · rw [if_neg hrx, if_neg hrx]
    cases hb : x.testBit p <;> cases dag <;> simp [hrx]

/-! ### §3  words -/

/-- all modes of the word are `< n` -/
def WordOn (n : ℕ) (w : List (ℕ × Bool)) : Prop := ∀ l ∈ w, l.1 < n

theorem opOn_word (n : ℕ) : ∀ (w : List (ℕ × Bool)), WordOn n w → OpOn n (jwWord w) := by
  intro w
  induction w with
  | nil =>
    intro _ e he
    simp only [jwWord, List.mem_singleton] at he
    subst he
    exact ⟨by decide, by simp [C05.bound]⟩
  | cons l w ih =>
    intro h
    exact opOn_mul (opOn_ladder n l.1 (h l (List.mem_cons_self ..)) l.2)
      (ih (fun x hx => h x (List.mem_cons_of_mem _ hx)))

theorem fockLadder_lt (n p : ℕ) (hp : p < n) (dag : Bool) (x : ℕ) (hx : x < 2 ^ n) (s : ℤ) (y : ℕ)
    (h : fockLadder p dag x = some (s, y)) : y < 2 ^ n := by
  unfold fockLadder at h
  split at h
  · cases h
  · simp only [Option.some.injEq, Prod.mk.injEq] at h
    rw [← h.2]
    exact flip_lt n x p hx hp

theorem fockWord_lt (n : ℕ) : ∀ (w : List (ℕ × Bool)), WordOn n w → ∀ x, x < 2 ^ n → ∀ s y,
    fockWord w x = some (s, y) → y < 2 ^ n := by
  intro w
  induction w with
  | nil =>
    intro _ x hx s y h
    simp only [fockWord, Option.some.injEq, Prod.mk.injEq] at h
    rw [← h.2]; exact hx
  | cons l w ih =>
    intro hw x hx s y h
    unfold fockWord at h
    cases h1 : fockWord w x with
    | none => rw [h1] at h; cases h
    | some sy =>
      obtain ⟨s1, y1⟩ := sy
      rw [h1] at h
      simp only [] at h
      have hy1 := ih (fun a ha => hw a (List.mem_cons_of_mem _ ha)) x hx s1 y1 h1
      cases h2 : fockLadder l.1 l.2 y1 with
      | none => rw [h2] at h; cases h
      | some tz =>
        obtain ⟨t, z⟩ := tz
        rw [h2] at h
        simp only [Option.some.injEq, Prod.mk.injEq] at h
        rw [← h.2]
        exact fockLadder_lt n l.1 (hw l (List.mem_cons_self ..)) l.2 y1 hy1 t z h2

/-- **words of JW ladder operators have the Fock-space matrix elements** (times `2^|w|`): the mapped operator
    between mapped basis states is the Fock matrix element, every `n`, every word -/
theorem Den_word (hζ : ζ ^ 8 = -1) (n : ℕ) : ∀ (w : List (ℕ × Bool)), WordOn n w →
    ∀ r, r < 2 ^ n → ∀ x, x < 2 ^ n →
      Den ζ ρ (jwWord w) r x = 2 ^ w.length * actMat F (fockWord w x) r := by
  intro w
  induction w with
  | nil =>
    intro _ r _ x _
    simp only [jwWord, Den, List.map_cons, List.map_nil, List.sum_cons, List.sum_nil, add_zero,
      toF_one, one_mul, den_nil, List.length_nil, pow_zero, fockWord, actMat, idMat]
    norm_num
  | cons l w ih =>
    intro hw r hr x hx
    have hw' : WordOn n w := fun a ha => hw a (List.mem_cons_of_mem _ ha)
    have hl := hw l (List.mem_cons_self ..)
    show Den ζ ρ (C05.mul (jwLadder l.1 l.2) (jwWord w)) r x = _
    rw [Den_mul hζ n _ _ (opOn_ladder n l.1 hl l.2) (opOn_word n w hw') r x hr hx]
    unfold mulB
    rw [List.map_congr_left (g := fun k => Den ζ ρ (jwLadder l.1 l.2) r k
        * (2 ^ w.length * actMat F (fockWord w x) k)) (fun k hk => by
      rw [ih hw' k (List.mem_range.mp hk) x hx])]
    have hcons : fockWord (l :: w) x = (match fockWord w x with
        | none => none
        | some (s, y) =>
          match fockLadder l.1 l.2 y with
          | none => none
          | some (t, z) => some (s * t, z)) := rfl
    rw [hcons]
    cases h1 : fockWord w x with
    | none =>
      simp only [actMat, mul_zero]
      exact sum_map_zero _ _ (fun _ _ => rfl)
    | some sy =>
      obtain ⟨s, y⟩ := sy
      have hy := fockWord_lt n w hw' x hx s y h1
      simp only [actMat]
      rw [List.map_congr_left (g := fun k => (Den ζ ρ (jwLadder l.1 l.2) r k * 2 ^ w.length)
          * (if k = y then (s : F) else 0)) (fun k _ => by ring),
        sum_ite_right (2 ^ n) y hy, Den_ladder hζ n l.1 hl l.2 r y hr hy]
      cases h2 : fockLadder l.1 l.2 y with
      | none => simp [actMat]
      | some tz =>
        obtain ⟨t, z⟩ := tz
        simp only [actMat, List.length_cons, pow_succ]
        by_cases e : r = z
        · rw [if_pos e, if_pos e]; push_cast; ring
        · rw [if_neg e, if_neg e]; ring

/-- the model operator of an integer combination of (doubled) words -/
def jwFOp (op : FOp) : C05.Op :=
  op.foldr (fun t acc => C05.add acc (C05.smul t.1 (jwWord t.2))) []

theorem opOn_fop (n : ℕ) : ∀ (op : FOp), (∀ t ∈ op, WordOn n t.2) → OpOn n (jwFOp op) := by
  intro op
  induction op with
  | nil => intro _; exact opOn_nil n
  | cons t op ih =>
    intro h
    exact opOn_add (ih (fun a ha => h a (List.mem_cons_of_mem _ ha)))
      (opOn_smul (opOn_word n t.2 (h t (List.mem_cons_self ..))) t.1)

/-- **linear extension**: every finite combination of words -/
theorem Den_fop (hζ : ζ ^ 8 = -1) (n : ℕ) : ∀ (op : FOp), (∀ t ∈ op, WordOn n t.2) →
    ∀ r, r < 2 ^ n → ∀ x, x < 2 ^ n →
      Den ζ ρ (jwFOp op) r x
        = (op.map fun t => toF ζ t.1 * (2 ^ t.2.length * actMat F (fockWord t.2 x) r)).sum := by
  intro op
  induction op with
  | nil => intro _ r _ x _; simp [jwFOp, Den]
  | cons t op ih =>
    intro h r hr x hx
    have h' : ∀ a ∈ op, WordOn n a.2 := fun a ha => h a (List.mem_cons_of_mem _ ha)
    have ht := h t (List.mem_cons_self ..)
    show Den ζ ρ (C05.add (jwFOp op) (C05.smul t.1 (jwWord t.2))) r x = _
    rw [Den_add hζ n _ _ (opOn_fop n op h') (opOn_smul (opOn_word n t.2 ht) t.1) r x hr hx,
      Den_smul hζ n t.1 _ (opOn_word n t.2 ht) r x hr hx, Den_word hζ n t.2 ht r hr x hx,
      ih h' r hr x hx, List.map_cons, List.sum_cons]
    ring

/-! ### §4  products of two ladder operators, CAR -/

/-- two ladder operators in Fock space -/
def fock2 (p : ℕ) (d : Bool) (q : ℕ) (e : Bool) (x : ℕ) : Option (ℤ × ℕ) :=
  match fockLadder q e x with
  | none => none
  | some (s, y) =>
    match fockLadder p d y with
    | none => none
    | some (t, z) => some (s * t, z)

/-- the matrix product of two doubled ladder operators -/
theorem two_step (hζ : ζ ^ 8 = -1) (n p q : ℕ) (hp : p < n) (hq : q < n) (d e : Bool) (r x : ℕ)
    (hr : r < 2 ^ n) (hx : x < 2 ^ n) :
    mulB n (Den ζ ρ (jwLadder p d)) (Den ζ ρ (jwLadder q e)) r x = 4 * actMat F (fock2 p d q e x) r := by
  unfold mulB
  rw [List.map_congr_left (g := fun k => Den ζ ρ (jwLadder p d) r k
      * (2 * actMat F (fockLadder q e x) k)) (fun k hk => by
    rw [Den_ladder hζ n q hq e k x (List.mem_range.mp hk) hx])]
  unfold fock2
  cases h1 : fockLadder q e x with
  | none =>
    simp only [actMat, mul_zero]
    exact sum_map_zero _ _ (fun _ _ => rfl)
  | some sy =>
    obtain ⟨s, y⟩ := sy
    have hy := fockLadder_lt n q hq e x hx s y h1
    simp only [actMat]
    rw [List.map_congr_left (g := fun k => (Den ζ ρ (jwLadder p d) r k * 2)
        * (if k = y then (s : F) else 0)) (fun k _ => by ring),
      sum_ite_right (2 ^ n) y hy, Den_ladder hζ n p hp d r y hr hy]
    cases h2 : fockLadder p d y with
    | none => simp [actMat]
    | some tz =>
      obtain ⟨t, z⟩ := tz
      simp only [actMat]
      by_cases hrz : r = z
      · rw [if_pos hrz, if_pos hrz]; push_cast; ring
      · rw [if_neg hrz, if_neg hrz]; ring

theorem parBelow_flip (q x : ℕ) : ∀ p, parBelow p (x ^^^ 2 ^ q) = (parBelow p x != decide (q < p)) := by
  intro p
  induction p with
  | zero => simp [parBelow]
  | succ p ih =>
    rw [parBelow, parBelow, ih, Nat.testBit_xor, Nat.testBit_two_pow]
    by_cases h1 : q < p
    · have : ¬ q = p := by omega
      have h2 : q < p + 1 := by omega
      simp [h1, this, h2]
    · by_cases h2 : q = p
      · subst h2; simp
      · have h3 : ¬ q < p + 1 := by omega
        simp [h1, h2, h3]

theorem testBit_flip_ne (x p q : ℕ) (h : p ≠ q) : (x ^^^ 2 ^ q).testBit p = x.testBit p := by
  rw [Nat.testBit_xor, Nat.testBit_two_pow]
  have : ¬ q = p := fun e => h e.symm
  simp [this]

theorem testBit_flip_self (x p : ℕ) : (x ^^^ 2 ^ p).testBit p = !x.testBit p := by
  rw [Nat.testBit_xor, Nat.testBit_two_pow]; simp

/-- closed form of two ladder steps -/
theorem fock2_eq (p : ℕ) (d : Bool) (q : ℕ) (e : Bool) (x : ℕ) :
    fock2 p d q e x
      = if (x.testBit q == e) = true then none
        else if ((x ^^^ 2 ^ q).testBit p == d) = true then none
        else some (signOf (parBelow q x) * signOf (parBelow p (x ^^^ 2 ^ q)), (x ^^^ 2 ^ q) ^^^ 2 ^ p) := by
  unfold fock2 fockLadder
  by_cases h1 : (x.testBit q == e) = true
  · rw [if_pos h1, if_pos h1]
  · rw [if_neg h1, if_neg h1]
    by_cases h2 : ((x ^^^ 2 ^ q).testBit p == d) = true
    · simp only [h2, if_true]
    · simp only [h2]
      rfl

/-- different modes anticommute in Fock space, whatever the daggers -/
theorem fock2_anti (p q : ℕ) (hpq : p ≠ q) (d e : Bool) (x r : ℕ) :
    actMat F (fock2 p d q e x) r + actMat F (fock2 q e p d x) r = 0 := by
  rw [fock2_eq, fock2_eq, testBit_flip_ne x p q hpq, testBit_flip_ne x q p (fun h => hpq h.symm),
    parBelow_flip q x p, parBelow_flip p x q]
  have himg : (x ^^^ 2 ^ q) ^^^ 2 ^ p = (x ^^^ 2 ^ p) ^^^ 2 ^ q := by
    rw [Nat.xor_assoc, Nat.xor_comm (2 ^ q), ← Nat.xor_assoc]
  have hlt : decide (q < p) = !decide (p < q) := by
    by_cases h : q < p
    · have : ¬ p < q := by omega
      simp [h, this]
    · have : p < q := by omega
      simp [h, this]
  rw [himg, hlt]
  cases x.testBit p <;> cases x.testBit q <;> cases d <;> cases e <;> simp [actMat] <;>
    (cases parBelow p x <;> cases parBelow q x <;> cases decide (p < q) <;>
      simp [signOf] <;> (split <;> simp))

/-- the same mode, same dagger: `a_p a_p = 0`, `a†_p a†_p = 0` -/
theorem fock2_sq (p : ℕ) (d : Bool) (x r : ℕ) : actMat F (fock2 p d p d x) r = 0 := by
  rw [fock2_eq, testBit_flip_self]
  cases x.testBit p <;> cases d <;> simp [actMat]

/-- the same mode, opposite daggers: `a_p a†_p` projects on "empty", `a†_p a_p` on "occupied" -/
theorem fock2_proj (p : ℕ) (d : Bool) (x r : ℕ) :
    actMat F (fock2 p d p (!d) x) r = if x.testBit p = d ∧ r = x then 1 else 0 := by
  rw [fock2_eq, testBit_flip_self, parBelow_flip p x p]
  have hxx : (x ^^^ 2 ^ p) ^^^ 2 ^ p = x := by rw [Nat.xor_assoc, Nat.xor_self, Nat.xor_zero]
  rw [hxx]
  cases x.testBit p <;> cases d <;> simp [actMat] <;>
    (cases parBelow p x <;> simp [signOf])

/-- **CAR, mixed**: `A_p·A_q† + A_q†·A_p = 4·δ_pq·1` for the doubled operators -/
theorem car_mixed (hζ : ζ ^ 8 = -1) (n p q : ℕ) (hp : p < n) (hq : q < n) (r x : ℕ) (hr : r < 2 ^ n)
    (hx : x < 2 ^ n) :
    mulB n (Den ζ ρ (jwLadder p false)) (Den ζ ρ (jwLadder q true)) r x
      + mulB n (Den ζ ρ (jwLadder q true)) (Den ζ ρ (jwLadder p false)) r x
      = if p = q ∧ r = x then 4 else 0 := by
  rw [two_step hζ n p q hp hq false true r x hr hx, two_step hζ n q p hq hp true false r x hr hx,
    ← mul_add]
  by_cases hpq : p = q
  · subst hpq
    have h1 := fock2_proj (F := F) p false x r
    have h2 := fock2_proj (F := F) p true x r
    simp only [Bool.not_false, Bool.not_true] at h1 h2
    rw [h1, h2]
    cases x.testBit p <;> by_cases hrx : r = x <;> simp [hrx]
  · rw [fock2_anti p q hpq false true x r, mul_zero, if_neg (fun h => hpq h.1)]

/-- **CAR, same type**: `A_p·A_q + A_q·A_p = 0` and the daggered version -/
theorem car_same (hζ : ζ ^ 8 = -1) (n p q : ℕ) (hp : p < n) (hq : q < n) (d : Bool) (r x : ℕ)
    (hr : r < 2 ^ n) (hx : x < 2 ^ n) :
    mulB n (Den ζ ρ (jwLadder p d)) (Den ζ ρ (jwLadder q d)) r x
      + mulB n (Den ζ ρ (jwLadder q d)) (Den ζ ρ (jwLadder p d)) r x = 0 := by
  rw [two_step hζ n p q hp hq d d r x hr hx, two_step hζ n q p hq hp d d r x hr hx, ← mul_add]
  by_cases hpq : p = q
  · subst hpq
    rw [fock2_sq, add_zero, mul_zero]
  · rw [fock2_anti p q hpq d d x r, mul_zero]

/-- **number operator**: `A_p†·A_p` is diagonal with entry `4·bit_p(x)` -/
theorem number_diag (hζ : ζ ^ 8 = -1) (n p : ℕ) (hp : p < n) (r x : ℕ) (hr : r < 2 ^ n)
    (hx : x < 2 ^ n) :
    mulB n (Den ζ ρ (jwLadder p true)) (Den ζ ρ (jwLadder p false)) r x
      = if x.testBit p = true ∧ r = x then 4 else 0 := by
  rw [two_step hζ n p p hp hp true false r x hr hx]
  have := fock2_proj (F := F) p true x r
  simp only [Bool.not_true] at this
  rw [this]
  split <;> simp

/-! ### §5  the checker for translated rows -/

theorem perm_sum_eq {l1 l2 : List F} (h : l1.Perm l2) : l1.sum = l2.sum := by
  induction h with
  | nil => rfl
  | cons x _ ih => simp only [List.sum_cons, ih]
  | swap x y l => simp only [List.sum_cons]; ring
  | trans _ _ ih1 ih2 => exact ih1.trans ih2

theorem Den_perm {a b : C05.Op} (h : a.Perm b) (r j : ℕ) : Den ζ ρ a r j = Den ζ ρ b r j := by
  unfold Den
  exact perm_sum_eq (h.map _)

theorem jwLabel_ne (p : ℕ) : jwLabel p .X ≠ jwLabel p .Y := by
  intro h
  unfold jwLabel at h
  have := List.append_cancel_left h
  simp at this

/-- **a row accepted by `jwRowOk` is the ladder operator up to the order of its terms** -/
theorem jwRowOk_perm (p : ℕ) (dag : Bool) (terms : C05.Op) (h : jwRowOk p dag terms = true) :
    terms.Perm (jwLadder p dag) := by
  unfold jwRowOk at h
  simp only [Bool.and_eq_true, beq_iff_eq, List.all_eq_true, List.contains_iff_mem] at h
  obtain ⟨hlen, hall⟩ := h
  have h1 := hall _ (List.mem_cons_self ..)
  have h2 := hall _ (List.mem_cons_of_mem _ (List.mem_cons_self ..))
  have hne : ((jwLabel p .X, (⟨1, 0⟩ : C05.K)))
      ≠ (jwLabel p .Y, if dag then (⟨0, -1⟩ : C05.K) else ⟨0, 1⟩) := by
    intro e
    exact jwLabel_ne p (congrArg Prod.fst e)
  match terms, hlen with
  | [a, b], _ =>
    simp only [List.mem_cons, List.mem_nil_iff, or_false] at h1 h2
    unfold jwLadder
    rcases h1 with h1 | h1 <;> rcases h2 with h2 | h2
    · exact absurd (h1.trans h2.symm) hne
    · rw [← h1, ← h2]
    · rw [← h1, ← h2]; exact List.Perm.swap _ _ _
    · exact absurd (h1.trans h2.symm) hne

theorem jwRowOk_sound (p : ℕ) (dag : Bool) (terms : C05.Op) (h : jwRowOk p dag terms = true) (r j : ℕ) :
    Den ζ ρ terms r j = Den ζ ρ (jwLadder p dag) r j :=
  Den_perm (jwRowOk_perm p dag terms h) r j

end QV.MatSound
