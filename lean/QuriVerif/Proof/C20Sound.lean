import QuriVerif.Proof.C20Run
/-
  C20 — alias-free configurations: when no Rust function hands out an alias of a mutable object
  (`Cfg.sound`), every step of every history is alias-free.  Second invariant: the `is_immutable`
  flag is never set on an object of a mutable class, states hold immutable objects.
-/
set_option linter.unusedSimpArgs false
namespace QV.C20

structure FInv (s : St) : Prop where
  f1 : ∀ a, a < s.nR → s.rMut a = true → (s.rs a).imm = false
  f2 : ∀ i r, i < s.nH → s.hs i = .s r → s.refMut r = false

theorem FInv.init : FInv St.init := ⟨fun a ha => by simp [St.init] at ha, fun i r hi => by simp [St.init] at hi⟩

structure SoundFam (f : Fam) : Prop where
  fz : f.freeze ≠ .alwaysSame
  cp : f.copy = .cloneResetFlag
  ct : f.ctor ≠ .aliasSetFlag
  nf : f.newFlag = false

theorem sound_fam {cfg : Cfg} (h : cfg.sound = true) (c : Cls) : SoundFam (cfg.fam c) := by
  simp only [Cfg.sound, Fam.aliasFree, Bool.and_eq_true, bne_iff_ne, ne_eq, beq_iff_eq, Bool.not_eq_true'] at h
  unfold Cfg.fam
  split
  · exact ⟨h.2.1.1.1, h.2.1.1.2, h.2.1.2, h.2.2⟩
  · exact ⟨h.1.2.1.1.1, h.1.2.1.1.2, h.1.2.1.2, h.1.2.2⟩

theorem sound_base {cfg : Cfg} (h : cfg.sound = true) : cfg.baseOk = true := by
  simp only [Cfg.sound, Bool.and_eq_true] at h
  exact h.1.1

theorem allocR_f {s : St} (c : RCell) (hI : Inv s) (hF : FInv s) (hc : c.v.cls.mu = true → c.imm = false) :
    FInv (s.allocR c).1 := by
  constructor
  · intro a ha hm
    simp only [St.allocR, St.rMut] at ha hm ⊢
    by_cases e : a = s.nR
    · subst e; simp only [upd_same] at hm ⊢; exact hc hm
    · rw [upd_ne _ _ e] at hm ⊢
      exact hF.f1 a (by omega) hm
  · intro i r hi e
    have hb := hI.b1 i hi
    have := hF.f2 i r hi e
    cases r with
    | r a =>
      simp only [St.allocR] at e
      have ha : a < s.nR := by simpa [e, Hd.ref, RefOK] using hb
      simpa [St.refMut, St.rMut, St.allocR, upd, Nat.ne_of_lt ha] using this
    | l l => simpa [St.refMut, St.allocR] using this

theorem allocL_f {s : St} (c : LCell) (hI : Inv s) (hF : FInv s) : FInv (s.allocL c).1 := by
  constructor
  · intro a ha hm; exact hF.f1 a ha hm
  · intro i r hi e
    have hb := hI.b1 i hi
    have := hF.f2 i r hi e
    cases r with
    | r a => simpa [St.refMut, St.rMut, St.allocL] using this
    | l l =>
      simp only [St.allocL] at e
      have hl : l < s.nL := by simpa [e, Hd.ref, RefOK] using hb
      simpa [St.refMut, St.allocL, upd, Nat.ne_of_lt hl] using this

theorem push_c_f {s : St} (r : Ref) (hF : FInv s) : FInv (s.push (.c r)) := by
  constructor
  · exact hF.f1
  · intro i r' hi e
    simp only [St.push] at e hi
    by_cases h : i = s.nH
    · subst h; simp at e
    · rw [upd_ne _ _ h] at e
      exact hF.f2 i r' (by omega) e

theorem push_s_f {s : St} (r : Ref) (hF : FInv s) (hr : s.refMut r = false) : FInv (s.push (.s r)) := by
  constructor
  · exact hF.f1
  · intro i r' hi e
    simp only [St.push] at e hi
    by_cases h : i = s.nH
    · subst h
      simp only [upd_same, Hd.s.injEq] at e
      subst e; exact hr
    · rw [upd_ne _ _ h] at e
      exact hF.f2 i r' (by omega) e

/-- result of a helper under a sound configuration -/
structure SStep (s s' : St) : Prop where
  finv : FInv s'
  inv : Inv s'

theorem freezeR_f {cfg : Cfg} (hs : cfg.sound = true) {s : St} (hI : Inv s) (hF : FInv s) {a : Nat} (ha : a < s.nR) :
    FInv (freezeR cfg s a).1 ∧ ((freezeR cfg s a).2 != a || !s.rMut a) = true := by
  have hsf := sound_fam hs (s.rs a).v.cls
  have alias : s.rMut a = false → FInv s ∧ ((a != a || !s.rMut a) = true) := by
    intro h; exact ⟨hF, by simp [h]⟩
  have clone : ∀ c : RCell, c.v = (s.rs a).v.frozen → c.imm = true →
      FInv (s.allocR c).1 ∧ (((s.allocR c).2 != a || !s.rMut a) = true) := by
    intro c hv _
    refine ⟨allocR_f c hI hF (by rw [hv]; simp [RVal.frozen]), ?_⟩
    have : s.nR ≠ a := Nat.ne_of_gt ha
    simp [St.allocR, this]
  unfold freezeR
  simp only
  split
  · rename_i hb
    exact alias (by simp [St.rMut, hb, Cls.mu])
  · split
    · rename_i hz; exact absurd hz hsf.fz
    · split
      · rename_i him
        apply alias
        cases hm : s.rMut a with
        | false => rfl
        | true => have := hF.f1 a ha hm; rw [him] at this; cases this
      · exact clone _ rfl rfl
    · exact clone _ rfl rfl

theorem copyR_f {cfg : Cfg} (hs : cfg.sound = true) {s : St} (hI : Inv s) (hF : FInv s) (a : Nat) :
    FInv (copyR cfg s a).1 := by
  have hsf := sound_fam hs (s.rs a).v.cls
  unfold copyR
  simp only
  exact allocR_f _ hI hF (by intro _; simp [hsf.cp])

theorem ctorR_f {cfg : Cfg} (hs : cfg.sound = true) {s : St} (hI : Inv s) (hF : FInv s) {a : Nat} (ha : a < s.nR) :
    FInv (ctorR cfg s a).1 ∧ ((ctorR cfg s a).2 != a || !s.rMut a) = true := by
  have hsf := sound_fam hs (s.rs a).v.cls
  have clone : ∀ c : RCell, c.v = (s.rs a).v.frozen →
      FInv (s.allocR c).1 ∧ (((s.allocR c).2 != a || !s.rMut a) = true) := by
    intro c hv
    refine ⟨allocR_f c hI hF (by rw [hv]; simp [RVal.frozen]), ?_⟩
    have : s.nR ≠ a := Nat.ne_of_gt ha
    simp [St.allocR, this]
  unfold ctorR
  simp only
  split
  · rename_i hz; exact absurd hz hsf.ct
  · exact clone _ rfl
  · exact clone _ rfl

theorem ctorL_f {cfg : Cfg} (hs : cfg.sound = true) {s : St} (hI : Inv s) (hF : FInv s) {l : Nat} (hl : l < s.nL) :
    FInv (ctorL cfg s l).1 ∧ (ctorL cfg s l).2.2 = true ∧ ((ctorL cfg s l).1.ls (ctorL cfg s l).2.1).mu = false := by
  have hc := hI.b2 l hl
  obtain ⟨f1, f2⟩ := freezeR_f hs hI hF hc
  obtain ⟨h1, _, _⟩ := freezeR_spec cfg hI hc
  unfold ctorL
  simp only
  exact ⟨allocL_f _ h1.inv f1, f2, by simp [St.allocL]⟩

theorem freezeL_f {cfg : Cfg} (hs : cfg.sound = true) {s : St} (hI : Inv s) (hF : FInv s) {l : Nat} (hl : l < s.nL) :
    FInv (freezeL cfg s l).1 ∧ (freezeL cfg s l).2.2 = true ∧ ((freezeL cfg s l).1.ls (freezeL cfg s l).2.1).mu = false := by
  unfold freezeL
  by_cases hm : (s.ls l).mu = true
  · simp only [hm, if_true]; exact ctorL_f hs hI hF hl
  · simp only [hm]
    exact ⟨hF, rfl, by simpa using hm⟩

theorem copyL_f {cfg : Cfg} (hs : cfg.sound = true) {s : St} (hI : Inv s) (hF : FInv s) {l : Nat} (hl : l < s.nL) :
    FInv (copyL cfg s l).1 := by
  have hc := hI.b2 l hl
  obtain ⟨h1, _⟩ := copyR_spec cfg hI hc
  unfold copyL
  simp only
  exact allocL_f _ h1.inv (copyR_f hs hI hF _)

theorem freezeRef_f {cfg : Cfg} (hs : cfg.sound = true) {s : St} (hI : Inv s) (hF : FInv s) {r : Ref} (hr : RefOK s r) :
    FInv (freezeRef cfg s r).1 ∧ (freezeRef cfg s r).2.2 = true ∧
    (freezeRef cfg s r).1.refMut (freezeRef cfg s r).2.1 = false := by
  cases r with
  | r a =>
    obtain ⟨f1, f2⟩ := freezeR_f hs hI hF hr
    obtain ⟨_, _, h3⟩ := freezeR_spec cfg hI hr
    simp only [freezeRef]
    exact ⟨f1, f2, by simpa [St.refMut] using (h3 f2).1⟩
  | l l =>
    simp only [freezeRef]
    obtain ⟨f1, f2, f3⟩ := freezeL_f hs hI hF hr
    exact ⟨f1, f2, by simpa [St.refMut] using f3⟩


theorem writeRef_f (cfg : Cfg) {s : St} (hF : FInv s) (r : Ref) (c : Core) : FInv (writeRef cfg s r c) := by
  have key : (∀ a, (writeRef cfg s r c).rMut a = s.rMut a) ∧ (∀ a, ((writeRef cfg s r c).rs a).imm = (s.rs a).imm) ∧
      (∀ l, ((writeRef cfg s r c).ls l).mu = (s.ls l).mu) ∧ (writeRef cfg s r c).hs = s.hs ∧
      (writeRef cfg s r c).nR = s.nR ∧ (writeRef cfg s r c).nH = s.nH := by
    cases r with
    | r a =>
      simp only [writeRef]
      refine ⟨?_, ?_, by intros; trivial, by trivial, by trivial, by trivial⟩
      · intro a'; by_cases h : a' = a <;> simp [St.rMut, upd, h]
      · intro a'; by_cases h : a' = a <;> simp [upd, h]
    | l l =>
      simp only [writeRef]
      refine ⟨?_, ?_, ?_, by trivial, by trivial, by trivial⟩
      · intro a'; by_cases h : a' = (s.ls l).circ <;> simp [St.rMut, upd, h]
      · intro a'; by_cases h : a' = (s.ls l).circ <;> simp [upd, h]
      · intro l'; by_cases h : l' = l <;> simp [upd, h]
  obtain ⟨k1, k2, k3, k4, k5, k6⟩ := key
  constructor
  · intro a ha hm
    rw [k2]; rw [k1] at hm; rw [k5] at ha
    exact hF.f1 a ha hm
  · intro i r' hi e
    rw [k4] at e; rw [k6] at hi
    have := hF.f2 i r' hi e
    cases r' with
    | r a => simpa [St.refMut, k1] using this
    | l l => simpa [St.refMut, k3] using this

theorem FInv.set_np {s : St} (hF : FInv s) (k : Nat) : FInv { s with np := k } := ⟨hF.f1, hF.f2⟩

theorem combineMeta_imm {cfg : Cfg} (hs : cfg.sound = true) (s : St) (r : Ref) (self res : CV) :
    (combineMeta cfg s r self res).1 = false := by
  unfold combineMeta
  simp only
  split
  · have := (sound_fam hs (refCell s r).v.cls).cp
    simp [this]
  · have := (sound_fam hs .pqc).nf
    simpa [Cfg.fam, Cls.par] using this

theorem allocCV_f {s : St} (hI : Inv s) (hF : FInv s) (cv : CV) (dc : Option Nat)
    (hd : ∀ n, dc = some n → n = depth cv.gs) : FInv (allocCV s cv false dc).1 := by
  cases cv with
  | r v => exact allocR_f _ hI hF (fun _ => rfl)
  | l v =>
    simp only [allocCV]
    exact allocL_f _ (allocR_inv _ hI (by simpa [CV.gs] using hd)) (allocR_f _ hI hF (fun _ => rfl))

theorem bindV_cls {w v : RVal} {vals : List Int} (h : bindV w vals = .ok v) : v.cls = .bqc := by
  unfold bindV at h
  split at h
  · cases h; rfl
  · cases h

theorem bindCV_cls {cv : CV} {vals : List Int} {v : RVal} (h : bindCV cv vals = some (.ok v)) : v.cls = .bqc := by
  cases cv with
  | r w =>
    simp only [bindCV] at h
    split at h
    · simp only [Option.some.injEq] at h; exact bindV_cls h
    · cases h
  | l w =>
    simp only [bindCV, Option.some.injEq, bindL] at h
    split at h
    · cases h
    · split at h
      · cases h
      · exact bindV_cls h

theorem bindR_f {cfg : Cfg} (hs : cfg.sound = true) {s : St} (hI : Inv s) (hF : FInv s) {src : Nat} (hsrc : src < s.nR)
    (v : RVal) (hv : v.cls = .bqc) :
    FInv (bindR cfg s src v).1 ∧ (bindR cfg s src v).1.rMut (bindR cfg s src v).2 = false := by
  unfold bindR
  split
  · exact ⟨allocR_f _ hI hF (by simp [bindCell, hv, Cls.mu]), by simp [St.allocR, St.rMut, bindCell, hv, Cls.mu]⟩
  · obtain ⟨f1, _⟩ := freezeR_f hs hI hF hsrc
    obtain ⟨h1, _, _⟩ := freezeR_spec cfg hI hsrc
    simp only
    exact ⟨allocR_f _ h1.inv f1 (by simp [bindCell, hv, Cls.mu]), by simp [St.allocR, St.rMut, bindCell, hv, Cls.mu]⟩

theorem freezeR_addr (cfg : Cfg) (s : St) (a : Nat) : (freezeR cfg s a).2 = a ∨ (freezeR cfg s a).2 = s.nR := by
  unfold freezeR
  simp only
  split
  · exact .inl rfl
  · split
    · exact .inl rfl
    · split
      · exact .inl rfl
      · exact .inr rfl
    · exact .inr rfl

theorem setDC_f {s : St} (hF : FInv s) (a d : Nat) :
    FInv { s with rs := upd s.rs a { s.rs a with dc := some d } } := by
  constructor
  · intro a' ha hm
    by_cases h : a' = a
    · subst h
      simp only [St.rMut, upd_same] at hm ⊢
      exact hF.f1 a' ha hm
    · simp only [St.rMut, upd_ne _ _ h] at hm ⊢
      exact hF.f1 a' ha hm
  · intro i r hi e
    have := hF.f2 i r hi e
    cases r with
    | r a' => by_cases h : a' = a <;> simp_all [St.refMut, St.rMut, upd]
    | l l => simpa [St.refMut] using this

end QV.C20
