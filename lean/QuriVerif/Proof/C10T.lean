import QuriVerif.Proof.C10
import QuriVerif.Found.Proj
/-
  C10 — parametric transpilers: what the rebuilt circuit binds to (exact characterisation),
  and the lifting of per-gate / per-segment soundness to whole circuits.
-/
set_option linter.unusedSectionVars false
set_option linter.unusedSimpArgs false
set_option linter.unusedVariables false

namespace QV.C10
open QV

/-! ### `Except`-valued list algebra -/
section appE
variable {α : Type}

def appE (x y : Except Err (List α)) : Except Err (List α) :=
  match x with
  | .error e => .error e
  | .ok a =>
    match y with
    | .error e => .error e
    | .ok b => .ok (a ++ b)

def oneE (x : Except Err α) : Except Err (List α) :=
  match x with
  | .error e => .error e
  | .ok a => .ok [a]

@[simp] theorem appE_nil_left (y : Except Err (List α)) : appE (.ok []) y = y := by
  cases y <;> simp [appE]
@[simp] theorem appE_nil_right (x : Except Err (List α)) : appE x (.ok []) = x := by
  cases x <;> simp [appE]
theorem appE_assoc (x y z : Except Err (List α)) : appE (appE x y) z = appE x (appE y z) := by
  cases x <;> cases y <;> cases z <;> simp [appE]
@[simp] theorem appE_ok_ok (a b : List α) : appE (.ok a) (.ok b) = .ok (a ++ b) := rfl
@[simp] theorem appE_error (e : Err) (y : Except Err (List α)) : appE (.error e) y = .error e := rfl

theorem appE_eq_ok {x y : Except Err (List α)} {l : List α} (h : appE x y = .ok l) :
    ∃ a b, x = .ok a ∧ y = .ok b ∧ l = a ++ b := by
  cases x with
  | error e => cases h
  | ok a =>
    cases y with
    | error e => cases h
    | ok b => simp [appE] at h; exact ⟨a, b, rfl, rfl, h.symm⟩
end appE

section spec
variable {K : Type} [Num K]

theorem specBindGs_cons (d : Dict (Ang K)) (env : Dict K) (g : PG K) (r : List (PG K)) :
    specBindGs d env (g :: r) = appE (oneE (specGate d env g)) (specBindGs d env r) := by
  simp only [specBindGs]
  cases specGate d env g <;> cases specBindGs d env r <;> simp [appE, oneE]

theorem specBindGs_append (d : Dict (Ang K)) (env : Dict K) (a b : List (PG K)) :
    specBindGs d env (a ++ b) = appE (specBindGs d env a) (specBindGs d env b) := by
  induction a with
  | nil => simp [specBindGs]
  | cons g r ih => rw [List.cons_append, specBindGs_cons, specBindGs_cons, ih, appE_assoc]

theorem specBindGs_fixed (d : Dict (Ang K)) (env : Dict K) (fs : List (FG K)) :
    specBindGs d env (fs.map .fixed) = .ok fs := by
  induction fs with
  | nil => rfl
  | cons f r ih => simp [specBindGs, specGate, ih]

theorem defs_isSome_of_wf {al : Alloc K} {c : LC K} (hw : LinWF al c) {r : PId} (hr : r ∈ raws c.gs) :
    ∃ a, c.m.map.get? r = some a ∧ al.defs.get? r = some a := by
  have h1 := hw.dom r (by rw [hw.out]; exact hr)
  cases hg : c.m.map.get? r with
  | none => simp [hg] at h1
  | some a => exact ⟨a, rfl, hw.agree _ (Dict.mem_of_get? hg)⟩

theorem specBindGs_ext {al al' : Alloc K} {c : LC K} (hw : LinWF al c) (e : Ext al al') (env : Dict K) :
    specBindGs al'.defs env c.gs = specBindGs al.defs env c.gs := by
  apply specBindGs_congr
  intro r hr
  obtain ⟨a, _, h2⟩ := defs_isSome_of_wf hw hr
  simp [outVal, lookupAng, h2, e.2 _ _ h2]

/-- what one replayed instruction binds to -/
def instrBind (env : Dict K) : Instr K → Except Err (FG K)
  | .g g => .ok g
  | .p k ts ids a =>
    match evalAng env a with
    | .error e => .error e
    | .ok v => .ok (rot k ts ids v)

def bindInstrs (env : Dict K) : List (Instr K) → Except Err (List (FG K))
  | [] => .ok []
  | i :: r => appE (oneE (instrBind env i)) (bindInstrs env r)

theorem bindInstrs_append (env : Dict K) (a b : List (Instr K)) :
    bindInstrs env (a ++ b) = appE (bindInstrs env a) (bindInstrs env b) := by
  induction a with
  | nil => simp [bindInstrs]
  | cons i r ih => simp [bindInstrs, ih, appE_assoc]

theorem bindInstrs_map_g (env : Dict K) (fs : List (FG K)) : bindInstrs env (fs.map .g) = .ok fs := by
  induction fs with
  | nil => rfl
  | cons f r ih => simp [bindInstrs, instrBind, oneE, ih]

/-- structural facts every rebuilding step preserves -/
structure Keeps (al al' : Alloc K) (c c' : LC K) : Prop where
  wf : LinWF al' c'
  awf : AllocWF al'
  ext : Ext al al'
  inP : c'.m.inP = c.m.inP
  n : c'.n = c.n

theorem Keeps.trans {a b d : Alloc K} {x y z : LC K} (h1 : Keeps a b x y) (h2 : Keeps b d y z) :
    Keeps a d x z :=
  ⟨h2.wf, h2.awf, h1.ext.trans h2.ext, by rw [h2.inP, h1.inP], by rw [h2.n, h1.n]⟩

theorem addGate_keeps {al : Alloc K} {c c' : LC K} {g : FG K} (ha : AllocWF al) (hw : LinWF al c)
    (h : c.addGate g = .ok c') : Keeps al al c c' :=
  ⟨addGate_wf hw h, ha, Ext.refl _, by rw [addGate_ok h], by rw [addGate_ok h]⟩

theorem addParA_keeps {al al' : Alloc K} {c c' : LC K} {k : PK} {ts ids : List Nat} {a : Ang K}
    (ha : AllocWF al) (hw : LinWF al c) (h : c.addParA al k ts ids a = .ok (c', al')) :
    Keeps al al' c c' := by
  obtain ⟨w, aw, e⟩ := addParA_wf ha hw h
  obtain ⟨e1, _⟩ := addParA_ok h
  exact ⟨w, aw, e, by rw [e1], by rw [e1]⟩

theorem addParA_spec {al al' : Alloc K} {c c' : LC K} {k : PK} {ts ids : List Nat} {a : Ang K}
    (ha : AllocWF al) (hw : LinWF al c) (h : c.addParA al k ts ids a = .ok (c', al')) (env : Dict K) :
    specBindGs al'.defs env c'.gs =
      appE (specBindGs al.defs env c.gs) (oneE (instrBind env (.p k ts ids a))) := by
  have hk := addParA_keeps ha hw h
  obtain ⟨e1, e2⟩ := addParA_ok h
  have h1 := specBindGs_ext hw hk.ext env
  rw [e1]
  simp only
  rw [specBindGs_append, h1]
  congr 1
  rw [e2]
  simp [specBindGs, specGate, outVal, lookupAng, Dict.get?_set_self, instrBind, oneE]
  cases evalAng env a <;> rfl

theorem replay_spec {al al' : Alloc K} {c c' : LC K} {is : List (Instr K)}
    (ha : AllocWF al) (hw : LinWF al c) (h : replay c al is = .ok (c', al')) :
    Keeps al al' c c' ∧ ∀ env, specBindGs al'.defs env c'.gs =
      appE (specBindGs al.defs env c.gs) (bindInstrs env is) := by
  induction is generalizing c al with
  | nil =>
    simp only [replay] at h
    injection h with h; injection h with h1 h2; subst h1; subst h2
    exact ⟨⟨hw, ha, Ext.refl _, rfl, rfl⟩, fun env => by simp [bindInstrs]⟩
  | cons i r ih =>
    cases i with
    | g g =>
      simp only [replay] at h
      split at h
      · rename_i c1 h1
        have k1 := addGate_keeps ha hw h1
        obtain ⟨k2, s2⟩ := ih k1.awf k1.wf h
        refine ⟨k1.trans k2, fun env => ?_⟩
        rw [s2 env, addGate_ok h1]
        simp only
        rw [specBindGs_append]
        simp [specBindGs, specGate, bindInstrs, instrBind, oneE, appE_assoc]
      · cases h
    | p k ts ids a =>
      simp only [replay] at h
      split at h
      · rename_i c1 al1 h1
        have k1 := addParA_keeps ha hw h1
        obtain ⟨k2, s2⟩ := ih k1.awf k1.wf h
        refine ⟨k1.trans k2, fun env => ?_⟩
        rw [s2 env, addParA_spec ha hw h1 env]
        simp [bindInstrs, appE_assoc]
      · cases h

/-! ### rewriting transpilers -/

/-- what the rewritten circuit binds to, gate by gate of the *source* circuit -/
def expandSpec (w : Rewriter) (pmap : Dict (Ang K)) (env : Dict K) : List (PG K) → Except Err (List (FG K))
  | [] => .ok []
  | .fixed g :: r => appE (.ok [g]) (expandSpec w pmap env r)
  | .par k ts ids raw :: r =>
    match lookupAng pmap raw with
    | .error e => .error e
    | .ok a =>
      match ruleInstrs (w.rule k) k ts ids a with
      | .error e => .error e
      | .ok is => appE (bindInstrs env is) (expandSpec w pmap env r)

theorem rewriteLoop_spec {w : Rewriter} {pmap : Dict (Ang K)} {al al' : Alloc K} {acc acc' : LC K}
    {gs : List (PG K)} (ha : AllocWF al) (hw : LinWF al acc)
    (h : rewriteLoop w pmap acc al gs = .ok (acc', al')) :
    Keeps al al' acc acc' ∧ ∀ env, specBindGs al'.defs env acc'.gs =
      appE (specBindGs al.defs env acc.gs) (expandSpec w pmap env gs) := by
  induction gs generalizing acc al with
  | nil =>
    simp only [rewriteLoop] at h
    injection h with h; injection h with h1 h2; subst h1; subst h2
    exact ⟨⟨hw, ha, Ext.refl _, rfl, rfl⟩, fun env => by simp [expandSpec]⟩
  | cons g r ih =>
    cases g with
    | fixed g =>
      simp only [rewriteLoop] at h
      split at h
      · rename_i c1 h1
        have k1 := addGate_keeps ha hw h1
        obtain ⟨k2, s2⟩ := ih k1.awf k1.wf h
        refine ⟨k1.trans k2, fun env => ?_⟩
        rw [s2 env, addGate_ok h1]
        simp only
        rw [specBindGs_append]
        simp [specBindGs, specGate, expandSpec, appE_assoc]
      · cases h
    | par k ts ids raw =>
      simp only [rewriteLoop] at h
      split at h
      · cases h
      · rename_i a ha1
        split at h
        · cases h
        · rename_i is his
          split at h
          · cases h
          · rename_i c1 al1 h1
            obtain ⟨k1, s1⟩ := replay_spec ha hw h1
            obtain ⟨k2, s2⟩ := ih k1.awf k1.wf h
            refine ⟨k1.trans k2, fun env => ?_⟩
            rw [s2 env, s1 env]
            simp [expandSpec, ha1, his, appE_assoc]

theorem rewriteT_spec {w : Rewriter} {al al' : Alloc K} {c c' : LC K} (ha : AllocWF al)
    (h : rewriteT w c al = .ok (c', al')) :
    Keeps al al' c c' ∧ ∀ env, specBindGs al'.defs env c'.gs = expandSpec w c.m.map env c.gs := by
  obtain ⟨k, s⟩ := rewriteLoop_spec ha (startLC_wf al c) h
  exact ⟨⟨k.wf, k.awf, k.ext, by rw [k.inP]; rfl, by rw [k.n]; rfl⟩,
    fun env => by rw [s env]; simp [startLC, specBindGs]⟩

/-- the bound source gate list, expanded position by position with the non-parametric rule -/
def zipExpand (w : Rewriter) : List (PG K) → List (FG K) → Except Err (List (FG K))
  | [], [] => .ok []
  | .fixed _ :: r, g :: o => appE (.ok [g]) (zipExpand w r o)
  | .par k _ _ _ :: r, g :: o => appE (decBound (w.rule k) g) (zipExpand w r o)
  | _, _ => .error .valueError

theorem bindInstrs_seq (env : Dict K) (q : Nat) (a : Ang K) (v : K) (h : evalAng env a = .ok v)
    (body : List TI) :
    bindInstrs env (body.map (tiInstr q a)) = .ok (body.map (tiBound q (.val v))) := by
  induction body with
  | nil => rfl
  | cons t r ih =>
    cases t with
    | fx kind ps => simp [bindInstrs, tiInstr, tiBound, instrBind, oneE, ih]
    | pr k => simp [bindInstrs, tiInstr, tiBound, instrBind, oneE, ih, h, rot]

theorem flatMap_instrFixed_map_g (fs : List (FG K)) : (fs.map Instr.g).flatMap instrFixed = fs := by
  induction fs with
  | nil => rfl
  | cons f r ih => simp [instrFixed, ih]

/-- binding the instructions of a rule = applying the non-parametric rule to the bound gate -/
theorem rule_bound (env : Dict K) (r : Rule) (k : PK) (ts ids : List Nat) (a : Ang K) (v : K)
    (h : evalAng env a = .ok v) :
    (match ruleInstrs r k ts ids a with
      | .error e => .error e
      | .ok is => bindInstrs env is) = decBound r (rot k ts ids v) := by
  cases r with
  | keep => simp [ruleInstrs, decBound, bindInstrs, instrBind, h, oneE]
  | seq body => simp [ruleInstrs, decBound, bindInstrs_seq env _ a v h, rot]
  | unsupported => simp [ruleInstrs, decBound]
  | pauliDecomp =>
    simp only [ruleInstrs, decBound, pauliRotDec, pauliRotInstrs, rot]
    cases h1 : rotGates (K := K) 1 ts ids with
    | none => simp
    | some pre =>
      cases h2 : rotGates (K := K) (-1) ts ids with
      | none => simp
      | some post =>
        cases ts with
        | nil => simp
        | cons t0 rest =>
          simp [bindInstrs_append, bindInstrs_map_g, bindInstrs, instrBind, h, oneE, rot,
            List.flatMap_append, flatMap_instrFixed_map_g, instrFixed, PK.bound]

theorem expandSpec_eq_zip {w : Rewriter} {pmap defs : Dict (Ang K)} {env : Dict K} {gs : List (PG K)}
    {out0 : List (FG K)}
    (hp : ∀ r ∈ raws gs, ∃ a, pmap.get? r = some a ∧ defs.get? r = some a)
    (h0 : specBindGs defs env gs = .ok out0) :
    expandSpec w pmap env gs = zipExpand w gs out0 := by
  induction gs generalizing out0 with
  | nil => simp [specBindGs] at h0; subst h0; rfl
  | cons g r ih =>
    rw [specBindGs_cons] at h0
    obtain ⟨x, o, hx, ho, e⟩ := appE_eq_ok h0
    subst e
    cases g with
    | fixed f =>
      simp [specGate, oneE] at hx
      subst hx
      have := ih (fun r' hr' => hp r' (by simpa [raws] using hr')) ho
      simp [expandSpec, zipExpand, this]
    | par k ts ids raw =>
      obtain ⟨a, hpa, hda⟩ := hp raw (by simp [raws])
      have := ih (fun r' hr' => hp r' (by simp [raws, hr'])) ho
      simp only [specGate, outVal, lookupAng, hda] at hx
      cases hv : evalAng env a with
      | error e => simp [hv, oneE] at hx
      | ok v =>
        simp [hv, oneE] at hx
        subst hx
        have rb := rule_bound env (w.rule k) k ts ids a v hv
        simp only [expandSpec, lookupAng, hpa, List.singleton_append, zipExpand, this]
        rw [← rb]
        cases ruleInstrs (w.rule k) k ts ids a <;> simp

/-- EXACT: binding the rewritten circuit = the bound source gate list with the non-parametric
    rule applied at the positions of the parametric gates -/
theorem rewriteT_bind {w : Rewriter} {al al' : Alloc K} {c c' : LC K} (ha : AllocWF al) (hw : LinWF al c)
    (h : rewriteT w c al = .ok (c', al')) (vals : List K) (out0 : List (FG K))
    (h0 : c.bind vals = .ok out0) : c'.bind vals = zipExpand w c.gs out0 := by
  obtain ⟨k, s⟩ := rewriteT_spec ha h
  rw [bind_eq_spec_defs k.wf, k.inP, s]
  rw [bind_eq_spec_defs hw] at h0
  exact expandSpec_eq_zip (fun r hr => defs_isSome_of_wf hw hr) h0

end spec

/-! ### lifting soundness to circuits -/
section sem
open PhaseMonoid
variable {K : Type} [Num K] {M : Type} [PhaseMonoid M]

theorem specBindGs_length {d : Dict (Ang K)} {env : Dict K} {gs : List (PG K)} {out : List (FG K)}
    (h : specBindGs d env gs = .ok out) : out.length = gs.length := by
  induction gs generalizing out with
  | nil => simp [specBindGs] at h; subst h; rfl
  | cons g r ih =>
    rw [specBindGs_cons] at h
    obtain ⟨x, o, hx, ho, e⟩ := appE_eq_ok h
    cases hg : specGate d env g with
    | error e' => simp [hg, oneE] at hx
    | ok y =>
      simp [hg, oneE] at hx
      subst hx; subst e
      simp [ih ho]

theorem zipExpand_sound (sem : FG K → M) (w : Rewriter)
    (hs : ∀ (k : PK) (g : FG K) (out : List (FG K)), decBound (w.rule k) g = .ok out →
      PhaseMonoid.equiv (semList sem out) (sem g))
    {gs : List (PG K)} {out0 out1 : List (FG K)} (h : zipExpand w gs out0 = .ok out1) :
    PhaseMonoid.equiv (semList sem out1) (semList sem out0) := by
  induction gs generalizing out0 out1 with
  | nil =>
    cases out0 with
    | nil => simp [zipExpand] at h; subst h; exact equiv_refl _
    | cons g o => simp [zipExpand] at h
  | cons pg r ih =>
    cases out0 with
    | nil => cases pg <;> simp [zipExpand] at h
    | cons g o =>
      cases pg with
      | fixed f =>
        simp only [zipExpand] at h
        obtain ⟨a, b, ha, hb, e⟩ := appE_eq_ok h
        injection ha with ha; subst ha; subst e
        simp only [List.singleton_append, semList]
        exact mul_congr (ih hb) (equiv_refl _)
      | par k ts ids raw =>
        simp only [zipExpand] at h
        obtain ⟨a, b, ha, hb, e⟩ := appE_eq_ok h
        subst e
        rw [semList_append]
        simp only [semList]
        exact mul_congr (ih hb) (hs k g a ha)

end sem
/-! ### `ParametricTranspiler` (segment-wise wrapper of any circuit transpiler) -/
section wrap
open PhaseMonoid
variable {K : Type} [Num K] {M : Type} [PhaseMonoid M]

/-- what the wrapped circuit binds to: transpiled segments interleaved with the bound parametric gates -/
def segSpec (t : List (FG K) → Except Err (List (FG K))) (pmap : Dict (Ang K)) (env : Dict K) :
    List (FG K) → List (PG K) → Except Err (List (FG K))
  | seg, [] => flushE t seg
  | seg, .fixed g :: r => segSpec t pmap env (seg ++ [g]) r
  | seg, .par k ts ids raw :: r =>
    appE (flushE t seg)
      (match lookupAng pmap raw with
       | .error e => .error e
       | .ok a => appE (oneE (instrBind env (.p k ts ids a))) (segSpec t pmap env [] r))

theorem flush_spec {t : List (FG K) → Except Err (List (FG K))} {al : Alloc K} {acc acc1 : LC K}
    {seg : List (FG K)} (ha : AllocWF al) (hw : LinWF al acc) (h : flush t acc seg = .ok acc1) :
    Keeps al al acc acc1 ∧ ∃ out, flushE t seg = .ok out ∧ ∀ env, specBindGs al.defs env acc1.gs =
      appE (specBindGs al.defs env acc.gs) (.ok out) := by
  unfold flush at h
  split at h
  · cases h
  · rename_i out ho
    split at h
    · rename_i acc' h1
      injection h with h; subst h
      have e := addGatesL_ok h1
      refine ⟨⟨by rw [e]; exact addFixed_wf hw out, ha, Ext.refl _, by rw [e], by rw [e]⟩, out, ho, fun env => ?_⟩
      rw [e]; simp only
      rw [specBindGs_append, specBindGs_fixed]
    · cases h

theorem wrapLoop_spec {t : List (FG K) → Except Err (List (FG K))} {pmap : Dict (Ang K)}
    {al al' : Alloc K} {acc acc' : LC K} {seg : List (FG K)} {gs : List (PG K)}
    (ha : AllocWF al) (hw : LinWF al acc) (h : wrapLoop t pmap acc al seg gs = .ok (acc', al')) :
    Keeps al al' acc acc' ∧ ∀ env, specBindGs al'.defs env acc'.gs =
      appE (specBindGs al.defs env acc.gs) (segSpec t pmap env seg gs) := by
  induction gs generalizing acc al seg with
  | nil =>
    simp only [wrapLoop] at h
    split at h
    · rename_i acc1 h1
      injection h with h; injection h with e1 e2; subst e1; subst e2
      obtain ⟨k1, out, ho, s1⟩ := flush_spec ha hw h1
      exact ⟨k1, fun env => by rw [s1 env]; simp [segSpec, ho]⟩
    · cases h
  | cons g r ih =>
    cases g with
    | fixed g =>
      simp only [wrapLoop] at h
      obtain ⟨k, s⟩ := ih ha hw h
      exact ⟨k, fun env => by rw [s env]; simp [segSpec]⟩
    | par k ts ids raw =>
      simp only [wrapLoop] at h
      split at h
      · cases h
      · rename_i acc1 h1
        obtain ⟨k1, out, ho, s1⟩ := flush_spec ha hw h1
        split at h
        · cases h
        · rename_i a ha1
          split at h
          · cases h
          · rename_i acc2 al2 h2
            have k2 := addParA_keeps k1.awf k1.wf h2
            have s2 := addParA_spec k1.awf k1.wf h2
            obtain ⟨k3, s3⟩ := ih k2.awf k2.wf h
            refine ⟨(k1.trans k2).trans k3, fun env => ?_⟩
            rw [s3 env, s2 env, s1 env]
            simp [segSpec, ho, ha1, appE_assoc]

theorem wrapT_spec {t : List (FG K) → Except Err (List (FG K))} {al al' : Alloc K} {c c' : LC K}
    (ha : AllocWF al) (h : wrapT t c al = .ok (c', al')) :
    Keeps al al' c c' ∧ ∀ env, specBindGs al'.defs env c'.gs = segSpec t c.m.map env [] c.gs := by
  obtain ⟨k, s⟩ := wrapLoop_spec ha (startLC_wf al c) h
  exact ⟨⟨k.wf, k.awf, k.ext, by rw [k.inP]; rfl, by rw [k.n]; rfl⟩,
    fun env => by rw [s env]; simp [startLC, specBindGs]⟩

/-- if the wrapped circuit transpiler preserves the action of every gate list it is given, the
    segment-wise result has the action of the pending segment followed by the bound source gates -/
theorem segSpec_sound (sem : FG K → M) (t : List (FG K) → Except Err (List (FG K)))
    (ht : ∀ seg out, t seg = .ok out → PhaseMonoid.equiv (semList sem out) (semList sem seg))
    {pmap defs : Dict (Ang K)} {env : Dict K} {gs : List (PG K)} {seg out0 out1 : List (FG K)}
    (hp : ∀ r ∈ raws gs, ∃ a, pmap.get? r = some a ∧ defs.get? r = some a)
    (h0 : specBindGs defs env gs = .ok out0) (h1 : segSpec t pmap env seg gs = .ok out1) :
    PhaseMonoid.equiv (semList sem out1) (semList sem (seg ++ out0)) := by
  have hflush : ∀ s o, flushE t s = .ok o → PhaseMonoid.equiv (semList sem o) (semList sem s) := by
    intro s o h
    unfold flushE at h
    split at h
    · rename_i he
      injection h with h; subst h
      have : s = [] := by simpa using he
      subst this; exact equiv_refl _
    · exact ht s o h
  induction gs generalizing seg out0 out1 with
  | nil =>
    simp [specBindGs] at h0; subst h0
    simp only [segSpec] at h1
    simpa using hflush seg out1 h1
  | cons g r ih =>
    rw [specBindGs_cons] at h0
    obtain ⟨x, o, hx, ho, e⟩ := appE_eq_ok h0
    subst e
    cases g with
    | fixed f =>
      simp [specGate, oneE] at hx; subst hx
      simp only [segSpec] at h1
      have := ih (fun r' hr' => hp r' (by simpa [raws] using hr')) ho h1
      simpa [List.append_assoc] using this
    | par k ts ids raw =>
      obtain ⟨a, hpa, hda⟩ := hp raw (by simp [raws])
      simp only [specGate, outVal, lookupAng, hda] at hx
      simp only [segSpec, lookupAng, hpa] at h1
      obtain ⟨f, rest, hf, hrest, e1⟩ := appE_eq_ok h1
      obtain ⟨y, rest', hy, hr', e2⟩ := appE_eq_ok hrest
      subst e1; subst e2
      cases hv : evalAng env a with
      | error e => simp [hv, oneE] at hx
      | ok v =>
        simp [hv, oneE] at hx; subst hx
        simp [instrBind, hv, oneE] at hy; subst hy
        have h2 := ih (seg := []) (fun r' hr'' => hp r' (by simp [raws, hr''])) ho hr'
        simp only [List.nil_append] at h2
        simp only [List.singleton_append]
        rw [semList_append sem f, semList_append sem seg]
        simp only [semList]
        exact mul_congr (mul_congr h2 (equiv_refl _)) (hflush seg f hf)

end wrap

/-! ### success transfer and bind-soundness of transpiler runs -/
section sound
open PhaseMonoid
variable {K : Type} [Num K] {M : Type} [PhaseMonoid M]

theorem decBound_ok {r : Rule} {k : PK} {ts ids : List Nat} {a : Ang K} {is : List (Instr K)} (v : K)
    (h : ruleInstrs r k ts ids a = .ok is) : ∃ out, decBound r (rot k ts ids v) = .ok out := by
  cases r with
  | keep => exact ⟨_, rfl⟩
  | seq body => exact ⟨_, rfl⟩
  | unsupported => simp [ruleInstrs] at h
  | pauliDecomp =>
    simp only [ruleInstrs, pauliRotInstrs] at h
    simp only [decBound, pauliRotDec, pauliRotInstrs, rot]
    cases h1 : rotGates (K := K) 1 ts ids with
    | none => simp [h1] at h
    | some pre =>
      cases h2 : rotGates (K := K) (-1) ts ids with
      | none => simp [h1, h2] at h
      | some post =>
        cases ts with
        | nil => simp [h1, h2] at h
        | cons t0 rest => exact ⟨_, rfl⟩

theorem expandSpec_ok {w : Rewriter} {pmap defs : Dict (Ang K)} {env : Dict K} {al al' : Alloc K}
    {acc acc' : LC K} {gs : List (PG K)} {out0 : List (FG K)}
    (h : rewriteLoop w pmap acc al gs = .ok (acc', al'))
    (hp : ∀ r ∈ raws gs, ∃ a, pmap.get? r = some a ∧ defs.get? r = some a)
    (h0 : specBindGs defs env gs = .ok out0) : ∃ out1, zipExpand w gs out0 = .ok out1 := by
  induction gs generalizing acc al out0 with
  | nil => simp [specBindGs] at h0; subst h0; exact ⟨[], rfl⟩
  | cons g r ih =>
    rw [specBindGs_cons] at h0
    obtain ⟨x, o, hx, ho, e⟩ := appE_eq_ok h0
    subst e
    cases g with
    | fixed f =>
      simp [specGate, oneE] at hx; subst hx
      simp only [rewriteLoop] at h
      split at h
      · obtain ⟨out1, h1⟩ := ih h (fun r' hr' => hp r' (by simpa [raws] using hr')) ho
        exact ⟨f :: out1, by simp [zipExpand, h1]⟩
      · cases h
    | par k ts ids raw =>
      obtain ⟨a, hpa, hda⟩ := hp raw (by simp [raws])
      simp only [specGate, outVal, lookupAng, hda] at hx
      cases hv : evalAng env a with
      | error e => simp [hv, oneE] at hx
      | ok v =>
        simp [hv, oneE] at hx; subst hx
        simp only [rewriteLoop, lookupAng, hpa] at h
        split at h
        · cases h
        · rename_i is his
          split at h
          · cases h
          · obtain ⟨out1, h1⟩ := ih h (fun r' hr' => hp r' (by simp [raws, hr'])) ho
            obtain ⟨d, hd⟩ := decBound_ok v his
            exact ⟨d ++ out1, by simp [zipExpand, h1, hd]⟩

theorem flush_flushE {t : List (FG K) → Except Err (List (FG K))} {acc acc1 : LC K} {seg : List (FG K)}
    (h : flush t acc seg = .ok acc1) : ∃ out, flushE t seg = .ok out := by
  unfold flush at h
  split at h
  · cases h
  · rename_i out ho; exact ⟨out, ho⟩

theorem segSpec_ok {t : List (FG K) → Except Err (List (FG K))} {pmap defs : Dict (Ang K)} {env : Dict K}
    {al al' : Alloc K} {acc acc' : LC K} {seg : List (FG K)} {gs : List (PG K)} {out0 : List (FG K)}
    (h : wrapLoop t pmap acc al seg gs = .ok (acc', al'))
    (hp : ∀ r ∈ raws gs, ∃ a, pmap.get? r = some a ∧ defs.get? r = some a)
    (h0 : specBindGs defs env gs = .ok out0) : ∃ out1, segSpec t pmap env seg gs = .ok out1 := by
  induction gs generalizing acc al seg out0 with
  | nil =>
    simp only [wrapLoop] at h
    split at h
    · rename_i acc1 h1; exact flush_flushE h1
    · cases h
  | cons g r ih =>
    rw [specBindGs_cons] at h0
    obtain ⟨x, o, hx, ho, e⟩ := appE_eq_ok h0
    subst e
    cases g with
    | fixed f =>
      simp only [wrapLoop] at h
      simp only [segSpec]
      exact ih h (fun r' hr' => hp r' (by simpa [raws] using hr')) ho
    | par k ts ids raw =>
      obtain ⟨a, hpa, hda⟩ := hp raw (by simp [raws])
      simp only [specGate, outVal, lookupAng, hda] at hx
      cases hv : evalAng env a with
      | error e => simp [hv, oneE] at hx
      | ok v =>
        simp only [wrapLoop, lookupAng, hpa] at h
        split at h
        · cases h
        · rename_i acc1 h1
          obtain ⟨f, hf⟩ := flush_flushE h1
          split at h
          · cases h
          · obtain ⟨out1, h2⟩ := ih h (fun r' hr' => hp r' (by simp [raws, hr'])) ho
            exact ⟨f ++ (rot k ts ids v :: out1), by simp [segSpec, lookupAng, hpa, hf, instrBind, hv, oneE, h2]⟩

/-- a transpiler run is *bind-sound*: the result keeps the parameter list, and whenever the source
    binds at `vals`, so does the result, with the same action up to the monoid's equivalence -/
def BindSound (sem : FG K → M) (F : LC K → Alloc K → Except Err (LC K × Alloc K)) : Prop :=
  ∀ (al al' : Alloc K) (c c' : LC K), AllocWF al → LinWF al c → F c al = .ok (c', al') →
    Keeps al al' c c' ∧ ∀ vals out0, c.bind vals = .ok out0 →
      ∃ out1, c'.bind vals = .ok out1 ∧ PhaseMonoid.equiv (semList sem out1) (semList sem out0)

theorem rewriteT_sound (sem : FG K → M) (w : Rewriter)
    (hs : ∀ (k : PK) (g : FG K) (out : List (FG K)), decBound (w.rule k) g = .ok out →
      PhaseMonoid.equiv (semList sem out) (sem g)) : BindSound sem (rewriteT w) := by
  intro al al' c c' ha hw h
  refine ⟨(rewriteT_spec ha h).1, fun vals out0 h0 => ?_⟩
  have hb := rewriteT_bind ha hw h vals out0 h0
  have h0' := h0
  rw [bind_eq_spec_defs hw] at h0'
  obtain ⟨out1, h1⟩ := expandSpec_ok h (fun r hr => defs_isSome_of_wf hw hr) h0'
  exact ⟨out1, by rw [hb, h1], zipExpand_sound sem w hs h1⟩

theorem wrapT_sound (sem : FG K → M) (t : List (FG K) → Except Err (List (FG K)))
    (ht : ∀ seg out, t seg = .ok out → PhaseMonoid.equiv (semList sem out) (semList sem seg)) :
    BindSound sem (wrapT t) := by
  intro al al' c c' ha hw h
  obtain ⟨k, s⟩ := wrapT_spec ha h
  refine ⟨k, fun vals out0 h0 => ?_⟩
  have h0' := h0
  rw [bind_eq_spec_defs hw] at h0'
  have hp := fun r hr => defs_isSome_of_wf hw (r := r) hr
  obtain ⟨out1, h1⟩ := segSpec_ok h hp h0'
  refine ⟨out1, by rw [bind_eq_spec_defs k.wf, k.inP, s, h1], ?_⟩
  simpa using segSpec_sound sem t ht hp h0' h1

theorem BindSound.comp (sem : FG K → M) {F G : LC K → Alloc K → Except Err (LC K × Alloc K)}
    (hF : BindSound sem F) (hG : BindSound sem G) :
    BindSound sem (fun c al => match F c al with
      | .ok (c1, al1) => G c1 al1
      | .error e => .error e) := by
  intro al al' c c' ha hw h
  simp only at h
  split at h
  · rename_i c1 al1 h1
    obtain ⟨k1, b1⟩ := hF al al1 c c1 ha hw h1
    obtain ⟨k2, b2⟩ := hG al1 al' c1 c' k1.awf k1.wf h
    refine ⟨k1.trans k2, fun vals out0 h0 => ?_⟩
    obtain ⟨o1, ho1, e1⟩ := b1 vals out0 h0
    obtain ⟨o2, ho2, e2⟩ := b2 vals o1 ho1
    exact ⟨o2, ho2, equiv_trans e2 e1⟩
  · cases h

theorem BindSound.id (sem : FG K → M) : BindSound sem (fun (c : LC K) al => .ok (c, al)) := by
  intro al al' c c' ha hw h
  injection h with h; injection h with e1 e2; subst e1; subst e2
  exact ⟨⟨hw, ha, Ext.refl _, rfl, rfl⟩, fun vals out0 h0 => ⟨out0, h0, equiv_refl _⟩⟩

/-- `ParametricSequentialTranspiler`: a sequence of bind-sound transpilers is bind-sound -/
theorem seqT_sound (sem : FG K → M) (tb : Tables) (ts : List PT0)
    (h : ∀ t ∈ ts, BindSound sem (fun (c : LC K) al => t.run tb c al)) :
    BindSound sem (fun (c : LC K) al => seqT tb ts c al) := by
  induction ts with
  | nil => exact BindSound.id sem
  | cons t r ih =>
    have h1 := h t List.mem_cons_self
    have h2 := ih (fun t' ht' => h t' (List.mem_cons_of_mem _ ht'))
    have := BindSound.comp sem h1 h2
    intro al al' c c' ha hw hr
    apply this al al' c c' ha hw
    simp only [seqT] at hr
    simp only
    split at hr
    · rename_i c1 al1 h3; rw [h3]; exact hr
    · cases hr

end sound

end QV.C10
