import QuriVerif.Proof.C20Sim
/-
  C20 — simulation lemmas, second part: `+`, bind, state operations, observations, mutation.
-/
set_option linter.unusedSimpArgs false
namespace QV.C20

/-! ### `+` -/

theorem setCore_wf {cv : CV} (c : Core) (h : WfL cv) : WfL (cv.setCore c) := by
  cases cv with
  | r v => trivial
  | l v => simpa [CV.setCore, WfL] using h

theorem copyV_wf (cv : CV) : WfL (copyV cv) := by
  cases cv with
  | r v => trivial
  | l v => simp [copyV, WfL, RVal.thawed]

theorem freshCV_wf (k n : Nat) : WfL (freshCV k n) := by
  unfold freshCV
  split
  · trivial
  · split
    · trivial
    · simp [WfL, newRV, Cls.mu]

theorem extOk_wf {acc r : CV} {a : CV ⊕ List G} (hw : WfL acc) (h : extOk acc a = .ok r) : WfL r := by
  unfold extOk at h
  simp only at h
  split at h
  · cases h; exact setCore_wf _ hw
  · cases h

theorem combineV_wf {self res : CV} {a : CV ⊕ List G} (h : combineV self a = .ok res) : WfL res := by
  unfold combineV at h
  split at h
  · exact extOk_wf (copyV_wf _) h
  · simp only at h
    split at h
    · exact extOk_wf (copyV_wf _) h
    · split at h
      · cases h
      · rename_i acc hacc
        exact extOk_wf (extOk_wf (freshCV_wf _ _) hacc) h

theorem refCell_gs (s : St) (r : Ref) : (refCell s r).v.gs = (s.readRef r).gs := by
  cases r <;> simp [refCell, St.readRef, CV.gs]

theorem combineMeta_dc {cfg : Cfg} (hb : cfg.baseOk = true) {s : St} (hI : Inv s) {r : Ref} (hr : RefOK s r)
    (res : CV) (n : Nat) (h : (combineMeta cfg s r (s.readRef r) res).2 = some n) : n = depth res.gs := by
  unfold combineMeta at h
  simp only at h
  split at h
  · simp only [baseOk_inval hb, Bool.not_true, Bool.false_eq_true, or_false] at h
    split at h
    · rename_i hg
      rw [hg, ← refCell_gs]
      cases r with
      | r a => exact hI.d a n hr h
      | l l => exact hI.d _ n (hI.b2 l hr) h
    · cases h
  · cases h

theorem sim_combine_core {cfg : Cfg} (hb : cfg.baseOk = true) {s : St} {t : Sp} (hI : Inv s) (hR : Rel s t)
    {r : Ref} (hr : RefOK s r) {a : CV ⊕ List G} {res : CV} (hc : combineV (s.readRef r) a = .ok res) :
    let m := combineMeta cfg s r (s.readRef r) res
    let al := allocCV s res m.1 m.2
    Inv (al.1.push (.c al.2)) ∧ Rel (al.1.push (.c al.2)) ⟨upd t.vs t.nH (.c res), t.nH + 1, t.np⟩ := by
  intro m al
  have hD := allocCV_spec hI res (combineV_wf hc) m.1 m.2 (fun n hn => combineMeta_dc hb hI hr res n hn)
  exact simK_push_c hR (hD.k hI)

theorem sim_combine {cfg : Cfg} (hb : cfg.baseOk = true) {s : St} {t : Sp} (hI : Inv s) (hR : Rel s t)
    (h : Nat) (src : Src) : Sim cfg s t (.combine h src) := by
  intro hs
  by_cases hh : h < s.nH
  · cases e : s.hs h with
    | c r =>
      have hr := refOK_of_handle hI hh (.inl e)
      cases src with
      | lit gs =>
        simp only [step, sstep, Op.target, pureV, ← hR.look, hh, e, if_true, look_c hh e] at hs ⊢
        cases hc : combineV (s.readRef r) (.inr gs) with
        | error er => simp only []; exact ⟨hI, hR, by trivial⟩
        | ok res =>
          simp only []
          have := sim_combine_core hb hI hR hr hc
          exact ⟨this.1, by simpa [hR.np] using this.2, by trivial⟩
      | h j =>
        simp only [step, sstep, Op.target, pureV, ← hR.look, hh, e, if_true, look_c hh e] at hs ⊢
        cases hj : s.look j with
        | none => simp only [lookC, hj, Option.map_none]; exact ⟨hI, hR, by trivial⟩
        | some w =>
          cases w with
          | s w' => simp only [lookC, hj, Option.map_none]; exact ⟨hI, hR, by trivial⟩
          | c w' =>
            simp only [lookC, hj, Option.map_some]
            cases hc : combineV (s.readRef r) (.inl w') with
            | error er => simp only []; exact ⟨hI, hR, by trivial⟩
            | ok res =>
              simp only []
              have := sim_combine_core hb hI hR hr hc
              exact ⟨this.1, by simpa [hR.np] using this.2, by trivial⟩
    | s r =>
      cases src <;>
      · simp only [step, sstep, Op.target, pureV, ← hR.look, hh, e, if_true, look_s hh e] at hs ⊢
        exact ⟨hI, hR, by trivial⟩
  · cases src <;>
    · simp only [step, sstep, Op.target, pureV, ← hR.look, hh, if_false, look_none hh] at hs ⊢
      exact ⟨hI, hR, by trivial⟩


/-! ### bind -/

theorem bindCV_ok {s : St} (hI : Inv s) {r : Ref} (hr : RefOK s r) {vals : List Int} {v : RVal}
    (h : bindCV (s.readRef r) vals = some (.ok v)) :
    refAddr s r < s.nR ∧ v.gs.map (·.qs) = (s.rs (refAddr s r)).v.gs.map (·.qs) := by
  cases r with
  | r a =>
    simp only [St.readRef, bindCV] at h
    split at h
    · simp only [Option.some.injEq] at h
      exact ⟨hr, bindV_ok h⟩
    · cases h
  | l l =>
    simp only [St.readRef, bindCV, Option.some.injEq] at h
    exact ⟨hI.b2 l hr, bindL_ok h⟩

theorem sim_bind (cfg : Cfg) {s : St} {t : Sp} (hI : Inv s) (hR : Rel s t) (h : Nat) (vals : List Int) :
    Sim cfg s t (.bind h vals) := by
  intro hs
  simp only [step, sstep, Op.target, pureV, ← hR.look] at hs ⊢
  by_cases hh : h < s.nH
  · cases e : s.hs h with
    | c r =>
      have hr := refOK_of_handle hI hh (.inl e)
      simp only [hh, e, if_true, look_c hh e] at hs ⊢
      cases hb : bindCV (s.readRef r) vals with
      | none => simp only []; exact ⟨hI, hR, by trivial⟩
      | some x =>
        cases x with
        | error er => simp only []; exact ⟨hI, hR, by trivial⟩
        | ok v =>
          simp only []
          obtain ⟨h1, h2⟩ := bindCV_ok hI hr hb
          have hD := bindR_spec cfg hI h1 v h2
          have := simK_push_c hR (hD.k hI)
          exact ⟨this.1, by simpa [hR.np] using this.2, by trivial⟩
    | s r =>
      simp only [hh, e, if_true, look_s hh e] at hs ⊢
      exact ⟨hI, hR, by trivial⟩
  · simp only [hh, if_false, look_none hh] at hs ⊢
    exact ⟨hI, hR, by trivial⟩

theorem sim_stBind (cfg : Cfg) {s : St} {t : Sp} (hI : Inv s) (hR : Rel s t) (h : Nat) (vals : List Int) :
    Sim cfg s t (.stBind h vals) := by
  intro hs
  simp only [step, sstep, Op.target, pureV, ← hR.look] at hs ⊢
  by_cases hh : h < s.nH
  · cases e : s.hs h with
    | s r =>
      have hr := refOK_of_handle hI hh (.inr e)
      simp only [hh, e, if_true, look_s hh e] at hs ⊢
      cases hb : bindCV (s.readRef r) vals with
      | none => simp only []; exact ⟨hI, hR, by trivial⟩
      | some x =>
        cases x with
        | error er => simp only []; exact ⟨hI, hR, by trivial⟩
        | ok v =>
          simp only []
          obtain ⟨h1, h2⟩ := bindCV_ok hI hr hb
          have hD := bindR_spec cfg hI h1 v h2
          have := simK_push_s hR (hD.k hI)
          exact ⟨this.1, by simpa [hR.np] using this.2, by trivial⟩
    | c r =>
      simp only [hh, e, if_true, look_c hh e] at hs ⊢
      exact ⟨hI, hR, by trivial⟩
  · simp only [hh, if_false, look_none hh] at hs ⊢
    exact ⟨hI, hR, by trivial⟩

/-! ### observations -/

theorem sim_obs (cfg : Cfg) {s : St} {t : Sp} (hI : Inv s) (hR : Rel s t) (h : Nat) : Sim cfg s t (.obs h) := by
  intro _
  simp only [step, sstep, Op.target, pureV, ← hR.look]
  by_cases hh : h < s.nH
  · simp only [hh, if_true, St.look]
    exact ⟨hI, hR, by trivial⟩
  · simp only [hh, if_false, look_none hh]
    exact ⟨hI, hR, by trivial⟩

theorem sim_eq (cfg : Cfg) {s : St} {t : Sp} (hI : Inv s) (hR : Rel s t) (h j : Nat) : Sim cfg s t (.eq h j) := by
  intro _
  simp only [step, sstep, Op.target, pureV, ← hR.look]
  by_cases hh : h < s.nH
  · cases e : s.hs h with
    | c r =>
      simp only [hh, e, if_true, look_c hh e]
      by_cases hj : j < s.nH
      · cases e' : s.hs j with
        | c r' =>
          simp only [hj, e', if_true, look_c hj e']
          cases eqV (s.readRef r) (s.readRef r') <;> exact ⟨hI, hR, by trivial⟩
        | s r' =>
          simp only [hj, e', if_true, look_s hj e']
          exact ⟨hI, hR, by trivial⟩
      · simp only [hj, if_false, look_none hj]
        exact ⟨hI, hR, by trivial⟩
    | s r =>
      simp only [hh, e, if_true, look_s hh e]
      exact ⟨hI, hR, by trivial⟩
  · simp only [hh, if_false, look_none hh]
    exact ⟨hI, hR, by trivial⟩

theorem setDC_inv {s : St} (hI : Inv s) {a : Nat} (d : Nat) (hd : d = depth (s.rs a).v.gs) :
    Inv { s with rs := upd s.rs a { s.rs a with dc := some d } } ∧
    Frame s { s with rs := upd s.rs a { s.rs a with dc := some d } } := by
  obtain ⟨b1, b2, o1, o2, o3, o4, t, dd⟩ := hI
  constructor
  · constructor <;> simp only [St.rMut] at *
    · intro i hi; have := b1 i hi
      cases h : (s.hs i).ref <;> simp_all [RefOK]
    · exact b2
    · intro i j a' hi hj hij e1 e2
      have := o1 i j a' hi hj hij e1 e2
      grind [upd]
    · intro i l a' hi hl e1 e2
      have := o2 i l a' hi hl e1 e2
      grind [upd]
    · intro l l' hl hl' hne e
      have := o3 l l' hl hl' hne e
      grind [upd]
    · exact o4
    · intro l hl hm
      have := t l hl hm
      grind [upd]
    · intro a' n ha' h
      have := dd a' n ha'
      grind [upd]
  · constructor <;> simp
    intro a' _
    by_cases h : a' = a <;> simp [upd, h]

theorem sim_depth (cfg : Cfg) {s : St} {t : Sp} (hI : Inv s) (hR : Rel s t) (h : Nat) : Sim cfg s t (.depth h) := by
  intro _
  simp only [step, sstep, Op.target, pureV, ← hR.look]
  by_cases hh : h < s.nH
  · cases e : s.hs h with
    | c r =>
      have hr := refOK_of_handle hI hh (.inl e)
      simp only [hh, e, if_true, look_c hh e]
      have key : ∀ a, a < s.nR → (s.readRef r).gs = (s.rs a).v.gs →
          Inv (match (s.rs a).dc with
            | some d => (⟨s, .num d, true⟩ : Res)
            | none => ⟨{ s with rs := upd s.rs a { s.rs a with dc := some (depth (s.rs a).v.gs) } },
                       .num (depth (s.rs a).v.gs), true⟩).st ∧
          Rel (match (s.rs a).dc with
            | some d => (⟨s, .num d, true⟩ : Res)
            | none => ⟨{ s with rs := upd s.rs a { s.rs a with dc := some (depth (s.rs a).v.gs) } },
                       .num (depth (s.rs a).v.gs), true⟩).st t ∧
          (match (s.rs a).dc with
            | some d => (⟨s, .num d, true⟩ : Res)
            | none => ⟨{ s with rs := upd s.rs a { s.rs a with dc := some (depth (s.rs a).v.gs) } },
                       .num (depth (s.rs a).v.gs), true⟩).out = .num (depth (s.readRef r).gs) := by
        intro a ha hg
        cases hdc : (s.rs a).dc with
        | some d =>
          simp only []
          exact ⟨hI, hR, by rw [hI.d a d ha hdc, hg]⟩
        | none =>
          simp only []
          obtain ⟨i1, f1⟩ := setDC_inv hI (a := a) (depth (s.rs a).v.gs) rfl
          exact ⟨i1, (f1.keep hI).rel hR, by rw [hg]⟩
      cases r with
      | r a => exact key a hr (by simp [St.readRef, CV.gs])
      | l l => exact key (s.ls l).circ (hI.b2 l hr) (by simp [St.readRef, CV.gs])
    | s r =>
      simp only [hh, e, if_true, look_s hh e]
      exact ⟨hI, hR, by trivial⟩
  · simp only [hh, if_false, look_none hh]
    exact ⟨hI, hR, by trivial⟩

end QV.C20
