import QuriVerif.Model.C06
/-
  Structure of `clifford_gate_conjugation` on labels of any size:
  spectator factors pass through unchanged (theorem `spectators_unchanged`) and the
  factors on the gate's qubits together with the coefficient are what the function
  returns on the sub-label restricted to those qubits (theorem `acted_local`).
  Together with the exhaustive kernel check of all labels on the gate's own qubits
  (Props/C06.lean) this covers Pauli strings on any number of qubits.
-/
namespace QV.C06
open QV

/-- observation of a label at an index: `none` = no factor -/
def obs (l : Label) (i : Nat) : Option Nat := (l.find? (fun e => e.1 == i)).map (·.2)

theorem any_eq_obs (l : Label) (i : Nat) : l.any (fun e => e.1 == i) = (obs l i).isSome := by
  induction l with
  | nil => rfl
  | cons x xs ih =>
    simp only [List.any_cons, obs, List.find?_cons]
    cases h : (x.1 == i) with
    | true => simp
    | false => simpa [obs] using ih

theorem lookup_eq_obs (l : Label) (i : Nat) : lookup l i = (obs l i).getD 0 := by
  unfold lookup obs
  cases l.find? (fun e => e.1 == i) <;> rfl

theorem obs_cons (x : Nat × Nat) (xs : Label) (j : Nat) :
    obs (x :: xs) j = if x.1 = j then some x.2 else obs xs j := by
  simp only [obs, List.find?_cons]
  by_cases h : x.1 = j
  · have : (x.1 == j) = true := by simpa using h
    simp [this, h]
  · have : (x.1 == j) = false := by simpa using h
    simp [this, h]

theorem obs_erase (l : Label) (i j : Nat) : obs (erase l i) j = if j = i then none else obs l j := by
  induction l with
  | nil => simp [erase, obs]
  | cons x xs ih =>
    have ih' : obs (List.filter (fun e => !(e.1 == i)) xs) j = if j = i then none else obs xs j := ih
    simp only [erase, List.filter_cons]
    by_cases hx : x.1 = i
    · have hb : (x.1 == i) = true := by simpa using hx
      simp only [hb, Bool.not_true, Bool.false_eq_true, if_false, ih', obs_cons]
      by_cases hj : j = i
      · simp [hj]
      · have : ¬ x.1 = j := by omega
        simp [hj, this]
    · have hb : (x.1 == i) = false := by simpa using hx
      simp only [hb, Bool.not_false, if_true, obs_cons, ih']
      by_cases hxj : x.1 = j
      · have : ¬ j = i := by omega
        simp [hxj, this]
      · simp [hxj]

theorem obs_mapSet (l : Label) (i p j : Nat) :
    obs (l.map fun e => if e.1 == i then (i, p) else e) j =
      if j = i then (if (obs l i).isSome then some p else none) else obs l j := by
  induction l with
  | nil => simp [obs]
  | cons x xs ih =>
    simp only [List.map_cons, obs_cons, ih]
    by_cases hx : x.1 = i
    · have hb : (x.1 == i) = true := by simpa using hx
      simp only [hb, if_true, hx]
      by_cases hj : j = i
      · simp [hj]
      · have : ¬ i = j := fun h => hj h.symm
        simp [hj, this]
    · have hb : (x.1 == i) = false := by simpa using hx
      simp only [hb, Bool.false_eq_true, if_false, hx]
      by_cases hxj : x.1 = j
      · have : ¬ j = i := by omega
        simp [hxj, this]
      · simp [hxj]

theorem obs_setAt (l : Label) (i p j : Nat) : obs (setAt l i p) j = if j = i then some p else obs l j := by
  unfold setAt
  by_cases hany : l.any (fun e => e.1 == i) = true
  · simp only [hany, if_true]
    rw [obs_mapSet]
    rw [any_eq_obs] at hany
    simp [hany]
  · have hany' : l.any (fun e => e.1 == i) = false := Bool.eq_false_iff.mpr hany
    simp only [hany', Bool.false_eq_true, if_false]
    have hnone : obs l i = none := by
      have := any_eq_obs l i
      rw [hany'] at this
      cases h : obs l i with
      | none => rfl
      | some v => rw [h] at this; simp at this
    simp only [obs, List.find?_append]
    by_cases hj : j = i
    · subst hj
      simp only [obs] at hnone
      cases hf : l.find? (fun e => e.1 == j) with
      | none => simp
      | some v => rw [hf] at hnone; simp at hnone
    · have : (i == j) = false := by simp; omega
      simp [hj, this]

/-- the new dictionary value and the phase increment of one `pauli_product` iteration -/
def stepVal (tbl : ProdTable) (o : Option Nat) (p : Nat) : Option Nat × Nat :=
  match o with
  | none => (some p, 0)
  | some cur =>
    match mul1 tbl cur p with
    | none => (none, 0)
    | some (r, k) => (some r, k)

theorem prodStep_obs (tbl : ProdTable) (st : Label × Nat) (e : Nat × Nat) (j : Nat) :
    obs (prodStep tbl st e).1 j = if j = e.1 then (stepVal tbl (obs st.1 e.1) e.2).1 else obs st.1 j := by
  unfold prodStep
  rw [any_eq_obs, lookup_eq_obs]
  cases h : obs st.1 e.1 with
  | none => simp [stepVal, obs_setAt]
  | some cur =>
    simp only [Option.isSome_some, if_true, Option.getD_some, stepVal]
    cases hm : mul1 tbl cur e.2 with
    | none => simp only [obs_erase]
    | some rk => obtain ⟨r, k⟩ := rk; simp only [obs_setAt]

theorem prodStep_phase (tbl : ProdTable) (st : Label × Nat) (e : Nat × Nat) :
    (prodStep tbl st e).2 = st.2 + (stepVal tbl (obs st.1 e.1) e.2).2 := by
  unfold prodStep
  rw [any_eq_obs, lookup_eq_obs]
  cases h : obs st.1 e.1 with
  | none => simp [stepVal]
  | some cur =>
    simp only [Option.isSome_some, if_true, Option.getD_some, stepVal]
    cases hm : mul1 tbl cur e.2 with
    | none => simp
    | some rk => obtain ⟨r, k⟩ := rk; simp

/-- folding `prodStep` never touches indices that do not occur in the second label -/
theorem foldl_prodStep_other (tbl : ProdTable) (upd : Label) (j : Nat) (hj : ∀ x ∈ upd, x.1 ≠ j) :
    ∀ st : Label × Nat, obs (upd.foldl (prodStep tbl) st).1 j = obs st.1 j := by
  induction upd with
  | nil => intro st; rfl
  | cons e es ih =>
    intro st
    simp only [List.foldl_cons]
    rw [ih (fun x hx => hj x (List.mem_cons_of_mem _ hx))]
    rw [prodStep_obs]
    have : ¬ j = e.1 := fun h => hj e List.mem_cons_self h.symm
    simp [this]

/-- the result on a set `W` of indices and the phase depend only on the observations on `W` -/
theorem foldl_prodStep_congr (tbl : ProdTable) (W : Nat → Prop) (upd : Label) (hW : ∀ x ∈ upd, W x.1) :
    ∀ st st' : Label × Nat, (∀ j, W j → obs st.1 j = obs st'.1 j) →
      (∀ j, W j → obs (upd.foldl (prodStep tbl) st).1 j = obs (upd.foldl (prodStep tbl) st').1 j) ∧
      (upd.foldl (prodStep tbl) st).2 + st'.2 = (upd.foldl (prodStep tbl) st').2 + st.2 := by
  induction upd with
  | nil => intro st st' h; exact ⟨h, by simp; omega⟩
  | cons e es ih =>
    intro st st' h
    simp only [List.foldl_cons]
    have he := hW e List.mem_cons_self
    have h1 : ∀ j, W j → obs (prodStep tbl st e).1 j = obs (prodStep tbl st' e).1 j := by
      intro j hj
      rw [prodStep_obs, prodStep_obs, h e.1 he, h j hj]
    obtain ⟨ha, hb⟩ := ih (fun x hx => hW x (List.mem_cons_of_mem _ hx)) _ _ h1
    refine ⟨ha, ?_⟩
    rw [prodStep_phase, prodStep_phase, h e.1 he] at hb
    omega

/-- contributions respect the gate's wire set `W` -/
structure Local (W : Nat → Prop) (contrib : Nat × Nat → Option (Label × Nat)) : Prop where
  spect : ∀ e, ¬ W e.1 → contrib e = some ([e], 0)
  acted : ∀ e upd s, W e.1 → contrib e = some (upd, s) → ∀ x ∈ upd, W x.1

def Valid (l : Label) : Prop := l.Pairwise fun a b => a.1 ≠ b.1

theorem conjLoop_snoc (tbl : ProdTable) (contrib) (kp : Bool) (L : Label) (e : Nat × Nat) :
    conjLoop tbl contrib kp (L ++ [e]) = conjStep tbl contrib kp (conjLoop tbl contrib kp L) e := by
  simp [conjLoop, List.foldl_append]

theorem obs_snoc (L : Label) (e : Nat × Nat) (j : Nat) :
    obs (L ++ [e]) j = match obs L j with
      | some v => some v
      | none => if e.1 = j then some e.2 else none := by
  simp only [obs, List.find?_append]
  cases h : L.find? (fun x => x.1 == j) with
  | some v => simp
  | none =>
    simp only [Option.none_or, List.find?_cons, List.find?_nil, Option.map_none]
    by_cases he : e.1 = j
    · have : (e.1 == j) = true := by simpa using he
      simp [this, he]
    · have : (e.1 == j) = false := by simpa using he
      simp [this, he]

theorem obs_none_of_not_mem (L : Label) (j : Nat) (h : ∀ x ∈ L, x.1 ≠ j) : obs L j = none := by
  unfold obs
  have : L.find? (fun e => e.1 == j) = none := by
    rw [List.find?_eq_none]
    intro x hx
    simpa using h x hx
  rw [this]; rfl

theorem list_rev_induction {α : Type} (P : List α → Prop) (h0 : P [])
    (hs : ∀ l a, P l → P (l ++ [a])) : ∀ l, P l := by
  intro l
  have : ∀ r : List α, P r.reverse := by
    intro r
    induction r with
    | nil => exact h0
    | cons a r ih => simpa using hs _ a ih
  simpa using this l.reverse

/-- A: factors on qubits the gate does not touch are returned unchanged -/
theorem spectators_unchanged (tbl : ProdTable) (W : Nat → Prop) (contrib) (kp : Bool)
    (hloc : Local W contrib) :
    ∀ (L : Label), Valid L → ∀ r, conjLoop tbl contrib kp L = some r →
      ∀ j, ¬ W j → obs r.1 j = obs L j := by
  apply list_rev_induction
  · intro _ r hr j _
    simp [conjLoop] at hr
    subst hr; rfl
  · intro L e ih hv r hr j hj
    rw [conjLoop_snoc] at hr
    have hvL : Valid L := by
      unfold Valid at hv ⊢
      exact (List.pairwise_append.mp hv).1
    have hfresh : ∀ x ∈ L, x.1 ≠ e.1 := by
      unfold Valid at hv
      have := (List.pairwise_append.mp hv).2.2
      intro x hx
      exact this x hx e (by simp)
    unfold conjStep at hr
    cases hL : conjLoop tbl contrib kp L with
    | none => simp [hL] at hr
    | some rk =>
      obtain ⟨res, k⟩ := rk
      cases hc : contrib e with
      | none => simp [hL, hc] at hr
      | some us =>
        obtain ⟨upd, s⟩ := us
        simp only [hL, hc] at hr
        injection hr with hr
        subst hr
        simp only
        have ihj := ih hvL (res, k) hL j hj
        simp only at ihj
        rw [obs_snoc]
        by_cases hWe : W e.1
        · -- acted entry: everything it writes lies in W
          have hupd := hloc.acted e upd s hWe hc
          unfold pauliProduct
          rw [foldl_prodStep_other tbl upd j (fun x hx hxj => hj (hxj ▸ hupd x hx))]
          simp only [ihj]
          have : ¬ e.1 = j := fun h => hj (h ▸ hWe)
          cases obs L j <;> simp [this]
        · -- spectator entry: contributes itself
          have hce := hloc.spect e hWe
          rw [hc] at hce
          injection hce with hce
          injection hce with hu hs
          subst hu
          unfold pauliProduct
          simp only [List.foldl_cons, List.foldl_nil]
          rw [prodStep_obs]
          by_cases hje : j = e.1
          · have hnone : obs L e.1 = none := obs_none_of_not_mem L e.1 hfresh
            have hres : obs res e.1 = none := by rw [← hje, ihj, hje, hnone]
            rw [hje]
            simp [hres, hnone, stepVal]
          · simp only [hje, if_false, ihj]
            have : ¬ e.1 = j := fun h => hje h.symm
            cases obs L j <;> simp [this]


/-- B: the factors on the gate's qubits and the coefficient are those of the sub-label on
    the gate's qubits (the spectators contribute nothing) -/
theorem acted_local (tbl : ProdTable) (W : Nat → Prop) [DecidablePred W] (contrib) (kp : Bool)
    (hloc : Local W contrib) :
    ∀ (L : Label), Valid L →
      match conjLoop tbl contrib kp L, conjLoop tbl contrib kp (L.filter fun e => decide (W e.1)) with
      | some r, some r' => (∀ j, W j → obs r.1 j = obs r'.1 j) ∧ r.2 = r'.2
      | none, none => True
      | _, _ => False := by
  apply list_rev_induction
  · intro _
    simp [conjLoop]
  · intro L e ih hv
    have hvL : Valid L := by
      unfold Valid at hv ⊢
      exact (List.pairwise_append.mp hv).1
    have hfresh : ∀ x ∈ L, x.1 ≠ e.1 := by
      unfold Valid at hv
      have := (List.pairwise_append.mp hv).2.2
      intro x hx
      exact this x hx e (by simp)
    have ihL := ih hvL
    rw [conjLoop_snoc, List.filter_append]
    by_cases hWe : W e.1
    · have hf : List.filter (fun e => decide (W e.1)) [e] = [e] := by simp [hWe]
      rw [hf, conjLoop_snoc]
      cases hL : conjLoop tbl contrib kp L with
      | none =>
        rw [hL] at ihL
        cases hL' : conjLoop tbl contrib kp (L.filter fun e => decide (W e.1)) with
        | none => simp [conjStep]
        | some r' => rw [hL'] at ihL; exact ihL.elim
      | some r =>
        rw [hL] at ihL
        cases hL' : conjLoop tbl contrib kp (L.filter fun e => decide (W e.1)) with
        | none => rw [hL'] at ihL; exact ihL.elim
        | some r' =>
          rw [hL'] at ihL
          obtain ⟨hobs, hph⟩ := ihL
          obtain ⟨res, k⟩ := r
          obtain ⟨res', k'⟩ := r'
          simp only at hobs hph
          cases hc : contrib e with
          | none => simp [conjStep, hc]
          | some us =>
            obtain ⟨upd, s⟩ := us
            simp only [conjStep, hc]
            have hupd := hloc.acted e upd s hWe hc
            obtain ⟨ha, hb⟩ := foldl_prodStep_congr tbl W upd hupd (res, 0) (res', 0) hobs
            refine ⟨?_, ?_⟩
            · intro j hj; exact ha j hj
            · simp only [pauliProduct]
              simp only [Nat.add_zero] at hb
              rw [hb, hph]
    · have hf : List.filter (fun e => decide (W e.1)) [e] = [] := by simp [hWe]
      rw [hf, List.append_nil]
      cases hL : conjLoop tbl contrib kp L with
      | none =>
        rw [hL] at ihL
        cases hL' : conjLoop tbl contrib kp (L.filter fun e => decide (W e.1)) with
        | none => simp [conjStep]
        | some r' => rw [hL'] at ihL; exact ihL.elim
      | some r =>
        rw [hL] at ihL
        cases hL' : conjLoop tbl contrib kp (L.filter fun e => decide (W e.1)) with
        | none => rw [hL'] at ihL; exact ihL.elim
        | some r' =>
          rw [hL'] at ihL
          obtain ⟨hobs, hph⟩ := ihL
          obtain ⟨res, k⟩ := r
          simp only at hobs hph
          have hce := hloc.spect e hWe
          simp only [conjStep, hce]
          have hA := spectators_unchanged tbl W contrib kp hloc L hvL (res, k) hL e.1 hWe
          simp only at hA
          have hnone : obs res e.1 = none := by rw [hA]; exact obs_none_of_not_mem L e.1 hfresh
          refine ⟨?_, ?_⟩
          · intro j hj
            simp only [pauliProduct, List.foldl_cons, List.foldl_nil]
            rw [prodStep_obs]
            have : ¬ j = e.1 := fun h => hWe (h ▸ hj)
            simp only [this, if_false]
            exact hobs j hj
          · simp only [pauliProduct, List.foldl_cons, List.foldl_nil, prodStep_phase, hnone, stepVal]
            cases kp <;> simp [hph]

end QV.C06
