import QuriVerif.Model.C04
/-
  C04 — helper lemmas (core Lean only).
-/
namespace QV.C04

/-! ## sorting and permutations -/

theorem insertSorted_perm (t : Term) (l : List Term) : (insertSorted t l).Perm (t :: l) := by
  induction l with
  | nil => exact List.Perm.refl _
  | cons x xs ih =>
    unfold insertSorted
    split
    · exact List.Perm.refl _
    · exact (List.Perm.cons x ih).trans (List.Perm.swap t x xs)

theorem isort_perm (l : List Term) : (isort l).Perm l := by
  induction l with
  | nil => exact List.Perm.refl _
  | cons x xs ih =>
    unfold isort
    exact (insertSorted_perm x (isort xs)).trans (List.Perm.cons x ih)

theorem perm_of_isort_eq {a b : List Term} (h : isort a = isort b) : a.Perm b :=
  ((isort_perm a).symm.trans (h ▸ List.Perm.refl _)).trans (isort_perm b)

theorem Coef.add_comm' (a b : Coef) : Coef.add a b = Coef.add b a := by
  simp only [Coef.add, Int.add_comm]

theorem Coef.add_left_comm' (a b c : Coef) : Coef.add a (Coef.add b c) = Coef.add b (Coef.add a c) := by
  simp only [Coef.add, Int.add_left_comm]

theorem expectTerms_perm (ev : Label → Int) {l₁ l₂ : List Term} (h : l₁.Perm l₂) :
    expectTerms ev l₁ = expectTerms ev l₂ := by
  induction h with
  | nil => rfl
  | cons x _ ih => simp only [expectTerms, ih]
  | swap x y l => simp only [expectTerms]; exact Coef.add_left_comm' _ _ _
  | trans _ _ ih₁ ih₂ => exact ih₁.trans ih₂

/-! ## the cache invariant -/

/-- every stored backend operator is a conversion of *some* operator with exactly the stored key -/
def Valid (c : Cache) : Prop :=
  ∀ k b, cacheGet c k = some b → b.nq = k.nq ∧ isort b.terms = k.terms

theorem valid_nil : Valid [] := by
  intro k b h
  simp [cacheGet] at h

theorem cacheGet_append (c : Cache) (k : Key) (b : BackendOp) (q : Key) :
    cacheGet (c ++ [(k, b)]) q =
      match cacheGet c q with
      | some x => some x
      | none => if k = q then some b else none := by
  induction c with
  | nil => simp [cacheGet]
  | cons h t ih =>
    obtain ⟨hk, hb⟩ := h
    simp only [List.cons_append, cacheGet]
    by_cases e : hk = q
    · simp [e]
    · simp [e, ih]

theorem valid_append {c : Cache} (hc : Valid c) (e : Estimatable) (n : Nat) :
    Valid (c ++ [(keyOf e n, build e n)]) := by
  intro k b h
  rw [cacheGet_append] at h
  cases hg : cacheGet c k with
  | some x =>
    rw [hg] at h
    simp only [Option.some.injEq] at h
    exact h ▸ hc k x hg
  | none =>
    rw [hg] at h
    by_cases hk : keyOf e n = k
    · simp only [hk, if_true, Option.some.injEq] at h
      subst h
      subst hk
      exact ⟨rfl, rfl⟩
    · simp [hk] at h

/-- soundness of one `convert_operator` call -/
theorem convert_sound {c : Cache} (hc : Valid c) {e : Estimatable} {n : Nat} {o : ConvOut}
    (h : convert c e n = .ok o) :
    Valid o.cache ∧ o.op.nq = n ∧ o.op.terms.Perm (items e) := by
  unfold convert at h
  cases hg : cacheGet c (keyOf e n) with
  | some b =>
    rw [hg] at h
    simp only [Except.ok.injEq] at h
    subst h
    have := hc _ _ hg
    exact ⟨hc, this.1, perm_of_isort_eq this.2⟩
  | none =>
    rw [hg] at h
    simp only at h
    split at h
    · simp only [Except.ok.injEq] at h
      subst h
      exact ⟨valid_append hc e n, rfl, List.Perm.refl _⟩
    · cases h

/-- a failed conversion leaves the cache alone; a successful one only appends -/
def convCache (c : Cache) (e : Estimatable) (n : Nat) : Cache :=
  match convert c e n with
  | .ok o => o.cache
  | .error _ => c

theorem valid_convCache {c : Cache} (hc : Valid c) (e : Estimatable) (n : Nat) : Valid (convCache c e n) := by
  unfold convCache
  cases h : convert c e n with
  | ok o => exact (convert_sound hc h).1
  | error x => exact hc

/-- the cache after any sequence of `convert_operator` calls -/
def runConv (c : Cache) (reqs : List (Estimatable × Nat)) : Cache :=
  reqs.foldl (fun c r => convCache c r.1 r.2) c

theorem valid_runConv {c : Cache} (hc : Valid c) (reqs : List (Estimatable × Nat)) : Valid (runConv c reqs) := by
  induction reqs generalizing c with
  | nil => exact hc
  | cons r rs ih => exact ih (valid_convCache hc r.1 r.2)

/-! ## estimators against the cache-free specification -/

theorem expectTerms_nil (ev : Label → Int) : expectTerms ev [] = Coef.zero := rfl

theorem items_of_isZero {e : Estimatable} (h : isZero e = true) : items e = [] := by
  cases e with
  | label l => simp [isZero] at h
  | op ts => simpa [isZero, items] using h

theorem estimateOne_spec {σ : Type} (ev : σ → Label → Int) (nq : σ → Nat) {c : Cache} (hc : Valid c)
    {e : Estimatable} {st : σ} {c' : Cache} {r : Estimate} (h : estimateOne ev nq c e st = .ok (c', r)) :
    Valid c' ∧ r = specEstimate ev e st := by
  unfold estimateOne at h
  split at h
  · rename_i hz
    simp only [Except.ok.injEq, Prod.mk.injEq] at h
    obtain ⟨h1, h2⟩ := h
    subst h1; subst h2
    refine ⟨hc, ?_⟩
    simp [specEstimate, items_of_isZero hz, expectTerms]
  · cases hcv : convert c e (nq st) with
    | error x => rw [hcv] at h; cases h
    | ok o =>
      rw [hcv] at h
      simp only [Except.ok.injEq, Prod.mk.injEq] at h
      obtain ⟨h1, h2⟩ := h
      subst h1; subst h2
      have hs := convert_sound hc hcv
      exact ⟨hs.1, by simp [specEstimate, expectTerms_perm (ev st) hs.2.2]⟩

theorem estimateSingleState_spec {σ : Type} (ev : σ → Label → Int) (nq : σ → Nat) (st : σ)
    (es : List Estimatable) {c : Cache} (hc : Valid c) {c' : Cache} {rs : List Estimate}
    (h : estimateSingleState ev nq st c es = .ok (c', rs)) :
    Valid c' ∧ rs = es.map (fun e => specEstimate ev e st) := by
  induction es generalizing c c' rs with
  | nil =>
    simp only [estimateSingleState, Except.ok.injEq, Prod.mk.injEq] at h
    obtain ⟨h1, h2⟩ := h
    subst h1; subst h2
    exact ⟨hc, rfl⟩
  | cons e es ih =>
    unfold estimateSingleState at h
    cases hcv : convert c e (nq st) with
    | error x => rw [hcv] at h; cases h
    | ok o =>
      rw [hcv] at h
      simp only at h
      cases hr : estimateSingleState ev nq st o.cache es with
      | error x => rw [hr] at h; cases h
      | ok pr =>
        obtain ⟨c2, rs2⟩ := pr
        rw [hr] at h
        simp only [Except.ok.injEq, Prod.mk.injEq] at h
        obtain ⟨h1, h2⟩ := h
        subst h1; subst h2
        have hs := convert_sound hc hcv
        have := ih hs.1 hr
        refine ⟨this.1, ?_⟩
        simp [specEstimate, expectTerms_perm (ev st) hs.2.2, this.2]

theorem estimatePairs_spec {σ : Type} (ev : σ → Label → Int) (nq : σ → Nat)
    (ps : List (Estimatable × σ)) {c : Cache} (hc : Valid c) {c' : Cache} {rs : List Estimate}
    (h : estimatePairs ev nq c ps = .ok (c', rs)) :
    Valid c' ∧ rs = ps.map (fun p => specEstimate ev p.1 p.2) := by
  induction ps generalizing c c' rs with
  | nil =>
    simp only [estimatePairs, Except.ok.injEq, Prod.mk.injEq] at h
    obtain ⟨h1, h2⟩ := h
    subst h1; subst h2
    exact ⟨hc, rfl⟩
  | cons p ps ih =>
    obtain ⟨e, st⟩ := p
    unfold estimatePairs at h
    cases h1 : estimateOne ev nq c e st with
    | error x => rw [h1] at h; cases h
    | ok pr =>
      obtain ⟨c1, r⟩ := pr
      rw [h1] at h
      simp only at h
      cases h2 : estimatePairs ev nq c1 ps with
      | error x => rw [h2] at h; cases h
      | ok pr2 =>
        obtain ⟨c2, rs2⟩ := pr2
        rw [h2] at h
        simp only [Except.ok.injEq, Prod.mk.injEq] at h
        obtain ⟨ha, hb⟩ := h
        subst ha; subst hb
        have s1 := estimateOne_spec ev nq hc h1
        have s2 := ih s1.1 h2
        exact ⟨s2.1, by simp [s1.2, s2.2]⟩

/-! ## batch dispatch -/

theorem zip_replicate_range (n : Nat) :
    (List.replicate n 0).zip (List.range n) = (List.range n).map (fun i => (0, i)) := by
  apply List.ext_getElem
  · simp
  · intro i h1 h2
    simp

theorem zip_range_replicate (n : Nat) :
    (List.range n).zip (List.replicate n 0) = (List.range n).map (fun i => (i, 0)) := by
  apply List.ext_getElem
  · simp
  · intro i h1 h2
    simp

theorem zip_range_range (n : Nat) :
    (List.range n).zip (List.range n) = (List.range n).map (fun i => (i, i)) := by
  apply List.ext_getElem
  · simp
  · intro i h1 h2
    simp

theorem map_range_congr {α : Type} (n : Nat) (f g : Nat → α) (h : ∀ i, i < n → f i = g i) :
    (List.range n).map f = (List.range n).map g := by
  apply List.map_congr_left
  intro i hi
  exact h i (List.mem_range.mp hi)

/-- the admissible shapes -/
def shapeOk (a b : Nat) : Bool := decide (1 ≤ a) && decide (1 ≤ b) && (decide (a = 1) || decide (b = 1) || decide (a = b))

theorem dispatch_ok_of_shape {a b : Nat} (h : shapeOk a b = true) :
    dispatch a b = .ok (if b = 1 then .singleState else .pairs, (List.range (max a b)).map (pairIdx a b)) := by
  simp only [shapeOk, Bool.and_eq_true, Bool.or_eq_true, decide_eq_true_eq] at h
  obtain ⟨⟨ha, hb⟩, hs⟩ := h
  unfold dispatch
  have h0 : ¬ a = 0 := by omega
  have h1 : ¬ b = 0 := by omega
  have h2 : ¬ (1 < a ∧ 1 < b ∧ a ≠ b) := by omega
  simp only [h0, h1, h2, if_false]
  by_cases hb1 : b = 1
  · subst hb1
    have : max a 1 = a := by omega
    simp only [if_true, this]
    congr 2
    apply map_range_congr
    intro i hi
    simp only [pairIdx, if_true]
    by_cases ha1 : a = 1
    · subst ha1
      have : i = 0 := by omega
      simp [this]
    · simp [ha1]
  · simp only [hb1, if_false]
    by_cases ha1 : a = 1
    · subst ha1
      have : max 1 b = b := by omega
      simp only [if_true, this, zip_replicate_range]
      congr 2
      apply map_range_congr
      intro i _
      simp [pairIdx, hb1]
    · have hab : a = b := by omega
      subst hab
      simp only [ha1, if_false, zip_range_range, Nat.max_self]
      congr 2
      apply map_range_congr
      intro i _
      simp [pairIdx, ha1]

theorem dispatch_error_iff (a b : Nat) :
    (dispatch a b = .error .noOperator ↔ a = 0) ∧
    (dispatch a b = .error .noState ↔ a ≠ 0 ∧ b = 0) ∧
    (dispatch a b = .error .mismatch ↔ 1 < a ∧ 1 < b ∧ a ≠ b) := by
  unfold dispatch
  by_cases h0 : a = 0
  · simp [h0]
  · by_cases h1 : b = 0
    · simp [h0, h1]
    · by_cases h2 : 1 < a ∧ 1 < b ∧ a ≠ b
      · rw [if_neg h0, if_neg h1, if_pos h2]
        simp [h0, h1, h2]
      · rw [if_neg h0, if_neg h1, if_neg h2]
        by_cases hb : b = 1
        · simp [hb, h0]
        · simp [hb, h0, h1, h2]

theorem coreDispatch_ok_of_shape {a b : Nat} (h : shapeOk a b = true) :
    coreDispatch a b = .ok ((List.range (max a b)).map (pairIdx a b)) := by
  simp only [shapeOk, Bool.and_eq_true, Bool.or_eq_true, decide_eq_true_eq] at h
  obtain ⟨⟨ha, hb⟩, hs⟩ := h
  unfold coreDispatch
  have h0 : ¬ a = 0 := by omega
  have h1 : ¬ b = 0 := by omega
  have h2 : ¬ (1 < a ∧ 1 < b ∧ a ≠ b) := by omega
  simp only [h0, h1, h2, if_false]
  by_cases hb1 : b = 1
  · subst hb1
    have hm : max a 1 = a := by omega
    simp only [if_true, hm]
    by_cases ha1 : a = 1
    · subst ha1
      simp [pairIdx]
    · simp only [ha1, if_false, zip_range_replicate]
      congr 1
      apply map_range_congr
      intro i _
      simp [pairIdx, ha1]
  · simp only [hb1, if_false]
    by_cases ha1 : a = 1
    · subst ha1
      have : max 1 b = b := by omega
      simp only [if_true, this, zip_replicate_range]
      congr 1
      apply map_range_congr
      intro i _
      simp [pairIdx, hb1]
    · have hab : a = b := by omega
      subst hab
      simp only [ha1, if_false, zip_range_range, Nat.max_self]
      congr 1
      apply map_range_congr
      intro i _
      simp [pairIdx, ha1]

theorem shapeOk_false_iff (a b : Nat) : shapeOk a b = false ↔ a = 0 ∨ b = 0 ∨ (1 < a ∧ 1 < b ∧ a ≠ b) := by
  simp only [shapeOk, Bool.and_eq_false_iff, Bool.or_eq_false_iff, decide_eq_false_iff_not]
  omega

theorem dispatch_error_of_not_shape {a b : Nat} (h : shapeOk a b = false) :
    ∃ e, dispatch a b = .error e ∧ coreDispatch a b = .error e := by
  rw [shapeOk_false_iff] at h
  unfold dispatch coreDispatch
  by_cases h0 : a = 0
  · exact ⟨.noOperator, by simp [h0]⟩
  · by_cases h1 : b = 0
    · exact ⟨.noState, by simp [h0, h1]⟩
    · have h2 : 1 < a ∧ 1 < b ∧ a ≠ b := by omega
      exact ⟨.mismatch, by simp [h0, h1, h2]⟩

/-! ## concurrent estimators against the specification -/

/-- the documented result of a concurrent estimator call -/
def specBatch {σ : Type} (ev : σ → Label → Int) (dflt : σ) (ops : List Estimatable) (states : List σ) :
    List Estimate :=
  (List.range (max ops.length states.length)).map fun i =>
    specEstimate ev (ops.getD (pairIdx ops.length states.length i).1 (.op []))
      (states.getD (pairIdx ops.length states.length i).2 dflt)

theorem liftConv_ok {α : Type} {x : Except ConvErr α} {a : α} (h : liftConv x = .ok a) : x = .ok a := by
  cases x with
  | ok b => simpa [liftConv] using h
  | error e => simp [liftConv] at h

theorem concurrentEstimate_spec {σ : Type} (ev : σ → Label → Int) (nq : σ → Nat) (dflt : σ)
    {c : Cache} (hc : Valid c) (ops : List Estimatable) (states : List σ) {c' : Cache} {rs : List Estimate}
    (h : concurrentEstimate ev nq dflt c ops states = .ok (c', rs)) :
    Valid c' ∧ rs = specBatch ev dflt ops states := by
  unfold concurrentEstimate at h
  cases hs : shapeOk ops.length states.length with
  | false =>
    obtain ⟨e, he, _⟩ := dispatch_error_of_not_shape hs
    rw [he] at h
    cases h
  | true =>
    rw [dispatch_ok_of_shape hs] at h
    by_cases hb : states.length = 1
    · simp only [hb, if_true] at h
      have := estimateSingleState_spec ev nq _ _ hc (liftConv_ok h)
      refine ⟨this.1, ?_⟩
      rw [this.2]
      simp only [specBatch, hb, List.map_map]
      apply List.map_congr_left
      intro i _
      simp [pairIdx]
    · simp only [hb, if_false] at h
      have := estimatePairs_spec ev nq _ hc (liftConv_ok h)
      refine ⟨this.1, ?_⟩
      rw [this.2]
      simp only [specBatch, pick, List.map_map]
      apply List.map_congr_left
      intro i _
      rfl

theorem coreConcurrentEstimate_spec {σ : Type} (ev : σ → Label → Int) (nq : σ → Nat) (dflt : σ)
    {c : Cache} (hc : Valid c) (ops : List Estimatable) (states : List σ) {c' : Cache} {rs : List Estimate}
    (h : coreConcurrentEstimate ev nq dflt c ops states = .ok (c', rs)) :
    Valid c' ∧ rs = specBatch ev dflt ops states := by
  unfold coreConcurrentEstimate at h
  cases hs : shapeOk ops.length states.length with
  | false =>
    obtain ⟨e, _, he⟩ := dispatch_error_of_not_shape hs
    rw [he] at h
    cases h
  | true =>
    rw [coreDispatch_ok_of_shape hs] at h
    have := estimatePairs_spec ev nq _ hc (liftConv_ok h)
    refine ⟨this.1, ?_⟩
    rw [this.2]
    simp only [specBatch, pick, List.map_map]
    apply List.map_congr_left
    intro i _
    rfl

/-! ## parametric circuits -/

theorem setParams_le (angles vals : List Int) (h : vals.length ≤ angles.length) :
    setParams angles vals = .ok (vals ++ angles.drop vals.length) := by
  induction vals generalizing angles with
  | nil => cases angles <;> simp [setParams]
  | cons v vs ih =>
    cases angles with
    | nil => simp at h
    | cons a as =>
      simp only [List.length_cons, Nat.add_le_add_iff_right] at h
      simp [setParams, ih as h]

theorem setParams_gt (angles vals : List Int) (h : angles.length < vals.length) :
    setParams angles vals = .error .indexError := by
  induction vals generalizing angles with
  | nil => simp at h
  | cons v vs ih =>
    cases angles with
    | nil => simp [setParams]
    | cons a as =>
      simp only [List.length_cons, Nat.add_lt_add_iff_right] at h
      simp [setParams, ih as h]

theorem setParams_exact (n : Nat) (vals : List Int) (h : vals.length = n) :
    setParams (List.replicate n 0) vals = .ok vals := by
  rw [setParams_le _ _ (by simp [h])]
  simp [h]

theorem parametric_eq_bound_aux (pc : PCirc) (p : List Int) (h : p.length = pc.paramCount) :
    parametricBackendAngles pc p = boundBackendAngles pc p := by
  cases pc with
  | unbound k =>
    simp only [PCirc.paramCount] at h
    simp [parametricBackendAngles, boundBackendAngles, qulacsMapper, bindAngles, PCirc.gateCount, h,
      setParams_exact k (p.map fun x => -x) (by simp [h])]
  | linear k outs =>
    simp only [PCirc.paramCount] at h
    have ht : p.take k = p := by rw [← h]; exact List.take_length
    have hn : outs.any (fun f => f.needs k p.length) = false := by
      rw [List.any_eq_false]
      intro f _
      have : (f.coefs.take k).drop p.length = [] := by
        apply List.drop_eq_nil_of_le
        rw [h, List.length_take]
        exact Nat.min_le_left _ _
      simp [Lin.needs, this]
    subst h
    simp only [parametricBackendAngles, boundBackendAngles, qulacsMapper, bindAngles, seqMapper, PCirc.gateCount, ht,
      ne_eq, not_true_eq_false, if_false]
    rw [hn]
    simp only [Bool.false_eq_true, if_false]
    exact setParams_exact outs.length _ (by simp)

theorem compiled_run_call (pc : PCirc) (ps : List (List Int)) :
    Compiled.run Compiled.call (compile pc) ps = ps.map (parametricBackendAngles pc) := by
  induction ps with
  | nil => rfl
  | cons p ps ih =>
    simp only [Compiled.run, List.map_cons]
    rw [show (Compiled.call (compile pc) p).1 = compile pc from rfl, ih]
    rfl

/-! ## sparse assembly -/

theorem GI.one_mul' (g : GI) : GI.mul GI.one g = g := by
  cases g
  simp [GI.mul, GI.one]

theorem pauliEntry_mod (p r c : Nat) : pauliEntry p (r % 2) (c % 2) = pauliEntry p r c := by
  simp [pauliEntry]

/-- `kron`-fold of further one-qubit factors onto `A` -/
def kfold (A : Mat) (qs : List Nat) : Mat := qs.foldl (fun acc q => kron acc (pauliMat q)) A

theorem kfold_snoc (A : Mat) (qs : List Nat) (q r c : Nat) :
    (kfold A (qs ++ [q])).ent r c = GI.mul ((kfold A qs).ent (r / 2) (c / 2)) (pauliEntry q r c) := by
  simp only [kfold, List.foldl_append, List.foldl_cons, List.foldl_nil, kron, pauliMat, pauliEntry_mod]

theorem kfold_dim (A : Mat) (qs : List Nat) : (kfold A qs).dim = A.dim * 2 ^ qs.length := by
  induction qs generalizing A with
  | nil => simp [kfold]
  | cons q qs ih =>
    have : kfold A (q :: qs) = kfold (kron A (pauliMat q)) qs := rfl
    rw [this, ih]
    simp [kron, pauliMat, Nat.pow_succ, Nat.mul_assoc, Nat.mul_comm 2]

/-- little-endian product of further factors below the entries of `A` -/
def leSpecA (A : Mat) : List Nat → Nat → Nat → GI
  | [], r, c => A.ent r c
  | p :: ps, r, c => GI.mul (leSpecA A ps (r / 2) (c / 2)) (pauliEntry p r c)

theorem kfold_reverse (A : Mat) (revs : List Nat) (r c : Nat) :
    (kfold A revs.reverse).ent r c = leSpecA A revs r c := by
  induction revs generalizing r c with
  | nil => rfl
  | cons x xs ih =>
    rw [List.reverse_cons, kfold_snoc, ih]
    rfl

theorem leSpecA_pauli (p : Nat) (revs : List Nat) (r c : Nat) :
    leSpecA (pauliMat p) revs r c = leSpec (revs ++ [p]) r c := by
  induction revs generalizing r c with
  | nil => simp [leSpecA, leSpec, pauliMat, GI.one_mul']
  | cons x xs ih => simp [leSpecA, leSpec, ih]

theorem reduceKron_spec {L : List Nat} {m : Mat} (h : reduceKron L = some m) :
    m.dim = 2 ^ L.length ∧ ∀ r c, m.ent r c = leSpec L.reverse r c := by
  cases L with
  | nil => simp [reduceKron] at h
  | cons p ps =>
    simp only [reduceKron, Option.some.injEq] at h
    subst h
    constructor
    · have := kfold_dim (pauliMat p) ps
      simp only [kfold] at this
      rw [this]
      simp [pauliMat, Nat.pow_succ, Nat.mul_comm]
    · intro r c
      have := kfold_reverse (pauliMat p) ps.reverse r c
      simp only [List.reverse_reverse, kfold] at this
      rw [this, leSpecA_pauli, List.reverse_cons]

/-- distinct qubit indices -/
def nodupKeys : Label → Bool
  | [] => true
  | x :: t => !(t.any (fun y => y.1 == x.1)) && nodupKeys t

/-- a well-formed label on n qubits -/
def wfLabel (l : Label) (n : Nat) : Bool := nodupKeys l && labelInRange n l

/-- first value stored for qubit q, else d -/
def getOr : Label → Nat → Nat → Nat
  | [], _, d => d
  | (b, p) :: t, q, d => if b = q then p else getOr t q d

theorem Label.get_eq_getOr (l : Label) (q : Nat) : Label.get l q = getOr l q 0 := by
  induction l with
  | nil => rfl
  | cons x t ih =>
    obtain ⟨b, p⟩ := x
    simp [Label.get, getOr, ih]

theorem getOr_absent (t : Label) (b d : Nat) (h : t.any (fun y => y.1 == b) = false) : getOr t b d = d := by
  induction t with
  | nil => rfl
  | cons x t ih =>
    obtain ⟨b', p'⟩ := x
    simp only [List.any_cons, Bool.or_eq_false_iff, beq_eq_false_iff_ne, ne_eq] at h
    simp [getOr, h.1, ih h.2]

theorem length_setFold (l : Label) (n : Nat) (init : List Nat) :
    (l.foldl (fun acc x => acc.set (n - x.1 - 1) x.2) init).length = init.length := by
  induction l generalizing init with
  | nil => rfl
  | cons x t ih => simp [List.foldl_cons, ih]

theorem setFold_get (l : Label) (n : Nat) (init : List Nat) (hlen : init.length = n) (hw : wfLabel l n = true)
    (j : Nat) (hj : j < n) (d : Nat) (hd : init[j]? = some d) :
    (l.foldl (fun acc x => acc.set (n - x.1 - 1) x.2) init)[j]? = some (getOr l (n - 1 - j) d) := by
  induction l generalizing init d with
  | nil => simpa [getOr] using hd
  | cons x t ih =>
    obtain ⟨b, p⟩ := x
    simp only [wfLabel, nodupKeys, labelInRange, List.all_cons, Bool.and_eq_true, Bool.not_eq_true',
      decide_eq_true_eq] at hw
    obtain ⟨⟨hnot, hnd⟩, hb, hall⟩ := hw
    have hwt : wfLabel t n = true := by simp [wfLabel, hnd, labelInRange, hall]
    simp only [List.foldl_cons]
    by_cases hq : b = n - 1 - j
    · have hjj : n - b - 1 = j := by omega
      have hd' : (init.set (n - b - 1) p)[j]? = some p := by
        rw [hjj, List.getElem?_set_self (by omega)]
      rw [ih (init.set (n - b - 1) p) (by simp [hlen]) hwt p hd']
      simp only [getOr, hq, if_true]
      rw [getOr_absent t (n - 1 - j) p (by rw [← hq]; exact hnot)]
    · have hjj : n - b - 1 ≠ j := by omega
      have hd' : (init.set (n - b - 1) p)[j]? = some d := by
        rw [List.getElem?_set_ne hjj]; exact hd
      rw [ih (init.set (n - b - 1) p) (by simp [hlen]) hwt d hd']
      simp [getOr, hq]

theorem singlePauliList_reverse (l : Label) (n : Nat) (hw : wfLabel l n = true) :
    (singlePauliList l n).reverse = dense l n := by
  apply List.ext_getElem?
  intro i
  by_cases hi : i < n
  · have hlen : (singlePauliList l n).length = n := by simp [singlePauliList, length_setFold]
    rw [List.getElem?_reverse (by omega), hlen]
    have hj : n - 1 - i < n := by omega
    have := setFold_get l n (List.replicate n 0) (by simp) hw (n - 1 - i) hj 0
      (by simp [hj])
    simp only [singlePauliList]
    rw [this]
    have : n - 1 - (n - 1 - i) = i := by omega
    simp [dense, hi, Label.get_eq_getOr, this]
  · have hlen : (singlePauliList l n).reverse.length = n := by simp [singlePauliList, length_setFold]
    rw [List.getElem?_eq_none (by omega), List.getElem?_eq_none (by simp [dense]; omega)]

theorem maxIndex_lt_of_inRange (l : Label) (n : Nat) (hn : 0 < n) (h : labelInRange n l = true) : maxIndex l < n := by
  have : ∀ (m : Nat), m < n → l.foldl (fun m x => max m x.1) m < n := by
    induction l with
    | nil => intro m hm; simpa using hm
    | cons x t ih =>
      intro m hm
      simp only [labelInRange, List.all_cons, Bool.and_eq_true, decide_eq_true_eq] at h
      simp only [List.foldl_cons]
      apply ih
      · simpa [labelInRange] using h.2
      · omega
  exact this 0 hn

theorem labelMatrix_some_ok (l : Label) (n : Nat) (hn : 0 < n) (hw : wfLabel l n = true) :
    ∃ m, labelMatrix l (some n) = .ok m ∧ m.dim = 2 ^ n ∧ ∀ r c, m.ent r c = leSpec (dense l n) r c := by
  have hr : labelInRange n l = true := by
    simp only [wfLabel, Bool.and_eq_true] at hw; exact hw.2
  have hmx := maxIndex_lt_of_inRange l n hn hr
  have hlen : (singlePauliList l n).length = n := by simp [singlePauliList, length_setFold]
  cases hk : reduceKron (singlePauliList l n) with
  | none =>
    cases hs : singlePauliList l n with
    | nil => rw [hs] at hlen; simp at hlen; omega
    | cons a b => rw [hs] at hk; simp [reduceKron] at hk
  | some m =>
    refine ⟨m, ?_, ?_, ?_⟩
    · unfold labelMatrix
      have hguard : (!l.isEmpty && decide (n < maxIndex l + 1)) = false := by
        have : ¬ n < maxIndex l + 1 := by omega
        simp [this]
      cases l with
      | nil => simp [hk]
      | cons x t => simp only [Option.getD]; simp only [hguard]; simp [hk]
    · rw [(reduceKron_spec hk).1, hlen]
    · intro r c
      rw [(reduceKron_spec hk).2, singlePauliList_reverse l n hw]

/-! ## stim dense indices -/

theorem stimFold_get (l : Label) (n : Nat) (init : List Nat) (hlen : init.length = n) (hw : wfLabel l n = true)
    (j : Nat) (_hj : j < n) (d : Nat) (hd : init[j]? = some d) :
    (l.foldl (fun acc x => acc.set x.1 x.2) init)[j]? = some (getOr l j d) := by
  induction l generalizing init d with
  | nil => simpa [getOr] using hd
  | cons x t ih =>
    obtain ⟨b, p⟩ := x
    simp only [wfLabel, nodupKeys, labelInRange, List.all_cons, Bool.and_eq_true, Bool.not_eq_true',
      decide_eq_true_eq] at hw
    obtain ⟨⟨hnot, hnd⟩, hb, hall⟩ := hw
    have hwt : wfLabel t n = true := by simp [wfLabel, hnd, labelInRange, hall]
    simp only [List.foldl_cons]
    by_cases hq : b = j
    · have hd' : (init.set b p)[j]? = some p := by
        rw [hq, List.getElem?_set_self (by omega)]
      rw [ih (init.set b p) (by simp [hlen]) hwt p hd']
      simp only [getOr, hq, if_true]
      rw [getOr_absent t j p (by rw [← hq]; exact hnot)]
    · have hd' : (init.set b p)[j]? = some d := by
        rw [List.getElem?_set_ne hq]; exact hd
      rw [ih (init.set b p) (by simp [hlen]) hwt d hd']
      simp [getOr, hq]

theorem length_stimFold (l : Label) (init : List Nat) :
    (l.foldl (fun acc x => acc.set x.1 x.2) init).length = init.length := by
  induction l generalizing init with
  | nil => rfl
  | cons x t ih => simp [List.foldl_cons, ih]

theorem stimIndices_spec (l : Label) (n : Nat) (hw : wfLabel l n = true) :
    stimIndices l n = some ((dense l n).take (maxIndex l + 1)) := by
  have hr : labelInRange n l = true := by
    simp only [wfLabel, Bool.and_eq_true] at hw; exact hw.2
  simp only [stimIndices, hr, if_true, maxIndex]
  congr 2
  apply List.ext_getElem?
  intro i
  by_cases hi : i < n
  · rw [stimFold_get l n (List.replicate n 0) (by simp) hw i hi 0 (by simp [hi])]
    simp [dense, hi, Label.get_eq_getOr]
  · rw [List.getElem?_eq_none (by simp [length_stimFold]; omega),
      List.getElem?_eq_none (by simp [dense]; omega)]

/-! ## the Pauli table is never changed by a history -/

theorem labelFactor_init (l : Label) : labelFactor SparseTable.init l = 1 := by
  have : ∀ k : Int, l.foldl (fun k x => k * SparseTable.init.factor x.2) k = k := by
    induction l with
    | nil => intro k; rfl
    | cons x t ih =>
      intro k
      simp only [List.foldl_cons]
      rw [ih]
      have : SparseTable.init.factor x.2 = 1 := by
        unfold SparseTable.factor SparseTable.init
        split <;> rfl
      rw [this, Int.mul_one]
  exact this 1

theorem handleFactor_getLabel_init (l : Label) (n : Nat) :
    handleFactor (getLabel SparseTable.init l n) = 1 := by
  simp [getLabel, handleFactor, labelFactor_init]

theorem table_step (s : SparseSession) (o : SparseOp) : (s.step o).table = s.table := by
  cases o with
  | get l n => rfl
  | scale i k =>
    simp only [SparseSession.step]
    cases hh : s.handles[i]? with
    | none => rfl
    | some hd => cases hd with | fresh k0 l n => rfl

theorem table_run (s : SparseSession) (ops : List SparseOp) : (s.run ops).table = s.table := by
  induction ops generalizing s with
  | nil => rfl
  | cons o rest ih =>
    simp only [SparseSession.run, List.foldl_cons]
    have e := ih (s.step o)
    simp only [SparseSession.run] at e
    rw [e, table_step]

/-- an in-place operation on one result leaves every other result as it was -/
theorem scale_other_handle (s : SparseSession) (i j : Nat) (k : Int) (hij : i ≠ j) :
    (s.step (.scale i k)).handles[j]? = s.handles[j]? := by
  simp only [SparseSession.step]
  cases hh : s.handles[i]? with
  | none => rfl
  | some hd =>
    cases hd with
    | fresh k0 l n => simp [List.getElem?_set_ne hij]

/-! ## the sorted item list is a canonical form (equal content ⇒ equal key) -/

theorem lexLe_total (a b : List Int) : lexLe a b = true ∨ lexLe b a = true := by
  induction a generalizing b with
  | nil => left; simp [lexLe]
  | cons x xs ih =>
    cases b with
    | nil => right; simp [lexLe]
    | cons y ys =>
      simp only [lexLe]
      by_cases h1 : x < y
      · left; simp [h1]
      · by_cases h2 : y < x
        · right; simp [h2]
        · simp only [h1, h2, if_false]
          exact ih ys

theorem lexLe_antisymm (a b : List Int) (h1 : lexLe a b = true) (h2 : lexLe b a = true) : a = b := by
  induction a generalizing b with
  | nil =>
    cases b with
    | nil => rfl
    | cons y ys => simp [lexLe] at h2
  | cons x xs ih =>
    cases b with
    | nil => simp [lexLe] at h1
    | cons y ys =>
      simp only [lexLe] at h1 h2
      by_cases hxy : x < y
      · have : ¬ y < x := by omega
        simp [hxy, this] at h2
      · by_cases hyx : y < x
        · simp [hxy, hyx] at h1
        · simp only [hxy, hyx, if_false] at h1 h2
          have : x = y := by omega
          rw [this, ih ys h1 h2]

theorem lexLe_trans (a b c : List Int) (h1 : lexLe a b = true) (h2 : lexLe b c = true) : lexLe a c = true := by
  induction a generalizing b c with
  | nil => simp [lexLe]
  | cons x xs ih =>
    cases b with
    | nil => simp [lexLe] at h1
    | cons y ys =>
      cases c with
      | nil => simp [lexLe] at h2
      | cons z zs =>
        simp only [lexLe] at h1 h2 ⊢
        by_cases hxy : x < y
        · by_cases hyz : y < z
          · have : x < z := by omega
            simp [this]
          · by_cases hzy : z < y
            · simp [hyz, hzy] at h2
            · have : x < z := by omega
              simp [this]
        · by_cases hyx : y < x
          · simp [hxy, hyx] at h1
          · simp only [hxy, hyx, if_false] at h1
            have hxe : x = y := by omega
            subst hxe
            by_cases hyz : x < z
            · simp [hyz]
            · by_cases hzy : z < x
              · simp [hyz, hzy] at h2
              · simp only [hyz, hzy, if_false] at h2 ⊢
                exact ih ys zs h1 h2

theorem flat_inj (l₁ l₂ : Label)
    (h : l₁.flatMap (fun x => [(x.1 : Int), (x.2 : Int)]) = l₂.flatMap (fun x => [(x.1 : Int), (x.2 : Int)])) :
    l₁ = l₂ := by
  induction l₁ generalizing l₂ with
  | nil =>
    cases l₂ with
    | nil => rfl
    | cons y ys => simp at h
  | cons x xs ih =>
    cases l₂ with
    | nil => simp at h
    | cons y ys =>
      simp only [List.flatMap_cons, List.cons_append, List.nil_append, List.cons.injEq] at h
      obtain ⟨h1, h2, h3⟩ := h
      have e1 : x.1 = y.1 := by omega
      have e2 : x.2 = y.2 := by omega
      rw [ih ys h3]
      congr 1
      exact Prod.ext e1 e2

theorem encodeTerm_inj (a b : Term) (h : encodeTerm a = encodeTerm b) : a = b := by
  obtain ⟨la, ca⟩ := a
  obtain ⟨lb, cb⟩ := b
  simp only [encodeTerm, List.cons.injEq] at h
  obtain ⟨h1, h2, _, h4⟩ := h
  have := flat_inj la lb h4
  subst this
  cases ca; cases cb
  simp only at h1 h2
  subst h1; subst h2
  rfl

theorem termLe_total (a b : Term) : termLe a b = true ∨ termLe b a = true := lexLe_total _ _
theorem termLe_antisymm (a b : Term) (h1 : termLe a b = true) (h2 : termLe b a = true) : a = b :=
  encodeTerm_inj a b (lexLe_antisymm _ _ h1 h2)
theorem termLe_trans (a b c : Term) (h1 : termLe a b = true) (h2 : termLe b c = true) : termLe a c = true :=
  lexLe_trans _ _ _ h1 h2

def Sorted (l : List Term) : Prop := l.Pairwise (fun a b => termLe a b = true)

theorem mem_insertSorted (t x : Term) (l : List Term) : x ∈ insertSorted t l ↔ x = t ∨ x ∈ l := by
  induction l with
  | nil => simp [insertSorted]
  | cons y ys ih =>
    unfold insertSorted
    split
    · simp
    · simp only [List.mem_cons, ih]
      constructor
      · rintro (h | h | h)
        · exact Or.inr (Or.inl h)
        · exact Or.inl h
        · exact Or.inr (Or.inr h)
      · rintro (h | h | h)
        · exact Or.inr (Or.inl h)
        · exact Or.inl h
        · exact Or.inr (Or.inr h)

theorem sorted_insertSorted (t : Term) (l : List Term) (h : Sorted l) : Sorted (insertSorted t l) := by
  induction l with
  | nil => simp [insertSorted, Sorted]
  | cons y ys ih =>
    unfold insertSorted
    have hy := List.pairwise_cons.mp h
    split
    · rename_i hle
      apply List.pairwise_cons.mpr
      refine ⟨?_, h⟩
      intro z hz
      rcases List.mem_cons.mp hz with rfl | hz
      · exact hle
      · exact termLe_trans _ _ _ hle (hy.1 z hz)
    · rename_i hle
      have hyt : termLe y t = true := by
        rcases termLe_total t y with h1 | h1
        · exact absurd h1 hle
        · exact h1
      apply List.pairwise_cons.mpr
      refine ⟨?_, ih hy.2⟩
      intro z hz
      rcases (mem_insertSorted t z ys).mp hz with rfl | hz
      · exact hyt
      · exact hy.1 z hz

theorem sorted_isort (l : List Term) : Sorted (isort l) := by
  induction l with
  | nil => simp [isort, Sorted]
  | cons x xs ih => exact sorted_insertSorted x _ ih

theorem sorted_perm_eq {l₁ l₂ : List Term} (h₁ : Sorted l₁) (h₂ : Sorted l₂) (hp : l₁.Perm l₂) : l₁ = l₂ := by
  induction l₁ generalizing l₂ with
  | nil => exact (List.Perm.nil_eq hp)
  | cons a t₁ ih =>
    cases l₂ with
    | nil => exact absurd hp.symm (by simp)
    | cons b t₂ =>
      have ha := List.pairwise_cons.mp h₁
      have hb := List.pairwise_cons.mp h₂
      have hab : a = b := by
        have hain : a ∈ b :: t₂ := hp.subset (List.mem_cons_self)
        have hbin : b ∈ a :: t₁ := hp.symm.subset (List.mem_cons_self)
        rcases List.mem_cons.mp hain with h | h
        · exact h
        · rcases List.mem_cons.mp hbin with h' | h'
          · exact h'.symm
          · exact termLe_antisymm a b (ha.1 b h') (hb.1 a h)
      subst hab
      rw [ih ha.2 hb.2 (List.Perm.cons_inv hp)]

theorem isort_eq_of_perm {a b : List Term} (h : a.Perm b) : isort a = isort b :=
  sorted_perm_eq (sorted_isort a) (sorted_isort b) (((isort_perm a).trans h).trans (isort_perm b).symm)

end QV.C04
