import QuriVerif.Proof.PassSound
/-
  Soundness of the remaining passes of `Model/C01.lean` and of pipelines (`runPass` / `runSeq`),
  generic field part.

    * §1  a table-independent, decidable circuit invariant `CInv n c` (distinct wires `< n`, every gate
          has the arity of its kind, no literal matrices) and the relation `OpEqv` (operator equal up
          to a non-zero scalar on the `2^n` block);
    * §2  `decompPass` under `CInv` (uses `Proof/PassSound`), with preservation of `CInv`;
    * §3  `idElimPass`, `idInsertPass`;
    * §4  `normalizePass`;
    * §5  composition: `runPass` / `runSeq`.
-/
namespace QV.C01

/-- arity (controls, targets, params) of the kinds with a fixed shape -/
def kindArity : Kind → Option (Nat × Nat × Nat)
  | .Identity | .X | .Y | .Z | .H | .S | .Sdag | .SqrtX | .SqrtXdag | .SqrtY | .SqrtYdag
  | .T | .Tdag => some (0, 1, 0)
  | .RX | .RY | .RZ | .U1 | .Phase => some (0, 1, 1)
  | .U2 | .U1q => some (0, 1, 2)
  | .U3 => some (0, 1, 3)
  | .CNOT | .CZ => some (1, 1, 0)
  | .SWAP | .ZZ => some (0, 2, 0)
  | .RZZ | .XX => some (0, 2, 1)
  | .TOFFOLI => some (2, 1, 0)
  | _ => none

/-- the gate has the shape its kind requires.  `UnitaryMatrix` is excluded (numeric gates cannot carry
    a matrix); kinds without a modelled matrix (`Measurement`, IonQ natives, `Parametric*`) are
    unconstrained.  A `PauliRotation` carries one id in `{1,2,3}` per target (as the factory builds it;
    `PauliRotationDecomposeTranspiler` treats every other id like `Z`). -/
def arityOK (k : Kind) (nc nt np : Nat) (paulis : List Nat) : Bool :=
  match kindArity k with
  | some a => a == (nc, nt, np) && paulis.isEmpty
  | none =>
    match k with
    | .Pauli => nc == 0 && np == 0 && paulis.length == nt
    | .PauliRotation => nc == 0 && np == 1 && paulis.length == nt &&
        paulis.all fun p => p == 1 || p == 2 || p == 3
    | .UnitaryMatrix => false
    | _ => true

/-- invariant of one numeric gate on an `n`-qubit register -/
def gInv (n : Nat) (g : NGate) : Bool :=
  decide ((g.controls ++ g.targets).Nodup) && (g.controls ++ g.targets).all (· < n) &&
  arityOK g.kind g.controls.length g.targets.length g.params.length g.paulis

/-- **circuit invariant** maintained by every pass (decidable) -/
def CInv (n : Nat) (c : List NGate) : Prop := c.all (gInv n) = true

instance (n : Nat) (c : List NGate) : Decidable (CInv n c) := by unfold CInv; infer_instance

/-- table entry respects the arities: the key has a fixed arity which the target has, and every body
    gate has the arity of its kind -/
def tableArityOK (e : String × Kind × Template) : Bool :=
  kindArity e.2.1 == some (e.2.2.target.controls.length, e.2.2.target.targets.length,
    e.2.2.target.params.length) && e.2.2.target.paulis.isEmpty &&
  e.2.2.body.all fun b => arityOK b.kind b.controls.length b.targets.length b.params.length b.paulis

end QV.C01

namespace QV.MatSound
open QV QV.Poly QV.C01

variable {K : Type} [Field K] {ζ : K} {ρ : ℕ → K}

/-! ## 1. invariant and operator equivalence -/

theorem arityOK_notU {k : Kind} {nc nt np : ℕ} {ps : List ℕ} (h : arityOK k nc nt np ps = true) :
    k ≠ .UnitaryMatrix := by
  intro e; subst e; simp [arityOK, kindArity] at h

theorem gInv_iff {n : ℕ} {g : NGate} : gInv n g = true ↔
    (g.controls ++ g.targets).Nodup ∧ (∀ w ∈ g.controls ++ g.targets, w < n) ∧
    arityOK g.kind g.controls.length g.targets.length g.params.length g.paulis = true := by
  simp only [gInv, Bool.and_eq_true, decide_eq_true_eq, List.all_eq_true, and_assoc]

theorem CInv_iff {n : ℕ} {c : List NGate} : CInv n c ↔ ∀ g ∈ c, gInv n g = true := by
  simp [CInv, List.all_eq_true]

theorem CInv_wf {n : ℕ} {c : List NGate} (h : CInv n c) : WellFormed n (c.map NGate.toGate) := by
  intro g' hg'
  obtain ⟨g, hg, rfl⟩ := List.mem_map.mp hg'
  have := gInv_iff.mp (CInv_iff.mp h g hg)
  exact ⟨this.1, this.2.1⟩

theorem CInv_append {n : ℕ} {a b : List NGate} : CInv n (a ++ b) ↔ CInv n a ∧ CInv n b := by
  simp [CInv, List.all_append]

theorem CInv_flatMap {n : ℕ} {c : List NGate} (d : NGate → List NGate)
    (h : ∀ g ∈ c, CInv n (d g)) : CInv n (c.flatMap d) := by
  rw [CInv_iff]
  intro g' hg'
  obtain ⟨g, hg, hm⟩ := List.mem_flatMap.mp hg'
  exact CInv_iff.mp (h g hg) g' hm

variable (ζ ρ) in
/-- the operator of `c'` is a non-zero multiple of the operator of `c` on the `2^n` block -/
def OpEqv (n : ℕ) (c c' : List NGate) : Prop :=
  ∃ z : K, z ≠ 0 ∧ ∀ r, r < 2 ^ n → ∀ j, j < 2 ^ n →
    semCirc ζ ρ (c'.map NGate.toGate) r j = z * semCirc ζ ρ (c.map NGate.toGate) r j

theorem OpEqv.refl (n : ℕ) (c : List NGate) : OpEqv ζ ρ n c c :=
  ⟨1, one_ne_zero, fun _ _ _ _ => (one_mul _).symm⟩

theorem OpEqv.trans {n : ℕ} {a b c : List NGate} (h1 : OpEqv ζ ρ n a b) (h2 : OpEqv ζ ρ n b c) :
    OpEqv ζ ρ n a c := by
  obtain ⟨z1, hz1, e1⟩ := h1
  obtain ⟨z2, hz2, e2⟩ := h2
  exact ⟨z2 * z1, mul_ne_zero hz2 hz1, fun r hr j hj => by rw [e2 r hr j hj, e1 r hr j hj, mul_assoc]⟩

/-- gate-wise rewriting of numeric circuits: the common shape of most passes -/
theorem OpEqv.flatMap (n : ℕ) (c : List NGate) (d : NGate → List NGate) (hc : CInv n c)
    (hd : ∀ g ∈ c, CInv n (d g) ∧ OpEqv ζ ρ n [g] (d g)) : OpEqv ζ ρ n c (c.flatMap d) := by
  obtain ⟨z, hz, hs⟩ := flatMap_scalar_gen (ζ := ζ) (ρ := ρ) n (fun g => [NGate.toGate g])
    (fun g => (d g).map NGate.toGate) c
    (fun g hg => CInv_wf (CInv_iff.mpr (by simpa using CInv_iff.mp hc g hg) : CInv n [g]))
    (fun g hg => CInv_wf (hd g hg).1)
    (fun g hg => by
      obtain ⟨z, hz, h⟩ := (hd g hg).2
      exact ⟨z, hz, fun r hr k hk => by simpa using h r hr k hk⟩)
  refine ⟨z, hz, fun r hr j _ => ?_⟩
  rw [List.map_flatMap, List.map_eq_flatMap (l := c)]
  exact hs r hr j

theorem CInv_singleton {n : ℕ} {g : NGate} : CInv n [g] ↔ gInv n g = true := by
  simp [CInv]

theorem OpEqv.of_singleton {n : ℕ} {g : NGate} {out : List NGate} (z : K) (hz : z ≠ 0)
    (h : ∀ r, r < 2 ^ n → ∀ k, k < 2 ^ n →
      semCirc ζ ρ (out.map NGate.toGate) r k = z * semCirc ζ ρ [NGate.toGate g] r k) :
    OpEqv ζ ρ n [g] out :=
  ⟨z, hz, fun r hr k hk => by simpa using h r hr k hk⟩

/-! ## 2. `decompPass` under the invariant -/

variable (ζ ρ) in
/-- what is needed from the table of decomposition templates -/
structure TableOK (tbl : Table) : Prop where
  sound : ∀ e ∈ tbl, EntrySound ζ ρ e
  arity : ∀ e ∈ tbl, tableArityOK e = true

theorem shapeOK_of_inv {n : ℕ} (e : String × Kind × Template) (ha : tableArityOK e = true)
    (g : NGate) (hg : gInv n g = true) (hk : e.2.1 = g.kind) : shapeOK e.2.2 g = true := by
  simp only [tableArityOK, Bool.and_eq_true, beq_iff_eq, List.isEmpty_iff] at ha
  obtain ⟨⟨h1, h2⟩, _⟩ := ha
  have h3 := (gInv_iff.mp hg).2.2
  unfold arityOK at h3
  rw [← hk, h1] at h3
  simp only [Bool.and_eq_true, beq_iff_eq, List.isEmpty_iff, Prod.mk.injEq] at h3
  obtain ⟨⟨a, b, c⟩, d⟩ := h3
  simp [shapeOK, a, b, c, d, h2]

theorem instantiate_inv {n : ℕ} (e : String × Kind × Template) (ha : tableArityOK e = true)
    (g : NGate) (wf : WellFormed n ((instantiate e.2.2 g).map NGate.toGate)) :
    CInv n (instantiate e.2.2 g) := by
  rw [CInv_iff]
  intro g' hg'
  have hw := wf (NGate.toGate g') (List.mem_map.mpr ⟨g', hg', rfl⟩)
  unfold instantiate at hg'
  obtain ⟨b, hb, rfl⟩ := List.mem_map.mp hg'
  simp only [tableArityOK, Bool.and_eq_true, List.all_eq_true] at ha
  have hb' := ha.2 b hb
  rw [gInv_iff]
  refine ⟨hw.1, hw.2, ?_⟩
  simpa using hb'

/-- `decompPass` preserves the invariant and the operator (up to a non-zero scalar) -/
theorem decompPass_ok (hζ : ζ ^ 8 = -1) (hρ : ∀ j, ρ j ≠ 0) (h16 : ρ 0 ^ 16 = ζ)
    (tbl : Table) (T : TableOK ζ ρ tbl) (names : List String) (n : ℕ) (c : List NGate)
    (hc : CInv n c) :
    CInv n (decompPass tbl names c) ∧ OpEqv ζ ρ n c (decompPass tbl names c) := by
  have key : ∀ g ∈ c, CInv n (match lookupKind tbl names g.kind with
        | some t => instantiate t g | none => [g]) ∧
      OpEqv ζ ρ n [g] (match lookupKind tbl names g.kind with
        | some t => instantiate t g | none => [g]) := by
    intro g hg
    have hgi := CInv_iff.mp hc g hg
    cases hl : lookupKind tbl names g.kind with
    | none => exact ⟨CInv_singleton.mpr hgi, OpEqv.refl n [g]⟩
    | some t =>
      obtain ⟨e, he, hk, rfl⟩ := lookupKind_some hl
      obtain ⟨hnd, hlt, har⟩ := gInv_iff.mp hgi
      obtain ⟨wf, z, hz, hs⟩ := instantiate_scalar hζ hρ h16 e (T.sound e he) n g hnd hlt
        (arityOK_notU har) hk (shapeOK_of_inv e (T.arity e he) g hgi hk)
      exact ⟨instantiate_inv e (T.arity e he) g wf, OpEqv.of_singleton z hz hs⟩
  exact ⟨CInv_flatMap _ (fun g hg => (key g hg).1), OpEqv.flatMap n c _ hc key⟩

/-! ## 3. identity gates: `idElimPass`, `idInsertPass` -/

/-- putting the bits back: the row selected by the local index of `r` is `r` itself -/
theorem restore_row (n : ℕ) (ws : List ℕ) (r : ℕ) (hnd : ws.Nodup) (hw : ∀ w ∈ ws, w < n)
    (hr : r < 2 ^ n) : Gate.clearBits ws r + Gate.spread ws (Gate.locIdx ws r) = r := by
  obtain ⟨h1, h2, h3⟩ := place_spec n ws r (Gate.locIdx ws r) hnd hw hr
  apply bitAt_ext n _ _ h1 hr
  intro v _
  by_cases hv : v ∈ ws
  · obtain ⟨i, hi, rfl⟩ := exists_getD_of_mem ws hv
    rw [h2 i hi, bitAt_locIdx, if_pos hi]
  · exact h3 v hv

/-- a local matrix that is the identity on its `2^|ws|` block acts trivially -/
theorem embedAct_idMat (n : ℕ) (L : ℕ → ℕ → K) (ws : List ℕ) (A : ℕ → ℕ → K) (r j : ℕ)
    (hnd : ws.Nodup) (hw : ∀ w ∈ ws, w < n) (hr : r < 2 ^ n)
    (hL : ∀ a b, a < 2 ^ ws.length → b < 2 ^ ws.length → L a b = idMat a b) :
    embedAct L ws A r j = A r j := by
  unfold embedAct
  have hli := locIdx_lt ws r
  rw [List.map_congr_left (g := fun l => (idMat (Gate.locIdx ws r) l : K)
      * A (Gate.clearBits ws r + Gate.spread ws l) j)
    (fun l hl => by rw [hL _ _ hli (List.mem_range.mp hl)])]
  rw [sum_range_ite _ _ hli (fun l => A (Gate.clearBits ws r + Gate.spread ws l) j),
    restore_row n ws r hnd hw hr]

variable (ζ ρ) in
/-- a gate acting as the identity on an `n`-qubit register -/
def IsIdGate (n : ℕ) (g : Gate) : Prop :=
  g.wires.Nodup ∧ (∀ w ∈ g.wires, w < n) ∧
  ∀ a b, a < 2 ^ g.wires.length → b < 2 ^ g.wires.length → evalMat ζ ρ g.localMat.m a b = idMat a b

theorem actCirc_idGates (n : ℕ) (gs : List Gate) (h : ∀ g ∈ gs, IsIdGate ζ ρ n g) (j : ℕ) :
    ∀ (A : ℕ → ℕ → K) (r : ℕ), r < 2 ^ n → actCirc ζ ρ gs A r j = A r j := by
  induction gs with
  | nil => intro A r _; rfl
  | cons g gs ih =>
    intro A r hr
    obtain ⟨h1, h2, h3⟩ := h g (by simp)
    rw [actCirc_cons, ih (fun g' hg' => h g' (by simp [hg'])) _ r hr]
    exact embedAct_idMat n _ _ A r j h1 h2 hr h3

theorem identity_isIdGate (n : ℕ) (g : NGate) (hg : gInv n g = true) (hk : g.kind = .Identity) :
    IsIdGate ζ ρ n (NGate.toGate g) := by
  obtain ⟨hnd, hlt, har⟩ := gInv_iff.mp hg
  refine ⟨hnd, hlt, ?_⟩
  have hlen : (NGate.toGate g).wires.length = 1 := by
    rw [hk] at har
    simp only [arityOK, kindArity, Bool.and_eq_true, beq_iff_eq, Prod.mk.injEq] at har
    show (g.controls ++ g.targets).length = 1
    rw [List.length_append]; omega
  rw [hlen]
  intro a b ha hb
  have e : (NGate.toGate g).localMat.m = [[Poly.one, []], [[], Poly.one]] := by
    unfold Gate.localMat; simp only [NGate.toGate, hk]
  rw [e]
  have ha' : a = 0 ∨ a = 1 := by omega
  have hb' : b = 0 ∨ b = 1 := by omega
  rcases ha' with rfl | rfl <;> rcases hb' with rfl | rfl <;>
    simp [evalMat, evalRow, eval_one, eval_nil, idMat]

theorem filter_eq_flatMap {α : Type} (p : α → Bool) (l : List α) :
    l.filter p = l.flatMap fun x => if p x then [x] else [] := by
  induction l with
  | nil => rfl
  | cons a l ih => by_cases h : p a <;> simp [h, ih]

theorem CInv_nil (n : ℕ) : CInv n [] := by simp [CInv]

/-- `IdentityEliminationTranspiler` -/
theorem idElimPass_ok (n : ℕ) (c : List NGate) (hc : CInv n c) :
    CInv n (idElimPass c) ∧ OpEqv ζ ρ n c (idElimPass c) := by
  unfold idElimPass
  rw [filter_eq_flatMap]
  have key : ∀ g ∈ c, CInv n (if (g.kind != Kind.Identity) = true then [g] else []) ∧
      OpEqv ζ ρ n [g] (if (g.kind != Kind.Identity) = true then [g] else []) := by
    intro g hg
    have hgi := CInv_iff.mp hc g hg
    by_cases hk : g.kind = .Identity
    · have : (g.kind != Kind.Identity) = false := by simp [hk]
      rw [this]
      refine ⟨CInv_nil n, 1, one_ne_zero, fun r hr k _ => ?_⟩
      obtain ⟨h1, h2, h3⟩ := identity_isIdGate (ζ := ζ) (ρ := ρ) n g hgi hk
      rw [one_mul]
      show semCirc ζ ρ [] r k = embedAct _ _ idMat r k
      rw [embedAct_idMat n _ _ _ r k h1 h2 hr h3]
      rfl
    · have : (g.kind != Kind.Identity) = true := by simp [hk]
      rw [this]
      exact ⟨CInv_singleton.mpr hgi, OpEqv.refl n [g]⟩
  exact ⟨CInv_flatMap _ (fun g hg => (key g hg).1), OpEqv.flatMap n c _ hc key⟩

/-- `IdentityInsertionTranspiler` on `m ≤ n` qubits -/
theorem idInsertPass_ok (n m : ℕ) (hm : m ≤ n) (c : List NGate) (hc : CInv n c) :
    CInv n (idInsertPass m c) ∧ OpEqv ζ ρ n c (idInsertPass m c) := by
  unfold idInsertPass
  simp only []
  split
  · exact ⟨hc, OpEqv.refl n c⟩
  · rename_i hne
    have hids : ∀ g ∈ List.map (fun q => ({ kind := .Identity, targets := [q] } : NGate))
        (List.filter (fun q => !(c.flatMap fun g => g.controls ++ g.targets).contains q)
          (List.range m)), gInv n g = true ∧ g.kind = .Identity := by
      intro g hg
      obtain ⟨q, hq, rfl⟩ := List.mem_map.mp hg
      have hq' : q < m := List.mem_range.mp (List.mem_filter.mp hq).1
      refine ⟨?_, rfl⟩
      rw [gInv_iff]
      refine ⟨by simp, by intro w hw; simp at hw; omega, by simp [arityOK, kindArity]⟩
    refine ⟨CInv_append.mpr ⟨hc, CInv_iff.mpr (fun g hg => (hids g hg).1)⟩, 1, one_ne_zero, ?_⟩
    intro r hr j _
    rw [List.map_append, semCirc_append, one_mul]
    apply actCirc_idGates n _ _ j _ r hr
    intro g' hg'
    obtain ⟨g, hg, rfl⟩ := List.mem_map.mp hg'
    exact identity_isIdGate n g (hids g hg).1 (hids g hg).2

/-! ## 4. `normalizePass`: `R(θ + 2π·m) = (−1)^m R(θ)` -/

theorem embedAct_smul_left (L : ℕ → ℕ → K) (ws : List ℕ) (s : K) (A : ℕ → ℕ → K) (r j : ℕ) :
    embedAct (fun a b => s * L a b) ws A r j = s * embedAct L ws A r j := by
  unfold embedAct
  rw [← sum_map_mul_left]
  congr 1
  apply List.map_congr_left
  intro l _
  ring

/-- the local matrices of RX, RY, RZ are odd in the half-angle exponential: a sign on `θ` is a sign on
    the matrix -/
theorem rot_localMat_sign (hζ : ζ ^ 8 = -1) (hρ : ∀ j, ρ j ≠ 0) (g1 g2 : Gate) (hk : g1.kind = g2.kind)
    (hr : isRot g1.kind = true) (s : K) (hs : s * s = 1)
    (ht : theta ζ ρ (g2.p 0) = s * theta ζ ρ (g1.p 0)) (i j : ℕ) :
    evalMat ζ ρ g2.localMat.m i j = s * evalMat ζ ρ g1.localMat.m i j := by
  have hsi : s⁻¹ = s := inv_eq_of_mul_eq_one_left hs
  have hv : eval ζ ρ ((g2.p 0).ph 1) = s * eval ζ ρ ((g1.p 0).ph 1) := by
    rw [eval_ph hζ, eval_ph hζ, zpow_one, zpow_one, ht]
  have hw : eval ζ ρ ((g2.p 0).ph (-1)) = s * eval ζ ρ ((g1.p 0).ph (-1)) := by
    rw [eval_ph hζ, eval_ph hζ, zpow_neg_one, zpow_neg_one, ht, mul_inv, hsi]
  have hk2 := hk.symm
  simp only [isRot, Bool.or_eq_true, beq_iff_eq] at hr
  rcases hr with (hr | hr) | hr <;> rw [hr] at hk2 <;> unfold Gate.localMat <;>
    simp only [hr, hk2] <;>
    rcases i with _ | _ | i <;> rcases j with _ | _ | j <;>
    simp only [evalMat, evalRow, List.getD_cons_zero, List.getD_cons_succ, List.getD_nil, eval_add,
      eval_sub, eval_neg, eval_mul hζ hρ, eval_nil, hv, hw] <;> ring

theorem rho0_pow_128 (hζ : ζ ^ 8 = -1) (h16 : ρ 0 ^ 16 = ζ) : ρ 0 ^ (128 : ℤ) = -1 := by
  have : ρ 0 ^ (128 : ℕ) = (ρ 0 ^ 16) ^ 8 := by rw [← pow_mul]
  rw [← hζ, ← h16, ← this]
  exact zpow_natCast (ρ 0) 128

theorem toGate_p0 (g : NGate) : theta ζ ρ ((NGate.toGate g).p 0) = ρ 0 ^ (g.params.getD 0 0) :=
  substRho_units g.params 0

/-- shifting the angle of a rotation gate by `m` full turns multiplies its operator by `(−1)^m` -/
theorem rot_shift_ok (hζ : ζ ^ 8 = -1) (hρ : ∀ j, ρ j ≠ 0) (h16 : ρ 0 ^ 16 = ζ) (n : ℕ) (g : NGate)
    (hg : gInv n g = true) (hr : isRot g.kind = true) (m : ℤ) :
    gInv n { g with params := [g.params.getD 0 0 + 128 * m] } = true ∧
    OpEqv ζ ρ n [g] [{ g with params := [g.params.getD 0 0 + 128 * m] }] := by
  constructor
  · obtain ⟨h1, h2, h3⟩ := gInv_iff.mp hg
    rw [gInv_iff]
    refine ⟨h1, h2, ?_⟩
    simp only [isRot, Bool.or_eq_true, beq_iff_eq] at hr
    rcases hr with (hr | hr) | hr <;> rw [hr] at h3 ⊢ <;>
      simp only [arityOK, kindArity, Bool.and_eq_true, beq_iff_eq, Prod.mk.injEq] at h3 ⊢ <;>
      simp [h3]
  · have hs : ((-1 : K) ^ m) * ((-1 : K) ^ m) = 1 := by
      rw [← mul_zpow]; simp
    refine ⟨(-1 : K) ^ m, zpow_ne_zero _ (by norm_num), fun r _ k _ => ?_⟩
    have hL := rot_localMat_sign hζ hρ (NGate.toGate g)
      (NGate.toGate { g with params := [g.params.getD 0 0 + 128 * m] }) rfl hr ((-1 : K) ^ m) hs
      (by
        rw [toGate_p0, toGate_p0]
        show ρ 0 ^ (g.params.getD 0 0 + 128 * m) = _
        rw [zpow_add₀ (hρ 0), zpow_mul, rho0_pow_128 hζ h16, mul_comm])
    show embedAct _ _ idMat r k = _ * embedAct _ _ idMat r k
    rw [← embedAct_smul_left]
    have e : evalMat ζ ρ (NGate.toGate { g with params := [g.params.getD 0 0 + 128 * m] }).localMat.m
        = fun a b => (-1 : K) ^ m * evalMat ζ ρ (NGate.toGate g).localMat.m a b := by
      funext a b; exact hL a b
    rw [e]
    rfl

theorem emod_shift (x lo : ℤ) : emod (x - lo) twoPi + lo = x + 128 * (-((x - lo) / 128)) := by
  unfold emod twoPi
  rw [Int.emod_def]
  ring

/-- `NormalizeRotationTranspiler` -/
theorem normalizePass_ok (hζ : ζ ^ 8 = -1) (hρ : ∀ j, ρ j ≠ 0) (h16 : ρ 0 ^ 16 = ζ) (n : ℕ)
    (lo : ℤ) (c : List NGate) (hc : CInv n c) :
    CInv n (normalizePass lo c) ∧ OpEqv ζ ρ n c (normalizePass lo c) := by
  unfold normalizePass
  rw [List.map_eq_flatMap]
  have key : ∀ g ∈ c,
      CInv n [if isRot g.kind = true then
        { g with params := [emod (g.params.getD 0 0 - lo) twoPi + lo] } else g] ∧
      OpEqv ζ ρ n [g] [if isRot g.kind = true then
        { g with params := [emod (g.params.getD 0 0 - lo) twoPi + lo] } else g] := by
    intro g hg
    have hgi := CInv_iff.mp hc g hg
    by_cases hr : isRot g.kind = true
    · rw [if_pos hr, emod_shift]
      obtain ⟨h1, h2⟩ := rot_shift_ok hζ hρ h16 n g hgi hr (-((g.params.getD 0 0 - lo) / 128))
      exact ⟨CInv_singleton.mpr h1, h2⟩
    · rw [if_neg hr]
      exact ⟨CInv_singleton.mpr hgi, OpEqv.refl n [g]⟩
  exact ⟨CInv_flatMap _ (fun g hg => (key g hg).1), OpEqv.flatMap n c _ hc key⟩

end QV.MatSound

/-! ## 5. pipelines -/

namespace QV.C01

/-- passes that are not defined through a sub-pipeline -/
def Pass.prim : Pass → Bool
  | .rotConv _ _ => false
  | .gateSetConv _ _ => false
  | _ => true

/-- side condition relating a pass to the register size: identity insertion stays inside it -/
def Pass.fits (n : Nat) : Pass → Bool
  | .idInsert m => decide (m ≤ n)
  | _ => true

end QV.C01

namespace QV.MatSound
open QV QV.Poly QV.C01

variable {K : Type} [Field K] {ζ : K} {ρ : ℕ → K}

variable (ζ ρ) in
/-- a primitive pass preserves the invariant and the operator (whenever it returns) -/
def PrimOK (e : Env) (n : ℕ) (p : Pass) : Prop :=
  ∀ fuel c c', CInv n c → runPass e (fuel + 1) p c = .ok c' → CInv n c' ∧ OpEqv ζ ρ n c c'

theorem collect_sub {gs : List Kind} {tbl : List (Kind × Pass)} {p : Pass}
    (h : p ∈ collect gs tbl) : p ∈ tbl.map Prod.snd := by
  unfold collect at h
  obtain ⟨⟨k, q⟩, hm, hq⟩ := List.mem_filterMap.mp h
  simp at hq
  obtain ⟨_, rfl⟩ := hq
  exact List.mem_map.mpr ⟨(k, q), hm, rfl⟩

theorem rotConvPipeline_fits (n : ℕ) (rots fav : List Kind) :
    ∀ p ∈ rotConvPipeline rots fav, p.fits n = true := by
  intro p hp
  unfold rotConvPipeline at hp
  simp only [] at hp
  split_ifs at hp <;> simp at hp <;> (try rcases hp with rfl | rfl) <;> rfl

theorem gateSetPipeline_fits (n : ℕ) (gs : List Kind) :
    ∀ p ∈ gateSetPipeline gs, p.fits n = true := by
  intro p hp
  unfold gateSetPipeline at hp
  simp only [List.mem_append] at hp
  have hall : ∀ (l : List Pass), l.all (Pass.fits n) = true → p ∈ l → p.fits n = true :=
    fun l h hm => List.all_eq_true.mp h p hm
  rcases hp with ((((((h | h) | h) | h) | h) | h) | h) | h
  · exact hall _ rfl (collect_sub h)
  · exact hall _ rfl (collect_sub h)
  · split_ifs at h
    · simp at h
    · simp only [List.mem_append, List.mem_singleton] at h
      rcases h with (h | h) | h
      · exact hall _ rfl h
      · exact hall _ rfl h
      · subst h; rfl
  · split_ifs at h
    · simp at h
    · simp at h; subst h; rfl
  · exact hall _ rfl (collect_sub h)
  · exact hall _ rfl h
  · simp at h; subst h; rfl
  · exact hall _ rfl h

/-- **Pipelines.**  Let `Q` be a class of passes closed under the nested pipelines of
    `RotationConversionTranspiler` and `GateSetConversionTranspiler`.  If every primitive pass in `Q`
    is sound for the environment `e`, then so are `runPass` and `runSeq` on passes in `Q`. -/
theorem run_sound (e : Env) (n : ℕ) (Q : Pass → Prop)
    (hQr : ∀ rots fav, Q (.rotConv rots fav) → ∀ p ∈ rotConvPipeline rots fav, Q p)
    (hQg : ∀ gs v, Q (.gateSetConv gs v) → ∀ p ∈ gateSetPipeline gs, Q p)
    (H : ∀ p, p.prim = true → Q p → PrimOK ζ ρ e n p) : ∀ fuel,
    (∀ p c c', Q p → CInv n c → runPass e fuel p c = .ok c' →
      CInv n c' ∧ OpEqv ζ ρ n c c') ∧
    (∀ ps c c', (∀ p ∈ ps, Q p) → CInv n c → runSeq e fuel ps c = .ok c' →
      CInv n c' ∧ OpEqv ζ ρ n c c') := by
  intro fuel
  induction fuel with
  | zero =>
    constructor
    · intro p c c' _ _ h; simp [runPass] at h
    · intro ps c c' _ _ h; simp [runSeq] at h
  | succ fuel ih =>
    constructor
    · intro p c c' hf hc h
      by_cases hp : p.prim = true
      · exact H p hp hf fuel c c' hc h
      · cases p with
        | rotConv rots fav =>
          simp only [runPass] at h
          cases hs : runSeq e fuel (rotConvPipeline rots fav) c with
          | error m => rw [hs] at h; simp at h
          | ok r =>
            rw [hs] at h
            simp only [] at h
            split_ifs at h
            have : r = c' := by simpa using h
            subst this
            exact ih.2 _ c r (hQr rots fav hf) hc hs
        | gateSetConv gs validate =>
          simp only [runPass] at h
          cases hs : runSeq e fuel (gateSetPipeline gs) c with
          | error m => rw [hs] at h; simp at h
          | ok r =>
            rw [hs] at h
            simp only [] at h
            split_ifs at h
            have : r = c' := by simpa using h
            subst this
            exact ih.2 _ c r (hQg gs validate hf) hc hs
        | _ => simp [Pass.prim] at hp
    · intro ps c c' hf hc h
      cases ps with
      | nil =>
        have : c = c' := by simpa [runSeq] using h
        subst this
        exact ⟨hc, OpEqv.refl n c⟩
      | cons p ps =>
        simp only [runSeq] at h
        cases hr : runPass e fuel p c with
        | error m => rw [hr] at h; simp at h
        | ok r =>
          rw [hr] at h
          obtain ⟨h1, h2⟩ := ih.1 p c r (hf p (by simp)) hc hr
          obtain ⟨h3, h4⟩ := ih.2 ps r c' (fun q hq => hf q (by simp [hq])) h1 h
          exact ⟨h3, h2.trans h4⟩

/-- primitive passes whose soundness is NOT proved in this file: they enter `runSeq_sound_partial`
    as hypotheses.  (`cliffApprox` – an approximation, deliberately not operator preserving – is not
    run by `runPass` at all: it returns an error, so it is vacuously covered; `um1`/`um2` are
    identities in the model.) -/
def pendingPass : Pass → Bool
  | .fuseRot | .fuseCHC | .ladder _ _ | .clifConv _ | .pauliDec | .pauliRotDec | .cnotRzRzz => true
  | _ => false

/-- passes all of whose (nested) primitive passes are proved sound here -/
def provedPass : Pass → Bool
  | .decomp _ | .normalize _ | .idElim | .idInsert _ | .um1 | .um2 | .cliffApprox => true
  | .rotConv _ _ => true        -- its pipeline consists of `decomp` passes only
  | _ => false

/-- the primitive passes proved so far: `decomp`, `normalize`, `idElim`, `idInsert`, `um1`, `um2`,
    (`cliffApprox`) -/
theorem prim_ok (hζ : ζ ^ 8 = -1) (hρ : ∀ j, ρ j ≠ 0) (h16 : ρ 0 ^ 16 = ζ) (e : Env)
    (T : TableOK ζ ρ e.templates) (n : ℕ) (p : Pass) (hpr : pendingPass p = false)
    (hp : p.prim = true) (hf : p.fits n = true) : PrimOK ζ ρ e n p := by
  intro fuel c c' hc h
  cases p with
  | decomp names =>
    have : decompPass e.templates names c = c' := by simpa [runPass] using h
    subst this
    exact decompPass_ok hζ hρ h16 e.templates T names n c hc
  | normalize lo =>
    have : normalizePass lo c = c' := by simpa [runPass] using h
    subst this
    exact normalizePass_ok hζ hρ h16 n lo c hc
  | idElim =>
    have : idElimPass c = c' := by simpa [runPass] using h
    subst this
    exact idElimPass_ok n c hc
  | idInsert m =>
    have : idInsertPass m c = c' := by simpa [runPass] using h
    subst this
    exact idInsertPass_ok n m (by simpa [Pass.fits] using hf) c hc
  | um1 =>
    have : c = c' := by simpa [runPass] using h
    subst this
    exact ⟨hc, OpEqv.refl n c⟩
  | um2 =>
    have : c = c' := by simpa [runPass] using h
    subst this
    exact ⟨hc, OpEqv.refl n c⟩
  | cliffApprox => simp [runPass] at h
  | rotConv _ _ => simp [Pass.prim] at hp
  | gateSetConv _ _ => simp [Pass.prim] at hp
  | _ => simp [pendingPass] at hpr

/-- **Pipeline soundness (partial: the passes of `pendingPass` are hypotheses).**  For an environment
    whose template table is sound, every pipeline that `runSeq` completes maps a circuit satisfying
    the invariant to a circuit satisfying the invariant with the same operator up to a non-zero
    scalar. -/
theorem runSeq_sound_partial (hζ : ζ ^ 8 = -1) (hρ : ∀ j, ρ j ≠ 0) (h16 : ρ 0 ^ 16 = ζ) (e : Env)
    (T : TableOK ζ ρ e.templates) (n : ℕ)
    (hpend : ∀ p, pendingPass p = true → PrimOK ζ ρ e n p)
    (fuel : ℕ) (ps : List Pass) (c c' : List NGate) (hf : ∀ p ∈ ps, p.fits n = true)
    (hc : CInv n c) (h : runSeq e fuel ps c = .ok c') : CInv n c' ∧ OpEqv ζ ρ n c c' :=
  (run_sound e n (fun p => p.fits n = true)
    (fun rots fav _ => rotConvPipeline_fits n rots fav)
    (fun gs _ _ => gateSetPipeline_fits n gs)
    (fun p hp hf => by
      by_cases hpe : pendingPass p = true
      · exact hpend p hpe
      · exact prim_ok hζ hρ h16 e T n p (by simpa using hpe) hp hf) fuel).2 ps c c' hf hc h

theorem rotConvPipeline_proved (rots fav : List Kind) :
    ∀ p ∈ rotConvPipeline rots fav, provedPass p = true := by
  intro p hp
  unfold rotConvPipeline at hp
  simp only [] at hp
  split_ifs at hp <;> simp at hp <;> (try rcases hp with rfl | rfl) <;> rfl

/-- **Pipeline soundness, unconditional**, for pipelines built from `decomp`, `normalize`, `idElim`,
    `idInsert m` (`m ≤ n`), `um1`, `um2` and `rotConv` -/
theorem runSeq_sound_proved (hζ : ζ ^ 8 = -1) (hρ : ∀ j, ρ j ≠ 0) (h16 : ρ 0 ^ 16 = ζ) (e : Env)
    (T : TableOK ζ ρ e.templates) (n : ℕ)
    (fuel : ℕ) (ps : List Pass) (c c' : List NGate)
    (hf : ∀ p ∈ ps, p.fits n = true ∧ provedPass p = true)
    (hc : CInv n c) (h : runSeq e fuel ps c = .ok c') : CInv n c' ∧ OpEqv ζ ρ n c c' :=
  (run_sound e n (fun p => p.fits n = true ∧ provedPass p = true)
    (fun rots fav _ p hp => ⟨rotConvPipeline_fits n rots fav p hp, rotConvPipeline_proved rots fav p hp⟩)
    (fun gs v h => by simp [provedPass] at h)
    (fun p hp hq => prim_ok hζ hρ h16 e T n p (by
      cases p <;> simp_all [provedPass, pendingPass]) hp hq.1) fuel).2 ps c c' hf hc h

end QV.MatSound
