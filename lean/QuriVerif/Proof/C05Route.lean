import QuriVerif.Proof.C05Str
/- C05: every construction route (pairs in any order, index/id lists, string) yields the same label -/
namespace QV.C05

theorem convIds_perm {a b : List (Nat × Nat)} (h : a.Perm b) :
    (convIds a = none ∧ convIds b = none) ∨ ∃ ea eb, convIds a = some ea ∧ convIds b = some eb ∧ ea.Perm eb := by
  induction h with
  | nil => exact Or.inr ⟨[], [], rfl, rfl, List.Perm.refl _⟩
  | cons x _ ih =>
    obtain ⟨i, o⟩ := x
    rcases ih with ⟨h1, h2⟩ | ⟨ea, eb, h1, h2, hp⟩
    · left; simp only [convIds, h1, h2]; cases P1.ofId? o <;> simp
    · cases ho : P1.ofId? o with
      | none => left; simp [convIds, ho]
      | some p => right; exact ⟨(i, p) :: ea, (i, p) :: eb, by simp [convIds, ho, h1], by simp [convIds, ho, h2], hp.cons _⟩
  | swap x y l =>
    obtain ⟨i, o⟩ := x
    obtain ⟨j, q⟩ := y
    cases hl : convIds l with
    | none => left; simp only [convIds, hl]; cases P1.ofId? o <;> cases P1.ofId? q <;> simp
    | some es =>
      cases ho : P1.ofId? o with
      | none => left; simp only [convIds, hl, ho]; cases P1.ofId? q <;> simp
      | some p =>
        cases hq : P1.ofId? q with
        | none => left; simp [convIds, hl, ho, hq]
        | some p' =>
          right
          exact ⟨(j, p') :: (i, p) :: es, (i, p) :: (j, p') :: es, by simp [convIds, hl, ho, hq],
            by simp [convIds, hl, ho, hq], List.Perm.swap _ _ _⟩
  | trans _ _ ih1 ih2 =>
    rcases ih1 with ⟨h1, h2⟩ | ⟨ea, eb, h1, h2, hp⟩
    · rcases ih2 with ⟨h3, h4⟩ | ⟨eb', ec, h3, h4, hp'⟩
      · exact Or.inl ⟨h1, h4⟩
      · rw [h2] at h3; simp at h3
    · rcases ih2 with ⟨h3, h4⟩ | ⟨eb', ec, h3, h4, hp'⟩
      · rw [h2] at h3; simp at h3
      · rw [h2] at h3
        injection h3 with h3
        subst h3
        exact Or.inr ⟨ea, ec, h1, h4, hp.trans hp'⟩

/-- the order in which the pairs are supplied is irrelevant (also for the error) -/
theorem mkLabel_perm {a b : List (Nat × Nat)} (h : a.Perm b) : mkLabel a = mkLabel b := by
  unfold mkLabel
  rcases convIds_perm h with ⟨h1, h2⟩ | ⟨ea, eb, h1, h2, hp⟩
  · rw [h1, h2]
  · rw [h1, h2]; simp only; rw [canon_perm hp]

theorem convIds_codes (l : List (Nat × P1)) (hI : ∀ e ∈ l, e.2 ≠ .I) :
    convIds (l.map fun e => (e.1, e.2.code)) = some l := by
  induction l with
  | nil => rfl
  | cons e r ih =>
    obtain ⟨i, p⟩ := e
    have hp : p ≠ .I := hI (i, p) (by simp)
    have : P1.ofId? p.code = some p := by cases p <;> first | exact absurd rfl hp | rfl
    simp [convIds, this, ih fun e he => hI e (by simp [he])]

/-- the pairs of a valid label, handed to `PauliLabel(...)` in any order, give back that label -/
theorem mkLabel_of_valid {l : Label} (h : Valid l) {ps : List (Nat × Nat)}
    (hp : ps.Perm (l.map fun e => (e.1, e.2.code))) : mkLabel ps = .ok l := by
  rw [mkLabel_perm hp]
  unfold mkLabel
  rw [convIds_codes l h.2]
  simp only
  rw [canon_of_canonical (valid_canonical h)]

theorem zipPairs_map (l : List (Nat × P1)) :
    zipPairs (l.map (·.1)) (l.map (·.2.code)) = l.map fun e => (e.1, e.2.code) := by
  induction l with
  | nil => rfl
  | cons e r ih => simp [zipPairs, ih]

/-- `from_index_and_pauli_list` on the index / id columns of a valid label gives back that label -/
theorem fromLists_of_valid {l : Label} (h : Valid l) : fromLists (l.map (·.1)) (l.map (·.2.code)) = .ok l := by
  unfold fromLists
  simp only [List.length_map, bne_self_eq_false, Bool.false_eq_true, if_false]
  rw [zipPairs_map]
  exact mkLabel_of_valid h (List.Perm.refl _)

theorem convIds_mem {ps : List (Nat × Nat)} {es : List (Nat × P1)} (h : convIds ps = some es) :
    ∀ e ∈ es, e.2 ≠ .I := by
  induction ps generalizing es with
  | nil => simp [convIds] at h; subst h; simp
  | cons x r ih =>
    obtain ⟨i, o⟩ := x
    simp only [convIds] at h
    cases ho : P1.ofId? o with
    | none => simp [ho] at h
    | some p =>
      cases hr : convIds r with
      | none => simp [ho, hr] at h
      | some er =>
        simp [ho, hr] at h
        subst h
        intro e he
        rcases List.mem_cons.1 he with he | he
        · subst he
          intro hp
          simp only at hp
          subst hp
          revert ho
          unfold P1.ofId?
          split <;> simp
        · exact ih hr e he

/-- what `PauliLabel(pairs)` accepts: the result is always a canonical set without identity entries;
    it is a *valid* label exactly when no index carries two different Paulis -/
theorem mkLabel_valid_iff {ps : List (Nat × Nat)} {l : Label} (h : mkLabel ps = .ok l) :
    Canonical l ∧ (∀ e ∈ l, e.2 ≠ .I) ∧ (Valid l ↔ Fun l) := by
  unfold mkLabel at h
  cases hc : convIds ps with
  | none => simp [hc] at h
  | some es =>
    simp [hc] at h
    subst h
    have hI : ∀ e ∈ canon es, e.2 ≠ .I := fun e he => convIds_mem hc e ((mem_canon es e).1 he)
    refine ⟨canonical_canon es, hI, valid_fun, fun hf => ?_⟩
    have := valid_canon (es := canon es) hf hI
    rwa [canon_of_canonical (canonical_canon es)] at this

end QV.C05
