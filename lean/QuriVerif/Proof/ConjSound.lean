import QuriVerif.Proof.SupSound
import QuriVerif.Proof.C06
/-
  C06 over the concrete operator semantics (generic field part): `clifford_gate_conjugation`
  (`Model/C06.cliffordConj`) returns `(P', i^k)` with  `⟦g⟧·⟦P⟧ = i^k·⟦P'⟧·⟦g⟧`  on the `2^n` block,
  for every register size, every placement of the gate and every well-formed Pauli label.

    * §1  Pauli strings as functions qubit ↦ id and as gate lists in qubit order (`pauliStr`), their
          columns (`canonM_col`);
    * §2  multiplying a string by one single-qubit Pauli (`upd_ok`);
    * §3  the product table (`prodOK`, checked against `refMul`) and `pauli_product`
          (`foldl_prodStep_sem`);
    * §4  exact two-list certificates (`exact2`), the conjugation table rows (`rows1OK`, `rows2OK`),
          the Boolean `tablesOK` evaluated ONCE over the translated table (`Props/C06Lift.tables_ok`);
    * §5  the accumulation loop (`conjLoop_sem`), the per-entry contributions (`contrib1_ok`,
          `contrib2_ok`; spectator entries commute with the gate);
    * §7  the result is a well-formed label (`conjLoop_wf`), strings in list order (`labelGates`);
    * §8  `cliffordConj_1q_sound`, `cliffordConj_2q_sound`, `cliffordConj_swap_sound`;
    * §9  the model never fails on a covered gate and a well-formed label (`totalOK`, `…_total`).
-/
namespace QV.MatSound
open QV QV.Poly QV.C01 QV.C16 QV.C06

variable {K : Type} [Field K] {ζ : K} {ρ : ℕ → K}

/-! ## 1. Pauli strings -/

/-- the single-qubit Pauli gate with id `p` on wire `q` (ids outside `{1,2,3}`: no gate) -/
def pgate (q p : ℕ) : List Gate :=
  if p = 1 then [G .X [] [q]] else if p = 2 then [G .Y [] [q]] else if p = 3 then [G .Z [] [q]] else []

/-- the first `m` factors of a Pauli string given as a function qubit ↦ id, in qubit order -/
def canonM (m : ℕ) (f : ℕ → ℕ) : List Gate := (List.range m).flatMap fun j => pgate j (f j)

/-- a Pauli string given as a function qubit ↦ id, as a gate list in qubit order -/
abbrev pauliStr (n : ℕ) (f : ℕ → ℕ) : List Gate := canonM n f

/-- amplitude of `σ_p` on a basis state whose bit is `β`:  X ↦ 1, Y ↦ ±i, Z ↦ ±1 -/
def epsK (ζ : K) (p β : ℕ) : K :=
  if p = 2 then (if β = 0 then ζ ^ 4 else -ζ ^ 4)
  else if p = 3 then (if β = 0 then 1 else -1) else 1

/-- the mask of flipped bits of the first `m` qubits -/
def maskX : ℕ → (ℕ → ℕ) → ℕ
  | 0, _ => 0
  | m + 1, f => maskX m f ^^^ (if chi (f m) = 1 then 2 ^ m else 0)

/-- the amplitude of the first `m` factors on `|b⟩` -/
def ampF (ζ : K) : ℕ → (ℕ → ℕ) → ℕ → K
  | 0, _, _ => 1
  | m + 1, f, b => ampF ζ m f b * epsK ζ (f m) (Gate.bitAt b m)

theorem onWires_pgate (q p : ℕ) : OnWires (pgate q p) [q] := by
  intro g hg
  unfold pgate at hg
  split_ifs at hg <;> simp at hg <;> subst hg <;> exact ⟨q, by simp, rfl⟩

theorem wf_pgate (n q p : ℕ) (hq : q < n) : WellFormed n (pgate q p) :=
  (onWires_pgate q p).wf (by intro w h; simp at h; omega)

theorem bitAt_two_pow (m j : ℕ) : Gate.bitAt (2 ^ m) j = if j = m then 1 else 0 := by
  have := bitAt_flip 0 m j
  rw [Nat.zero_xor] at this
  rw [this]
  by_cases e : j = m
  · simp [e, Gate.bitAt]
  · simp [e, Gate.bitAt]

theorem bitAt_maskX (m : ℕ) (f : ℕ → ℕ) (j : ℕ) :
    Gate.bitAt (maskX m f) j = if j < m then chi (f j) else 0 := by
  induction m with
  | zero => simp [maskX, Gate.bitAt]
  | succ m ih =>
    rw [maskX, bitAt_xor, ih]
    have hc := chi_le (f m)
    by_cases h1 : chi (f m) = 1
    · rw [if_pos h1, bitAt_two_pow]
      by_cases e : j = m
      · subst e; simp [h1]
      · by_cases hj : j < m
        · have := chi_le (f j)
          simp [e, hj, show j < m + 1 by omega]; omega
        · simp [e, hj, show ¬ j < m + 1 by omega]
    · have h0 : chi (f m) = 0 := by omega
      rw [if_neg h1]
      by_cases e : j = m
      · subst e; simp [h0, Gate.bitAt]
      · by_cases hj : j < m
        · have := chi_le (f j)
          simp [hj, show j < m + 1 by omega, Gate.bitAt]; omega
        · simp [hj, show ¬ j < m + 1 by omega, Gate.bitAt]

theorem maskX_lt (n m : ℕ) (hm : m ≤ n) (f : ℕ → ℕ) : maskX m f < 2 ^ n := by
  induction m with
  | zero => simp [maskX]
  | succ m ih =>
    rw [maskX]
    apply Nat.xor_lt_two_pow (ih (by omega))
    split
    · exact Nat.pow_lt_pow_right (by norm_num) (by omega)
    · exact Nat.two_pow_pos n

/-- column `b` of one single-qubit Pauli -/
theorem pgate_col (n q p : ℕ) (hq : q < n) (b : ℕ) (hb : b < 2 ^ n) :
    IsCol ζ ρ n (pgate q p) b (if chi p = 1 then b ^^^ 2 ^ q else b)
      (epsK ζ p (Gate.bitAt b q)) := by
  unfold pgate
  by_cases h1 : p = 1
  · subst h1
    simpa [chi, epsK] using col_x (ζ := ζ) (ρ := ρ) n q hq b hb
  · by_cases h2 : p = 2
    · subst h2
      have : IsCol ζ ρ n [G .Y [] [q]] b (b ^^^ 2 ^ q)
          (if Gate.bitAt b q = 0 then ζ ^ 4 else -ζ ^ 4) :=
        ⟨flip_lt n b q hb hq, fun r hr => col_flip n q _ rfl hq
          (fun c => if c = 0 then ζ ^ 4 else -ζ ^ 4) (evalMat_Y q) r b hr hb⟩
      simpa [chi, epsK] using this
    · by_cases h3 : p = 3
      · subst h3
        simpa [chi, epsK] using col_z (ζ := ζ) (ρ := ρ) n q hq b hb
      · simp only [h1, h2, h3, if_false]
        have hc : chi p = 0 := by simp [chi, h1, h2]
        have := IsCol.nil (ζ := ζ) (ρ := ρ) n b hb
        simpa [hc, epsK, h2, h3] using this

theorem canonM_succ (m : ℕ) (f : ℕ → ℕ) : canonM (m + 1) f = canonM m f ++ pgate m (f m) := by
  simp [canonM, List.range_succ, List.flatMap_append]

theorem onWires_canonM (m : ℕ) (f : ℕ → ℕ) : OnWires (canonM m f) (List.range m) := by
  intro g hg
  obtain ⟨j, hj, hgj⟩ := List.mem_flatMap.mp hg
  obtain ⟨q, hq, e⟩ := onWires_pgate j (f j) g hgj
  have : q = j := by simpa using hq
  subst this
  exact ⟨q, hj, e⟩

theorem wf_canonM (n m : ℕ) (hm : m ≤ n) (f : ℕ → ℕ) : WellFormed n (canonM m f) :=
  (onWires_canonM m f).wf (by intro q hq; have := List.mem_range.mp hq; omega)

/-- **column `b` of a Pauli string**: `|b xor mask⟩` with the product of the single-qubit amplitudes -/
theorem canonM_col (n : ℕ) (f : ℕ → ℕ) (b : ℕ) (hb : b < 2 ^ n) :
    ∀ m, m ≤ n → IsCol ζ ρ n (canonM m f) b (b ^^^ maskX m f) (ampF ζ m f b) := by
  intro m
  induction m with
  | zero => intro _; simpa [canonM, maskX, ampF] using IsCol.nil (ζ := ζ) (ρ := ρ) n b hb
  | succ m ih =>
    intro hm
    have c1 := ih (by omega)
    have c2 := pgate_col (ζ := ζ) (ρ := ρ) n m (f m) (by omega) _ c1.1
    have hbit : Gate.bitAt (b ^^^ maskX m f) m = Gate.bitAt b m := by
      rw [bitAt_xor, bitAt_maskX, if_neg (by omega)]
      have := bitAt_le_one b m; omega
    rw [hbit] at c2
    have := IsCol.append c1 c2 (wf_pgate n m (f m) (by omega))
    rw [canonM_succ, maskX, ampF]
    by_cases h1 : chi (f m) = 1
    · rw [if_pos h1] at this ⊢
      rw [← Nat.xor_assoc]; exact this
    · rw [if_neg h1] at this ⊢
      rw [Nat.xor_zero]; exact this

theorem canon_eq (n : ℕ) (f : ℕ → ℕ) : pauliStr n f = canonM n f := rfl

/-! ## 2. multiplying a string by one single-qubit Pauli -/

/-- `ampF` without the factor of qubit `q` -/
def ampEx (ζ : K) (q : ℕ) : ℕ → (ℕ → ℕ) → ℕ → K
  | 0, _, _ => 1
  | m + 1, f, b => ampEx ζ q m f b * (if m = q then 1 else epsK ζ (f m) (Gate.bitAt b m))

theorem ampF_of_le (q m : ℕ) (hq : m ≤ q) (f : ℕ → ℕ) (b : ℕ) : ampF ζ m f b = ampEx ζ q m f b := by
  induction m with
  | zero => rfl
  | succ m ih => rw [ampF, ampEx, ih (by omega), if_neg (by omega)]

theorem ampF_split (q m : ℕ) (hq : q < m) (f : ℕ → ℕ) (b : ℕ) :
    ampF ζ m f b = ampEx ζ q m f b * epsK ζ (f q) (Gate.bitAt b q) := by
  induction m with
  | zero => omega
  | succ m ih =>
    rw [ampF, ampEx]
    by_cases e : m = q
    · subst e
      rw [if_pos rfl, ampF_of_le m m (le_refl m), mul_one]
    · rw [if_neg e, ih (by omega)]; ring

theorem ampEx_congr (q m : ℕ) (f f' : ℕ → ℕ) (b b' : ℕ)
    (h : ∀ j, j < m → j ≠ q → f j = f' j ∧ Gate.bitAt b j = Gate.bitAt b' j) :
    ampEx ζ q m f b = ampEx ζ q m f' b' := by
  induction m with
  | zero => rfl
  | succ m ih =>
    rw [ampEx, ampEx, ih (fun j hj hne => h j (by omega) hne)]
    by_cases e : m = q
    · rw [if_pos e, if_pos e]
    · rw [if_neg e, if_neg e, (h m (by omega) e).1, (h m (by omega) e).2]

/-- `⟦f⟧ · σ_q^p = i^k · ⟦f[q ↦ c]⟧` whenever `σ_{f q} σ_p = i^k σ_c` (in the column form used here) -/
theorem upd_ok (n q p : ℕ) (hq : q < n) (f : ℕ → ℕ) (c k : ℕ)
    (hchi : chi c = (chi (f q) + chi p) % 2)
    (heps : ∀ β, β ≤ 1 →
      epsK ζ p β * epsK ζ (f q) ((β + chi p) % 2) = ζ ^ (4 * k) * epsK ζ c β) :
    SEq ζ ρ n (ζ ^ (4 * k)) (pauliStr n (Function.update f q c)) (pgate q p ++ pauliStr n f) := by
  intro r hr b hb
  have c1 := pgate_col (ζ := ζ) (ρ := ρ) n q p hq b hb
  have c2 := canonM_col (ζ := ζ) (ρ := ρ) n f _ c1.1 n (le_refl n)
  have c12 := IsCol.append c1 c2 (wf_canonM n n (le_refl n) f)
  have c3 := canonM_col (ζ := ζ) (ρ := ρ) n (Function.update f q c) b hb n (le_refl n)
  have hβ := bitAt_le_one b q
  have hcp := chi_le p
  -- the flipped bit
  have hb1 : ∀ j, Gate.bitAt (if chi p = 1 then b ^^^ 2 ^ q else b) j
      = if j = q then (Gate.bitAt b q + chi p) % 2 else Gate.bitAt b j := by
    intro j
    by_cases h1 : chi p = 1
    · rw [if_pos h1, bitAt_flip]
      by_cases e : j = q
      · rw [if_pos e, if_pos e, h1]; omega
      · rw [if_neg e, if_neg e]
    · have h0 : chi p = 0 := by omega
      rw [if_neg h1]
      by_cases e : j = q
      · rw [if_pos e, e, h0]; omega
      · rw [if_neg e]
  -- same target row
  have hrow : (if chi p = 1 then b ^^^ 2 ^ q else b) ^^^ maskX n f
      = b ^^^ maskX n (Function.update f q c) := by
    apply bitAt_ext n _ _ c2.1 c3.1
    intro j hj
    rw [bitAt_xor, bitAt_xor, bitAt_maskX, bitAt_maskX, if_pos hj, if_pos hj, hb1]
    by_cases e : j = q
    · subst e
      have h1 := chi_le (f j)
      rw [if_pos rfl, Function.update_self, hchi]; omega
    · rw [if_neg e, Function.update_of_ne e]
  -- same amplitude
  have hamp : epsK ζ p (Gate.bitAt b q) * ampF ζ n f (if chi p = 1 then b ^^^ 2 ^ q else b)
      = ζ ^ (4 * k) * ampF ζ n (Function.update f q c) b := by
    rw [ampF_split q n hq f, ampF_split q n hq (Function.update f q c) b, hb1, if_pos rfl,
      Function.update_self,
      ampEx_congr q n f (Function.update f q c) (if chi p = 1 then b ^^^ 2 ^ q else b) b
        (fun j _ hne => ⟨(Function.update_of_ne hne _ _).symm, by rw [hb1, if_neg hne]⟩)]
    have := heps (Gate.bitAt b q) hβ
    linear_combination (ampEx ζ q n (Function.update f q c) b) * this
  show semCirc ζ ρ (pgate q p ++ canonM n f) r b = _ * semCirc ζ ρ (canonM n _) r b
  rw [c12.2 r hr, c3.2 r hr, hrow, hamp]
  by_cases e : r = b ^^^ maskX n (Function.update f q c)
  · rw [if_pos e, if_pos e]
  · rw [if_neg e, if_neg e, mul_zero]

/-! ## 3. the product table and `pauli_product` -/

end QV.MatSound

namespace QV.C06
/-- reference single-qubit Pauli multiplication: `σ_a σ_b = i^k σ_r` (`none`: equal, product 1) -/
def refMul (a b : Nat) : Option (Nat × Nat) :=
  if a = b then none
  else if a = 1 ∧ b = 2 then some (3, 1) else if a = 2 ∧ b = 1 then some (3, 3)
  else if a = 2 ∧ b = 3 then some (1, 1) else if a = 3 ∧ b = 2 then some (1, 3)
  else if a = 3 ∧ b = 1 then some (2, 1) else some (2, 3)

/-- the translated `_pauli_products_map` is the Pauli multiplication table -/
def prodOK (tbl : ProdTable) : Bool :=
  [1, 2, 3].all fun a => [1, 2, 3].all fun b => mul1 tbl a b == refMul a b

/-- ids of a dictionary value -/
def idOf (o : Option Nat) : Nat := o.getD 0

/-- a label as a function qubit ↦ id (0 = absent) -/
def obsF (l : Label) (j : Nat) : Nat := idOf (obs l j)

/-- every stored id is 1, 2 or 3 -/
def IdsOK (l : Label) : Prop := ∀ j v, obs l j = some v → v = 1 ∨ v = 2 ∨ v = 3

end QV.C06

namespace QV.MatSound
open QV QV.Poly QV.C01 QV.C16 QV.C06

variable {K : Type} [Field K] {ζ : K} {ρ : ℕ → K}

theorem zeta_pow_12 (hζ : ζ ^ 8 = -1) : ζ ^ 12 = -ζ ^ 4 := by
  have : ζ ^ 12 = ζ ^ 8 * ζ ^ 4 := by ring
  rw [this, hζ]; ring

theorem zeta4_sq (hζ : ζ ^ 8 = -1) : ζ ^ 4 * ζ ^ 4 = -1 := by rw [← hζ]; ring

/-- the column form of `σ_a σ_p = i^k σ_c` -/
def PMok (ζ : K) (a p c k : ℕ) : Prop :=
  chi c = (chi a + chi p) % 2 ∧
  ∀ β, β ≤ 1 → epsK ζ p β * epsK ζ a ((β + chi p) % 2) = ζ ^ (4 * k) * epsK ζ c β

theorem pm_none (p : ℕ) : PMok ζ 0 p p 0 := by
  refine ⟨?_, fun β _ => ?_⟩
  · have := chi_le p
    have h0 : chi 0 = 0 := rfl
    rw [h0]; omega
  · simp [epsK]

theorem pmok_of (a p c k : ℕ) (hchi : chi c = (chi a + chi p) % 2)
    (h0 : epsK ζ p 0 * epsK ζ a ((0 + chi p) % 2) = ζ ^ (4 * k) * epsK ζ c 0)
    (h1 : epsK ζ p 1 * epsK ζ a ((1 + chi p) % 2) = ζ ^ (4 * k) * epsK ζ c 1) : PMok ζ a p c k := by
  refine ⟨hchi, fun β hβ => ?_⟩
  rcases (by omega : β = 0 ∨ β = 1) with rfl | rfl
  · exact h0
  · exact h1

set_option linter.unusedSimpArgs false in
set_option linter.unusedTactic false in
set_option linter.unreachableTactic false in
theorem pm_ref (hζ : ζ ^ 8 = -1) (a p : ℕ) (ha : a = 1 ∨ a = 2 ∨ a = 3) (hp : p = 1 ∨ p = 2 ∨ p = 3) :
    match refMul a p with
    | none => PMok ζ a p 0 0
    | some (r, k) => (r = 1 ∨ r = 2 ∨ r = 3) ∧ PMok ζ a p r k := by
  have h4 := zeta4_sq hζ
  have h12 := zeta_pow_12 hζ
  rcases ha with rfl | rfl | rfl <;> rcases hp with rfl | rfl | rfl
  · exact pmok_of 1 1 0 0 (by decide)
      (by first | (simp [epsK, chi, h12]; done) | (simp [epsK, chi, h12]; first | linear_combination h4 | linear_combination (-1 : K) * h4))
      (by first | (simp [epsK, chi, h12]; done) | (simp [epsK, chi, h12]; first | linear_combination h4 | linear_combination (-1 : K) * h4))
  · exact ⟨by decide, pmok_of 1 2 3 1 (by decide)
      (by first | (simp [epsK, chi, h12]; done) | (simp [epsK, chi, h12]; first | linear_combination h4 | linear_combination (-1 : K) * h4))
      (by first | (simp [epsK, chi, h12]; done) | (simp [epsK, chi, h12]; first | linear_combination h4 | linear_combination (-1 : K) * h4))⟩
  · exact ⟨by decide, pmok_of 1 3 2 3 (by decide)
      (by first | (simp [epsK, chi, h12]; done) | (simp [epsK, chi, h12]; first | linear_combination h4 | linear_combination (-1 : K) * h4))
      (by first | (simp [epsK, chi, h12]; done) | (simp [epsK, chi, h12]; first | linear_combination h4 | linear_combination (-1 : K) * h4))⟩
  · exact ⟨by decide, pmok_of 2 1 3 3 (by decide)
      (by first | (simp [epsK, chi, h12]; done) | (simp [epsK, chi, h12]; first | linear_combination h4 | linear_combination (-1 : K) * h4))
      (by first | (simp [epsK, chi, h12]; done) | (simp [epsK, chi, h12]; first | linear_combination h4 | linear_combination (-1 : K) * h4))⟩
  · exact pmok_of 2 2 0 0 (by decide)
      (by first | (simp [epsK, chi, h12]; done) | (simp [epsK, chi, h12]; first | linear_combination h4 | linear_combination (-1 : K) * h4))
      (by first | (simp [epsK, chi, h12]; done) | (simp [epsK, chi, h12]; first | linear_combination h4 | linear_combination (-1 : K) * h4))
  · exact ⟨by decide, pmok_of 2 3 1 1 (by decide)
      (by first | (simp [epsK, chi, h12]; done) | (simp [epsK, chi, h12]; first | linear_combination h4 | linear_combination (-1 : K) * h4))
      (by first | (simp [epsK, chi, h12]; done) | (simp [epsK, chi, h12]; first | linear_combination h4 | linear_combination (-1 : K) * h4))⟩
  · exact ⟨by decide, pmok_of 3 1 2 1 (by decide)
      (by first | (simp [epsK, chi, h12]; done) | (simp [epsK, chi, h12]; first | linear_combination h4 | linear_combination (-1 : K) * h4))
      (by first | (simp [epsK, chi, h12]; done) | (simp [epsK, chi, h12]; first | linear_combination h4 | linear_combination (-1 : K) * h4))⟩
  · exact ⟨by decide, pmok_of 3 2 1 3 (by decide)
      (by first | (simp [epsK, chi, h12]; done) | (simp [epsK, chi, h12]; first | linear_combination h4 | linear_combination (-1 : K) * h4))
      (by first | (simp [epsK, chi, h12]; done) | (simp [epsK, chi, h12]; first | linear_combination h4 | linear_combination (-1 : K) * h4))⟩
  · exact pmok_of 3 3 0 0 (by decide)
      (by first | (simp [epsK, chi, h12]; done) | (simp [epsK, chi, h12]; first | linear_combination h4 | linear_combination (-1 : K) * h4))
      (by first | (simp [epsK, chi, h12]; done) | (simp [epsK, chi, h12]; first | linear_combination h4 | linear_combination (-1 : K) * h4))

theorem stepVal_pm (hζ : ζ ^ 8 = -1) (tbl : ProdTable) (htbl : prodOK tbl = true) (o : Option ℕ)
    (p : ℕ) (ho : ∀ v, o = some v → v = 1 ∨ v = 2 ∨ v = 3) (hp : p = 1 ∨ p = 2 ∨ p = 3) :
    PMok ζ (idOf o) p (idOf (stepVal tbl o p).1) (stepVal tbl o p).2 ∧
      ∀ v, (stepVal tbl o p).1 = some v → v = 1 ∨ v = 2 ∨ v = 3 := by
  cases o with
  | none =>
    simp only [stepVal, idOf, Option.getD_none, Option.getD_some]
    exact ⟨pm_none p, fun v hv => by simp at hv; rw [← hv]; exact hp⟩
  | some cur =>
    have hc := ho cur rfl
    have hm : mul1 tbl cur p = refMul cur p := by
      simp only [prodOK, List.all_eq_true, beq_iff_eq] at htbl
      exact htbl cur (by rcases hc with rfl | rfl | rfl <;> simp) p
        (by rcases hp with rfl | rfl | rfl <;> simp)
    have href := pm_ref (ζ := ζ) hζ cur p hc hp
    simp only [stepVal, hm]
    cases hr : refMul cur p with
    | none =>
      rw [hr] at href
      simp only [idOf, Option.getD_some, Option.getD_none]
      exact ⟨href, fun v hv => by simp at hv⟩
    | some rk =>
      obtain ⟨r, k⟩ := rk
      rw [hr] at href
      simp only [idOf, Option.getD_some]
      exact ⟨href.2, fun v hv => by simp at hv; rw [← hv]; exact href.1⟩

/-- one iteration of `pauli_product`: `⟦st⟧ · σ_q^p = i^Δ · ⟦st'⟧` -/
theorem prodStep_sem (hζ : ζ ^ 8 = -1) (tbl : ProdTable) (htbl : prodOK tbl = true) (n : ℕ)
    (st : Label × ℕ) (e : ℕ × ℕ) (hq : e.1 < n) (hp : e.2 = 1 ∨ e.2 = 2 ∨ e.2 = 3)
    (hst : IdsOK st.1) :
    IdsOK (prodStep tbl st e).1 ∧
    SEq ζ ρ n (ζ ^ (4 * ((prodStep tbl st e).2 - st.2))) (pauliStr n (obsF (prodStep tbl st e).1))
      (pgate e.1 e.2 ++ pauliStr n (obsF st.1)) := by
  obtain ⟨hpm, hids⟩ := stepVal_pm (ζ := ζ) hζ tbl htbl (obs st.1 e.1) e.2 (hst e.1) hp
  have hf : obsF (prodStep tbl st e).1
      = Function.update (obsF st.1) e.1 (idOf (stepVal tbl (obs st.1 e.1) e.2).1) := by
    funext j
    unfold obsF
    rw [prodStep_obs]
    by_cases h : j = e.1
    · subst h; rw [if_pos rfl, Function.update_self]
    · rw [if_neg h, Function.update_of_ne h]
  constructor
  · intro j v hv
    rw [prodStep_obs] at hv
    by_cases h : j = e.1
    · rw [if_pos h] at hv; exact hids v hv
    · rw [if_neg h] at hv; exact hst j v hv
  · rw [hf, prodStep_phase, Nat.add_sub_cancel_left]
    exact upd_ok n e.1 e.2 hq (obsF st.1) _ _ hpm.1 hpm.2

/-- the gates of a label, last entry first -/
def revGates (l : Label) : List Gate := l.reverse.flatMap fun e => pgate e.1 e.2

theorem revGates_cons (e : ℕ × ℕ) (l : Label) : revGates (e :: l) = revGates l ++ pgate e.1 e.2 := by
  simp [revGates, List.flatMap_append]

theorem onWires_revGates (l : Label) : OnWires (revGates l) (l.map (·.1)) := by
  intro g hg
  obtain ⟨e, he, hge⟩ := List.mem_flatMap.mp hg
  obtain ⟨q, hq, h⟩ := onWires_pgate e.1 e.2 g hge
  have : q = e.1 := by simpa using hq
  subst this
  exact ⟨e.1, List.mem_map.mpr ⟨e, List.mem_reverse.mp he, rfl⟩, h⟩

theorem wf_revGates (n : ℕ) (l : Label) (hl : ∀ e ∈ l, e.1 < n) : WellFormed n (revGates l) :=
  (onWires_revGates l).wf (by
    intro q hq; obtain ⟨e, he, rfl⟩ := List.mem_map.mp hq; exact hl e he)

/-- **`pauli_product`**: `⟦st⟧ · ⟦upd⟧ = i^Δ · ⟦result⟧`, `Δ` the accumulated phase exponent -/
theorem foldl_prodStep_sem (hζ : ζ ^ 8 = -1) (tbl : ProdTable) (htbl : prodOK tbl = true) (n : ℕ) :
    ∀ (upd : Label), (∀ e ∈ upd, e.1 < n ∧ (e.2 = 1 ∨ e.2 = 2 ∨ e.2 = 3)) →
    ∀ (st : Label × ℕ), IdsOK st.1 →
      IdsOK (upd.foldl (prodStep tbl) st).1 ∧ st.2 ≤ (upd.foldl (prodStep tbl) st).2 ∧
      SEq ζ ρ n (ζ ^ (4 * ((upd.foldl (prodStep tbl) st).2 - st.2)))
        (pauliStr n (obsF (upd.foldl (prodStep tbl) st).1)) (revGates upd ++ pauliStr n (obsF st.1)) := by
  intro upd
  induction upd with
  | nil =>
    intro _ st hst
    refine ⟨hst, le_refl _, ?_⟩
    simpa [revGates] using SEq.refl (ζ := ζ) (ρ := ρ) n (pauliStr n (obsF st.1))
  | cons e es ih =>
    intro hupd st hst
    obtain ⟨h1, h2⟩ := prodStep_sem (ζ := ζ) (ρ := ρ) hζ tbl htbl n st e (hupd e (by simp)).1
      (hupd e (by simp)).2 hst
    obtain ⟨i1, i2, i3⟩ := ih (fun x hx => hupd x (by simp [hx])) (prodStep tbl st e) h1
    have hle : st.2 ≤ (prodStep tbl st e).2 := by rw [prodStep_phase]; omega
    simp only [List.foldl_cons]
    refine ⟨i1, le_trans hle i2, ?_⟩
    rw [revGates_cons]
    have hctx := SEq.context (ζ := ζ) (ρ := ρ) (revGates es) []
      (wf_canonM n n (le_refl n) _)
      (WellFormed.append (wf_pgate n e.1 e.2 (hupd e (by simp)).1) (wf_canonM n n (le_refl n) _))
      (WellFormed.nil n) h2
    have := i3.trans (by simpa [List.append_assoc] using hctx)
    have hexp : ζ ^ (4 * ((prodStep tbl st e).2 - st.2))
        * ζ ^ (4 * ((es.foldl (prodStep tbl) (prodStep tbl st e)).2 - (prodStep tbl st e).2))
        = ζ ^ (4 * ((es.foldl (prodStep tbl) (prodStep tbl st e)).2 - st.2)) := by
      rw [← pow_add]; congr 1; omega
    rw [← hexp]
    simpa [List.append_assoc] using this

/-! ## 4. exact two-list certificates and the conjugation tables -/

end QV.MatSound

namespace QV.C06
open QV.MatSound

/-- exact kernel-evaluable certificate `⟦lhs⟧ = i^ph · ⟦rhs⟧` on `nq` qubits (no angle variables,
    equal scale exponents) -/
def exact2 (nq : Nat) (lhs rhs : List Gate) (ph : Nat) : Bool :=
  SMat.eq (circMat nq lhs)
    ⟨Mat.smulP (Poly.uPow (4 * (ph : Int))) (circMat nq rhs).m, (circMat nq rhs).k⟩ &&
  decide ((circMat nq lhs).k = (circMat nq rhs).k) &&
  decide (WellFormed nq lhs) && decide (WellFormed nq rhs)

/-- the template gate of a two-qubit kind: control on wire 0, target on wire 1 (SWAP: targets 0, 1) -/
def gate2 (k : Kind) : Gate := if k = .SWAP then G .SWAP [] [0, 1] else G k [0] [1]

/-- the label a two-qubit row contributes, on wires `c`, `t` -/
def upd2 (c t pc pt : Nat) : Label :=
  (if pc != 0 then [(c, pc)] else []) ++ (if pt != 0 then [(t, pt)] else [])

def validId (p : Nat) : Bool := p == 1 || p == 2 || p == 3

/-- every row of the single-qubit table: `U·σ_p = i^s·σ_up·U`, exactly -/
def rows1OK (T : Tables) : Bool :=
  T.c1.all fun r =>
    validId r.2.1 &&
    exact2 1 (pgate 0 r.1.1 ++ [G r.1.2 [] [0]]) ([G r.1.2 [] [0]] ++ pgate 0 r.2.1) r.2.2

/-- every row of the two-qubit table: `U·σ_p^{(q)} = (σ_pc ⊗ σ_pt)·U`, exactly -/
def rows2OK (T : Tables) : Bool :=
  T.c2.all fun r =>
    (upd2 0 1 r.2.1 r.2.2).all (fun e => validId e.2) &&
    exact2 2 (pgate (if r.1.2.2 then 0 else 1) r.1.1 ++ [gate2 r.1.2.1])
      ([gate2 r.1.2.1] ++ revGates (upd2 0 1 r.2.1 r.2.2)) 0

/-- the three translated tables are certified -/
def tablesOK (T : Tables) : Bool := prodOK T.prod && rows1OK T && rows2OK T

end QV.C06

namespace QV.MatSound
open QV QV.Poly QV.C01 QV.C16 QV.C06

variable {K : Type} [Field K] {ζ : K} {ρ : ℕ → K}

/-- `exact2` is sound on `nq` qubits … -/
theorem exact2_sound (hζ : ζ ^ 8 = -1) (hρ : ∀ j, ρ j ≠ 0) (h2 : (2 : K) ≠ 0) (nq : ℕ)
    (lhs rhs : List Gate) (ph : ℕ) (h : exact2 nq lhs rhs ph = true) :
    WellFormed nq lhs ∧ WellFormed nq rhs ∧ ∀ i, i < 2 ^ nq → ∀ j,
      semCirc ζ ρ lhs i j = ζ ^ (4 * ph) * semCirc ζ ρ rhs i j := by
  simp only [exact2, Bool.and_eq_true, decide_eq_true_eq] at h
  obtain ⟨⟨⟨heq, hk⟩, wl⟩, wr⟩ := h
  refine ⟨wl, wr, fun i hi j => ?_⟩
  have hs := smat_eq_sound hζ hρ (circMat nq lhs)
    ⟨Mat.smulP (Poly.uPow (4 * (ph : Int))) (circMat nq rhs).m, (circMat nq rhs).k⟩ heq i j
  simp only [] at hs
  rw [hk, evalMat_smulP hζ hρ, eval_uPow hζ] at hs
  have hs0 : eval ζ ρ Poly.sqrt2 ^ (circMat nq rhs).k ≠ 0 :=
    pow_ne_zero _ (eval_sqrt2_ne_zero hζ h2)
  have := mul_left_cancel₀ hs0 hs
  rw [evalMat_circMat hζ hρ nq lhs wl i j hi, evalMat_circMat hζ hρ nq rhs wr i j hi] at this
  rw [this]
  congr 1
  have : (4 * (ph : ℤ)) = ((4 * ph : ℕ) : ℤ) := by push_cast; ring
  rw [this, zpow_natCast]

/-- … and at every placement -/
theorem exact2_placed (hζ : ζ ^ 8 = -1) (hρ : ∀ j, ρ j ≠ 0) (h2 : (2 : K) ≠ 0) (nq : ℕ)
    (lhs rhs : List Gate) (ph : ℕ) (h : exact2 nq lhs rhs ph = true) {σ : ℕ → ℕ} {n : ℕ}
    (P : Placement σ nq n) :
    SEq ζ ρ n (ζ ^ (4 * ph)) (rhs.map (Gate.relabel σ)) (lhs.map (Gate.relabel σ)) := by
  obtain ⟨wl, wr, hs⟩ := exact2_sound (ζ := ζ) (ρ := ρ) hζ hρ h2 nq lhs rhs ph h
  exact placed_scalar P lhs rhs wl wr _ (fun i hi j _ => hs i hi j)

theorem relabel_pgate (σ : ℕ → ℕ) (q p : ℕ) :
    (pgate q p).map (Gate.relabel σ) = pgate (σ q) p := by
  unfold pgate
  split_ifs <;> rfl

theorem relabel_revGates (σ : ℕ → ℕ) (l : Label) :
    (revGates l).map (Gate.relabel σ) = revGates (l.map fun e => (σ e.1, e.2)) := by
  unfold revGates
  rw [List.map_flatMap, ← List.map_reverse, List.flatMap_map]
  congr 1
  funext e
  exact relabel_pgate σ e.1 e.2

/-! ## 5. the accumulation loop -/

/-- well-formed Pauli label on `n` qubits: distinct qubits `< n`, ids in `{1,2,3}` -/
def LabelOK (n : ℕ) (L : Label) : Prop :=
  Valid L ∧ ∀ e ∈ L, e.1 < n ∧ (e.2 = 1 ∨ e.2 = 2 ∨ e.2 = 3)

variable (ζ ρ) in
/-- what is needed from the per-entry contribution of a gate `U`: `U·σ_e = i^s·⟦upd⟧·U` -/
def ContribOK (n : ℕ) (U : Gate) (contrib : ℕ × ℕ → Option (Label × ℕ)) : Prop :=
  ∀ e upd s, e.1 < n → (e.2 = 1 ∨ e.2 = 2 ∨ e.2 = 3) → contrib e = some (upd, s) →
    (∀ x ∈ upd, x.1 < n ∧ (x.2 = 1 ∨ x.2 = 2 ∨ x.2 = 3)) ∧
    SEq ζ ρ n (ζ ^ (4 * s)) ([U] ++ revGates upd) (pgate e.1 e.2 ++ [U])

theorem canonM_zero (m : ℕ) : canonM m (fun _ => 0) = [] := by
  induction m with
  | zero => rfl
  | succ m ih => rw [canonM_succ, ih]; rfl

theorem obsF_nil : obsF [] = fun _ => 0 := by funext j; rfl

theorem revGates_snoc (L : Label) (e : ℕ × ℕ) :
    revGates (L ++ [e]) = pgate e.1 e.2 ++ revGates L := by
  simp [revGates, List.reverse_append]

theorem labelOK_snoc {n : ℕ} {L : Label} {e : ℕ × ℕ} (h : LabelOK n (L ++ [e])) :
    LabelOK n L ∧ e.1 < n ∧ (e.2 = 1 ∨ e.2 = 2 ∨ e.2 = 3) ∧ ∀ x ∈ L, x.1 ≠ e.1 := by
  obtain ⟨hv, hl⟩ := h
  unfold Valid at hv
  rw [List.pairwise_append] at hv
  refine ⟨⟨hv.1, fun x hx => hl x (by simp [hx])⟩, (hl e (by simp)).1, (hl e (by simp)).2, ?_⟩
  intro x hx
  exact hv.2.2 x hx e (by simp)

/-- **the loop of `clifford_gate_conjugation`**: if every contribution is sound, the accumulated
    `(P', k)` satisfies `U·⟦L⟧ = i^k·⟦P'⟧·U` (`⟦L⟧` the factors of the label, last entry first) -/
theorem conjLoop_sem (hζ : ζ ^ 8 = -1) (tbl : ProdTable) (htbl : prodOK tbl = true) (n : ℕ)
    (U : Gate) (wfU : WellFormed n [U]) (contrib : ℕ × ℕ → Option (Label × ℕ))
    (CO : ContribOK ζ ρ n U contrib) (kp : Bool)
    (hkp : kp = false → ∀ e upd s, contrib e = some (upd, s) → ∃ x, upd = [(e.1, x)]) :
    ∀ (L : Label), LabelOK n L → ∀ r, conjLoop tbl contrib kp L = some r →
      IdsOK r.1 ∧ (kp = false → ∀ j, obs r.1 j ≠ none → ∃ x ∈ L, x.1 = j) ∧
      SEq ζ ρ n (ζ ^ (4 * r.2)) ([U] ++ pauliStr n (obsF r.1)) (revGates L ++ [U]) := by
  apply list_rev_induction
  · intro _ r hr
    simp only [conjLoop, List.foldl_nil, Option.some.injEq] at hr
    subst hr
    refine ⟨fun j v h => by simp [obs] at h, fun _ j h => absurd rfl h, ?_⟩
    rw [obsF_nil]
    show SEq ζ ρ n _ ([U] ++ canonM n (fun _ => 0)) _
    rw [canonM_zero]
    simpa [revGates] using SEq.refl (ζ := ζ) (ρ := ρ) n [U]
  · intro L e ih hL r hr
    obtain ⟨hL', hq, hp, hne⟩ := labelOK_snoc hL
    rw [conjLoop_snoc] at hr
    cases hprev : conjLoop tbl contrib kp L with
    | none => rw [hprev] at hr; simp [conjStep] at hr
    | some st =>
      obtain ⟨res, k⟩ := st
      rw [hprev] at hr
      cases hc : contrib e with
      | none => simp [conjStep, hc] at hr
      | some us =>
        obtain ⟨upd, s⟩ := us
        simp only [conjStep, hc, Option.some.injEq] at hr
        obtain ⟨i1, i2, i3⟩ := ih hL' (res, k) hprev
        simp only [] at i1 i2 i3
        obtain ⟨hupd, hrow⟩ := CO e upd s hq hp hc
        obtain ⟨p1, p2, p3⟩ := foldl_prodStep_sem (ζ := ζ) (ρ := ρ) hζ tbl htbl n upd hupd (res, 0) i1
        simp only [Nat.sub_zero] at p3
        have hpp : pauliProduct tbl res upd = upd.foldl (prodStep tbl) (res, 0) := rfl
        -- phase discarded only when it is zero
        have hph : (if kp = true then (pauliProduct tbl res upd).2 else 0)
            = (pauliProduct tbl res upd).2 := by
          cases kp with
          | true => rfl
          | false =>
            obtain ⟨x, hx⟩ := hkp rfl e upd s hc
            have hnone : obs res e.1 = none := by
              by_contra hcon
              obtain ⟨y, hy, hye⟩ := i2 rfl e.1 hcon
              exact hne y hy hye
            simp only [Bool.false_eq_true, if_false]
            rw [hpp, hx, List.foldl_cons, List.foldl_nil, prodStep_phase, hnone]
            simp [stepVal]
        subst hr
        simp only []
        rw [hph]
        refine ⟨by rw [hpp]; exact p1, ?_, ?_⟩
        · intro hk j hj
          obtain ⟨x, hx⟩ := hkp hk e upd s hc
          by_cases hje : j = e.1
          · exact ⟨e, by simp, hje.symm⟩
          · rw [hpp, foldl_prodStep_other tbl upd j (by
              intro y hy; rw [hx] at hy; simp at hy; rw [hy]; exact fun h => hje h.symm)] at hj
            obtain ⟨y, hy, hye⟩ := i2 hk j hj
            exact ⟨y, by simp [hy], hye⟩
        · rw [revGates_snoc]
          have wfc : ∀ f, WellFormed n (pauliStr n f) := fun f => wf_canonM n n (le_refl n) f
          have wfupd : WellFormed n (revGates upd) := wf_revGates n upd (fun x hx => (hupd x hx).1)
          have wfe : WellFormed n (pgate e.1 e.2) := wf_pgate n e.1 e.2 hq
          -- 1: the loop invariant, behind the new factor
          have s1 := SEq.context (ζ := ζ) (ρ := ρ) (pgate e.1 e.2) []
            (WellFormed.append wfU (wfc _))
            (WellFormed.append (wf_revGates n L (fun x hx => (hL'.2 x hx).1)) wfU)
            (WellFormed.nil n) i3
          -- 2: the contribution of the new factor
          have s2 := SEq.context (ζ := ζ) (ρ := ρ) [] (pauliStr n (obsF res))
            (WellFormed.append wfU wfupd) (WellFormed.append wfe wfU) (wfc _) hrow
          -- 3: pauli_product
          have s3 := SEq.context (ζ := ζ) (ρ := ρ) [U] [] (wfc _)
            (WellFormed.append wfupd (wfc _)) (WellFormed.nil n) p3
          have t := (s3.trans (by simpa [List.append_assoc] using s2)).trans
            (by simpa [List.append_assoc] using s1)
          rw [hpp]
          refine (by simpa [List.append_assoc] using t : SEq ζ ρ n _ _ _).scalar ?_
          rw [← pow_add, ← pow_add]
          congr 1
          ring

/-! ### the contributions of the two branches -/

theorem validId_iff (p : ℕ) : validId p = true ↔ (p = 1 ∨ p = 2 ∨ p = 3) := by
  simp [validId, or_assoc]

theorem revGates_single (q p : ℕ) : revGates [(q, p)] = pgate q p := by simp [revGates]

theorem find1_mem {t : Conj1Table} {p : ℕ} {k : Kind} {v : ℕ × ℕ} (h : find1 t p k = some v) :
    ((p, k), v) ∈ t := by
  unfold find1 at h
  cases hf : t.find? (fun e => e.1 == (p, k)) with
  | none => rw [hf] at h; simp at h
  | some r =>
    rw [hf] at h
    have h1 := List.find?_some hf
    have h2 := List.mem_of_find?_eq_some hf
    simp only [Option.map_some, Option.some.injEq] at h
    have : r.1 = (p, k) := by simpa using h1
    rw [← h, ← this]; exact h2

theorem find2_mem {t : Conj2Table} {p : ℕ} {k : Kind} {b : Bool} {v : ℕ × ℕ}
    (h : find2 t p k b = some v) : ((p, k, b), v) ∈ t := by
  unfold find2 at h
  cases hf : t.find? (fun e => e.1 == (p, k, b)) with
  | none => rw [hf] at h; simp at h
  | some r =>
    rw [hf] at h
    have h1 := List.find?_some hf
    have h2 := List.mem_of_find?_eq_some hf
    simp only [Option.map_some, Option.some.injEq] at h
    have : r.1 = (p, k, b) := by simpa using h1
    rw [← h, ← this]; exact h2

/-- a spectator factor commutes with the gate -/
theorem spectator_row (n : ℕ) (U : Gate) (wfU : WellFormed n [U]) (e : ℕ × ℕ) (hq : e.1 < n)
    (hd : e.1 ∉ U.wires) :
    SEq ζ ρ n (ζ ^ (4 * 0)) ([U] ++ revGates [e]) (pgate e.1 e.2 ++ [U]) := by
  rw [revGates_single]
  have := SEq.comm (ζ := ζ) (ρ := ρ) n [U] (pgate e.1 e.2) wfU (wf_pgate n e.1 e.2 hq) (by
    intro g hg h hh w hw hw'
    simp only [List.mem_singleton] at hg; subst hg
    obtain ⟨q, hq', e'⟩ := onWires_pgate e.1 e.2 h hh
    rw [e'] at hw'
    have h1 : w = q := by simpa using hw'
    have h2 : q = e.1 := by simpa using hq'
    exact hd (h2 ▸ h1 ▸ hw))
  exact this.scalar (by simp)

/-- single-qubit gates -/
theorem contrib1_ok (hζ : ζ ^ 8 = -1) (hρ : ∀ j, ρ j ≠ 0) (h2 : (2 : K) ≠ 0) (T : Tables)
    (hT : rows1OK T = true) (n : ℕ) (k : Kind) (t : ℕ) (ht : t < n) :
    ContribOK ζ ρ n (G k [] [t]) (contrib1 T k t) := by
  intro e upd s hq hp hc
  have wfU : WellFormed n [G k [] [t]] := wf_single n t k ht
  unfold contrib1 at hc
  by_cases het : e.1 = t
  · have hb : (e.1 == t) = true := by simpa using het
    rw [hb, if_pos rfl] at hc
    cases hf : find1 T.c1 e.2 k with
    | none => rw [hf] at hc; simp at hc
    | some v =>
      obtain ⟨up, s'⟩ := v
      rw [hf] at hc
      simp only [Option.map_some, Option.some.injEq, Prod.mk.injEq] at hc
      obtain ⟨rfl, rfl⟩ := hc
      have hrow := List.all_eq_true.mp hT _ (find1_mem hf)
      simp only [Bool.and_eq_true] at hrow
      have hup := (validId_iff up).mp hrow.1
      refine ⟨fun x hx => by simp at hx; rw [hx]; exact ⟨het ▸ ht, hup⟩, ?_⟩
      have P : Placement (fun _ => t) 1 n :=
        ⟨fun a ha b hb _ => by omega, fun _ _ => ht⟩
      have := exact2_placed (ζ := ζ) (ρ := ρ) hζ hρ h2 1 _ _ _ hrow.2 P
      simp only [List.map_append, relabel_pgate, List.map_cons, List.map_nil] at this
      rw [revGates_single, het]
      exact this
  · have hb : (e.1 == t) = false := by simpa using het
    rw [hb] at hc
    simp only [Bool.false_eq_true, if_false, Option.some.injEq, Prod.mk.injEq] at hc
    obtain ⟨rfl, rfl⟩ := hc
    refine ⟨fun x hx => by simp at hx; rw [hx]; exact ⟨hq, hp⟩, ?_⟩
    exact spectator_row n _ wfU e hq (by simp [G, Gate.wires, het])

theorem contrib1_single (T : Tables) (k : Kind) (t : ℕ) :
    ∀ e upd s, contrib1 T k t e = some (upd, s) → ∃ x, upd = [(e.1, x)] := by
  intro e upd s hc
  unfold contrib1 at hc
  split at hc
  · cases hf : find1 T.c1 e.2 k with
    | none => rw [hf] at hc; simp at hc
    | some v =>
      rw [hf] at hc
      simp only [Option.map_some, Option.some.injEq, Prod.mk.injEq] at hc
      exact ⟨v.1, hc.1.symm⟩
  · simp only [Option.some.injEq, Prod.mk.injEq] at hc
    exact ⟨e.2, by rw [← hc.1]⟩

theorem upd2_map (σ : ℕ → ℕ) (pc pt : ℕ) :
    (upd2 0 1 pc pt).map (fun e => (σ e.1, e.2)) = upd2 (σ 0) (σ 1) pc pt := by
  unfold upd2
  split <;> split <;> rfl

/-- the placement of a two-qubit gate: wire 0 ↦ `c`, wire 1 ↦ `t` -/
def sigma2 (c t : ℕ) : ℕ → ℕ := fun i => if i = 0 then c else t

theorem placement2 (n c t : ℕ) (hc : c < n) (ht : t < n) (hct : c ≠ t) :
    Placement (sigma2 c t) 2 n := by
  constructor
  · intro a ha b hb h
    unfold sigma2 at h
    have : a = 0 ∨ a = 1 := by omega
    have : b = 0 ∨ b = 1 := by omega
    by_cases h1 : a = 0 <;> by_cases h2 : b = 0 <;> simp [h1, h2] at h <;> omega
  · intro q _; unfold sigma2; split <;> assumption

/-- two-qubit gates -/
theorem contrib2_ok (hζ : ζ ^ 8 = -1) (hρ : ∀ j, ρ j ≠ 0) (h2 : (2 : K) ≠ 0) (T : Tables)
    (hT : rows2OK T = true) (n : ℕ) (k : Kind) (c t : ℕ) (hc : c < n) (ht : t < n) (hct : c ≠ t) :
    ContribOK ζ ρ n ((gate2 k).relabel (sigma2 c t)) (contrib2 T k c t) := by
  have P := placement2 n c t hc ht hct
  have hw : ((gate2 k).relabel (sigma2 c t)).wires = [c, t] := by
    unfold gate2; split <;> rfl
  have wfU : WellFormed n [(gate2 k).relabel (sigma2 c t)] := by
    intro g hg; simp only [List.mem_singleton] at hg; subst hg
    rw [hw]; exact ⟨by simp [hct], by intro w h; simp at h; rcases h with rfl | rfl <;> assumption⟩
  have hs0 : sigma2 c t 0 = c := rfl
  have hs1 : sigma2 c t 1 = t := rfl
  -- the acted cases
  have acted : ∀ (e : ℕ × ℕ) (isC : Bool) (pc pt : ℕ), e.1 = (if isC then c else t) →
      find2 T.c2 e.2 k isC = some (pc, pt) →
      (∀ x ∈ upd2 c t pc pt, x.1 < n ∧ (x.2 = 1 ∨ x.2 = 2 ∨ x.2 = 3)) ∧
      SEq ζ ρ n (ζ ^ (4 * 0)) ([(gate2 k).relabel (sigma2 c t)] ++ revGates (upd2 c t pc pt))
        (pgate e.1 e.2 ++ [(gate2 k).relabel (sigma2 c t)]) := by
    intro e isC pc pt he hf
    have hrow := List.all_eq_true.mp hT _ (find2_mem hf)
    simp only [Bool.and_eq_true, List.all_eq_true] at hrow
    constructor
    · intro x hx
      have hx' : x ∈ (upd2 0 1 pc pt).map (fun e => (sigma2 c t e.1, e.2)) := by
        rw [upd2_map]; exact hx
      obtain ⟨y, hy, rfl⟩ := List.mem_map.mp hx'
      refine ⟨?_, (validId_iff _).mp (hrow.1 y hy)⟩
      show sigma2 c t y.1 < n
      unfold sigma2; split <;> assumption
    · have := exact2_placed (ζ := ζ) (ρ := ρ) hζ hρ h2 2 _ _ _ hrow.2 P
      simp only [List.map_append, relabel_pgate, List.map_cons, List.map_nil, relabel_revGates,
        upd2_map] at this
      have hq : sigma2 c t (if isC = true then 0 else 1) = e.1 := by
        rw [he]; cases isC <;> rfl
      rw [hq] at this
      exact this
  intro e upd s hq hp hcon
  unfold contrib2 at hcon
  by_cases hec : e.1 = c
  · have hb : (e.1 == c) = true := by simpa using hec
    rw [hb, if_pos rfl] at hcon
    cases hf : find2 T.c2 e.2 k true with
    | none => rw [hf] at hcon; simp at hcon
    | some v =>
      obtain ⟨pc, pt⟩ := v
      rw [hf] at hcon
      simp only [Option.map_some, Option.some.injEq, Prod.mk.injEq] at hcon
      obtain ⟨rfl, rfl⟩ := hcon
      exact acted e true pc pt (by simpa using hec) hf
  · have hb : (e.1 == c) = false := by simpa using hec
    rw [hb] at hcon
    simp only [Bool.false_eq_true, if_false] at hcon
    by_cases het : e.1 = t
    · have hb' : (e.1 == t) = true := by simpa using het
      rw [hb', if_pos rfl] at hcon
      cases hf : find2 T.c2 e.2 k false with
      | none => rw [hf] at hcon; simp at hcon
      | some v =>
        obtain ⟨pc, pt⟩ := v
        rw [hf] at hcon
        simp only [Option.map_some, Option.some.injEq, Prod.mk.injEq] at hcon
        obtain ⟨rfl, rfl⟩ := hcon
        exact acted e false pc pt (by simpa using het) hf
    · have hb' : (e.1 == t) = false := by simpa using het
      rw [hb'] at hcon
      simp only [Bool.false_eq_true, if_false, Option.some.injEq, Prod.mk.injEq] at hcon
      obtain ⟨rfl, rfl⟩ := hcon
      refine ⟨fun x hx => by simp at hx; rw [hx]; exact ⟨hq, hp⟩, ?_⟩
      exact spectator_row n _ wfU e hq (by rw [hw]; simp [hec, het])

/-! ### canonical form of the input label, and the final theorems -/

/-- the factors of a well-formed label in any order are the string in qubit order -/
theorem revGates_canon (n : ℕ) : ∀ (L : Label), LabelOK n L →
    SEq ζ ρ n 1 (pauliStr n (obsF L)) (revGates L) := by
  apply list_rev_induction
  · intro _
    rw [obsF_nil]
    show SEq ζ ρ n 1 (canonM n (fun _ => 0)) _
    rw [canonM_zero]
    exact SEq.refl n []
  · intro L e ih hL
    obtain ⟨hL', hq, hp, hne⟩ := labelOK_snoc hL
    have hnone : obs L e.1 = none := obs_none_of_not_mem L e.1 hne
    have hf : obsF (L ++ [e]) = Function.update (obsF L) e.1 e.2 := by
      funext j
      unfold obsF
      rw [obs_snoc]
      by_cases h : j = e.1
      · subst h; rw [hnone, Function.update_self]; simp [idOf]
      · rw [Function.update_of_ne h]
        cases obs L j with
        | some v => rfl
        | none =>
          have : ¬ e.1 = j := fun h' => h h'.symm
          simp [idOf, this]
    have h0 : obsF L e.1 = 0 := by unfold obsF; rw [hnone]; rfl
    have hu := upd_ok (ζ := ζ) (ρ := ρ) n e.1 e.2 hq (obsF L) e.2 0
      (by rw [h0]; exact (pm_none (ζ := ζ) e.2).1) (by rw [h0]; exact (pm_none (ζ := ζ) e.2).2)
    rw [revGates_snoc, hf]
    have s1 := SEq.context (ζ := ζ) (ρ := ρ) (pgate e.1 e.2) []
      (wf_canonM n n (le_refl n) _) (wf_revGates n L (fun x hx => (hL'.2 x hx).1))
      (WellFormed.nil n) (ih hL')
    have t := hu.trans (by simpa using s1)
    exact t.scalar (by simp)

theorem zeta_pow_mod4 (hζ : ζ ^ 8 = -1) (ph : ℕ) : ζ ^ (4 * (ph % 4)) = ζ ^ (4 * ph) := by
  have h16 := zeta_pow_16 hζ
  have e : 4 * ph = 16 * (ph / 4) + 4 * (ph % 4) := by omega
  rw [e, pow_add, pow_mul ζ 16, h16, one_pow, one_mul]

/-- from the loop invariant to the statement with both strings in qubit order -/
theorem conj_finish (hζ : ζ ^ 8 = -1) (n : ℕ) (U : Gate) (wfU : WellFormed n [U]) (L r : Label)
    (hL : LabelOK n L) (ph : ℕ)
    (h : SEq ζ ρ n (ζ ^ (4 * ph)) ([U] ++ pauliStr n (obsF r)) (revGates L ++ [U])) :
    SEq ζ ρ n (ζ ^ (4 * (ph % 4))) ([U] ++ pauliStr n (obsF r)) (pauliStr n (obsF L) ++ [U]) := by
  have s1 := SEq.context (ζ := ζ) (ρ := ρ) [] [U] (wf_canonM n n (le_refl n) _)
    (wf_revGates n L (fun x hx => (hL.2 x hx).1)) wfU (revGates_canon (ζ := ζ) (ρ := ρ) n L hL)
  -- s1 : revGates L ++ [U] = 1 · (canon L ++ [U]); we need the converse direction
  intro x hx j hj
  have e1 := s1 x hx j hj
  simp only [List.nil_append, one_mul] at e1
  rw [zeta_pow_mod4 hζ]
  show semCirc ζ ρ (canonM n (obsF L) ++ [U]) x j = _
  rw [← e1]
  exact h x hx j hj

/-- the Identity gate acts as the identity -/
theorem identity_conj (n t : ℕ) (ht : t < n) (A : List Gate) (wfA : WellFormed n A) :
    SEq ζ ρ n 1 ([G .Identity [] [t]] ++ A) (A ++ [G .Identity [] [t]]) := by
  have hid : IsIdGate ζ ρ n (G .Identity [] [t]) := by
    refine ⟨by simp [G, Gate.wires], by intro w h; simp [G, Gate.wires] at h; omega, ?_⟩
    intro a b ha hb
    have ha' : a < 2 := by simpa [G, Gate.wires] using ha
    have hb' : b < 2 := by simpa [G, Gate.wires] using hb
    rcases two_cases ha' with rfl | rfl <;> rcases two_cases hb' with rfl | rfl <;>
      simp [Gate.localMat, G, evalMat, evalRow, eval_one, eval_nil, idMat]
  intro r hr j _
  rw [one_mul, semCirc_append, semCirc_append,
    actCirc_idGates n [G .Identity [] [t]] (fun g hg => by
      simp only [List.mem_singleton] at hg; subst hg; exact hid) j _ r hr,
    actCirc_eq_sum n A wfA _ r j hr, semCirc_eq_actCirc A, actCirc_eq_sum n A wfA idMat r j hr]
  congr 1
  apply List.map_congr_left
  intro k hk
  congr 1
  exact (actCirc_idGates n [G .Identity [] [t]] (fun g hg => by
    simp only [List.mem_singleton] at hg; subst hg; exact hid) j idMat k (List.mem_range.mp hk)).symm

/-! ### §7  the result is again a well-formed label; strings in list order -/

/-- all qubits of a label are `< n` -/
def Sup (n : ℕ) (l : Label) : Prop := ∀ x ∈ l, x.1 < n

theorem valid_erase {l : Label} (h : Valid l) (i : ℕ) : Valid (erase l i) :=
  List.Pairwise.filter _ h

theorem sup_erase {n : ℕ} {l : Label} (h : Sup n l) (i : ℕ) : Sup n (erase l i) :=
  fun x hx => h x (List.mem_filter.mp hx).1

theorem valid_setAt {l : Label} (h : Valid l) (i p : ℕ) : Valid (C06.setAt l i p) := by
  unfold C06.setAt
  split
  · unfold Valid
    rw [List.pairwise_map]
    refine h.imp ?_
    intro a b hab
    have e : ∀ x : ℕ × ℕ, (if (x.1 == i) = true then (i, p) else x).1 = x.1 := by
      intro x; split
      · rename_i hx; exact (by simpa using hx : x.1 = i).symm
      · rfl
    rw [e, e]; exact hab
  · rename_i hany
    unfold Valid
    rw [List.pairwise_append]
    refine ⟨h, List.pairwise_singleton _ _, ?_⟩
    intro a ha b hb
    simp only [List.mem_singleton] at hb
    subst hb
    intro hai
    apply hany
    rw [List.any_eq_true]
    exact ⟨a, ha, by simpa using hai⟩

theorem sup_setAt {n : ℕ} {l : Label} (h : Sup n l) (i p : ℕ) (hi : i < n) : Sup n (C06.setAt l i p) := by
  unfold C06.setAt
  split
  · intro x hx
    rw [List.mem_map] at hx
    obtain ⟨y, hy, rfl⟩ := hx
    split
    · exact hi
    · exact h y hy
  · intro x hx
    rw [List.mem_append, List.mem_singleton] at hx
    rcases hx with hx | rfl
    · exact h x hx
    · exact hi

theorem prodStep_wf (tbl : ProdTable) (n : ℕ) (st : Label × ℕ) (e : ℕ × ℕ) (he : e.1 < n)
    (h : Valid st.1 ∧ Sup n st.1) : Valid (prodStep tbl st e).1 ∧ Sup n (prodStep tbl st e).1 := by
  unfold prodStep
  split
  · split
    · exact ⟨valid_erase h.1 _, sup_erase h.2 _⟩
    · exact ⟨valid_setAt h.1 _ _, sup_setAt h.2 _ _ he⟩
  · exact ⟨valid_setAt h.1 _ _, sup_setAt h.2 _ _ he⟩

theorem pauliProduct_wf (tbl : ProdTable) (n : ℕ) : ∀ (upd : Label) (st : Label × ℕ), Sup n upd →
    Valid st.1 ∧ Sup n st.1 →
    Valid (upd.foldl (prodStep tbl) st).1 ∧ Sup n (upd.foldl (prodStep tbl) st).1 := by
  intro upd
  induction upd with
  | nil => intro st _ h; exact h
  | cons e upd ih =>
    intro st hu h
    rw [List.foldl_cons]
    exact ih _ (fun x hx => hu x (List.mem_cons_of_mem _ hx))
      (prodStep_wf tbl n st e (hu e (List.mem_cons_self ..)) h)

/-- the loop keeps the accumulated label well-formed -/
theorem conjLoop_wf (tbl : ProdTable) (n : ℕ) (contrib : ℕ × ℕ → Option (Label × ℕ)) (kp : Bool)
    (hc : ∀ e upd s, e.1 < n → (e.2 = 1 ∨ e.2 = 2 ∨ e.2 = 3) → contrib e = some (upd, s) → Sup n upd) :
    ∀ (L : Label), LabelOK n L → ∀ r, conjLoop tbl contrib kp L = some r →
      Valid r.1 ∧ Sup n r.1 := by
  apply list_rev_induction
  · intro _ r hr
    simp only [conjLoop, List.foldl_nil, Option.some.injEq] at hr
    subst hr
    exact ⟨List.Pairwise.nil, fun x hx => by cases hx⟩
  · intro L e ih hL r hr
    obtain ⟨hL', hq, hp, _⟩ := labelOK_snoc hL
    rw [conjLoop_snoc] at hr
    unfold conjStep at hr
    cases hl : conjLoop tbl contrib kp L with
    | none => rw [hl] at hr; simp at hr
    | some st =>
      obtain ⟨res, k⟩ := st
      cases hce : contrib e with
      | none => rw [hl, hce] at hr; simp at hr
      | some us =>
        obtain ⟨upd, s⟩ := us
        rw [hl, hce] at hr
        simp only [Option.some.injEq] at hr
        subst hr
        exact pauliProduct_wf tbl n upd (res, 0) (hc e upd s hq hp hce) (ih hL' (res, k) hl)

theorem obs_of_mem_valid : ∀ (l : Label), Valid l → ∀ e ∈ l, obs l e.1 = some e.2 := by
  intro l
  induction l with
  | nil => intro _ e he; cases he
  | cons x xs ih =>
    intro hv e he
    unfold Valid at hv
    rw [List.pairwise_cons] at hv
    rw [obs_cons]
    rcases List.mem_cons.mp he with rfl | he'
    · simp
    · rw [if_neg (hv.1 e he'), ih hv.2 e he']

theorem labelOK_of {n : ℕ} {r : Label} (hv : Valid r) (hs : Sup n r) (hi : IdsOK r) : LabelOK n r :=
  ⟨hv, fun e he => ⟨hs e he, hi e.1 e.2 (obs_of_mem_valid r hv e he)⟩⟩

/-- the factors of a label in list order (first entry applied first) -/
def labelGates (l : Label) : List Gate := l.flatMap fun e => pgate e.1 e.2

theorem labelGates_cons (e : ℕ × ℕ) (l : Label) :
    labelGates (e :: l) = pgate e.1 e.2 ++ labelGates l := by
  simp [labelGates]

theorem onWires_labelGates (l : Label) : OnWires (labelGates l) (l.map (·.1)) := by
  intro g hg
  obtain ⟨e, he, hge⟩ := List.mem_flatMap.mp hg
  obtain ⟨q, hq, h⟩ := onWires_pgate e.1 e.2 g hge
  have : q = e.1 := by simpa using hq
  subst this
  exact ⟨e.1, List.mem_map.mpr ⟨e, he, rfl⟩, h⟩

theorem wf_labelGates (n : ℕ) (l : Label) (hl : Sup n l) : WellFormed n (labelGates l) :=
  (onWires_labelGates l).wf (by
    intro q hq; obtain ⟨e, he, rfl⟩ := List.mem_map.mp hq; exact hl e he)

/-- on a well-formed label the order of the factors is irrelevant: the list-order string is the
    qubit-order string of the function `qubit ↦ id` -/
theorem labelGates_canon (n : ℕ) : ∀ (L : Label), LabelOK n L →
    SEq ζ ρ n 1 (pauliStr n (obsF L)) (labelGates L) := by
  intro L
  induction L with
  | nil =>
    intro _
    rw [obsF_nil]
    show SEq ζ ρ n 1 (canonM n (fun _ => 0)) _
    rw [canonM_zero]
    exact SEq.refl n []
  | cons e L ih =>
    intro hL
    obtain ⟨hv, hl⟩ := hL
    unfold Valid at hv
    rw [List.pairwise_cons] at hv
    have hL' : LabelOK n L := ⟨hv.2, fun x hx => hl x (List.mem_cons_of_mem _ hx)⟩
    have hq := (hl e (List.mem_cons_self ..)).1
    have hnone : obs L e.1 = none := obs_none_of_not_mem L e.1 (fun x hx h => hv.1 x hx h.symm)
    have hf : obsF (e :: L) = Function.update (obsF L) e.1 e.2 := by
      funext j
      unfold obsF
      rw [obs_cons]
      by_cases h : j = e.1
      · subst h; rw [Function.update_self]; simp [idOf]
      · rw [Function.update_of_ne h, if_neg (fun h' => h h'.symm)]
    have h0 : obsF L e.1 = 0 := by unfold obsF; rw [hnone]; rfl
    have hu := upd_ok (ζ := ζ) (ρ := ρ) n e.1 e.2 hq (obsF L) e.2 0
      (by rw [h0]; exact (pm_none (ζ := ζ) e.2).1) (by rw [h0]; exact (pm_none (ζ := ζ) e.2).2)
    rw [labelGates_cons, hf]
    have s1 := SEq.context (ζ := ζ) (ρ := ρ) (pgate e.1 e.2) []
      (wf_canonM n n (le_refl n) _) (wf_labelGates n L (fun x hx => (hL'.2 x hx).1))
      (WellFormed.nil n) (ih hL')
    have t := hu.trans (by simpa using s1)
    exact t.scalar (by simp)

/-- from qubit order to list order on both sides -/
theorem conj_list_order (n : ℕ) (U : Gate) (wfU : WellFormed n [U]) (L r : Label)
    (hL : LabelOK n L) (hr : LabelOK n r) (z : K)
    (h : SEq ζ ρ n z ([U] ++ pauliStr n (obsF r)) (pauliStr n (obsF L) ++ [U])) :
    SEq ζ ρ n z ([U] ++ labelGates r) (labelGates L ++ [U]) := by
  have sL := SEq.context (ζ := ζ) (ρ := ρ) [] [U] (wf_canonM n n (le_refl n) _)
    (wf_labelGates n L (fun x hx => (hL.2 x hx).1)) wfU (labelGates_canon (ζ := ζ) (ρ := ρ) n L hL)
  have sr := SEq.context (ζ := ζ) (ρ := ρ) [U] [] (wf_canonM n n (le_refl n) _)
    (wf_labelGates n r (fun x hx => (hr.2 x hx).1)) (WellFormed.nil n)
    (labelGates_canon (ζ := ζ) (ρ := ρ) n r hr)
  intro x hx j hj
  have e1 := sL x hx j hj
  have e2 := sr x hx j hj
  simp only [List.nil_append, List.append_nil, one_mul] at e1 e2
  rw [e1, e2]
  exact h x hx j hj

/-! ### §8  `clifford_gate_conjugation` -/

/-- what an `ok` result of the model means, single-qubit branch -/
theorem cliffordConj_1q_inv (T : Tables) (k : Kind) (t : ℕ) (L r : Label) (ph : ℕ)
    (h : cliffordConj T k [] [t] L = .ok r ph) :
    (k = .Identity ∧ r = L ∧ ph = 0) ∨
    ∃ ph', conjLoop T.prod (contrib1 T k t) false L = some (r, ph') ∧ ph = ph' % 4 := by
  unfold cliffordConj at h
  by_cases h1 : (!T.clifford.contains k) = true
  · rw [if_pos h1] at h; cases h
  rw [if_neg h1] at h
  by_cases h2' : (k == Kind.Pauli) = true
  · rw [if_pos h2'] at h; cases h
  rw [if_neg h2'] at h
  by_cases h3 : (k == Kind.Identity) = true
  · rw [if_pos h3] at h
    simp only [Res.ok.injEq] at h
    exact Or.inl ⟨by simpa using h3, h.1.symm, h.2.symm⟩
  rw [if_neg h3] at h
  change (match conjLoop T.prod (contrib1 T k t) false L with
    | some (r, ph) => Res.ok r (ph % 4)
    | none => Res.keyError) = Res.ok r ph at h
  cases hloop : conjLoop T.prod (contrib1 T k t) false L with
  | none => rw [hloop] at h; cases h
  | some rp =>
    obtain ⟨r', ph'⟩ := rp
    rw [hloop] at h
    simp only [Res.ok.injEq] at h
    obtain ⟨rfl, rfl⟩ := h
    exact Or.inr ⟨ph', rfl, rfl⟩

theorem match_inv {o : Option (Label × ℕ)} {r : Label} {ph : ℕ}
    (h : (match o with
      | some (r, ph) => Res.ok r (ph % 4)
      | none => Res.keyError) = Res.ok r ph) : ∃ ph', o = some (r, ph') ∧ ph = ph' % 4 := by
  cases o with
  | none => cases h
  | some rp =>
    obtain ⟨r', ph'⟩ := rp
    simp only [Res.ok.injEq] at h
    obtain ⟨rfl, rfl⟩ := h
    exact ⟨ph', rfl, rfl⟩

/-- controlled branch (`CNOT`, `CZ`) -/
theorem cliffordConj_2q_inv (T : Tables) (k : Kind) (hk : k ≠ .SWAP) (hkI : k ≠ .Identity)
    (c t : ℕ) (L r : Label) (ph : ℕ) (h : cliffordConj T k [c] [t] L = .ok r ph) :
    ∃ ph', conjLoop T.prod (contrib2 T k c t) true L = some (r, ph') ∧ ph = ph' % 4 := by
  unfold cliffordConj at h
  by_cases h1 : (!T.clifford.contains k) = true
  · rw [if_pos h1] at h; cases h
  rw [if_neg h1] at h
  by_cases h2' : (k == Kind.Pauli) = true
  · rw [if_pos h2'] at h; cases h
  rw [if_neg h2'] at h
  have h3 : ¬ (k == Kind.Identity) = true := by simpa using hkI
  rw [if_neg h3] at h
  have hsw : (k == Kind.SWAP) = false := by simpa using hk
  simp only [hsw] at h
  exact match_inv h

/-- `SWAP` branch -/
theorem cliffordConj_swap_inv (T : Tables) (a b : ℕ) (L r : Label) (ph : ℕ)
    (h : cliffordConj T .SWAP [] [a, b] L = .ok r ph) :
    ∃ ph', conjLoop T.prod (contrib2 T .SWAP a b) true L = some (r, ph') ∧ ph = ph' % 4 := by
  unfold cliffordConj at h
  by_cases h1 : (!T.clifford.contains Kind.SWAP) = true
  · rw [if_pos h1] at h; cases h
  rw [if_neg h1] at h
  exact match_inv h

/-- loop invariant + well-formedness of the result + both presentations of the strings -/
theorem conjLoop_full (hζ : ζ ^ 8 = -1) (tbl : ProdTable) (htbl : prodOK tbl = true) (n : ℕ)
    (U : Gate) (wfU : WellFormed n [U]) (contrib : ℕ × ℕ → Option (Label × ℕ))
    (CO : ContribOK ζ ρ n U contrib) (kp : Bool)
    (hkp : kp = false → ∀ e upd s, contrib e = some (upd, s) → ∃ x, upd = [(e.1, x)])
    (L : Label) (hL : LabelOK n L) (r : Label) (ph' : ℕ)
    (hloop : conjLoop tbl contrib kp L = some (r, ph')) :
    LabelOK n r ∧
    SEq ζ ρ n (ζ ^ (4 * (ph' % 4))) ([U] ++ pauliStr n (obsF r)) (pauliStr n (obsF L) ++ [U]) ∧
    SEq ζ ρ n (ζ ^ (4 * (ph' % 4))) ([U] ++ labelGates r) (labelGates L ++ [U]) := by
  obtain ⟨hids, _, hsem⟩ := conjLoop_sem (ζ := ζ) (ρ := ρ) hζ tbl htbl n U wfU contrib CO kp hkp L hL
    (r, ph') hloop
  obtain ⟨hv, hs⟩ := conjLoop_wf tbl n contrib kp
    (fun e upd s he hp hc x hx => ((CO e upd s he hp hc).1 x hx).1) L hL (r, ph') hloop
  have hr : LabelOK n r := labelOK_of hv hs hids
  have h1 := conj_finish hζ n U wfU L r hL ph' hsem
  exact ⟨hr, h1, conj_list_order n U wfU L r hL hr _ h1⟩

/-- **`clifford_gate_conjugation`, single-qubit gates** (X, Y, Z, H, S, Sdag, SqrtX, SqrtXdag, SqrtY,
    SqrtYdag, Identity): if the model returns `(P', i^ph)` for the gate on wire `t < n` and a well-formed
    label `P`, then `P'` is a well-formed label and `⟦g⟧·⟦P⟧ = i^ph·⟦P'⟧·⟦g⟧` on the `2^n` block, with the
    strings read as the product over the qubits (`pauliStr`) or as the factors in list order (`labelGates`) -/
theorem cliffordConj_1q_sound (hζ : ζ ^ 8 = -1) (hρ : ∀ j, ρ j ≠ 0) (h2 : (2 : K) ≠ 0)
    (T : Tables) (hT : tablesOK T = true) (n : ℕ) (k : Kind) (t : ℕ) (ht : t < n) (L : Label)
    (hL : LabelOK n L) (r : Label) (ph : ℕ) (h : cliffordConj T k [] [t] L = .ok r ph) :
    LabelOK n r ∧
    SEq ζ ρ n (ζ ^ (4 * ph)) ([G k [] [t]] ++ pauliStr n (obsF r)) (pauliStr n (obsF L) ++ [G k [] [t]]) ∧
    SEq ζ ρ n (ζ ^ (4 * ph)) ([G k [] [t]] ++ labelGates r) (labelGates L ++ [G k [] [t]]) := by
  simp only [tablesOK, Bool.and_eq_true] at hT
  obtain ⟨⟨hT0, hT1⟩, _⟩ := hT
  have wfU : WellFormed n [G k [] [t]] := wf_single n t k ht
  rcases cliffordConj_1q_inv T k t L r ph h with ⟨rfl, rfl, rfl⟩ | ⟨ph', hloop, rfl⟩
  · have e : ζ ^ (4 * 0) = 1 := by simp
    rw [e]
    exact ⟨hL, identity_conj n t ht _ (wf_canonM n n (le_refl n) _),
      identity_conj n t ht _ (wf_labelGates n r (fun x hx => (hL.2 x hx).1))⟩
  · exact conjLoop_full hζ T.prod hT0 n _ wfU (contrib1 T k t)
      (contrib1_ok hζ hρ h2 T hT1 n k t ht) false (fun _ => contrib1_single T k t) L hL r ph' hloop

/-- the common part of the two-qubit branches -/
theorem conj2_core (hζ : ζ ^ 8 = -1) (hρ : ∀ j, ρ j ≠ 0) (h2 : (2 : K) ≠ 0)
    (T : Tables) (hT : tablesOK T = true) (n : ℕ) (k : Kind) (c t : ℕ)
    (hc : c < n) (ht : t < n) (hct : c ≠ t) (L : Label) (hL : LabelOK n L) (r : Label) (ph' : ℕ)
    (hloop : conjLoop T.prod (contrib2 T k c t) true L = some (r, ph')) :
    LabelOK n r ∧
    SEq ζ ρ n (ζ ^ (4 * (ph' % 4))) ([(gate2 k).relabel (sigma2 c t)] ++ pauliStr n (obsF r))
      (pauliStr n (obsF L) ++ [(gate2 k).relabel (sigma2 c t)]) ∧
    SEq ζ ρ n (ζ ^ (4 * (ph' % 4))) ([(gate2 k).relabel (sigma2 c t)] ++ labelGates r)
      (labelGates L ++ [(gate2 k).relabel (sigma2 c t)]) := by
  simp only [tablesOK, Bool.and_eq_true] at hT
  obtain ⟨⟨hT0, _⟩, hT2⟩ := hT
  have CO := contrib2_ok (ζ := ζ) (ρ := ρ) hζ hρ h2 T hT2 n k c t hc ht hct
  have hw : ((gate2 k).relabel (sigma2 c t)).wires = [c, t] := by
    unfold gate2; split <;> rfl
  have wfU : WellFormed n [(gate2 k).relabel (sigma2 c t)] := by
    intro g hg; simp only [List.mem_singleton] at hg; subst hg
    rw [hw]; exact ⟨by simp [hct], by intro w h; simp at h; rcases h with rfl | rfl <;> assumption⟩
  exact conjLoop_full hζ T.prod hT0 n _ wfU (contrib2 T k c t) CO true (fun hf => by cases hf)
    L hL r ph' hloop

/-- **two-qubit gates `CNOT`, `CZ`** with control `c` and target `t`, `c ≠ t`, both `< n` -/
theorem cliffordConj_2q_sound (hζ : ζ ^ 8 = -1) (hρ : ∀ j, ρ j ≠ 0) (h2 : (2 : K) ≠ 0)
    (T : Tables) (hT : tablesOK T = true) (n : ℕ) (k : Kind) (hk : k ≠ .SWAP) (hkI : k ≠ .Identity)
    (c t : ℕ) (hc : c < n) (ht : t < n) (hct : c ≠ t) (L : Label) (hL : LabelOK n L) (r : Label)
    (ph : ℕ) (h : cliffordConj T k [c] [t] L = .ok r ph) :
    LabelOK n r ∧
    SEq ζ ρ n (ζ ^ (4 * ph)) ([G k [c] [t]] ++ pauliStr n (obsF r)) (pauliStr n (obsF L) ++ [G k [c] [t]]) ∧
    SEq ζ ρ n (ζ ^ (4 * ph)) ([G k [c] [t]] ++ labelGates r) (labelGates L ++ [G k [c] [t]]) := by
  have hU : (gate2 k).relabel (sigma2 c t) = G k [c] [t] := by
    unfold gate2; rw [if_neg hk]; rfl
  obtain ⟨ph', hloop, rfl⟩ := cliffordConj_2q_inv T k hk hkI c t L r ph h
  rw [← hU]
  exact conj2_core hζ hρ h2 T hT n k c t hc ht hct L hL r ph' hloop

/-- **`SWAP`** on wires `a ≠ b`, both `< n` -/
theorem cliffordConj_swap_sound (hζ : ζ ^ 8 = -1) (hρ : ∀ j, ρ j ≠ 0) (h2 : (2 : K) ≠ 0)
    (T : Tables) (hT : tablesOK T = true) (n : ℕ) (a b : ℕ) (ha : a < n) (hb : b < n) (hab : a ≠ b)
    (L : Label) (hL : LabelOK n L) (r : Label) (ph : ℕ)
    (h : cliffordConj T .SWAP [] [a, b] L = .ok r ph) :
    LabelOK n r ∧
    SEq ζ ρ n (ζ ^ (4 * ph)) ([G .SWAP [] [a, b]] ++ pauliStr n (obsF r))
      (pauliStr n (obsF L) ++ [G .SWAP [] [a, b]]) ∧
    SEq ζ ρ n (ζ ^ (4 * ph)) ([G .SWAP [] [a, b]] ++ labelGates r)
      (labelGates L ++ [G .SWAP [] [a, b]]) := by
  have hU : (gate2 .SWAP).relabel (sigma2 a b) = G .SWAP [] [a, b] := rfl
  obtain ⟨ph', hloop, rfl⟩ := cliffordConj_swap_inv T a b L r ph h
  rw [← hU]
  exact conj2_core hζ hρ h2 T hT n .SWAP a b ha hb hab L hL r ph' hloop

/-! ### §9  totality on the covered gates -/

/-- the single-qubit Clifford kinds of the table (besides `Identity`) -/
def kinds1 : List Kind := [.X, .Y, .Z, .H, .S, .Sdag, .SqrtX, .SqrtXdag, .SqrtY, .SqrtYdag]
/-- the controlled kinds -/
def kindsC : List Kind := [.CNOT, .CZ]

/-- every covered kind is accepted and has a row for every Pauli id -/
def totalOK (T : Tables) : Bool :=
  T.clifford.contains .Identity &&
  (kinds1.all fun k => T.clifford.contains k && [1, 2, 3].all fun p => (find1 T.c1 p k).isSome) &&
  ((Kind.SWAP :: kindsC).all fun k => T.clifford.contains k &&
    [1, 2, 3].all fun p => (find2 T.c2 p k true).isSome && (find2 T.c2 p k false).isSome)

theorem conjLoop_total (tbl : ProdTable) (n : ℕ) (contrib : ℕ × ℕ → Option (Label × ℕ)) (kp : Bool)
    (hc : ∀ e : ℕ × ℕ, e.1 < n → (e.2 = 1 ∨ e.2 = 2 ∨ e.2 = 3) → (contrib e).isSome = true) :
    ∀ (L : Label), LabelOK n L → (conjLoop tbl contrib kp L).isSome = true := by
  apply list_rev_induction
  · intro _; rfl
  · intro L e ih hL
    obtain ⟨hL', hq, hp, _⟩ := labelOK_snoc hL
    rw [conjLoop_snoc]
    have h1 := ih hL'
    have h2 := hc e hq hp
    unfold conjStep
    cases hl : conjLoop tbl contrib kp L with
    | none => rw [hl] at h1; cases h1
    | some st =>
      cases hce : contrib e with
      | none => rw [hce] at h2; cases h2
      | some us => rfl

theorem mem123 {p : ℕ} (hp : p = 1 ∨ p = 2 ∨ p = 3) : p ∈ [1, 2, 3] := by
  rcases hp with rfl | rfl | rfl <;> simp

theorem cliffordConj_1q_total (T : Tables) (hT : totalOK T = true) (n : ℕ) (k : Kind)
    (hk : k ∈ kinds1 ∨ k = .Identity) (t : ℕ) (L : Label) (hL : LabelOK n L) :
    ∃ r ph, cliffordConj T k [] [t] L = .ok r ph := by
  simp only [totalOK, Bool.and_eq_true, List.all_eq_true] at hT
  obtain ⟨⟨hI, h1⟩, _⟩ := hT
  rcases hk with hk | rfl
  · obtain ⟨hc, hrow⟩ := h1 k hk
    have hP : (k == Kind.Pauli) = false := by
      rw [beq_eq_false_iff_ne]; rintro rfl; revert hk; decide
    have hId : (k == Kind.Identity) = false := by
      rw [beq_eq_false_iff_ne]; rintro rfl; revert hk; decide
    have hsome := conjLoop_total T.prod n (contrib1 T k t) false (by
      intro e _ hp
      unfold contrib1
      split
      · have := hrow e.2 (mem123 hp)
        cases hf : find1 T.c1 e.2 k with
        | none => rw [hf] at this; cases this
        | some v => rfl
      · rfl) L hL
    cases hl : conjLoop T.prod (contrib1 T k t) false L with
    | none => rw [hl] at hsome; cases hsome
    | some rp =>
      refine ⟨rp.1, rp.2 % 4, ?_⟩
      unfold cliffordConj
      rw [hc, hP, hId]
      show (match conjLoop T.prod (contrib1 T k t) false L with
        | some (r, ph) => Res.ok r (ph % 4)
        | none => Res.keyError) = _
      rw [hl]
  · refine ⟨L, 0, ?_⟩
    unfold cliffordConj
    rw [hI]; rfl

theorem contrib2_total (T : Tables) (k : Kind) (c t : ℕ)
    (hrow : ∀ p ∈ [1, 2, 3], ((find2 T.c2 p k true).isSome && (find2 T.c2 p k false).isSome) = true)
    (e : ℕ × ℕ) (hp : e.2 = 1 ∨ e.2 = 2 ∨ e.2 = 3) : (contrib2 T k c t e).isSome = true := by
  have := hrow e.2 (mem123 hp)
  rw [Bool.and_eq_true] at this
  unfold contrib2
  split
  · cases hf : find2 T.c2 e.2 k true with
    | none => rw [hf] at this; cases this.1
    | some v => rfl
  · split
    · cases hf : find2 T.c2 e.2 k false with
      | none => rw [hf] at this; cases this.2
      | some v => rfl
    · rfl

theorem cliffordConj_2q_total (T : Tables) (hT : totalOK T = true) (n : ℕ) (k : Kind)
    (hk : k ∈ kindsC) (c t : ℕ) (L : Label) (hL : LabelOK n L) :
    ∃ r ph, cliffordConj T k [c] [t] L = .ok r ph := by
  simp only [totalOK, Bool.and_eq_true, List.all_eq_true] at hT
  obtain ⟨_, h2⟩ := hT
  obtain ⟨hc, hrow⟩ := h2 k (List.mem_cons_of_mem _ hk)
  have hP : (k == Kind.Pauli) = false := by
    rw [beq_eq_false_iff_ne]; rintro rfl; revert hk; decide
  have hId : (k == Kind.Identity) = false := by
    rw [beq_eq_false_iff_ne]; rintro rfl; revert hk; decide
  have hS : (k == Kind.SWAP) = false := by
    rw [beq_eq_false_iff_ne]; rintro rfl; revert hk; decide
  have hsome := conjLoop_total T.prod n (contrib2 T k c t) true
    (fun e _ hp => contrib2_total T k c t (by simpa using hrow) e hp) L hL
  cases hl : conjLoop T.prod (contrib2 T k c t) true L with
  | none => rw [hl] at hsome; cases hsome
  | some rp =>
    refine ⟨rp.1, rp.2 % 4, ?_⟩
    unfold cliffordConj
    rw [hc, hP, hId]
    simp only [hS]
    show (match conjLoop T.prod (contrib2 T k c t) true L with
      | some (r, ph) => Res.ok r (ph % 4)
      | none => Res.keyError) = _
    rw [hl]

theorem cliffordConj_swap_total (T : Tables) (hT : totalOK T = true) (n : ℕ) (a b : ℕ) (L : Label)
    (hL : LabelOK n L) : ∃ r ph, cliffordConj T .SWAP [] [a, b] L = .ok r ph := by
  simp only [totalOK, Bool.and_eq_true, List.all_eq_true] at hT
  obtain ⟨_, h2⟩ := hT
  obtain ⟨hc, hrow⟩ := h2 .SWAP (List.mem_cons_self ..)
  have hsome := conjLoop_total T.prod n (contrib2 T .SWAP a b) true
    (fun e _ hp => contrib2_total T .SWAP a b (by simpa using hrow) e hp) L hL
  cases hl : conjLoop T.prod (contrib2 T .SWAP a b) true L with
  | none => rw [hl] at hsome; cases hsome
  | some rp =>
    refine ⟨rp.1, rp.2 % 4, ?_⟩
    unfold cliffordConj
    rw [hc]
    show (match conjLoop T.prod (contrib2 T .SWAP a b) true L with
      | some (r, ph) => Res.ok r (ph % 4)
      | none => Res.keyError) = _
    rw [hl]

end QV.MatSound
