import QuriVerif.Proof.NzSound
import QuriVerif.Model.C01
/-
  Soundness of the executable model of `GateKindDecomposer` / `ParallelDecomposer.__call__`
  (`Model/C01.decompPass`) w.r.t. the operator semantics of `Proof/MatSound`, generic field part.

    * §1  gates that differ only in (`theta`-equal) parameters and in the unused `umat`/`matk` fields
          have the same operator (`GateEqv`, `semCirc_congr_eqv`);
    * §2  `flatMap_scalar_gen` : gate-wise rewriting over an arbitrary index type;
    * §3  numeric gates (`NGate`, angles in units of π/64) as symbolic gates over ONE angle variable
          (`NGate.toGate`), and `evalAngle` versus `Angle.subst` (`theta_evalAngle`, needs `ρ 0 ^ 16 = ζ`);
    * §4  `instantiate t g` is the placed, substituted template body; `[g]` is the placed, substituted
          target (`instantiate_eqv`, `target_eqv`);
    * §5  `gateOK` / `CircOK` / `tableOK` (decidable side conditions) and `decompPass_scalar`.
-/
namespace QV.MatSound
open QV QV.Poly

variable {K : Type} [Field K] {ζ : K} {ρ : ℕ → K}

/-! ## 1. parameter-equivalent gates -/

/-- `umat` / `matk` are only read by `UnitaryMatrix` -/
theorem localMat_umat_irrel (g : Gate) (hk : g.kind ≠ .UnitaryMatrix) (u : Mat) (k : ℕ) :
    ({ g with umat := u, matk := k } : Gate).localMat = g.localMat := by
  unfold Gate.localMat
  cases hkind : g.kind <;> simp only [Gate.p]
  exact absurd hkind hk

variable (ζ ρ) in
/-- same kind, wires and Pauli ids; parameters equal as half-angle exponentials -/
structure GateEqv (g g' : Gate) : Prop where
  kind : g.kind = g'.kind
  notU : g.kind ≠ .UnitaryMatrix
  controls : g.controls = g'.controls
  targets : g.targets = g'.targets
  paulis : g.paulis = g'.paulis
  params : ∀ i, theta ζ ρ (g.params.getD i {}) = theta ζ ρ (g'.params.getD i {})

theorem GateEqv.wires {g g' : Gate} (h : GateEqv ζ ρ g g') : g.wires = g'.wires := by
  unfold Gate.wires; rw [h.controls, h.targets]

theorem GateEqv.evalMat (hζ : ζ ^ 8 = -1) (hρ : ∀ j, ρ j ≠ 0) {g g' : Gate}
    (h : GateEqv ζ ρ g g') : evalMat ζ ρ g.localMat.m = evalMat ζ ρ g'.localMat.m := by
  have e : g' = { g.withParams g'.params with umat := g'.umat, matk := g'.matk } := by
    cases g; cases g'
    have h1 := h.kind; have h2 := h.controls; have h3 := h.targets; have h4 := h.paulis
    simp only at h1 h2 h3 h4
    subst h1 h2 h3 h4
    rfl
  have e3 : g'.localMat = (g.withParams g'.params).localMat :=
    (congrArg Gate.localMat e).trans (localMat_umat_irrel (g.withParams g'.params) h.notU _ _)
  funext i j
  rw [e3]
  exact evalMat_of_rel (localMat_rel hζ hρ hρ g h.notU g.params g'.params (fun i m => by
    unfold PRel; rw [eval_ph hζ, eval_ph hζ, h.params i])) i j

theorem actCirc_congr_eqv (hζ : ζ ^ 8 = -1) (hρ : ∀ j, ρ j ≠ 0) {gs gs' : List Gate}
    (h : List.Forall₂ (GateEqv ζ ρ) gs gs') : ∀ A : ℕ → ℕ → K, actCirc ζ ρ gs A = actCirc ζ ρ gs' A := by
  induction h with
  | nil => intro A; rfl
  | cons hg _ ih =>
    intro A
    rw [actCirc_cons, actCirc_cons, hg.evalMat hζ hρ, hg.wires, ih]

/-- equivalent gate lists have the same operator -/
theorem semCirc_congr_eqv (hζ : ζ ^ 8 = -1) (hρ : ∀ j, ρ j ≠ 0) {gs gs' : List Gate}
    (h : List.Forall₂ (GateEqv ζ ρ) gs gs') : semCirc ζ ρ gs = semCirc ζ ρ gs' :=
  actCirc_congr_eqv hζ hρ h idMat

theorem wellFormed_of_eqv {n : ℕ} {gs gs' : List Gate} (h : List.Forall₂ (GateEqv ζ ρ) gs gs')
    (wf : WellFormed n gs') : WellFormed n gs := by
  induction h with
  | nil => intro g hg; simp at hg
  | cons hg _ ih =>
    intro g hg'
    rcases List.mem_cons.mp hg' with rfl | hm
    · rw [hg.wires]; exact wf _ (by simp)
    · exact ih (fun g' hg'' => wf g' (by simp [hg''])) g hm

/-! ## 2. gate-wise rewriting, general index type -/

/-- `flatMap_scalar` for an arbitrary list `xs : List α`, original pieces `f x`, replacements `d x` -/
theorem flatMap_scalar_gen {α : Type} (n : ℕ) (f d : α → List Gate) (xs : List α)
    (wff : ∀ x ∈ xs, WellFormed n (f x)) (wfd : ∀ x ∈ xs, WellFormed n (d x))
    (h : ∀ x ∈ xs, ∃ c : K, c ≠ 0 ∧
      ∀ r, r < 2 ^ n → ∀ k, k < 2 ^ n → semCirc ζ ρ (d x) r k = c * semCirc ζ ρ (f x) r k) :
    ∃ c : K, c ≠ 0 ∧ ∀ r, r < 2 ^ n → ∀ j,
      semCirc ζ ρ (xs.flatMap d) r j = c * semCirc ζ ρ (xs.flatMap f) r j := by
  induction xs using List.reverseRec with
  | nil => exact ⟨1, one_ne_zero, fun r _ j => by simp⟩
  | append_singleton xs x ih =>
    obtain ⟨c, hc, hxs⟩ := ih (fun y hy => wff y (by simp [hy])) (fun y hy => wfd y (by simp [hy]))
      (fun y hy => h y (by simp [hy]))
    obtain ⟨cx, hcx, hx⟩ := h x (by simp)
    refine ⟨cx * c, mul_ne_zero hcx hc, fun r hr j => ?_⟩
    rw [List.flatMap_append, List.flatMap_append, List.flatMap_singleton, List.flatMap_singleton,
      semCirc_append, semCirc_append,
      actCirc_eq_sum n (d x) (wfd x (by simp)) _ r j hr,
      actCirc_eq_sum n (f x) (wff x (by simp)) _ r j hr, ← sum_map_mul_left]
    congr 1
    apply List.map_congr_left
    intro k hk
    have hk' : k < 2 ^ n := List.mem_range.mp hk
    rw [hx r hr k hk', hxs k hk' j]
    ring

end QV.MatSound

/-! ## 3. numeric gates as symbolic gates over one angle variable -/

namespace QV.C01

/-- `p` units of π/64, as an affine angle in the single variable `φ₀` (read at `φ₀ = π/64`) -/
def unitAngle (p : Int) : Angle := ⟨[p], 0⟩

/-- the numeric gate as a gate of the matrix semantics -/
def NGate.toGate (g : NGate) : Gate :=
  { kind := g.kind, controls := g.controls, targets := g.targets, paulis := g.paulis,
    params := g.params.map unitAngle }

/-- placement used by `instantiate`: template wire `i` ↦ `i`-th of `controls ++ targets` -/
def NGate.sigma (g : NGate) : ℕ → ℕ := fun i => (g.controls ++ g.targets).getD i 0

/-- the angle arguments of `g`, as the substitution for the template variables -/
def NGate.args (g : NGate) : List Angle := g.params.map unitAngle

/-- the gate has the arity of the template's target -/
def shapeOK (t : Template) (g : NGate) : Bool :=
  g.controls.length == t.target.controls.length && g.targets.length == t.target.targets.length &&
  g.params.length == t.target.params.length && g.paulis == t.target.paulis

/-- side conditions on one gate of the input circuit: distinct wires `< n`, no literal matrix, and –
    if the pass rewrites it – the arity that its kind requires -/
def gateOK (n : Nat) (tbl : Table) (names : List String) (g : NGate) : Bool :=
  decide ((g.controls ++ g.targets).Nodup) && (g.controls ++ g.targets).all (· < n) &&
  decide (g.kind ≠ .UnitaryMatrix) &&
  match lookupKind tbl names g.kind with
  | some t => shapeOK t g
  | none => true

/-- decidable well-formedness of a numeric circuit w.r.t. a table and a selection of decomposers -/
def CircOK (n : Nat) (tbl : Table) (names : List String) (c : List NGate) : Prop :=
  c.all (gateOK n tbl names) = true

instance (n : Nat) (tbl : Table) (names : List String) (c : List NGate) :
    Decidable (CircOK n tbl names c) := by unfold CircOK; infer_instance

/-- shape of a table entry (independent of any circuit): the key is the target's kind, the target
    sits on wires `0..nq-1` (controls first) and its parameters are the variables `φ₀, φ₁, …` -/
def tableEntryOK (e : String × Kind × Template) : Bool :=
  decide (e.2.1 = e.2.2.target.kind) &&
  decide (e.2.2.target.controls = List.range e.2.2.target.controls.length) &&
  decide (e.2.2.target.targets
    = (List.range e.2.2.target.targets.length).map (· + e.2.2.target.controls.length)) &&
  decide (e.2.2.nq = e.2.2.target.controls.length + e.2.2.target.targets.length) &&
  decide (e.2.2.target.params = Angle.vars e.2.2.target.params.length)

end QV.C01

namespace QV.MatSound
open QV QV.Poly QV.C01

variable {K : Type} [Field K] {ζ : K} {ρ : ℕ → K}

theorem theta_unit (p : ℤ) : theta ζ ρ (unitAngle p) = ρ 0 ^ p := by
  simp [theta, unitAngle, evalExps]

theorem foldl_dot_acc (zs : List (ℤ × ℤ)) (a : ℤ) :
    zs.foldl (fun s (c, p) => s + c * p) a = a + zs.foldl (fun s (c, p) => s + c * p) 0 := by
  induction zs generalizing a with
  | nil => simp
  | cons z zs ih =>
    rw [List.foldl_cons, List.foldl_cons, ih, ih (0 + _)]
    ring

theorem evalExps_units (hρ0 : ρ 0 ≠ 0) (ρ' : ℕ → K) : ∀ (cs ps : List ℤ) (s : ℕ),
    (∀ i, ρ' (s + i) = ρ 0 ^ (ps.getD i 0)) →
    evalExps ρ' s cs = ρ 0 ^ ((List.zip cs ps).foldl (fun s (c, p) => s + c * p) 0) := by
  intro cs
  induction cs with
  | nil => intro ps s _; simp [evalExps]
  | cons c cs ih =>
    intro ps s h
    cases ps with
    | nil =>
      rw [evalExps_one (c :: cs) s (fun i => by rw [h i]; simp)]
      simp
    | cons p ps =>
      rw [List.zip_cons_cons, List.foldl_cons, foldl_dot_acc]
      rw [evalExps, ih ps (s + 1) (fun i => by
          have := h (i + 1)
          rw [List.getD_cons_succ] at this
          rw [← this]; congr 1; omega)]
      have := h 0
      rw [Nat.add_zero, List.getD_cons_zero] at this
      rw [this, ← zpow_mul, ← zpow_add₀ hρ0]
      congr 1
      ring

theorem substRho_units (ps : List ℤ) (i : ℕ) :
    substRho ζ ρ (ps.map unitAngle) i = ρ 0 ^ (ps.getD i 0) := by
  unfold substRho
  by_cases hi : i < ps.length
  · simp [List.getD_eq_getElem?_getD, hi, theta_unit]
  · rw [getD_ge _ _ (by simpa using hi), getD_ge _ _ (by omega), theta_default, zpow_zero]

/-- **`evalAngle` is `Angle.subst`**, as half-angle exponentials, when the unit variable satisfies
    `ρ₀^16 = ζ` (16 units of π/64 are π/4) -/
theorem theta_evalAngle (hζ : ζ ^ 8 = -1) (hρ : ∀ j, ρ j ≠ 0) (h16 : ρ 0 ^ 16 = ζ) (a : Angle)
    (ps : List ℤ) :
    theta ζ ρ (unitAngle (evalAngle a ps)) = theta ζ ρ (Angle.subst (ps.map unitAngle) a) := by
  rw [theta_subst hζ hρ, theta_unit]
  unfold theta evalAngle unitsPerQuarterPi
  rw [evalExps_units (hρ 0) _ a.cs ps 0 (fun i => by rw [Nat.zero_add]; exact substRho_units ps i),
    zpow_add₀ (hρ 0), mul_comm a.k 16, zpow_mul, mul_comm]
  congr 2
  rw [← h16]
  exact (zpow_natCast (ρ 0) 16)

/-! ## 4. `instantiate` versus placement + substitution -/

theorem forall₂_map_map_mem {α β γ : Type} (R : β → γ → Prop) (l : List α) (f : α → β) (g : α → γ)
    (h : ∀ x ∈ l, R (f x) (g x)) : List.Forall₂ R (l.map f) (l.map g) := by
  induction l with
  | nil => exact List.Forall₂.nil
  | cons a l ih =>
    exact List.Forall₂.cons (h a (by simp)) (ih (fun x hx => h x (by simp [hx])))

/-- the model's instantiation of a template body is the placed, substituted body -/
theorem instantiate_eqv (hζ : ζ ^ 8 = -1) (hρ : ∀ j, ρ j ≠ 0) (h16 : ρ 0 ^ 16 = ζ) (t : Template)
    (g : NGate) (hkb : ∀ b ∈ t.body, b.kind ≠ .UnitaryMatrix) :
    List.Forall₂ (GateEqv ζ ρ) ((instantiate t g).map NGate.toGate)
      ((t.body.map (Gate.subst g.args)).map (Gate.relabel g.sigma)) := by
  unfold instantiate
  simp only [List.map_map]
  apply forall₂_map_map_mem
  intro b hb
  refine ⟨rfl, hkb b hb, rfl, rfl, rfl, fun i => ?_⟩
  show theta ζ ρ (((b.params.map (evalAngle · g.params)).map unitAngle).getD i {})
    = theta ζ ρ ((b.params.map (Angle.subst g.args)).getD i {})
  by_cases hi : i < b.params.length
  · simp only [List.getD_eq_getElem?_getD, List.getElem?_map, List.getElem?_eq_getElem hi,
      Option.map_some, Option.getD_some]
    exact theta_evalAngle hζ hρ h16 _ _
  · rw [getD_ge _ _ (by simpa using hi), getD_ge _ _ (by simpa using hi)]

theorem range_map_getD_left (l l' : List ℕ) :
    (List.range l.length).map (fun i => (l ++ l').getD i 0) = l := by
  apply List.ext_getElem (by simp)
  intro i h1 h2
  simp [List.getD_eq_getElem?_getD, List.getElem?_append_left h2, h2]

theorem range_map_getD_right (l l' : List ℕ) :
    ((List.range l'.length).map (· + l.length)).map (fun i => (l ++ l').getD i 0) = l' := by
  apply List.ext_getElem (by simp)
  intro i h1 h2
  simp [List.getD_eq_getElem?_getD, List.getElem?_append_right, h2]

/-- the gate itself is the placed, substituted target of a template of matching shape -/
theorem target_eqv (hζ : ζ ^ 8 = -1) (hρ : ∀ j, ρ j ≠ 0) (t : Template) (g : NGate)
    (hk : t.target.kind = g.kind) (hU : g.kind ≠ .UnitaryMatrix)
    (hc : t.target.controls = List.range g.controls.length)
    (ht : t.target.targets = (List.range g.targets.length).map (· + g.controls.length))
    (hp : t.target.paulis = g.paulis) (hpar : t.target.params = Angle.vars g.params.length) :
    GateEqv ζ ρ (NGate.toGate g) ((t.target.subst g.args).relabel g.sigma) := by
  refine ⟨hk.symm, hU, ?_, ?_, hp.symm, fun i => ?_⟩
  · show g.controls = t.target.controls.map g.sigma
    rw [hc]; exact (range_map_getD_left _ _).symm
  · show g.targets = t.target.targets.map g.sigma
    rw [ht]; exact (range_map_getD_right _ _).symm
  · show theta ζ ρ ((g.params.map unitAngle).getD i {})
      = theta ζ ρ ((t.target.params.map (Angle.subst g.args)).getD i {})
    rw [hpar, getD_map_subst, theta_subst hζ hρ]
    by_cases hi : i < g.params.length
    · rw [Angle.vars, getD_map_range _ _ _ _ hi, theta_var]; rfl
    · rw [Angle.vars, getD_ge _ _ (by simpa using hi), getD_ge _ _ (by simp; omega), theta_default,
        theta_default]

theorem placement_of_nodup (ws : List ℕ) (n : ℕ) (hnd : ws.Nodup) (hlt : ∀ w ∈ ws, w < n) :
    Placement (fun i => ws.getD i 0) ws.length n := by
  constructor
  · intro a ha b hb h
    rw [getD_eq_getElem' _ _ ha, getD_eq_getElem' _ _ hb] at h
    exact (hnd.getElem_inj_iff).mp h
  · intro q hq
    exact hlt _ (getD_mem ws hq)

/-! ## 5. the pass -/

variable (ζ ρ) in
/-- what is needed from one table entry: shape, no literal matrices, well-formed body, and soundness
    of every instance (provided for the translated table by `Props/C01Lift`) -/
structure EntrySound (e : String × Kind × Template) : Prop where
  shape : tableEntryOK e = true
  notU : ∀ b ∈ e.2.2.body, b.kind ≠ .UnitaryMatrix
  wfb : WellFormed e.2.2.nq e.2.2.body
  sound : ∀ (σ : ℕ → ℕ) (n : ℕ), Placement σ e.2.2.nq n → ∀ as : List Angle,
    ∃ c : K, c ≠ 0 ∧ ∀ r, r < 2 ^ n → ∀ j, j < 2 ^ n →
      semCirc ζ ρ ((e.2.2.body.map (Gate.subst as)).map (Gate.relabel σ)) r j
        = c * semCirc ζ ρ [(e.2.2.target.subst as).relabel σ] r j

theorem lookupKind_some {tbl : Table} {names : List String} {k : Kind} {t : Template}
    (h : lookupKind tbl names k = some t) : ∃ e ∈ tbl, e.2.1 = k ∧ e.2.2 = t := by
  unfold lookupKind at h
  cases hf : tbl.find? (fun e => e.2.1 == k && names.contains e.1) with
  | none => rw [hf] at h; simp at h
  | some e =>
    rw [hf] at h
    have hp := List.find?_some hf
    simp only [Bool.and_eq_true, beq_iff_eq] at hp
    exact ⟨e, List.mem_of_find?_eq_some hf, hp.1, by simpa using h⟩

/-- **One gate, one table entry**: the gates emitted by `instantiate` form a well-formed list whose
    operator is a non-zero multiple of the gate's -/
theorem instantiate_scalar (hζ : ζ ^ 8 = -1) (hρ : ∀ j, ρ j ≠ 0) (h16 : ρ 0 ^ 16 = ζ)
    (e : String × Kind × Template) (E : EntrySound ζ ρ e) (n : ℕ) (g : NGate)
    (hnd : (g.controls ++ g.targets).Nodup) (hlt : ∀ w ∈ g.controls ++ g.targets, w < n)
    (hU : g.kind ≠ .UnitaryMatrix) (hk : e.2.1 = g.kind) (hs : shapeOK e.2.2 g = true) :
    WellFormed n ((instantiate e.2.2 g).map NGate.toGate) ∧
    ∃ c : K, c ≠ 0 ∧ ∀ r, r < 2 ^ n → ∀ k, k < 2 ^ n →
      semCirc ζ ρ ((instantiate e.2.2 g).map NGate.toGate) r k
        = c * semCirc ζ ρ [NGate.toGate g] r k := by
  have hsh := E.shape
  simp only [tableEntryOK, Bool.and_eq_true, decide_eq_true_eq] at hsh
  obtain ⟨⟨⟨⟨h1, h2⟩, h3⟩, h4⟩, h5⟩ := hsh
  simp only [shapeOK, Bool.and_eq_true, beq_iff_eq] at hs
  obtain ⟨⟨⟨s1, s2⟩, s3⟩, s4⟩ := hs
  have hnq : e.2.2.nq = (g.controls ++ g.targets).length := by
    rw [h4, List.length_append, s1, s2]
  have P : Placement g.sigma e.2.2.nq n := by
    rw [hnq]; exact placement_of_nodup _ n hnd hlt
  have hev := instantiate_eqv hζ hρ h16 e.2.2 g E.notU
  have htv : List.Forall₂ (GateEqv ζ ρ) [NGate.toGate g]
      [(e.2.2.target.subst g.args).relabel g.sigma] :=
    List.Forall₂.cons (target_eqv hζ hρ e.2.2 g (h1.symm.trans hk) hU (by rw [h2, s1])
      (by rw [h3, s1, s2]) s4.symm (by rw [h5, s3])) List.Forall₂.nil
  have wfs : WellFormed e.2.2.nq (e.2.2.body.map (Gate.subst g.args)) := by
    intro g' hg'
    obtain ⟨b, hb, rfl⟩ := List.mem_map.mp hg'
    exact E.wfb b hb
  refine ⟨wellFormed_of_eqv hev (wellFormed_relabel P _ wfs), ?_⟩
  obtain ⟨c, hc, hsnd⟩ := E.sound g.sigma n P g.args
  refine ⟨c, hc, fun r hr k hk' => ?_⟩
  rw [semCirc_congr_eqv hζ hρ hev, hsnd r hr k hk', semCirc_congr_eqv hζ hρ htv]

/-- **The decomposition pass preserves the operator up to a non-zero scalar** (generic field) -/
theorem decompPass_scalar (hζ : ζ ^ 8 = -1) (hρ : ∀ j, ρ j ≠ 0) (h16 : ρ 0 ^ 16 = ζ)
    (tbl : Table) (names : List String) (n : ℕ) (c : List NGate)
    (htbl : ∀ e ∈ tbl, EntrySound ζ ρ e) (hc : CircOK n tbl names c) :
    ∃ z : K, z ≠ 0 ∧ ∀ r, r < 2 ^ n → ∀ j,
      semCirc ζ ρ ((decompPass tbl names c).map NGate.toGate) r j
        = z * semCirc ζ ρ (c.map NGate.toGate) r j := by
  unfold decompPass
  rw [List.map_flatMap, List.map_eq_flatMap (l := c)]
  have hg : ∀ g ∈ c, gateOK n tbl names g = true := List.all_eq_true.mp hc
  have key : ∀ g ∈ c, WellFormed n [NGate.toGate g] ∧
      WellFormed n ((match lookupKind tbl names g.kind with
        | some t => instantiate t g | none => [g]).map NGate.toGate) ∧
      ∃ z : K, z ≠ 0 ∧ ∀ r, r < 2 ^ n → ∀ k, k < 2 ^ n →
        semCirc ζ ρ ((match lookupKind tbl names g.kind with
          | some t => instantiate t g | none => [g]).map NGate.toGate) r k
          = z * semCirc ζ ρ [NGate.toGate g] r k := by
    intro g hgc
    have ok := hg g hgc
    simp only [gateOK, Bool.and_eq_true, decide_eq_true_eq, List.all_eq_true] at ok
    obtain ⟨⟨⟨hnd, hlt⟩, hU⟩, hm⟩ := ok
    have hlt' : ∀ w ∈ g.controls ++ g.targets, w < n := fun w hw => by simpa using hlt w hw
    have wfg : WellFormed n [NGate.toGate g] := by
      intro g' hg'
      rw [List.mem_singleton] at hg'
      subst hg'
      exact ⟨hnd, hlt'⟩
    refine ⟨wfg, ?_⟩
    cases hl : lookupKind tbl names g.kind with
    | none => exact ⟨wfg, 1, one_ne_zero, fun r _ k _ => by simp⟩
    | some t =>
      rw [hl] at hm
      obtain ⟨e, he, hk, rfl⟩ := lookupKind_some hl
      exact instantiate_scalar hζ hρ h16 e (htbl e he) n g hnd hlt' hU hk hm
  exact flatMap_scalar_gen n (fun g => [NGate.toGate g]) _ c (fun g h => (key g h).1)
    (fun g h => (key g h).2.1) (fun g h => (key g h).2.2)

end QV.MatSound
