import QuriVerif.Found.Poly
import Mathlib.Algebra.Field.Defs
import Mathlib.Algebra.GroupWithZero.Basic
import Mathlib.Algebra.Order.Ring.Cast
import Mathlib.Tactic.Ring
/-
  Soundness of the exact-ring reflection (DESIGN §3.1).

  For ANY field `K`, any `ζ : K` with `ζ^8 = -1` and any assignment `ρ : ℕ → K` of non-zero
  values to the angle variables, `eval` maps the normal-form operations of `Found/Poly.lean`
  to the field operations:
      eval (add p q) = eval p + eval q,   eval (mul p q) = eval p * eval q,   eval (neg p) = -eval p.
  Hence structural equality of normal forms (what `decide +kernel` checks) implies equality of
  the denoted numbers for every choice of angles.  Instantiating K = ℂ, ζ = exp(iπ/8),
  ρ j = exp(iφⱼ/2) gives the reading used throughout (that instantiation needs only
  exp(iπ) = -1 and exp ≠ 0).
-/
namespace QV.Poly
open QV

variable {K : Type} [Field K] (ζ : K) (ρ : ℕ → K)

/-- value of an exponent vector whose first entry belongs to variable `i` -/
def evalExps : ℕ → Exps → K
  | _, [] => 1
  | i, a :: as => ρ i ^ a * evalExps (i + 1) as

def evalMono (m : Mono) : K := ζ ^ m.eu * evalExps ρ 0 m.ex

def evalTerm (t : Term) : K := (t.2 : K) * evalMono ζ ρ t.1

def eval (p : Poly) : K := (p.map (evalTerm ζ ρ)).sum

variable {ζ ρ}

theorem mono_beq_iff (a b : Mono) : (a == b) = true ↔ a = b := by
  cases a with | mk e1 x1 => cases b with | mk e2 x2 =>
  constructor
  · intro h
    have : (e1 == e2 && x1 == x2) = true := h
    simp at this
    rw [this.1, this.2]
  · intro h
    injection h with h1 h2
    subst h1; subst h2
    show (e1 == e1 && x1 == x1) = true
    simp

theorem evalExps_trim (i : ℕ) (e : Exps) : evalExps ρ i (Exps.trim e) = evalExps ρ i e := by
  induction e generalizing i with
  | nil => rfl
  | cons a as ih =>
    simp only [Exps.trim]
    cases h : Exps.trim as with
    | nil =>
      have h2 := ih (i + 1)
      rw [h] at h2
      by_cases ha : (a == 0) = true
      · have : a = 0 := by simpa using ha
        simp [ha, evalExps, this, ← h2]
      · simp [ha, evalExps, ← h2]
    | cons b bs =>
      show ρ i ^ a * evalExps ρ (i + 1) (b :: bs) = ρ i ^ a * evalExps ρ (i + 1) as
      rw [← h, ih]

theorem evalExps_addRaw (hρ : ∀ j, ρ j ≠ 0) (i : ℕ) (a b : Exps) :
    evalExps ρ i (Exps.addRaw a b) = evalExps ρ i a * evalExps ρ i b := by
  induction a generalizing i b with
  | nil => simp [Exps.addRaw, evalExps]
  | cons x xs ih =>
    cases b with
    | nil => simp [Exps.addRaw, evalExps]
    | cons y ys =>
      simp only [Exps.addRaw, evalExps, ih (i + 1) ys, zpow_add₀ (hρ i)]
      ring

theorem evalExps_add (hρ : ∀ j, ρ j ≠ 0) (a b : Exps) :
    evalExps ρ 0 (Exps.add a b) = evalExps ρ 0 a * evalExps ρ 0 b := by
  rw [Exps.add, evalExps_trim, evalExps_addRaw hρ]

theorem eval_nil : eval ζ ρ ([] : Poly) = 0 := rfl

theorem eval_cons (t : Term) (p : Poly) : eval ζ ρ (t :: p) = evalTerm ζ ρ t + eval ζ ρ p := by
  simp [eval]

theorem eval_addTerm (t : Term) (p : Poly) : eval ζ ρ (addTerm t p) = evalTerm ζ ρ t + eval ζ ρ p := by
  induction p with
  | nil =>
    simp only [addTerm]
    by_cases h : (t.2 == 0) = true
    · have : t.2 = 0 := by simpa using h
      simp [h, eval_nil, evalTerm, this]
    · simp [h, eval_cons, eval_nil]
  | cons s p ih =>
    simp only [addTerm]
    by_cases h1 : (t.1 == s.1) = true
    · have e1 : t.1 = s.1 := (mono_beq_iff _ _).mp h1
      simp only [h1, if_true]
      by_cases h2 : (t.2 + s.2 == 0) = true
      · have e2 : t.2 + s.2 = 0 := by simpa using h2
        simp only [h2, if_true, eval_cons, evalTerm, e1]
        have : ((t.2 : K) + (s.2 : K)) = 0 := by exact_mod_cast congrArg (fun z : Int => (z : K)) e2
        rw [← add_assoc, ← add_mul, this, zero_mul, zero_add]
      · have h2' : (t.2 + s.2 == 0) = false := by simpa using h2
        simp only [h2', Bool.false_eq_true, if_false, eval_cons, evalTerm, e1]
        push_cast
        ring
    · have h1' : (t.1 == s.1) = false := by simpa using h1
      simp only [h1', Bool.false_eq_true, if_false]
      by_cases h3 : Mono.lt t.1 s.1 = true
      · simp only [h3, if_true]
        by_cases h4 : (t.2 == 0) = true
        · have : t.2 = 0 := by simpa using h4
          simp [h4, eval_cons, evalTerm, this]
        · simp [h4, eval_cons]
      · have h3' : Mono.lt t.1 s.1 = false := by simpa using h3
        simp only [h3', Bool.false_eq_true, if_false, eval_cons, ih]
        ring

theorem eval_add (p q : Poly) : eval ζ ρ (add p q) = eval ζ ρ p + eval ζ ρ q := by
  unfold add
  induction p with
  | nil => simp [eval_nil]
  | cons t p ih => simp only [List.foldr_cons, eval_addTerm, ih, eval_cons]; ring

theorem eval_neg (p : Poly) : eval ζ ρ (neg p) = - eval ζ ρ p := by
  induction p with
  | nil => simp [neg, eval_nil]
  | cons t p ih =>
    have : neg (t :: p) = (t.1, -t.2) :: neg p := by simp [neg]
    rw [this, eval_cons, eval_cons, ih]
    simp [evalTerm]
    ring

theorem eval_sub (p q : Poly) : eval ζ ρ (sub p q) = eval ζ ρ p - eval ζ ρ q := by
  rw [sub, eval_add, eval_neg]; ring

theorem evalTerm_mulTerm (hζ : ζ ^ 8 = -1) (hρ : ∀ j, ρ j ≠ 0) (s t : Term) :
    evalTerm ζ ρ (mulTerm s t) = evalTerm ζ ρ s * evalTerm ζ ρ t := by
  unfold mulTerm
  by_cases h : s.1.eu + t.1.eu < 8
  · simp only [h, if_true, evalTerm, evalMono, evalExps_add hρ, pow_add]
    push_cast
    ring
  · simp only [h, if_false, evalTerm, evalMono, evalExps_add hρ]
    have hge : 8 ≤ s.1.eu + t.1.eu := by omega
    have e : ζ ^ (s.1.eu + t.1.eu - 8) * ζ ^ 8 = ζ ^ s.1.eu * ζ ^ t.1.eu := by
      rw [← pow_add, ← pow_add]; congr 1; omega
    rw [hζ] at e
    push_cast
    have e' : ζ ^ (s.1.eu + t.1.eu - 8) = -(ζ ^ s.1.eu * ζ ^ t.1.eu) := by
      have := e; rw [mul_neg, mul_one] at this; rw [← this]; ring
    rw [e']
    ring

theorem eval_mulTermPoly (hζ : ζ ^ 8 = -1) (hρ : ∀ j, ρ j ≠ 0) (s : Term) (q : Poly) :
    eval ζ ρ (mulTermPoly s q) = evalTerm ζ ρ s * eval ζ ρ q := by
  unfold mulTermPoly
  induction q with
  | nil => simp [eval_nil]
  | cons t q ih =>
    simp only [List.foldr_cons, eval_addTerm, ih, evalTerm_mulTerm hζ hρ, eval_cons]
    ring

/-- the reflection is multiplicative -/
theorem eval_mul (hζ : ζ ^ 8 = -1) (hρ : ∀ j, ρ j ≠ 0) (p q : Poly) :
    eval ζ ρ (mul p q) = eval ζ ρ p * eval ζ ρ q := by
  unfold mul
  induction p with
  | nil => simp [eval_nil]
  | cons s p ih =>
    simp only [List.foldr_cons, eval_add, eval_mulTermPoly hζ hρ, ih, eval_cons]
    ring

/-- what a discharged `p == q` obligation means: equal values for every choice of angles -/
theorem eq_sound (p q : Poly) (h : p = q) : eval ζ ρ p = eval ζ ρ q := by rw [h]

/-- what a discharged cross-product (`propTo`) entry check means -/
theorem cross_sound (hζ : ζ ^ 8 = -1) (hρ : ∀ j, ρ j ≠ 0) (a b c d : Poly) (h : mul a d = mul c b) :
    eval ζ ρ a * eval ζ ρ d = eval ζ ρ c * eval ζ ρ b := by
  rw [← eval_mul hζ hρ, ← eval_mul hζ hρ, h]

end QV.Poly
