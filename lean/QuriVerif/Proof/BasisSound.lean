import QuriVerif.Proof.InvSound
import QuriVerif.Proof.C16
/-
  C16 over the concrete operator semantics: the Pauli bookkeeping of `comp_basis.py`
  (`Model/C16.addSinglePauli`, `addPauli`, `track`) describes exactly the columns of the operators
  `semCirc` of `Found/Gate.lean`, for ALL register sizes (generic field part).

    * §1  `semCirc_single` : entry `(r, b)` of a single embedded gate;
    * §2  bits: `Nat.testBit` / `^^^` versus `Gate.bitAt`, flipping one bit;
    * §3  one single-qubit Pauli gate (`single_pauli_col`);
    * §4/5 factor lists, Pauli-kind gates read as their single-qubit factors, chains (`track_col`);
    * §6  the gates themselves (`track_col_gates`): X, Y, Z gates are their factor
          (`sameOp_single`); for the multi-qubit `Pauli` gate the identification of its `2^k × 2^k`
          local matrix (`xmask` / `phaseExp` folds of `Gate.localMat`) with the product of its
          factors is a hypothesis (`SameOp`) – `_partial`.
-/
namespace QV.MatSound
open QV QV.Poly QV.C01 QV.C16

variable {K : Type} [Field K] {ζ : K} {ρ : ℕ → K}

/-! ## 1. one embedded gate, entrywise -/

/-- a basis index is determined by its part outside `ws` and its local index on `ws` -/
theorem eq_iff_ws (n : ℕ) (ws : List ℕ) (hnd : ws.Nodup) (hw : ∀ w ∈ ws, w < n) (r j : ℕ)
    (hr : r < 2 ^ n) (hj : j < 2 ^ n) :
    r = j ↔ Gate.clearBits ws r = Gate.clearBits ws j ∧ Gate.locIdx ws r = Gate.locIdx ws j := by
  constructor
  · intro h; subst h; exact ⟨rfl, rfl⟩
  · intro ⟨h1, h2⟩
    rw [← restore_row n ws r hnd hw hr, ← restore_row n ws j hnd hw hj, h1, h2]

/-- **entry `(r, b)` of a single gate embedded on `n` qubits**: the local matrix entry at the local
    indices if `r` and `b` agree outside the gate's wires, `0` otherwise -/
theorem semCirc_single (n : ℕ) (g : Gate) (hnd : g.wires.Nodup) (hw : ∀ w ∈ g.wires, w < n)
    (r b : ℕ) (hr : r < 2 ^ n) (hb : b < 2 ^ n) :
    semCirc ζ ρ [g] r b
      = if Gate.clearBits g.wires r = Gate.clearBits g.wires b
        then evalMat ζ ρ g.localMat.m (Gate.locIdx g.wires r) (Gate.locIdx g.wires b) else 0 := by
  show embedAct _ g.wires idMat r b = _
  unfold embedAct
  have hlb := locIdx_lt g.wires b
  by_cases hc : Gate.clearBits g.wires r = Gate.clearBits g.wires b
  · rw [if_pos hc]
    rw [List.map_congr_left (g := fun l => (idMat (Gate.locIdx g.wires b) l : K)
        * evalMat ζ ρ g.localMat.m (Gate.locIdx g.wires r) l) (fun l hl => ?_)]
    · exact sum_range_ite _ _ hlb _
    · have hl' := List.mem_range.mp hl
      by_cases e : Gate.locIdx g.wires b = l
      · subst e
        rw [hc, restore_row n g.wires b hnd hw hb]
        simp [idMat]
      · have hne : Gate.clearBits g.wires r + Gate.spread g.wires l ≠ b := by
          intro h
          apply e
          rw [← h, locIdx_restore n g.wires r l hnd hw hr hl']
        simp [idMat, e, hne]
  · rw [if_neg hc]
    apply sum_map_zero
    intro l _
    have hne : Gate.clearBits g.wires r + Gate.spread g.wires l ≠ b := by
      intro h
      apply hc
      rw [← h, clearBits_restore n g.wires r l hnd hw hr]
    simp [idMat, hne]

/-! ## 2. bits -/

theorem bitAt_eq_testBit (x v : ℕ) : Gate.bitAt x v = if x.testBit v then 1 else 0 := by
  unfold Gate.bitAt
  rw [Nat.testBit_eq_decide_div_mod_eq]
  by_cases h : x / 2 ^ v % 2 = 1
  · simp [h]
  · have : x / 2 ^ v % 2 = 0 := by omega
    simp [this]

theorem bitAt_flip (x q v : ℕ) :
    Gate.bitAt (x ^^^ 2 ^ q) v = if v = q then 1 - Gate.bitAt x q else Gate.bitAt x v := by
  rw [bitAt_eq_testBit, Nat.testBit_xor, Nat.testBit_two_pow]
  by_cases e : v = q
  · subst e
    rw [if_pos rfl, bitAt_eq_testBit]
    by_cases h : x.testBit v <;> simp [h]
  · have : ¬ q = v := fun h => e h.symm
    rw [if_neg e, bitAt_eq_testBit]
    simp [this]

theorem flip_lt (n x q : ℕ) (hx : x < 2 ^ n) (hq : q < n) : x ^^^ 2 ^ q < 2 ^ n :=
  Nat.xor_lt_two_pow hx (Nat.pow_lt_pow_right (by norm_num) hq)

theorem locIdx_single (q x : ℕ) : Gate.locIdx [q] x = Gate.bitAt x q := by
  rw [locIdx_val]; simp [val]

/-- flipping bit `q` leaves the part outside `[q]` unchanged … -/
theorem clearBits_flip (n x q : ℕ) (hx : x < 2 ^ n) (hq : q < n) :
    Gate.clearBits [q] (x ^^^ 2 ^ q) = Gate.clearBits [q] x := by
  have hnd : [q].Nodup := by simp
  have hw : ∀ w ∈ [q], w < n := by intro w h; simp at h; omega
  have hx' := flip_lt n x q hx hq
  apply bitAt_ext n _ _ (clearBits_lt n _ _ hnd hw hx') (clearBits_lt n _ _ hnd hw hx)
  intro v _
  rw [bitAt_clearBits n _ _ hnd hw hx', bitAt_clearBits n _ _ hnd hw hx, bitAt_flip]
  by_cases e : v = q
  · simp [e]
  · simp [e]

/-- … and complements the local index -/
theorem locIdx_flip (x q : ℕ) : Gate.locIdx [q] (x ^^^ 2 ^ q) = 1 - Gate.locIdx [q] x := by
  rw [locIdx_single, locIdx_single, bitAt_flip, if_pos rfl]

end QV.MatSound

/-! ## 3. one single-qubit Pauli gate -/

namespace QV.C16
/-- the gate kind of a single-qubit Pauli -/
def kindOfP1 : P1 → Kind
  | .X => .X
  | .Y => .Y
  | .Z => .Z
end QV.C16

namespace QV.MatSound
open QV QV.Poly QV.C01 QV.C16

variable {K : Type} [Field K] {ζ : K} {ρ : ℕ → K}

theorem eval_I : eval ζ ρ Poly.I = ζ ^ 4 := by
  have : Poly.I = [(⟨4, []⟩, 1)] := by decide
  rw [this]; simp [eval, evalTerm, evalMono, evalExps]

theorem zeta_zpow_neg4 (hζ : ζ ^ 8 = -1) : ζ ^ (-4 : ℤ) = -ζ ^ 4 := by
  have h0 := zeta_ne_zero hζ
  have h8 : ζ ^ (8 : ℤ) = -1 := by rw [← hζ]; exact zpow_natCast ζ 8
  have h4 : ζ ^ (4 : ℤ) = ζ ^ 4 := zpow_natCast ζ 4
  have : ζ ^ (-4 : ℤ) * ζ ^ (8 : ℤ) = ζ ^ (4 : ℤ) := by rw [← zpow_add₀ h0]; norm_num
  rw [h8, h4] at this
  have : ζ ^ (-4 : ℤ) = -(ζ ^ (-4 : ℤ) * -1) := by ring
  rw [this]; congr 1

/-- column `b` of a gate on wire `q` whose local matrix is anti-diagonal -/
theorem col_flip (n q : ℕ) (g : Gate) (hwires : g.wires = [q]) (hq : q < n) (amp : ℕ → K)
    (hL : ∀ a c, a < 2 → c < 2 → evalMat ζ ρ g.localMat.m a c = if a = 1 - c then amp c else 0)
    (r b : ℕ) (hr : r < 2 ^ n) (hb : b < 2 ^ n) :
    semCirc ζ ρ [g] r b = if r = b ^^^ 2 ^ q then amp (Gate.bitAt b q) else 0 := by
  have hnd : g.wires.Nodup := by rw [hwires]; simp
  have hw : ∀ w ∈ g.wires, w < n := by rw [hwires]; intro w h; simp at h; omega
  rw [semCirc_single n g hnd hw r b hr hb, hwires]
  have hla : Gate.locIdx [q] r < 2 := by have := locIdx_lt [q] r; simpa using this
  have hlc : Gate.locIdx [q] b < 2 := by have := locIdx_lt [q] b; simpa using this
  rw [hL _ _ hla hlc]
  have hiff := eq_iff_ws n [q] (by simp) (by intro w h; simp at h; omega) r (b ^^^ 2 ^ q) hr
    (flip_lt n b q hb hq)
  rw [clearBits_flip n b q hb hq, locIdx_flip] at hiff
  by_cases h1 : Gate.clearBits [q] r = Gate.clearBits [q] b
  · by_cases h2 : Gate.locIdx [q] r = 1 - Gate.locIdx [q] b
    · rw [if_pos h1, if_pos h2, if_pos (hiff.mpr ⟨h1, h2⟩), locIdx_single]
    · rw [if_pos h1, if_neg h2, if_neg (fun h => h2 (hiff.mp h).2)]
  · rw [if_neg h1, if_neg (fun h => h1 (hiff.mp h).1)]

/-- column `b` of a gate on wire `q` whose local matrix is diagonal -/
theorem col_diag (n q : ℕ) (g : Gate) (hwires : g.wires = [q]) (hq : q < n) (amp : ℕ → K)
    (hL : ∀ a c, a < 2 → c < 2 → evalMat ζ ρ g.localMat.m a c = if a = c then amp c else 0)
    (r b : ℕ) (hr : r < 2 ^ n) (hb : b < 2 ^ n) :
    semCirc ζ ρ [g] r b = if r = b then amp (Gate.bitAt b q) else 0 := by
  have hnd : g.wires.Nodup := by rw [hwires]; simp
  have hw : ∀ w ∈ g.wires, w < n := by rw [hwires]; intro w h; simp at h; omega
  rw [semCirc_single n g hnd hw r b hr hb, hwires]
  have hla : Gate.locIdx [q] r < 2 := by have := locIdx_lt [q] r; simpa using this
  have hlc : Gate.locIdx [q] b < 2 := by have := locIdx_lt [q] b; simpa using this
  rw [hL _ _ hla hlc]
  have hiff := eq_iff_ws n [q] (by simp) (by intro w h; simp at h; omega) r b hr hb
  by_cases h1 : Gate.clearBits [q] r = Gate.clearBits [q] b
  · by_cases h2 : Gate.locIdx [q] r = Gate.locIdx [q] b
    · rw [if_pos h1, if_pos h2, if_pos (hiff.mpr ⟨h1, h2⟩), locIdx_single]
    · rw [if_pos h1, if_neg h2, if_neg (fun h => h2 (hiff.mp h).2)]
  · rw [if_neg h1, if_neg (fun h => h1 (hiff.mp h).1)]

theorem two_cases {a : ℕ} (h : a < 2) : a = 0 ∨ a = 1 := by omega

theorem evalMat_X (q a c : ℕ) (ha : a < 2) (hc : c < 2) :
    evalMat ζ ρ (G .X [] [q]).localMat.m a c = if a = 1 - c then 1 else 0 := by
  rcases two_cases ha with rfl | rfl <;> rcases two_cases hc with rfl | rfl <;>
    simp [Gate.localMat, G, evalMat, evalRow, eval_one, eval_nil]

theorem evalMat_Y (q a c : ℕ) (ha : a < 2) (hc : c < 2) :
    evalMat ζ ρ (G .Y [] [q]).localMat.m a c
      = if a = 1 - c then (if c = 0 then ζ ^ 4 else -ζ ^ 4) else 0 := by
  rcases two_cases ha with rfl | rfl <;> rcases two_cases hc with rfl | rfl <;>
    simp [Gate.localMat, G, evalMat, evalRow, eval_neg, eval_I, eval_nil]

theorem evalMat_Z (q a c : ℕ) (ha : a < 2) (hc : c < 2) :
    evalMat ζ ρ (G .Z [] [q]).localMat.m a c = if a = c then (if c = 0 then 1 else -1) else 0 := by
  rcases two_cases ha with rfl | rfl <;> rcases two_cases hc with rfl | rfl <;>
    simp [Gate.localMat, G, evalMat, evalRow, eval_neg, eval_one, eval_nil]

/-- **One bookkeeping step is one gate**: if `_add_single_pauli` maps `(n, b, p)` to `(n, b', p')`
    then column `b` of the operator of the Pauli gate on wire `q` is `i^(p'−p)·e_{b'}` -/
theorem single_pauli_col (hζ : ζ ^ 8 = -1) (s s' : CB) (p : P1) (q : ℕ)
    (h : addSinglePauli s p q = .ok s') (hwf : s.bits < 2 ^ s.n) (r : ℕ) (hr : r < 2 ^ s.n) :
    semCirc ζ ρ [G (kindOfP1 p) [] [q]] r s.bits
      = if r = s'.bits then ζ ^ (4 * (s'.phase - s.phase)) else 0 := by
  unfold addSinglePauli at h
  by_cases hq : q ≥ s.n
  · simp [hq] at h
  · have hq' : q < s.n := by omega
    simp only [hq, if_false] at h
    have hbit : Gate.bitAt s.bits q = if s.bits.testBit q then 1 else 0 := bitAt_eq_testBit _ _
    cases p with
    | X =>
      have hs' : s' = ⟨s.n, s.bits ^^^ (1 <<< q), s.phase⟩ := (Except.ok.inj h).symm
      subst hs'
      show semCirc ζ ρ [G .X [] [q]] r s.bits = _
      rw [col_flip s.n q _ rfl hq' (fun _ => 1) (evalMat_X q) r s.bits hr hwf]
      simp [Nat.one_shiftLeft]
    | Y =>
      have hs' : s' = ⟨s.n, s.bits ^^^ (1 <<< q),
          if s.bits.testBit q then s.phase + (-1) else s.phase + 1⟩ := (Except.ok.inj h).symm
      subst hs'
      show semCirc ζ ρ [G .Y [] [q]] r s.bits = _
      rw [col_flip s.n q _ rfl hq' (fun c => if c = 0 then ζ ^ 4 else -ζ ^ 4) (evalMat_Y q)
        r s.bits hr hwf, hbit]
      by_cases hb : s.bits.testBit q = true
      · simp [hb, Nat.one_shiftLeft, zeta_zpow_neg4 hζ]
      · have h4 : ζ ^ (4 : ℤ) = ζ ^ 4 := zpow_natCast ζ 4
        simp [hb, Nat.one_shiftLeft, h4]
    | Z =>
      have hs' : s' = ⟨s.n, s.bits, if s.bits.testBit q then s.phase + 2 else s.phase⟩ :=
        (Except.ok.inj h).symm
      subst hs'
      show semCirc ζ ρ [G .Z [] [q]] r s.bits = _
      rw [col_diag s.n q _ rfl hq' (fun c => if c = 0 then 1 else -1) (evalMat_Z q) r s.bits hr hwf,
        hbit]
      by_cases hb : s.bits.testBit q = true
      · have h8 : ζ ^ (8 : ℤ) = -1 := by rw [← hζ]; exact zpow_natCast ζ 8
        simp [hb, h8]
      · simp [hb]

end QV.MatSound

/-! ## 4./5. factor lists, gates, chains -/

namespace QV.C16

/-- the single-qubit gates that a list of (qubit, Pauli) factors stands for -/
def factorGates (fs : List (Nat × P1)) : List Gate := fs.map fun f => G (kindOfP1 f.2) [] [f.1]

/-- a Pauli-kind gate as the list of its single-qubit factors (the model's own reading, `factors`) -/
def pauliFactorGates (g : RGate) : List Gate := factorGates ((factors g).getD [])

end QV.C16

namespace QV.MatSound
open QV QV.Poly QV.C01 QV.C16

variable {K : Type} [Field K] {ζ : K} {ρ : ℕ → K}

variable (ζ ρ) in
/-- the gate list `gs` maps the basis vector `|s.bits⟩` to `i^(s'.phase − s.phase)·|s'.bits⟩`
    (column `s.bits` of its operator on the `2^n` block, exactly) -/
structure ColOf (gs : List Gate) (s s' : CB) : Prop where
  n_eq : s'.n = s.n
  lt : s'.bits < 2 ^ s.n
  col : ∀ r, r < 2 ^ s.n →
    semCirc ζ ρ gs r s.bits = if r = s'.bits then ζ ^ (4 * (s'.phase - s.phase)) else 0

theorem ColOf.nil (s : CB) (hwf : s.bits < 2 ^ s.n) : ColOf ζ ρ [] s s :=
  ⟨rfl, hwf, fun r _ => by
    have : ζ ^ (4 * (s.phase - s.phase)) = 1 := by simp
    rw [this]; rfl⟩

theorem sum_ite_right (N b : ℕ) (hb : b < N) (f : ℕ → K) (α : K) :
    ((List.range N).map fun k => f k * (if k = b then α else 0)).sum = f b * α := by
  rw [List.map_congr_left (g := fun k => (idMat b k : K) * (f k * α)) (fun k _ => by
    by_cases e : k = b
    · subst e; simp [idMat]
    · have : ¬ b = k := fun h => e h.symm
      simp [idMat, e, this])]
  exact sum_range_ite N b hb _

/-- columns compose -/
theorem ColOf.append (hζ : ζ ^ 8 = -1) {A B : List Gate} {s s1 s2 : CB}
    (hA : ColOf ζ ρ A s s1) (hB : ColOf ζ ρ B s1 s2) (wfB : WellFormed s.n B) :
    ColOf ζ ρ (A ++ B) s s2 := by
  refine ⟨hB.n_eq.trans hA.n_eq, by have := hB.lt; rwa [hA.n_eq] at this, fun r hr => ?_⟩
  rw [semCirc_append, actCirc_eq_sum s.n B wfB _ r _ hr]
  rw [List.map_congr_left (g := fun k => semCirc ζ ρ B r k *
      (if k = s1.bits then ζ ^ (4 * (s1.phase - s.phase)) else 0)) (fun k hk => by
    rw [hA.col k (List.mem_range.mp hk)])]
  rw [sum_ite_right _ _ hA.lt]
  have hr' : r < 2 ^ s1.n := by rw [hA.n_eq]; exact hr
  rw [hB.col r hr']
  by_cases e : r = s2.bits
  · rw [if_pos e, if_pos e, ← zpow_add₀ (zeta_ne_zero hζ)]
    congr 1; ring
  · rw [if_neg e, if_neg e, zero_mul]

theorem single_lt {s s' : CB} {p : P1} {q : ℕ} (h : addSinglePauli s p q = .ok s') : q < s.n := by
  unfold addSinglePauli at h
  by_cases hq : q ≥ s.n
  · simp [hq] at h
  · omega

theorem single_col (hζ : ζ ^ 8 = -1) (s s' : CB) (p : P1) (q : ℕ)
    (h : addSinglePauli s p q = .ok s') (hwf : s.bits < 2 ^ s.n) :
    ColOf ζ ρ [G (kindOfP1 p) [] [q]] s s' :=
  ⟨(single_inv s s' p q h).1, by
    have := (single_inv s s' p q h).2.2 hwf
    unfold CB.wf at this; rwa [(single_inv s s' p q h).1] at this,
    fun r hr => single_pauli_col hζ s s' p q h hwf r hr⟩

theorem wf_single (n q : ℕ) (k : Kind) (hq : q < n) : WellFormed n [G k [] [q]] := by
  intro g hg
  simp only [List.mem_singleton] at hg
  subst hg
  exact ⟨by simp [G, Gate.wires], by intro w hw; simp [G, Gate.wires] at hw; omega⟩

/-- the loop of the multi-qubit branch (`for index, pauli_id in zip(targets, pauli_ids)`) -/
theorem factors_col (hζ : ζ ^ 8 = -1) (s s' : CB) (l : List (ℕ × ℕ)) (h : addFactors s l = .ok s')
    (hwf : s.bits < 2 ^ s.n) :
    ∃ fs, pairFactors l = some fs ∧ ColOf ζ ρ (factorGates fs) s s' ∧
      WellFormed s.n (factorGates fs) := by
  induction l generalizing s with
  | nil =>
    simp only [addFactors] at h
    injection h with h
    subst h
    exact ⟨[], rfl, ColOf.nil s hwf, WellFormed.nil _⟩
  | cons a r ih =>
    obtain ⟨i, pid⟩ := a
    simp only [addFactors] at h
    cases hp : pauliOfId pid with
    | none => simp [hp] at h
    | some p =>
      simp only [hp] at h
      cases h1 : addSinglePauli s p i with
      | error e => simp [h1] at h
      | ok s1 =>
        simp only [h1] at h
        have c1 := single_col (ζ := ζ) (ρ := ρ) hζ s s1 p i h1 hwf
        have hwf1 : s1.bits < 2 ^ s1.n := by rw [c1.n_eq]; exact c1.lt
        obtain ⟨fs, hf, hs, hw⟩ := ih s1 h hwf1
        rw [c1.n_eq] at hw
        refine ⟨(i, p) :: fs, by simp [pairFactors, hp, hf], ?_, ?_⟩
        · exact ColOf.append (A := [G (kindOfP1 p) [] [i]]) hζ c1 hs hw
        · exact WellFormed.append (a := [G (kindOfP1 p) [] [i]]) (wf_single _ _ _ (single_lt h1)) hw

/-- `_add_pauli` : one Pauli-kind gate, read as the list of its single-qubit factors -/
theorem gate_col (hζ : ζ ^ 8 = -1) (s s' : CB) (g : RGate) (h : addPauli s g = .ok s')
    (hwf : s.bits < 2 ^ s.n) :
    ColOf ζ ρ (pauliFactorGates g) s s' ∧ WellFormed s.n (pauliFactorGates g) := by
  unfold addPauli at h
  unfold pauliFactorGates factors
  split at h
  · rename_i hk
    simp only [hk]
    obtain ⟨fs, hf, hs, hw⟩ := factors_col (ζ := ζ) (ρ := ρ) hζ s s' _ h hwf
    rw [hf]; exact ⟨hs, hw⟩
  · rename_i hk; simp only [hk]
    split at h
    · cases h
    · rename_i i r ht
      exact ⟨single_col hζ s s' .X i h hwf, wf_single _ _ _ (single_lt h)⟩
  · rename_i hk; simp only [hk]
    split at h
    · cases h
    · rename_i i r ht
      exact ⟨single_col hζ s s' .Y i h hwf, wf_single _ _ _ (single_lt h)⟩
  · rename_i hk; simp only [hk]
    split at h
    · cases h
    · rename_i i r ht
      exact ⟨single_col hζ s s' .Z i h hwf, wf_single _ _ _ (single_lt h)⟩
  · cases h

/-- **Chain theorem** (`with_gates_applied` / `with_pauli_gate_applied` on Pauli-kind gates):
    whenever the bookkeeping accepts a gate list, the tuple `(n, b', p')` it returns describes exactly
    the vector obtained by applying those gates – read as their single-qubit Pauli factors – to
    `|b⟩`:  column `b` of the operator is `i^(p'−p)·e_{b'}`.  All `n`, all bit patterns, all lists. -/
theorem track_col (hζ : ζ ^ 8 = -1) (s s' : CB) (gs : List RGate) (h : track s gs = .ok s')
    (hwf : s.bits < 2 ^ s.n) :
    ColOf ζ ρ (gs.flatMap pauliFactorGates) s s' ∧ WellFormed s.n (gs.flatMap pauliFactorGates) := by
  induction gs generalizing s with
  | nil =>
    simp only [track] at h
    injection h with h
    subst h
    exact ⟨ColOf.nil s hwf, WellFormed.nil _⟩
  | cons g gs ih =>
    simp only [track] at h
    cases h1 : addPauli s g with
    | error e => simp [h1] at h
    | ok s1 =>
      simp only [h1] at h
      obtain ⟨c1, w1⟩ := gate_col (ζ := ζ) (ρ := ρ) hζ s s1 g h1 hwf
      have hwf1 : s1.bits < 2 ^ s1.n := by rw [c1.n_eq]; exact c1.lt
      obtain ⟨c2, w2⟩ := ih s1 h hwf1
      rw [c1.n_eq] at w2
      rw [List.flatMap_cons]
      exact ⟨ColOf.append hζ c1 c2 w2, WellFormed.append w1 w2⟩

/-! ## 6. the gates themselves -/

variable (ζ ρ) in
/-- the gate has the operator of its list of single-qubit factors (on the `2^n` block) -/
structure SameOp (n : ℕ) (g : RGate) : Prop where
  wf : WellFormed n [g.toGate]
  same : ∀ r, r < 2 ^ n → ∀ j, j < 2 ^ n →
    semCirc ζ ρ [g.toGate] r j = semCirc ζ ρ (pauliFactorGates g) r j

/-- exact version of `flatMap_scalar_gen` -/
theorem flatMap_exact {α : Type} (n : ℕ) (f d : α → List Gate) (xs : List α)
    (wff : ∀ x ∈ xs, WellFormed n (f x)) (wfd : ∀ x ∈ xs, WellFormed n (d x))
    (h : ∀ x ∈ xs, ∀ r, r < 2 ^ n → ∀ k, k < 2 ^ n → semCirc ζ ρ (d x) r k = semCirc ζ ρ (f x) r k) :
    ∀ r, r < 2 ^ n → ∀ j, semCirc ζ ρ (xs.flatMap d) r j = semCirc ζ ρ (xs.flatMap f) r j := by
  induction xs using List.reverseRec with
  | nil => intro r _ j; rfl
  | append_singleton xs x ih =>
    have hxs := ih (fun y hy => wff y (by simp [hy])) (fun y hy => wfd y (by simp [hy]))
      (fun y hy => h y (by simp [hy]))
    intro r hr j
    rw [List.flatMap_append, List.flatMap_append, List.flatMap_singleton, List.flatMap_singleton,
      semCirc_append, semCirc_append,
      actCirc_eq_sum n (d x) (wfd x (by simp)) _ r j hr,
      actCirc_eq_sum n (f x) (wff x (by simp)) _ r j hr]
    congr 1
    apply List.map_congr_left
    intro k hk
    have hk' : k < 2 ^ n := List.mem_range.mp hk
    rw [h x (by simp) r hr k hk', hxs k hk' j]

/-- an X / Y / Z gate on one target (no controls) is its own factor -/
theorem sameOp_single (n : ℕ) (g : RGate) (i : ℕ) (hi : i < n) (ht : g.targets = [i])
    (hc : g.controls = []) (hk : g.kind = .X ∨ g.kind = .Y ∨ g.kind = .Z) : SameOp ζ ρ n g := by
  have hw : g.toGate.wires = [i] := by simp [RGate.toGate, Gate.wires, ht, hc]
  refine ⟨fun g' hg' => ?_, fun r _ j _ => ?_⟩
  · simp only [List.mem_singleton] at hg'
    subst hg'
    rw [hw]
    exact ⟨by simp, by intro w h; simp at h; omega⟩
  · rcases hk with hk | hk | hk
    all_goals
      have e : pauliFactorGates g = [G g.kind [] [i]] := by
        simp [pauliFactorGates, factors, hk, ht, factorGates, kindOfP1]
      rw [e]
      show embedAct _ g.toGate.wires idMat r j = embedAct _ (G g.kind [] [i]).wires idMat r j
      have hl : g.toGate.localMat = (G g.kind [] [i]).localMat := by
        unfold Gate.localMat; simp [RGate.toGate, G, hk]
      rw [hl, hw]
      rfl

/-- **Chain theorem for the gates themselves** (`_partial`: for multi-qubit `Pauli` gates the
    hypothesis `SameOp` – its local matrix is the tensor product of its factors – is assumed; it is
    kernel-checked for ≤ 3 qubits in `Props/C16{,Deep}.pauli_dense_*`) -/
theorem track_col_gates (hζ : ζ ^ 8 = -1) (s s' : CB) (gs : List RGate) (h : track s gs = .ok s')
    (hwf : s.bits < 2 ^ s.n) (hg : ∀ g ∈ gs, SameOp ζ ρ s.n g) :
    ColOf ζ ρ (gs.map RGate.toGate) s s' := by
  obtain ⟨c, w⟩ := track_col (ζ := ζ) (ρ := ρ) hζ s s' gs h hwf
  have hwg : ∀ g ∈ gs, WellFormed s.n (pauliFactorGates g) := fun g hgm g' hg' =>
    w g' (List.mem_flatMap.mpr ⟨g, hgm, hg'⟩)
  refine ⟨c.n_eq, c.lt, fun r hr => ?_⟩
  rw [List.map_eq_flatMap,
    flatMap_exact s.n pauliFactorGates (fun g => [g.toGate]) gs hwg (fun g hgm => (hg g hgm).wf)
      (fun g hgm => (hg g hgm).same) r hr]
  exact c.col r hr

end QV.MatSound
