import QuriVerif.Proof.PassSound4
import QuriVerif.Proof.PauliSound
/-
  `pauliDecPass` (C01): the multi-qubit `Pauli` gate is replaced by its single-qubit factors – exactly
  the same operator (`pauli_gate_eq` of `Proof/PauliSound`), for every number of targets.
  Pipelines, fourth round: `pendingPass5 = {pauliRotDec}`.
-/
namespace QV.MatSound
open QV QV.Poly QV.C01 QV.C16

variable {K : Type} [Field K] {ζ : K} {ρ : ℕ → K}

/-- the gates emitted by `PauliDecomposeTranspiler.decompose` are the factor gates -/
theorem pauliDec_toGate (l : List (ℕ × ℕ)) :
    (l.filterMap fun (x : ℕ × ℕ) =>
        if x.2 == 1 then some ({ kind := .X, targets := [x.1] } : NGate)
        else if x.2 == 2 then some { kind := .Y, targets := [x.1] }
        else if x.2 == 3 then some { kind := .Z, targets := [x.1] }
        else none).map NGate.toGate
      = factorGates (idFactors l) := by
  induction l with
  | nil => rfl
  | cons x l ih =>
    obtain ⟨q, p⟩ := x
    have hc : idFactors ((q, p) :: l)
        = ((pauliOfId p).map fun pp => (q, pp)).toList ++ idFactors l := by
      unfold idFactors
      rw [List.filterMap_cons]
      cases pauliOfId p <;> rfl
    rw [hc, factorGates_append, ← ih, List.filterMap_cons]
    by_cases h1 : p = 1
    · subst h1; rfl
    · by_cases h2 : p = 2
      · subst h2; rfl
      · by_cases h3 : p = 3
        · subst h3; rfl
        · have hn : pauliOfId p = none := by
            unfold pauliOfId; split <;> simp_all
          simp [h1, h2, h3, hn, factorGates]

theorem pauliDec_eq (g : NGate) :
    (pauliDec g).map NGate.toGate = factorGates (idFactors (List.zip g.targets g.paulis)) := by
  unfold pauliDec
  exact pauliDec_toGate _

/-- `PauliDecomposeTranspiler` : same operator (factor exactly 1), invariant preserved -/
theorem pauliDecPass_ok (hζ : ζ ^ 8 = -1) (n : ℕ) (c : List NGate) (hc : CInv n c) :
    CInv n (pauliDecPass c) ∧ OpEqv ζ ρ n c (pauliDecPass c) := by
  unfold pauliDecPass
  have key : ∀ g ∈ c, CInv n (if g.kind == .Pauli then pauliDec g else [g]) ∧
      OpEqv ζ ρ n [g] (if g.kind == .Pauli then pauliDec g else [g]) := by
    intro g hg
    have hgi := CInv_iff.mp hc g hg
    by_cases hk : g.kind = .Pauli
    · have hb : (g.kind == Kind.Pauli) = true := by simp [hk]
      rw [if_pos hb]
      obtain ⟨hnd, hlt, har⟩ := gInv_iff.mp hgi
      rw [hk] at har
      simp only [arityOK, kindArity, Bool.and_eq_true, beq_iff_eq] at har
      obtain ⟨⟨hc0, _⟩, hlen⟩ := har
      have hcn : g.controls = [] := List.eq_nil_of_length_eq_zero hc0
      rw [hcn, List.nil_append] at hnd hlt
      constructor
      · rw [CInv_iff]
        intro g' hg'
        unfold pauliDec at hg'
        obtain ⟨⟨q, p⟩, hm, hq⟩ := List.mem_filterMap.mp hg'
        have hqt : q ∈ g.targets := (List.of_mem_zip hm).1
        have hqn := hlt q hqt
        rw [gInv_iff]
        simp only [] at hq
        split_ifs at hq <;> simp only [Option.some.injEq] at hq <;> subst hq <;>
          exact ⟨by simp, by intro w hw; simp at hw; omega, by simp [arityOK, kindArity]⟩
      · refine OpEqv.of_singleton 1 one_ne_zero (fun r hr k hk' => ?_)
        rw [one_mul, pauliDec_eq]
        exact (pauli_gate_eq hζ n (NGate.toGate g) hk hcn hnd hlt hlen.symm r k hr hk').symm
    · have hb : (g.kind == Kind.Pauli) = false := by simp [hk]
      rw [hb]
      exact ⟨CInv_singleton.mpr hgi, OpEqv.refl n [g]⟩
  exact ⟨CInv_flatMap _ (fun g hg => (key g hg).1), OpEqv.flatMap n c _ hc key⟩

end QV.MatSound

namespace QV.C01
/-- the only primitive pass still assumed -/
def pendingPass5 : Pass → Bool
  | .pauliRotDec => true
  | _ => false

/-- passes all of whose (nested) primitive passes are proved sound -/
def provedPass5 : Pass → Bool
  | .pauliRotDec | .gateSetConv _ _ => false
  | _ => true
end QV.C01

namespace QV.MatSound
open QV QV.Poly QV.C01

variable {K : Type} [Field K] {ζ : K} {ρ : ℕ → K}

/-- all primitive passes except `pauliRotDec` -/
theorem prim_ok5 (hζ : ζ ^ 8 = -1) (hρ : ∀ j, ρ j ≠ 0) (h16 : ρ 0 ^ 16 = ζ) (h2 : (2 : K) ≠ 0)
    (e : Env) (E : EnvOK4 ζ ρ e) (n : ℕ) (p : Pass) (hpr : pendingPass5 p = false)
    (hp : p.prim = true) (hf : p.fits n = true) (hl : p.ladderGood e = true) :
    PrimOK ζ ρ e n p := by
  cases p with
  | pauliDec =>
    intro fuel c c' hc h
    have : pauliDecPass c = c' := by simpa [runPass] using h
    subst this
    exact pauliDecPass_ok hζ n c hc
  | pauliRotDec => simp [pendingPass5] at hpr
  | _ => exact prim_ok4 hζ hρ h16 h2 e E n _ rfl hp hf hl

/-- **Pipeline soundness, fourth round**: the only hypothesis left is `pauliRotDec`.  Covers
    `GateSetConversionTranspiler` pipelines. -/
theorem runSeq_sound_partial5 (hζ : ζ ^ 8 = -1) (hρ : ∀ j, ρ j ≠ 0) (h16 : ρ 0 ^ 16 = ζ)
    (h2 : (2 : K) ≠ 0) (e : Env) (E : EnvOK4 ζ ρ e) (n : ℕ)
    (hpend : PrimOK ζ ρ e n .pauliRotDec)
    (fuel : ℕ) (ps : List Pass) (c c' : List NGate)
    (hf : ∀ p ∈ ps, p.fits n = true ∧ p.ladderGood e = true)
    (hc : CInv n c) (h : runSeq e fuel ps c = .ok c') : CInv n c' ∧ OpEqv ζ ρ n c c' :=
  (run_sound e n (fun p => p.fits n = true ∧ p.ladderGood e = true)
    (fun rots fav _ p hp => ⟨rotConvPipeline_fits n rots fav p hp,
      rotConvPipeline_ladderGood e rots fav p hp⟩)
    (fun gs _ _ p hp => ⟨gateSetPipeline_fits n gs p hp,
      gateSetPipeline_ladderGood e E.base.std gs p hp⟩)
    (fun p hp hq => by
      by_cases hpe : pendingPass5 p = true
      · cases p <;> simp [pendingPass5] at hpe
        exact hpend
      · exact prim_ok5 hζ hρ h16 h2 e E n p (by simpa using hpe) hp hq.1 hq.2) fuel).2
    ps c c' hf hc h

/-- **Pipeline soundness, unconditional**, for pipelines built from every primitive pass except
    `pauliRotDec` (and from `rotConv`) -/
theorem runSeq_sound_proved5 (hζ : ζ ^ 8 = -1) (hρ : ∀ j, ρ j ≠ 0) (h16 : ρ 0 ^ 16 = ζ)
    (h2 : (2 : K) ≠ 0) (e : Env) (E : EnvOK4 ζ ρ e) (n : ℕ)
    (fuel : ℕ) (ps : List Pass) (c c' : List NGate)
    (hf : ∀ p ∈ ps, p.fits n = true ∧ p.ladderGood e = true ∧ provedPass5 p = true)
    (hc : CInv n c) (h : runSeq e fuel ps c = .ok c') : CInv n c' ∧ OpEqv ζ ρ n c c' :=
  (run_sound e n (fun p => p.fits n = true ∧ p.ladderGood e = true ∧ provedPass5 p = true)
    (fun rots fav _ p hp => ⟨rotConvPipeline_fits n rots fav p hp,
      rotConvPipeline_ladderGood e rots fav p hp, by
        have := rotConvPipeline_proved rots fav p hp
        cases p <;> simp_all [provedPass, provedPass5]⟩)
    (fun gs v h => by simp [provedPass5] at h)
    (fun p hp hq => prim_ok5 hζ hρ h16 h2 e E n p (by
      obtain ⟨_, _, h3⟩ := hq
      cases p <;> simp_all [provedPass5, pendingPass5]) hp hq.1 hq.2.1) fuel).2 ps c c' hf hc h

end QV.MatSound
