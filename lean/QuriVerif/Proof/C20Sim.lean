import QuriVerif.Proof.C20Step
/-
  C20 — per-operation simulation lemmas and the step theorem `step_sim`.
-/
namespace QV.C20

/-- what a whole step must establish -/
def Sim (cfg : Cfg) (s : St) (t : Sp) (op : Op) : Prop :=
  (step cfg s op).safe = true →
    Inv (step cfg s op).st ∧ Rel (step cfg s op).st (sstep t op).1 ∧ (step cfg s op).out = (sstep t op).2

/-- old handles keep their values (weaker than `Frame`: cells may have been written) -/
structure Keep (s s' : St) : Prop where
  nH : s'.nH = s.nH
  np : s'.np = s.np
  abs : ∀ i, i < s.nH → s'.absH i = s.absH i

theorem Frame.keep {s s' : St} (hI : Inv s) (f : Frame s s') : Keep s s' :=
  ⟨f.nH, f.np, fun _ hi => f.absH hI hi⟩
theorem Keep.refl (s : St) : Keep s s := ⟨rfl, rfl, fun _ _ => rfl⟩
theorem Keep.trans {s s' s'' : St} (f : Keep s s') (g : Keep s' s'') : Keep s s'' :=
  ⟨by rw [g.nH, f.nH], by rw [g.np, f.np], fun i hi => by rw [g.abs i (by rw [f.nH]; exact hi), f.abs i hi]⟩

theorem Keep.rel {s s' : St} {t : Sp} (k : Keep s s') (hR : Rel s t) : Rel s' t :=
  ⟨by rw [k.nH, hR.nH], by rw [k.np, hR.np], fun i hi => by rw [k.abs i (by rw [← k.nH]; exact hi), hR.vs i (by rw [← k.nH]; exact hi)]⟩

/-- like `Derived`, for helpers that also write cells -/
structure DerivedK (s s' : St) (r' : Ref) (cv : CV) : Prop where
  inv : Inv s'
  kp : Keep s s'
  ho : Handout s' r'
  rd : s'.readRef r' = cv

theorem Derived.k {s s' : St} {r : Ref} {cv : CV} (hI : Inv s) (d : Derived s s' r cv) : DerivedK s s' r cv :=
  ⟨d.inv, d.fr.keep hI, d.ho, d.rd⟩

theorem simK_push_c {s s1 : St} {t : Sp} {r : Ref} {cv : CV} (hR : Rel s t) (hD : DerivedK s s1 r cv) :
    Inv (s1.push (.c r)) ∧ Rel (s1.push (.c r)) ⟨upd t.vs t.nH (.c cv), t.nH + 1, t.np⟩ := by
  refine ⟨push_inv _ hD.inv hD.ho, ?_, ?_, ?_⟩
  · simp [St.push, hD.kp.nH, hR.nH]
  · simp [St.push, hD.kp.np, hR.np]
  · intro i hi
    have hn : s1.nH = s.nH := hD.kp.nH
    by_cases h : i < s.nH
    · rw [push_absH_old _ _ (by omega), hD.kp.abs i h, hR.vs i h]
      exact (upd_ne _ _ (by rw [← hR.nH]; omega)).symm
    · have : i = s.nH := by simp [St.push] at hi; omega
      subst this
      rw [← hn, push_absH_new, hn, hR.nH]
      show s1.readH (Hd.c r) = upd t.vs t.nH (Val.c cv) t.nH
      rw [upd_same]
      simp [St.readH, hD.rd]

theorem simK_push_s {s s1 : St} {t : Sp} {r : Ref} {cv : CV} (hR : Rel s t) (hD : DerivedK s s1 r cv) :
    Inv (s1.push (.s r)) ∧ Rel (s1.push (.s r)) ⟨upd t.vs t.nH (.s cv), t.nH + 1, t.np⟩ := by
  refine ⟨push_inv _ hD.inv hD.ho, ?_, ?_, ?_⟩
  · simp [St.push, hD.kp.nH, hR.nH]
  · simp [St.push, hD.kp.np, hR.np]
  · intro i hi
    have hn : s1.nH = s.nH := hD.kp.nH
    by_cases h : i < s.nH
    · rw [push_absH_old _ _ (by omega), hD.kp.abs i h, hR.vs i h]
      exact (upd_ne _ _ (by rw [← hR.nH]; omega)).symm
    · have : i = s.nH := by simp [St.push] at hi; omega
      subst this
      rw [← hn, push_absH_new, hn, hR.nH]
      show s1.readH (Hd.s r) = upd t.vs t.nH (Val.s cv) t.nH
      rw [upd_same]
      simp [St.readH, hD.rd]

theorem refOK_of_handle {s : St} (hI : Inv s) {h : Nat} (hh : h < s.nH) {r : Ref}
    (e : s.hs h = .c r ∨ s.hs h = .s r) : RefOK s r := by
  have := hI.b1 h hh
  cases e with
  | inl e => simpa [e, Hd.ref] using this
  | inr e => simpa [e, Hd.ref] using this

theorem refMut_readRef (s : St) (r : Ref) : (s.readRef r).mu = s.refMut r := by
  cases r <;> simp [St.readRef, CV.mu, St.refMut, St.rMut]

/-! ### constructors -/

theorem sim_newC (cfg : Cfg) {s : St} {t : Sp} (hI : Inv s) (hR : Rel s t) (n : Nat) : Sim cfg s t (.newC n) := by
  intro _
  simp only [step, sstep, Op.target, pureV]
  have hD := allocCV_spec hI (.r (newRV .qc n)) trivial cfg.np.newFlag none (by intro n h; cases h)
  simp only [allocCV] at hD
  have := simK_push_c hR (hD.k hI)
  exact ⟨this.1, by simpa [hR.np] using this.2, by trivial⟩

theorem sim_newP (cfg : Cfg) {s : St} {t : Sp} (hI : Inv s) (hR : Rel s t) (n : Nat) : Sim cfg s t (.newP n) := by
  intro _
  simp only [step, sstep, Op.target, pureV]
  have hD := allocCV_spec hI (.r (newRV .pqc n)) trivial cfg.par.newFlag none (by intro n h; cases h)
  simp only [allocCV] at hD
  have := simK_push_c hR (hD.k hI)
  exact ⟨this.1, by simpa [hR.np] using this.2, by trivial⟩

theorem sim_newL (cfg : Cfg) {s : St} {t : Sp} (hI : Inv s) (hR : Rel s t) (n : Nat) : Sim cfg s t (.newL n) := by
  intro _
  simp only [step, sstep, Op.target, pureV]
  have hD := allocCV_spec hI (.l ⟨true, Mp.empty, newRV .pqc n⟩) (by intro _; rfl) cfg.par.newFlag none
    (by intro n h; cases h)
  simp only [allocCV] at hD
  have := simK_push_c hR (hD.k hI)
  exact ⟨this.1, by simpa [hR.np] using this.2, by trivial⟩

/-! ### freeze-like operations -/

theorem sim_freeze (cfg : Cfg) {s : St} {t : Sp} (hI : Inv s) (hR : Rel s t) (h : Nat) : Sim cfg s t (.freeze h) := by
  intro hs
  simp only [step, sstep, Op.target, pureV, ← hR.look] at hs ⊢
  by_cases hh : h < s.nH
  · cases e : s.hs h with
    | c r =>
      simp only [hh, e, if_true, look_c hh e] at hs ⊢
      have hD := freezeRef_spec cfg hI (refOK_of_handle hI hh (.inl e)) hs
      have := simK_push_c hR (hD.k hI)
      exact ⟨this.1, by simpa [hR.np] using this.2, by trivial⟩
    | s r =>
      simp only [hh, e, if_true, look_s hh e] at hs ⊢
      exact ⟨hI, hR, by trivial⟩
  · simp only [hh, if_false, look_none hh] at hs ⊢
    exact ⟨hI, hR, by trivial⟩

theorem sim_mkState (cfg : Cfg) {s : St} {t : Sp} (hI : Inv s) (hR : Rel s t) (h : Nat) : Sim cfg s t (.mkState h) := by
  intro hs
  simp only [step, sstep, Op.target, pureV, ← hR.look] at hs ⊢
  by_cases hh : h < s.nH
  · cases e : s.hs h with
    | c r =>
      simp only [hh, e, if_true, look_c hh e] at hs ⊢
      have hD := freezeRef_spec cfg hI (refOK_of_handle hI hh (.inl e)) hs
      have := simK_push_s hR (hD.k hI)
      exact ⟨this.1, by simpa [hR.np] using this.2, by trivial⟩
    | s r =>
      simp only [hh, e, if_true, look_s hh e] at hs ⊢
      exact ⟨hI, hR, by trivial⟩
  · simp only [hh, if_false, look_none hh] at hs ⊢
    exact ⟨hI, hR, by trivial⟩


theorem sim_mutCopy (cfg : Cfg) {s : St} {t : Sp} (hI : Inv s) (hR : Rel s t) (h : Nat) : Sim cfg s t (.mutCopy h) := by
  intro hs
  simp only [step, sstep, Op.target, pureV, ← hR.look] at hs ⊢
  by_cases hh : h < s.nH
  · cases e : s.hs h with
    | c r =>
      have hr := refOK_of_handle hI hh (.inl e)
      cases r with
      | r a =>
        simp only [hh, e, if_true, look_c hh e] at hs ⊢
        obtain ⟨h1, h2, h3, h4, h5⟩ := copyR_spec cfg hI hr
        have hD : DerivedK s (copyR cfg s a).1 (.r (copyR cfg s a).2) (copyV (s.readRef (.r a))) := by
          rw [h2]
          exact ⟨h1.inv, h1.fr.keep hI, ⟨by rw [h3]; omega, fun _ => h5⟩, by simp [St.readRef, copyV, h4]⟩
        have := simK_push_c hR hD
        exact ⟨this.1, by simpa [hR.np] using this.2, by trivial⟩
      | l l =>
        simp only [hh, e, if_true, look_c hh e] at hs ⊢
        have hD := copyL_spec cfg hI hr
        have := simK_push_c hR (hD.k hI)
        exact ⟨this.1, by simpa [hR.np] using this.2, by trivial⟩
    | s r =>
      simp only [hh, e, if_true, look_s hh e] at hs ⊢
      exact ⟨hI, hR, by trivial⟩
  · simp only [hh, if_false, look_none hh] at hs ⊢
    exact ⟨hI, hR, by trivial⟩

theorem sim_immCtor (cfg : Cfg) {s : St} {t : Sp} (hI : Inv s) (hR : Rel s t) (h : Nat) : Sim cfg s t (.immCtor h) := by
  intro hs
  simp only [step, sstep, Op.target, pureV, ← hR.look] at hs ⊢
  by_cases hh : h < s.nH
  · cases e : s.hs h with
    | c r =>
      have hr := refOK_of_handle hI hh (.inl e)
      cases r with
      | r a =>
        simp only [hh, e, if_true, look_c hh e] at hs ⊢
        obtain ⟨h1, h2, h3⟩ := ctorR_spec cfg hI hr
        obtain ⟨hm, hv⟩ := h3 hs
        have hD : DerivedK s (ctorR cfg s a).1 (.r (ctorR cfg s a).2) (ctorV (s.readRef (.r a))) :=
          ⟨h1.inv, h1.fr.keep hI, ⟨h2, by intro h; rw [hm] at h; cases h⟩, by simp [St.readRef, ctorV, hv]⟩
        have := simK_push_c hR hD
        exact ⟨this.1, by simpa [hR.np] using this.2, by trivial⟩
      | l l =>
        simp only [hh, e, if_true, look_c hh e] at hs ⊢
        have hD := ctorL_spec cfg hI hr hs
        have := simK_push_c hR (hD.k hI)
        exact ⟨this.1, by simpa [hR.np] using this.2, by trivial⟩
    | s r =>
      simp only [hh, e, if_true, look_s hh e] at hs ⊢
      exact ⟨hI, hR, by trivial⟩
  · simp only [hh, if_false, look_none hh] at hs ⊢
    exact ⟨hI, hR, by trivial⟩

theorem sim_primitive (cfg : Cfg) {s : St} {t : Sp} (hI : Inv s) (hR : Rel s t) (h : Nat) : Sim cfg s t (.primitive h) := by
  intro hs
  simp only [step, sstep, Op.target, pureV, ← hR.look] at hs ⊢
  by_cases hh : h < s.nH
  · cases e : s.hs h with
    | c r =>
      have hr := refOK_of_handle hI hh (.inl e)
      cases r with
      | r a =>
        simp only [hh, e, if_true, look_c hh e, St.readRef, primV] at hs ⊢
        by_cases hp : (s.rs a).v.cls.par = true
        · simp only [hp, if_true] at hs ⊢
          obtain ⟨h1, h2, h3⟩ := freezeR_spec cfg hI hr
          obtain ⟨hm, hv⟩ := h3 hs
          have hD : DerivedK s (freezeR cfg s a).1 (.r (freezeR cfg s a).2) (.r (s.rs a).v.frozen) :=
            ⟨h1.inv, h1.fr.keep hI, ⟨h2, by intro h; rw [hm] at h; cases h⟩, by simp [St.readRef, hv]⟩
          have := simK_push_c hR hD
          exact ⟨this.1, by simpa [hR.np] using this.2, by trivial⟩
        · simp only [hp] at hs ⊢
          exact ⟨hI, hR, by trivial⟩
      | l l =>
        simp only [hh, e, if_true, look_c hh e, St.readRef, primV] at hs ⊢
        have hc := hI.b2 l hr
        obtain ⟨h1, h2, h3⟩ := freezeR_spec cfg hI hc
        obtain ⟨hm, hv⟩ := h3 hs
        have hD : DerivedK s (freezeR cfg s (s.ls l).circ).1 (.r (freezeR cfg s (s.ls l).circ).2)
            (.r (s.rs (s.ls l).circ).v.frozen) :=
          ⟨h1.inv, h1.fr.keep hI, ⟨h2, by intro h; rw [hm] at h; cases h⟩, by simp [St.readRef, hv]⟩
        have := simK_push_c hR hD
        exact ⟨this.1, by simpa [hR.np] using this.2, by trivial⟩
    | s r =>
      simp only [hh, e, if_true, look_s hh e] at hs ⊢
      exact ⟨hI, hR, by trivial⟩
  · simp only [hh, if_false, look_none hh] at hs ⊢
    exact ⟨hI, hR, by trivial⟩

theorem sim_stCircuit (cfg : Cfg) {s : St} {t : Sp} (hI : Inv s) (hR : Rel s t) (h : Nat) : Sim cfg s t (.stCircuit h) := by
  intro hs
  simp only [step, sstep, Op.target, pureV, ← hR.look] at hs ⊢
  by_cases hh : h < s.nH
  · cases e : s.hs h with
    | c r =>
      simp only [hh, e, if_true, look_c hh e] at hs ⊢
      exact ⟨hI, hR, by trivial⟩
    | s r =>
      simp only [hh, e, if_true, look_s hh e] at hs ⊢
      have hr := refOK_of_handle hI hh (.inr e)
      have hm : s.refMut r = false := by simpa using hs
      have hD : DerivedK s s r (s.readRef r) := by
        refine ⟨hI, Keep.refl s, ?_, rfl⟩
        cases r with
        | r a => exact ⟨hr, by intro h'; simp [St.refMut] at hm; rw [hm] at h'; cases h'⟩
        | l l => exact ⟨hr, by intro h'; simp [St.refMut] at hm; rw [hm] at h'; cases h'⟩
      have := simK_push_c hR hD
      exact ⟨this.1, by simpa [hR.np] using this.2, by trivial⟩
  · simp only [hh, if_false, look_none hh] at hs ⊢
    exact ⟨hI, hR, by trivial⟩

theorem sim_getUnbound (cfg : Cfg) {s : St} {t : Sp} (hI : Inv s) (hR : Rel s t) (h : Nat) : Sim cfg s t (.getUnbound h) := by
  intro hs
  simp only [step, sstep, Op.target, pureV, ← hR.look] at hs ⊢
  by_cases hh : h < s.nH
  · cases e : s.hs h with
    | c r =>
      cases r with
      | r a =>
        simp only [hh, e, if_true, look_c hh e, St.readRef, unboundV] at hs ⊢
        by_cases hb : (s.rs a).v.cls = .bqc
        · simp [hb] at hs
        · simp only [hb, if_false] at hs ⊢
          exact ⟨hI, hR, by trivial⟩
      | l l =>
        simp only [hh, e, if_true, look_c hh e, St.readRef] at hs ⊢
        exact ⟨hI, hR, by trivial⟩
    | s r =>
      simp only [hh, e, if_true, look_s hh e] at hs ⊢
      exact ⟨hI, hR, by trivial⟩
  · simp only [hh, if_false, look_none hh] at hs ⊢
    exact ⟨hI, hR, by trivial⟩

end QV.C20
