import QuriVerif.Model.C09
import Mathlib.Tactic.Ring
import Mathlib.Algebra.Ring.Hom.Defs
/-
  C09 — helper lemmas: shift-set algebra, quarter turns, the shift rule, the chain rule and the
  semantics of `_get_derivative`.  `K` is an arbitrary commutative ring (ℝ, ℂ, ℚ, …), `ι : ℚ →+* K`
  embeds the rational coefficients of the code.
-/
set_option linter.unusedSimpArgs false
set_option linter.unusedVariables false
set_option linter.unusedSectionVars false

namespace QV.C09
open TExp

/-! ## association lists -/

theorem lookup_filter_ne (s : Shifts) (j j' : Nat) :
    (s.filter fun e => e.1 != j).lookup j' = if j' = j then none else s.lookup j' := by
  induction s with
  | nil => simp
  | cons hd tl ih =>
    obtain ⟨a, b⟩ := hd
    by_cases h : a = j
    · subst h
      by_cases h' : j' = a
      · subst h'; simp [List.filter_cons, ih]
      · have : (j' == a) = false := by simp [h']
        simp [List.filter_cons, ih, List.lookup_cons, this, h']
    · have hne : (a != j) = true := by simp [h]
      by_cases h' : j' = a
      · subst h'
        simp [List.filter_cons, hne, List.lookup_cons, h]
      · have : (j' == a) = false := by simp [h']
        simp [List.filter_cons, hne, List.lookup_cons, this, ih]

theorem lookup_insertSorted (j : Nat) (k : Int) (r : Shifts) (j' : Nat)
    (h : ∀ e ∈ r, e.1 ≠ j) :
    (insertSorted j k r).lookup j' = if j' = j then some k else r.lookup j' := by
  induction r with
  | nil =>
    by_cases h' : j' = j
    · subst h'; simp [insertSorted, List.lookup_cons]
    · have : (j' == j) = false := by simp [h']
      simp [insertSorted, List.lookup_cons, this, h']
  | cons hd tl ih =>
    obtain ⟨a, b⟩ := hd
    have ha : a ≠ j := h (a, b) (by simp)
    have htl : ∀ e ∈ tl, e.1 ≠ j := fun e he => h e (by simp [he])
    unfold insertSorted
    by_cases hle : j ≤ a
    · by_cases h' : j' = j
      · subst h'; simp [hle, List.lookup_cons]
      · have : (j' == j) = false := by simp [h']
        simp [hle, List.lookup_cons, this, h']
    · by_cases h' : j' = j
      · subst h'
        have : (j' == a) = false := by simp [Ne.symm ha]
        simp [hle, List.lookup_cons, this, ih htl]
      · simp only [hle, if_false, List.lookup_cons, ih htl, h']

theorem getShift_setShift (s : Shifts) (j : Nat) (v : Int) (j' : Nat) :
    getShift (setShift s j v) j' = if j' = j then v else getShift s j' := by
  unfold getShift setShift
  by_cases hv : v = 0
  · simp only [hv, if_true, lookup_filter_ne]
    by_cases h' : j' = j <;> simp [h']
  · simp only [hv, if_false]
    rw [lookup_insertSorted]
    · simp only [lookup_filter_ne]
      by_cases h' : j' = j <;> simp [h']
    · intro e he
      have := (List.mem_filter.mp he).2
      simpa using this

theorem getShift_bump (s : Shifts) (j : Nat) (σ : Int) (j' : Nat) :
    getShift (bump s j σ) j' = if j' = j then getShift s j + σ else getShift s j' := by
  unfold bump; exact getShift_setShift _ _ _ _

/-! ## quarter turns -/

section Ring
variable {K : Type} [CommRing K]

/-- inverse quarter turn -/
def rotInv (p : K × K) : K × K := (p.2, -p.1)

theorem rotI_zero (p : K × K) : rotI 0 p = p := by simp [rotI]

theorem rotI_succ (k : Int) (p : K × K) : rotI (k + 1) p = rot (rotI k p) := by
  have h : k % 4 = 0 ∨ k % 4 = 1 ∨ k % 4 = 2 ∨ k % 4 = 3 := by omega
  rcases h with h | h | h | h
  · have h1 : (k + 1) % 4 = 1 := by omega
    simp [rotI, h, h1, rot]
  · have h1 : (k + 1) % 4 = 2 := by omega
    simp [rotI, h, h1, rot]
  · have h1 : (k + 1) % 4 = 3 := by omega
    simp [rotI, h, h1, rot]
  · have h1 : (k + 1) % 4 = 0 := by omega
    simp [rotI, h, h1, rot]

theorem rotI_pred (k : Int) (p : K × K) : rotI (k + -1) p = rotInv (rotI k p) := by
  have h : k % 4 = 0 ∨ k % 4 = 1 ∨ k % 4 = 2 ∨ k % 4 = 3 := by omega
  rcases h with h | h | h | h
  · have h1 : (k + -1) % 4 = 3 := by omega
    simp [rotI, h, h1, rotInv]
  · have h1 : (k + -1) % 4 = 0 := by omega
    simp [rotI, h, h1, rotInv]
  · have h1 : (k + -1) % 4 = 1 := by omega
    simp [rotI, h, h1, rotInv]
  · have h1 : (k + -1) % 4 = 2 := by omega
    simp [rotI, h, h1, rotInv]

/-- replace the pair of raw parameter `j` -/
def upd (pt : Point K) (j : Nat) (v : K × K) : Point K := fun j' => if j' = j then v else pt j'

theorem shiftPt_nil (pt : Point K) : shiftPt [] pt = pt := by
  funext j; simp [shiftPt, getShift, rotI_zero]

theorem shiftPt_bump_pos (sh : Shifts) (j : Nat) (pt : Point K) :
    shiftPt (bump sh j 1) pt = upd (shiftPt sh pt) j (rot (shiftPt sh pt j)) := by
  funext j'
  unfold shiftPt upd
  rw [getShift_bump]
  by_cases h : j' = j
  · subst h; simp [rotI_succ]
  · simp [h]

theorem shiftPt_bump_neg (sh : Shifts) (j : Nat) (pt : Point K) :
    shiftPt (bump sh j (-1)) pt = upd (shiftPt sh pt) j (rotInv (shiftPt sh pt j)) := by
  funext j'
  unfold shiftPt upd
  rw [getShift_bump]
  by_cases h : j' = j
  · subst h; simp [rotI_pred]
  · simp [h]

/-! ## evaluation, freeness -/

theorem eval_congr (e : TExp K) (pt pt' : Point K) (h : ∀ j ∈ raws e, pt j = pt' j) :
    eval pt e = eval pt' e := by
  induction e with
  | const k => rfl
  | cos j => show (pt j).1 = (pt' j).1; rw [h j (by simp [raws])]
  | sin j => show (pt j).2 = (pt' j).2; rw [h j (by simp [raws])]
  | add a b iha ihb =>
    simp only [eval]
    rw [iha (fun j hj => h j (by simp [raws, hj])), ihb (fun j hj => h j (by simp [raws, hj]))]
  | mul a b iha ihb =>
    simp only [eval]
    rw [iha (fun j hj => h j (by simp [raws, hj])), ihb (fun j hj => h j (by simp [raws, hj]))]

theorem free_iff (j : Nat) (e : TExp K) : free j e = true ↔ j ∉ raws e := by
  induction e with
  | const k => simp [free, raws]
  | cos j' =>
    simp only [free, raws, bne_iff_ne, List.mem_singleton]
    exact ⟨fun h hh => h hh.symm, fun h hh => h hh.symm⟩
  | sin j' =>
    simp only [free, raws, bne_iff_ne, List.mem_singleton]
    exact ⟨fun h hh => h hh.symm, fun h hh => h hh.symm⟩
  | add a b iha ihb => simp [free, raws, iha, ihb]
  | mul a b iha ihb => simp [free, raws, iha, ihb]

theorem eval_upd_free (e : TExp K) (q : Point K) (j : Nat) (v : K × K) (h : free j e = true) :
    eval (upd q j v) e = eval q e := by
  apply eval_congr
  intro j' hj'
  have : j' ≠ j := fun hh => (free_iff j e).mp h (hh ▸ hj')
  simp [upd, this]

theorem eval_deriv_zero (e : TExp K) (q : Point K) (dc : Nat → K) (h : ∀ j ∈ raws e, dc j = 0) :
    eval q (deriv dc e) = 0 := by
  induction e with
  | const k => simp [deriv, eval]
  | cos j => simp [deriv, eval, h j (by simp [raws])]
  | sin j => simp [deriv, eval, h j (by simp [raws])]
  | add a b iha ihb =>
    simp [deriv, eval, iha (fun j hj => h j (by simp [raws, hj])), ihb (fun j hj => h j (by simp [raws, hj]))]
  | mul a b iha ihb =>
    simp [deriv, eval, iha (fun j hj => h j (by simp [raws, hj])), ihb (fun j hj => h j (by simp [raws, hj]))]

theorem eval_dRaw_free (e : TExp K) (q : Point K) (j : Nat) (h : free j e = true) :
    eval q (dRaw j e) = 0 := by
  apply eval_deriv_zero
  intro j' hj'
  have : j' ≠ j := fun hh => (free_iff j e).mp h (hh ▸ hj')
  simp [this]

/-! ## the shift rule -/

/-- `E(φ_j + π/2) − E(φ_j − π/2) = 2 · ∂E/∂φ_j` for every expression affine in `(cos_j, sin_j)`,
    at every point (no relation `c² + s² = 1` is needed) -/
theorem shift_rule_two (e : TExp K) (j : Nat) (q : Point K) (h : affineIn j e = true) :
    eval (upd q j (rot (q j))) e - eval (upd q j (rotInv (q j))) e = 2 * eval q (dRaw j e) := by
  induction e with
  | const k => simp [eval, dRaw, deriv]
  | cos j' =>
    by_cases hj : j' = j
    · subst hj; simp [eval, dRaw, deriv, upd, rot, rotInv]; ring
    · simp [eval, dRaw, deriv, upd, hj]
  | sin j' =>
    by_cases hj : j' = j
    · subst hj; simp [eval, dRaw, deriv, upd, rot, rotInv]; ring
    · simp [eval, dRaw, deriv, upd, hj]
  | add a b iha ihb =>
    simp only [affineIn, Bool.and_eq_true] at h
    have ha := iha h.1
    have hb := ihb h.2
    simp only [eval, dRaw, deriv] at ha hb ⊢
    rw [show ∀ x y z w : K, x + y - (z + w) = (x - z) + (y - w) from fun x y z w => by ring, ha, hb]
    ring
  | mul a b iha ihb =>
    simp only [affineIn, Bool.or_eq_true, Bool.and_eq_true] at h
    rcases h with ⟨h1, h2⟩ | ⟨h1, h2⟩
    · have ha := iha h1
      have e1 := eval_upd_free b q j (rot (q j)) h2
      have e2 := eval_upd_free b q j (rotInv (q j)) h2
      have e3 := eval_dRaw_free b q j h2
      simp only [dRaw] at ha e3
      simp only [eval, dRaw, deriv, e1, e2, e3]
      rw [show ∀ x y z : K, x * z - y * z = (x - y) * z from fun x y z => by ring, ha]
      ring
    · have hb := ihb h2
      have e1 := eval_upd_free a q j (rot (q j)) h1
      have e2 := eval_upd_free a q j (rotInv (q j)) h1
      have e3 := eval_dRaw_free a q j h1
      simp only [dRaw] at hb e3
      simp only [eval, dRaw, deriv, e1, e2, e3]
      rw [show ∀ x y z : K, z * x - z * y = z * (x - y) from fun x y z => by ring, hb]
      ring

/-! ## finite sums over lists -/

def lsum {α : Type} (l : List α) (f : α → K) : K :=
  match l with
  | [] => 0
  | x :: xs => f x + lsum xs f

theorem lsum_add {α : Type} (l : List α) (f g : α → K) :
    lsum l (fun x => f x + g x) = lsum l f + lsum l g := by
  induction l with
  | nil => simp [lsum]
  | cons x xs ih => simp only [lsum, ih]; ring

theorem lsum_mul_right {α : Type} (l : List α) (f : α → K) (c : K) :
    lsum l (fun x => f x * c) = lsum l f * c := by
  induction l with
  | nil => simp [lsum]
  | cons x xs ih => simp only [lsum, ih]; ring

theorem lsum_mul_left {α : Type} (l : List α) (f : α → K) (c : K) :
    lsum l (fun x => c * f x) = c * lsum l f := by
  induction l with
  | nil => simp [lsum]
  | cons x xs ih => simp only [lsum, ih]; ring

theorem lsum_congr {α : Type} (l : List α) (f g : α → K) (h : ∀ x ∈ l, f x = g x) :
    lsum l f = lsum l g := by
  induction l with
  | nil => rfl
  | cons x xs ih =>
    simp only [lsum]
    rw [h x (by simp), ih (fun y hy => h y (by simp [hy]))]

theorem lsum_zero {α : Type} (l : List α) : lsum l (fun _ => (0 : K)) = 0 := by
  induction l with
  | nil => rfl
  | cons x xs ih => simp [lsum, ih]

theorem lsum_ite_not_mem (l : List Nat) (j : Nat) (c : K) (h : j ∉ l) :
    lsum l (fun x => if x = j then c else 0) = 0 := by
  induction l with
  | nil => rfl
  | cons x xs ih =>
    have hx : x ≠ j := fun hh => h (by simp [hh])
    have hxs : j ∉ xs := fun hh => h (by simp [hh])
    simp [lsum, hx, ih hxs]

theorem lsum_ite_eq (l : List Nat) (j : Nat) (c : K) (hn : l.Nodup) (h : j ∈ l) :
    lsum l (fun x => if x = j then c else 0) = c := by
  induction l with
  | nil => simp at h
  | cons x xs ih =>
    have hn' := List.nodup_cons.mp hn
    by_cases hx : x = j
    · subst hx
      simp [lsum, lsum_ite_not_mem xs x c hn'.1]
    · have : j ∈ xs := by
        rcases List.mem_cons.mp h with hh | hh
        · exact absurd hh.symm hx
        · exact hh
      simp [lsum, hx, ih hn'.2 this]

/-! ## the chain rule -/

/-- `d/dθ = Σ_j (∂φ_j/∂θ) · ∂/∂φ_j`, the sum over a duplicate-free list of raw parameters that
    contains every raw parameter of the expression -/
theorem chain_rule_lsum (e : TExp K) (dc : Nat → K) (q : Point K) (outs : List Nat)
    (hn : outs.Nodup) (hsub : ∀ j ∈ raws e, j ∈ outs) :
    eval q (deriv dc e) = lsum outs fun raw => dc raw * eval q (dRaw raw e) := by
  induction e with
  | const k => simp [deriv, dRaw, eval, lsum_zero]
  | cos j =>
    have hj : j ∈ outs := hsub j (by simp [raws])
    have : (fun raw => dc raw * eval q (dRaw raw (cos j : TExp K)))
        = fun raw => if raw = j then -(dc j) * (q j).2 else 0 := by
      funext raw
      by_cases h : raw = j
      · subst h; simp [dRaw, deriv, eval]
      · have h' : j ≠ raw := fun hh => h hh.symm
        simp [dRaw, deriv, eval, h, h']
    rw [this, lsum_ite_eq outs j _ hn hj]
    simp [deriv, eval]
  | sin j =>
    have hj : j ∈ outs := hsub j (by simp [raws])
    have : (fun raw => dc raw * eval q (dRaw raw (sin j : TExp K)))
        = fun raw => if raw = j then dc j * (q j).1 else 0 := by
      funext raw
      by_cases h : raw = j
      · subst h; simp [dRaw, deriv, eval]
      · have h' : j ≠ raw := fun hh => h hh.symm
        simp [dRaw, deriv, eval, h, h']
    rw [this, lsum_ite_eq outs j _ hn hj]
    simp [deriv, eval]
  | add a b iha ihb =>
    have ha := iha (fun j hj => hsub j (by simp [raws, hj]))
    have hb := ihb (fun j hj => hsub j (by simp [raws, hj]))
    simp only [deriv, dRaw, eval] at ha hb ⊢
    rw [ha, hb, ← lsum_add]
    apply lsum_congr; intro x _; ring
  | mul a b iha ihb =>
    have ha := iha (fun j hj => hsub j (by simp [raws, hj]))
    have hb := ihb (fun j hj => hsub j (by simp [raws, hj]))
    simp only [deriv, dRaw, eval] at ha hb ⊢
    rw [ha, hb, ← lsum_mul_right, ← lsum_mul_left, ← lsum_add]
    apply lsum_congr; intro x _; ring

/-! ## structure preserved by differentiation -/

theorem raws_deriv (e : TExp K) (dc : Nat → K) : ∀ j ∈ raws (deriv dc e), j ∈ raws e := by
  induction e with
  | const k => simp [deriv, raws]
  | cos j => simp [deriv, raws]
  | sin j => simp [deriv, raws]
  | add a b iha ihb =>
    intro j hj
    simp only [deriv, raws, List.mem_append] at hj ⊢
    rcases hj with hj | hj
    · exact Or.inl (iha j hj)
    · exact Or.inr (ihb j hj)
  | mul a b iha ihb =>
    intro j hj
    simp only [deriv, raws, List.mem_append] at hj ⊢
    rcases hj with (hj | hj) | (hj | hj)
    · exact Or.inl (iha j hj)
    · exact Or.inr hj
    · exact Or.inl hj
    · exact Or.inr (ihb j hj)

theorem free_deriv (e : TExp K) (dc : Nat → K) (j : Nat) (h : free j e = true) :
    free j (deriv dc e) = true := by
  rw [free_iff] at h ⊢
  exact fun hh => h (raws_deriv e dc j hh)

theorem affineIn_deriv (e : TExp K) (dc : Nat → K) (j : Nat) (h : affineIn j e = true) :
    affineIn j (deriv dc e) = true := by
  induction e with
  | const k => simp [deriv, affineIn]
  | cos j' => simp [deriv, affineIn, free]
  | sin j' => simp [deriv, affineIn, free]
  | add a b iha ihb =>
    simp only [affineIn, Bool.and_eq_true] at h
    simp [deriv, affineIn, iha h.1, ihb h.2]
  | mul a b iha ihb =>
    simp only [affineIn, Bool.or_eq_true, Bool.and_eq_true] at h
    rcases h with ⟨h1, h2⟩ | ⟨h1, h2⟩
    · simp [deriv, affineIn, iha h1, h2, h1, free_deriv b dc j h2]
    · simp [deriv, affineIn, ihb h2, h2, h1, free_deriv a dc j h1]

/-- derivations along two directions commute (equality of mixed second derivatives) -/
theorem deriv_comm (e : TExp K) (d1 d2 : Nat → K) (q : Point K) :
    eval q (deriv d1 (deriv d2 e)) = eval q (deriv d2 (deriv d1 e)) := by
  induction e with
  | const k => simp [deriv, eval]
  | cos j => simp [deriv, eval]; ring
  | sin j => simp [deriv, eval]; ring
  | add a b iha ihb => simp only [deriv, eval, iha, ihb]
  | mul a b iha ihb => simp only [deriv, eval, iha, ihb]; ring

/-! ## semantics of the shift-set algebra -/

variable (ι : ℚ →+* K)

theorem sem_addTerm (e : TExp K) (pt : Point K) (acc : List Term) (key : Shifts) (v : ℚ) :
    sem ι e pt (addTerm acc key v) = sem ι e pt acc + ι v * eval (shiftPt key pt) e := by
  induction acc with
  | nil => simp [addTerm, sem]
  | cons hd tl ih =>
    obtain ⟨k, w⟩ := hd
    unfold addTerm
    by_cases h : k = key
    · subst h; simp only [if_true, sem, map_add]; ring
    · simp only [h, if_false, sem, ih]; ring

theorem half_two : ι (1 / 2) * 2 = 1 := by
  have h : ι (1 / 2) + ι (1 / 2) = 1 := by
    rw [← map_add]
    have : (1 / 2 : ℚ) + 1 / 2 = 1 := by norm_num
    rw [this, map_one]
  rw [mul_two]; exact h

theorem sem_derivStep (e : TExp K) (pt : Point K) (dc : Nat → ℚ) (t : Term) (outs : List Nat)
    (haff : ∀ j ∈ outs, affineIn j e = true) (acc : List Term) :
    sem ι e pt (derivStep dc outs acc t)
      = sem ι e pt acc
        + lsum outs fun raw => ι (t.2 * dc raw) * eval (shiftPt t.1 pt) (dRaw raw e) := by
  unfold derivStep
  induction outs generalizing acc with
  | nil => simp [lsum]
  | cons raw rest ih =>
    have hrest : ∀ j ∈ rest, affineIn j e = true := fun j hj => haff j (by simp [hj])
    rw [List.foldl_cons, ih hrest]
    simp only [lsum]
    by_cases hc : dc raw = 0
    · simp [hc]
    · simp only [hc, if_false, sem_addTerm, shiftPt_bump_pos, shiftPt_bump_neg]
      have hs := shift_rule_two e raw (shiftPt t.1 pt) (haff raw (by simp))
      have e1 : ι (t.2 * dc raw * 1 / 2) = ι (t.2 * dc raw) * ι (1 / 2) := by
        rw [← map_mul]; congr 1; ring
      have e2 : ι (t.2 * dc raw * (-1) / 2) = -(ι (t.2 * dc raw) * ι (1 / 2)) := by
        rw [← map_mul, ← map_neg]; congr 1; ring
      rw [e1, e2]
      have h2 := half_two ι
      generalize eval (upd (shiftPt t.1 pt) raw (rot (shiftPt t.1 pt raw))) e = x at hs ⊢
      generalize eval (upd (shiftPt t.1 pt) raw (rotInv (shiftPt t.1 pt raw))) e = y at hs ⊢
      have hxy : x = y + 2 * eval (shiftPt t.1 pt) (dRaw raw e) := by rw [← hs]; ring
      rw [hxy]
      calc _ = sem ι e pt acc + ι (t.2 * dc raw) * (ι (1 / 2) * 2) * eval (shiftPt t.1 pt) (dRaw raw e)
              + lsum rest fun raw => ι (t.2 * dc raw) * eval (shiftPt t.1 pt) (dRaw raw e) := by ring
        _ = _ := by rw [h2]; ring

/-- the heart of C09: one application of `_get_derivative` differentiates the assembled value.
    `dc raw = ∂φ_raw/∂θ`; `outs` must be duplicate-free, contain every raw parameter of `e`,
    and `e` must be affine in each `(cos_raw, sin_raw)`. -/
theorem sem_getDerivative (e : TExp K) (pt : Point K) (dc : Nat → ℚ) (outs : List Nat)
    (hn : outs.Nodup) (hsub : ∀ j ∈ raws e, j ∈ outs) (haff : ∀ j ∈ outs, affineIn j e = true)
    (swc : List Term) :
    sem ι e pt (getDerivative dc outs swc) = sem ι (deriv (fun j => ι (dc j)) e) pt swc := by
  unfold getDerivative
  have key : ∀ (swc acc : List Term),
      sem ι e pt (swc.foldl (derivStep dc outs) acc)
        = sem ι e pt acc + sem ι (deriv (fun j => ι (dc j)) e) pt swc := by
    intro swc
    induction swc with
    | nil => intro acc; simp [sem]
    | cons t rest ih =>
      intro acc
      rw [List.foldl_cons, ih, sem_derivStep ι e pt dc t outs haff]
      simp only [sem]
      rw [chain_rule_lsum e _ (shiftPt t.1 pt) outs hn hsub, ← lsum_mul_left]
      have : (fun raw => ι (t.2 * dc raw) * eval (shiftPt t.1 pt) (dRaw raw e))
          = fun x => ι t.2 * (ι (dc x) * eval (shiftPt t.1 pt) (dRaw x e)) := by
        funext raw; rw [map_mul]; ring
      rw [this]; ring
  rw [key swc []]
  simp [sem]

theorem sem_noShift (e : TExp K) (pt : Point K) : sem ι e pt noShift = eval pt e := by
  simp [noShift, sem, shiftPt_nil]

end Ring

/-! ## circuits: the expectation value is multi-affine when raw parameters are not shared -/

section Circuit
variable {K : Type} [CommRing K]

/-- affine in every pair, and mentions only raw parameters of `used` -/
def Good (used : List Nat) (x : TExp K) : Prop :=
  (∀ j, affineIn j x = true) ∧ ∀ j ∈ raws x, j ∈ used

theorem Good.mono {used used' : List Nat} {x : TExp K} (h : Good used x) (hs : ∀ j ∈ used, j ∈ used') :
    Good used' x := ⟨h.1, fun j hj => hs j (h.2 j hj)⟩

theorem good_dotE (used : List Nat) (row : List K) (v : List (TExp K)) (hv : ∀ x ∈ v, Good used x) :
    Good used (dotE row v) := by
  induction row generalizing v with
  | nil => exact ⟨fun j => by simp [dotE, affineIn], fun j hj => by simp [dotE, raws] at hj⟩
  | cons r rs ih =>
    cases v with
    | nil => exact ⟨fun j => by simp [dotE, affineIn], fun j hj => by simp [dotE, raws] at hj⟩
    | cons x xs =>
      have hx := hv x (by simp)
      have hxs := ih xs (fun y hy => hv y (by simp [hy]))
      refine ⟨fun j => ?_, fun j hj => ?_⟩
      · simp [dotE, affineIn, free, hx.1 j, hxs.1 j]
      · simp only [dotE, raws, List.nil_append, List.mem_append] at hj
        rcases hj with hj | hj
        · exact hx.2 j hj
        · exact hxs.2 j hj

theorem good_matVecE (used : List Nat) (M : List (List K)) (v : List (TExp K))
    (hv : ∀ x ∈ v, Good used x) : ∀ y ∈ matVecE M v, Good used y := by
  intro y hy
  obtain ⟨row, _, rfl⟩ := List.mem_map.mp hy
  exact good_dotE used row v hv

theorem mem_zipAdd (xs ys : List (TExp K)) :
    ∀ z ∈ zipAdd xs ys, ∃ x ∈ xs, ∃ y ∈ ys, z = TExp.add x y := by
  induction xs generalizing ys with
  | nil => intro z hz; simp [zipAdd] at hz
  | cons x xs ih =>
    cases ys with
    | nil => intro z hz; simp [zipAdd] at hz
    | cons y ys =>
      intro z hz
      simp only [zipAdd, List.mem_cons] at hz
      rcases hz with rfl | hz
      · exact ⟨x, by simp, y, by simp, rfl⟩
      · obtain ⟨x', hx', y', hy', rfl⟩ := ih ys z hz
        exact ⟨x', by simp [hx'], y', by simp [hy'], rfl⟩

theorem good_add (used : List Nat) (x y : TExp K) (hx : Good used x) (hy : Good used y) :
    Good used (TExp.add x y) := by
  refine ⟨fun j => by simp [affineIn, hx.1 j, hy.1 j], fun j hj => ?_⟩
  simp only [raws, List.mem_append] at hj
  rcases hj with hj | hj
  · exact hx.2 j hj
  · exact hy.2 j hj

/-- multiplying an expression that does not mention `j` by `cos_j` / `sin_j` keeps it multi-affine -/
theorem good_mul_gen (used : List Nat) (j : Nat) (g x : TExp K) (hg : g = TExp.cos j ∨ g = TExp.sin j)
    (hx : Good used x) (hj : j ∉ used) : Good (used ++ [j]) (TExp.mul g x) := by
  have hfree : free j x = true := (free_iff j x).mpr (fun hh => hj (hx.2 j hh))
  refine ⟨fun j' => ?_, fun j' hj' => ?_⟩
  · by_cases h : j' = j
    · subst h; rcases hg with rfl | rfl <;> simp [affineIn, hfree]
    · have h' : j ≠ j' := fun hh => h hh.symm
      rcases hg with rfl | rfl <;> simp [affineIn, free, h', hx.1 j']
  · rcases hg with rfl | rfl <;>
    · simp only [raws, List.singleton_append, List.mem_cons] at hj'
      rcases hj' with rfl | hj'
      · simp
      · simp [hx.2 j' hj']

theorem good_step (used : List Nat) (s : Step K) (v : List (TExp K)) (hv : ∀ x ∈ v, Good used x)
    (hfresh : ∀ j ∈ stepRaws [s], j ∉ used) :
    ∀ y ∈ s.apply v, Good (used ++ stepRaws [s]) y := by
  cases s with
  | fixed F =>
    intro y hy
    simp only [stepRaws, List.append_nil]
    exact good_matVecE used F v hv y hy
  | param j A B G =>
    have hj : j ∉ used := hfresh j (by simp [stepRaws])
    intro y hy
    simp only [stepRaws]
    obtain ⟨a, ha, w, hw, rfl⟩ := mem_zipAdd _ _ y hy
    obtain ⟨b, hb, c, hc, rfl⟩ := mem_zipAdd _ _ w hw
    obtain ⟨b', hb', rfl⟩ := List.mem_map.mp hb
    obtain ⟨c', hc', rfl⟩ := List.mem_map.mp hc
    have ga := (good_matVecE used A v hv a ha).mono (used' := used ++ [j]) (fun i hi => by simp [hi])
    have gb := good_mul_gen used j (TExp.cos j) b' (Or.inl rfl) (good_matVecE used B v hv b' hb') hj
    have gc := good_mul_gen used j (TExp.sin j) c' (Or.inr rfl) (good_matVecE used G v hv c' hc') hj
    exact good_add _ _ _ ga (good_add _ _ _ gb gc)

theorem stepRaws_cons (s : Step K) (rest : List (Step K)) :
    stepRaws (s :: rest) = stepRaws [s] ++ stepRaws rest := by
  cases s <;> simp [stepRaws]

theorem good_foldl (steps : List (Step K)) :
    ∀ (used : List Nat) (v : List (TExp K)), (∀ x ∈ v, Good used x) → (stepRaws steps).Nodup →
      (∀ j ∈ stepRaws steps, j ∉ used) →
      ∀ y ∈ steps.foldl (fun v s => s.apply v) v, Good (used ++ stepRaws steps) y := by
  induction steps with
  | nil => intro used v hv _ _ y hy; simpa [stepRaws] using hv y hy
  | cons s rest ih =>
    intro used v hv hn hfresh y hy
    rw [stepRaws_cons] at hn hfresh ⊢
    rw [List.foldl_cons] at hy
    have h1 := good_step used s v hv (fun j hj => hfresh j (by simp [hj]))
    have hn' := List.nodup_append.mp hn
    have := ih (used ++ stepRaws [s]) (s.apply v) h1 hn'.2.1
      (fun j hj hh => by
        rcases List.mem_append.mp hh with hh | hh
        · exact hfresh j (by simp [hj]) hh
        · exact hn'.2.2 j hh j hj rfl)
      y hy
    simpa [List.append_assoc] using this

/-- `RawDistinct` ⇒ the expectation value is affine in every `(cos_j, sin_j)` and mentions only the
    raw parameters of the circuit's parametric gates -/
theorem expectation_good (ℓ : List K) (steps : List (Step K)) (O : List K)
    (h : (stepRaws steps).Nodup) : Good (stepRaws steps) (expectation ℓ steps O) := by
  unfold expectation
  have h0 : ∀ x ∈ O.map (TExp.const (K := K)), Good ([] : List Nat) x := by
    intro x hx
    obtain ⟨k, _, rfl⟩ := List.mem_map.mp hx
    exact ⟨fun j => by simp [affineIn], fun j hj => by simp [raws] at hj⟩
  have := good_foldl steps [] _ h0 h (fun j _ => by simp)
  have hd := good_dotE ([] ++ stepRaws steps) ℓ _ this
  simpa using hd

end Circuit

/-! ## the derivative of the linear mapping -/

section MappingDeriv

def fnKeysNodup : MapVal → Bool
  | .param _ => true
  | .fn f => decide (f.map (·.1)).Nodup

/-- the mapping is a Python dict of dicts: keys pairwise distinct -/
def Mapping.WF (m : Mapping) : Prop :=
  (m.map.map (·.1)).Nodup ∧ ∀ e ∈ m.map, fnKeysNodup e.2 = true

instance (m : Mapping) : Decidable m.WF := by unfold Mapping.WF; exact inferInstance

def updQ (θ : Nat → ℚ) (p : Nat) (x : ℚ) : Nat → ℚ := fun i => if i = p then x else θ i

theorem lookup_none_of_not_mem {α β : Type} [BEq α] [LawfulBEq α] (l : List (α × β)) (k : α)
    (h : k ∉ l.map (·.1)) : l.lookup k = none := by
  induction l with
  | nil => rfl
  | cons hd tl ih =>
    obtain ⟨a, b⟩ := hd
    have hne : k ≠ a := fun hh => h (by simp [hh])
    have : (k == a) = false := by simp [hne]
    simp only [List.lookup_cons, this]
    exact ih (fun hh => h (by simp at hh ⊢; exact Or.inr hh))

theorem mem_of_lookup {α β : Type} [BEq α] [LawfulBEq α] (l : List (α × β)) (k : α) (v : β)
    (h : l.lookup k = some v) : (k, v) ∈ l := by
  induction l with
  | nil => simp at h
  | cons hd tl ih =>
    obtain ⟨a, b⟩ := hd
    by_cases hk : k = a
    · subst hk; simp [List.lookup_cons] at h; simp [h]
    · have : (k == a) = false := by simp [hk]
      simp only [List.lookup_cons, this] at h
      exact List.mem_cons_of_mem _ (ih h)

theorem fnValT_upd (θ : Nat → ℚ) (p : Nat) (t : ℚ) (f : List (Key × ℚ)) (h : (f.map (·.1)).Nodup) :
    fnValT (updQ θ p (θ p + t)) f
      = fnValT θ f + t * (match f.lookup (Key.p p) with | some c => c | none => 0) := by
  induction f with
  | nil => simp [fnValT]
  | cons hd tl ih =>
    obtain ⟨k, c⟩ := hd
    have h' : (k :: tl.map (·.1)).Nodup := h
    have hn := List.nodup_cons.mp h'
    have iht := ih hn.2
    by_cases hk : k = Key.p p
    · subst hk
      have hl : tl.lookup (Key.p p) = none := lookup_none_of_not_mem tl _ hn.1
      rw [hl] at iht
      simp only [fnValT, keyValT, updQ, if_true, iht, List.lookup_cons, beq_self_eq_true]
      ring
    · have hb : (Key.p p == k) = false := by simp [Ne.symm hk]
      have hkv : keyValT (updQ θ p (θ p + t)) k = keyValT θ k := by
        cases k with
        | const => rfl
        | p q =>
          have : q ≠ p := fun hh => hk (by rw [hh])
          simp [keyValT, updQ, this]
      simp only [fnValT, hkv, iht, List.lookup_cons, hb]
      ring

theorem derivEntries_lookup_none (map : List (Nat × MapVal)) (p r : Nat) (h : r ∉ map.map (·.1)) :
    (derivEntries map p).lookup r = none := by
  apply lookup_none_of_not_mem
  intro hh
  apply h
  obtain ⟨⟨a, b⟩, hab, rfl⟩ := List.mem_map.mp hh
  unfold derivEntries at hab
  obtain ⟨⟨r', v⟩, hmem, hf⟩ := List.mem_filterMap.mp hab
  have : r' = a := by
    cases v with
    | param q =>
      by_cases hq : q = p
      · simp [hq] at hf; exact hf.1
      · simp [hq] at hf
    | fn f =>
      cases hl : f.lookup (Key.p p) with
      | none => simp [hl] at hf
      | some c => simp [hl] at hf; exact hf.1
  subst this
  exact List.mem_map.mpr ⟨(r', v), hmem, rfl⟩

theorem derivCoef_eq (m : Mapping) (p raw : Nat) (h : (m.map.map (·.1)).Nodup) :
    derivCoef m p raw =
      match m.map.lookup raw with
      | some (.param q) => if q = p then 1 else 0
      | some (.fn f) => (match f.lookup (Key.p p) with | some c => c | none => 0)
      | none => 0 := by
  unfold derivCoef linearDeriv
  generalize m.map = map at h
  induction map with
  | nil => simp [derivEntries]
  | cons hd tl ih =>
    obtain ⟨r, v⟩ := hd
    have h' : (r :: tl.map (·.1)).Nodup := h
    have hn := List.nodup_cons.mp h'
    have iht := ih hn.2
    by_cases hr : raw = r
    · subst hr
      have hnone := derivEntries_lookup_none tl p raw hn.1
      cases v with
      | param q =>
        by_cases hq : q = p
        · simp [derivEntries, List.filterMap_cons, hq, List.lookup_cons]
        · have : (derivEntries ((raw, MapVal.param q) :: tl) p) = derivEntries tl p := by
            simp [derivEntries, List.filterMap_cons, hq]
          rw [this, hnone]; simp [List.lookup_cons, hq]
      | fn f =>
        cases hl : f.lookup (Key.p p) with
        | none =>
          have : (derivEntries ((raw, MapVal.fn f) :: tl) p) = derivEntries tl p := by
            simp [derivEntries, List.filterMap_cons, hl]
          rw [this, hnone]; simp [List.lookup_cons, hl]
        | some c =>
          simp [derivEntries, List.filterMap_cons, hl, List.lookup_cons]
    · have hb : (raw == r) = false := by simp [hr]
      have : (derivEntries ((r, v) :: tl) p).lookup raw = (derivEntries tl p).lookup raw := by
        unfold derivEntries
        rw [List.filterMap_cons]
        split
        · rfl
        · rename_i b hb'
          have : b.1 = r := by
            cases v with
            | param q =>
              by_cases hq : q = p
              · simp [hq] at hb'; rw [← hb']
              · simp [hq] at hb'
            | fn f =>
              cases hl : f.lookup (Key.p p) with
              | none => simp [hl] at hb'
              | some c => simp [hl] at hb'; rw [← hb']
          have hb2 : (raw == b.1) = false := by rw [this]; exact hb
          obtain ⟨b1, b2⟩ := b
          simp only [List.lookup_cons] 
          simp only at hb2
          rw [hb2]
      rw [this]
      simp only [List.lookup_cons, hb]
      exact iht

/-- `get_derivatives` of the mapping is its Jacobian: moving input parameter `p` by `t` moves every raw
    angle by `t · derivCoef m p raw` (exactly; the mapping is affine) -/
theorem phiT_upd (m : Mapping) (hwf : m.WF) (θ : Nat → ℚ) (p : Nat) (t : ℚ) (raw : Nat) :
    phiT m (updQ θ p (θ p + t)) raw = phiT m θ raw + t * derivCoef m p raw := by
  rw [derivCoef_eq m p raw hwf.1]
  unfold phiT
  cases hl : m.map.lookup raw with
  | none => simp
  | some v =>
    cases v with
    | param q =>
      by_cases hq : q = p
      · subst hq; simp [mapValT, updQ]
      · simp [mapValT, updQ, hq]
    | fn f =>
      have hmem := mem_of_lookup m.map raw _ hl
      have hf := hwf.2 _ hmem
      simp only [fnKeysNodup, decide_eq_true_eq] at hf
      simp only [mapValT]
      exact fnValT_upd θ p t f hf

/-! ### the executable `mapper` agrees with `phiT` -/

theorem getKey_ok {α β : Type} [BEq α] (d : List (α × β)) (k : α) (v : β) (h : getKey d k = .ok v) :
    d.lookup k = some v := by
  unfold getKey at h
  cases hl : d.lookup k with
  | none => simp [hl] at h
  | some w => simp [hl] at h; rw [h]

theorem fnVal_ok (ins : List Nat) (vals : List ℚ) (f : List (Key × ℚ)) (v : ℚ)
    (h : fnVal (assign ins vals) f = .ok v) : v = fnValT (θof ins vals) f := by
  induction f generalizing v with
  | nil => simp [fnVal] at h; simp [fnValT, h]
  | cons hd tl ih =>
    obtain ⟨k, c⟩ := hd
    simp only [fnVal, bind, Except.bind] at h
    cases hk : keyVal (assign ins vals) k with
    | error e => simp [hk] at h
    | ok x =>
      cases hr : fnVal (assign ins vals) tl with
      | error e => simp [hk, hr] at h
      | ok y =>
        simp [hk, hr, pure, Except.pure] at h
        have hy := ih y hr
        have hx : x = keyValT (θof ins vals) k := by
          cases k with
          | const => simp [keyVal] at hk; simp [keyValT, hk]
          | p i =>
            have := getKey_ok _ _ _ hk
            simp [keyValT, θof, this]
        simp [fnValT, ← h, hx, hy]

theorem outVal_ok (m : Mapping) (vals : List ℚ) (raw : Nat) (v : ℚ)
    (h : outVal m (assign m.inParams vals) raw = .ok v) : v = phiT m (θof m.inParams vals) raw := by
  simp only [outVal, bind, Except.bind] at h
  cases hk : getKey m.map raw with
  | error e => simp [hk] at h
  | ok f =>
    have hl := getKey_ok _ _ _ hk
    simp only [hk] at h
    unfold phiT
    rw [hl]
    cases f with
    | param i =>
      simp only [mapValEval] at h
      have := getKey_ok _ _ _ h
      simp [mapValT, θof, this]
    | fn f =>
      simp only [mapValEval] at h
      exact fnVal_ok _ _ _ _ h

theorem mapM_ok_forall₂ {α β : Type} (f : α → R β) :
    ∀ (l : List α) (ys : List β), l.mapM f = .ok ys → List.Forall₂ (fun x y => f x = .ok y) l ys := by
  intro l
  induction l with
  | nil => intro ys h; simp [pure, Except.pure] at h; subst h; exact List.Forall₂.nil
  | cons a l ih =>
    intro ys h
    rw [List.mapM_cons] at h
    simp only [bind, Except.bind] at h
    cases ha : f a with
    | error e => simp [ha] at h
    | ok b =>
      cases hl : l.mapM f with
      | error e => simp [ha, hl] at h
      | ok bs =>
        simp [ha, hl, pure, Except.pure] at h
        subst h
        exact List.Forall₂.cons ha (ih bs hl)

theorem mapper_ok (m : Mapping) (vals ov : List ℚ) (h : mapper m vals = .ok ov) :
    List.Forall₂ (fun raw v => v = phiT m (θof m.inParams vals) raw) m.outParams ov := by
  have := mapM_ok_forall₂ _ _ _ h
  clear h
  generalize m.outParams = outs at this
  induction this with
  | nil => exact List.Forall₂.nil
  | cons hx _ ih => exact List.Forall₂.cons (outVal_ok m vals _ _ hx) ih

end MappingDeriv

/-! ## glue: the estimator-facing functions of gradient.py / hessian.py -/

section Glue
variable {K : Type} [CommRing K] (ι : ℚ →+* K)

theorem lookup_zip_vec (φ : Nat → ℚ) (g : Nat → Int) (outs : List Nat) (ov : List ℚ)
    (h : List.Forall₂ (fun raw v => v = φ raw) outs ov) (j : Nat) (hj : j ∈ outs) :
    (outs.zip ((outs.zip ov).map fun e => (e.2, g e.1))).lookup j = some (φ j, g j) := by
  induction h with
  | nil => simp at hj
  | @cons r v rs vs hv _ ih =>
    by_cases hjr : j = r
    · subst hjr; simp [List.lookup_cons, hv]
    · have hb : (j == r) = false := by simp [hjr]
      have : j ∈ rs := by
        rcases List.mem_cons.mp hj with hh | hh
        · exact absurd hh hjr
        · exact hh
      simp only [List.zip_cons_cons, List.map_cons, List.lookup_cons, hb]
      exact ih this

theorem estOf_shiftedVec (cs : ℚ → K × K) (e : TExp K) (m : Mapping) (vals ov : List ℚ) (sh : Shifts)
    (vec : List Angle) (hm : mapper m vals = .ok ov) (hv : shiftedVec m.outParams ov sh = .ok vec)
    (hsub : ∀ j ∈ raws e, j ∈ m.outParams) :
    estOf cs e m.outParams vec = eval (shiftPt sh (basePt cs m vals)) e := by
  unfold estOf
  apply eval_congr
  intro j hj
  have hjo := hsub j hj
  unfold shiftedVec at hv
  split at hv
  · simp only [Except.ok.injEq] at hv
    subst hv
    unfold ptOfVec
    rw [lookup_zip_vec _ (getShift sh) _ _ (mapper_ok m vals ov hm) j hjo]
    simp [shiftPt, basePt]
  · simp at hv

theorem recombine_eq (cs : ℚ → K × K) (e : TExp K) (m : Mapping) (vals ov : List ℚ)
    (hm : mapper m vals = .ok ov) (hsub : ∀ j ∈ raws e, j ∈ m.outParams)
    (swc : List Term) (ts : List (List Angle × ℚ))
    (h : List.Forall₂ (fun (t : Term) y =>
      (do let v ← shiftedVec m.outParams ov t.1; pure (v, t.2) : R (List Angle × ℚ)) = .ok y) swc ts) :
    recombine (0 : K) (· + ·) (fun v c => v * ι c) (estOf cs e m.outParams) ts
      = sem ι e (basePt cs m vals) swc := by
  unfold recombine
  have key : ∀ acc : K,
      ts.foldl (fun g pc => g + estOf cs e m.outParams pc.1 * ι pc.2) acc
        = acc + sem ι e (basePt cs m vals) swc := by
    induction h with
    | nil => intro acc; simp [sem]
    | @cons t y swc' ts' hy _ ih =>
      intro acc
      simp only [bind, Except.bind] at hy
      cases hv : shiftedVec m.outParams ov t.1 with
      | error err => simp [hv] at hy
      | ok vec =>
        simp [hv, pure, Except.pure] at hy
        subst hy
        rw [List.foldl_cons, ih]
        simp only [sem]
        rw [estOf_shiftedVec cs e m vals ov t.1 vec hm hv hsub]
        ring
  rw [key 0]; ring

theorem shiftedParamsAndCoef_sem (cs : ℚ → K × K) (e : TExp K) (m : Mapping) (vals : List ℚ)
    (hsub : ∀ j ∈ raws e, j ∈ m.outParams) (swc : List Term) (ts : List (List Angle × ℚ))
    (h : shiftedParamsAndCoef m swc vals = .ok ts) :
    recombine (0 : K) (· + ·) (fun v c => v * ι c) (estOf cs e m.outParams) ts
      = sem ι e (basePt cs m vals) swc := by
  simp only [shiftedParamsAndCoef, bind, Except.bind] at h
  cases hm : mapper m vals with
  | error err => simp [hm] at h
  | ok ov =>
    simp only [hm] at h
    have := mapM_ok_forall₂ _ _ _ h
    exact recombine_eq ι cs e m vals ov hm hsub swc ts this

end Glue

/-! ## gradient / Hessian entry points -/

section Entry
variable {K : Type} [CommRing K] (ι : ℚ →+* K)

theorem forall₂_map_eq {α β γ : Type} (R : α → β → Prop) (F : β → γ) (G : α → γ) (l : List α) (ts : List β)
    (h : List.Forall₂ R l ts) (hRG : ∀ x y, R x y → F y = G x) : ts.map F = l.map G := by
  induction h with
  | nil => rfl
  | cons hxy _ ih => simp [hRG _ _ hxy, ih]

theorem spDerivatives_eq (m : Mapping) (swc : List Term) :
    spDerivatives m swc = m.inParams.map fun p => getDerivative (derivCoef m p) m.outParams swc := by
  simp only [spDerivatives, getDerivMaps, List.map_map, Function.comp_def]
  rfl

theorem psGradient_ok (cs : ℚ → K × K) (e : TExp K) (m : Mapping) (vals : List ℚ) (g : List K)
    (hsub : ∀ j ∈ raws e, j ∈ m.outParams)
    (h : psGradient (0 : K) (· + ·) (fun v c => v * ι c) (estOf cs e m.outParams) m vals = .ok g) :
    g = m.inParams.map fun p =>
      sem ι e (basePt cs m vals) (getDerivative (derivCoef m p) m.outParams noShift) := by
  simp only [psGradient, gradientTerms, bind, Except.bind] at h
  cases hts : (spDerivatives m noShift).mapM (fun d => shiftedParamsAndCoef m d vals) with
  | error err => simp [hts] at h
  | ok ts =>
    simp [hts, pure, Except.pure] at h
    subst h
    have hf := mapM_ok_forall₂ _ _ _ hts
    rw [forall₂_map_eq _ _ (fun d => sem ι e (basePt cs m vals) d) _ _ hf
      (fun d t hdt => shiftedParamsAndCoef_sem ι cs e m vals hsub d t hdt)]
    rw [spDerivatives_eq, List.map_map]
    rfl

theorem psHessian_ok (cs : ℚ → K × K) (e : TExp K) (m : Mapping) (vals : List ℚ) (H : List (List K))
    (hsub : ∀ j ∈ raws e, j ∈ m.outParams)
    (h : psHessian (0 : K) (· + ·) (fun v c => v * ι c) (estOf cs e m.outParams) m vals = .ok H) :
    H = m.inParams.map fun pi => m.inParams.map fun pj =>
      sem ι e (basePt cs m vals)
        (getDerivative (derivCoef m pj) m.outParams (getDerivative (derivCoef m pi) m.outParams noShift)) := by
  simp only [psHessian, hessianTerms, bind, Except.bind] at h
  cases hts : (spDerivatives m noShift).mapM
      (fun di => (spDerivatives m di).mapM fun dij => shiftedParamsAndCoef m dij vals) with
  | error err => simp [hts] at h
  | ok ts =>
    simp [hts, pure, Except.pure] at h
    subst h
    have hf := mapM_ok_forall₂ _ _ _ hts
    rw [forall₂_map_eq _ _
      (fun di => (spDerivatives m di).map fun dij => sem ι e (basePt cs m vals) dij) _ _ hf
      (fun di row hrow => by
        have hr := mapM_ok_forall₂ _ _ _ hrow
        exact forall₂_map_eq _ _ (fun dij => sem ι e (basePt cs m vals) dij) _ _ hr
          (fun d t hdt => shiftedParamsAndCoef_sem ι cs e m vals hsub d t hdt))]
    rw [spDerivatives_eq, List.map_map]
    apply List.map_congr_left
    intro pi _
    simp only [Function.comp_def]
    rw [spDerivatives_eq, List.map_map]
    rfl

end Entry

/-! ## finite rotations: the central difference of an affine expression -/

section Central
variable {K : Type} [CommRing K]

/-- rotation of the pair by an angle `h` given through `(ch, sh) = (cos h, sin h)` -/
def turn (ch sh : K) (p : K × K) : K × K := (p.1 * ch - p.2 * sh, p.2 * ch + p.1 * sh)

/-- `E(φ_j + h) − E(φ_j − h) = 2 sin h · ∂E/∂φ_j` for `E` affine in `(cos_j, sin_j)` -/
theorem central_diff (e : TExp K) (j : Nat) (q : Point K) (ch sh : K) (h : affineIn j e = true) :
    eval (upd q j (turn ch sh (q j))) e - eval (upd q j (turn ch (-sh) (q j))) e
      = 2 * sh * eval q (dRaw j e) := by
  induction e with
  | const k => simp [eval, dRaw, deriv]
  | cos j' =>
    by_cases hj : j' = j
    · subst hj; simp [eval, dRaw, deriv, upd, turn]; ring
    · simp [eval, dRaw, deriv, upd, hj]
  | sin j' =>
    by_cases hj : j' = j
    · subst hj; simp [eval, dRaw, deriv, upd, turn]; ring
    · simp [eval, dRaw, deriv, upd, hj]
  | add a b iha ihb =>
    simp only [affineIn, Bool.and_eq_true] at h
    have ha := iha h.1
    have hb := ihb h.2
    simp only [eval, dRaw, deriv] at ha hb ⊢
    rw [show ∀ x y z w : K, x + y - (z + w) = (x - z) + (y - w) from fun x y z w => by ring, ha, hb]
    ring
  | mul a b iha ihb =>
    simp only [affineIn, Bool.or_eq_true, Bool.and_eq_true] at h
    rcases h with ⟨h1, h2⟩ | ⟨h1, h2⟩
    · have ha := iha h1
      have e1 := eval_upd_free b q j (turn ch sh (q j)) h2
      have e2 := eval_upd_free b q j (turn ch (-sh) (q j)) h2
      have e3 := eval_dRaw_free b q j h2
      simp only [dRaw] at ha e3
      simp only [eval, dRaw, deriv, e1, e2, e3]
      rw [show ∀ x y z : K, x * z - y * z = (x - y) * z from fun x y z => by ring, ha]
      ring
    · have hb := ihb h2
      have e1 := eval_upd_free a q j (turn ch sh (q j)) h1
      have e2 := eval_upd_free a q j (turn ch (-sh) (q j)) h1
      have e3 := eval_dRaw_free a q j h1
      simp only [dRaw] at hb e3
      simp only [eval, dRaw, deriv, e1, e2, e3]
      rw [show ∀ x y z : K, z * x - z * y = z * (x - y) from fun x y z => by ring, hb]
      ring

end Central

/-! ## canonical form of shift sets (list equality = frozenset equality) -/

/-- sorted strictly by raw parameter, no zero shift: the unique list representing a
    `frozenset(dict.items())` whose values are non-zero -/
def Canon (s : Shifts) : Prop := s.Pairwise (fun a b => a.1 < b.1) ∧ ∀ e ∈ s, e.2 ≠ 0

theorem mem_insertSorted (j : Nat) (k : Int) (r : Shifts) (e : Nat × Int) :
    e ∈ insertSorted j k r ↔ e = (j, k) ∨ e ∈ r := by
  induction r with
  | nil => simp [insertSorted]
  | cons hd tl ih =>
    obtain ⟨a, b⟩ := hd
    unfold insertSorted
    by_cases hle : j ≤ a
    · simp [hle]
    · simp only [hle, if_false, List.mem_cons, ih]
      constructor
      · rintro (h | h | h)
        · exact Or.inr (Or.inl h)
        · exact Or.inl h
        · exact Or.inr (Or.inr h)
      · rintro (h | h | h)
        · exact Or.inr (Or.inl h)
        · exact Or.inl h
        · exact Or.inr (Or.inr h)

theorem pairwise_insertSorted (j : Nat) (k : Int) (r : Shifts)
    (hs : r.Pairwise (fun a b => a.1 < b.1)) (hj : ∀ e ∈ r, e.1 ≠ j) :
    (insertSorted j k r).Pairwise (fun a b => a.1 < b.1) := by
  induction r with
  | nil => simp [insertSorted]
  | cons hd tl ih =>
    obtain ⟨a, b⟩ := hd
    have hp := List.pairwise_cons.mp hs
    have ha : a ≠ j := hj (a, b) (by simp)
    unfold insertSorted
    by_cases hle : j ≤ a
    · simp only [hle, if_true]
      refine List.pairwise_cons.mpr ⟨?_, hs⟩
      intro e he
      have hja : j < a := by omega
      rcases List.mem_cons.mp he with rfl | he
      · exact hja
      · exact Nat.lt_trans hja (hp.1 e he)
    · simp only [hle, if_false]
      refine List.pairwise_cons.mpr ⟨?_, ih hp.2 (fun e he => hj e (by simp [he]))⟩
      intro e he
      rcases (mem_insertSorted j k tl e).mp he with rfl | he
      · show a < j; omega
      · exact hp.1 e he

theorem canon_bump (s : Shifts) (j : Nat) (σ : Int) (h : Canon s) : Canon (bump s j σ) := by
  unfold bump setShift
  have hf : (s.filter fun e => e.1 != j).Pairwise (fun a b => a.1 < b.1) := h.1.filter _
  have hne : ∀ e ∈ s.filter (fun e => e.1 != j), e.1 ≠ j := by
    intro e he; simpa using (List.mem_filter.mp he).2
  have hnz : ∀ e ∈ s.filter (fun e => e.1 != j), e.2 ≠ 0 :=
    fun e he => h.2 e (List.mem_filter.mp he).1
  by_cases hv : getShift s j + σ = 0
  · simp only [hv, if_true]; exact ⟨hf, hnz⟩
  · simp only [hv, if_false]
    refine ⟨pairwise_insertSorted _ _ _ hf hne, ?_⟩
    intro e he
    rcases (mem_insertSorted _ _ _ e).mp he with rfl | he
    · exact hv
    · exact hnz e he

/-- two canonical shift sets with the same shifts are the same list -/
theorem canon_ext (s s' : Shifts) (h : Canon s) (h' : Canon s') (hg : ∀ j, getShift s j = getShift s' j) :
    s = s' := by
  induction s generalizing s' with
  | nil =>
    cases s' with
    | nil => rfl
    | cons hd tl =>
      obtain ⟨a, b⟩ := hd
      have := hg a
      simp [getShift, List.lookup_cons] at this
      exact absurd this.symm (h'.2 (a, b) (by simp))
  | cons hd tl ih =>
    obtain ⟨a, b⟩ := hd
    have hp := List.pairwise_cons.mp h.1
    have hb : b ≠ 0 := h.2 (a, b) (by simp)
    have htl_none : ∀ x, x ≤ a → tl.lookup x = none := by
      intro x hx
      apply lookup_none_of_not_mem
      intro hh
      obtain ⟨e, he, rfl⟩ := List.mem_map.mp hh
      have := hp.1 e he
      simp at this; omega
    cases s' with
    | nil =>
      have := hg a
      simp [getShift, List.lookup_cons] at this
      exact absurd this hb
    | cons hd' tl' =>
      obtain ⟨a', b'⟩ := hd'
      have hp' := List.pairwise_cons.mp h'.1
      have hb' : b' ≠ 0 := h'.2 (a', b') (by simp)
      have htl'_none : ∀ x, x ≤ a' → tl'.lookup x = none := by
        intro x hx
        apply lookup_none_of_not_mem
        intro hh
        obtain ⟨e, he, rfl⟩ := List.mem_map.mp hh
        have := hp'.1 e he
        simp at this; omega
      have haa : a = a' := by
        rcases Nat.lt_trichotomy a a' with hlt | heq | hgt
        · have := hg a
          have hne : (a == a') = false := by simp; omega
          simp [getShift, List.lookup_cons, hne, htl'_none a (by omega)] at this
          exact absurd this hb
        · exact heq
        · have := hg a'
          have hne : (a' == a) = false := by simp; omega
          simp [getShift, List.lookup_cons, hne, htl_none a' (by omega)] at this
          exact absurd this.symm hb'
      subst haa
      have hbb : b = b' := by
        have := hg a
        simpa [getShift, List.lookup_cons] using this
      subst hbb
      have htl : tl = tl' := by
        apply ih tl' ⟨hp.2, fun e he => h.2 e (by simp [he])⟩ ⟨hp'.2, fun e he => h'.2 e (by simp [he])⟩
        intro x
        by_cases hx : x = a
        · subst hx
          simp [getShift, htl_none x (Nat.le_refl _), htl'_none x (Nat.le_refl _)]
        · have hne : (x == a) = false := by simp [hx]
          have := hg x
          simpa [getShift, List.lookup_cons, hne] using this
      rw [htl]

/-! ## which inputs are rejected -/

section Rejects

/-- every parameter referenced by a mapping value has a value in `dict(zip(in_params, vals))` -/
def valCovered (θ : List (Nat × ℚ)) : MapVal → Bool
  | .param i => (θ.lookup i).isSome
  | .fn f => f.all fun kc => match kc.1 with
    | .const => true
    | .p i => (θ.lookup i).isSome

/-- every output parameter has a mapping entry whose input parameters all received a value -/
def Covered (m : Mapping) (vals : List ℚ) : Prop :=
  ∀ raw ∈ m.outParams, ∃ v, m.map.lookup raw = some v ∧ valCovered (assign m.inParams vals) v = true

instance (m : Mapping) (vals : List ℚ) : Decidable (Covered m vals) := by
  unfold Covered; exact inferInstance

theorem mapM_ok_iff {α β : Type} (f : α → R β) (l : List α) :
    (∃ ys, l.mapM f = .ok ys) ↔ ∀ x ∈ l, ∃ y, f x = .ok y := by
  induction l with
  | nil => simp [pure, Except.pure]
  | cons a l ih =>
    rw [List.mapM_cons]
    constructor
    · rintro ⟨ys, h⟩
      simp only [bind, Except.bind] at h
      cases ha : f a with
      | error e => simp [ha] at h
      | ok b =>
        cases hl : l.mapM f with
        | error e => simp [ha, hl] at h
        | ok bs =>
          intro x hx
          rcases List.mem_cons.mp hx with rfl | hx
          · exact ⟨b, ha⟩
          · exact ih.mp ⟨bs, hl⟩ x hx
    · intro h
      obtain ⟨b, hb⟩ := h a (by simp)
      obtain ⟨bs, hbs⟩ := ih.mpr (fun x hx => h x (by simp [hx]))
      exact ⟨b :: bs, by simp [bind, Except.bind, hb, hbs, pure, Except.pure]⟩

theorem mapM_error {α β : Type} (f : α → R β) (l : List α) (e : Err)
    (h : l.mapM f = .error e) : ∃ x ∈ l, f x = .error e := by
  induction l with
  | nil => simp [pure, Except.pure] at h
  | cons a l ih =>
    rw [List.mapM_cons] at h
    simp only [bind, Except.bind] at h
    cases ha : f a with
    | error e' => simp [ha] at h; exact ⟨a, by simp, by rw [ha, h]⟩
    | ok b =>
      cases hl : l.mapM f with
      | error e' =>
        simp [ha, hl] at h
        obtain ⟨x, hx, hfx⟩ := ih (by rw [hl, h])
        exact ⟨x, by simp [hx], hfx⟩
      | ok bs => simp [ha, hl, pure, Except.pure] at h

theorem getKey_ok_iff {α β : Type} [BEq α] (d : List (α × β)) (k : α) :
    (∃ v, getKey d k = .ok v) ↔ (d.lookup k).isSome = true := by
  unfold getKey
  cases d.lookup k <;> simp

theorem getKey_error {α β : Type} [BEq α] (d : List (α × β)) (k : α) (e : Err) (h : getKey d k = .error e) :
    e = .keyError := by
  unfold getKey at h
  cases hl : d.lookup k <;> simp [hl] at h
  exact h.symm

theorem fnVal_ok_iff (θ : List (Nat × ℚ)) (f : List (Key × ℚ)) :
    (∃ v, fnVal θ f = .ok v) ↔ valCovered θ (.fn f) = true := by
  induction f with
  | nil => simp [fnVal, valCovered]
  | cons hd tl ih =>
    obtain ⟨k, c⟩ := hd
    simp only [valCovered, List.all_cons, Bool.and_eq_true] at ih ⊢
    rw [← ih]
    simp only [fnVal, bind, Except.bind]
    cases k with
    | const =>
      simp only [keyVal]
      cases fnVal θ tl <;> simp [pure, Except.pure]
    | p i =>
      simp only [keyVal]
      have hk := getKey_ok_iff θ i
      cases hg : getKey θ i with
      | error e =>
        rw [hg] at hk
        have : (θ.lookup i).isSome = false := by
          cases h : (θ.lookup i).isSome
          · rfl
          · exact absurd (hk.mpr h) (by simp)
        simp [this]
      | ok x =>
        rw [hg] at hk
        have : (θ.lookup i).isSome = true := hk.mp ⟨x, rfl⟩
        cases fnVal θ tl <;> simp [this, pure, Except.pure]

theorem fnVal_error (θ : List (Nat × ℚ)) (f : List (Key × ℚ)) (e : Err) (h : fnVal θ f = .error e) :
    e = .keyError := by
  induction f with
  | nil => simp [fnVal] at h
  | cons hd tl ih =>
    obtain ⟨k, c⟩ := hd
    simp only [fnVal, bind, Except.bind] at h
    cases hk : keyVal θ k with
    | error e' =>
      simp [hk] at h
      cases k with
      | const => simp [keyVal] at hk
      | p i => subst h; exact getKey_error _ _ _ hk
    | ok x =>
      cases hr : fnVal θ tl with
      | error e' => simp [hk, hr] at h; subst h; exact ih hr
      | ok y => simp [hk, hr, pure, Except.pure] at h

theorem outVal_ok_iff (m : Mapping) (θ : List (Nat × ℚ)) (raw : Nat) :
    (∃ v, outVal m θ raw = .ok v) ↔ ∃ w, m.map.lookup raw = some w ∧ valCovered θ w = true := by
  simp only [outVal, bind, Except.bind, getKey]
  cases hl : m.map.lookup raw with
  | none => simp
  | some w =>
    simp only [Option.some.injEq, exists_eq_left']
    cases w with
    | param i =>
      simp only [mapValEval, valCovered]
      exact getKey_ok_iff θ i
    | fn f =>
      simp only [mapValEval]
      exact fnVal_ok_iff θ f

theorem outVal_error (m : Mapping) (θ : List (Nat × ℚ)) (raw : Nat) (e : Err) (h : outVal m θ raw = .error e) :
    e = .keyError := by
  simp only [outVal, bind, Except.bind] at h
  cases hk : getKey m.map raw with
  | error e' => simp [hk] at h; subst h; exact getKey_error _ _ _ hk
  | ok w =>
    simp only [hk] at h
    cases w with
    | param i => exact getKey_error _ _ _ h
    | fn f => exact fnVal_error _ _ _ h

theorem mapper_ok_iff' (m : Mapping) (vals : List ℚ) :
    (∃ ov, mapper m vals = .ok ov) ↔ Covered m vals := by
  unfold mapper Covered
  rw [mapM_ok_iff]
  constructor
  · intro h raw hr; exact (outVal_ok_iff m _ raw).mp (h raw hr)
  · intro h raw hr; exact (outVal_ok_iff m _ raw).mpr (h raw hr)

theorem mapper_error' (m : Mapping) (vals : List ℚ) (e : Err) (h : mapper m vals = .error e) :
    e = .keyError := by
  obtain ⟨x, _, hx⟩ := mapM_error _ _ _ h
  exact outVal_error m _ x e hx

/-- all shifted parameters are output parameters -/
def KeysIn (outs : List Nat) (s : Shifts) : Prop := ∀ e ∈ s, e.1 ∈ outs

theorem keysIn_bump (outs : List Nat) (s : Shifts) (raw : Nat) (σ : Int) (h : KeysIn outs s) (hr : raw ∈ outs) :
    KeysIn outs (bump s raw σ) := by
  unfold bump setShift
  have hf : KeysIn outs (s.filter fun e => e.1 != raw) := fun e he => h e (List.mem_filter.mp he).1
  by_cases hv : getShift s raw + σ = 0
  · simp only [hv, if_true]; exact hf
  · simp only [hv, if_false]
    intro e he
    rcases (mem_insertSorted _ _ _ e).mp he with rfl | he
    · exact hr
    · exact hf e he

theorem keysIn_addTerm (outs : List Nat) (acc : List Term) (key : Shifts) (v : ℚ)
    (h : ∀ t ∈ acc, KeysIn outs t.1) (hk : KeysIn outs key) : ∀ t ∈ addTerm acc key v, KeysIn outs t.1 := by
  induction acc with
  | nil => intro t ht; simp [addTerm] at ht; subst ht; exact hk
  | cons hd tl ih =>
    obtain ⟨k, w⟩ := hd
    unfold addTerm
    by_cases hkk : k = key
    · simp only [hkk, if_true]
      intro t ht
      rcases List.mem_cons.mp ht with rfl | ht
      · exact hk
      · exact h t (by simp [ht])
    · simp only [hkk, if_false]
      intro t ht
      rcases List.mem_cons.mp ht with rfl | ht
      · exact h (k, w) (by simp)
      · exact ih (fun t ht => h t (by simp [ht])) t ht

theorem keysIn_derivStep (dc : Nat → ℚ) (outs : List Nat) (t : Term) (ht : KeysIn outs t.1) :
    ∀ (sub : List Nat), (∀ r ∈ sub, r ∈ outs) → ∀ (acc : List Term), (∀ u ∈ acc, KeysIn outs u.1) →
      ∀ u ∈ sub.foldl (fun acc raw =>
          let c := dc raw
          if c = 0 then acc
          else addTerm (addTerm acc (bump t.1 raw 1) (t.2 * c * 1 / 2)) (bump t.1 raw (-1)) (t.2 * c * (-1) / 2)) acc,
        KeysIn outs u.1 := by
  intro sub
  induction sub with
  | nil => intro _ acc hacc u hu; exact hacc u hu
  | cons raw rest ih =>
    intro hsub acc hacc
    rw [List.foldl_cons]
    apply ih (fun r hr => hsub r (by simp [hr]))
    have hraw := hsub raw (by simp)
    by_cases hc : dc raw = 0
    · simp only [hc, if_true]; exact hacc
    · simp only [hc, if_false]
      exact keysIn_addTerm outs _ _ _
        (keysIn_addTerm outs _ _ _ hacc (keysIn_bump outs _ raw 1 ht hraw)) (keysIn_bump outs _ raw (-1) ht hraw)

theorem keysIn_getDerivative (dc : Nat → ℚ) (outs : List Nat) (swc : List Term)
    (h : ∀ t ∈ swc, KeysIn outs t.1) : ∀ u ∈ getDerivative dc outs swc, KeysIn outs u.1 := by
  unfold getDerivative
  have key : ∀ (swc acc : List Term), (∀ t ∈ swc, KeysIn outs t.1) → (∀ u ∈ acc, KeysIn outs u.1) →
      ∀ u ∈ swc.foldl (derivStep dc outs) acc, KeysIn outs u.1 := by
    intro swc
    induction swc with
    | nil => intro acc _ hacc u hu; exact hacc u hu
    | cons t rest ih =>
      intro acc hs hacc
      rw [List.foldl_cons]
      apply ih _ (fun t ht => hs t (by simp [ht]))
      exact keysIn_derivStep dc outs t (hs t (by simp)) outs (fun r hr => hr) acc hacc
  exact key swc [] h (by simp)

theorem keysIn_noShift (outs : List Nat) : ∀ t ∈ noShift, KeysIn outs t.1 := by
  intro t ht; simp [noShift] at ht; subst ht; intro e he; simp at he

theorem shiftedVec_ok (outs : List Nat) (ov : List ℚ) (sh : Shifts) (h : KeysIn outs sh) :
    ∃ v, shiftedVec outs ov sh = .ok v := by
  unfold shiftedVec
  have : (sh.all fun e => outs.contains e.1) = true := by
    rw [List.all_eq_true]; intro e he; simpa using h e he
  rw [if_pos this]
  exact ⟨_, rfl⟩

theorem shiftedParamsAndCoef_ok_iff (m : Mapping) (swc : List Term) (vals : List ℚ)
    (h : ∀ t ∈ swc, KeysIn m.outParams t.1) :
    (∃ ts, shiftedParamsAndCoef m swc vals = .ok ts) ↔ Covered m vals := by
  rw [← mapper_ok_iff']
  simp only [shiftedParamsAndCoef, bind, Except.bind]
  cases hm : mapper m vals with
  | error e => simp
  | ok ov =>
    simp only [exists_const_iff, true_and, Except.ok.injEq, exists_eq', iff_true]
    apply (mapM_ok_iff _ _).mpr
    intro t ht
    obtain ⟨v, hv⟩ := shiftedVec_ok m.outParams ov t.1 (h t ht)
    exact ⟨(v, t.2), by simp [hv, pure, Except.pure]⟩

/-- `parameter_shift_gradient_estimates` succeeds iff there is no input parameter (nothing is evaluated)
    or the mapper accepts the parameter values -/
theorem gradientTerms_ok_iff (m : Mapping) (vals : List ℚ) :
    (∃ ts, gradientTerms m vals = .ok ts) ↔ (m.inParams = [] ∨ Covered m vals) := by
  unfold gradientTerms
  rw [mapM_ok_iff, spDerivatives_eq]
  constructor
  · intro h
    cases hi : m.inParams with
    | nil => exact Or.inl rfl
    | cons p rest =>
      right
      have := h (getDerivative (derivCoef m p) m.outParams noShift) (by simp [hi])
      exact (shiftedParamsAndCoef_ok_iff m _ vals
        (keysIn_getDerivative _ _ _ (keysIn_noShift _))).mp this
  · rintro (h | h)
    · simp [h]
    · intro d hd
      obtain ⟨p, _, rfl⟩ := List.mem_map.mp hd
      exact (shiftedParamsAndCoef_ok_iff m _ vals
        (keysIn_getDerivative _ _ _ (keysIn_noShift _))).mpr h

theorem hessianTerms_ok_iff (m : Mapping) (vals : List ℚ) :
    (∃ ts, hessianTerms m vals = .ok ts) ↔ (m.inParams = [] ∨ Covered m vals) := by
  unfold hessianTerms
  rw [mapM_ok_iff, spDerivatives_eq]
  constructor
  · intro h
    cases hi : m.inParams with
    | nil => exact Or.inl rfl
    | cons p rest =>
      right
      have h1 := h (getDerivative (derivCoef m p) m.outParams noShift) (by simp [hi])
      rw [mapM_ok_iff, spDerivatives_eq] at h1
      have h2 := h1 (getDerivative (derivCoef m p) m.outParams (getDerivative (derivCoef m p) m.outParams noShift))
        (by simp [hi])
      exact (shiftedParamsAndCoef_ok_iff m _ vals
        (keysIn_getDerivative _ _ _ (keysIn_getDerivative _ _ _ (keysIn_noShift _)))).mp h2
  · rintro (h | h)
    · simp [h]
    · intro d hd
      obtain ⟨p, _, rfl⟩ := List.mem_map.mp hd
      rw [mapM_ok_iff, spDerivatives_eq]
      intro d' hd'
      obtain ⟨p', _, rfl⟩ := List.mem_map.mp hd'
      exact (shiftedParamsAndCoef_ok_iff m _ vals
        (keysIn_getDerivative _ _ _ (keysIn_getDerivative _ _ _ (keysIn_noShift _)))).mpr h

end Rejects

end QV.C09
