import QuriVerif.Model.C20
/-
  C20 — helper lemmas for the refinement proof (Props/C20.lean).
  Core Lean only.
-/
namespace QV.C20

/-! ### function update, classes -/

@[simp] theorem upd_same {α} (f : Nat → α) (a : Nat) (x : α) : upd f a x a = x := by simp [upd]
theorem upd_ne {α} (f : Nat → α) {a b : Nat} (x : α) (h : b ≠ a) : upd f a x b = f b := by simp [upd, h]

@[simp] theorem Cls.frozen_mu (c : Cls) : c.frozen.mu = false := by cases c <;> rfl
@[simp] theorem Cls.thawed_mu (c : Cls) : c.thawed.mu = true := by cases c <;> rfl
theorem Cls.frozen_of_not_mu {c : Cls} (h : c.mu = false) : c.frozen = c := by cases c <;> simp_all [Cls.mu, Cls.frozen]
@[simp] theorem Cls.frozen_par (c : Cls) : c.frozen.par = c.par := by cases c <;> rfl
@[simp] theorem Cls.thawed_par (c : Cls) : c.thawed.par = c.par := by cases c <;> rfl
theorem RVal.frozen_of_not_mu {v : RVal} (h : v.cls.mu = false) : v.frozen = v := by
  cases v; simp_all [RVal.frozen, Cls.frozen_of_not_mu]

/-! ### invariant -/

def RefOK (s : St) : Ref → Prop
  | .r a => a < s.nR
  | .l l => l < s.nL

/-- ownership discipline of the heap: an object that can still be mutated has at most one referrer
    (a handle or a linear-mapped wrapper); depth caches are consistent -/
structure Inv (s : St) : Prop where
  b1 : ∀ i, i < s.nH → RefOK s (s.hs i).ref
  b2 : ∀ l, l < s.nL → (s.ls l).circ < s.nR
  o1 : ∀ i j a, i < s.nH → j < s.nH → i ≠ j → (s.hs i).ref = .r a → (s.hs j).ref = .r a → s.rMut a = false
  o2 : ∀ i l a, i < s.nH → l < s.nL → (s.hs i).ref = .r a → (s.ls l).circ = a → s.rMut a = false
  o3 : ∀ l l', l < s.nL → l' < s.nL → l ≠ l' → (s.ls l).circ = (s.ls l').circ → s.rMut (s.ls l).circ = false
  o4 : ∀ i j l, i < s.nH → j < s.nH → i ≠ j → (s.hs i).ref = .l l → (s.hs j).ref = .l l → (s.ls l).mu = false
  t : ∀ l, l < s.nL → (s.ls l).mu = true → s.rMut (s.ls l).circ = true
  d : ∀ a n, a < s.nR → (s.rs a).dc = some n → n = depth (s.rs a).v.gs

def Unref (s : St) (a : Nat) : Prop :=
  (∀ i, i < s.nH → (s.hs i).ref ≠ .r a) ∧ (∀ l, l < s.nL → (s.ls l).circ ≠ a)
def UnrefL (s : St) (l : Nat) : Prop := ∀ i, i < s.nH → (s.hs i).ref ≠ .l l

/-- a reference that may be given to a new handle -/
def Handout (s : St) : Ref → Prop
  | .r a => a < s.nR ∧ (s.rMut a = true → Unref s a)
  | .l l => l < s.nL ∧ ((s.ls l).mu = true → UnrefL s l)

theorem Inv.init : Inv St.init := by
  constructor <;> simp [St.init]

/-- `s'` arises from `s` by allocations and by changes no handle can observe -/
structure Frame (s s' : St) : Prop where
  hs : s'.hs = s.hs
  nH : s'.nH = s.nH
  np : s'.np = s.np
  nR : s.nR ≤ s'.nR
  nL : s.nL ≤ s'.nL
  rv : ∀ a, a < s.nR → (s'.rs a).v = (s.rs a).v
  ls : ∀ l, l < s.nL → s'.ls l = s.ls l

theorem Frame.refl (s : St) : Frame s s := by constructor <;> simp
theorem Frame.trans {s s' s'' : St} (f : Frame s s') (g : Frame s' s'') : Frame s s'' := by
  obtain ⟨a1, a2, a3, a4, a5, a6, a7⟩ := f
  obtain ⟨b1, b2, b3, b4, b5, b6, b7⟩ := g
  constructor
  · rw [b1, a1]
  · omega
  · omega
  · omega
  · omega
  · intro a ha; rw [b6 a (by omega), a6 a ha]
  · intro l hl; rw [b7 l (by omega), a7 l hl]

theorem Frame.rMut {s s' : St} (f : Frame s s') {a : Nat} (ha : a < s.nR) : s'.rMut a = s.rMut a := by
  simp [St.rMut, f.rv a ha]

theorem Frame.readRef {s s' : St} (hI : Inv s) (f : Frame s s') {r : Ref} (h : RefOK s r) :
    s'.readRef r = s.readRef r := by
  cases r with
  | r a => simp [St.readRef, f.rv a h]
  | l l =>
    have hc := hI.b2 l h
    simp [St.readRef, f.ls l h, f.rv _ hc]

theorem Frame.absH {s s' : St} (hI : Inv s) (f : Frame s s') {i : Nat} (hi : i < s.nH) :
    s'.absH i = s.absH i := by
  have h := hI.b1 i hi
  unfold St.absH
  rw [f.hs]
  cases hh : s.hs i with
  | c r => simp [Hd.ref, hh] at h; simp [St.readH, f.readRef hI h]
  | s r => simp [Hd.ref, hh] at h; simp [St.readH, f.readRef hI h]

theorem Frame.look {s s' : St} (hI : Inv s) (f : Frame s s') : s'.look = s.look := by
  funext i
  unfold St.look
  rw [f.nH]
  split
  · rename_i h; rw [f.absH hI h]
  · rfl

/-! ### primitive heap actions -/

theorem allocR_inv {s : St} (c : RCell) (hI : Inv s) (hd : ∀ n, c.dc = some n → n = depth c.v.gs) :
    Inv (s.allocR c).1 := by
  obtain ⟨b1, b2, o1, o2, o3, o4, t, d⟩ := hI
  constructor <;> simp only [St.allocR, St.rMut] at *
  · intro i hi; have := b1 i hi
    cases h : (s.hs i).ref <;> simp [RefOK, h] at * <;> omega
  · grind
  · intro i j a hi hj hij h1 h2
    have := b1 i hi
    grind [upd, RefOK]
  · intro i l a hi hl h1 h2
    have := b1 i hi
    grind [upd, RefOK]
  · intro l l' hl hl' hne h
    have := b2 l hl
    grind [upd, RefOK]
  · grind [upd, RefOK]
  · intro l hl hm
    have := b2 l hl
    grind [upd, RefOK]
  · intro a n ha h
    grind [upd, RefOK]

theorem allocR_frame (s : St) (c : RCell) : Frame s (s.allocR c).1 := by
  constructor <;> simp [St.allocR]
  intro a ha; simp [upd, Nat.ne_of_lt ha]

theorem allocR_unref {s : St} (c : RCell) (hI : Inv s) : Unref (s.allocR c).1 s.nR := by
  constructor
  · intro i hi h
    have := hI.b1 i hi
    simp only [St.allocR] at h
    simp [h, RefOK] at this
  · intro l hl h
    have := hI.b2 l hl
    simp only [St.allocR] at h
    omega

theorem allocL_inv {s : St} (c : LCell) (hI : Inv s) (hc : c.circ < s.nR)
    (hu : s.rMut c.circ = true → Unref s c.circ) (ht : c.mu = true → s.rMut c.circ = true) :
    Inv (s.allocL c).1 := by
  obtain ⟨b1, b2, o1, o2, o3, o4, t, d⟩ := hI
  unfold Unref at hu
  constructor <;> simp only [St.allocL, St.rMut] at *
  · intro i hi; have := b1 i hi
    cases h : (s.hs i).ref <;> simp [RefOK, h] at * <;> omega
  · grind [upd]
  · grind [upd, RefOK]
  · intro i l a hi hl h1 h2
    grind [upd, RefOK]
  · intro l l' hl hl' hne h
    grind [upd, RefOK]
  · intro i j l hi hj hij h1 h2
    have := b1 i hi
    grind [upd, RefOK]
  · intro l hl hm
    grind [upd, RefOK]
  · grind [upd, RefOK]

theorem allocL_frame (s : St) (c : LCell) : Frame s (s.allocL c).1 := by
  constructor <;> simp [St.allocL]
  intro a ha; simp [upd, Nat.ne_of_lt ha]

theorem allocL_unrefL {s : St} (c : LCell) (hI : Inv s) : UnrefL (s.allocL c).1 s.nL := by
  intro i hi h
  have := hI.b1 i hi
  simp only [St.allocL] at h
  simp [h, RefOK] at this

theorem push_inv {s : St} (hd : Hd) (hI : Inv s) (h : Handout s hd.ref) : Inv (s.push hd) := by
  obtain ⟨b1, b2, o1, o2, o3, o4, t, d⟩ := hI
  cases hr : hd.ref with
  | r a =>
    rw [hr] at h
    obtain ⟨h1, h2⟩ := h
    unfold Unref at h2
    constructor <;> simp only [St.push, St.rMut] at *
    · intro i hi
      by_cases hi' : i = s.nH
      · subst hi'; simp [hr, RefOK, h1]
      · have := b1 i (by omega)
        simp only [upd, hi', if_false]
        cases hh : (s.hs i).ref <;> simp_all [RefOK]
    · exact b2
    · intro i j a' hi hj hij e1 e2
      grind [upd]
    · intro i l a' hi hl e1 e2
      grind [upd]
    · exact o3
    · intro i j l hi hj hij e1 e2
      grind [upd]
    · exact t
    · exact d
  | l l =>
    rw [hr] at h
    obtain ⟨h1, h2⟩ := h
    unfold UnrefL at h2
    constructor <;> simp only [St.push, St.rMut] at *
    · intro i hi
      by_cases hi' : i = s.nH
      · subst hi'; simp [hr, RefOK, h1]
      · have := b1 i (by omega)
        simp only [upd, hi', if_false]
        cases hh : (s.hs i).ref <;> simp_all [RefOK]
    · exact b2
    · intro i j a' hi hj hij e1 e2
      grind [upd]
    · intro i l a' hi hl e1 e2
      grind [upd]
    · exact o3
    · intro i j l hi hj hij e1 e2
      grind [upd]
    · exact t
    · exact d

theorem push_absH_old (s : St) (hd : Hd) {i : Nat} (hi : i < s.nH) : (s.push hd).absH i = s.absH i := by
  simp [St.absH, St.push, upd, Nat.ne_of_lt hi, St.readH, St.readRef]

theorem push_absH_new (s : St) (hd : Hd) : (s.push hd).absH s.nH = s.readH hd := by
  simp [St.absH, St.push, St.readH, St.readRef]

end QV.C20
