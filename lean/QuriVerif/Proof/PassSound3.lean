import QuriVerif.Proof.PassSound2
/-
  Soundness of the window-fusing and table-driven passes of `Model/C01.lean` (generic field part),
  continuing `Proof/PassSound2`:

    * §6  contexts for `OpEqv`, and the generic fuser loop `fuserLoop`;
    * §7  `fuseRotPass` (adjacent same-axis rotations on the same qubit);
    * §8  `template_rewrite_ok` (one gate rewritten by a template sound at the gate's arguments);
    * §9  `clifConvPass`;
    * §10 `ladderPass` (rows with angle conditions: `Template.specialize`, certificates `ladderOK`);
    * §11 pipelines again: `prim_ok3`, `runSeq_sound_partial3`, `runSeq_sound_proved3`.
-/
namespace QV.MatSound
open QV QV.Poly QV.C01

variable {K : Type} [Field K] {ζ : K} {ρ : ℕ → K}

/-! ## 6. contexts and the fuser loop -/

/-- `OpEqv` is a congruence for contexts `pre ++ _ ++ post` -/
theorem OpEqv.context {n : ℕ} (pre post : List NGate) {a b : List NGate} (ha : CInv n a)
    (hb : CInv n b) (hpost : CInv n post) (h : OpEqv ζ ρ n a b) :
    OpEqv ζ ρ n (pre ++ a ++ post) (pre ++ b ++ post) := by
  obtain ⟨z, hz, hab⟩ := h
  refine ⟨z, hz, fun r hr j _ => ?_⟩
  simp only [List.map_append]
  exact replace_sound n _ _ _ _ (CInv_wf hb) (CInv_wf ha) (CInv_wf hpost) z hab r hr j

/-- **`AdjacentGateFuser.__call__`**: if `fuse` is sound on every window accepted by `isT`, every
    result of the loop is sound -/
theorem fuserLoop_ok (n k : ℕ) (isT : List NGate → Bool) (fuse : List NGate → List NGate)
    (hw : ∀ w, isT w = true → CInv n w → CInv n (fuse w) ∧ OpEqv ζ ρ n w (fuse w)) :
    ∀ (fuel : ℕ) (xs ys out : List NGate), CInv n (ys ++ xs) →
      fuserLoop k isT fuse fuel xs ys = some out → CInv n out ∧ OpEqv ζ ρ n (ys ++ xs) out := by
  intro fuel
  induction fuel with
  | zero => intro xs ys out _ h; simp [fuserLoop] at h
  | succ fuel ih =>
    intro xs ys out hc h
    simp only [fuserLoop] at h
    obtain ⟨hys, hxs⟩ := CInv_append.mp hc
    by_cases hk : k ≤ xs.length
    · rw [if_pos hk] at h
      by_cases ht : isT (xs.take k) = true
      · rw [if_pos ht] at h
        have hsplit : xs = xs.take k ++ xs.drop k := (List.take_append_drop k xs).symm
        have hx2 : CInv n (xs.take k) ∧ CInv n (xs.drop k) := by
          rw [hsplit] at hxs; exact CInv_append.mp hxs
        obtain ⟨hf1, hf2⟩ := hw _ ht hx2.1
        have hc' : CInv n (ys ++ (fuse (xs.take k) ++ xs.drop k)) :=
          CInv_append.mpr ⟨hys, CInv_append.mpr ⟨hf1, hx2.2⟩⟩
        obtain ⟨h1, h2⟩ := ih _ ys out hc' h
        refine ⟨h1, OpEqv.trans ?_ h2⟩
        have := OpEqv.context (ζ := ζ) (ρ := ρ) ys (xs.drop k) hx2.1 hf1 hx2.2 hf2
        rw [List.append_assoc, List.append_assoc, List.take_append_drop] at this
        exact this
      · rw [if_neg ht] at h
        cases xs with
        | nil =>
          have : ys = out := by simpa using h
          subst this
          exact ⟨hys, by rw [List.append_nil]; exact OpEqv.refl n ys⟩
        | cons x rest =>
          simp only [] at h
          have e : ys ++ x :: rest = (ys ++ [x]) ++ rest := by simp
          rw [e] at hc ⊢
          exact ih rest (ys ++ [x]) out hc h
    · rw [if_neg hk] at h
      have : ys ++ xs = out := by simpa using h
      subst this
      exact ⟨hc, OpEqv.refl n _⟩

/-! ## 7. `fuseRotPass` -/

theorem locIdx_restore (n : ℕ) (ws : List ℕ) (r l : ℕ) (hnd : ws.Nodup) (hw : ∀ w ∈ ws, w < n)
    (hr : r < 2 ^ n) (hl : l < 2 ^ ws.length) :
    Gate.locIdx ws (Gate.clearBits ws r + Gate.spread ws l) = l := by
  obtain ⟨_, h2, _⟩ := place_spec n ws r l hnd hw hr
  apply bitAt_ext ws.length _ _ (locIdx_lt _ _) hl
  intro i hi
  rw [bitAt_locIdx, if_pos hi, h2 i hi]

theorem clearBits_restore (n : ℕ) (ws : List ℕ) (r l : ℕ) (hnd : ws.Nodup) (hw : ∀ w ∈ ws, w < n)
    (hr : r < 2 ^ n) :
    Gate.clearBits ws (Gate.clearBits ws r + Gate.spread ws l) = Gate.clearBits ws r := by
  obtain ⟨h1, _, h3⟩ := place_spec n ws r l hnd hw hr
  apply bitAt_ext n _ _ (clearBits_lt n ws _ hnd hw h1) (clearBits_lt n ws _ hnd hw hr)
  intro v _
  rw [bitAt_clearBits n ws _ hnd hw h1, bitAt_clearBits n ws _ hnd hw hr]
  by_cases hv : v ∈ ws
  · rw [if_pos hv, if_pos hv]
  · rw [if_neg hv, if_neg hv, h3 v hv]

/-- `embedAct` reads the local matrix only on its `2^|ws|` block -/
theorem embedAct_congr_L (L L' : ℕ → ℕ → K) (ws : List ℕ) (A : ℕ → ℕ → K) (r j : ℕ)
    (h : ∀ l, l < 2 ^ ws.length → L (Gate.locIdx ws r) l = L' (Gate.locIdx ws r) l) :
    embedAct L ws A r j = embedAct L' ws A r j := by
  unfold embedAct
  congr 1
  apply List.map_congr_left
  intro l hl
  rw [h l (List.mem_range.mp hl)]

/-- two gates on the same wires compose by multiplying their local matrices -/
theorem embedAct_comp (n : ℕ) (L1 L2 : ℕ → ℕ → K) (ws : List ℕ) (A : ℕ → ℕ → K) (r j : ℕ)
    (hnd : ws.Nodup) (hw : ∀ w ∈ ws, w < n) (hr : r < 2 ^ n) :
    embedAct L2 ws (embedAct L1 ws A) r j
      = embedAct (fun a b => ((List.range (2 ^ ws.length)).map fun l => L2 a l * L1 l b).sum)
          ws A r j := by
  unfold embedAct
  have e1 : ∀ l ∈ List.range (2 ^ ws.length),
      L2 (Gate.locIdx ws r) l * ((List.range (2 ^ ws.length)).map fun m =>
        L1 (Gate.locIdx ws (Gate.clearBits ws r + Gate.spread ws l)) m *
          A (Gate.clearBits ws (Gate.clearBits ws r + Gate.spread ws l) + Gate.spread ws m) j).sum
      = ((List.range (2 ^ ws.length)).map fun m => L2 (Gate.locIdx ws r) l * L1 l m
          * A (Gate.clearBits ws r + Gate.spread ws m) j).sum := by
    intro l hl
    rw [locIdx_restore n ws r l hnd hw hr (List.mem_range.mp hl),
      clearBits_restore n ws r l hnd hw hr, ← sum_map_mul_left]
    congr 1
    apply List.map_congr_left
    intro m _
    ring
  rw [List.map_congr_left e1, sum_map_comm]
  congr 1
  apply List.map_congr_left
  intro m _
  rw [← sum_map_mul_right]

/-- scale factor of the product of two rotation matrices in the integer-scaled representation -/
def rotScale (k : Kind) : K := if k = .RZ then 1 else 2

/-- `R(b)·R(a) = R(a+b)` on local matrices (up to the scale bookkeeping `rotScale`) -/
theorem rot_localMat_mul (hζ : ζ ^ 8 = -1) (hρ : ∀ j, ρ j ≠ 0) (g1 g2 g3 : Gate)
    (hk2 : g2.kind = g1.kind) (hk3 : g3.kind = g1.kind) (hr : isRot g1.kind = true)
    (ht : theta ζ ρ (g3.p 0) = theta ζ ρ (g1.p 0) * theta ζ ρ (g2.p 0)) (a b : ℕ) (ha : a < 2)
    (hb : b < 2) :
    ((List.range 2).map fun l => evalMat ζ ρ g2.localMat.m a l * evalMat ζ ρ g1.localMat.m l b).sum
      = rotScale g1.kind * evalMat ζ ρ g3.localMat.m a b := by
  have hv : eval ζ ρ ((g3.p 0).ph 1) = eval ζ ρ ((g1.p 0).ph 1) * eval ζ ρ ((g2.p 0).ph 1) := by
    simp only [eval_ph hζ, zpow_one, ht]
  have hw : eval ζ ρ ((g3.p 0).ph (-1))
      = eval ζ ρ ((g1.p 0).ph (-1)) * eval ζ ρ ((g2.p 0).ph (-1)) := by
    simp only [eval_ph hζ, zpow_neg_one, ht, mul_inv]
  have hI : eval ζ ρ Poly.I ^ 2 = -1 := by
    have e : eval ζ ρ Poly.I = ζ ^ 4 := by
      have : Poly.I = [(⟨4, []⟩, 1)] := by decide
      rw [this]; simp [eval, evalTerm, evalMono, evalExps]
    rw [e, ← hζ]; ring
  have ha' : a = 0 ∨ a = 1 := by omega
  have hb' : b = 0 ∨ b = 1 := by omega
  simp only [isRot, Bool.or_eq_true, beq_iff_eq] at hr
  rcases hr with (hr | hr) | hr <;> rw [hr] at hk2 hk3 <;> unfold Gate.localMat rotScale <;>
    simp only [hr, hk2, hk3] <;>
    rcases ha' with rfl | rfl <;> rcases hb' with rfl | rfl <;>
    simp [evalMat, evalRow, List.range_succ, eval_add, eval_sub, eval_neg, eval_mul hζ hρ, eval_nil,
      hv, hw] <;> first | ring1 | (ring_nf; simp only [hI]; ring1)

theorem rotScale_ne_zero (h2 : (2 : K) ≠ 0) (k : Kind) : (rotScale k : K) ≠ 0 := by
  unfold rotScale; split_ifs <;> simp [h2]

theorem emod_eq (x : ℤ) : emod x twoPi = x + 128 * (-(x / 128)) := by
  unfold emod twoPi
  rw [Int.emod_def]
  ring

theorem rot_arity {n : ℕ} {g : NGate} (hg : gInv n g = true) (hr : isRot g.kind = true) :
    g.controls = [] ∧ g.targets.length = 1 ∧ g.params.length = 1 ∧ g.paulis = [] := by
  have h3 := (gInv_iff.mp hg).2.2
  simp only [isRot, Bool.or_eq_true, beq_iff_eq] at hr
  rcases hr with (hr | hr) | hr <;> rw [hr] at h3 <;>
    simp only [arityOK, kindArity, Bool.and_eq_true, beq_iff_eq, Prod.mk.injEq,
      List.isEmpty_iff] at h3 <;>
    exact ⟨List.eq_nil_of_length_eq_zero h3.1.1.symm, h3.1.2.1.symm, h3.1.2.2.symm, h3.2⟩

/-- the fused rotation before reduction mod 2π -/
def rotRaw (l r : NGate) : NGate :=
  { kind := l.kind, targets := l.targets, params := [l.params.getD 0 0 + r.params.getD 0 0] }

/-- two adjacent rotations about the same axis on the same qubit, fused without reduction mod 2π -/
theorem rot_pair_ok (hζ : ζ ^ 8 = -1) (hρ : ∀ j, ρ j ≠ 0) (h2 : (2 : K) ≠ 0) (n : ℕ)
    (l r : NGate) (hl : gInv n l = true) (hr : gInv n r = true) (hrot : isRot l.kind = true)
    (hk : l.kind = r.kind) (ht : l.targets = r.targets) :
    gInv n (rotRaw l r) = true ∧ OpEqv ζ ρ n [l, r] [rotRaw l r] := by
  obtain ⟨lc, lt, _, _⟩ := rot_arity hl hrot
  obtain ⟨rc, _, _, _⟩ := rot_arity hr (hk ▸ hrot)
  obtain ⟨hnd, hlt, har⟩ := gInv_iff.mp hl
  rw [lc, List.nil_append] at hnd hlt
  have hraw : gInv n (rotRaw l r) = true := by
    rw [gInv_iff]
    refine ⟨by simpa [rotRaw] using hnd, by simpa [rotRaw] using hlt, ?_⟩
    simp only [isRot, Bool.or_eq_true, beq_iff_eq] at hrot
    rcases hrot with (h | h) | h <;> simp [rotRaw, h, arityOK, kindArity, lt]
  refine ⟨hraw, (rotScale l.kind : K)⁻¹, inv_ne_zero (rotScale_ne_zero h2 _), fun x hx k _ => ?_⟩
  have hmul := rot_localMat_mul hζ hρ (NGate.toGate l) (NGate.toGate r)
    (NGate.toGate (rotRaw l r)) hk.symm rfl hrot (by
        rw [toGate_p0, toGate_p0, toGate_p0]
        show ρ 0 ^ (l.params.getD 0 0 + r.params.getD 0 0) = _
        exact zpow_add₀ (hρ 0) _ _)
  have hw1 : (NGate.toGate l).wires = l.targets := by
    show l.controls ++ l.targets = _; rw [lc]; rfl
  have hw2 : (NGate.toGate r).wires = l.targets := by
    show r.controls ++ r.targets = _; rw [rc, ht]; rfl
  have hlen : l.targets.length = 1 := lt
  have key : semCirc ζ ρ [NGate.toGate l, NGate.toGate r] x k
      = rotScale l.kind * semCirc ζ ρ [NGate.toGate (rotRaw l r)] x k := by
    show embedAct _ (NGate.toGate r).wires (embedAct _ (NGate.toGate l).wires idMat) x k
      = _ * embedAct _ l.targets idMat x k
    rw [hw1, hw2, embedAct_comp n _ _ _ _ x k hnd hlt hx, ← embedAct_smul_left]
    apply embedAct_congr_L
    intro m hm
    rw [hlen] at hm ⊢
    have hli : Gate.locIdx l.targets x < 2 := by
      have := locIdx_lt l.targets x; rwa [hlen] at this
    exact hmul _ m hli hm
  show semCirc ζ ρ [NGate.toGate (rotRaw l r)] x k
    = _ * semCirc ζ ρ [NGate.toGate l, NGate.toGate r] x k
  rw [key, ← mul_assoc, inv_mul_cancel₀ (rotScale_ne_zero h2 _), one_mul]

/-- the window function of `FuseRotationTranspiler` is sound -/
theorem rotFuse_ok (hζ : ζ ^ 8 = -1) (hρ : ∀ j, ρ j ≠ 0) (h16 : ρ 0 ^ 16 = ζ) (h2 : (2 : K) ≠ 0)
    (n : ℕ) (w : List NGate) (ht : rotIsTarget w = true) (hc : CInv n w) :
    CInv n (rotFuse w) ∧ OpEqv ζ ρ n w (rotFuse w) := by
  match w, ht, hc with
  | [l, r], ht, hc =>
    simp only [rotIsTarget, Bool.and_eq_true, beq_iff_eq] at ht
    obtain ⟨⟨hrot, hk⟩, htg⟩ := ht
    have hl : gInv n l = true := CInv_iff.mp hc l (by simp)
    have hr : gInv n r = true := CInv_iff.mp hc r (by simp)
    obtain ⟨h1, h2'⟩ := rot_pair_ok hζ hρ h2 n l r hl hr hrot hk htg
    obtain ⟨h3, h4⟩ := rot_shift_ok hζ hρ h16 n (rotRaw l r) h1 hrot
      (-((l.params.getD 0 0 + r.params.getD 0 0) / 128))
    have e : rotFuse [l, r] = [{ rotRaw l r with
        params := [(rotRaw l r).params.getD 0 0
          + 128 * (-((l.params.getD 0 0 + r.params.getD 0 0) / 128))] }] := by
      simp [rotFuse, emod_eq, rotRaw]
    rw [e]
    exact ⟨CInv_singleton.mpr h3, h2'.trans h4⟩

/-- **`FuseRotationTranspiler`** (whenever the loop returns, which it always does:
    `Props/C01.fuseRot_terminates`) -/
theorem fuseRotPass_ok (hζ : ζ ^ 8 = -1) (hρ : ∀ j, ρ j ≠ 0) (h16 : ρ 0 ^ 16 = ζ) (h2 : (2 : K) ≠ 0)
    (n : ℕ) (c out : List NGate) (hc : CInv n c) (h : fuseRotPass c = some out) :
    CInv n out ∧ OpEqv ζ ρ n c out := by
  have := fuserLoop_ok (ζ := ζ) (ρ := ρ) n 2 rotIsTarget rotFuse
    (fun w ht hw => rotFuse_ok hζ hρ h16 h2 n w ht hw) (c.length + 1) c [] out
    (by simpa using hc) h
  simpa using this

/-! ## 8. rewriting one gate by a template that is sound at the gate's arguments -/

variable (ζ ρ) in
/-- the template is sound for the angle arguments `as` (at every placement) -/
def SoundAt (t : Template) (as : List Angle) : Prop :=
  ∀ (σ : ℕ → ℕ) (n : ℕ), Placement σ t.nq n →
    ∃ c : K, c ≠ 0 ∧ ∀ r, r < 2 ^ n → ∀ j, j < 2 ^ n →
      semCirc ζ ρ ((t.body.map (Gate.subst as)).map (Gate.relabel σ)) r j
        = c * semCirc ζ ρ [(t.target.subst as).relabel σ] r j

theorem EntrySound.soundAt {e : String × Kind × Template} (E : EntrySound ζ ρ e) (as : List Angle) :
    SoundAt ζ ρ e.2.2 as := fun σ n P => E.sound σ n P as

/-- **one gate, one template** (shape facts + soundness at the gate's own arguments):
    `instantiate` yields a circuit satisfying the invariant with the gate's operator up to a scalar -/
theorem template_rewrite_ok (hζ : ζ ^ 8 = -1) (hρ : ∀ j, ρ j ≠ 0) (h16 : ρ 0 ^ 16 = ζ)
    (e : String × Kind × Template) (hshape : tableEntryOK e = true) (har : tableArityOK e = true)
    (hnotU : ∀ b ∈ e.2.2.body, b.kind ≠ .UnitaryMatrix) (wfb : WellFormed e.2.2.nq e.2.2.body)
    (n : ℕ) (g : NGate) (hg : gInv n g = true) (hk : e.2.1 = g.kind)
    (hs : SoundAt ζ ρ e.2.2 g.args) :
    CInv n (instantiate e.2.2 g) ∧ OpEqv ζ ρ n [g] (instantiate e.2.2 g) := by
  obtain ⟨hnd, hlt, harg⟩ := gInv_iff.mp hg
  have hU := arityOK_notU harg
  have hsh := hshape
  simp only [tableEntryOK, Bool.and_eq_true, decide_eq_true_eq] at hsh
  obtain ⟨⟨⟨⟨h1, h2⟩, h3⟩, h4⟩, h5⟩ := hsh
  have hso := shapeOK_of_inv e har g hg hk
  simp only [shapeOK, Bool.and_eq_true, beq_iff_eq] at hso
  obtain ⟨⟨⟨s1, s2⟩, s3⟩, s4⟩ := hso
  have hnq : e.2.2.nq = (g.controls ++ g.targets).length := by
    rw [h4, List.length_append, s1, s2]
  have P : Placement g.sigma e.2.2.nq n := by
    rw [hnq]; exact placement_of_nodup _ n hnd hlt
  have hev := instantiate_eqv hζ hρ h16 e.2.2 g hnotU
  have htv : List.Forall₂ (GateEqv ζ ρ) [NGate.toGate g]
      [(e.2.2.target.subst g.args).relabel g.sigma] :=
    List.Forall₂.cons (target_eqv hζ hρ e.2.2 g (h1.symm.trans hk) hU (by rw [h2, s1])
      (by rw [h3, s1, s2]) s4.symm (by rw [h5, s3])) List.Forall₂.nil
  have wfs : WellFormed e.2.2.nq (e.2.2.body.map (Gate.subst g.args)) := by
    intro g' hg'
    obtain ⟨b, hb, rfl⟩ := List.mem_map.mp hg'
    exact wfb b hb
  have wf := wellFormed_of_eqv hev (wellFormed_relabel P _ wfs)
  obtain ⟨c, hc, hsnd⟩ := hs g.sigma n P
  refine ⟨instantiate_inv e har g wf, OpEqv.of_singleton c hc (fun r hr k hk' => ?_)⟩
  rw [semCirc_congr_eqv hζ hρ hev, hsnd r hr k hk', semCirc_congr_eqv hζ hρ htv]

/-! ## 9. `clifConvPass` -/

end QV.MatSound

namespace QV.C01
/-- the template read off one candidate of the Clifford equivalence table -/
def clifTpl (k : Kind) (cand : List Kind) : Template :=
  ⟨1, G k [] [0] [], cand.map fun k' => G k' [] [0] []⟩
end QV.C01

namespace QV.MatSound
open QV QV.Poly QV.C01

variable {K : Type} [Field K] {ζ : K} {ρ : ℕ → K}

variable (ζ ρ) in
/-- what is needed from the Clifford equivalence table: every (key, candidate) pair is a sound
    template of the right shape -/
def ClifTableOK (table : List (Kind × List (List Kind))) : Prop :=
  ∀ kc ∈ table, ∀ cand ∈ kc.2,
    EntrySound ζ ρ ("", kc.1, clifTpl kc.1 cand) ∧ tableArityOK ("", kc.1, clifTpl kc.1 cand) = true

theorem clif_instantiate (g : NGate) (cand : List Kind) (hc : g.controls = [])
    (ht : g.targets.length = 1) :
    (cand.map fun k => ({ kind := k, targets := g.targets } : NGate))
      = instantiate (clifTpl g.kind cand) g := by
  obtain ⟨q, hq⟩ := List.length_eq_one_iff.mp ht
  simp [instantiate, clifTpl, G, hc, hq]

/-- `CliffordConversionTranspiler` -/
theorem clifConvPass_ok (hζ : ζ ^ 8 = -1) (hρ : ∀ j, ρ j ≠ 0) (h16 : ρ 0 ^ 16 = ζ)
    (table : List (Kind × List (List Kind))) (T : ClifTableOK ζ ρ table) (cliff1q tset : List Kind)
    (n : ℕ) (c : List NGate) (hc : CInv n c) :
    CInv n (clifConvPass table cliff1q tset c) ∧ OpEqv ζ ρ n c (clifConvPass table cliff1q tset c) := by
  unfold clifConvPass
  refine ⟨CInv_flatMap _ (fun g hg => ?_), OpEqv.flatMap n c _ hc (fun g hg => ?_)⟩
  all_goals
    have hgi := CInv_iff.mp hc g hg
    have triv : CInv n [g] ∧ OpEqv ζ ρ n [g] [g] := ⟨CInv_singleton.mpr hgi, OpEqv.refl n [g]⟩
  · show CInv n _
    split_ifs
    · exact triv.1
    · exact triv.1
    · split
      · exact triv.1
      · rename_i k cands hf
        split
        · rename_i cand hcand
          have hm := List.mem_of_find?_eq_some hf
          have hk : k = g.kind := by simpa using List.find?_some hf
          subst hk
          obtain ⟨E, har⟩ := T _ hm cand (List.mem_of_find?_eq_some hcand)
          have hso := shapeOK_of_inv _ har g hgi rfl
          simp only [shapeOK, clifTpl, G, Bool.and_eq_true, beq_iff_eq] at hso
          rw [clif_instantiate g cand (List.eq_nil_of_length_eq_zero hso.1.1.1) hso.1.1.2]
          exact (template_rewrite_ok hζ hρ h16 _ E.shape har E.notU E.wfb n g hgi rfl
            (E.soundAt g.args)).1
        · exact triv.1
  · split_ifs
    · exact triv
    · exact triv
    · split
      · exact triv
      · rename_i k cands hf
        split
        · rename_i cand hcand
          have hm := List.mem_of_find?_eq_some hf
          have hk : k = g.kind := by simpa using List.find?_some hf
          subst hk
          obtain ⟨E, har⟩ := T _ hm cand (List.mem_of_find?_eq_some hcand)
          have hso := shapeOK_of_inv _ har g hgi rfl
          simp only [shapeOK, clifTpl, G, Bool.and_eq_true, beq_iff_eq] at hso
          rw [clif_instantiate g cand (List.eq_nil_of_length_eq_zero hso.1.1.1) hso.1.1.2]
          exact template_rewrite_ok hζ hρ h16 _ E.shape har E.notU E.wfb n g hgi rfl
            (E.soundAt g.args)
        · exact triv

end QV.MatSound

/-! ## 10. `ladderPass` -/

namespace QV

/-- arguments fixing variable `idx` to the constant `c·π/4`, keeping the other `nv` variables -/
def specArgs (nv idx : Nat) (c : Int) : List Angle :=
  (List.range nv).map fun i => if i = idx then (⟨[], c⟩ : Angle) else Angle.var i

/-- the template with variable `idx` fixed to `c·π/4` (what a `close` row of a ladder uses) -/
def Template.specialize (t : Template) (idx : Nat) (c : Int) : Template :=
  ⟨t.nq, t.target.subst (specArgs t.target.params.length idx c),
    t.body.map (Gate.subst (specArgs t.target.params.length idx c))⟩

end QV

namespace QV.C01

/-- kernel-evaluable certificate that a template is sound for all angle arguments
    (`Template.instance_sound_nz`) -/
def tplOK (t : Template) : Bool :=
  t.check && t.nz && decide (MatSound.WellFormed t.nq t.body) &&
  decide (MatSound.WellFormed t.nq [t.target]) &&
  t.body.all (fun g => decide (g.kind ≠ .UnitaryMatrix)) && decide (t.target.kind ≠ .UnitaryMatrix)

/-- one alternative of one ladder row -/
def rowAltOK (l : Ladder) (cond : Cond) (t : Template) : Bool :=
  tableEntryOK ("", l.kind, t) && tableArityOK ("", l.kind, t) &&
  t.body.all (fun g => decide (g.kind ≠ .UnitaryMatrix)) &&
  decide (MatSound.WellFormed t.nq t.body) &&
  (match cond with
   | .close ths => ths.all fun c => tplOK (t.specialize l.paramIdx c)
   | _ => tplOK t) &&
  (!l.mod2pi || (isRot l.kind && l.paramIdx == 0 &&
      t.body.all fun b => b.params.all fun a => a.cs.isEmpty))

/-- all rows and alternatives of a ladder carry their certificates -/
def ladderOK (l : Ladder) : Bool :=
  l.rows.all fun r => r.alts.all fun
    | none => true
    | some t => rowAltOK l r.cond t

end QV.C01

namespace QV.MatSound
open QV QV.Poly QV.C01

variable {K : Type} [Field K] {ζ : K} {ρ : ℕ → K}

theorem soundAt_of_tplOK (hζ : ζ ^ 8 = -1) (hρ : ∀ j, ρ j ≠ 0) (h2 : (2 : K) ≠ 0) (t : Template)
    (h : tplOK t = true) (as : List Angle) : SoundAt ζ ρ t as := by
  simp only [tplOK, Bool.and_eq_true, decide_eq_true_eq, List.all_eq_true] at h
  obtain ⟨⟨⟨⟨⟨hc, hz⟩, wfb⟩, wft⟩, hkb⟩, hkt⟩ := h
  intro σ n P
  exact Template.instance_sound_nz hζ hρ h2 t hc hz wfb wft P as hkb hkt

theorem entrySound_of_tplOK (hζ : ζ ^ 8 = -1) (hρ : ∀ j, ρ j ≠ 0) (h2 : (2 : K) ≠ 0)
    (e : String × Kind × Template) (h : tplOK e.2.2 = true) (hs : tableEntryOK e = true) :
    EntrySound ζ ρ e := by
  have h' := h
  simp only [tplOK, Bool.and_eq_true, decide_eq_true_eq, List.all_eq_true] at h'
  obtain ⟨⟨⟨⟨⟨_, _⟩, wfb⟩, _⟩, hkb⟩, _⟩ := h'
  exact ⟨hs, hkb, wfb, fun σ n P as => soundAt_of_tplOK hζ hρ h2 e.2.2 h as σ n P⟩

theorem GateEqv.relabel {g g' : Gate} (h : GateEqv ζ ρ g g') (σ : ℕ → ℕ) :
    GateEqv ζ ρ (g.relabel σ) (g'.relabel σ) :=
  ⟨h.kind, h.notU, congrArg (List.map σ) h.controls, congrArg (List.map σ) h.targets, h.paulis,
    h.params⟩

theorem theta_const (c : ℤ) : theta ζ ρ (⟨[], c⟩ : Angle) = ζ ^ c := by
  simp [theta, evalExps]

/-- fixing a variable to the value it already has does not change anything -/
theorem substRho_spec (nv idx : ℕ) (c : ℤ) (ρ' : ℕ → K) (hidx : ρ' idx = ζ ^ c)
    (hbig : ∀ i, nv ≤ i → ρ' i = 1) : substRho ζ ρ' (specArgs nv idx c) = ρ' := by
  funext i
  unfold substRho specArgs
  by_cases hi : i < nv
  · rw [getD_map_range _ _ _ _ hi]
    by_cases e : i = idx
    · rw [if_pos e, theta_const, e, hidx]
    · rw [if_neg e, theta_var]
  · rw [getD_ge _ _ (by simpa using hi), theta_default, hbig i (by omega)]

theorem theta_spec (hζ : ζ ^ 8 = -1) (hρ : ∀ j, ρ j ≠ 0) (ps : List ℤ) (nv idx : ℕ) (c : ℤ)
    (hnv : ps.length ≤ nv) (hp : ρ 0 ^ (ps.getD idx 0) = ζ ^ c) (a : Angle) :
    theta ζ ρ (Angle.subst (ps.map unitAngle) (Angle.subst (specArgs nv idx c) a))
      = theta ζ ρ (Angle.subst (ps.map unitAngle) a) := by
  rw [theta_subst hζ hρ, theta_subst hζ (substRho_ne_zero hζ hρ _), theta_subst hζ hρ,
    substRho_spec nv idx c _ (by rw [substRho_units]; exact hp)
      (fun i hi => by rw [substRho_units, getD_ge _ _ (by omega), zpow_zero])]

theorem gate_spec_eqv (hζ : ζ ^ 8 = -1) (hρ : ∀ j, ρ j ≠ 0) (ps : List ℤ) (nv idx : ℕ) (c : ℤ)
    (hnv : ps.length ≤ nv) (hp : ρ 0 ^ (ps.getD idx 0) = ζ ^ c) (b : Gate)
    (hU : b.kind ≠ .UnitaryMatrix) :
    GateEqv ζ ρ ((b.subst (specArgs nv idx c)).subst (ps.map unitAngle))
      (b.subst (ps.map unitAngle)) := by
  refine ⟨rfl, hU, rfl, rfl, rfl, fun i => ?_⟩
  show theta ζ ρ (((b.params.map (Angle.subst (specArgs nv idx c))).map
      (Angle.subst (ps.map unitAngle))).getD i {})
    = theta ζ ρ ((b.params.map (Angle.subst (ps.map unitAngle))).getD i {})
  rw [getD_map_subst, getD_map_subst, getD_map_subst]
  exact theta_spec hζ hρ ps nv idx c hnv hp _

/-- soundness of the specialised template gives soundness of the template at arguments whose
    `idx`-th angle is the constant -/
theorem soundAt_of_specialize (hζ : ζ ^ 8 = -1) (hρ : ∀ j, ρ j ≠ 0) (t : Template) (ps : List ℤ)
    (idx : ℕ) (c : ℤ) (hnv : ps.length ≤ t.target.params.length)
    (hp : ρ 0 ^ (ps.getD idx 0) = ζ ^ c)
    (hUb : ∀ b ∈ t.body, b.kind ≠ .UnitaryMatrix) (hUt : t.target.kind ≠ .UnitaryMatrix)
    (S : SoundAt ζ ρ (t.specialize idx c) (ps.map unitAngle)) :
    SoundAt ζ ρ t (ps.map unitAngle) := by
  intro σ n P
  obtain ⟨z, hz, h⟩ := S σ n P
  refine ⟨z, hz, fun r hr j hj => ?_⟩
  have e1 : List.Forall₂ (GateEqv ζ ρ)
      (((t.specialize idx c).body.map (Gate.subst (ps.map unitAngle))).map (Gate.relabel σ))
      ((t.body.map (Gate.subst (ps.map unitAngle))).map (Gate.relabel σ)) := by
    simp only [Template.specialize, List.map_map]
    apply forall₂_map_map_mem
    intro b hb
    exact (gate_spec_eqv hζ hρ ps _ idx c hnv hp b (hUb b hb)).relabel σ
  have e2 : List.Forall₂ (GateEqv ζ ρ)
      [((t.specialize idx c).target.subst (ps.map unitAngle)).relabel σ]
      [(t.target.subst (ps.map unitAngle)).relabel σ] :=
    List.Forall₂.cons ((gate_spec_eqv hζ hρ ps _ idx c hnv hp t.target hUt).relabel σ)
      List.Forall₂.nil
  rw [← semCirc_congr_eqv hζ hρ e1, ← semCirc_congr_eqv hζ hρ e2]
  exact h r hr j hj

theorem rho0_zpow_units (h16 : ρ 0 ^ 16 = ζ) (c : ℤ) : ρ 0 ^ (c * unitsPerQuarterPi) = ζ ^ c := by
  unfold unitsPerQuarterPi
  rw [mul_comm, zpow_mul, ← h16]
  congr 1
  exact zpow_natCast (ρ 0) 16

/-- one alternative of one row, angle read without reduction mod 2π -/
theorem ladder_alt_nomod (hζ : ζ ^ 8 = -1) (hρ : ∀ j, ρ j ≠ 0) (h16 : ρ 0 ^ 16 = ζ)
    (h2 : (2 : K) ≠ 0) (l : Ladder) (cond : Cond) (t : Template) (hok : rowAltOK l cond t = true)
    (n : ℕ) (g : NGate) (hg : gInv n g = true) (hk : l.kind = g.kind)
    (hcond : condHolds (g.params.getD l.paramIdx 0) cond = true) :
    CInv n (instantiate t g) ∧ OpEqv ζ ρ n [g] (instantiate t g) := by
  simp only [rowAltOK, Bool.and_eq_true, decide_eq_true_eq, List.all_eq_true] at hok
  obtain ⟨⟨⟨⟨⟨hshape, har⟩, hUb⟩, wfb⟩, hcert⟩, _⟩ := hok
  have hgU : g.kind ≠ .UnitaryMatrix := arityOK_notU (gInv_iff.mp hg).2.2
  have hUt : t.target.kind ≠ .UnitaryMatrix := by
    have h1 := hshape
    simp only [tableEntryOK, Bool.and_eq_true, decide_eq_true_eq] at h1
    rw [← h1.1.1.1.1]; exact hk ▸ hgU
  have hso := shapeOK_of_inv ("", l.kind, t) har g hg hk
  simp only [shapeOK, Bool.and_eq_true, beq_iff_eq] at hso
  have hS : SoundAt ζ ρ t g.args := by
    cases cond with
    | close ths =>
      simp only [condHolds, List.any_eq_true, beq_iff_eq] at hcond
      obtain ⟨c, hc, hθ⟩ := hcond
      have hcert' : tplOK (t.specialize l.paramIdx c) = true := by
        simp only [List.all_eq_true] at hcert; exact hcert c hc
      exact soundAt_of_specialize hζ hρ t g.params l.paramIdx c (le_of_eq hso.1.2) (by
          rw [hθ]; exact rho0_zpow_units h16 c) hUb hUt
        (soundAt_of_tplOK hζ hρ h2 _ hcert' _)
    | notClose ths => exact soundAt_of_tplOK hζ hρ h2 t hcert _
    | always => exact soundAt_of_tplOK hζ hρ h2 t hcert _
  exact template_rewrite_ok hζ hρ h16 ("", l.kind, t) hshape har hUb wfb n g hg hk hS

theorem instantiate_const (t : Template) (g g0 : NGate) (hc : g.controls = g0.controls)
    (ht : g.targets = g0.targets)
    (hb : ∀ b ∈ t.body, ∀ a ∈ b.params, a.cs.isEmpty = true) :
    instantiate t g = instantiate t g0 := by
  unfold instantiate
  simp only [hc, ht]
  apply List.map_congr_left
  intro b hbm
  congr 1
  apply List.map_congr_left
  intro a ha
  have : a.cs = [] := List.isEmpty_iff.mp (hb b hbm a ha)
  simp [evalAngle, this]

/-- one alternative of one row, with the ladder's own reading of the angle -/
theorem ladder_alt_ok (hζ : ζ ^ 8 = -1) (hρ : ∀ j, ρ j ≠ 0) (h16 : ρ 0 ^ 16 = ζ)
    (h2 : (2 : K) ≠ 0) (l : Ladder) (cond : Cond) (t : Template) (hok : rowAltOK l cond t = true)
    (n : ℕ) (g : NGate) (hg : gInv n g = true) (hk : l.kind = g.kind)
    (hcond : condHolds (ladderAngle l g) cond = true) :
    CInv n (instantiate t g) ∧ OpEqv ζ ρ n [g] (instantiate t g) := by
  unfold ladderAngle at hcond
  by_cases hm : l.mod2pi = true
  · rw [if_pos hm] at hcond
    have hok' := hok
    simp only [rowAltOK, Bool.and_eq_true, List.all_eq_true, hm, Bool.not_true, Bool.false_or,
      beq_iff_eq] at hok'
    obtain ⟨_, ⟨hrot, hidx⟩, hconst⟩ := hok'
    rw [hidx] at hcond
    rw [hk] at hrot
    obtain ⟨h1, h2'⟩ := rot_shift_ok hζ hρ h16 n g hg hrot (-(g.params.getD 0 0 / 128))
    rw [← emod_eq] at h1 h2'
    obtain ⟨h3, h4⟩ := ladder_alt_nomod hζ hρ h16 h2 l cond t hok n _ h1 hk (by
      rw [hidx]; exact hcond)
    rw [instantiate_const t g { g with params := [emod (g.params.getD 0 0) twoPi] } rfl rfl hconst]
    exact ⟨h3, h2'.trans h4⟩
  · rw [if_neg hm] at hcond
    exact ladder_alt_nomod hζ hρ h16 h2 l cond t hok n g hg hk hcond

theorem mem_of_getD_ne {α : Type} (l : List α) (i : ℕ) (d x : α) (h : l.getD i d = x)
    (hne : x ≠ d) : x ∈ l := by
  by_cases hi : i < l.length
  · rw [getD_eq_getElem' _ _ hi] at h; rw [← h]; exact List.getElem_mem hi
  · rw [getD_ge _ _ (by omega)] at h; exact absurd h.symm hne

theorem ladderGate_ok (hζ : ζ ^ 8 = -1) (hρ : ∀ j, ρ j ≠ 0) (h16 : ρ 0 ^ 16 = ζ)
    (h2 : (2 : K) ≠ 0) (l : Ladder) (hl : ladderOK l = true) (alt n : ℕ) (g : NGate)
    (hg : gInv n g = true) :
    CInv n (ladderGate l alt g) ∧ OpEqv ζ ρ n [g] (ladderGate l alt g) := by
  have triv : CInv n [g] ∧ OpEqv ζ ρ n [g] [g] := ⟨CInv_singleton.mpr hg, OpEqv.refl n [g]⟩
  unfold ladderGate
  split_ifs with hkind
  · exact triv
  · have hk : l.kind = g.kind := by
      have : g.kind = l.kind := by simpa using hkind
      exact this.symm
    split
    · exact triv
    · rename_i r hf
      have hr := List.mem_of_find?_eq_some hf
      have hcond := List.find?_some hf
      unfold ladderRowOut
      split
      · exact triv
      · rename_i t ht
        have htm := mem_of_getD_ne _ _ _ _ ht (by simp)
        simp only [ladderOK, List.all_eq_true] at hl
        have := hl r hr (some t) htm
        exact ladder_alt_ok hζ hρ h16 h2 l r.cond t this n g hg hk hcond

/-- the threshold-ladder passes (`RX2Named…`, `ZeroRotationElimination…`, `U1qNormalizeWithRZ…`) -/
theorem ladderPass_ok (hζ : ζ ^ 8 = -1) (hρ : ∀ j, ρ j ≠ 0) (h16 : ρ 0 ^ 16 = ζ)
    (h2 : (2 : K) ≠ 0) (ls : List Ladder) (hls : ∀ l ∈ ls, ladderOK l = true) (alt n : ℕ)
    (c : List NGate) (hc : CInv n c) :
    CInv n (ladderPass ls alt c) ∧ OpEqv ζ ρ n c (ladderPass ls alt c) := by
  unfold ladderPass
  have key : ∀ g ∈ c, CInv n (match ls.find? (·.kind == g.kind) with
        | some l => ladderGate l alt g | none => [g]) ∧
      OpEqv ζ ρ n [g] (match ls.find? (·.kind == g.kind) with
        | some l => ladderGate l alt g | none => [g]) := by
    intro g hg
    have hgi := CInv_iff.mp hc g hg
    split
    · rename_i l hf
      exact ladderGate_ok hζ hρ h16 h2 l (hls l (List.mem_of_find?_eq_some hf)) alt n g hgi
    · exact ⟨CInv_singleton.mpr hgi, OpEqv.refl n [g]⟩
  exact ⟨CInv_flatMap _ (fun g hg => (key g hg).1), OpEqv.flatMap n c _ hc key⟩

end QV.MatSound

/-! ## 11. pipelines, second round -/

namespace QV.C01

/-- the ladders selected by a `ladder` pass all carry their certificates -/
def Pass.ladderGood (e : Env) : Pass → Bool
  | .ladder names _ => (e.ladders.filter fun l => names.contains l.1).all fun l => ladderOK l.2
  | _ => true

/-- primitive passes still assumed (hypotheses of `runSeq_sound_partial3`) -/
def pendingPass3 : Pass → Bool
  | .fuseCHC | .pauliDec | .pauliRotDec | .cnotRzRzz => true
  | _ => false

/-- passes all of whose (nested) primitive passes are proved sound -/
def provedPass3 : Pass → Bool
  | .fuseCHC | .pauliDec | .pauliRotDec | .cnotRzRzz | .gateSetConv _ _ => false
  | _ => true

/-- the shapes of passes that `gateSetPipeline` can contain besides the two fixed sub-lists -/
def gsKind : Pass → Bool
  | .decomp _ | .pauliDec | .pauliRotDec | .um1 | .clifConv _ | .idElim | .rotConv _ _ => true
  | _ => false

end QV.C01

namespace QV.MatSound
open QV QV.Poly QV.C01

variable {K : Type} [Field K] {ζ : K} {ρ : ℕ → K}

variable (ζ ρ) in
/-- what is needed from the environment -/
structure EnvOK (e : Env) : Prop where
  table : TableOK ζ ρ e.templates
  clif : ClifTableOK ζ ρ e.clifTable
  /-- the ladders used by the fixed sub-pipelines of `GateSetConversionTranspiler` are certified -/
  std : (rotationFuser ++ rotation2Named).all (Pass.ladderGood e) = true

theorem gateSetPipeline_mem (gs : List Kind) (p : Pass) (hp : p ∈ gateSetPipeline gs) :
    gsKind p = true ∨ p ∈ rotationFuser ++ rotation2Named := by
  unfold gateSetPipeline at hp
  simp only [List.mem_append] at hp
  have hall : ∀ (l : List Pass), l.all gsKind = true → p ∈ l → gsKind p = true :=
    fun l h hm => List.all_eq_true.mp h p hm
  rcases hp with ((((((h | h) | h) | h) | h) | h) | h) | h
  · exact Or.inl (hall _ rfl (collect_sub h))
  · exact Or.inl (hall _ rfl (collect_sub h))
  · split_ifs at h
    · simp at h
    · simp only [List.mem_append, List.mem_singleton] at h
      rcases h with (h | h) | h
      · exact Or.inr (List.mem_append.mpr (Or.inl h))
      · exact Or.inr (List.mem_append.mpr (Or.inr h))
      · subst h; exact Or.inl rfl
  · split_ifs at h
    · simp at h
    · simp at h; subst h; exact Or.inl rfl
  · exact Or.inl (hall _ rfl (collect_sub h))
  · exact Or.inr (List.mem_append.mpr (Or.inl h))
  · simp at h; subst h; exact Or.inl rfl
  · exact Or.inr (List.mem_append.mpr (Or.inl h))

theorem gateSetPipeline_ladderGood (e : Env)
    (hstd : (rotationFuser ++ rotation2Named).all (Pass.ladderGood e) = true) (gs : List Kind) :
    ∀ p ∈ gateSetPipeline gs, p.ladderGood e = true := by
  intro p hp
  rcases gateSetPipeline_mem gs p hp with h | h
  · cases p <;> simp_all [gsKind, Pass.ladderGood]
  · exact List.all_eq_true.mp hstd p h

theorem rotConvPipeline_ladderGood (e : Env) (rots fav : List Kind) :
    ∀ p ∈ rotConvPipeline rots fav, p.ladderGood e = true := by
  intro p hp
  have := rotConvPipeline_proved rots fav p hp
  cases p <;> simp_all [provedPass, Pass.ladderGood]

/-- all primitive passes except `pendingPass3` -/
theorem prim_ok3 (hζ : ζ ^ 8 = -1) (hρ : ∀ j, ρ j ≠ 0) (h16 : ρ 0 ^ 16 = ζ) (h2 : (2 : K) ≠ 0)
    (e : Env) (E : EnvOK ζ ρ e) (n : ℕ) (p : Pass) (hpr : pendingPass3 p = false)
    (hp : p.prim = true) (hf : p.fits n = true) (hl : p.ladderGood e = true) :
    PrimOK ζ ρ e n p := by
  cases p with
  | fuseRot =>
    intro fuel c c' hc h
    simp only [runPass] at h
    cases hr : fuseRotPass c with
    | none => rw [hr] at h; simp at h
    | some r =>
      rw [hr] at h
      have : r = c' := by simpa using h
      subst this
      exact fuseRotPass_ok hζ hρ h16 h2 n c r hc hr
  | ladder names alt =>
    intro fuel c c' hc h
    have : ladderPass ((e.ladders.filter fun l => names.contains l.1).map (·.2)) alt c = c' := by
      simpa [runPass] using h
    subst this
    refine ladderPass_ok hζ hρ h16 h2 _ (fun l hlm => ?_) alt n c hc
    obtain ⟨x, hx, rfl⟩ := List.mem_map.mp hlm
    simp only [Pass.ladderGood, List.all_eq_true] at hl
    exact hl x hx
  | clifConv tset =>
    intro fuel c c' hc h
    have : clifConvPass e.clifTable e.cliff1q tset c = c' := by simpa [runPass] using h
    subst this
    exact clifConvPass_ok hζ hρ h16 e.clifTable E.clif e.cliff1q tset n c hc
  | fuseCHC => simp [pendingPass3] at hpr
  | pauliDec => simp [pendingPass3] at hpr
  | pauliRotDec => simp [pendingPass3] at hpr
  | cnotRzRzz => simp [pendingPass3] at hpr
  | _ => exact prim_ok hζ hρ h16 e E.table n _ rfl hp hf

/-- **Pipeline soundness, second round** (hypotheses: `fuseCHC`, `pauliDec`, `pauliRotDec`,
    `cnotRzRzz`).  Covers `GateSetConversionTranspiler` pipelines. -/
theorem runSeq_sound_partial3 (hζ : ζ ^ 8 = -1) (hρ : ∀ j, ρ j ≠ 0) (h16 : ρ 0 ^ 16 = ζ)
    (h2 : (2 : K) ≠ 0) (e : Env) (E : EnvOK ζ ρ e) (n : ℕ)
    (hpend : ∀ p, pendingPass3 p = true → PrimOK ζ ρ e n p)
    (fuel : ℕ) (ps : List Pass) (c c' : List NGate)
    (hf : ∀ p ∈ ps, p.fits n = true ∧ p.ladderGood e = true)
    (hc : CInv n c) (h : runSeq e fuel ps c = .ok c') : CInv n c' ∧ OpEqv ζ ρ n c c' :=
  (run_sound e n (fun p => p.fits n = true ∧ p.ladderGood e = true)
    (fun rots fav _ p hp => ⟨rotConvPipeline_fits n rots fav p hp,
      rotConvPipeline_ladderGood e rots fav p hp⟩)
    (fun gs _ _ p hp => ⟨gateSetPipeline_fits n gs p hp,
      gateSetPipeline_ladderGood e E.std gs p hp⟩)
    (fun p hp hq => by
      by_cases hpe : pendingPass3 p = true
      · exact hpend p hpe
      · exact prim_ok3 hζ hρ h16 h2 e E n p (by simpa using hpe) hp hq.1 hq.2) fuel).2
    ps c c' hf hc h

/-- **Pipeline soundness, unconditional**, for pipelines built from `decomp`, `fuseRot`, `normalize`,
    `ladder` (certified ladders), `clifConv`, `idElim`, `idInsert m` (`m ≤ n`), `um1`, `um2`,
    `rotConv` -/
theorem runSeq_sound_proved3 (hζ : ζ ^ 8 = -1) (hρ : ∀ j, ρ j ≠ 0) (h16 : ρ 0 ^ 16 = ζ)
    (h2 : (2 : K) ≠ 0) (e : Env) (E : EnvOK ζ ρ e) (n : ℕ)
    (fuel : ℕ) (ps : List Pass) (c c' : List NGate)
    (hf : ∀ p ∈ ps, p.fits n = true ∧ p.ladderGood e = true ∧ provedPass3 p = true)
    (hc : CInv n c) (h : runSeq e fuel ps c = .ok c') : CInv n c' ∧ OpEqv ζ ρ n c c' :=
  (run_sound e n (fun p => p.fits n = true ∧ p.ladderGood e = true ∧ provedPass3 p = true)
    (fun rots fav _ p hp => ⟨rotConvPipeline_fits n rots fav p hp,
      rotConvPipeline_ladderGood e rots fav p hp, by
        have := rotConvPipeline_proved rots fav p hp
        cases p <;> simp_all [provedPass, provedPass3]⟩)
    (fun gs v h => by simp [provedPass3] at h)
    (fun p hp hq => prim_ok3 hζ hρ h16 h2 e E n p (by
      obtain ⟨_, _, h3⟩ := hq
      cases p <;> simp_all [provedPass3, pendingPass3]) hp hq.1 hq.2.1) fuel).2 ps c c' hf hc h

end QV.MatSound
