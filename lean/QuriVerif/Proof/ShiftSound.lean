import QuriVerif.Proof.BornSound
import QuriVerif.Model.C09
import Mathlib.Analysis.SpecialFunctions.Trigonometric.Deriv
/-
  C09, operator level (over ℂ): why the expectation value of a circuit with rotation gates has the form the
  abstract parameter-shift theorems of `Props/C09` assume.

    * §1  linear algebra on the `2^n` block: `mv` (matrix·vector), `sesq O a b = a†·O·b`, the rotation matrix
          `rotM P t = cos(t/2)·1 − i·sin(t/2)·P`, and the expansion
          `sesq O (B·R(t)·χ) (B·R(t)·χ) = a + b·cos t + c·sin t` with explicit `a, b, c` (`sesq_rot`) – no
          unitarity, hermiticity or `P² = 1` is needed;
    * §2  `a + b·cos t + c·sin t`: the derivative and the two-term shift rule (`hasDerivAt_trig`, `trig_shift`);
    * §3  several occurrences: a circuit `χ₀ ; R₁(t_{j₁}) ; B₁ ; R₂(t_{j₂}) ; B₂ ; …` (`Occ`, `stateOf`) has the
          expectation `TExp.eval (ptC t) (texp …)` for an explicit trigonometric expression `texp` of the abstract
          layer (`texp_eval`), which is affine in every `(cos t_j, sin t_j)` when the occurrence indices are
          distinct (`texp_affine`) and mentions no other index (`texp_raws`);
    * §4  gates: `hop φ [g] = rotM (opC φ (genOf g)) (angle of g)` for `g` of kind RX, RY, RZ (any wire) or
          PauliRotation (any wires, any Pauli ids), any affine angle, all real `φ` (`hop_rotation`).
-/
namespace QV.MatSound
open QV QV.Poly QV.Props.Reflect
open scoped BigOperators

/-! ### §1  linear algebra on the block -/

/-- matrix · vector -/
noncomputable def mv (n : ℕ) (U : ℕ → ℕ → ℂ) (ψ : ℕ → ℂ) (x : ℕ) : ℂ :=
  ∑ j ∈ Finset.range (2 ^ n), U x j * ψ j

/-- `a†·O·b` -/
noncomputable def sesq (n : ℕ) (O : ℕ → ℕ → ℂ) (a b : ℕ → ℂ) : ℂ :=
  ∑ r ∈ Finset.range (2 ^ n), ∑ j ∈ Finset.range (2 ^ n), star (a r) * O r j * b j

theorem expv_eq_sesq (n : ℕ) (O : ℕ → ℕ → ℂ) (ψ : ℕ → ℂ) : expv n O ψ = sesq n O ψ ψ := rfl

/-- `Bᴴ·O` -/
noncomputable def adjMul (n : ℕ) (B O : ℕ → ℕ → ℂ) (r y : ℕ) : ℂ :=
  ∑ x ∈ Finset.range (2 ^ n), star (B x r) * O x y

/-- `O·B` -/
noncomputable def mulM (n : ℕ) (O B : ℕ → ℕ → ℂ) (x j : ℕ) : ℂ :=
  ∑ y ∈ Finset.range (2 ^ n), O x y * B y j

/-- the rotation `exp(−i t P/2)` written out: `cos(t/2)·1 − i·sin(t/2)·P` -/
noncomputable def rotM (P : ℕ → ℕ → ℂ) (t : ℝ) (r j : ℕ) : ℂ :=
  (Real.cos (t / 2) : ℂ) * (if r = j then 1 else 0) - Complex.I * (Real.sin (t / 2) : ℂ) * P r j

theorem sesq_congr (n : ℕ) (O : ℕ → ℕ → ℂ) (a a' b b' : ℕ → ℂ)
    (ha : ∀ x, x < 2 ^ n → a x = a' x) (hb : ∀ x, x < 2 ^ n → b x = b' x) :
    sesq n O a b = sesq n O a' b' := by
  unfold sesq
  apply Finset.sum_congr rfl
  intro r hr
  apply Finset.sum_congr rfl
  intro j hj
  rw [ha r (Finset.mem_range.mp hr), hb j (Finset.mem_range.mp hj)]

theorem mv_congr (n : ℕ) (U : ℕ → ℕ → ℂ) (a a' : ℕ → ℂ) (ha : ∀ x, x < 2 ^ n → a x = a' x) (x : ℕ) :
    mv n U a x = mv n U a' x := by
  unfold mv
  apply Finset.sum_congr rfl
  intro j hj
  rw [ha j (Finset.mem_range.mp hj)]

theorem mv_lin (n : ℕ) (U : ℕ → ℕ → ℂ) (c d : ℂ) (u v : ℕ → ℂ) (x : ℕ) :
    mv n U (fun y => c * u y + d * v y) x = c * mv n U u x + d * mv n U v x := by
  unfold mv
  rw [Finset.mul_sum, Finset.mul_sum, ← Finset.sum_add_distrib]
  apply Finset.sum_congr rfl
  intro j _
  ring

/-- the rotation applied to a vector -/
theorem mv_rot (n : ℕ) (P : ℕ → ℕ → ℂ) (t : ℝ) (χ : ℕ → ℂ) (x : ℕ) (hx : x < 2 ^ n) :
    mv n (rotM P t) χ x
      = (Real.cos (t / 2) : ℂ) * χ x + (-(Complex.I * (Real.sin (t / 2) : ℂ))) * mv n P χ x := by
  have hδ : (Real.cos (t / 2) : ℂ) * χ x
      = ∑ j ∈ Finset.range (2 ^ n), if x = j then (Real.cos (t / 2) : ℂ) * χ j else 0 := by
    rw [Finset.sum_ite_eq (Finset.range (2 ^ n)) x, if_pos (Finset.mem_range.mpr hx)]
  unfold mv rotM
  rw [hδ, Finset.mul_sum, ← Finset.sum_add_distrib]
  apply Finset.sum_congr rfl
  intro j _
  by_cases e : x = j
  · subst e; simp; ring
  · simp [e]; ring

/-- sesquilinearity on a two-term combination -/
theorem sesq_comb (n : ℕ) (O : ℕ → ℕ → ℂ) (c d : ℂ) (u v : ℕ → ℂ) :
    sesq n O (fun x => c * u x + d * v x) (fun x => c * u x + d * v x)
      = star c * c * sesq n O u u + star c * d * sesq n O u v + star d * c * sesq n O v u
        + star d * d * sesq n O v v := by
  unfold sesq
  simp only [Finset.mul_sum, ← Finset.sum_add_distrib]
  apply Finset.sum_congr rfl
  intro r _
  apply Finset.sum_congr rfl
  intro j _
  rw [star_add, star_mul', star_mul']
  ring

theorem sesq_mv_left (n : ℕ) (O B : ℕ → ℕ → ℂ) (χ w : ℕ → ℂ) :
    sesq n O (mv n B χ) w = sesq n (adjMul n B O) χ w := by
  unfold sesq mv adjMul
  have h1 : ∀ x ∈ Finset.range (2 ^ n), ∑ y ∈ Finset.range (2 ^ n),
      star (∑ r ∈ Finset.range (2 ^ n), B x r * χ r) * O x y * w y
      = ∑ r ∈ Finset.range (2 ^ n), ∑ y ∈ Finset.range (2 ^ n),
          star (χ r) * (star (B x r) * O x y) * w y := by
    intro x _
    rw [Finset.sum_comm]
    apply Finset.sum_congr rfl
    intro y _
    rw [star_sum, Finset.sum_mul, Finset.sum_mul]
    apply Finset.sum_congr rfl
    intro r _
    rw [star_mul']; ring
  rw [Finset.sum_congr rfl h1, Finset.sum_comm]
  apply Finset.sum_congr rfl
  intro r _
  rw [Finset.sum_comm]
  apply Finset.sum_congr rfl
  intro y _
  rw [Finset.mul_sum, Finset.sum_mul]

theorem sesq_mv_right (n : ℕ) (O B : ℕ → ℕ → ℂ) (u χ : ℕ → ℂ) :
    sesq n O u (mv n B χ) = sesq n (mulM n O B) u χ := by
  unfold sesq mv mulM
  apply Finset.sum_congr rfl
  intro r _
  have h1 : ∀ y ∈ Finset.range (2 ^ n), star (u r) * O r y * ∑ j ∈ Finset.range (2 ^ n), B y j * χ j
      = ∑ j ∈ Finset.range (2 ^ n), star (u r) * (O r y * B y j) * χ j := by
    intro y _
    rw [Finset.mul_sum]
    apply Finset.sum_congr rfl
    intro j _
    ring
  rw [Finset.sum_congr rfl h1, Finset.sum_comm]
  apply Finset.sum_congr rfl
  intro j _
  rw [Finset.mul_sum, Finset.sum_mul]

/-- the four operators `Bᴴ O B`, `Bᴴ O B P`, `Pᴴ Bᴴ O B`, `Pᴴ Bᴴ O B P` -/
noncomputable def m00 (n : ℕ) (O B : ℕ → ℕ → ℂ) : ℕ → ℕ → ℂ := mulM n (adjMul n B O) B
noncomputable def m01 (n : ℕ) (O B P : ℕ → ℕ → ℂ) : ℕ → ℕ → ℂ := mulM n (mulM n (adjMul n B O) B) P
noncomputable def m10 (n : ℕ) (O B P : ℕ → ℕ → ℂ) : ℕ → ℕ → ℂ := mulM n (adjMul n P (adjMul n B O)) B
noncomputable def m11 (n : ℕ) (O B P : ℕ → ℕ → ℂ) : ℕ → ℕ → ℂ :=
  mulM n (mulM n (adjMul n P (adjMul n B O)) B) P

theorem sesq_lin_op (n : ℕ) (O O' : ℕ → ℕ → ℂ) (c d : ℂ) (a b : ℕ → ℂ) :
    sesq n (fun r j => c * O r j + d * O' r j) a b = c * sesq n O a b + d * sesq n O' a b := by
  unfold sesq
  simp only [Finset.mul_sum, ← Finset.sum_add_distrib]
  apply Finset.sum_congr rfl
  intro r _
  apply Finset.sum_congr rfl
  intro j _
  ring

/-- the coefficient operators of one occurrence: constant, `cos`, `sin` part -/
noncomputable def opA (n : ℕ) (O B P : ℕ → ℕ → ℂ) : ℕ → ℕ → ℂ :=
  fun r j => (1 / 2 : ℂ) * m00 n O B r j + (1 / 2 : ℂ) * m11 n O B P r j
noncomputable def opB (n : ℕ) (O B P : ℕ → ℕ → ℂ) : ℕ → ℕ → ℂ :=
  fun r j => (1 / 2 : ℂ) * m00 n O B r j + (-(1 / 2) : ℂ) * m11 n O B P r j
noncomputable def opS (n : ℕ) (O B P : ℕ → ℕ → ℂ) : ℕ → ℕ → ℂ :=
  fun r j => (Complex.I / 2) * m10 n O B P r j + (-(Complex.I / 2)) * m01 n O B P r j

/-- **one rotation occurrence**: `⟨B R(t) χ| O |B R(t) χ⟩ = ⟨χ|A|χ⟩ + cos t·⟨χ|B'|χ⟩ + sin t·⟨χ|S|χ⟩` with the three
    operators `opA`, `opB`, `opS` built from `O`, `B`, `P` only -/
theorem sesq_rot (n : ℕ) (O B P : ℕ → ℕ → ℂ) (χ : ℕ → ℂ) (t : ℝ) :
    sesq n O (mv n B (mv n (rotM P t) χ)) (mv n B (mv n (rotM P t) χ))
      = sesq n (opA n O B P) χ χ + (Real.cos t : ℂ) * sesq n (opB n O B P) χ χ
        + (Real.sin t : ℂ) * sesq n (opS n O B P) χ χ := by
  set c : ℂ := (Real.cos (t / 2) : ℂ) with hc
  set s : ℂ := (Real.sin (t / 2) : ℂ) with hs
  set u := mv n B χ with hu
  set v := mv n B (mv n P χ) with hv
  have hΦ : ∀ x, mv n B (mv n (rotM P t) χ) x = c * u x + (-(Complex.I * s)) * v x := by
    intro x
    rw [mv_congr n B _ (fun y => c * χ y + (-(Complex.I * s)) * mv n P χ y)
      (fun y hy => mv_rot n P t χ y hy) x, mv_lin]
  rw [sesq_congr n O _ (fun x => c * u x + (-(Complex.I * s)) * v x) _
    (fun x => c * u x + (-(Complex.I * s)) * v x) (fun x _ => hΦ x) (fun x _ => hΦ x), sesq_comb]
  -- the four forms as expectation values in χ
  have e00 : sesq n O u u = sesq n (m00 n O B) χ χ := by
    rw [hu, sesq_mv_left, sesq_mv_right]; rfl
  have e01 : sesq n O u v = sesq n (m01 n O B P) χ χ := by
    rw [hu, hv, sesq_mv_left, sesq_mv_right, sesq_mv_right]; rfl
  have e10 : sesq n O v u = sesq n (m10 n O B P) χ χ := by
    rw [hu, hv, sesq_mv_left, sesq_mv_left, sesq_mv_right]; rfl
  have e11 : sesq n O v v = sesq n (m11 n O B P) χ χ := by
    rw [hv, sesq_mv_left, sesq_mv_left, sesq_mv_right, sesq_mv_right]; rfl
  rw [e00, e01, e10, e11]
  unfold opA opB opS
  rw [sesq_lin_op, sesq_lin_op, sesq_lin_op]
  -- half-angle formulas
  have hsc : star c = c := by rw [hc]; exact Complex.conj_ofReal _
  have hss : star s = s := by rw [hs]; exact Complex.conj_ofReal _
  have hsd : star (-(Complex.I * s)) = Complex.I * s := by
    have hI' : star Complex.I = -Complex.I := Complex.conj_I
    rw [star_neg, star_mul', hss, hI']; ring
  rw [hsc, hsd]
  have h1 : (Real.cos t : ℂ) = 2 * c * c - 1 := by
    rw [hc]
    have : Real.cos t = 2 * Real.cos (t / 2) * Real.cos (t / 2) - 1 := by
      have := Real.cos_two_mul (t / 2)
      rw [show 2 * (t / 2) = t by ring] at this
      rw [this]; ring
    rw [this]; push_cast; ring
  have h2 : (Real.sin t : ℂ) = 2 * s * c := by
    rw [hc, hs]
    have : Real.sin t = 2 * Real.sin (t / 2) * Real.cos (t / 2) := by
      have := Real.sin_two_mul (t / 2)
      rwa [show 2 * (t / 2) = t by ring] at this
    rw [this]; push_cast; ring
  have h3 : s * s = 1 - c * c := by
    rw [hc, hs]
    have := Real.sin_sq_add_cos_sq (t / 2)
    have h' : Real.sin (t / 2) * Real.sin (t / 2) = 1 - Real.cos (t / 2) * Real.cos (t / 2) := by
      nlinarith [this]
    exact_mod_cast congrArg (fun x : ℝ => (x : ℂ)) h'
  rw [h1, h2]
  have hI : Complex.I * Complex.I = -1 := Complex.I_mul_I
  linear_combination (sesq n (m11 n O B P) χ χ) * h3 + (-(s * s * sesq n (m11 n O B P) χ χ)) * hI

/-! ### §2  `a + b·cos t + c·sin t` -/

/-- the derivative of a one-frequency trigonometric polynomial (complex coefficients, real variable) -/
theorem hasDerivAt_trig (a b c : ℂ) (t : ℝ) :
    HasDerivAt (fun x : ℝ => a + b * (Real.cos x : ℂ) + c * (Real.sin x : ℂ))
      (-(b * (Real.sin t : ℂ)) + c * (Real.cos t : ℂ)) t := by
  have hcos : HasDerivAt (fun x : ℝ => (Real.cos x : ℂ)) ((-Real.sin t : ℝ) : ℂ) t :=
    (Real.hasDerivAt_cos t).ofReal_comp
  have hsin : HasDerivAt (fun x : ℝ => (Real.sin x : ℂ)) ((Real.cos t : ℝ) : ℂ) t :=
    (Real.hasDerivAt_sin t).ofReal_comp
  have := ((hasDerivAt_const t a).add (hcos.const_mul b)).add (hsin.const_mul c)
  refine this.congr_deriv ?_
  push_cast; ring

/-- the two-term shift rule for such a function -/
theorem trig_shift (a b c : ℂ) (t : ℝ) :
    -(b * (Real.sin t : ℂ)) + c * (Real.cos t : ℂ)
      = (1 / 2 : ℂ) * ((a + b * (Real.cos (t + Real.pi / 2) : ℂ) + c * (Real.sin (t + Real.pi / 2) : ℂ))
          - (a + b * (Real.cos (t - Real.pi / 2) : ℂ) + c * (Real.sin (t - Real.pi / 2) : ℂ))) := by
  rw [Real.cos_add_pi_div_two, Real.sin_add_pi_div_two, Real.cos_sub_pi_div_two, Real.sin_sub_pi_div_two]
  push_cast; ring

/-! ### §3  several occurrences and the abstract trigonometric expressions -/

/-- one occurrence: the generator `P`, the index `j` of its angle, and the fixed operator `B` applied after it -/
structure Occ where
  P : ℕ → ℕ → ℂ
  j : ℕ
  B : ℕ → ℕ → ℂ

/-- the state after the occurrences; the HEAD of the list is the occurrence applied LAST -/
noncomputable def stateOf (n : ℕ) (χ₀ : ℕ → ℂ) (t : ℕ → ℝ) : List Occ → ℕ → ℂ
  | [] => χ₀
  | o :: rest => mv n o.B (mv n (rotM o.P (t o.j)) (stateOf n χ₀ t rest))

/-- the point `(cos t_j, sin t_j)_j` with complex entries -/
noncomputable def ptC (t : ℕ → ℝ) : C09.Point ℂ := fun j => ((Real.cos (t j) : ℂ), (Real.sin (t j) : ℂ))

/-- **the expectation value as an expression of the abstract layer** -/
noncomputable def texp (n : ℕ) (χ₀ : ℕ → ℂ) : (ℕ → ℕ → ℂ) → List Occ → C09.TExp ℂ
  | O, [] => .const (sesq n O χ₀ χ₀)
  | O, o :: rest =>
    .add (texp n χ₀ (opA n O o.B o.P) rest)
      (.add (.mul (.cos o.j) (texp n χ₀ (opB n O o.B o.P) rest))
        (.mul (.sin o.j) (texp n χ₀ (opS n O o.B o.P) rest)))

/-- `texp` evaluates to the expectation value, for all angles -/
theorem texp_eval (n : ℕ) (χ₀ : ℕ → ℂ) (t : ℕ → ℝ) : ∀ (occs : List Occ) (O : ℕ → ℕ → ℂ),
    C09.TExp.eval (ptC t) (texp n χ₀ O occs)
      = sesq n O (stateOf n χ₀ t occs) (stateOf n χ₀ t occs) := by
  intro occs
  induction occs with
  | nil => intro O; rfl
  | cons o rest ih =>
    intro O
    simp only [texp, C09.TExp.eval, ih, stateOf, ptC]
    rw [sesq_rot, add_assoc]

/-- the indices of the occurrences -/
def occIdx (occs : List Occ) : List ℕ := occs.map (·.j)

theorem texp_free (n : ℕ) (χ₀ : ℕ → ℂ) (j : ℕ) : ∀ (occs : List Occ) (O : ℕ → ℕ → ℂ),
    j ∉ occIdx occs → C09.TExp.free j (texp n χ₀ O occs) = true := by
  intro occs
  induction occs with
  | nil => intro O _; rfl
  | cons o rest ih =>
    intro O hj
    simp only [occIdx, List.map_cons, List.mem_cons, not_or] at hj
    have hr : j ∉ occIdx rest := hj.2
    have hne : (o.j != j) = true := by simpa using fun h : o.j = j => hj.1 h.symm
    simp only [texp, C09.TExp.free, ih _ hr, hne, Bool.and_self]

/-- **multi-affinity**: with distinct occurrence indices the expectation is affine in every pair -/
theorem texp_affine (n : ℕ) (χ₀ : ℕ → ℂ) (j : ℕ) : ∀ (occs : List Occ) (O : ℕ → ℕ → ℂ),
    (occIdx occs).Nodup → C09.TExp.affineIn j (texp n χ₀ O occs) = true := by
  intro occs
  induction occs with
  | nil => intro O _; rfl
  | cons o rest ih =>
    intro O hn
    simp only [occIdx, List.map_cons, List.nodup_cons] at hn
    simp only [texp, C09.TExp.affineIn, ih _ hn.2, Bool.true_and, Bool.and_true]
    by_cases e : o.j = j
    · subst e
      rw [texp_free n χ₀ o.j rest _ hn.1, texp_free n χ₀ o.j rest _ hn.1]
      simp
    · have hne : (o.j != j) = true := by simpa using e
      simp [C09.TExp.free, hne]

theorem texp_raws (n : ℕ) (χ₀ : ℕ → ℂ) : ∀ (occs : List Occ) (O : ℕ → ℕ → ℂ),
    ∀ j ∈ C09.TExp.raws (texp n χ₀ O occs), j ∈ occIdx occs := by
  intro occs
  induction occs with
  | nil => intro O j hj; simp [texp, C09.TExp.raws] at hj
  | cons o rest ih =>
    intro O j hj
    simp only [texp, C09.TExp.raws, List.mem_append, List.mem_singleton] at hj
    simp only [occIdx, List.map_cons, List.mem_cons]
    rcases hj with h | (h | h) | (h | h)
    · exact Or.inr (ih _ j h)
    · exact Or.inl h
    · exact Or.inr (ih _ j h)
    · exact Or.inl h
    · exact Or.inr (ih _ j h)

/-! ### §4  rotation gates -/

/-- kind of the generator of a rotation kind -/
def genKind : Kind → Kind
  | .RX => .X
  | .RY => .Y
  | .RZ => .Z
  | .PauliRotation => .Pauli
  | k => k

/-- the generator gate: same wires (and Pauli ids), the Pauli kind, no parameters -/
def genGate (g : Gate) : Gate := { g with kind := genKind g.kind, params := [] }

theorem genGate_wires (g : Gate) : (genGate g).wires = g.wires := rfl

/-- `e^{±iα/2}` of the gate's angle -/
theorem ph_pos (φ : ℕ → ℝ) (a : Angle) :
    eval zetaC (rhoC φ) (a.ph 1)
      = (Real.cos (angleValue φ a / 2) : ℂ) + Complex.I * (Real.sin (angleValue φ a / 2) : ℂ) := by
  rw [eval_ph_one zetaC_pow_eight, theta_complex]
  have : Complex.I * (angleValue φ a : ℂ) / 2 = ((angleValue φ a / 2 : ℝ) : ℂ) * Complex.I := by
    push_cast; ring
  rw [this, Complex.exp_mul_I, ← Complex.ofReal_cos, ← Complex.ofReal_sin]
  ring

theorem ph_neg (φ : ℕ → ℝ) (a : Angle) :
    eval zetaC (rhoC φ) (a.ph (-1))
      = (Real.cos (angleValue φ a / 2) : ℂ) - Complex.I * (Real.sin (angleValue φ a / 2) : ℂ) := by
  rw [eval_ph zetaC_pow_eight, theta_complex, zpow_neg, zpow_one, ← Complex.exp_neg]
  have : -(Complex.I * (angleValue φ a : ℂ) / 2) = ((-(angleValue φ a / 2) : ℝ) : ℂ) * Complex.I := by
    push_cast; ring
  rw [this, Complex.exp_mul_I, ← Complex.ofReal_cos, ← Complex.ofReal_sin, Real.cos_neg, Real.sin_neg]
  push_cast; ring

theorem sq2_sq : sq2 ^ 2 = 2 := by
  have := eval_sqrt2_sq (ζ := zetaC) (ρ := rhoC fun _ => 0) zetaC_pow_eight
  rw [eval_sqrt2_sq2] at this
  rw [pow_two]; exact this

/-- from the local matrices to the register -/
theorem rot_of_local (φ : ℕ → ℝ) (n : ℕ) (g p : Gate) (hw : p.wires = g.wires) (hnd : g.wires.Nodup)
    (hlt : ∀ w ∈ g.wires, w < n) (c s : ℂ)
    (hloc : ∀ a, a < 2 ^ g.wires.length → ∀ b, b < 2 ^ g.wires.length →
      evalMat zetaC (rhoC φ) g.localMat.m a b / sq2 ^ semK [g]
        = c * (if a = b then 1 else 0) - Complex.I * s * evalMat zetaC (rhoC φ) p.localMat.m a b)
    (r j : ℕ) (hr : r < 2 ^ n) (hj : j < 2 ^ n) :
    hop φ [g] r j = c * (if r = j then 1 else 0) - Complex.I * s * opC φ [p] r j := by
  unfold hop opC
  rw [semCirc_single n g hnd hlt r j hr hj, semCirc_single n p (hw ▸ hnd) (hw ▸ hlt) r j hr hj, hw]
  have hiff := eq_iff_ws n g.wires hnd hlt r j hr hj
  by_cases h1 : Gate.clearBits g.wires r = Gate.clearBits g.wires j
  · rw [if_pos h1, if_pos h1, hloc _ (locIdx_lt _ _) _ (locIdx_lt _ _)]
    by_cases h2 : Gate.locIdx g.wires r = Gate.locIdx g.wires j
    · rw [if_pos h2, if_pos (hiff.mpr ⟨h1, h2⟩)]
    · rw [if_neg h2, if_neg (fun h => h2 (hiff.mp h).2)]
  · rw [if_neg h1, if_neg h1, if_neg (fun h => h1 (hiff.mp h).1)]
    simp

/-- **RX, RY, RZ on any wire, any affine angle**: `hop [g] = cos(α/2)·1 − i·sin(α/2)·σ`, `α` the real value of
    the gate's angle, `σ` the Pauli gate on the same wire -/
theorem hop_rotation1 (φ : ℕ → ℝ) (n : ℕ) (g : Gate) (hk : g.kind = .RX ∨ g.kind = .RY ∨ g.kind = .RZ)
    (hc : g.controls = []) (q : ℕ) (ht : g.targets = [q]) (hq : q < n) (r j : ℕ) (hr : r < 2 ^ n)
    (hj : j < 2 ^ n) :
    hop φ [g] r j = rotM (opC φ [genGate g]) (angleValue φ (g.p 0)) r j := by
  have hwires : g.wires = [q] := by simp [Gate.wires, hc, ht]
  have hnd : g.wires.Nodup := by rw [hwires]; simp
  have hlt : ∀ w ∈ g.wires, w < n := by intro w hw; rw [hwires] at hw; simp at hw; omega
  have hv := ph_pos φ (g.p 0)
  have hw := ph_neg φ (g.p 0)
  have hI : Complex.I * Complex.I = -1 := Complex.I_mul_I
  have h4 : zetaC ^ 4 = Complex.I := zetaC_pow_four
  unfold rotM
  apply rot_of_local φ n g (genGate g) (genGate_wires g) hnd hlt _ _ _ r j hr hj
  intro a ha b hb
  rw [hwires] at ha hb
  have ha' : a < 2 := by simpa using ha
  have hb' : b < 2 := by simpa using hb
  rcases hk with hk | hk | hk
  · -- RX
    have hk2 : semK [g] = 2 := by simp [semK, Gate.localMat, hk]
    have hgen : (genGate g).localMat.m = [[[], Poly.one], [Poly.one, []]] := by
      unfold genGate Gate.localMat; simp [hk, genKind]
    rw [hk2, sq2_sq, evalMat_RX g hk a b ha' hb', hgen, hv, hw]
    rcases two_cases ha' with rfl | rfl <;> rcases two_cases hb' with rfl | rfl <;>
      simp [evalMat, evalRow, eval_one, eval_nil]
  · -- RY
    have hk2 : semK [g] = 2 := by simp [semK, Gate.localMat, hk]
    have hgen : (genGate g).localMat.m = [[[], Poly.neg Poly.I], [Poly.I, []]] := by
      unfold genGate Gate.localMat; simp [hk, genKind]
    have hloc : g.localMat.m = [[Poly.add (g.p 0).ph ((g.p 0).ph (-1)),
          Poly.mul Poly.I (Poly.sub (g.p 0).ph ((g.p 0).ph (-1)))],
        [Poly.neg (Poly.mul Poly.I (Poly.sub (g.p 0).ph ((g.p 0).ph (-1)))),
          Poly.add (g.p 0).ph ((g.p 0).ph (-1))]] := by
      unfold Gate.localMat; simp only [hk]
    rw [hk2, sq2_sq, hloc, hgen]
    rcases two_cases ha' with rfl | rfl <;> rcases two_cases hb' with rfl | rfl <;>
      simp [evalMat, evalRow, eval_add, eval_sub, eval_neg, eval_nil, eval_I,
        eval_mul zetaC_pow_eight (rhoC_ne_zero φ), hv, hw, h4] <;>
      ring
  · -- RZ
    have hk0 : semK [g] = 0 := by simp [semK, Gate.localMat, hk]
    have hgen : (genGate g).localMat.m = [[Poly.one, []], [[], Poly.neg Poly.one]] := by
      unfold genGate Gate.localMat; simp [hk, genKind]
    have hloc : g.localMat.m = [[(g.p 0).ph (-1), []], [[], (g.p 0).ph]] := by
      unfold Gate.localMat; simp only [hk]
    rw [hk0, pow_zero, div_one, hloc, hgen]
    rcases two_cases ha' with rfl | rfl <;> rcases two_cases hb' with rfl | rfl <;>
      simp [evalMat, evalRow, eval_neg, eval_one, eval_nil, hv, hw]

/-- **PauliRotation on any wires, any Pauli ids, any affine angle** -/
theorem hop_rotationP (φ : ℕ → ℝ) (n : ℕ) (g : Gate) (hk : g.kind = .PauliRotation)
    (hc : g.controls = []) (hnd : g.wires.Nodup) (hlt : ∀ w ∈ g.wires, w < n) (r j : ℕ)
    (hr : r < 2 ^ n) (hj : j < 2 ^ n) :
    hop φ [g] r j = rotM (opC φ [genGate g]) (angleValue φ (g.p 0)) r j := by
  have hk2 : semK [g] = 2 := by simp [semK, Gate.localMat, hk]
  have hgen : semCirc zetaC (rhoC φ) [genGate g]
      = semCirc zetaC (rhoC φ) [({ g with kind := .Pauli } : Gate)] := by
    unfold genGate; rw [hk]; rfl
  have hI : Complex.I * Complex.I = -1 := Complex.I_mul_I
  unfold hop rotM opC
  rw [hk2, sq2_sq, semCirc_pauliRot zetaC_pow_eight (rhoC_ne_zero φ) n g hk hnd hlt hc r j hr hj,
    ph_pos, ph_neg, hgen]
  unfold idMat
  by_cases e : r = j <;> simp [e] <;> ring

/-- a rotation gate of the vocabulary, well placed on `n` wires -/
def RotGate (n : ℕ) (g : Gate) : Prop :=
  g.controls = [] ∧
  (((g.kind = .RX ∨ g.kind = .RY ∨ g.kind = .RZ) ∧ ∃ q, g.targets = [q] ∧ q < n) ∨
   (g.kind = .PauliRotation ∧ g.wires.Nodup ∧ ∀ w ∈ g.wires, w < n))

/-- **(1) single-gate structure** -/
theorem hop_rotation (φ : ℕ → ℝ) (n : ℕ) (g : Gate) (hg : RotGate n g) (r j : ℕ) (hr : r < 2 ^ n)
    (hj : j < 2 ^ n) :
    hop φ [g] r j = rotM (opC φ [genGate g]) (angleValue φ (g.p 0)) r j := by
  obtain ⟨hc, h | h⟩ := hg
  · obtain ⟨hk, q, ht, hq⟩ := h
    exact hop_rotation1 φ n g hk hc q ht hq r j hr hj
  · exact hop_rotationP φ n g h.1 hc h.2.1 h.2.2 r j hr hj

end QV.MatSound
