import QuriVerif.Found.Proj
import QuriVerif.Model.C01
/-
  Helper lemmas for C01: soundness and termination of the adjacent-window fuser
  (`AdjacentGateFuser.__call__`), for every `is_target_sequence` / `fuse`.
-/
namespace QV.C01
open QV PhaseMonoid

variable {M : Type} [PhaseMonoid M] {G : Type}

theorem semList_congr_mid (sem : G → M) (ys a b zs : List G)
    (h : PhaseMonoid.equiv (semList sem a) (semList sem b)) :
    PhaseMonoid.equiv (semList sem (ys ++ (a ++ zs))) (semList sem (ys ++ (b ++ zs))) := by
  simp only [semList_append]
  exact mul_congr (mul_congr (equiv_refl _) h) (equiv_refl _)

/-- invariant of the window loop: `sem (ys ++ xs)` never changes (up to phase) -/
theorem fuserLoop_sound (sem : G → M) (k : Nat) (isT : List G → Bool) (fuse : List G → List G)
    (h : ∀ ts, isT ts = true → PhaseMonoid.equiv (semList sem (fuse ts)) (semList sem ts)) :
    ∀ fuel xs ys out, fuserLoop k isT fuse fuel xs ys = some out →
      PhaseMonoid.equiv (semList sem out) (semList sem (ys ++ xs)) := by
  intro fuel
  induction fuel with
  | zero => intro xs ys out e; simp [fuserLoop] at e
  | succ fuel ih =>
    intro xs ys out e
    unfold fuserLoop at e
    by_cases hk : k ≤ xs.length
    · simp only [hk, if_true] at e
      by_cases ht : isT (xs.take k) = true
      · simp only [ht, if_true] at e
        have h1 := ih _ _ _ e
        have h2 := semList_congr_mid sem ys (fuse (xs.take k)) (xs.take k) (xs.drop k) (h _ ht)
        rw [List.take_append_drop] at h2
        exact equiv_trans h1 h2
      · simp only [ht] at e
        cases xs with
        | nil =>
          simp at e
          subst e
          simp
          exact equiv_refl _
        | cons x rest =>
          simp at e
          have h1 := ih _ _ _ e
          simpa [List.append_assoc] using h1
    · simp only [hk, if_false] at e
      injection e with e
      subst e
      exact equiv_refl _

/-- termination: any potential that is additive, positive on single gates and
    strictly decreased by `fuse` bounds the number of iterations -/
theorem fuserLoop_terminates (k : Nat) (isT : List G → Bool) (fuse : List G → List G)
    (pot : List G → Nat)
    (pot_append : ∀ a b, pot (a ++ b) = pot a + pot b)
    (pot_cons : ∀ x rest, pot rest < pot (x :: rest))
    (shrink : ∀ ts, isT ts = true → ts.length = k → pot (fuse ts) < pot ts) :
    ∀ fuel xs ys, pot xs < fuel → (fuserLoop k isT fuse fuel xs ys).isSome = true := by
  intro fuel
  induction fuel with
  | zero => intro xs ys h; omega
  | succ fuel ih =>
    intro xs ys hlt
    unfold fuserLoop
    by_cases hk : k ≤ xs.length
    · simp only [hk, if_true]
      by_cases ht : isT (xs.take k) = true
      · simp only [ht, if_true]
        apply ih
        have hl : (xs.take k).length = k := by simp [List.length_take]; omega
        have h1 := shrink _ ht hl
        have h2 : pot xs = pot (xs.take k) + pot (xs.drop k) := by
          rw [← pot_append, List.take_append_drop]
        rw [pot_append]
        omega
      · simp only [ht]
        cases xs with
        | nil => simp
        | cons x rest =>
          simp
          apply ih
          have := pot_cons x rest
          omega
    · simp [hk]

/-! instances -/

theorem rotFuse_shrinks (ts : List NGate) (h : rotIsTarget ts = true) :
    (rotFuse ts).length < ts.length := by
  match ts, h with
  | [l, r], _ => simp [rotFuse]

/-- `FuseRotationTranspiler` always terminates with the fuel the model uses -/
theorem fuseRotPass_total (c : List NGate) : (fuseRotPass c).isSome = true := by
  unfold fuseRotPass
  apply fuserLoop_terminates 2 rotIsTarget rotFuse List.length
  · intro a b; simp
  · intro x rest; simp
  · intro ts ht _; exact rotFuse_shrinks ts ht
  · omega

def chcPot (c : List NGate) : Nat := c.length + 5 * countKind .CNOT c

theorem chcPot_append (a b : List NGate) : chcPot (a ++ b) = chcPot a + chcPot b := by
  simp [chcPot, countKind, List.filter_append]; omega

theorem chcPot_cons (x : NGate) (rest : List NGate) : chcPot rest < chcPot (x :: rest) := by
  simp [chcPot, countKind, List.filter_cons]
  split <;> simp <;> omega

theorem chc_target_pot (ts : List NGate) (h : chcIsTarget ts = true) : chcPot ts = 13 := by
  match ts, h with
  | [a, b, c], h =>
    simp [chcIsTarget] at h
    obtain ⟨⟨⟨⟨⟨ha, hb⟩, hc⟩, _⟩, _⟩, _⟩ := h
    simp [chcPot, countKind, ha, hb, hc]

theorem instantiate_length (t : Template) (g : NGate) : (instantiate t g).length = t.body.length := by
  simp [instantiate]

theorem instantiate_count (t : Template) (g : NGate) (k : Kind) :
    countKind k (instantiate t g) = (t.body.filter (·.kind == k)).length := by
  simp only [instantiate, countKind, List.filter_map, List.length_map]
  rfl

/-- `CNOTHCNOTFusingTranspiler` terminates for every template that has fewer than
    13 potential (7 gates, one CNOT for the shipped one) -/
theorem fuseCHCPass_total (tpl : Template)
    (htpl : tpl.body.length + 5 * (tpl.body.filter (·.kind == .CNOT)).length < 13)
    (c : List NGate) : (fuseCHCPass tpl c).isSome = true := by
  unfold fuseCHCPass
  apply fuserLoop_terminates 3 chcIsTarget (chcFuse tpl) chcPot chcPot_append chcPot_cons
  · intro ts ht _
    rw [chc_target_pot ts ht]
    match ts, ht with
    | a :: _, _ =>
      simp only [chcFuse, chcPot, instantiate_length, instantiate_count]
      exact htpl
  · simp [chcPot]

end QV.C01
