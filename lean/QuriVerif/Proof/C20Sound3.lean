import QuriVerif.Proof.C20Sound2
/-
  C20 — alias-free configurations, last part: state operations, the step and run theorems.
-/
set_option linter.unusedSimpArgs false
namespace QV.C20

theorem copyRef_f {cfg : Cfg} (hs : cfg.sound = true) {s : St} (hI : Inv s) (hF : FInv s) {r : Ref} (hr : RefOK s r) :
    FInv (copyRef cfg s r).1 := by
  cases r with
  | r a => exact copyR_f hs hI hF a
  | l l => exact copyL_f hs hI hF hr

theorem ss_stApply {cfg : Cfg} (hs : cfg.sound = true) {s : St} (hI : Inv s) (hF : FInv s) (h : Nat) (gs : List G) :
    SSim cfg s (.stApply h gs) := by
  have hb := sound_base hs
  simp only [SSim, step, Op.target]
  by_cases hh : h < s.nH
  · cases e : s.hs h with
    | c r => simp only [hh, e, if_true]; exact ⟨by trivial, hF⟩
    | s r =>
      have hr := refOK_of_handle hI hh (.inr e)
      simp only [hh, e, if_true]
      by_cases hk : (s.readRef r).kind = 0
      · simp only [hk, if_true]
        cases hc : combineV (s.readRef r) (.inr gs) with
        | error er => exact ⟨by trivial, hF⟩
        | ok res =>
          simp only []
          rw [combineMeta_imm hs]
          have hd := fun n hn => combineMeta_dc hb hI hr res n hn
          have hD := allocCV_spec hI res (combineV_wf hc) false (combineMeta cfg s r (s.readRef r) res).2 hd
          have hF1 := allocCV_f hI hF res (combineMeta cfg s r (s.readRef r) res).2 hd
          obtain ⟨f1, f2, f3⟩ := freezeRef_f hs hD.inv hF1 (handout_refOK hD.ho)
          exact ⟨f2, push_s_f _ f1 f3⟩
      · simp only [hk, if_false]
        have hD := copyRef_spec cfg hI hr
        have hFc := copyRef_f hs hI hF hr
        generalize copyRef cfg s r = c at hD hFc ⊢
        have hmu : c.1.refMut c.2 = true := by rw [← refMut_readRef, hD.rd]; exact copyV_mu _
        obtain ⟨w1, _, _, _, _, w6, w7, _, _, _⟩ := writeRef_spec hb hD.inv (handout_refOK hD.ho)
          (excl_of_handout hD.inv hD.ho hmu) (extendV (c.1.readRef c.2) (.inr gs) false).1
        have hF2 := writeRef_f cfg hFc c.2 (extendV (c.1.readRef c.2) (.inr gs) false).1
        cases (extendV (c.1.readRef c.2) (.inr gs) false).2 with
        | some er => exact ⟨by trivial, hF2⟩
        | none =>
          simp only []
          obtain ⟨f1, f2, f3⟩ := freezeRef_f hs w1 hF2 (RefOK_congr w6 w7 (handout_refOK hD.ho))
          exact ⟨f2, push_s_f _ f1 f3⟩
  · simp only [hh, if_false]; exact ⟨by trivial, hF⟩

theorem freeze2_f {cfg : Cfg} (hs : cfg.sound = true) {s : St} (hI : Inv s) (hF : FInv s) {a : Nat} (ha : a < s.nR) :
    ((freezeR cfg (freezeR cfg s a).1 (freezeR cfg s a).2).2 != a || !s.rMut a) = true ∧
    FInv (freezeR cfg (freezeR cfg s a).1 (freezeR cfg s a).2).1 ∧
    (freezeR cfg (freezeR cfg s a).1 (freezeR cfg s a).2).1.rMut (freezeR cfg (freezeR cfg s a).1 (freezeR cfg s a).2).2 = false := by
  obtain ⟨f1, s1⟩ := freezeR_f hs hI hF ha
  obtain ⟨h1, h2, _⟩ := freezeR_spec cfg hI ha
  obtain ⟨f2, s2⟩ := freezeR_f hs h1.inv f1 h2
  obtain ⟨_, _, g3⟩ := freezeR_spec cfg h1.inv h2
  refine ⟨?_, f2, (g3 s2).1⟩
  by_cases hm : s.rMut a = true
  · have hne : (freezeR cfg s a).2 ≠ a := by
      intro e; rw [e, hm] at s1; simp at s1
    have h1R := h1.fr.nR
    cases freezeR_addr cfg (freezeR cfg s a).1 (freezeR cfg s a).2 with
    | inl e => simp [e, hne]
    | inr e =>
      have : (freezeR cfg s a).1.nR ≠ a := by omega
      simp [e, this]
  · have : s.rMut a = false := by simpa using hm
    simp [this]

theorem ss_stPrim {cfg : Cfg} (hs : cfg.sound = true) {s : St} (hI : Inv s) (hF : FInv s) (h : Nat) :
    SSim cfg s (.stPrim h) := by
  simp only [SSim, step, Op.target]
  by_cases hh : h < s.nH
  · cases e : s.hs h with
    | c r => simp only [hh, e, if_true]; exact ⟨by trivial, hF⟩
    | s r =>
      have hr := refOK_of_handle hI hh (.inr e)
      cases r with
      | r a =>
        simp only [hh, e, if_true]
        by_cases hp : (s.rs a).v.cls.par = true
        · simp only [hp, if_true]
          obtain ⟨x1, x2, x3⟩ := freeze2_f hs hI hF hr
          exact ⟨x1, push_s_f _ x2 (by simpa [St.refMut] using x3)⟩
        · simp only [hp]; exact ⟨by trivial, hF⟩
      | l l =>
        simp only [hh, e, if_true]
        obtain ⟨x1, x2, x3⟩ := freeze2_f hs hI hF (hI.b2 l hr)
        exact ⟨x1, push_s_f _ x2 (by simpa [St.refMut] using x3)⟩
  · simp only [hh, if_false]; exact ⟨by trivial, hF⟩

/-- reading `unbound_param_circuit` is the one operation the refinement theorems leave out -/
def Op.isGetUnbound : Op → Bool
  | .getUnbound _ => true
  | _ => false

theorem step_sound {cfg : Cfg} (hs : cfg.sound = true) {s : St} (hI : Inv s) (hF : FInv s) (op : Op)
    (hop : op.isGetUnbound = false) : SSim cfg s op := by
  cases op with
  | newC n => exact ss_newC hs hI hF n
  | newP n => exact ss_newP hs hI hF n
  | newL n => exact ss_newL hs hI hF n
  | addGate h g idx => exact ss_mut hF _ h rfl
  | addPar h k qs => exact ss_mut hF _ h rfl
  | addParL h k qs b ts => exact ss_mut hF _ h rfl
  | addParams h c => exact ss_mut hF _ h rfl
  | extend h src => exact ss_mut hF _ h rfl
  | freeze h => exact ss_freeze hs hI hF h
  | mutCopy h => exact ss_mutCopy hs hI hF h
  | immCtor h => exact ss_immCtor hs hI hF h
  | primitive h => exact ss_primitive hs hI hF h
  | combine h src => exact ss_combine hs hI hF h src
  | bind h vals => exact ss_bind hs hI hF h vals
  | getUnbound h => cases hop
  | mkState h => exact ss_mkState hs hI hF h
  | stCircuit h => exact ss_stCircuit hF h
  | stApply h gs => exact ss_stApply hs hI hF h gs
  | stBind h vals => exact ss_stBind hs hI hF h vals
  | stPrim h => exact ss_stPrim hs hI hF h
  | obs h => exact ss_obs hF h
  | depth h => exact ss_depth hF h
  | eq h j => exact ss_eq hF h j

theorem run_sound {cfg : Cfg} (hs : cfg.sound = true) (ops : List Op) {s : St} {t : Sp} (hI : Inv s) (hF : FInv s)
    (hR : Rel s t) (hop : ∀ op, op ∈ ops → op.isGetUnbound = false) : (run cfg s ops).safe = true := by
  induction ops generalizing s t with
  | nil => rfl
  | cons op ops ih =>
    obtain ⟨s1, f1⟩ := step_sound hs hI hF op (hop op List.mem_cons_self)
    obtain ⟨i1, r1, _⟩ := step_sim (sound_base hs) hI hR op s1
    simp only [run, Bool.and_eq_true]
    exact ⟨s1, ih i1 f1 r1 (fun o ho => hop o (List.mem_cons_of_mem _ ho))⟩

end QV.C20
