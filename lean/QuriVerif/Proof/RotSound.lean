import QuriVerif.Proof.PauliSound
import Mathlib.Tactic.LinearCombination
/-
  `PauliRotationDecomposeTranspiler` (generic field part): for every number of targets,
      basis changes · CNOT ladder · RZ(θ) · CNOT ladder · inverse basis changes
  has the operator of the `PauliRotation` gate up to a non-zero scalar.

    * §A  gates on disjoint wires commute (`embedAct_comm`, `actCirc_comm`);
    * §B  exact scalar relations between gate lists, contexts (`SEq`), linear combinations;
    * §C  columns with arbitrary amplitudes (`IsCol`): CNOT, RZ, Z lists, the ladder, the middle part
          `ladder · RZ · ladder` is diagonal (`middle_col`);
    * §D  single-wire conjugations (H·H, H·Z·H, RX·RX, RX·Z·RX) and the basis layer (`layer_ok`);
    * §E  the local matrix of `PauliRotation` (`semCirc_pauliRot`);
    * §F  assembly: `pauliRot_dec_ok`.
-/
namespace QV.MatSound
open QV QV.Poly QV.C01 QV.C16

variable {K : Type} [Field K] {ζ : K} {ρ : ℕ → K}

/-! ## A. commutation of gates on disjoint wires -/

/-- bit `v` of the row `clearBits ws x + spread ws l`, case `v ∈ ws` -/
theorem place_bit_mem (n : ℕ) (ws : List ℕ) (x l : ℕ) (hnd : ws.Nodup) (hw : ∀ w ∈ ws, w < n)
    (hx : x < 2 ^ n) {v : ℕ} (hv : v ∈ ws) :
    ∃ i, i < ws.length ∧ ws.getD i 0 = v ∧
      Gate.bitAt (Gate.clearBits ws x + Gate.spread ws l) v = Gate.bitAt l i := by
  obtain ⟨i, hi, rfl⟩ := exists_getD_of_mem ws hv
  exact ⟨i, hi, rfl, (place_spec n ws x l hnd hw hx).2.1 i hi⟩

/-- the local index on `ws1` is not affected by re-placing the bits of a disjoint `ws2` -/
theorem locIdx_other (n : ℕ) (ws1 ws2 : List ℕ) (r l2 : ℕ) (hnd2 : ws2.Nodup)
    (hw2 : ∀ w ∈ ws2, w < n) (hdis : ∀ w ∈ ws1, w ∉ ws2) (hr : r < 2 ^ n) :
    Gate.locIdx ws1 (Gate.clearBits ws2 r + Gate.spread ws2 l2) = Gate.locIdx ws1 r := by
  apply bitAt_ext ws1.length _ _ (locIdx_lt _ _) (locIdx_lt _ _)
  intro i hi
  rw [bitAt_locIdx, bitAt_locIdx, if_pos hi, if_pos hi]
  exact (place_spec n ws2 r l2 hnd2 hw2 hr).2.2 _ (hdis _ (getD_mem ws1 hi))

/-- re-placing the bits of two disjoint wire lists in either order gives the same row -/
theorem swap_place (n : ℕ) (ws1 ws2 : List ℕ) (r l1 l2 : ℕ) (hnd1 : ws1.Nodup)
    (hw1 : ∀ w ∈ ws1, w < n) (hnd2 : ws2.Nodup) (hw2 : ∀ w ∈ ws2, w < n)
    (hdis : ∀ w ∈ ws1, w ∉ ws2) (hr : r < 2 ^ n) :
    Gate.clearBits ws1 (Gate.clearBits ws2 r + Gate.spread ws2 l2) + Gate.spread ws1 l1
      = Gate.clearBits ws2 (Gate.clearBits ws1 r + Gate.spread ws1 l1) + Gate.spread ws2 l2 := by
  obtain ⟨a1, a2, a3⟩ := place_spec n ws1 r l1 hnd1 hw1 hr
  obtain ⟨b1, b2, b3⟩ := place_spec n ws2 r l2 hnd2 hw2 hr
  obtain ⟨c1, c2, c3⟩ := place_spec n ws1 _ l1 hnd1 hw1 b1
  obtain ⟨d1, d2, d3⟩ := place_spec n ws2 _ l2 hnd2 hw2 a1
  apply bitAt_ext n _ _ c1 d1
  intro v _
  by_cases h1 : v ∈ ws1
  · obtain ⟨i, hi, rfl⟩ := exists_getD_of_mem ws1 h1
    rw [c2 i hi, d3 _ (hdis _ h1), a2 i hi]
  · rw [c3 v h1]
    by_cases h2 : v ∈ ws2
    · obtain ⟨i, hi, rfl⟩ := exists_getD_of_mem ws2 h2
      rw [b2 i hi, d2 i hi]
    · rw [b3 v h2, d3 v h2, a3 v h1]

/-- **two embedded gates on disjoint wires commute** (on the rows `< 2^n`) -/
theorem embedAct_comm (n : ℕ) (L1 L2 : ℕ → ℕ → K) (ws1 ws2 : List ℕ) (A : ℕ → ℕ → K) (r j : ℕ)
    (hnd1 : ws1.Nodup) (hw1 : ∀ w ∈ ws1, w < n) (hnd2 : ws2.Nodup) (hw2 : ∀ w ∈ ws2, w < n)
    (hdis : ∀ w ∈ ws1, w ∉ ws2) (hr : r < 2 ^ n) :
    embedAct L2 ws2 (embedAct L1 ws1 A) r j = embedAct L1 ws1 (embedAct L2 ws2 A) r j := by
  have hdis' : ∀ w ∈ ws2, w ∉ ws1 := fun w h2 h1 => hdis w h1 h2
  unfold embedAct
  have e1 : ∀ l2 ∈ List.range (2 ^ ws2.length),
      L2 (Gate.locIdx ws2 r) l2 * ((List.range (2 ^ ws1.length)).map fun l1 =>
        L1 (Gate.locIdx ws1 (Gate.clearBits ws2 r + Gate.spread ws2 l2)) l1 *
          A (Gate.clearBits ws1 (Gate.clearBits ws2 r + Gate.spread ws2 l2) + Gate.spread ws1 l1) j).sum
      = ((List.range (2 ^ ws1.length)).map fun l1 => L1 (Gate.locIdx ws1 r) l1 *
          (L2 (Gate.locIdx ws2 r) l2 *
            A (Gate.clearBits ws2 (Gate.clearBits ws1 r + Gate.spread ws1 l1) + Gate.spread ws2 l2) j)).sum := by
    intro l2 _
    rw [locIdx_other n ws1 ws2 r l2 hnd2 hw2 hdis hr, ← sum_map_mul_left]
    congr 1
    apply List.map_congr_left
    intro l1 _
    rw [swap_place n ws1 ws2 r l1 l2 hnd1 hw1 hnd2 hw2 hdis hr]
    ring
  have e2 : ∀ l1 ∈ List.range (2 ^ ws1.length),
      L1 (Gate.locIdx ws1 r) l1 * ((List.range (2 ^ ws2.length)).map fun l2 =>
        L2 (Gate.locIdx ws2 (Gate.clearBits ws1 r + Gate.spread ws1 l1)) l2 *
          A (Gate.clearBits ws2 (Gate.clearBits ws1 r + Gate.spread ws1 l1) + Gate.spread ws2 l2) j).sum
      = ((List.range (2 ^ ws2.length)).map fun l2 => L1 (Gate.locIdx ws1 r) l1 *
          (L2 (Gate.locIdx ws2 r) l2 *
            A (Gate.clearBits ws2 (Gate.clearBits ws1 r + Gate.spread ws1 l1) + Gate.spread ws2 l2) j)).sum := by
    intro l1 _
    rw [locIdx_other n ws2 ws1 r l1 hnd1 hw1 hdis' hr, ← sum_map_mul_left]
  rw [List.map_congr_left e1, List.map_congr_left e2, sum_map_comm]

/-- one gate as an operator on operators -/
def gateAct (ζ : K) (ρ : ℕ → K) (g : Gate) (A : ℕ → ℕ → K) : ℕ → ℕ → K :=
  embedAct (evalMat ζ ρ g.localMat.m) g.wires A

theorem actCirc_cons' (g : Gate) (gs : List Gate) (A : ℕ → ℕ → K) :
    actCirc ζ ρ (g :: gs) A = actCirc ζ ρ gs (gateAct ζ ρ g A) := rfl

/-- wire-disjointness of two gate lists -/
def DisjointWires (X R : List Gate) : Prop := ∀ g ∈ X, ∀ h ∈ R, ∀ w ∈ g.wires, w ∉ h.wires

theorem actCirc_gate_comm (n : ℕ) (g : Gate) (R : List Gate) (wfg : WellFormed n [g])
    (wfR : WellFormed n R) (hd : DisjointWires [g] R) (j : ℕ) :
    ∀ (A : ℕ → ℕ → K) (r : ℕ), r < 2 ^ n →
      actCirc ζ ρ R (gateAct ζ ρ g A) r j = gateAct ζ ρ g (actCirc ζ ρ R A) r j := by
  induction R with
  | nil => intro A r _; rfl
  | cons h R ih =>
    intro A r hr
    have wg := wfg g (by simp)
    have wh := wfR h (by simp)
    have wfR' : WellFormed n R := fun x hx => wfR x (by simp [hx])
    have hd' : DisjointWires [g] R := fun a ha b hb => hd a ha b (by simp [hb])
    rw [actCirc_cons', actCirc_cons']
    rw [actCirc_congr n R wfR' j (gateAct ζ ρ h (gateAct ζ ρ g A)) (gateAct ζ ρ g (gateAct ζ ρ h A))
      (fun r' hr' => embedAct_comm n _ _ g.wires h.wires A r' j wg.1 wg.2 wh.1 wh.2
        (hd g (by simp) h (by simp)) hr') r hr]
    exact ih wfR' hd' _ r hr

/-- **gate lists on disjoint wires commute** -/
theorem actCirc_comm (n : ℕ) (X R : List Gate) (wfX : WellFormed n X) (wfR : WellFormed n R)
    (hd : DisjointWires X R) (j : ℕ) :
    ∀ (A : ℕ → ℕ → K) (r : ℕ), r < 2 ^ n →
      actCirc ζ ρ (X ++ R) A r j = actCirc ζ ρ (R ++ X) A r j := by
  induction X with
  | nil => intro A r _; simp
  | cons g X ih =>
    intro A r hr
    have wfX' : WellFormed n X := fun x hx => wfX x (by simp [hx])
    have wfg : WellFormed n [g] := fun x hx => wfX x (by simp at hx; simp [hx])
    have hd' : DisjointWires X R := fun a ha => hd a (by simp [ha])
    have hdg : DisjointWires [g] R := fun a ha => hd a (by simp at ha; simp [ha])
    rw [List.cons_append, actCirc_cons', ih wfX' hd' _ r hr, actCirc_append, actCirc_append,
      actCirc_cons']
    exact actCirc_congr n X wfX' j _ _
      (fun r' hr' => actCirc_gate_comm n g R wfg wfR hdg j A r' hr') r hr

/-! ## B. exact scalar relations, contexts, linear combinations -/

variable (ζ ρ) in
/-- `⟦b⟧ = z·⟦a⟧` on the `2^n × 2^n` block (no condition on `z`) -/
def SEq (n : ℕ) (z : K) (a b : List Gate) : Prop :=
  ∀ r, r < 2 ^ n → ∀ j, j < 2 ^ n → semCirc ζ ρ b r j = z * semCirc ζ ρ a r j

theorem SEq.refl (n : ℕ) (a : List Gate) : SEq ζ ρ n 1 a a := fun _ _ _ _ => (one_mul _).symm

theorem SEq.trans {n : ℕ} {z1 z2 : K} {a b c : List Gate} (h1 : SEq ζ ρ n z1 a b)
    (h2 : SEq ζ ρ n z2 b c) : SEq ζ ρ n (z2 * z1) a c :=
  fun r hr j hj => by rw [h2 r hr j hj, h1 r hr j hj, mul_assoc]

theorem SEq.context {n : ℕ} {z : K} (pre post : List Gate) {a b : List Gate}
    (ha : WellFormed n a) (hb : WellFormed n b) (hpost : WellFormed n post)
    (h : SEq ζ ρ n z a b) : SEq ζ ρ n z (pre ++ a ++ post) (pre ++ b ++ post) :=
  fun r hr j _ => replace_sound n pre b a post hb ha hpost z h r hr j

theorem SEq.comm (n : ℕ) (X R : List Gate) (wfX : WellFormed n X) (wfR : WellFormed n R)
    (hd : DisjointWires X R) : SEq ζ ρ n 1 (X ++ R) (R ++ X) :=
  fun r hr j _ => by
    rw [one_mul]
    exact (actCirc_comm n X R wfX wfR hd j idMat r hr).symm

theorem embedAct_add (L : ℕ → ℕ → K) (ws : List ℕ) (A B : ℕ → ℕ → K) :
    embedAct L ws (fun r j => A r j + B r j)
      = fun r j => embedAct L ws A r j + embedAct L ws B r j := by
  funext r j
  unfold embedAct
  rw [← sum_map_add']
  congr 1
  apply List.map_congr_left
  intro l _
  ring

theorem actCirc_add (gs : List Gate) : ∀ A B : ℕ → ℕ → K,
    actCirc ζ ρ gs (fun r j => A r j + B r j)
      = fun r j => actCirc ζ ρ gs A r j + actCirc ζ ρ gs B r j := by
  induction gs with
  | nil => intro A B; rfl
  | cons g gs ih => intro A B; rw [actCirc_cons, embedAct_add, ih]; rfl

/-- a linear relation between the operators of three gate lists survives any context -/
theorem lincomb_context (n : ℕ) (pre mid m1 m2 post : List Gate) (wfm : WellFormed n mid)
    (wf1 : WellFormed n m1) (wf2 : WellFormed n m2) (wfp : WellFormed n post) (κ a b : K)
    (h : ∀ r, r < 2 ^ n → ∀ k, k < 2 ^ n →
      κ * semCirc ζ ρ mid r k = a * semCirc ζ ρ m1 r k + b * semCirc ζ ρ m2 r k) :
    ∀ r, r < 2 ^ n → ∀ j, κ * semCirc ζ ρ (pre ++ mid ++ post) r j
      = a * semCirc ζ ρ (pre ++ m1 ++ post) r j + b * semCirc ζ ρ (pre ++ m2 ++ post) r j := by
  intro r hr j
  simp only [semCirc_append]
  have hmid : ∀ r, r < 2 ^ n → (fun r j => κ * actCirc ζ ρ mid (semCirc ζ ρ pre) r j) r j
      = (fun r j => a * actCirc ζ ρ m1 (semCirc ζ ρ pre) r j
          + b * actCirc ζ ρ m2 (semCirc ζ ρ pre) r j) r j := by
    intro r hr
    show κ * actCirc ζ ρ mid (semCirc ζ ρ pre) r j = a * actCirc ζ ρ m1 (semCirc ζ ρ pre) r j
      + b * actCirc ζ ρ m2 (semCirc ζ ρ pre) r j
    rw [actCirc_eq_sum n mid wfm _ r j hr, actCirc_eq_sum n m1 wf1 _ r j hr,
      actCirc_eq_sum n m2 wf2 _ r j hr, ← sum_map_mul_left, ← sum_map_mul_left,
      ← sum_map_mul_left, ← sum_map_add']
    congr 1
    apply List.map_congr_left
    intro k hk
    have := h r hr k (List.mem_range.mp hk)
    rw [← mul_assoc, this]
    ring
  have := actCirc_congr (ζ := ζ) (ρ := ρ) n post wfp j
    (fun r j => κ * actCirc ζ ρ mid (semCirc ζ ρ pre) r j)
    (fun r j => a * actCirc ζ ρ m1 (semCirc ζ ρ pre) r j
      + b * actCirc ζ ρ m2 (semCirc ζ ρ pre) r j) hmid r hr
  rw [actCirc_smul, actCirc_add, actCirc_smul, actCirc_smul] at this
  exact this

/-! ## C. columns with arbitrary amplitudes -/

variable (ζ ρ) in
/-- column `b` of the operator of `gs` is `amp · e_{b'}` -/
def IsCol (n : ℕ) (gs : List Gate) (b b' : ℕ) (amp : K) : Prop :=
  b' < 2 ^ n ∧ ∀ r, r < 2 ^ n → semCirc ζ ρ gs r b = if r = b' then amp else 0

theorem IsCol.nil (n b : ℕ) (hb : b < 2 ^ n) : IsCol ζ ρ n [] b b 1 :=
  ⟨hb, fun _ _ => rfl⟩

theorem IsCol.append {n : ℕ} {A B : List Gate} {b b1 b2 : ℕ} {α β : K}
    (hA : IsCol ζ ρ n A b b1 α) (hB : IsCol ζ ρ n B b1 b2 β) (wfB : WellFormed n B) :
    IsCol ζ ρ n (A ++ B) b b2 (α * β) := by
  refine ⟨hB.1, fun r hr => ?_⟩
  rw [semCirc_append, actCirc_eq_sum n B wfB _ r _ hr]
  rw [List.map_congr_left (g := fun k => semCirc ζ ρ B r k * (if k = b1 then α else 0))
    (fun k hk => by rw [hA.2 k (List.mem_range.mp hk)])]
  rw [sum_ite_right _ _ hA.1, hB.2 r hr]
  by_cases e : r = b2
  · rw [if_pos e, if_pos e, mul_comm]
  · rw [if_neg e, if_neg e, zero_mul]

theorem IsCol.congr_amp {n : ℕ} {A : List Gate} {b b' : ℕ} {α β : K} (h : IsCol ζ ρ n A b b' α)
    (e : α = β) : IsCol ζ ρ n A b b' β := e ▸ h

/-- flipping a bit inside `ws` does not change the part outside `ws` -/
theorem clearBits_flip_mem (n : ℕ) (ws : List ℕ) (x t : ℕ) (hnd : ws.Nodup) (hw : ∀ w ∈ ws, w < n)
    (hx : x < 2 ^ n) (ht : t ∈ ws) : Gate.clearBits ws (x ^^^ 2 ^ t) = Gate.clearBits ws x := by
  have hx' := flip_lt n x t hx (hw t ht)
  apply bitAt_ext n _ _ (clearBits_lt n _ _ hnd hw hx') (clearBits_lt n _ _ hnd hw hx)
  intro v _
  rw [bitAt_clearBits n _ _ hnd hw hx', bitAt_clearBits n _ _ hnd hw hx, bitAt_flip]
  by_cases e : v ∈ ws
  · rw [if_pos e, if_pos e]
  · have : v ≠ t := fun h => e (h ▸ ht)
    rw [if_neg e, if_neg e, if_neg this]

theorem locIdx_pair (c t x : ℕ) : Gate.locIdx [c, t] x = Gate.bitAt x c + 2 * Gate.bitAt x t := by
  rw [locIdx_val]; simp [val]; ring

/-- the basis state a CNOT maps `|b⟩` to -/
def cnotOut (c t b : ℕ) : ℕ := if Gate.bitAt b c = 1 then b ^^^ 2 ^ t else b

theorem cnotOut_lt (n c t b : ℕ) (hb : b < 2 ^ n) (ht : t < n) : cnotOut c t b < 2 ^ n := by
  unfold cnotOut; split
  · exact flip_lt n b t hb ht
  · exact hb

theorem bitAt_cnotOut (c t b v : ℕ) : Gate.bitAt (cnotOut c t b) v
    = if v = t then (Gate.bitAt b t + Gate.bitAt b c) % 2 else Gate.bitAt b v := by
  have h1 := bitAt_le_one b c
  have h2 := bitAt_le_one b t
  unfold cnotOut
  by_cases hc : Gate.bitAt b c = 1
  · rw [if_pos hc, bitAt_flip]
    by_cases e : v = t
    · rw [if_pos e, if_pos e, hc]; omega
    · rw [if_neg e, if_neg e]
  · have hc0 : Gate.bitAt b c = 0 := by omega
    rw [if_neg hc]
    by_cases e : v = t
    · rw [if_pos e, e, hc0]; omega
    · rw [if_neg e]

/-- column `b` of a CNOT -/
theorem col_cnot (n c t : ℕ) (hct : c ≠ t) (hc : c < n) (ht : t < n) (b : ℕ) (hb : b < 2 ^ n) :
    IsCol ζ ρ n [G .CNOT [c] [t]] b (cnotOut c t b) 1 := by
  have hnd : [c, t].Nodup := by simp [hct]
  have hw : ∀ w ∈ [c, t], w < n := by intro w h; simp at h; rcases h with rfl | rfl <;> assumption
  have hb' := cnotOut_lt n c t b hb ht
  refine ⟨hb', fun r hr => ?_⟩
  have hwires : (G .CNOT [c] [t] : Gate).wires = [c, t] := rfl
  rw [semCirc_single n _ (by rw [hwires]; exact hnd) (by rw [hwires]; exact hw) r b hr hb, hwires]
  have hla : Gate.locIdx [c, t] r < 4 := by have := locIdx_lt [c, t] r; simpa using this
  have hlb : Gate.locIdx [c, t] b < 4 := by have := locIdx_lt [c, t] b; simpa using this
  have hL : evalMat ζ ρ (G .CNOT [c] [t] : Gate).localMat.m (Gate.locIdx [c, t] r)
      (Gate.locIdx [c, t] b)
      = if Gate.locIdx [c, t] r = Gate.locIdx [c, t] b % 2
          + 2 * ((Gate.locIdx [c, t] b / 2 + Gate.locIdx [c, t] b % 2) % 2) then 1 else 0 := by
    have : (G .CNOT [c] [t] : Gate).localMat.m = Mat.ofFn 4 4 fun r c =>
        if r == (c % 2) + 2 * ((c / 2 + c % 2) % 2) then Poly.one else [] := rfl
    rw [this, evalMat_ofFn 4 _ _ _ hla hlb]
    split <;> rename_i h
    · rw [if_pos (by simpa using h), eval_one]
    · rw [if_neg (by simpa using h), eval_nil]
  rw [hL]
  -- the target local index is the local index of `cnotOut`
  have g1 := bitAt_le_one b c
  have g2 := bitAt_le_one b t
  have hli : Gate.locIdx [c, t] (cnotOut c t b) = Gate.locIdx [c, t] b % 2
      + 2 * ((Gate.locIdx [c, t] b / 2 + Gate.locIdx [c, t] b % 2) % 2) := by
    rw [locIdx_pair, locIdx_pair, bitAt_cnotOut, bitAt_cnotOut, if_neg hct, if_pos rfl]
    omega
  have hcb : Gate.clearBits [c, t] (cnotOut c t b) = Gate.clearBits [c, t] b := by
    unfold cnotOut; split
    · exact clearBits_flip_mem n [c, t] b t hnd hw hb (by simp)
    · rfl
  have hiff := eq_iff_ws n [c, t] hnd hw r (cnotOut c t b) hr hb'
  rw [hcb, hli] at hiff
  by_cases h1 : Gate.clearBits [c, t] r = Gate.clearBits [c, t] b
  · rw [if_pos h1]
    split <;> rename_i h2
    · rw [if_pos (hiff.mpr ⟨h1, h2⟩)]
    · rw [if_neg (fun h => h2 (hiff.mp h).2)]
  · rw [if_neg h1, if_neg (fun h => h1 (hiff.mp h).1)]

/-- column `b` of a `Z` gate -/
theorem col_z (n q : ℕ) (hq : q < n) (b : ℕ) (hb : b < 2 ^ n) :
    IsCol ζ ρ n [G .Z [] [q]] b b (if Gate.bitAt b q = 0 then 1 else -1) :=
  ⟨hb, fun r hr => col_diag n q _ rfl hq (fun c => if c = 0 then 1 else -1) (evalMat_Z q) r b hr hb⟩

/-- column `b` of an `RZ` gate with arbitrary (affine) angle -/
theorem col_rz (n q : ℕ) (hq : q < n) (g : Gate) (hk : g.kind = .RZ) (hw : g.wires = [q])
    (b : ℕ) (hb : b < 2 ^ n) :
    IsCol ζ ρ n [g] b b (if Gate.bitAt b q = 0 then eval ζ ρ ((g.p 0).ph (-1))
      else eval ζ ρ ((g.p 0).ph 1)) := by
  refine ⟨hb, fun r hr => col_diag n q g hw hq
    (fun c => if c = 0 then eval ζ ρ ((g.p 0).ph (-1)) else eval ζ ρ ((g.p 0).ph 1)) ?_ r b hr hb⟩
  intro a c ha hc
  have e : g.localMat.m = [[(g.p 0).ph (-1), []], [[], (g.p 0).ph]] := by
    unfold Gate.localMat; simp only [hk]
  rw [e]
  rcases two_cases ha with rfl | rfl <;> rcases two_cases hc with rfl | rfl <;>
    simp [evalMat, evalRow, eval_nil]

/-- CNOTs from each wire of `l` onto `q0` -/
def cnotList (q0 : ℕ) (l : List ℕ) : List Gate := l.map fun q => G .CNOT [q] [q0]

/-- number of set bits of `b` on the wires `l` -/
def par (l : List ℕ) (b : ℕ) : ℕ := (l.map (Gate.bitAt b)).sum

theorem par_cons (q : ℕ) (l : List ℕ) (b : ℕ) : par (q :: l) b = Gate.bitAt b q + par l b := by
  simp [par]

theorem par_congr (l : List ℕ) (b b' : ℕ) (h : ∀ q ∈ l, Gate.bitAt b' q = Gate.bitAt b q) :
    par l b' = par l b := by
  unfold par
  congr 1
  exact List.map_congr_left h

theorem par_reverse (l : List ℕ) (b : ℕ) : par l.reverse b = par l b := by
  unfold par
  rw [List.map_reverse, List.sum_reverse]

theorem wf_cnotList (n q0 : ℕ) (hq0 : q0 < n) (l : List ℕ) (hl : ∀ q ∈ l, q ≠ q0 ∧ q < n) :
    WellFormed n (cnotList q0 l) := by
  intro g hg
  obtain ⟨q, hq, rfl⟩ := List.mem_map.mp hg
  have := hl q hq
  exact ⟨by simp [G, Gate.wires, this.1], by
    intro w hw; simp [G, Gate.wires] at hw; rcases hw with rfl | rfl <;> omega⟩

/-- **the CNOT ladder** adds the parity of the control wires onto `q0` and changes nothing else -/
theorem ladder_col (n q0 : ℕ) (hq0 : q0 < n) : ∀ (l : List ℕ), (∀ q ∈ l, q ≠ q0 ∧ q < n) →
    ∀ b, b < 2 ^ n → ∃ b', IsCol ζ ρ n (cnotList q0 l) b b' 1 ∧
      Gate.bitAt b' q0 = (Gate.bitAt b q0 + par l b) % 2 ∧
      ∀ v, v ≠ q0 → Gate.bitAt b' v = Gate.bitAt b v := by
  intro l
  induction l with
  | nil =>
    intro _ b hb
    have := bitAt_le_one b q0
    exact ⟨b, IsCol.nil n b hb, by simp [par]; omega, fun _ _ => rfl⟩
  | cons q l ih =>
    intro hl b hb
    have hq := hl q (by simp)
    have hl' : ∀ q' ∈ l, q' ≠ q0 ∧ q' < n := fun q' h => hl q' (by simp [h])
    have c1 := col_cnot (ζ := ζ) (ρ := ρ) n q q0 hq.1 hq.2 hq0 b hb
    obtain ⟨b', c2, h0, hv⟩ := ih hl' (cnotOut q q0 b) c1.1
    refine ⟨b', ?_, ?_, ?_⟩
    · have := IsCol.append (A := [G .CNOT [q] [q0]]) c1 c2 (wf_cnotList n q0 hq0 l hl')
      rw [one_mul] at this
      exact this
    · have hp : par l (cnotOut q q0 b) = par l b :=
        par_congr l b (cnotOut q q0 b)
          (fun q' hq' => by rw [bitAt_cnotOut, if_neg (hl' q' hq').1])
      rw [h0, bitAt_cnotOut, if_pos rfl, par_cons, hp]
      omega
    · intro v hv'
      rw [hv v hv', bitAt_cnotOut, if_neg hv']

/-- **the middle part `ladder · RZ · ladder` is diagonal**: the amplitude of `|b⟩` is `e^{∓iθ/2}`
    according to the parity of `b` on the targets -/
theorem middle_col (n q0 : ℕ) (hq0 : q0 < n) (rest : List ℕ) (hl : ∀ q ∈ rest, q ≠ q0 ∧ q < n)
    (g : Gate) (hk : g.kind = .RZ) (hw : g.wires = [q0]) (b : ℕ) (hb : b < 2 ^ n) :
    IsCol ζ ρ n (cnotList q0 rest.reverse ++ [g] ++ cnotList q0 rest) b b
      (if (Gate.bitAt b q0 + par rest b) % 2 = 0 then eval ζ ρ ((g.p 0).ph (-1))
        else eval ζ ρ ((g.p 0).ph 1)) := by
  have hl' : ∀ q ∈ rest.reverse, q ≠ q0 ∧ q < n := fun q h => hl q (List.mem_reverse.mp h)
  obtain ⟨b1, c1, h10, h1v⟩ := ladder_col (ζ := ζ) (ρ := ρ) n q0 hq0 rest.reverse hl' b hb
  have c2 := col_rz (ζ := ζ) (ρ := ρ) n q0 hq0 g hk hw b1 c1.1
  obtain ⟨b2, c3, h20, h2v⟩ := ladder_col (ζ := ζ) (ρ := ρ) n q0 hq0 rest hl b1 c1.1
  have hpar1 : par rest b1 = par rest b :=
    par_congr rest b b1 (fun q hq => h1v q (hl q hq).1)
  rw [par_reverse] at h10
  have hb2 : b2 = b := by
    apply bitAt_ext n _ _ c3.1 hb
    intro v _
    by_cases e : v = q0
    · subst e
      have := bitAt_le_one b v
      rw [h20, h10, hpar1]; omega
    · rw [h2v v e, h1v v e]
  have wfg : WellFormed n [g] := by
    intro x hx; simp only [List.mem_singleton] at hx; subst hx
    rw [hw]; exact ⟨by simp, by intro w h; simp at h; omega⟩
  have := IsCol.append (IsCol.append c1 c2 wfg) c3 (wf_cnotList n q0 hq0 rest hl)
  rw [hb2, h10] at this
  exact this.congr_amp (by simp)

/-- the list of `Z` gates on the wires `ws` -/
def zList (ws : List ℕ) : List Gate := ws.map fun q => G .Z [] [q]

/-- `(−1)^m` -/
def sgnOf (m : ℕ) : K := if m % 2 = 0 then 1 else -1

theorem sgnOf_add (a m : ℕ) (ha : a ≤ 1) :
    (if a = 0 then (1 : K) else -1) * sgnOf m = sgnOf (a + m) := by
  unfold sgnOf
  rcases Nat.mod_two_eq_zero_or_one m with h | h
  · by_cases e : a = 0
    · subst e; simp [h]
    · have : a = 1 := by omega
      subst this
      have : (1 + m) % 2 = 1 := by omega
      simp [h, this]
  · by_cases e : a = 0
    · subst e; simp [h]
    · have : a = 1 := by omega
      subst this
      have : (1 + m) % 2 = 0 := by omega
      simp [h, this]

theorem wf_zList (n : ℕ) (ws : List ℕ) (hw : ∀ q ∈ ws, q < n) : WellFormed n (zList ws) := by
  intro g hg
  obtain ⟨q, hq, rfl⟩ := List.mem_map.mp hg
  exact (wf_single n q .Z (hw q hq)) _ (by simp)

/-- `Z ⊗ … ⊗ Z` on `ws` is diagonal with entries `(−1)^parity` -/
theorem zList_col (n : ℕ) : ∀ (ws : List ℕ), (∀ q ∈ ws, q < n) → ∀ b, b < 2 ^ n →
    IsCol ζ ρ n (zList ws) b b (sgnOf (par ws b)) := by
  intro ws
  induction ws with
  | nil => intro _ b hb; exact (IsCol.nil n b hb).congr_amp (by simp [sgnOf, par])
  | cons q ws ih =>
    intro hw b hb
    have c1 := col_z (ζ := ζ) (ρ := ρ) n q (hw q (by simp)) b hb
    have c2 := ih (fun q' h => hw q' (by simp [h])) b hb
    have := IsCol.append (A := [G .Z [] [q]]) c1 c2 (wf_zList n ws (fun q' h => hw q' (by simp [h])))
    exact this.congr_amp (by rw [par_cons]; exact sgnOf_add _ _ (bitAt_le_one b q))

/-- **twice the middle part = `(v+w)·1 − (v−w)·Z⊗…⊗Z`** on the block -/
theorem middle_lincomb (n q0 : ℕ) (hq0 : q0 < n) (rest : List ℕ) (hl : ∀ q ∈ rest, q ≠ q0 ∧ q < n)
    (g : Gate) (hk : g.kind = .RZ) (hw : g.wires = [q0]) (r k : ℕ) (hr : r < 2 ^ n)
    (hk' : k < 2 ^ n) :
    2 * semCirc ζ ρ (cnotList q0 rest.reverse ++ [g] ++ cnotList q0 rest) r k
      = (eval ζ ρ ((g.p 0).ph 1) + eval ζ ρ ((g.p 0).ph (-1))) * semCirc ζ ρ [] r k
        + (-(eval ζ ρ ((g.p 0).ph 1) - eval ζ ρ ((g.p 0).ph (-1))))
          * semCirc ζ ρ (zList (q0 :: rest)) r k := by
  have c1 := middle_col (ζ := ζ) (ρ := ρ) n q0 hq0 rest hl g hk hw k hk'
  have c2 := zList_col (ζ := ζ) (ρ := ρ) n (q0 :: rest) (by
    intro q h; simp at h; rcases h with rfl | h
    · exact hq0
    · exact (hl q h).2) k hk'
  rw [c1.2 r hr, c2.2 r hr, par_cons]
  show _ = _ * (idMat r k : K) + _
  by_cases e : r = k
  · rw [if_pos e, if_pos e]
    unfold sgnOf idMat
    rw [if_pos e]
    by_cases hp : (Gate.bitAt k q0 + par rest k) % 2 = 0
    · rw [if_pos hp, if_pos hp]; ring
    · rw [if_neg hp, if_neg hp]; ring
  · rw [if_neg e, if_neg e]
    unfold idMat
    rw [if_neg e]; ring

/-! ## D. single-wire conjugations and the basis layer -/

/-- 2×2 matrix product as used by `embedAct_comp` on one wire -/
def mul2 (A B : ℕ → ℕ → K) : ℕ → ℕ → K :=
  fun a b => ((List.range (2 ^ [0].length)).map fun l => A a l * B l b).sum

theorem mul2_apply (A B : ℕ → ℕ → K) (a b : ℕ) : mul2 A B a b = A a 0 * B 0 b + A a 1 * B 1 b := by
  simp [mul2, List.range_succ]

/-- two gates on the same wire -/
theorem semCirc_two (n q : ℕ) (hq : q < n) (g1 g2 : Gate) (h1 : g1.wires = [q]) (h2 : g2.wires = [q])
    (r j : ℕ) (hr : r < 2 ^ n) :
    semCirc ζ ρ [g1, g2] r j
      = embedAct (mul2 (evalMat ζ ρ g2.localMat.m) (evalMat ζ ρ g1.localMat.m)) [q] idMat r j := by
  show embedAct _ g2.wires (embedAct _ g1.wires idMat) r j = _
  rw [h1, h2, embedAct_comp n _ _ [q] idMat r j (by simp) (by intro w h; simp at h; omega) hr]
  rfl

/-- three gates on the same wire -/
theorem semCirc_three (n q : ℕ) (hq : q < n) (g1 g2 g3 : Gate) (h1 : g1.wires = [q])
    (h2 : g2.wires = [q]) (h3 : g3.wires = [q]) (r j : ℕ) (hr : r < 2 ^ n) :
    semCirc ζ ρ [g1, g2, g3] r j
      = embedAct (mul2 (evalMat ζ ρ g3.localMat.m)
          (mul2 (evalMat ζ ρ g2.localMat.m) (evalMat ζ ρ g1.localMat.m))) [q] idMat r j := by
  have hnd : [q].Nodup := by simp
  have hw : ∀ w ∈ [q], w < n := by intro w h; simp at h; omega
  show embedAct _ g3.wires (embedAct _ g2.wires (embedAct _ g1.wires idMat)) r j = _
  rw [h1, h2, h3]
  have e : embedAct (evalMat ζ ρ g2.localMat.m) [q] (embedAct (evalMat ζ ρ g1.localMat.m) [q] idMat)
      = fun r j => if r < 2 ^ n then embedAct (mul2 (evalMat ζ ρ g2.localMat.m)
          (evalMat ζ ρ g1.localMat.m)) [q] idMat r j else
        embedAct (evalMat ζ ρ g2.localMat.m) [q]
          (embedAct (evalMat ζ ρ g1.localMat.m) [q] idMat) r j := by
    funext r j
    by_cases h : r < 2 ^ n
    · rw [if_pos h, embedAct_comp n _ _ [q] idMat r j hnd hw h]; rfl
    · rw [if_neg h]
  rw [embedAct_congr _ [q] _ (fun r j => embedAct (mul2 (evalMat ζ ρ g2.localMat.m)
      (evalMat ζ ρ g1.localMat.m)) [q] idMat r j) r j (fun l => by
        rw [e]
        have := (place_spec n [q] r l hnd hw hr).1
        simp only [this, if_true])]
  rw [embedAct_comp n _ _ [q] idMat r j hnd hw hr]
  rfl

/-- compare a single-wire operator given by a 2×2 matrix with `c ·` a gate on that wire -/
theorem wire_eq_gate (q : ℕ) (M : ℕ → ℕ → K) (g : Gate) (hg : g.wires = [q])
    (c : K) (hM : ∀ a b, a < 2 → b < 2 → M a b = c * evalMat ζ ρ g.localMat.m a b)
    (r j : ℕ) : embedAct M [q] idMat r j = c * semCirc ζ ρ [g] r j := by
  show _ = c * embedAct _ g.wires idMat r j
  rw [hg, ← embedAct_smul_left]
  apply embedAct_congr_L
  intro l hl
  have hli : Gate.locIdx [q] r < 2 := by have := locIdx_lt [q] r; simpa using this
  exact hM _ l hli (by simpa using hl)

/-- … or with `c ·` the identity -/
theorem wire_eq_id (n q : ℕ) (hq : q < n) (M : ℕ → ℕ → K) (c : K)
    (hM : ∀ a b, a < 2 → b < 2 → M a b = c * idMat a b) (r j : ℕ) (hr : r < 2 ^ n) :
    embedAct M [q] idMat r j = c * idMat r j := by
  have : embedAct M [q] idMat r j = embedAct (fun a b => c * (idMat a b : K)) [q] idMat r j := by
    apply embedAct_congr_L
    intro l hl
    have hli : Gate.locIdx [q] r < 2 := by have := locIdx_lt [q] r; simpa using this
    exact hM _ l hli (by simpa using hl)
  rw [this, embedAct_smul_left,
    embedAct_idMat n _ [q] idMat r j (by simp) (by intro w h; simp at h; omega) hr
      (fun _ _ _ _ => rfl)]

theorem evalMat_H (q a c : ℕ) (ha : a < 2) (hc : c < 2) :
    evalMat ζ ρ (G .H [] [q]).localMat.m a c = if a = 1 ∧ c = 1 then -1 else 1 := by
  rcases two_cases ha with rfl | rfl <;> rcases two_cases hc with rfl | rfl <;>
    simp [Gate.localMat, G, evalMat, evalRow, eval_neg, eval_one]

/-- entries of an `RX` gate in terms of `v = e^{iθ/2}`, `w = e^{−iθ/2}` -/
theorem evalMat_RX (g : Gate) (hk : g.kind = .RX) (a c : ℕ) (ha : a < 2) (hc : c < 2) :
    evalMat ζ ρ g.localMat.m a c
      = if a = c then eval ζ ρ ((g.p 0).ph 1) + eval ζ ρ ((g.p 0).ph (-1))
        else -(eval ζ ρ ((g.p 0).ph 1) - eval ζ ρ ((g.p 0).ph (-1))) := by
  have e : g.localMat.m = [[Poly.add (g.p 0).ph ((g.p 0).ph (-1)),
      Poly.neg (Poly.sub (g.p 0).ph ((g.p 0).ph (-1)))],
      [Poly.neg (Poly.sub (g.p 0).ph ((g.p 0).ph (-1))),
       Poly.add (g.p 0).ph ((g.p 0).ph (-1))]] := by
    unfold Gate.localMat; simp only [hk]
  rw [e]
  rcases two_cases ha with rfl | rfl <;> rcases two_cases hc with rfl | rfl <;>
    simp [evalMat, evalRow, eval_add, eval_sub, eval_neg]

/-- `RX` on wire `q` with angle `a` units of π/64 (as emitted by `rotGates`) -/
def rxGate (q : ℕ) (a : ℤ) : Gate := G .RX [] [q] [unitAngle a]

/-- basis change in front of the ladder for Pauli id `p` on wire `q` -/
def bPlus (q p : ℕ) : List Gate :=
  if p = 1 then [G .H [] [q]] else if p = 2 then [rxGate q 32] else []

/-- its inverse behind the ladder -/
def bMinus (q p : ℕ) : List Gate :=
  if p = 1 then [G .H [] [q]] else if p = 2 then [rxGate q (-32)] else []

/-- scale factor of the conjugation in the integer-scaled representation -/
def cP (p : ℕ) : K := if p = 1 then 2 else if p = 2 then 4 else 1

/-- the single-qubit Pauli gate for id `p` on wire `q` (as a list) -/
def pOne (q p : ℕ) : List Gate := factorGates (idFactors [(q, p)])

theorem rx_ph (hζ : ζ ^ 8 = -1) (q : ℕ) (a m : ℤ) :
    eval ζ ρ (((rxGate q a).p 0).ph m) = (ρ 0 ^ a) ^ m := by
  have : (rxGate q a).p 0 = unitAngle a := rfl
  rw [this, eval_ph hζ, theta_unit]

/-- `v = e^{iπ/4}` and `w = v⁻¹` as abstract constants with the relations needed for RX(±π/2) -/
theorem rx_facts (hζ : ζ ^ 8 = -1) (hρ : ∀ j, ρ j ≠ 0) (h16 : ρ 0 ^ 16 = ζ) (q : ℕ) :
    ∃ V W : K, V * W = 1 ∧ V ^ 2 = ζ ^ 4 ∧ W ^ 2 = -ζ ^ 4 ∧
      eval ζ ρ (((rxGate q 32).p 0).ph 1) = V ∧ eval ζ ρ (((rxGate q 32).p 0).ph (-1)) = W ∧
      eval ζ ρ (((rxGate q (-32)).p 0).ph 1) = W ∧
      eval ζ ρ (((rxGate q (-32)).p 0).ph (-1)) = V := by
  have h0 : ρ 0 ^ (32 : ℤ) ≠ 0 := zpow_ne_zero _ (hρ 0)
  have hV2 : (ρ 0 ^ (32 : ℤ)) ^ 2 = ζ ^ 4 := by
    have : (ρ 0 ^ (32 : ℤ)) ^ 2 = (ρ 0 ^ 16) ^ 4 := by
      rw [← zpow_natCast (ρ 0) 16, ← zpow_natCast, ← zpow_natCast, ← zpow_mul, ← zpow_mul]
      norm_num
    rw [this, h16]
  have hvw : ρ 0 ^ (32 : ℤ) * (ρ 0 ^ (32 : ℤ))⁻¹ = 1 := mul_inv_cancel₀ h0
  have hW2 : ((ρ 0 ^ (32 : ℤ))⁻¹) ^ 2 = -ζ ^ 4 := by
    have e1 : ((ρ 0 ^ (32 : ℤ))⁻¹) ^ 2 * (ρ 0 ^ (32 : ℤ)) ^ 2 = 1 := by
      rw [← mul_pow, inv_mul_cancel₀ h0, one_pow]
    rw [hV2] at e1
    have e2 : ζ ^ 4 * ζ ^ 4 = -1 := by rw [← hζ]; ring
    linear_combination (-ζ ^ 4) * e1 + ((ρ 0 ^ (32 : ℤ))⁻¹) ^ 2 * e2
  have hneg : ρ 0 ^ (-32 : ℤ) = (ρ 0 ^ (32 : ℤ))⁻¹ := by rw [← zpow_neg]
  refine ⟨ρ 0 ^ (32 : ℤ), (ρ 0 ^ (32 : ℤ))⁻¹, hvw, hV2, hW2, ?_, ?_, ?_, ?_⟩
  · rw [rx_ph hζ, zpow_one]
  · rw [rx_ph hζ, zpow_neg_one]
  · rw [rx_ph hζ, zpow_one, hneg]
  · rw [rx_ph hζ, zpow_neg_one, hneg, inv_inv]

/-- **one wire**: `B⁻¹·B = c·1` and `B⁻¹·Z·B = c·P` with the same `c` -/
theorem wire_ok (hζ : ζ ^ 8 = -1) (hρ : ∀ j, ρ j ≠ 0) (h16 : ρ 0 ^ 16 = ζ) (n q p : ℕ) (hq : q < n)
    (hp : p = 1 ∨ p = 2 ∨ p = 3) :
    SEq ζ ρ n (cP p) [] (bPlus q p ++ bMinus q p) ∧
    SEq ζ ρ n (cP p) (pOne q p) (bPlus q p ++ [G .Z [] [q]] ++ bMinus q p) := by
  have hZ : (G .Z [] [q] : Gate).wires = [q] := rfl
  rcases hp with rfl | rfl | rfl
  · -- X : H·H = 2, H·Z·H = 2·X
    have hH : (G .H [] [q] : Gate).wires = [q] := rfl
    constructor
    · intro r hr j _
      show semCirc ζ ρ [G .H [] [q], G .H [] [q]] r j = _
      rw [semCirc_two n q hq _ _ hH hH r j hr]
      exact wire_eq_id n q hq _ _ (fun a b ha hb => by
        rw [mul2_apply, evalMat_H q a 0 ha (by omega), evalMat_H q a 1 ha (by omega),
          evalMat_H q 0 b (by omega) hb, evalMat_H q 1 b (by omega) hb]
        rcases two_cases ha with rfl | rfl <;> rcases two_cases hb with rfl | rfl <;>
          simp [cP, idMat] <;> norm_num) r j hr
    · intro r hr j _
      show semCirc ζ ρ [G .H [] [q], G .Z [] [q], G .H [] [q]] r j
        = _ * semCirc ζ ρ [G .X [] [q]] r j
      rw [semCirc_three n q hq _ _ _ hH hZ hH r j hr]
      exact wire_eq_gate q _ (G .X [] [q]) rfl _ (fun a b ha hb => by
        rw [mul2_apply, mul2_apply, mul2_apply, evalMat_X q a b ha hb]
        simp only [evalMat_H q _ _ ha (by omega : 0 < 2), evalMat_H q _ _ ha (by omega : 1 < 2),
          evalMat_H q _ _ (by omega : 0 < 2) hb, evalMat_H q _ _ (by omega : 1 < 2) hb,
          evalMat_Z q _ _ (by omega : 0 < 2) (by omega : 0 < 2),
          evalMat_Z q _ _ (by omega : 0 < 2) (by omega : 1 < 2),
          evalMat_Z q _ _ (by omega : 1 < 2) (by omega : 0 < 2),
          evalMat_Z q _ _ (by omega : 1 < 2) (by omega : 1 < 2)]
        rcases two_cases ha with rfl | rfl <;> rcases two_cases hb with rfl | rfl <;>
          simp [cP] <;> norm_num) r j
  · -- Y : RX(−π/2)·RX(π/2) = 4, RX(−π/2)·Z·RX(π/2) = 4·Y
    have hR (a : ℤ) : (rxGate q a).wires = [q] := rfl
    have hk (a : ℤ) : (rxGate q a).kind = .RX := rfl
    obtain ⟨V, W, hvw, hV2, hW2, e1, e2, e3, e4⟩ := rx_facts (ζ := ζ) (ρ := ρ) hζ hρ h16 q
    constructor
    · intro r hr j _
      show semCirc ζ ρ [rxGate q 32, rxGate q (-32)] r j = _
      rw [semCirc_two n q hq _ _ (hR _) (hR _) r j hr]
      exact wire_eq_id n q hq _ _ (fun a b ha hb => by
        rw [mul2_apply]
        simp only [evalMat_RX _ (hk _) _ _ ha (by omega : 0 < 2),
          evalMat_RX _ (hk _) _ _ ha (by omega : 1 < 2),
          evalMat_RX _ (hk _) _ _ (by omega : 0 < 2) hb,
          evalMat_RX _ (hk _) _ _ (by omega : 1 < 2) hb, e1, e2, e3, e4]
        rcases two_cases ha with rfl | rfl <;> rcases two_cases hb with rfl | rfl <;>
          simp [cP, idMat] <;> first | ring1 | linear_combination 4 * hvw) r j hr
    · intro r hr j _
      show semCirc ζ ρ [rxGate q 32, G .Z [] [q], rxGate q (-32)] r j
        = _ * semCirc ζ ρ [G .Y [] [q]] r j
      rw [semCirc_three n q hq _ _ _ (hR _) hZ (hR _) r j hr]
      exact wire_eq_gate q _ (G .Y [] [q]) rfl _ (fun a b ha hb => by
        rw [mul2_apply, mul2_apply, mul2_apply, evalMat_Y q a b ha hb]
        simp only [evalMat_RX _ (hk _) _ _ ha (by omega : 0 < 2),
          evalMat_RX _ (hk _) _ _ ha (by omega : 1 < 2),
          evalMat_RX _ (hk _) _ _ (by omega : 0 < 2) hb,
          evalMat_RX _ (hk _) _ _ (by omega : 1 < 2) hb,
          evalMat_Z q _ _ (by omega : 0 < 2) (by omega : 0 < 2),
          evalMat_Z q _ _ (by omega : 0 < 2) (by omega : 1 < 2),
          evalMat_Z q _ _ (by omega : 1 < 2) (by omega : 0 < 2),
          evalMat_Z q _ _ (by omega : 1 < 2) (by omega : 1 < 2), e1, e2, e3, e4]
        rcases two_cases ha with rfl | rfl <;> rcases two_cases hb with rfl | rfl <;>
          simp [cP] <;>
          first
          | linear_combination 2 * hV2 + 2 * hW2
          | linear_combination 2 * hW2 - 2 * hV2
          | linear_combination 2 * hV2 - 2 * hW2
          | linear_combination (-2) * hV2 + (-2) * hW2) r j
  · -- Z : nothing to do
    constructor
    · intro r _ j _
      show semCirc ζ ρ [] r j = _
      simp [cP]
    · intro r _ j _
      show semCirc ζ ρ [G .Z [] [q]] r j = _ * semCirc ζ ρ [G .Z [] [q]] r j
      simp [cP]

/-! ### the basis layer -/

/-- all basis changes in front of the ladder, in the order of the (target, id) pairs -/
def BpL (l : List (ℕ × ℕ)) : List Gate := l.flatMap fun x => bPlus x.1 x.2
/-- all inverse basis changes behind the ladder -/
def BmL (l : List (ℕ × ℕ)) : List Gate := l.flatMap fun x => bMinus x.1 x.2
/-- `Z` on every target -/
def ZL (l : List (ℕ × ℕ)) : List Gate := zList (l.map (·.1))
/-- product of the scale factors -/
def cL : List (ℕ × ℕ) → K
  | [] => 1
  | x :: l => cP x.2 * cL l

/-- every gate of the list acts on exactly one of the given wires -/
def OnWires (gs : List Gate) (ws : List ℕ) : Prop := ∀ g ∈ gs, ∃ q ∈ ws, g.wires = [q]

theorem OnWires.wf {n : ℕ} {gs : List Gate} {ws : List ℕ} (h : OnWires gs ws) (hw : ∀ q ∈ ws, q < n) :
    WellFormed n gs := by
  intro g hg
  obtain ⟨q, hq, e⟩ := h g hg
  rw [e]
  exact ⟨by simp, by intro w h'; have : w = q := by simpa using h'
                     rw [this]; exact hw q hq⟩

theorem OnWires.disjoint {X R : List Gate} {ws1 ws2 : List ℕ} (h1 : OnWires X ws1)
    (h2 : OnWires R ws2) (hd : ∀ q ∈ ws1, q ∉ ws2) : DisjointWires X R := by
  intro g hg h hh w hw hw'
  obtain ⟨q1, hq1, e1⟩ := h1 g hg
  obtain ⟨q2, hq2, e2⟩ := h2 h hh
  rw [e1] at hw; rw [e2] at hw'
  have h1' : w = q1 := by simpa using hw
  have h2' : w = q2 := by simpa using hw'
  have : q1 = q2 := h1'.symm.trans h2'
  exact hd q1 hq1 (this ▸ hq2)

theorem OnWires.append {A B : List Gate} {ws : List ℕ} (hA : OnWires A ws) (hB : OnWires B ws) :
    OnWires (A ++ B) ws := by
  intro g hg
  rcases List.mem_append.mp hg with h | h
  · exact hA g h
  · exact hB g h

theorem OnWires.mono {A : List Gate} {ws ws' : List ℕ} (hA : OnWires A ws) (h : ∀ q ∈ ws, q ∈ ws') :
    OnWires A ws' := fun g hg => by
  obtain ⟨q, hq, e⟩ := hA g hg
  exact ⟨q, h q hq, e⟩

theorem onWires_bPlus (q p : ℕ) : OnWires (bPlus q p) [q] := by
  intro g hg
  unfold bPlus at hg
  split_ifs at hg <;> simp at hg <;> subst hg <;> exact ⟨q, by simp, rfl⟩

theorem onWires_bMinus (q p : ℕ) : OnWires (bMinus q p) [q] := by
  intro g hg
  unfold bMinus at hg
  split_ifs at hg <;> simp at hg <;> subst hg <;> exact ⟨q, by simp, rfl⟩

theorem onWires_factorGates (fs : List (ℕ × P1)) : OnWires (factorGates fs) (fs.map (·.1)) := by
  intro g hg
  obtain ⟨f, hf, rfl⟩ := List.mem_map.mp hg
  exact ⟨f.1, List.mem_map.mpr ⟨f, hf, rfl⟩, rfl⟩

theorem idFactors_wires (l : List (ℕ × ℕ)) : ∀ q ∈ (idFactors l).map (·.1), q ∈ l.map (·.1) := by
  intro q hq
  obtain ⟨f, hf, rfl⟩ := List.mem_map.mp hq
  unfold idFactors at hf
  obtain ⟨x, hx, hfx⟩ := List.mem_filterMap.mp hf
  cases hp : pauliOfId x.2 with
  | none => rw [hp] at hfx; simp at hfx
  | some pp =>
    rw [hp] at hfx
    simp at hfx
    subst hfx
    exact List.mem_map.mpr ⟨x, hx, rfl⟩

theorem onWires_PL (l : List (ℕ × ℕ)) : OnWires (factorGates (idFactors l)) (l.map (·.1)) :=
  (onWires_factorGates _).mono (idFactors_wires l)

theorem onWires_BpL (l : List (ℕ × ℕ)) : OnWires (BpL l) (l.map (·.1)) := by
  intro g hg
  obtain ⟨x, hx, hgx⟩ := List.mem_flatMap.mp hg
  obtain ⟨q, hq, e⟩ := onWires_bPlus x.1 x.2 g hgx
  simp at hq; subst hq
  exact ⟨x.1, List.mem_map.mpr ⟨x, hx, rfl⟩, e⟩

theorem onWires_BmL (l : List (ℕ × ℕ)) : OnWires (BmL l) (l.map (·.1)) := by
  intro g hg
  obtain ⟨x, hx, hgx⟩ := List.mem_flatMap.mp hg
  obtain ⟨q, hq, e⟩ := onWires_bMinus x.1 x.2 g hgx
  simp at hq; subst hq
  exact ⟨x.1, List.mem_map.mpr ⟨x, hx, rfl⟩, e⟩

theorem onWires_zList (ws : List ℕ) : OnWires (zList ws) ws := by
  intro g hg
  obtain ⟨q, hq, rfl⟩ := List.mem_map.mp hg
  exact ⟨q, hq, rfl⟩

theorem SEq.scalar {n : ℕ} {z z' : K} {a b : List Gate} (h : SEq ζ ρ n z a b) (e : z = z') :
    SEq ζ ρ n z' a b := e ▸ h

/-- **the basis layer**: `B⁻¹·B = c·1` and `B⁻¹·(Z⊗…⊗Z)·B = c·P`, same `c`, for any number of wires -/
theorem layer_ok (hζ : ζ ^ 8 = -1) (hρ : ∀ j, ρ j ≠ 0) (h16 : ρ 0 ^ 16 = ζ) (n : ℕ) :
    ∀ (l : List (ℕ × ℕ)), (l.map (·.1)).Nodup → (∀ x ∈ l, x.1 < n) →
      (∀ x ∈ l, x.2 = 1 ∨ x.2 = 2 ∨ x.2 = 3) →
      SEq ζ ρ n (cL l) [] (BpL l ++ BmL l) ∧
      SEq ζ ρ n (cL l) (factorGates (idFactors l)) (BpL l ++ ZL l ++ BmL l) := by
  intro l
  induction l with
  | nil => intro _ _ _; exact ⟨SEq.refl n [], SEq.refl n []⟩
  | cons x l ih =>
    intro hnd hlt hval
    obtain ⟨q, p⟩ := x
    rw [List.map_cons, List.nodup_cons] at hnd
    have hq : q < n := hlt (q, p) (by simp)
    have hws : ∀ w ∈ l.map (·.1), w < n := by
      intro w hw; obtain ⟨y, hy, rfl⟩ := List.mem_map.mp hw; exact hlt y (by simp [hy])
    obtain ⟨ih1, ih2⟩ := ih hnd.2 (fun y hy => hlt y (by simp [hy])) (fun y hy => hval y (by simp [hy]))
    obtain ⟨w1, w2⟩ := wire_ok (ζ := ζ) (ρ := ρ) hζ hρ h16 n q p hq (hval (q, p) (by simp))
    -- shapes
    have eBp : BpL ((q, p) :: l) = bPlus q p ++ BpL l := by simp [BpL]
    have eBm : BmL ((q, p) :: l) = bMinus q p ++ BmL l := by simp [BmL]
    have eZ : ZL ((q, p) :: l) = [G .Z [] [q]] ++ ZL l := by simp [ZL, zList]
    have eP : factorGates (idFactors ((q, p) :: l)) = pOne q p ++ factorGates (idFactors l) := by
      have : idFactors ((q, p) :: l) = idFactors [(q, p)] ++ idFactors l := by
        unfold idFactors
        rw [← List.filterMap_append]; rfl
      rw [this, factorGates_append]; rfl
    have hq1 : ∀ w ∈ [q], w < n := by intro w h; simp at h; omega
    have hdq : ∀ w ∈ [q], w ∉ l.map (·.1) := by intro w h; simp at h; subst h; exact hnd.1
    -- well-formedness and disjointness of the pieces
    have oBq := onWires_bPlus q p
    have oBq' := onWires_bMinus q p
    have oZq : OnWires [G .Z [] [q]] [q] := onWires_zList [q]
    have oPq : OnWires (pOne q p) [q] := by
      have := onWires_PL [(q, p)]; simpa [pOne] using this
    have oBp := onWires_BpL l
    have oBm := onWires_BmL l
    have oZ : OnWires (ZL l) (l.map (·.1)) := onWires_zList _
    have oP := onWires_PL l
    rw [eBp, eBm, eZ, eP]
    have wfZq : WellFormed n [G .Z [] [q]] := oZq.wf hq1
    have wfBp : WellFormed n (BpL l) := oBp.wf hws
    have wfZ : WellFormed n (ZL l) := oZ.wf hws
    have wfBm : WellFormed n (BmL l) := oBm.wf hws
    have wfBq' : WellFormed n (bMinus q p) := oBq'.wf hq1
    have wfBq : WellFormed n (bPlus q p) := oBq.wf hq1
    constructor
    · -- bq ++ Bp' ++ (bq' ++ Bm')
      have s1 := SEq.context (ζ := ζ) (ρ := ρ) (bPlus q p) (BmL l)
        (WellFormed.append wfBq' wfBp) (WellFormed.append wfBp wfBq') wfBm
        (SEq.comm n (bMinus q p) (BpL l) wfBq' wfBp (oBq'.disjoint oBp hdq))
      have s2 := SEq.context (ζ := ζ) (ρ := ρ) [] (BpL l ++ BmL l) (WellFormed.nil n)
        (WellFormed.append wfBq wfBq') (WellFormed.append wfBp wfBm) w1
      have t := (ih1.trans (by simpa using s2)).trans (by simpa [List.append_assoc] using s1)
      exact (by simpa [List.append_assoc] using t : SEq ζ ρ n _ [] _).scalar (by simp [cL])
    · -- bq ++ Bp' ++ ([Zq] ++ Z') ++ (bq' ++ Bm')
      -- 1: Zq past Bp'
      have s1 := SEq.context (ζ := ζ) (ρ := ρ) (bPlus q p) (ZL l ++ (bMinus q p ++ BmL l))
        (WellFormed.append wfZq wfBp) (WellFormed.append wfBp wfZq)
        (WellFormed.append wfZ (WellFormed.append wfBq' wfBm))
        (SEq.comm n [G .Z [] [q]] (BpL l) wfZq wfBp (oZq.disjoint oBp hdq))
      -- 2: bq' past Bp' ++ Z'
      have s2 := SEq.context (ζ := ζ) (ρ := ρ) (bPlus q p ++ [G .Z [] [q]]) (BmL l)
        (WellFormed.append wfBq' (WellFormed.append wfBp wfZ))
        (WellFormed.append (WellFormed.append wfBp wfZ) wfBq') wfBm
        (SEq.comm n (bMinus q p) (BpL l ++ ZL l) wfBq' (WellFormed.append wfBp wfZ)
          (oBq'.disjoint (oBp.append oZ) hdq))
      -- 3: the wire q
      have s3 := SEq.context (ζ := ζ) (ρ := ρ) [] (BpL l ++ ZL l ++ BmL l) (oPq.wf hq1)
        (WellFormed.append (WellFormed.append wfBq wfZq) wfBq')
        (WellFormed.append (WellFormed.append wfBp wfZ) wfBm) w2
      -- 4: the other wires
      have s4 := SEq.context (ζ := ζ) (ρ := ρ) (pOne q p) [] (oP.wf hws)
        (WellFormed.append (WellFormed.append wfBp wfZ) wfBm) (WellFormed.nil n) ih2
      have t := ((s4.trans (by simpa [List.append_assoc] using s3)).trans
        (by simpa [List.append_assoc] using s2)).trans (by simpa [List.append_assoc] using s1)
      exact (by simpa [List.append_assoc] using t :
        SEq ζ ρ n _ (pOne q p ++ factorGates (idFactors l)) _).scalar (by simp [cL])

/-! ## E. the local matrix of `PauliRotation` -/

theorem zipWith_map_same {α β γ δ : Type} (l : List α) (f : α → β) (g : α → γ) (h : β → γ → δ) :
    List.zipWith h (l.map f) (l.map g) = l.map fun x => h (f x) (g x) := by
  induction l with
  | nil => rfl
  | cons a l ih => simp [ih]

theorem smulP_ofFn (p : Poly) (r c : ℕ) (f : ℕ → ℕ → Poly) :
    Mat.smulP p (Mat.ofFn r c f) = Mat.ofFn r c fun i j => Poly.mul p (f i j) := by
  simp [Mat.smulP, Mat.ofFn, List.map_map, Function.comp_def]

theorem sub_ofFn (r c : ℕ) (f g : ℕ → ℕ → Poly) :
    Mat.sub (Mat.ofFn r c f) (Mat.ofFn r c g) = Mat.ofFn r c fun i j => Poly.sub (f i j) (g i j) := by
  unfold Mat.sub Mat.ofFn
  rw [zipWith_map_same]
  apply List.map_congr_left
  intro i _
  rw [zipWith_map_same]

theorem pauliRot_localMat (g : Gate) (hk : g.kind = .PauliRotation) :
    g.localMat.m = Mat.ofFn (2 ^ g.targets.length) (2 ^ g.targets.length) fun r c =>
      Poly.sub
        (Poly.mul (Poly.add (g.p 0).ph ((g.p 0).ph (-1))) (if r == c then Poly.one else []))
        (Poly.mul (Poly.sub (g.p 0).ph ((g.p 0).ph (-1)))
          (if r == Nat.xor c (xmaskOf g.targets.length g.paulis)
           then Poly.uPow (4 * (phaseExpOf g.targets.length g.paulis c : ℤ)) else [])) := by
  have : g.localMat.m = Mat.sub
      (Mat.smulP (Poly.add (g.p 0).ph ((g.p 0).ph (-1))) (Mat.identity (2 ^ g.targets.length)))
      (Mat.smulP (Poly.sub (g.p 0).ph ((g.p 0).ph (-1)))
        (Mat.ofFn (2 ^ g.targets.length) (2 ^ g.targets.length) fun r c =>
          if r == Nat.xor c (xmaskOf g.targets.length g.paulis)
          then Poly.uPow (4 * (phaseExpOf g.targets.length g.paulis c : ℤ)) else [])) := by
    unfold Gate.localMat
    simp only [hk]
    rfl
  rw [this, Mat.identity, smulP_ofFn, smulP_ofFn, sub_ofFn]

/-- entry `(a, c)` of the local matrix of a `PauliRotation`: `(v+w)·δ − (v−w)·P` -/
theorem evalMat_pauliRot (hζ : ζ ^ 8 = -1) (hρ : ∀ j, ρ j ≠ 0) (g : Gate)
    (hk : g.kind = .PauliRotation) (a c : ℕ) (ha : a < 2 ^ g.targets.length)
    (hc : c < 2 ^ g.targets.length) :
    evalMat ζ ρ g.localMat.m a c
      = (eval ζ ρ ((g.p 0).ph 1) + eval ζ ρ ((g.p 0).ph (-1))) * idMat a c
        - (eval ζ ρ ((g.p 0).ph 1) - eval ζ ρ ((g.p 0).ph (-1)))
          * (if a = c ^^^ xmaskOf g.targets.length g.paulis
             then ζ ^ (4 * (phaseExpOf g.targets.length g.paulis c : ℤ)) else 0) := by
  rw [pauliRot_localMat g hk, evalMat_ofFn _ _ a c ha hc, eval_sub, eval_mul hζ hρ,
    eval_mul hζ hρ, eval_add, eval_sub]
  congr 2
  · by_cases h : a = c
    · subst h; simp [idMat, eval_one]
    · have hb : (a == c) = false := by rw [beq_eq_false_iff_ne]; exact h
      simp [idMat, h, hb, eval_nil]
  · by_cases h : a = c ^^^ xmaskOf g.targets.length g.paulis
    · have hb : (a == Nat.xor c (xmaskOf g.targets.length g.paulis)) = true := by
        rw [beq_iff_eq]; exact h
      rw [if_pos h]; simp only [hb, if_true]; exact eval_uPow hζ _
    · have hb : (a == Nat.xor c (xmaskOf g.targets.length g.paulis)) = false := by
        rw [beq_eq_false_iff_ne]; exact h
      rw [if_neg h]; simp only [hb]; exact eval_nil

/-- **`PauliRotation = (v+w)·1 − (v−w)·P`** as operators on the block (integer-scaled by 2), `P` the
    `Pauli` gate with the same targets and ids -/
theorem semCirc_pauliRot (hζ : ζ ^ 8 = -1) (hρ : ∀ j, ρ j ≠ 0) (n : ℕ) (g : Gate)
    (hk : g.kind = .PauliRotation) (hnd : g.wires.Nodup) (hw : ∀ w ∈ g.wires, w < n)
    (hc : g.controls = []) (r b : ℕ) (hr : r < 2 ^ n) (hb : b < 2 ^ n) :
    semCirc ζ ρ [g] r b
      = (eval ζ ρ ((g.p 0).ph 1) + eval ζ ρ ((g.p 0).ph (-1))) * idMat r b
        - (eval ζ ρ ((g.p 0).ph 1) - eval ζ ρ ((g.p 0).ph (-1)))
          * semCirc ζ ρ [({ g with kind := .Pauli } : Gate)] r b := by
  have hwt : g.wires = g.targets := by simp [Gate.wires, hc]
  have hw' : ({ g with kind := .Pauli } : Gate).wires = g.wires := rfl
  rw [semCirc_single n g hnd hw r b hr hb,
    semCirc_single n ({ g with kind := .Pauli } : Gate) (by rw [hw']; exact hnd)
      (by rw [hw']; exact hw) r b hr hb, hw']
  have hla : Gate.locIdx g.wires r < 2 ^ g.targets.length := by rw [hwt]; exact locIdx_lt _ _
  have hlb : Gate.locIdx g.wires b < 2 ^ g.targets.length := by rw [hwt]; exact locIdx_lt _ _
  have hiff := eq_iff_ws n g.wires hnd hw r b hr hb
  by_cases h1 : Gate.clearBits g.wires r = Gate.clearBits g.wires b
  · rw [if_pos h1, if_pos h1, evalMat_pauliRot hζ hρ g hk _ _ hla hlb,
      evalMat_pauli hζ ({ g with kind := .Pauli } : Gate) rfl _ _ hla hlb]
    congr 2
    unfold idMat
    by_cases h2 : Gate.locIdx g.wires r = Gate.locIdx g.wires b
    · rw [if_pos h2, if_pos (hiff.mpr ⟨h1, h2⟩)]
    · rw [if_neg h2, if_neg (fun h => h2 (hiff.mp h).2)]
  · rw [if_neg h1, if_neg h1]
    have : r ≠ b := fun h => h1 (hiff.mp h).1
    simp [idMat, this]

/-! ## F. assembly -/

theorem cL_ne_zero (h2 : (2 : K) ≠ 0) (l : List (ℕ × ℕ)) : (cL l : K) ≠ 0 := by
  induction l with
  | nil => simp [cL]
  | cons x l ih =>
    have h4 : (4 : K) ≠ 0 := by
      have : (4 : K) = 2 * 2 := by norm_num
      rw [this]; exact mul_ne_zero h2 h2
    have : (cP x.2 : K) ≠ 0 := by unfold cP; split_ifs <;> simp [h2, h4]
    exact mul_ne_zero this ih

/-- **`PauliRotation` versus its decomposition**, gate level: with `l = zip targets paulis`,
    `2 · ⟦B · ladder · RZ · ladder · B⁻¹⟧ = c · ⟦PauliRotation⟧` on the block, `c = cL l ≠ 0` -/
theorem pauliRot_dec_ok (hζ : ζ ^ 8 = -1) (hρ : ∀ j, ρ j ≠ 0) (h16 : ρ 0 ^ 16 = ζ) (n : ℕ)
    (g : Gate) (hk : g.kind = .PauliRotation) (hc : g.controls = []) (q0 : ℕ) (rest : List ℕ)
    (ht : g.targets = q0 :: rest) (hnd : g.targets.Nodup) (hlt : ∀ w ∈ g.targets, w < n)
    (hl : g.targets.length = g.paulis.length)
    (hval : ∀ pid ∈ g.paulis, pid = 1 ∨ pid = 2 ∨ pid = 3)
    (rz : Gate) (hrzk : rz.kind = .RZ) (hrzw : rz.wires = [q0]) (hrzp : rz.p 0 = g.p 0)
    (r j : ℕ) (hr : r < 2 ^ n) (hj : j < 2 ^ n) :
    2 * semCirc ζ ρ (BpL (List.zip g.targets g.paulis)
          ++ (cnotList q0 rest.reverse ++ [rz] ++ cnotList q0 rest)
          ++ BmL (List.zip g.targets g.paulis)) r j
      = cL (List.zip g.targets g.paulis) * semCirc ζ ρ [g] r j := by
  have hq0 : q0 < n := hlt q0 (by rw [ht]; simp)
  have hrest : ∀ q ∈ rest, q ≠ q0 ∧ q < n := by
    intro q hq
    rw [ht, List.nodup_cons] at hnd
    exact ⟨fun e => hnd.1 (e ▸ hq), hlt q (by rw [ht]; simp [hq])⟩
  have hfst : (List.zip g.targets g.paulis).map (·.1) = g.targets :=
    List.map_fst_zip (le_of_eq hl)
  have hlnd : ((List.zip g.targets g.paulis).map (·.1)).Nodup := by rw [hfst]; exact hnd
  have hllt : ∀ x ∈ List.zip g.targets g.paulis, x.1 < n :=
    fun x hx => hlt x.1 (List.of_mem_zip hx).1
  have hlval : ∀ x ∈ List.zip g.targets g.paulis, x.2 = 1 ∨ x.2 = 2 ∨ x.2 = 3 :=
    fun x hx => hval x.2 (List.of_mem_zip hx).2
  have hws : ∀ w ∈ (List.zip g.targets g.paulis).map (·.1), w < n := by
    rw [hfst]; exact hlt
  obtain ⟨L1, L2⟩ := layer_ok (ζ := ζ) (ρ := ρ) hζ hρ h16 n _ hlnd hllt hlval
  have eZ : zList (q0 :: rest) = ZL (List.zip g.targets g.paulis) := by
    unfold ZL; rw [hfst, ht]
  have wfrz : WellFormed n [rz] := by
    intro x hx; simp only [List.mem_singleton] at hx; subst hx
    rw [hrzw]; exact ⟨by simp, by intro w h; simp at h; omega⟩
  have wfmid : WellFormed n (cnotList q0 rest.reverse ++ [rz] ++ cnotList q0 rest) :=
    WellFormed.append (WellFormed.append
      (wf_cnotList n q0 hq0 _ (fun q h => hrest q (List.mem_reverse.mp h))) wfrz)
      (wf_cnotList n q0 hq0 _ hrest)
  have wfZ : WellFormed n (zList (q0 :: rest)) := wf_zList n _ (by rw [← ht]; exact hlt)
  have key := lincomb_context (ζ := ζ) (ρ := ρ) n (BpL (List.zip g.targets g.paulis))
    (cnotList q0 rest.reverse ++ [rz] ++ cnotList q0 rest) [] (zList (q0 :: rest))
    (BmL (List.zip g.targets g.paulis)) wfmid (WellFormed.nil n) wfZ ((onWires_BmL _).wf hws)
    2 _ _ (fun r hr k hk' => middle_lincomb n q0 hq0 rest hrest rz hrzk hrzw r k hr hk') r hr j
  rw [key, List.append_nil, eZ, L1 r hr j hj, L2 r hr j hj]
  have hgP := pauli_gate_eq (ζ := ζ) (ρ := ρ) hζ n ({ g with kind := .Pauli } : Gate) rfl hc hnd hlt
    hl r j hr hj
  have hwt : g.wires = g.targets := by simp [Gate.wires, hc]
  rw [semCirc_pauliRot hζ hρ n g hk (by rw [hwt]; exact hnd) (by rw [hwt]; exact hlt) hc r j hr hj,
    hgP, hrzp]
  show _ * (_ * (idMat r j : K)) + _ = _
  ring

end QV.MatSound
