import QuriVerif.Model.C19
import QuriVerif.Found.Proj
/-
  C19 — helper lemmas (core Lean only).
-/
namespace QV.C19

/-! ### association lists -/

theorem look_append (a b : Frame) (q : Nat) :
    look (a ++ b) q = match look a q with | some v => some v | none => look b q := by
  induction a with
  | nil => simp [look]
  | cons kv r ih =>
    simp only [List.cons_append, look]
    split
    · rfl
    · exact ih

theorem look_mapVal (f : Nat → Nat) (a : Frame) (q : Nat) :
    look (a.map fun kv => (kv.1, f kv.2)) q = (look a q).map f := by
  induction a with
  | nil => simp [look]
  | cons kv r ih =>
    simp only [List.map_cons, look]
    split
    · rfl
    · exact ih

theorem look_stepMap (acc fr : Frame) (q : Nat) :
    look (stepMap acc fr) q = match look acc q with | some v => some (tr fr v) | none => look fr q := by
  unfold stepMap
  rw [look_append, look_mapVal]
  cases look acc q <;> rfl

/-- a value pushed through the remaining (outer) frames, exactly as `_update_qubit_map` does -/
def chain (frames : List Frame) (v : Nat) : Nat := frames.foldl (fun v fr => tr fr v) v

/-- denotation of a key in a frame stack: first frame (from the top) that knows the key, then `chain` -/
def den : List Frame → Nat → Option Nat
  | [], _ => none
  | fr :: rest, k =>
    match look fr k with
    | some v => some (chain rest v)
    | none => den rest k

theorem look_foldl_stepMap (frames : List Frame) (acc : Frame) (k : Nat) :
    look (frames.foldl stepMap acc) k =
      match look acc k with | some v => some (chain frames v) | none => den frames k := by
  induction frames generalizing acc with
  | nil => simp only [List.foldl_nil, chain, den]; cases look acc k <;> rfl
  | cons fr rest ih =>
    simp only [List.foldl_cons]
    rw [ih, look_stepMap]
    cases h : look acc k with
    | some v => simp [chain]
    | none =>
      simp only [den]

/-- `_update_qubit_map` computes the composition of the frame maps (no side condition) -/
theorem look_updMap (frames : List Frame) (k : Nat) : look (updMap frames) k = den frames k := by
  unfold updMap
  rw [look_foldl_stepMap]
  rfl

theorem chain_cons (fr : Frame) (rest : List Frame) (v : Nat) :
    chain (fr :: rest) v = chain rest (tr fr v) := rfl

theorem chain_of_den {frames : List Frame} {v w : Nat} (h : den frames v = some w) : chain frames v = w := by
  induction frames generalizing v with
  | nil => simp [den] at h
  | cons fr rest ih =>
    rw [chain_cons]
    unfold den at h
    unfold tr
    cases hl : look fr v with
    | some u => rw [hl] at h; simp only [Option.getD_some]; exact Option.some.inj h
    | none => rw [hl] at h; simp only [Option.getD_none]; exact ih h

theorem chain_fixed {frames : List Frame} {v : Nat} (h : ∀ fr ∈ frames, look fr v = none) :
    chain frames v = v := by
  induction frames with
  | nil => rfl
  | cons fr rest ih =>
    rw [chain_cons]
    have h1 : tr fr v = v := by unfold tr; rw [h fr List.mem_cons_self]; rfl
    rw [h1]
    exact ih fun f hf => h f (List.mem_cons_of_mem _ hf)

theorem look_zipFrom (l : List Nat) (s k : Nat) :
    look (zipFrom s l) k = if s ≤ k then l[k - s]? else none := by
  induction l generalizing s with
  | nil => simp [zipFrom, look]
  | cons q r ih =>
    simp only [zipFrom, look]
    by_cases h : s = k
    · subst h; simp
    · rw [if_neg h, ih]
      by_cases h2 : s ≤ k
      · have h3 : s + 1 ≤ k := by omega
        rw [if_pos h2, if_pos h3]
        have : k - s = (k - (s + 1)) + 1 := by omega
        rw [this, List.getElem?_cons_succ]
      · have h3 : ¬ s + 1 ≤ k := by omega
        rw [if_neg h2, if_neg h3]

theorem look_auxFrom (n a b k : Nat) :
    look (auxFrom a b n) k = if a ≤ k ∧ k < a + n then some (b + (k - a)) else none := by
  induction n generalizing a b with
  | zero => simp [auxFrom, look]
  | succ n ih =>
    simp only [auxFrom, look]
    by_cases h : a = k
    · subst h; simp
    · rw [if_neg h, ih]
      by_cases h2 : a ≤ k ∧ k < a + (n + 1)
      · have h3 : a + 1 ≤ k ∧ k < a + 1 + n := by omega
        rw [if_pos h2, if_pos h3]
        congr 1; omega
      · have h3 : ¬ (a + 1 ≤ k ∧ k < a + 1 + n) := by omega
        rw [if_neg h2, if_neg h3]

theorem look_argFrame (S : Sub) (qs : List Nat) (k : Nat) :
    look (argFrame S qs) k = if k < S.nArgs then qs[k]? else none := by
  unfold argFrame
  rw [look_zipFrom]
  simp only [Nat.zero_le, if_true, Nat.sub_zero]
  rw [List.getElem?_take]

theorem look_auxFrame (S : Sub) (idx k : Nat) :
    look (auxFrame S idx) k = if S.nArgs ≤ k ∧ k < S.nArgs + S.nAux then some (idx + (k - S.nArgs)) else none :=
  look_auxFrom _ _ _ _

/-! ### bodies -/

theorem bodyM_congr {f g : Inst → Except Err (List GateI)} {body : List Inst}
    (h : ∀ i ∈ body, f i = g i) : bodyM f body = bodyM g body := by
  induction body with
  | nil => rfl
  | cons i r ih =>
    simp only [bodyM]
    rw [h i List.mem_cons_self, ih fun j hj => h j (List.mem_cons_of_mem _ hj)]

theorem lookAll_ok {m : Frame} {f : Nat → Nat} {ps : List Nat}
    (h : ∀ q ∈ ps, look m q = some (f q)) : lookAll m ps = .ok (ps.map f) := by
  induction ps with
  | nil => rfl
  | cons q r ih =>
    simp only [lookAll]
    rw [h q List.mem_cons_self, ih fun x hx => h x (List.mem_cons_of_mem _ hx)]
    rfl

/-! ### hierarchical evaluation = expansion -/

/-- no frame of the stack has a key `≥ n` -/
def NoKeyGE (frames : List Frame) (n : Nat) : Prop := ∀ fr ∈ frames, ∀ k, n ≤ k → look fr k = none

theorem subOK_inst {prog : List Sub} {S : Sub} (h : subOK prog S = true) {i : Inst} (hi : i ∈ S.body) :
    instOK prog S i = true := by
  unfold subOK at h
  exact List.all_eq_true.mp h i hi

/-- facts about the state right after a sub has been entered -/
theorem entered_facts (S : Sub) (frames : List Frame) (idx : Nat) (qs : List Nat) (ρc : Nat → Nat)
    (hlen : qs.length = S.nArgs)
    (hchain : ∀ q ∈ qs, chain frames q = ρc q)
    (hlt : ∀ q ∈ qs, ρc q < idx)
    (hkeys : NoKeyGE frames idx)
    (hargs : S.nArgs ≤ idx) :
    let frames' := auxFrame S idx :: argFrame S qs :: frames
    let ρ := tr (envOf S idx (qs.map ρc))
    (∀ q, q < S.size → den frames' q = some (ρ q)) ∧
    (∀ q, q < S.size → ρ q < idx + S.nAux) ∧
    NoKeyGE frames' (idx + S.nAux) ∧ S.size ≤ idx + S.nAux := by
  intro frames' ρ
  have hρ : ∀ q, q < S.size → ρ q = if q < S.nArgs then ρc (qs[q]?.getD 0) else idx + (q - S.nArgs) := by
    intro q hq
    show tr (envOf S idx (qs.map ρc)) q = _
    unfold tr envOf
    rw [look_append, look_auxFrame, look_argFrame]
    unfold Sub.size at hq
    by_cases h1 : q < S.nArgs
    · have h2 : ¬ (S.nArgs ≤ q ∧ q < S.nArgs + S.nAux) := by omega
      rw [if_neg h2, if_pos h1, if_pos h1]
      have h3 : q < qs.length := by omega
      simp [List.getElem?_map, List.getElem?_eq_getElem h3]
    · have h2 : S.nArgs ≤ q ∧ q < S.nArgs + S.nAux := by omega
      simp only [if_pos h2, if_neg h1, Option.getD_some]
  refine ⟨?_, ?_, ?_, ?_⟩
  · intro q hq
    rw [hρ q hq]
    show den (auxFrame S idx :: argFrame S qs :: frames) q = _
    unfold Sub.size at hq
    by_cases h1 : q < S.nArgs
    · have h2 : ¬ (S.nArgs ≤ q ∧ q < S.nArgs + S.nAux) := by omega
      have h3 : q < qs.length := by omega
      rw [if_pos h1]
      simp only [den, look_auxFrame, if_neg h2, look_argFrame, if_pos h1, List.getElem?_eq_getElem h3,
        Option.getD_some]
      rw [hchain _ (List.getElem_mem h3)]
    · have h2 : S.nArgs ≤ q ∧ q < S.nArgs + S.nAux := by omega
      rw [if_neg h1]
      simp only [den, look_auxFrame, if_pos h2]
      congr 1
      apply chain_fixed
      intro fr hfr
      rcases List.mem_cons.mp hfr with rfl | hfr
      · rw [look_argFrame]
        have : ¬ (idx + (q - S.nArgs) < S.nArgs) := by omega
        rw [if_neg this]
      · exact hkeys fr hfr _ (by omega)
  · intro q hq
    rw [hρ q hq]
    unfold Sub.size at hq
    by_cases h1 : q < S.nArgs
    · have h3 : q < qs.length := by omega
      rw [if_pos h1, List.getElem?_eq_getElem h3]
      have := hlt _ (List.getElem_mem h3)
      simp only [Option.getD_some]
      omega
    · rw [if_neg h1]; omega
  · intro fr hfr k hk
    rcases List.mem_cons.mp hfr with rfl | hfr
    · rw [look_auxFrame]
      have : ¬ (S.nArgs ≤ k ∧ k < S.nArgs + S.nAux) := by omega
      rw [if_neg this]
    · rcases List.mem_cons.mp hfr with rfl | hfr
      · rw [look_argFrame]
        have : ¬ (k < S.nArgs) := by omega
        rw [if_neg this]
      · exact hkeys fr hfr k (by omega)
  · unfold Sub.size; omega

/-- hypotheses under which a call is evaluated the same way hierarchically and by expansion -/
structure CallOK (prog : List Sub) (frames : List Frame) (idx c : Nat) (qs : List Nat) (ρc : Nat → Nat) : Prop where
  arity : ∀ C, prog[c]? = some C → qs.length = C.nArgs ∧ C.nArgs ≤ idx
  chain : ∀ q ∈ qs, chain frames q = ρc q
  lt : ∀ q ∈ qs, ρc q < idx
  keys : NoKeyGE frames idx

theorem runSub_eq (prog : List Sub) (S : Sub) (hS : subOK prog S = true)
    (callE : List Frame → Nat → Nat → List Nat → Except Err (List GateI))
    (callX : Nat → Nat → List Nat → Except Err (List GateI))
    (frames : List Frame) (idx : Nat) (qs : List Nat) (ρc : Nat → Nat)
    (hlen : qs.length = S.nArgs)
    (hchain : ∀ q ∈ qs, chain frames q = ρc q)
    (hlt : ∀ q ∈ qs, ρc q < idx)
    (hkeys : NoKeyGE frames idx)
    (hargs : S.nArgs ≤ idx)
    (hcall : ∀ frames' idx' c ps ρ, CallOK prog frames' idx' c ps ρ →
      callE frames' idx' c ps = callX idx' c (ps.map ρ)) :
    runSub callE frames idx S qs = runSubX callX idx S (qs.map ρc) := by
  obtain ⟨f1, f2, f3, f4⟩ := entered_facts S frames idx qs ρc hlen hchain hlt hkeys hargs
  unfold runSub runSubX
  apply bodyM_congr
  intro i hi
  have hok := subOK_inst hS hi
  cases i with
  | prim o ps =>
    simp only [instOK, List.all_eq_true, decide_eq_true_eq] at hok
    simp only
    rw [lookAll_ok (f := tr (envOf S idx (qs.map ρc)))]
    intro q hq
    rw [look_updMap]
    exact f1 q (hok q hq)
  | call c ps =>
    simp only [instOK, Bool.and_eq_true, List.all_eq_true, decide_eq_true_eq] at hok
    simp only
    apply hcall
    refine ⟨?_, ?_, ?_, f3⟩
    · intro C hC
      rw [hC] at hok
      simp only [Bool.and_eq_true, beq_iff_eq, decide_eq_true_eq] at hok
      exact ⟨hok.2.1, by omega⟩
    · intro q hq
      exact chain_of_den (f1 q (hok.1 q hq))
    · intro q hq
      exact f2 q (hok.1 q hq)

theorem evalSubF_eq_expandSubF (prog : List Sub) (hprog : ∀ S ∈ prog, subOK prog S = true) :
    ∀ (fuel : Nat) (cs : List Nat) (frames : List Frame) (idx c : Nat) (qs : List Nat) (ρc : Nat → Nat),
      CallOK prog frames idx c qs ρc →
      evalSubF prog fuel cs frames idx c qs = expandSubF prog fuel cs idx c (qs.map ρc) := by
  intro fuel
  induction fuel with
  | zero => intros; rfl
  | succ fuel ih =>
    intro cs frames idx c qs ρc h
    unfold evalSubF expandSubF
    cases hc : prog[c]? with
    | none => rfl
    | some S =>
      simp only
      split
      · rfl
      · have hmem : S ∈ prog := List.mem_of_getElem? hc
        obtain ⟨ha1, ha2⟩ := h.arity S hc
        exact runSub_eq prog S (hprog S hmem) _ _ frames idx qs ρc ha1 h.chain h.lt h.keys ha2
          (fun frames' idx' c' ps ρ hh => ih (c :: cs) frames' idx' c' ps ρ hh)

theorem WF_root {p : Program} (h : WF p = true) : subOK p.table p.root = true := by
  unfold WF at h; exact (Bool.and_eq_true _ _ ▸ h).1

theorem WF_table {p : Program} (h : WF p = true) : ∀ S ∈ p.table, subOK p.table S = true := by
  unfold WF at h
  have := (Bool.and_eq_true _ _ ▸ h).2
  exact List.all_eq_true.mp this

theorem eval_eq_expand_of_WF (p : Program) (h : WF p = true) : eval p = expand p := by
  unfold eval expand
  have hid : (List.range p.root.nArgs) = (List.range p.root.nArgs).map id := by simp
  rw [hid]
  have := runSub_eq p.table p.root (WF_root h) (evalSubF p.table (fuelOf p) []) (expandSubF p.table (fuelOf p) [])
    [] p.root.nArgs (List.range p.root.nArgs) id (by simp) (by intro q _; rfl)
    (by intro q hq; simpa using hq) (by intro fr hfr; cases hfr) (Nat.le_refl _)
    (fun frames' idx' c ps ρ hh => evalSubF_eq_expandSubF p.table (WF_table h) _ _ frames' idx' c ps ρ hh)
  simpa using this

/-! ### call depth, acyclicity -/

theorem depthOK_succ {prog : List Sub} {k c : Nat} {S : Sub} (hc : prog[c]? = some S) :
    depthOK prog (k + 1) c = (callees S).all (depthOK prog k) := by
  simp only [depthOK, hc]

theorem depthOK_valid {prog : List Sub} {k c : Nat} (h : depthOK prog k c = true) :
    ∃ S, prog[c]? = some S := by
  cases k with
  | zero => simp [depthOK] at h
  | succ k =>
    cases hc : prog[c]? with
    | none => simp [depthOK, hc] at h
    | some S => exact ⟨S, rfl⟩

theorem depthOK_mono {prog : List Sub} : ∀ {k c : Nat}, depthOK prog k c = true → depthOK prog (k + 1) c = true := by
  intro k
  induction k with
  | zero => intro c h; simp [depthOK] at h
  | succ k ih =>
    intro c h
    obtain ⟨S, hc⟩ := depthOK_valid h
    rw [depthOK_succ hc] at h ⊢
    rw [List.all_eq_true] at h ⊢
    exact fun x hx => ih (h x hx)

theorem depthOK_le {prog : List Sub} {k k' c : Nat} (hk : k ≤ k') (h : depthOK prog k c = true) :
    depthOK prog k' c = true := by
  induction hk with
  | refl => exact h
  | step _ ih => exact depthOK_mono ih

/-- `c` lies strictly below `d` in the call graph, phrased through depth bounds -/
def Below (prog : List Sub) (c d : Nat) : Prop := ∀ n, depthOK prog (n + 1) d = true → depthOK prog n c = true

theorem below_callee {prog : List Sub} {c c' : Nat} {S : Sub} (hc : prog[c]? = some S) (h : c' ∈ callees S) :
    Below prog c' c := by
  intro n hn
  rw [depthOK_succ hc, List.all_eq_true] at hn
  exact hn c' h

theorem below_trans_callee {prog : List Sub} {c c' d : Nat} {S : Sub} (hc : prog[c]? = some S)
    (h : c' ∈ callees S) (hb : Below prog c d) : Below prog c' d := by
  intro n hn
  have h1 := hb n hn
  cases n with
  | zero => simp [depthOK] at h1
  | succ m => exact depthOK_mono (below_callee hc h m h1)

theorem not_below_self {prog : List Sub} {k c : Nat} (h : depthOK prog k c = true) : ¬ Below prog c c := by
  intro hb
  induction k with
  | zero => simp [depthOK] at h
  | succ k ih => exact ih (hb k h)

theorem not_mem_stack {prog : List Sub} {k c : Nat} {cs : List Nat} (h : depthOK prog k c = true)
    (hb : ∀ d ∈ cs, Below prog c d) : c ∉ cs :=
  fun hm => not_below_self h (hb c hm)

theorem below_stack_step {prog : List Sub} {c c' : Nat} {S : Sub} {cs : List Nat} (hc : prog[c]? = some S)
    (h : c' ∈ callees S) (hb : ∀ d ∈ cs, Below prog c d) : ∀ d ∈ c :: cs, Below prog c' d := by
  intro d hd
  rcases List.mem_cons.mp hd with rfl | hd
  · exact below_callee hc h
  · exact below_trans_callee hc h (hb d hd)

theorem mem_callees {S : Sub} {c : Nat} {qs : List Nat} (h : Inst.call c qs ∈ S.body) : c ∈ callees S := by
  unfold callees
  rw [List.mem_filterMap]
  exact ⟨_, h, rfl⟩

/-- pigeonhole: a duplicate-free list of numbers below `n` has at most `n` elements -/
theorem nodup_bounded_length : ∀ (n : Nat) (l : List Nat), l.Nodup → (∀ x ∈ l, x < n) → l.length ≤ n := by
  intro n
  induction n with
  | zero =>
    intro l _ h
    cases l with
    | nil => simp
    | cons x r => exact absurd (h x List.mem_cons_self) (Nat.not_lt_zero _)
  | succ n ih =>
    intro l hnd h
    by_cases hm : n ∈ l
    · have h1 := ih (l.erase n) (hnd.erase n) (by
        intro x hx
        have h2 := (hnd.mem_erase_iff).mp hx
        have := h x h2.2
        omega)
      rw [List.length_erase_of_mem hm] at h1
      omega
    · have h1 := ih l hnd (by
        intro x hx
        have := h x hx
        have : x ≠ n := fun e => hm (e ▸ hx)
        omega)
      omega

/-- the call depth of an acyclic table is bounded by its size: the decidable `Acyclic` loses nothing -/
theorem depthOK_bound_aux {prog : List Sub} : ∀ (k c : Nat) (cs : List Nat), depthOK prog k c = true →
    cs.Nodup → (∀ d ∈ cs, d < prog.length) → (∀ d ∈ cs, Below prog c d) →
    depthOK prog (prog.length + 1 - cs.length) c = true := by
  intro k
  induction k with
  | zero => intro c cs h; simp [depthOK] at h
  | succ k ih =>
    intro c cs h hnd hlt hb
    obtain ⟨S, hc⟩ := depthOK_valid h
    have hclt : c < prog.length := by
      have := List.getElem?_eq_some_iff.mp hc
      exact this.1
    have hnot : c ∉ cs := not_mem_stack h hb
    have hnd' : (c :: cs).Nodup := List.nodup_cons.mpr ⟨hnot, hnd⟩
    have hlt' : ∀ d ∈ c :: cs, d < prog.length := by
      intro d hd
      rcases List.mem_cons.mp hd with rfl | hd
      · exact hclt
      · exact hlt d hd
    have hlen := nodup_bounded_length prog.length (c :: cs) hnd' hlt'
    simp only [List.length_cons] at hlen
    have he : prog.length + 1 - cs.length = (prog.length - cs.length) + 1 := by omega
    rw [he, depthOK_succ hc, List.all_eq_true]
    intro c' hc'
    rw [depthOK_succ hc, List.all_eq_true] at h
    have := ih c' (c :: cs) (h c' hc') hnd' hlt' (below_stack_step hc hc' hb)
    simp only [List.length_cons] at this
    have he2 : prog.length + 1 - (cs.length + 1) = prog.length - cs.length := by omega
    rw [he2] at this
    exact this

theorem depthOK_bound {prog : List Sub} {k c : Nat} (h : depthOK prog k c = true) :
    depthOK prog (prog.length + 1) c = true := by
  have := depthOK_bound_aux k c [] h List.nodup_nil (by simp) (by simp)
  simpa using this

/-! ### expansion: acceptance of acyclic programs, rejection of cyclic ones -/

theorem bodyM_ok {f : Inst → Except Err (List GateI)} {body : List Inst}
    (h : ∀ i ∈ body, ∃ r, f i = .ok r) : ∃ r, bodyM f body = .ok r := by
  induction body with
  | nil => exact ⟨[], rfl⟩
  | cons i r ih =>
    obtain ⟨a, ha⟩ := h i List.mem_cons_self
    obtain ⟨b, hb⟩ := ih fun j hj => h j (List.mem_cons_of_mem _ hj)
    exact ⟨a ++ b, by simp only [bodyM, ha, hb]⟩

theorem bodyM_ok_inv {f : Inst → Except Err (List GateI)} {body : List Inst} {r : List GateI}
    (h : bodyM f body = .ok r) : ∀ i ∈ body, ∃ r', f i = .ok r' := by
  induction body generalizing r with
  | nil => intro i hi; cases hi
  | cons i rest ih =>
    simp only [bodyM] at h
    cases hf : f i with
    | error e => rw [hf] at h; cases h
    | ok a =>
      rw [hf] at h
      cases hb : bodyM f rest with
      | error e => rw [hb] at h; cases h
      | ok b =>
        intro j hj
        rcases List.mem_cons.mp hj with rfl | hj
        · exact ⟨a, hf⟩
        · exact ih hb j hj

theorem bodyM_ok_or {f : Inst → Except Err (List GateI)} {body : List Inst} {e : Err}
    (h : ∀ i ∈ body, (∃ r, f i = .ok r) ∨ f i = .error e) :
    (∃ r, bodyM f body = .ok r) ∨ bodyM f body = .error e := by
  induction body with
  | nil => exact Or.inl ⟨[], rfl⟩
  | cons i r ih =>
    simp only [bodyM]
    rcases h i List.mem_cons_self with ⟨a, ha⟩ | ha
    · rw [ha]
      rcases ih fun j hj => h j (List.mem_cons_of_mem _ hj) with ⟨b, hb⟩ | hb
      · rw [hb]; exact Or.inl ⟨_, rfl⟩
      · rw [hb]; exact Or.inr rfl
    · rw [ha]; exact Or.inr rfl

theorem expandSubF_ok_of_depth (prog : List Sub) : ∀ (k fuel : Nat) (cs : List Nat) (idx c : Nat) (as : List Nat),
    depthOK prog k c = true → k ≤ fuel → (∀ d ∈ cs, Below prog c d) →
    ∃ gs, expandSubF prog fuel cs idx c as = .ok gs := by
  intro k
  induction k with
  | zero => intro fuel cs idx c as h; simp [depthOK] at h
  | succ k ih =>
    intro fuel cs idx c as h hk hb
    obtain ⟨S, hc⟩ := depthOK_valid h
    cases fuel with
    | zero => omega
    | succ fuel =>
      unfold expandSubF
      simp only [hc]
      rw [if_neg (not_mem_stack h hb)]
      unfold runSubX
      apply bodyM_ok
      intro i hi
      cases i with
      | prim o ps => exact ⟨_, rfl⟩
      | call c' ps =>
        have hc' := mem_callees hi
        rw [depthOK_succ hc, List.all_eq_true] at h
        exact ih fuel (c :: cs) _ c' _ (h c' hc') (by omega) (below_stack_step hc hc' hb)

theorem depth_of_expandSubF_ok (prog : List Sub) : ∀ (fuel : Nat) (cs : List Nat) (idx c : Nat) (as : List Nat)
    (gs : List GateI), expandSubF prog fuel cs idx c as = .ok gs → depthOK prog fuel c = true := by
  intro fuel
  induction fuel with
  | zero => intro cs idx c as gs h; simp [expandSubF] at h
  | succ fuel ih =>
    intro cs idx c as gs h
    unfold expandSubF at h
    cases hc : prog[c]? with
    | none => simp [hc] at h
    | some S =>
      simp only [hc] at h
      split at h
      · cases h
      · rw [depthOK_succ hc, List.all_eq_true]
        intro c' hc'
        unfold callees at hc'
        rw [List.mem_filterMap] at hc'
        obtain ⟨i, hi, hic⟩ := hc'
        cases i with
        | prim o ps => simp at hic
        | call c'' ps =>
          simp only [Option.some.injEq] at hic
          subst hic
          obtain ⟨r', hr'⟩ := bodyM_ok_inv h _ hi
          exact ih _ _ _ _ _ hr'

/-- every callee index that occurs anywhere is a valid table index -/
def Linked (prog : List Sub) : Prop := ∀ S ∈ prog, ∀ c ∈ callees S, c < prog.length

theorem expandSubF_ok_or_recursion (prog : List Sub) (hl : Linked prog) :
    ∀ (fuel : Nat) (cs : List Nat) (idx c : Nat) (as : List Nat), cs.Nodup → (∀ d ∈ cs, d < prog.length) →
    prog.length + 1 ≤ cs.length + fuel → c < prog.length →
    (∃ gs, expandSubF prog fuel cs idx c as = .ok gs) ∨ expandSubF prog fuel cs idx c as = .error .recursion := by
  intro fuel
  induction fuel with
  | zero =>
    intro cs idx c as hnd hlt hlen _
    have := nodup_bounded_length prog.length cs hnd hlt
    omega
  | succ fuel ih =>
    intro cs idx c as hnd hlt hlen hc
    unfold expandSubF
    have hS : prog[c]? = some prog[c] := List.getElem?_eq_getElem hc
    simp only [hS]
    split
    · exact Or.inr rfl
    · rename_i hnot
      unfold runSubX
      apply bodyM_ok_or
      intro i hi
      cases i with
      | prim o ps => exact Or.inl ⟨_, rfl⟩
      | call c' ps =>
        have hc' : c' < prog.length := hl prog[c] (List.getElem_mem hc) c' (mem_callees hi)
        exact ih (c :: cs) _ c' _ (List.nodup_cons.mpr ⟨hnot, hnd⟩)
          (by intro d hd; rcases List.mem_cons.mp hd with rfl | hd; exact hc; exact hlt d hd)
          (by simp only [List.length_cons]; omega) hc'

theorem linked_of_WF {p : Program} (h : WF p = true) : Linked p.table := by
  intro S hS c hc
  have hok := WF_table h S hS
  unfold callees at hc
  rw [List.mem_filterMap] at hc
  obtain ⟨i, hi, hic⟩ := hc
  cases i with
  | prim o ps => simp at hic
  | call c'' ps =>
    simp only [Option.some.injEq] at hic
    subst hic
    have := subOK_inst hok hi
    simp only [instOK, Bool.and_eq_true] at this
    cases hg : p.table[c'']? with
    | none => rw [hg] at this; simp at this
    | some C => exact (List.getElem?_eq_some_iff.mp hg).1

theorem root_callees_valid {p : Program} (h : WF p = true) : ∀ c ∈ callees p.root, c < p.table.length := by
  intro c hc
  have hok := WF_root h
  unfold callees at hc
  rw [List.mem_filterMap] at hc
  obtain ⟨i, hi, hic⟩ := hc
  cases i with
  | prim o ps => simp at hic
  | call c'' ps =>
    simp only [Option.some.injEq] at hic
    subst hic
    have := subOK_inst hok hi
    simp only [instOK, Bool.and_eq_true] at this
    cases hg : p.table[c'']? with
    | none => rw [hg] at this; simp at this
    | some C => exact (List.getElem?_eq_some_iff.mp hg).1

theorem expand_ok_of_acyclic (p : Program) (h : Acyclic p = true) : ∃ gs, expand p = .ok gs := by
  unfold expand runSubX
  apply bodyM_ok
  intro i hi
  cases i with
  | prim o ps => exact ⟨_, rfl⟩
  | call c ps =>
    unfold Acyclic at h
    rw [List.all_eq_true] at h
    exact expandSubF_ok_of_depth p.table _ _ [] _ c _ (h c (mem_callees hi)) (Nat.le_refl _) (by simp)

theorem acyclic_of_expand_ok (p : Program) {gs : List GateI} (h : expand p = .ok gs) : Acyclic p = true := by
  unfold Acyclic
  rw [List.all_eq_true]
  intro c hc
  unfold callees at hc
  rw [List.mem_filterMap] at hc
  obtain ⟨i, hi, hic⟩ := hc
  cases i with
  | prim o ps => simp at hic
  | call c'' ps =>
    simp only [Option.some.injEq] at hic
    subst hic
    unfold expand runSubX at h
    obtain ⟨r', hr'⟩ := bodyM_ok_inv h _ hi
    exact depth_of_expandSubF_ok _ _ _ _ _ _ _ hr'

theorem expand_ok_or_recursion (p : Program) (h : WF p = true) :
    (∃ gs, expand p = .ok gs) ∨ expand p = .error .recursion := by
  unfold expand runSubX
  apply bodyM_ok_or
  intro i hi
  cases i with
  | prim o ps => exact Or.inl ⟨_, rfl⟩
  | call c ps =>
    exact expandSubF_ok_or_recursion p.table (linked_of_WF h) _ [] _ c _ List.nodup_nil (by simp)
      (by simp [fuelOf]) (root_callees_valid h c (mem_callees hi))

/-! ### memoised summaries -/

section memo
variable {α : Type} (A : Alg α) (prog : List Sub)

def bodyCallees (body : List Inst) : List Nat :=
  body.filterMap fun i => match i with | .call c _ => some c | .prim _ _ => none

theorem plainBody_congr {f g : Nat → α} {body : List Inst} (h : ∀ c ∈ bodyCallees body, f c = g c) (a : α) :
    plainBody A f body a = plainBody A g body a := by
  induction body generalizing a with
  | nil => rfl
  | cons i r ih =>
    cases i with
    | prim o ps =>
      simp only [plainBody]
      exact ih (fun c hc => h c (by simpa [bodyCallees] using hc)) _
    | call c ps =>
      simp only [plainBody]
      rw [h c (by simp [bodyCallees])]
      exact ih (fun c' hc' => h c' (by simp only [bodyCallees, List.filterMap_cons]; exact List.mem_cons_of_mem _ hc')) _

theorem plainF_stable : ∀ {k c : Nat}, depthOK prog k c = true → plainF A prog (k + 1) c = plainF A prog k c := by
  intro k
  induction k with
  | zero => intro c h; simp [depthOK] at h
  | succ k ih =>
    intro c h
    obtain ⟨S, hc⟩ := depthOK_valid h
    rw [depthOK_succ hc, List.all_eq_true] at h
    simp only [plainF, hc]
    congr 1
    apply plainBody_congr
    intro c' hc'
    exact ih (h c' hc')

theorem plainF_stable_le {k k' c : Nat} (hk : k ≤ k') (h : depthOK prog k c = true) :
    plainF A prog k' c = plainF A prog k c := by
  induction hk with
  | refl => rfl
  | step hle ih => rw [plainF_stable A prog (depthOK_le hle h), ih]

/-- every cached value is the true summary of an acyclic sub -/
def CacheOK (ch : Cache α) : Prop :=
  ∀ c v, clook ch c = some v → ∃ k, depthOK prog k c = true ∧ v = plainF A prog k c

theorem memoBody_sound (callF : Cache α → Nat → Except Err (α × Cache α))
    (hcall : ∀ ch c v ch', callF ch c = .ok (v, ch') → CacheOK A prog ch →
      (∃ k, depthOK prog k c = true ∧ v = plainF A prog k c) ∧ CacheOK A prog ch') :
    ∀ (body : List Inst) (a : α) (ch : Cache α) (a' : α) (ch' : Cache α),
      memoBody A callF body a ch = .ok (a', ch') → CacheOK A prog ch →
      (∃ k, (∀ c ∈ bodyCallees body, depthOK prog k c = true) ∧ a' = plainBody A (plainF A prog k) body a) ∧
      CacheOK A prog ch' := by
  intro body
  induction body with
  | nil =>
    intro a ch a' ch' h hch
    simp only [memoBody, Except.ok.injEq, Prod.mk.injEq] at h
    obtain ⟨rfl, rfl⟩ := h
    exact ⟨⟨0, by simp [bodyCallees], rfl⟩, hch⟩
  | cons i r ih =>
    intro a ch a' ch' h hch
    cases i with
    | prim o ps =>
      simp only [memoBody] at h
      obtain ⟨⟨k, hk1, hk2⟩, hc'⟩ := ih _ _ _ _ h hch
      exact ⟨⟨k, by simpa [bodyCallees] using hk1, by simpa [plainBody] using hk2⟩, hc'⟩
    | call c ps =>
      simp only [memoBody] at h
      cases hf : callF ch c with
      | error e => rw [hf] at h; cases h
      | ok vc =>
        obtain ⟨v, ch1⟩ := vc
        rw [hf] at h
        simp only at h
        obtain ⟨⟨k1, hd1, hv1⟩, hch1⟩ := hcall ch c v ch1 hf hch
        obtain ⟨⟨k2, hk1, hk2⟩, hc'⟩ := ih _ _ _ _ h hch1
        refine ⟨⟨max k1 k2, ?_, ?_⟩, hc'⟩
        · intro c' hc'm
          simp only [bodyCallees, List.filterMap_cons, List.mem_cons] at hc'm
          rcases hc'm with rfl | hc'm
          · exact depthOK_le (Nat.le_max_left _ _) hd1
          · exact depthOK_le (Nat.le_max_right _ _) (hk1 c' hc'm)
        · simp only [plainBody]
          rw [plainF_stable_le A prog (Nat.le_max_left k1 k2) hd1, ← hv1, hk2]
          apply plainBody_congr
          intro c' hc'm
          exact (plainF_stable_le A prog (Nat.le_max_right k1 k2) (hk1 c' hc'm)).symm

theorem clook_cons (ch : Cache α) (c c' : Nat) (v : α) :
    clook ((c, v) :: ch) c' = if c = c' then some v else clook ch c' := rfl

theorem callees_eq_bodyCallees (S : Sub) : callees S = bodyCallees S.body := rfl

theorem memoSubF_sound : ∀ (fuel : Nat) (cs : List Nat) (ch : Cache α) (c : Nat) (v : α) (ch' : Cache α),
    memoSubF A prog fuel cs ch c = .ok (v, ch') → CacheOK A prog ch →
    (∃ k, depthOK prog k c = true ∧ v = plainF A prog k c) ∧ CacheOK A prog ch' := by
  intro fuel
  induction fuel with
  | zero => intro cs ch c v ch' h; simp [memoSubF] at h
  | succ fuel ih =>
    intro cs ch c v ch' h hch
    unfold memoSubF at h
    cases hc : prog[c]? with
    | none => simp [hc] at h
    | some S =>
      simp only [hc] at h
      split at h
      · cases h
      · cases hl : clook ch c with
        | some w =>
          rw [hl] at h
          simp only [Except.ok.injEq, Prod.mk.injEq] at h
          obtain ⟨rfl, rfl⟩ := h
          exact ⟨hch c w hl, hch⟩
        | none =>
          rw [hl] at h
          simp only at h
          cases hb : memoBody A (memoSubF A prog fuel (c :: cs)) S.body A.zero ch with
          | error e => rw [hb] at h; cases h
          | ok r =>
            obtain ⟨a, ch1⟩ := r
            rw [hb] at h
            simp only [Except.ok.injEq, Prod.mk.injEq] at h
            obtain ⟨rfl, rfl⟩ := h
            obtain ⟨⟨k, hk1, hk2⟩, hch1⟩ := memoBody_sound A prog _ (fun ch0 c0 v0 ch0' => ih (c :: cs) ch0 c0 v0 ch0')
              S.body A.zero ch a ch1 hb hch
            have hd : depthOK prog (k + 1) c = true := by
              rw [depthOK_succ hc, List.all_eq_true]; exact hk1
            have hv : A.fin S a = plainF A prog (k + 1) c := by
              simp only [plainF, hc]; rw [hk2]
            refine ⟨⟨k + 1, hd, hv⟩, ?_⟩
            intro c0 v0 h0
            rw [clook_cons] at h0
            split at h0
            · rename_i he
              subst he
              simp only [Option.some.injEq] at h0
              subst h0
              exact ⟨k + 1, hd, hv⟩
            · exact hch1 c0 v0 h0

theorem memoBody_ok (callF : Cache α → Nat → Except Err (α × Cache α)) (body : List Inst)
    (h : ∀ c ∈ bodyCallees body, ∀ ch, ∃ r, callF ch c = .ok r) :
    ∀ (a : α) (ch : Cache α), ∃ r, memoBody A callF body a ch = .ok r := by
  induction body with
  | nil => intro a ch; exact ⟨_, rfl⟩
  | cons i r ih =>
    intro a ch
    cases i with
    | prim o ps =>
      simp only [memoBody]
      exact ih (fun c hc => h c (by simpa [bodyCallees] using hc)) _ _
    | call c ps =>
      simp only [memoBody]
      obtain ⟨⟨v, ch1⟩, hr⟩ := h c (by simp [bodyCallees]) ch
      rw [hr]
      exact ih (fun c' hc' => h c' (by simp only [bodyCallees, List.filterMap_cons]; exact List.mem_cons_of_mem _ hc')) _ _

theorem memoSubF_ok_of_depth : ∀ (k fuel : Nat) (cs : List Nat) (ch : Cache α) (c : Nat),
    depthOK prog k c = true → k ≤ fuel → (∀ d ∈ cs, Below prog c d) →
    ∃ r, memoSubF A prog fuel cs ch c = .ok r := by
  intro k
  induction k with
  | zero => intro fuel cs ch c h; simp [depthOK] at h
  | succ k ih =>
    intro fuel cs ch c h hk hb
    obtain ⟨S, hc⟩ := depthOK_valid h
    cases fuel with
    | zero => omega
    | succ fuel =>
      unfold memoSubF
      simp only [hc]
      rw [if_neg (not_mem_stack h hb)]
      cases hl : clook ch c with
      | some w => exact ⟨_, rfl⟩
      | none =>
        simp only
        rw [depthOK_succ hc, List.all_eq_true] at h
        obtain ⟨⟨a, ch1⟩, hr⟩ := memoBody_ok A (memoSubF A prog fuel (c :: cs)) S.body
          (fun c' hc' ch0 => ih fuel (c :: cs) ch0 c' (h c' hc') (by omega) (below_stack_step hc hc' hb)) A.zero ch
        rw [hr]
        exact ⟨_, rfl⟩

end memo

theorem cacheOK_nil {α : Type} (A : Alg α) (prog : List Sub) : CacheOK A prog ([] : Cache α) := by
  intro c v h; simp [clook] at h

/-- memoised root summary = plain summary, for acyclic programs -/
theorem memoRoot_eq_plain {α : Type} (A : Alg α) (p : Program) (h : Acyclic p = true) :
    memoRoot A p = .ok (plainRoot A p) := by
  unfold Acyclic at h
  rw [List.all_eq_true] at h
  obtain ⟨⟨a, ch1⟩, hr⟩ := memoBody_ok A (memoSubF A p.table (fuelOf p) []) p.root.body
    (fun c hc ch0 => memoSubF_ok_of_depth A p.table _ _ [] ch0 c (h c hc) (Nat.le_refl _) (by simp)) A.zero []
  obtain ⟨⟨k, hk1, hk2⟩, _⟩ := memoBody_sound A p.table _
    (fun ch0 c0 v0 ch0' => memoSubF_sound A p.table (fuelOf p) [] ch0 c0 v0 ch0') p.root.body A.zero [] a ch1 hr
    (cacheOK_nil A p.table)
  unfold memoRoot plainRoot
  rw [hr]
  simp only
  congr 2
  rw [hk2]
  apply plainBody_congr
  intro c hc
  rcases Nat.le_total k (fuelOf p) with hle | hle
  · exact (plainF_stable_le A p.table hle (hk1 c hc)).symm
  · exact plainF_stable_le A p.table hle (h c hc)

/-- a memoised evaluator that returns a value has seen an acyclic program -/
theorem acyclic_of_memoRoot_ok {α : Type} (A : Alg α) (p : Program) {v : α} (h : memoRoot A p = .ok v) :
    Acyclic p = true := by
  unfold memoRoot at h
  cases hb : memoBody A (memoSubF A p.table (fuelOf p) []) p.root.body A.zero [] with
  | error e => rw [hb] at h; cases h
  | ok r =>
    obtain ⟨a, ch1⟩ := r
    obtain ⟨⟨k, hk1, _⟩, _⟩ := memoBody_sound A p.table _
      (fun ch0 c0 v0 ch0' => memoSubF_sound A p.table (fuelOf p) [] ch0 c0 v0 ch0') p.root.body A.zero [] a ch1 hb
      (cacheOK_nil A p.table)
    unfold Acyclic
    rw [List.all_eq_true]
    intro c hc
    exact depthOK_bound (hk1 c hc)

/-! ### summaries versus the generated gate list -/

theorem countOp_append (filt : List Nat) (t : Nat) (a b : List GateI) :
    countOp filt t (a ++ b) = countOp filt t a + countOp filt t b := by
  simp [countOp, List.filter_append]

def contrib (filt : List Nat) (t : Nat) (f : Nat → Nat) : Inst → Nat
  | .prim o _ => if o = t ∧ counted filt o = true then 1 else 0
  | .call c _ => f c

theorem gateAlg_prim (filt : List Nat) (t o a : Nat) :
    (gateAlg filt t).prim o a = if o = t ∧ counted filt o = true then a + 1 else a := rfl
theorem gateAlg_merge (filt : List Nat) (t a v : Nat) : (gateAlg filt t).merge a v = a + v := rfl
theorem gateAlg_fin (filt : List Nat) (t : Nat) (S : Sub) (a : Nat) : (gateAlg filt t).fin S a = a := rfl
theorem gateAlg_zero (filt : List Nat) (t : Nat) : (gateAlg filt t).zero = 0 := rfl

theorem plainBody_gate (filt : List Nat) (t : Nat) (F : Inst → Except Err (List GateI)) (f : Nat → Nat) :
    ∀ (body : List Inst) (a : Nat) (gs : List GateI), bodyM F body = .ok gs →
      (∀ i ∈ body, ∀ r, F i = .ok r → countOp filt t r = contrib filt t f i) →
      plainBody (gateAlg filt t) f body a = a + countOp filt t gs := by
  intro body
  induction body with
  | nil =>
    intro a gs h _
    simp only [bodyM, Except.ok.injEq] at h
    subst h
    simp [plainBody, countOp]
  | cons i rest ih =>
    intro a gs h hc
    simp only [bodyM] at h
    cases hf : F i with
    | error e => rw [hf] at h; cases h
    | ok x =>
      rw [hf] at h
      cases hb : bodyM F rest with
      | error e => rw [hb] at h; cases h
      | ok y =>
        rw [hb] at h
        simp only [Except.ok.injEq] at h
        subst h
        have h1 := hc i List.mem_cons_self x hf
        have h2 := fun a' => ih a' y hb (fun j hj => hc j (List.mem_cons_of_mem _ hj))
        rw [countOp_append, h1]
        cases i with
        | prim o ps =>
          simp only [plainBody, contrib]
          rw [h2, gateAlg_prim]
          split <;> omega
        | call c ps =>
          simp only [plainBody, contrib]
          rw [h2, gateAlg_merge]
          omega

theorem countOp_single (filt : List Nat) (t o : Nat) (qs : List Nat) :
    countOp filt t [⟨o, qs⟩] = if o = t ∧ counted filt o = true then 1 else 0 := by
  unfold countOp
  simp only [List.filter]
  cases hb : (decide (o = t) && counted filt o) with
  | true =>
    simp only [Bool.and_eq_true, decide_eq_true_eq] at hb
    rw [if_pos hb]; rfl
  | false =>
    have : ¬ (o = t ∧ counted filt o = true) := by
      intro hh
      simp [hh.1] at hb
      exact absurd hh.2 (by rw [hh.1]; simp [hb])
    rw [if_neg this]; rfl

theorem expandSubF_count (prog : List Sub) (filt : List Nat) (t : Nat) :
    ∀ (fuel : Nat) (cs : List Nat) (idx c : Nat) (as : List Nat) (gs : List GateI),
      expandSubF prog fuel cs idx c as = .ok gs →
      countOp filt t gs = plainF (gateAlg filt t) prog fuel c := by
  intro fuel
  induction fuel with
  | zero => intro cs idx c as gs h; simp [expandSubF] at h
  | succ fuel ih =>
    intro cs idx c as gs h
    unfold expandSubF at h
    cases hc : prog[c]? with
    | none => simp [hc] at h
    | some S =>
      simp only [hc] at h
      split at h
      · cases h
      · simp only [plainF, hc]
        unfold runSubX at h
        have := plainBody_gate filt t _ (plainF (gateAlg filt t) prog fuel) S.body 0 gs h (by
          intro i hi r hr
          cases i with
          | prim o ps =>
            simp only [Except.ok.injEq] at hr
            subst hr
            simp only [contrib]
            exact countOp_single _ _ _ _
          | call c' ps =>
            simp only [contrib]
            exact ih _ _ _ _ _ hr)
        rw [gateAlg_fin, gateAlg_zero, this]
        omega

theorem expand_count (p : Program) (filt : List Nat) (t : Nat) {gs : List GateI} (h : expand p = .ok gs) :
    plainRoot (gateAlg filt t) p = countOp filt t gs := by
  unfold expand runSubX at h
  have := plainBody_gate filt t _ (plainF (gateAlg filt t) p.table (fuelOf p)) p.root.body 0 gs h (by
    intro i hi r hr
    cases i with
    | prim o ps =>
      simp only [Except.ok.injEq] at hr
      subst hr
      simp only [contrib]
      exact countOp_single _ _ _ _
    | call c' ps =>
      simp only [contrib]
      exact expandSubF_count p.table filt t _ _ _ _ _ _ hr)
  unfold plainRoot
  rw [gateAlg_fin, gateAlg_zero, this]
  omega

/-! ### allocator high-water mark -/

theorem peakBody_shift (g : Nat → Nat) (b : Nat) : ∀ (body : List Inst) (a : Nat),
    peakBody (fun c => b + g c) body (b + a) = b + plainBody auxAlg g body a := by
  intro body
  induction body with
  | nil => intro a; rfl
  | cons i r ih =>
    intro a
    cases i with
    | prim o ps => simp only [peakBody, plainBody, auxAlg]; exact ih a
    | call c ps =>
      simp only [peakBody, plainBody, auxAlg]
      have : max (b + a) (b + g c) = b + max a (g c) := by omega
      rw [this]
      exact ih _

theorem peakF_eq (prog : List Sub) : ∀ (k idx c : Nat), peakF prog k idx c = idx + plainF auxAlg prog k c := by
  intro k
  induction k with
  | zero => intro idx c; simp [peakF, plainF, auxAlg]
  | succ k ih =>
    intro idx c
    simp only [peakF, plainF]
    cases hc : prog[c]? with
    | none => simp [auxAlg]
    | some S =>
      simp only
      have h1 : peakF prog k (idx + S.nAux) = fun c => (idx + S.nAux) + plainF auxAlg prog k c := by
        funext c'; exact ih _ _
      rw [h1]
      have := peakBody_shift (plainF auxAlg prog k) (idx + S.nAux) S.body 0
      simp only [Nat.add_zero] at this
      rw [this]
      simp only [auxAlg]
      omega

theorem peak_eq (p : Program) : peak p = p.root.nArgs + plainRoot auxAlg p := by
  unfold peak plainRoot
  have h1 : peakF p.table (fuelOf p) (p.root.nArgs + p.root.nAux) =
      fun c => (p.root.nArgs + p.root.nAux) + plainF auxAlg p.table (fuelOf p) c := by
    funext c'; exact peakF_eq _ _ _ _
  rw [h1]
  have := peakBody_shift (plainF auxAlg p.table (fuelOf p)) (p.root.nArgs + p.root.nAux) p.root.body 0
  simp only [Nat.add_zero] at this
  rw [this]
  simp only [auxAlg]
  omega

/-! ### canonical renaming by first use -/

theorem mem_firsts {y : Nat} : ∀ {l : List Nat}, y ∈ firsts l → y ∈ l := by
  intro l
  induction l with
  | nil => intro h; cases h
  | cons x xs ih =>
    intro h
    simp only [firsts, List.mem_cons] at h
    rcases h with rfl | h
    · exact List.mem_cons_self
    · exact List.mem_cons_of_mem _ (ih (List.mem_filter.mp h).1)

theorem firsts_map (π : Nat → Nat) : ∀ (l : List Nat), (∀ a ∈ l, ∀ b ∈ l, π a = π b → a = b) →
    firsts (l.map π) = (firsts l).map π := by
  intro l
  induction l with
  | nil => intro _; rfl
  | cons x xs ih =>
    intro hinj
    simp only [List.map_cons, firsts]
    rw [ih fun a ha b hb => hinj a (List.mem_cons_of_mem _ ha) b (List.mem_cons_of_mem _ hb)]
    rw [List.filter_map]
    congr 2
    apply List.filter_congr
    intro y hy
    have hy' : y ∈ xs := mem_firsts hy
    simp only [Function.comp, ne_eq, decide_not, Bool.not_eq_eq_eq_not, Bool.not_not]
    by_cases hxy : y = x
    · simp [hxy]
    · have : π y ≠ π x := fun e => hxy (hinj y (List.mem_cons_of_mem _ hy') x List.mem_cons_self e)
      simp [hxy, this]

theorem idxOf_map_inj (π : Nat → Nat) (q : Nat) : ∀ (l : List Nat),
    (∀ b ∈ l, π b = π q → b = q) → (l.map π).idxOf (π q) = l.idxOf q := by
  intro l
  induction l with
  | nil => intro _; rfl
  | cons x xs ih =>
    intro hinj
    simp only [List.map_cons, List.idxOf_cons]
    by_cases hx : x = q
    · subst hx; simp
    · have : π x ≠ π q := fun e => hx (hinj x List.mem_cons_self e)
      have h1 : (π x == π q) = false := by simpa using this
      have h2 : (x == q) = false := by simpa using hx
      rw [h1, h2]
      simp only [cond_false]
      rw [ih fun b hb => hinj b (List.mem_cons_of_mem _ hb)]

theorem occ_map (π : Nat → Nat) (gs : List GateI) : occ (gs.map (mapQ π)) = (occ gs).map π := by
  unfold occ
  induction gs with
  | nil => rfl
  | cons g r ih => simp only [List.map_cons, List.flatMap_cons, List.map_append, ih]; rfl

theorem mem_occ {gs : List GateI} {g : GateI} {q : Nat} (hg : g ∈ gs) (hq : q ∈ g.qs) : q ∈ occ gs := by
  unfold occ
  exact List.mem_flatMap.mpr ⟨g, hg, hq⟩

theorem canon_rename (n : Nat) (π : Nat → Nat) (gs : List GateI)
    (hfix : ∀ q ∈ occ gs, q < n → π q = q)
    (hup : ∀ q ∈ occ gs, n ≤ q → n ≤ π q)
    (hinj : ∀ a ∈ occ gs, ∀ b ∈ occ gs, π a = π b → a = b) :
    canon n (gs.map (mapQ π)) = canon n gs := by
  have horder : auxOrder n (gs.map (mapQ π)) = (auxOrder n gs).map π := by
    unfold auxOrder
    rw [occ_map, List.filter_map]
    have : (occ gs).filter ((fun x => decide (n ≤ x)) ∘ π) = (occ gs).filter (fun x => decide (n ≤ x)) := by
      apply List.filter_congr
      intro q hq
      simp only [Function.comp]
      by_cases h : n ≤ q
      · simp [h, hup q hq h]
      · have h' : q < n := by omega
        rw [hfix q hq h']
    rw [this]
    apply firsts_map
    intro a ha b hb
    exact hinj a (List.mem_filter.mp ha).1 b (List.mem_filter.mp hb).1
  unfold canon
  rw [horder, List.map_map]
  apply List.map_congr_left
  intro g hg
  unfold mapQ
  simp only [Function.comp, List.map_map, GateI.mk.injEq, true_and]
  apply List.map_congr_left
  intro q hq
  have hqo : q ∈ occ gs := mem_occ hg hq
  simp only [Function.comp]
  unfold renameBy
  by_cases h : q < n
  · rw [hfix q hqo h, if_pos h, if_pos h]
  · have h1 : ¬ π q < n := by have := hup q hqo (by omega); omega
    rw [if_neg h, if_neg h1]
    congr 1
    apply idxOf_map_inj
    intro b hb e
    have hb' : b ∈ occ gs := (List.mem_filter.mp (mem_firsts hb)).1
    exact hinj b hb' q hqo e

theorem look_zipTo : ∀ (σ : List Nat) (b q : Nat),
    look (zipTo σ b) q = if q ∈ σ then some (b + σ.idxOf q) else none := by
  intro σ
  induction σ with
  | nil => intro b q; simp [zipTo, look]
  | cons a r ih =>
    intro b q
    simp only [zipTo, look, List.idxOf_cons]
    by_cases h : a = q
    · subst h; simp
    · have h2 : (a == q) = false := by simpa using h
      rw [if_neg h, ih, h2]
      simp only [cond_false]
      have h3 : q ≠ a := fun e => h e.symm
      by_cases hm : q ∈ r
      · have : q ∈ a :: r := List.mem_cons_of_mem _ hm
        rw [if_pos hm, if_pos this]; congr 1; omega
      · have : q ∉ a :: r := by simp [hm, h3]
        rw [if_neg hm, if_neg this]

theorem look_flatFrame (n : Nat) (σ : List Nat) (hσ : ∀ a ∈ σ, n ≤ a) (q : Nat) (hq : q < n ∨ q ∈ σ) :
    look (flatFrame n σ) q = some (flatRen n σ q) := by
  unfold flatFrame flatRen
  rw [look_append, look_zipTo]
  by_cases hm : q ∈ σ
  · have : ¬ q < n := by have := hσ q hm; omega
    rw [if_pos hm, if_neg this]
  · have hlt : q < n := by rcases hq with h | h; exact h; exact absurd h hm
    rw [if_neg hm, if_pos hlt]
    simp only
    rw [look_auxFrom]
    simp [hlt]

theorem evalFlat_eq (n : Nat) (σ : List Nat) (hσ : ∀ a ∈ σ, n ≤ a) : ∀ (gs : List GateI),
    (∀ q ∈ occ gs, q < n ∨ q ∈ σ) → evalFlat n σ gs = .ok (gs.map (mapQ (flatRen n σ))) := by
  intro gs
  induction gs with
  | nil => intro _; rfl
  | cons g r ih =>
    intro h
    simp only [evalFlat]
    rw [lookAll_ok (f := flatRen n σ) (fun q hq => look_flatFrame n σ hσ q (h q (mem_occ List.mem_cons_self hq)))]
    simp only
    rw [ih fun q hq => h q (by unfold occ at hq ⊢; simp only [List.flatMap_cons, List.mem_append]; exact Or.inr hq)]
    rfl

theorem idxOf_inj {l : List Nat} {a b : Nat} (ha : a ∈ l) (hb : b ∈ l) (h : l.idxOf a = l.idxOf b) : a = b := by
  have h1 := List.idxOf_lt_length_of_mem ha
  have h2 := List.idxOf_lt_length_of_mem hb
  have e1 := List.getElem_idxOf h1
  have e2 := List.getElem_idxOf h2
  rw [← e1, ← e2]
  simp only [h]

/-- evaluating the flat expansion with any order of its auxiliaries gives the same canonical circuit -/
theorem evalFlat_canon (n : Nat) (σ : List Nat) (hσ : ∀ a ∈ σ, n ≤ a) (gs : List GateI)
    (hcov : ∀ q ∈ occ gs, q < n ∨ q ∈ σ) :
    ∃ gs', evalFlat n σ gs = .ok gs' ∧ canon n gs' = canon n gs := by
  refine ⟨_, evalFlat_eq n σ hσ gs hcov, ?_⟩
  apply canon_rename
  · intro q _ h; unfold flatRen; rw [if_pos h]
  · intro q _ h; unfold flatRen; have : ¬ q < n := by omega
    rw [if_neg this]; omega
  · intro a ha b hb e
    unfold flatRen at e
    by_cases h1 : a < n
    · by_cases h2 : b < n
      · rw [if_pos h1, if_pos h2] at e; exact e
      · rw [if_pos h1, if_neg h2] at e; omega
    · by_cases h2 : b < n
      · rw [if_neg h1, if_pos h2] at e; omega
      · rw [if_neg h1, if_neg h2] at e
        have ma : a ∈ σ := by rcases hcov a ha with h | h; exact absurd h h1; exact h
        have mb : b ∈ σ := by rcases hcov b hb with h | h; exact absurd h h2; exact h
        exact idxOf_inj ma mb (by omega)

/-! ### the allocator / frame-stack invariant (aux_fresh) -/

/-- configurations `(frame stack, allocator index, running sub)` in which a body is executed, starting
    from a given one: exactly the recursion of `runSub` / `evalSubF` (without the recursion check, so a superset) -/
inductive ReachFrom (p : Program) (f0 : List Frame) (i0 : Nat) (S0 : Sub) : List Frame → Nat → Sub → Prop
  | refl : ReachFrom p f0 i0 S0 f0 i0 S0
  | call {frames : List Frame} {idx : Nat} {S : Sub} {c : Nat} {qs : List Nat} {C : Sub} :
      ReachFrom p f0 i0 S0 frames idx S → Inst.call c qs ∈ S.body → p.table[c]? = some C →
      ReachFrom p f0 i0 S0 (auxFrame C idx :: argFrame C qs :: frames) (idx + C.nAux) C

/-- configurations reachable in `eval p` -/
def Reach (p : Program) : List Frame → Nat → Sub → Prop :=
  ReachFrom p [auxFrame p.root p.root.nArgs, argFrame p.root (List.range p.root.nArgs)]
    (p.root.nArgs + p.root.nAux) p.root

def ValsLt : List Frame → Nat → Prop
  | [], _ => True
  | fr :: post, n => (∀ kv ∈ fr, chain post kv.2 < n) ∧ ValsLt post n

theorem ValsLt_mono {n m : Nat} (h : n ≤ m) : ∀ {frames : List Frame}, ValsLt frames n → ValsLt frames m := by
  intro frames
  induction frames with
  | nil => intro _; trivial
  | cons fr post ih =>
    intro hv
    exact ⟨fun kv hkv => Nat.lt_of_lt_of_le (hv.1 kv hkv) h, ih hv.2⟩

theorem vals_foldl_stepMap {n : Nat} : ∀ (frames : List Frame) (acc : Frame),
    (∀ kv ∈ acc, chain frames kv.2 < n) → ValsLt frames n → ∀ kv ∈ frames.foldl stepMap acc, kv.2 < n := by
  intro frames
  induction frames with
  | nil => intro acc h _ kv hkv; exact h kv hkv
  | cons fr post ih =>
    intro acc h hv
    simp only [List.foldl_cons]
    apply ih _ _ hv.2
    intro kv hkv
    unfold stepMap at hkv
    rcases List.mem_append.mp hkv with hk | hk
    · obtain ⟨kv0, h0, rfl⟩ := List.mem_map.mp hk
      exact h kv0 h0
    · exact hv.1 kv hk

theorem vals_updMap {n : Nat} {frames : List Frame} (h : ValsLt frames n) : ∀ kv ∈ updMap frames, kv.2 < n :=
  vals_foldl_stepMap frames [] (by intro kv hkv; cases hkv) h

theorem mem_auxFrom {kv : Nat × Nat} : ∀ {n a b : Nat}, kv ∈ auxFrom a b n → b ≤ kv.2 ∧ kv.2 < b + n := by
  intro n
  induction n with
  | zero => intro a b h; cases h
  | succ n ih =>
    intro a b h
    simp only [auxFrom, List.mem_cons] at h
    rcases h with rfl | h
    · simp
    · have := ih h; omega

theorem mem_zipFrom {kv : Nat × Nat} : ∀ {l : List Nat} {s : Nat}, kv ∈ zipFrom s l → kv.2 ∈ l := by
  intro l
  induction l with
  | nil => intro s h; cases h
  | cons q r ih =>
    intro s h
    simp only [zipFrom, List.mem_cons] at h
    rcases h with rfl | h
    · exact List.mem_cons_self
    · exact List.mem_cons_of_mem _ (ih h)

/-- the invariant of a configuration in which the body of `S` runs -/
structure CfgInv (frames : List Frame) (idx : Nat) (S : Sub) : Prop where
  names : ∀ q, q < S.size → chain frames q < idx
  keys : NoKeyGE frames idx
  size : S.size ≤ idx
  vals : ValsLt frames idx

theorem cfgInv_enter (C : Sub) (frames : List Frame) (idx : Nat) (qs : List Nat)
    (hlen : qs.length = C.nArgs) (hlt : ∀ q ∈ qs, chain frames q < idx) (hkeys : NoKeyGE frames idx)
    (hargs : C.nArgs ≤ idx) (hvals : ValsLt frames idx) :
    CfgInv (auxFrame C idx :: argFrame C qs :: frames) (idx + C.nAux) C := by
  obtain ⟨f1, f2, f3, f4⟩ := entered_facts C frames idx qs (chain frames) hlen (fun _ _ => rfl) hlt hkeys hargs
  refine ⟨?_, f3, f4, ?_⟩
  · intro q hq
    rw [chain_of_den (f1 q hq)]
    exact f2 q hq
  · refine ⟨?_, ?_, ValsLt_mono (Nat.le_add_right _ _) hvals⟩
    · intro kv hkv
      have hb := mem_auxFrom hkv
      have : chain (argFrame C qs :: frames) kv.2 = kv.2 := by
        apply chain_fixed
        intro fr hfr
        rcases List.mem_cons.mp hfr with rfl | hfr
        · rw [look_argFrame]
          have : ¬ (kv.2 < C.nArgs) := by omega
          rw [if_neg this]
        · exact hkeys fr hfr _ hb.1
      rw [this]; exact hb.2
    · intro kv hkv
      have : kv.2 ∈ qs := List.mem_of_mem_take (mem_zipFrom hkv)
      have := hlt _ this
      omega

theorem cfgInv_root (p : Program) :
    CfgInv [auxFrame p.root p.root.nArgs, argFrame p.root (List.range p.root.nArgs)]
      (p.root.nArgs + p.root.nAux) p.root :=
  cfgInv_enter p.root [] p.root.nArgs (List.range p.root.nArgs) (by simp)
    (by intro q hq; simpa [chain] using hq) (by intro fr hfr; cases hfr) (Nat.le_refl _) trivial

theorem cfgInv_step {p : Program} (hT : ∀ S ∈ p.table, subOK p.table S = true) {frames : List Frame} {idx : Nat}
    {S : Sub} (hS : subOK p.table S = true) (hI : CfgInv frames idx S) {c : Nat} {qs : List Nat} {C : Sub}
    (hcall : Inst.call c qs ∈ S.body) (hC : p.table[c]? = some C) :
    CfgInv (auxFrame C idx :: argFrame C qs :: frames) (idx + C.nAux) C ∧ subOK p.table C = true := by
  have hok := subOK_inst hS hcall
  simp only [instOK, Bool.and_eq_true, List.all_eq_true, decide_eq_true_eq, hC, beq_iff_eq] at hok
  refine ⟨cfgInv_enter C frames idx qs hok.2.1 (fun q hq => hI.names q (hok.1 q hq)) hI.keys ?_ hI.vals,
    hT C (List.mem_of_getElem? hC)⟩
  have := hI.size
  omega

theorem reach_inv {p : Program} (h : WF p = true) {frames : List Frame} {idx : Nat} {S : Sub}
    (hR : Reach p frames idx S) : CfgInv frames idx S ∧ subOK p.table S = true := by
  unfold Reach at hR
  induction hR with
  | refl => exact ⟨cfgInv_root p, WF_root h⟩
  | call _ hcall hC ih => exact cfgInv_step (WF_table h) ih.2 ih.1 hcall hC

theorem reachFrom_idx_mono {p : Program} {f0 : List Frame} {i0 : Nat} {S0 : Sub} {frames : List Frame} {idx : Nat}
    {S : Sub} (hR : ReachFrom p f0 i0 S0 frames idx S) : i0 ≤ idx := by
  induction hR with
  | refl => exact Nat.le_refl _
  | call _ _ _ ih => omega

/-! ### the generic Inverse / Controlled resolvers commute with expansion -/

theorem bodyM_append {f : Inst → Except Err (List GateI)} {l1 l2 : List Inst} {x y : List GateI}
    (h1 : bodyM f l1 = .ok x) (h2 : bodyM f l2 = .ok y) : bodyM f (l1 ++ l2) = .ok (x ++ y) := by
  induction l1 generalizing x with
  | nil =>
    simp only [bodyM, Except.ok.injEq] at h1
    subst h1
    simpa using h2
  | cons i r ih =>
    simp only [bodyM] at h1
    cases hf : f i with
    | error e => rw [hf] at h1; cases h1
    | ok a =>
      rw [hf] at h1
      cases hb : bodyM f r with
      | error e => rw [hb] at h1; cases h1
      | ok b =>
        rw [hb] at h1
        simp only [Except.ok.injEq] at h1
        subst h1
        simp only [List.cons_append, bodyM, hf, ih hb, List.append_assoc]

def invList (invOp : Nat → Nat) (gs : List GateI) : List GateI := (gs.map (invGate invOp)).reverse

theorem invList_append (invOp : Nat → Nat) (a b : List GateI) :
    invList invOp (a ++ b) = invList invOp b ++ invList invOp a := by
  simp [invList]

theorem bodyM_inv (invOp : Nat → Nat) (F F' : Inst → Except Err (List GateI)) :
    ∀ (body : List Inst) (gs : List GateI), bodyM F body = .ok gs →
      (∀ i ∈ body, ∀ r, F i = .ok r → F' (invInst invOp i) = .ok (invList invOp r)) →
      bodyM F' ((body.map (invInst invOp)).reverse) = .ok (invList invOp gs) := by
  intro body
  induction body with
  | nil =>
    intro gs h _
    simp only [bodyM, Except.ok.injEq] at h
    subst h
    rfl
  | cons i rest ih =>
    intro gs h hc
    simp only [bodyM] at h
    cases hf : F i with
    | error e => rw [hf] at h; cases h
    | ok a =>
      rw [hf] at h
      cases hb : bodyM F rest with
      | error e => rw [hb] at h; cases h
      | ok b =>
        rw [hb] at h
        simp only [Except.ok.injEq] at h
        subst h
        simp only [List.map_cons, List.reverse_cons]
        rw [invList_append]
        apply bodyM_append (ih b hb fun j hj => hc j (List.mem_cons_of_mem _ hj))
        simp only [bodyM, hc i List.mem_cons_self a hf, List.append_nil]

theorem getElem?_map_invSub (invOp : Nat → Nat) (prog : List Sub) (c : Nat) :
    (prog.map (invSub invOp))[c]? = (prog[c]?).map (invSub invOp) := by
  simp

theorem expandSubF_inv (invOp : Nat → Nat) (prog : List Sub) :
    ∀ (fuel : Nat) (cs : List Nat) (idx c : Nat) (as : List Nat) (gs : List GateI),
      expandSubF prog fuel cs idx c as = .ok gs →
      expandSubF (prog.map (invSub invOp)) fuel cs idx c as = .ok (invList invOp gs) := by
  intro fuel
  induction fuel with
  | zero => intro cs idx c as gs h; simp [expandSubF] at h
  | succ fuel ih =>
    intro cs idx c as gs h
    unfold expandSubF at h ⊢
    rw [getElem?_map_invSub]
    cases hc : prog[c]? with
    | none => simp [hc] at h
    | some S =>
      simp only [hc, Option.map_some] at h ⊢
      split at h
      · cases h
      · rename_i hnot
        rw [if_neg hnot]
        unfold runSubX at h ⊢
        show bodyM _ ((S.body.map (invInst invOp)).reverse) = _
        apply bodyM_inv invOp _ _ S.body gs h
        intro i hi r hr
        cases i with
        | prim o ps =>
          simp only [Except.ok.injEq] at hr
          subst hr
          rfl
        | call c' ps => exact ih _ _ _ _ _ hr

theorem expand_inv (invOp : Nat → Nat) (p : Program) {gs : List GateI} (h : expand p = .ok gs) :
    expand (invProgram invOp p) = .ok (invList invOp gs) := by
  unfold expand runSubX at h ⊢
  show bodyM _ ((p.root.body.map (invInst invOp)).reverse) = _
  apply bodyM_inv invOp _ _ p.root.body gs h
  intro i hi r hr
  cases i with
  | prim o ps =>
    simp only [Except.ok.injEq] at hr
    subst hr
    rfl
  | call c' ps =>
    have : fuelOf (invProgram invOp p) = fuelOf p := by simp [fuelOf, invProgram]
    show expandSubF (p.table.map (invSub invOp)) (fuelOf (invProgram invOp p)) [] _ c' _ = _
    rw [this]
    exact expandSubF_inv invOp p.table _ _ _ _ _ _ hr

/-- image of a gate of the target under `Controlled` when the control sits on absolute qubit `c0` -/
def ctlGateAt (ctlOp : Nat → Nat) (c0 : Nat) (g : GateI) : GateI := ⟨ctlOp g.op, c0 :: g.qs.map (· + 1)⟩

def mapRes (f : List GateI → List GateI) : Except Err (List GateI) → Except Err (List GateI)
  | .ok gs => .ok (f gs)
  | .error e => .error e

theorem bodyM_map (g : Inst → Inst) (f : GateI → GateI) (F F' : Inst → Except Err (List GateI)) :
    ∀ (body : List Inst), (∀ i ∈ body, F' (g i) = mapRes (List.map f) (F i)) →
      bodyM F' (body.map g) = mapRes (List.map f) (bodyM F body) := by
  intro body
  induction body with
  | nil => intro _; rfl
  | cons i rest ih =>
    intro hc
    simp only [List.map_cons, bodyM]
    rw [hc i List.mem_cons_self, ih fun j hj => hc j (List.mem_cons_of_mem _ hj)]
    cases F i with
    | error e => rfl
    | ok a =>
      cases bodyM F rest with
      | error e => rfl
      | ok b => simp [mapRes]

theorem look_argFrame' (n : Nat) (qs : List Nat) (k : Nat) :
    look (zipFrom 0 (qs.take n)) k = if k < n then qs[k]? else none := by
  rw [look_zipFrom]
  simp only [Nat.zero_le, if_true, Nat.sub_zero]
  rw [List.getElem?_take]

theorem tr_env_ctl (S : Sub) (idx c0 : Nat) (as : List Nat) (ctlOp : Nat → Nat) :
    tr (envOf (ctlSub ctlOp S) (idx + 1) (c0 :: as.map (· + 1))) 0 = c0 ∧
    ∀ q, tr (envOf (ctlSub ctlOp S) (idx + 1) (c0 :: as.map (· + 1))) (q + 1) = tr (envOf S idx as) q + 1 := by
  have ea : auxFrame (ctlSub ctlOp S) (idx + 1) = auxFrom (S.nArgs + 1) (idx + 1) S.nAux := rfl
  have eb : ∀ l, argFrame (ctlSub ctlOp S) l = zipFrom 0 (l.take (S.nArgs + 1)) := fun _ => rfl
  constructor
  · unfold tr envOf
    rw [look_append, ea, eb, look_auxFrom, look_argFrame']
    have h2 : ¬ (S.nArgs + 1 ≤ 0 ∧ 0 < S.nArgs + 1 + S.nAux) := by omega
    rw [if_neg h2]
    simp
  · intro q
    unfold tr envOf
    rw [look_append, ea, eb, look_auxFrom, look_argFrame', look_append, look_auxFrame, look_argFrame]
    by_cases h1 : S.nArgs ≤ q ∧ q < S.nArgs + S.nAux
    · have h2 : S.nArgs + 1 ≤ q + 1 ∧ q + 1 < S.nArgs + 1 + S.nAux := by omega
      rw [if_pos h1, if_pos h2]
      simp only [Option.getD_some]
      omega
    · have h2 : ¬ (S.nArgs + 1 ≤ q + 1 ∧ q + 1 < S.nArgs + 1 + S.nAux) := by omega
      rw [if_neg h1, if_neg h2]
      simp only
      by_cases h3 : q < S.nArgs
      · have h4 : q + 1 < S.nArgs + 1 := by omega
        rw [if_pos h3, if_pos h4, List.getElem?_cons_succ, List.getElem?_map]
        cases as[q]? <;> simp
      · have h4 : ¬ (q + 1 < S.nArgs + 1) := by omega
        rw [if_neg h3, if_neg h4]
        simp

theorem expandSubF_ctl (ctlOp : Nat → Nat) (prog : List Sub) :
    ∀ (fuel : Nat) (cs : List Nat) (idx c c0 : Nat) (as : List Nat),
      expandSubF (prog.map (ctlSub ctlOp)) fuel cs (idx + 1) c (c0 :: as.map (· + 1)) =
        mapRes (List.map (ctlGateAt ctlOp c0)) (expandSubF prog fuel cs idx c as) := by
  intro fuel
  induction fuel with
  | zero => intros; rfl
  | succ fuel ih =>
    intro cs idx c c0 as
    unfold expandSubF
    have hm : (prog.map (ctlSub ctlOp))[c]? = (prog[c]?).map (ctlSub ctlOp) := by simp
    rw [hm]
    cases hc : prog[c]? with
    | none => rfl
    | some S =>
      simp only [Option.map_some]
      split
      · rfl
      · unfold runSubX
        obtain ⟨t0, t1⟩ := tr_env_ctl S idx c0 as ctlOp
        show bodyM _ (S.body.map (ctlInst ctlOp)) = _
        apply bodyM_map (ctlInst ctlOp) (ctlGateAt ctlOp c0)
        intro i hi
        cases i with
        | prim o ps =>
          simp only [ctlInst, mapRes, List.map_cons, List.map_nil, ctlGateAt, List.map_map, t0]
          congr 4
          apply List.map_congr_left
          intro q _
          exact t1 q
        | call c' ps =>
          simp only [ctlInst, List.map_cons, List.map_map, t0]
          have e1 : (ctlSub ctlOp S).nAux = S.nAux := rfl
          have e2 : List.map ((fun x => tr (envOf (ctlSub ctlOp S) (idx + 1) (c0 :: List.map (fun x => x + 1) as)) x) ∘ fun x => x + 1) ps
              = (ps.map (tr (envOf S idx as))).map (· + 1) := by
            rw [List.map_map]
            apply List.map_congr_left
            intro q _
            exact t1 q
          rw [e1]
          have e3 : idx + 1 + S.nAux = (idx + S.nAux) + 1 := by omega
          rw [e3]
          have := ih (c :: cs) (idx + S.nAux) c' c0 (ps.map (tr (envOf S idx as)))
          rw [← this]
          congr 2

theorem range_succ_shift (n : Nat) : List.range (n + 1) = 0 :: (List.range n).map (· + 1) := by
  rw [List.range_succ_eq_map]

theorem expand_ctl (ctlOp : Nat → Nat) (p : Program) :
    expand (ctlProgram ctlOp p) = mapRes (List.map (ctlGate ctlOp)) (expand p) := by
  unfold expand runSubX
  have hr : (ctlProgram ctlOp p).root = ctlSub ctlOp p.root := rfl
  have ht : (ctlProgram ctlOp p).table = p.table.map (ctlSub ctlOp) := rfl
  have hf : fuelOf (ctlProgram ctlOp p) = fuelOf p := by simp [fuelOf, ctlProgram]
  rw [hr, ht, hf]
  have hn : (ctlSub ctlOp p.root).nArgs = p.root.nArgs + 1 := rfl
  rw [hn, range_succ_shift]
  obtain ⟨t0, t1⟩ := tr_env_ctl p.root p.root.nArgs 0 (List.range p.root.nArgs) ctlOp
  show bodyM _ (p.root.body.map (ctlInst ctlOp)) = _
  apply bodyM_map (ctlInst ctlOp) (ctlGate ctlOp)
  intro i hi
  cases i with
  | prim o ps =>
    simp only [ctlInst, mapRes, List.map_cons, List.map_nil, ctlGate, List.map_map, t0]
    congr 4
    apply List.map_congr_left
    intro q _
    exact t1 q
  | call c' ps =>
    simp only [ctlInst, List.map_cons, List.map_map, t0]
    have e1 : (ctlSub ctlOp p.root).nAux = p.root.nAux := rfl
    rw [e1]
    have e3 : p.root.nArgs + 1 + p.root.nAux = (p.root.nArgs + p.root.nAux) + 1 := by omega
    rw [e3]
    have := expandSubF_ctl ctlOp p.table (fuelOf p) [] (p.root.nArgs + p.root.nAux) c' 0
      (ps.map (tr (envOf p.root p.root.nArgs (List.range p.root.nArgs))))
    have e4 : List.map (ctlGateAt ctlOp 0) = List.map (ctlGate ctlOp) := rfl
    rw [e4] at this
    rw [← this]
    congr 2
    rw [List.map_map]
    apply List.map_congr_left
    intro q _
    exact t1 q

/-! ### call paths -/

/-- a chain of calls starting at the root; the head is the sub entered last -/
inductive CallPath (p : Program) : List Nat → Prop
  | start {c : Nat} : c ∈ callees p.root → CallPath p [c]
  | step {c d : Nat} {rest : List Nat} {S : Sub} :
      CallPath p (d :: rest) → p.table[d]? = some S → c ∈ callees S → CallPath p (c :: d :: rest)

theorem callPath_facts {p : Program} (hA : Acyclic p = true) {path : List Nat} (hp : CallPath p path) :
    path.Nodup ∧ ∀ c rest, path = c :: rest →
      (∃ k, depthOK p.table k c = true) ∧ ∀ x ∈ rest, Below p.table c x := by
  unfold Acyclic at hA
  rw [List.all_eq_true] at hA
  induction hp with
  | start hc =>
    refine ⟨by simp, ?_⟩
    intro c rest e
    simp only [List.cons.injEq] at e
    obtain ⟨rfl, rfl⟩ := e
    exact ⟨⟨_, hA _ hc⟩, by simp⟩
  | @step c d rest S _ hd hc ih =>
    obtain ⟨hnd, hf⟩ := ih
    obtain ⟨⟨k, hk⟩, hb⟩ := hf d rest rfl
    have hk' : depthOK p.table (k + 1) d = true := depthOK_mono hk
    have hck : depthOK p.table k c = true := below_callee hd hc k hk'
    have hbel : ∀ x ∈ d :: rest, Below p.table c x := below_stack_step hd hc hb
    refine ⟨List.nodup_cons.mpr ⟨not_mem_stack hck hbel, hnd⟩, ?_⟩
    intro c' rest' e
    simp only [List.cons.injEq] at e
    obtain ⟨rfl, rfl⟩ := e
    exact ⟨⟨k, hck⟩, hbel⟩

/-! ### semantics of inverse / controlled gate lists in an abstract monoid -/

section sem
open PhaseMonoid
variable {M : Type} [PhaseMonoid M]

theorem semList_snoc (sem : GateI → M) (a : List GateI) (x : GateI) :
    semList sem (a ++ [x]) = PhaseMonoid.mul (sem x) (semList sem a) := by
  rw [semList_append]
  simp [semList, one_mul]

/-- reversing a gate list and inverting every gate inverts the circuit -/
theorem inverse_list_sound (sem : GateI → M) (invOp : Nat → Nat)
    (h : ∀ g, PhaseMonoid.equiv (PhaseMonoid.mul (sem (invGate invOp g)) (sem g)) PhaseMonoid.one) :
    ∀ gs : List GateI,
      PhaseMonoid.equiv (PhaseMonoid.mul (semList sem (invList invOp gs)) (semList sem gs)) PhaseMonoid.one := by
  intro gs
  induction gs with
  | nil => simp only [invList, List.map_nil, List.reverse_nil, semList, one_mul]; exact equiv_refl _
  | cons g r ih =>
    have e : invList invOp (g :: r) = invList invOp r ++ [invGate invOp g] := by simp [invList]
    rw [e, semList_snoc]
    simp only [semList]
    -- (inv g ⬝ I) ⬝ (R ⬝ g) = inv g ⬝ ((I ⬝ R) ⬝ g)
    have e2 : PhaseMonoid.mul (PhaseMonoid.mul (sem (invGate invOp g)) (semList sem (invList invOp r)))
        (PhaseMonoid.mul (semList sem r) (sem g)) =
        PhaseMonoid.mul (sem (invGate invOp g))
          (PhaseMonoid.mul (PhaseMonoid.mul (semList sem (invList invOp r)) (semList sem r)) (sem g)) := by
      simp only [mul_assoc]
    rw [e2]
    have h1 := mul_congr (equiv_refl (sem (invGate invOp g))) (mul_congr ih (equiv_refl (sem g)))
    rw [one_mul] at h1
    exact equiv_trans h1 (h g)

variable {N : Type} [PhaseMonoid N]

/-- a gate-wise controlled circuit is the controlled circuit, for any multiplicative `C` -/
theorem controlled_list_sound (sem : GateI → M) (sem' : GateI → N) (ctl : GateI → GateI) (C : M → N)
    (hone : PhaseMonoid.equiv (C PhaseMonoid.one) (PhaseMonoid.one : N))
    (hmul : ∀ a b, PhaseMonoid.equiv (C (PhaseMonoid.mul a b)) (PhaseMonoid.mul (C a) (C b)))
    (h : ∀ g, PhaseMonoid.equiv (sem' (ctl g)) (C (sem g))) :
    ∀ gs : List GateI, PhaseMonoid.equiv (semList sem' (gs.map ctl)) (C (semList sem gs)) := by
  intro gs
  induction gs with
  | nil => simp only [List.map_nil, semList]; exact equiv_symm hone
  | cons g r ih =>
    simp only [List.map_cons, semList]
    exact equiv_trans (mul_congr ih (h g)) (equiv_symm (hmul _ _))

end sem

/-! ### every qubit of the generated circuit lies below the allocator's high-water mark -/

theorem peakBody_mono_base (f : Nat → Nat) : ∀ (body : List Inst) (a b : Nat), a ≤ b →
    peakBody f body a ≤ peakBody f body b := by
  intro body
  induction body with
  | nil => intro a b h; exact h
  | cons i r ih =>
    intro a b h
    cases i with
    | prim o ps => exact ih a b h
    | call c ps => exact ih _ _ (by omega)

theorem peakBody_ge_base (f : Nat → Nat) : ∀ (body : List Inst) (a : Nat), a ≤ peakBody f body a := by
  intro body
  induction body with
  | nil => intro a; exact Nat.le_refl _
  | cons i r ih =>
    intro a
    cases i with
    | prim o ps => exact ih a
    | call c ps => exact Nat.le_trans (Nat.le_max_left _ _) (ih _)

theorem peakBody_ge_callee (f : Nat → Nat) : ∀ (body : List Inst) (a : Nat) (c : Nat) (qs : List Nat),
    Inst.call c qs ∈ body → f c ≤ peakBody f body a := by
  intro body
  induction body with
  | nil => intro a c qs h; cases h
  | cons i r ih =>
    intro a c qs h
    rcases List.mem_cons.mp h with rfl | h'
    · exact Nat.le_trans (Nat.le_max_right _ _) (peakBody_ge_base f r _)
    · cases i with
      | prim o ps => exact ih a c qs h'
      | call c' ps => exact ih _ c qs h'

theorem bodyM_occ {F : Inst → Except Err (List GateI)} : ∀ {body : List Inst} {gs : List GateI},
    bodyM F body = .ok gs → ∀ q ∈ occ gs, ∃ i ∈ body, ∃ r, F i = .ok r ∧ q ∈ occ r := by
  intro body
  induction body with
  | nil =>
    intro gs h q hq
    simp only [bodyM, Except.ok.injEq] at h
    subst h
    simp [occ] at hq
  | cons i rest ih =>
    intro gs h q hq
    simp only [bodyM] at h
    cases hf : F i with
    | error e => rw [hf] at h; cases h
    | ok a =>
      rw [hf] at h
      cases hb : bodyM F rest with
      | error e => rw [hb] at h; cases h
      | ok b =>
        rw [hb] at h
        simp only [Except.ok.injEq] at h
        subst h
        have : q ∈ occ a ∨ q ∈ occ b := by
          unfold occ at hq ⊢
          simpa [List.flatMap_append] using hq
        rcases this with h1 | h1
        · exact ⟨i, List.mem_cons_self, a, hf, h1⟩
        · obtain ⟨j, hj, r, hr, hq'⟩ := ih hb q h1
          exact ⟨j, List.mem_cons_of_mem _ hj, r, hr, hq'⟩

theorem env_lt (S : Sub) (idx : Nat) (as : List Nat) (hlen : as.length = S.nArgs) (has : ∀ a ∈ as, a < idx)
    (q : Nat) (hq : q < S.size) : tr (envOf S idx as) q < idx + S.nAux := by
  unfold tr envOf
  rw [look_append, look_auxFrame, look_argFrame]
  unfold Sub.size at hq
  by_cases h1 : S.nArgs ≤ q ∧ q < S.nArgs + S.nAux
  · rw [if_pos h1]; simp only [Option.getD_some]; omega
  · have h3 : q < S.nArgs := by omega
    have h4 : q < as.length := by omega
    rw [if_neg h1, if_pos h3, List.getElem?_eq_getElem h4]
    simp only [Option.getD_some]
    have := has _ (List.getElem_mem h4)
    omega

theorem runSubX_below (prog : List Sub) (S : Sub) (hS : subOK prog S = true)
    (callF : Nat → Nat → List Nat → Except Err (List GateI)) (pk : Nat → Nat)
    (idx : Nat) (as : List Nat) (hlen : as.length = S.nArgs) (has : ∀ a ∈ as, a < idx)
    (hcall : ∀ c ps r, callF (idx + S.nAux) c ps = .ok r → (∀ C, prog[c]? = some C → ps.length = C.nArgs) →
      (∀ a ∈ ps, a < idx + S.nAux) → ∀ q ∈ occ r, q < pk c)
    {gs : List GateI} (h : runSubX callF idx S as = .ok gs) :
    ∀ q ∈ occ gs, q < peakBody pk S.body (idx + S.nAux) := by
  intro q hq
  unfold runSubX at h
  obtain ⟨i, hi, r, hr, hqr⟩ := bodyM_occ h q hq
  have hok := subOK_inst hS hi
  cases i with
  | prim o ps =>
    simp only [Except.ok.injEq] at hr
    subst hr
    simp only [instOK, List.all_eq_true, decide_eq_true_eq] at hok
    simp only [occ, List.flatMap_cons, List.flatMap_nil, List.append_nil, List.mem_map] at hqr
    obtain ⟨q0, hq0, rfl⟩ := hqr
    exact Nat.lt_of_lt_of_le (env_lt S idx as hlen has q0 (hok q0 hq0)) (peakBody_ge_base _ _ _)
  | call c ps =>
    simp only [instOK, Bool.and_eq_true, List.all_eq_true, decide_eq_true_eq] at hok
    have := hcall c _ r hr (by
      intro C hC
      rw [hC] at hok
      simp only [Bool.and_eq_true, beq_iff_eq, decide_eq_true_eq] at hok
      simpa using hok.2.1) (by
      intro a ha
      obtain ⟨q0, hq0, rfl⟩ := List.mem_map.mp ha
      exact env_lt S idx as hlen has q0 (hok.1 q0 hq0)) q hqr
    exact Nat.lt_of_lt_of_le this (peakBody_ge_callee _ _ _ c ps hi)

theorem expandSubF_below (prog : List Sub) (hprog : ∀ S ∈ prog, subOK prog S = true) :
    ∀ (fuel : Nat) (cs : List Nat) (idx c : Nat) (as : List Nat) (gs : List GateI),
      expandSubF prog fuel cs idx c as = .ok gs → (∀ C, prog[c]? = some C → as.length = C.nArgs) →
      (∀ a ∈ as, a < idx) → ∀ q ∈ occ gs, q < peakF prog fuel idx c := by
  intro fuel
  induction fuel with
  | zero => intro cs idx c as gs h; simp [expandSubF] at h
  | succ fuel ih =>
    intro cs idx c as gs h hlen has
    unfold expandSubF at h
    cases hc : prog[c]? with
    | none => simp [hc] at h
    | some S =>
      simp only [hc] at h
      split at h
      · cases h
      · simp only [peakF, hc]
        exact runSubX_below prog S (hprog S (List.mem_of_getElem? hc)) _ _ idx as (hlen S hc) has
          (fun c' ps r hr h1 h2 => ih _ _ _ _ _ hr h1 h2) h

theorem expand_below (p : Program) (hWF : WF p = true) {gs : List GateI} (h : expand p = .ok gs) :
    ∀ q ∈ occ gs, q < peak p := by
  unfold expand at h
  unfold peak
  exact runSubX_below p.table p.root (WF_root hWF) _ _ p.root.nArgs (List.range p.root.nArgs) (by simp)
    (by intro a ha; simpa using ha)
    (fun c' ps r hr h1 h2 => expandSubF_below p.table (WF_table hWF) _ _ _ _ _ _ hr h1 h2) h

end QV.C19
