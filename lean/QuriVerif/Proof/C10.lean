import QuriVerif.Model.C10
/-
  C10 — helper lemmas: dictionaries, the well-formedness invariant of linearly mapped circuits,
  `bind = spec`, preservation of the invariant by every circuit-level operation.
-/
set_option linter.unusedSectionVars false
set_option linter.unusedSimpArgs false
set_option linter.unusedVariables false

namespace QV.C10
open QV

/-! ### dictionaries -/
namespace Dict
variable {V : Type}

theorem get?_set_self (d : Dict V) (k : PId) (v : V) : (d.set k v).get? k = some v := by
  induction d with
  | nil => simp [set, get?]
  | cons kv r ih =>
    obtain ⟨k', v'⟩ := kv
    by_cases h : k' = k
    · simp [set, get?, h]
    · simp [set, get?, h, ih]

theorem get?_set_ne (d : Dict V) {k k' : PId} (v : V) (h : k' ≠ k) :
    (d.set k v).get? k' = d.get? k' := by
  induction d with
  | nil => simp [set, get?, Ne.symm h]
  | cons kv r ih =>
    obtain ⟨k0, v0⟩ := kv
    by_cases h0 : k0 = k
    · subst h0
      simp [set, get?, Ne.symm h]
    · by_cases h1 : k0 = k'
      · subst h1
        simp [set, get?, h0]
      · simp [set, get?, h0, h1, ih]

theorem mem_of_get? {d : Dict V} {k : PId} {v : V} (h : d.get? k = some v) : (k, v) ∈ d := by
  induction d with
  | nil => simp [get?] at h
  | cons kv r ih =>
    obtain ⟨k0, v0⟩ := kv
    by_cases h0 : k0 = k
    · simp [get?, h0] at h
      subst h0; subst h
      exact List.mem_cons_self
    · simp [get?, h0] at h
      exact List.mem_cons_of_mem _ (ih h)

theorem mem_set {d : Dict V} {k : PId} {v : V} {x : PId × V} (h : x ∈ d.set k v) :
    x ∈ d ∨ x = (k, v) := by
  induction d with
  | nil => simp [set] at h; exact Or.inr h
  | cons kv r ih =>
    obtain ⟨k0, v0⟩ := kv
    by_cases h0 : k0 = k
    · simp [set, h0] at h
      cases h with
      | inl h => right; rw [h]
      | inr h => left; exact List.mem_cons_of_mem _ h
    · simp [set, h0] at h
      cases h with
      | inl h => left; rw [h]; exact List.mem_cons_self
      | inr h =>
        cases ih h with
        | inl h => left; exact List.mem_cons_of_mem _ h
        | inr h => right; exact h

theorem isSome_get?_set (d : Dict V) (k k' : PId) (v : V) (h : (d.get? k').isSome) :
    ((d.set k v).get? k').isSome := by
  by_cases e : k' = k
  · subst e; simp [get?_set_self]
  · rw [get?_set_ne d v e]; exact h

theorem mem_setAll {d : Dict V} {kvs : List (PId × V)} {x : PId × V} (h : x ∈ d.setAll kvs) :
    x ∈ d ∨ x ∈ kvs := by
  induction kvs generalizing d with
  | nil => left; simpa [setAll] using h
  | cons kv r ih =>
    simp only [setAll, List.foldl_cons] at h
    cases ih (d := d.set kv.1 kv.2) (by simpa [setAll] using h) with
    | inl h1 =>
      cases mem_set h1 with
      | inl h2 => left; exact h2
      | inr h2 => right; rw [h2]; exact List.mem_cons_self
    | inr h1 => right; exact List.mem_cons_of_mem _ h1

theorem isSome_get?_setAll (d : Dict V) (kvs : List (PId × V)) (k : PId)
    (h : (d.get? k).isSome ∨ k ∈ kvs.map (·.1)) : ((d.setAll kvs).get? k).isSome := by
  induction kvs generalizing d with
  | nil =>
    cases h with
    | inl h => simpa [setAll] using h
    | inr h => simp at h
  | cons kv r ih =>
    simp only [setAll, List.foldl_cons]
    apply ih (d := d.set kv.1 kv.2)
    cases h with
    | inl h => left; exact isSome_get?_set d kv.1 k kv.2 h
    | inr h =>
      simp only [List.map_cons, List.mem_cons] at h
      cases h with
      | inl h => left; subst h; simp [get?_set_self]
      | inr h => right; exact h

theorem get?_none_of_not_mem_keys {d : Dict V} {k : PId} (h : ∀ x ∈ d, x.1 ≠ k) : d.get? k = none := by
  induction d with
  | nil => rfl
  | cons kv r ih =>
    obtain ⟨k0, v0⟩ := kv
    have h0 : k0 ≠ k := h (k0, v0) List.mem_cons_self
    simp [get?, h0]
    exact ih (fun x hx => h x (List.mem_cons_of_mem _ hx))

end Dict

/-! ### the invariant -/
section inv
variable {K : Type} [Num K]

/-- every key of the ghost table is an identity already handed out -/
def AllocWF (al : Alloc K) : Prop := ∀ kv ∈ al.defs, kv.1 < al.next

/-- `al'` extends `al`: the supply only grows and recorded definitions are never changed -/
def Ext (al al' : Alloc K) : Prop :=
  al.next ≤ al'.next ∧ ∀ k a, al.defs.get? k = some a → al'.defs.get? k = some a

theorem Ext.refl (al : Alloc K) : Ext al al := ⟨Nat.le_refl _, fun _ _ h => h⟩
theorem Ext.trans {a b c : Alloc K} (h1 : Ext a b) (h2 : Ext b c) : Ext a c :=
  ⟨Nat.le_trans h1.1 h2.1, fun k x h => h2.2 k x (h1.2 k x h)⟩

/-- well-formed linearly mapped circuit (relative to the ghost table):
    out-params are the raw parameters of the gates, in gate order; each has a mapping entry;
    every mapping entry is the definition recorded when the raw parameter was created -/
structure LinWF (al : Alloc K) (c : LC K) : Prop where
  out : c.m.outP = raws c.gs
  dom : ∀ r ∈ c.m.outP, (c.m.map.get? r).isSome
  agree : ∀ kv ∈ c.m.map, al.defs.get? kv.1 = some kv.2

theorem LinWF.ext {al al' : Alloc K} {c : LC K} (h : LinWF al c) (e : Ext al al') : LinWF al' c :=
  ⟨h.out, h.dom, fun kv hk => e.2 _ _ (h.agree kv hk)⟩

theorem raws_append (a b : List (PG K)) : raws (a ++ b) = raws a ++ raws b := by
  induction a with
  | nil => rfl
  | cons g r ih => cases g <;> simp [raws, ih]

theorem alloc_fresh {al : Alloc K} (hw : AllocWF al) {k : PId} {a : Ang K}
    (h : al.defs.get? k = some a) : k < al.next := hw _ (Dict.mem_of_get? h)

theorem alloc_set_wf {al : Alloc K} (hw : AllocWF al) (a : Ang K) :
    AllocWF (⟨al.next + 1, al.defs.set al.next a⟩ : Alloc K) := by
  intro kv hk
  cases Dict.mem_set hk with
  | inl h => exact Nat.lt_succ_of_lt (hw kv h)
  | inr h => rw [h]; exact Nat.lt_succ_self _

theorem alloc_set_ext {al : Alloc K} (hw : AllocWF al) (a : Ang K) :
    Ext al (⟨al.next + 1, al.defs.set al.next a⟩ : Alloc K) := by
  refine ⟨Nat.le_succ _, fun k x h => ?_⟩
  have : k ≠ al.next := Nat.ne_of_lt (alloc_fresh hw h)
  simp only
  rw [Dict.get?_set_ne _ _ this]; exact h

theorem startLC_wf (al : Alloc K) (c : LC K) : LinWF al (startLC c) :=
  ⟨rfl, by intro r h; simp [startLC] at h, by intro kv h; simp [startLC] at h⟩

theorem empty_wf (al : Alloc K) (n : Nat) : LinWF al (emptyLC n : LC K) :=
  ⟨rfl, by intro r h; simp [emptyLC] at h, by intro kv h; simp [emptyLC] at h⟩

theorem addGate_ok {c c' : LC K} {g : FG K} (h : c.addGate g = .ok c') :
    c' = { c with gs := c.gs ++ [.fixed g] } := by
  unfold LC.addGate at h
  split at h
  · injection h with h; exact h.symm
  · cases h

theorem addGate_wf {al : Alloc K} {c c' : LC K} {g : FG K} (hw : LinWF al c)
    (h : c.addGate g = .ok c') : LinWF al c' := by
  rw [addGate_ok h]
  exact ⟨by simp [raws_append, raws, hw.out], hw.dom, hw.agree⟩

theorem addPar_ok {c c' : LC K} {raw : PId} {k : PK} {ts ids : List Nat} {a : Ang K}
    (h : c.addPar raw k ts ids a = .ok c') :
    c' = { c with m := ⟨c.m.inP, c.m.outP ++ [raw], c.m.map.set raw a⟩,
                  gs := c.gs ++ [.par k ts ids raw] } := by
  unfold LC.addPar at h
  split at h
  · cases h
  · split at h
    · cases h
    · injection h with h; exact h.symm

theorem addParA_ok {c c' : LC K} {al al' : Alloc K} {k : PK} {ts ids : List Nat} {a : Ang K}
    (h : c.addParA al k ts ids a = .ok (c', al')) :
    c' = { c with m := ⟨c.m.inP, c.m.outP ++ [al.next], c.m.map.set al.next a⟩,
                  gs := c.gs ++ [.par k ts ids al.next] } ∧
    al' = ⟨al.next + 1, al.defs.set al.next a⟩ := by
  unfold LC.addParA at h
  split at h
  · rename_i c1 h1
    injection h with h
    injection h with h2 h3
    exact ⟨by rw [← h2]; exact addPar_ok h1, h3.symm⟩
  · cases h

theorem addParA_wf {al al' : Alloc K} {c c' : LC K} {k : PK} {ts ids : List Nat} {a : Ang K}
    (ha : AllocWF al) (hw : LinWF al c) (h : c.addParA al k ts ids a = .ok (c', al')) :
    LinWF al' c' ∧ AllocWF al' ∧ Ext al al' := by
  obtain ⟨e1, e2⟩ := addParA_ok h
  subst e1; subst e2
  refine ⟨⟨?_, ?_, ?_⟩, alloc_set_wf ha a, alloc_set_ext ha a⟩
  · simp [raws_append, raws, hw.out]
  · intro r hr
    simp only [List.mem_append, List.mem_singleton] at hr
    cases hr with
    | inl hr => exact Dict.isSome_get?_set _ _ _ _ (hw.dom r hr)
    | inr hr => subst hr; simp [Dict.get?_set_self]
  · intro kv hk
    cases Dict.mem_set hk with
    | inl h1 =>
      have h2 := hw.agree kv h1
      have : kv.1 ≠ al.next := Nat.ne_of_lt (alloc_fresh ha h2)
      simp only
      rw [Dict.get?_set_ne _ _ this]; exact h2
    | inr h1 => rw [h1]; simp [Dict.get?_set_self]

end inv

/-! ### `bind = spec` -/
section bindspec
variable {K : Type} [Num K]

theorem lookupK_error {env : Dict K} {p : PId} {e : Err} (h : lookupK env p = .error e) : e = .keyError := by
  unfold lookupK at h; split at h
  · cases h
  · injection h with h; exact h.symm

theorem evalTerms_error {env : Dict K} {ts : List (PId × K)} {acc : K} {e : Err}
    (h : evalTerms env ts acc = .error e) : e = .keyError := by
  induction ts generalizing acc with
  | nil => cases h
  | cons t r ih =>
    obtain ⟨p, c⟩ := t
    simp only [evalTerms] at h
    split at h
    · rename_i e' h1; injection h with h; subst h; exact lookupK_error h1
    · exact ih h

theorem evalAng_error {env : Dict K} {a : Ang K} {e : Err} (h : evalAng env a = .error e) : e = .keyError := by
  cases a with
  | par p => exact lookupK_error h
  | fn ts => exact evalTerms_error h

theorem outVal_error {m : Dict (Ang K)} {env : Dict K} {r : PId} {e : Err}
    (h : outVal m env r = .error e) : e = .keyError := by
  unfold outVal at h
  split at h
  · rename_i e' h1
    injection h with h; subst h
    unfold lookupAng at h1; split at h1
    · cases h1
    · injection h1 with h1; exact h1.symm
  · exact evalAng_error h

theorem mapperLoop_ok {m : Dict (Ang K)} {env : Dict K} {rs : List PId} {d d' : Dict K}
    (h : mapperLoop m env rs d = .ok d') :
    (∀ r ∈ rs, ∃ v, outVal m env r = .ok v ∧ d'.get? r = some v) ∧
    (∀ k, k ∉ rs → d'.get? k = d.get? k) := by
  induction rs generalizing d with
  | nil => simp only [mapperLoop] at h; injection h with h; subst h; simp
  | cons r rs ih =>
    simp only [mapperLoop] at h
    split at h
    · cases h
    · rename_i v hv
      obtain ⟨h1, h2⟩ := ih h
      constructor
      · intro r' hr'
        cases List.mem_cons.mp hr' with
        | inr hm => exact h1 r' hm
        | inl he =>
          subst he
          by_cases hm : r' ∈ rs
          · exact h1 r' hm
          · exact ⟨v, hv, by rw [h2 r' hm, Dict.get?_set_self]⟩
      · intro k hk
        simp only [List.mem_cons, not_or] at hk
        rw [h2 k hk.2, Dict.get?_set_ne _ _ hk.1]

theorem mapperLoop_error {m : Dict (Ang K)} {env : Dict K} {rs : List PId} {d : Dict K} {e : Err}
    (h : mapperLoop m env rs d = .error e) :
    e = .keyError ∧ ∃ r ∈ rs, ∃ e', outVal m env r = .error e' := by
  induction rs generalizing d with
  | nil => cases h
  | cons r rs ih =>
    simp only [mapperLoop] at h
    split at h
    · rename_i e' h1
      injection h with h; subst h
      exact ⟨outVal_error h1, r, List.mem_cons_self, e', h1⟩
    · obtain ⟨h1, r', hr', h2⟩ := ih h
      exact ⟨h1, r', List.mem_cons_of_mem _ hr', h2⟩

theorem specBindGs_error_kind {m : Dict (Ang K)} {env : Dict K} {gs : List (PG K)} {e : Err}
    (h : specBindGs m env gs = .error e) : e = .keyError := by
  induction gs with
  | nil => cases h
  | cons g r ih =>
    simp only [specBindGs] at h
    split at h
    · rename_i e' h1
      injection h with h; subst h
      cases g with
      | fixed g => cases h1
      | par k ts ids p =>
        simp only [specGate] at h1
        split at h1
        · rename_i e2 h2; injection h1 with h1; subst h1; exact outVal_error h2
        · cases h1
    · split at h
      · rename_i e' h1; injection h with h; subst h; exact ih h1
      · cases h

theorem specBindGs_error_of_mem {m : Dict (Ang K)} {env : Dict K} {gs : List (PG K)} {r : PId} {e : Err}
    (hr : r ∈ raws gs) (h : outVal m env r = .error e) : ∃ e', specBindGs m env gs = .error e' := by
  induction gs with
  | nil => simp [raws] at hr
  | cons g rest ih =>
    cases g with
    | fixed g =>
      simp only [raws] at hr
      obtain ⟨e', h'⟩ := ih hr
      exact ⟨e', by simp [specBindGs, specGate, h']⟩
    | par k ts ids p =>
      simp only [raws, List.mem_cons] at hr
      by_cases hp : outVal m env p = .error e
      · exact ⟨e, by simp [specBindGs, specGate, hp]⟩
      · cases hr with
        | inl hr => subst hr; exact absurd h hp
        | inr hr =>
          obtain ⟨e', h'⟩ := ih hr
          cases hv : outVal m env p with
          | error e2 => exact ⟨e2, by simp [specBindGs, specGate, hv]⟩
          | ok v => exact ⟨e', by simp [specBindGs, specGate, hv, h']⟩

theorem bindRaw_eq_spec {m : Dict (Ang K)} {env : Dict K} {d : Dict K} {gs : List (PG K)}
    (h : ∀ r ∈ raws gs, ∃ v, outVal m env r = .ok v ∧ d.get? r = some v) :
    bindRaw d gs = specBindGs m env gs := by
  induction gs with
  | nil => rfl
  | cons g rest ih =>
    cases g with
    | fixed g =>
      have := ih (fun r hr => h r (by simpa [raws] using hr))
      simp [bindRaw, specBindGs, specGate, this]
    | par k ts ids p =>
      obtain ⟨v, hv, hd⟩ := h p (by simp [raws])
      have := ih (fun r hr => h r (by simp [raws, hr]))
      simp [bindRaw, specBindGs, specGate, hv, hd, this]

theorem specBindGs_congr {m1 m2 : Dict (Ang K)} {env : Dict K} {gs : List (PG K)}
    (h : ∀ r ∈ raws gs, outVal m1 env r = outVal m2 env r) :
    specBindGs m1 env gs = specBindGs m2 env gs := by
  induction gs with
  | nil => rfl
  | cons g rest ih =>
    cases g with
    | fixed g =>
      have := ih (fun r hr => h r (by simpa [raws] using hr))
      simp [specBindGs, specGate, this]
    | par k ts ids p =>
      have h1 := h p (by simp [raws])
      have := ih (fun r hr => h r (by simp [raws, hr]))
      simp [specBindGs, specGate, h1, this]

/-- the code's two-phase binding (evaluate every out-param into a dictionary, then look the raw
    parameters up) equals gate-by-gate evaluation, whenever out-params are the gates' raw parameters -/
theorem bind_eq_specBind {c : LC K} (hout : c.m.outP = raws c.gs) (vals : List K) :
    c.bind vals = c.specBind vals := by
  unfold LC.bind LC.specBind Mapping.mapper
  cases hm : mapperLoop c.m.map (mkEnv c.m.inP vals) c.m.outP [] with
  | ok d =>
    simp only
    apply bindRaw_eq_spec
    intro r hr
    exact (mapperLoop_ok hm).1 r (by rw [hout]; exact hr)
  | error e =>
    simp only
    obtain ⟨he, r, hr, e', h2⟩ := mapperLoop_error hm
    obtain ⟨e2, h3⟩ := specBindGs_error_of_mem (gs := c.gs) (by rw [← hout]; exact hr) h2
    rw [h3, he, specBindGs_error_kind h3]

theorem outVal_agree {al : Alloc K} {c : LC K} (hw : LinWF al c) (env : Dict K) {r : PId}
    (hr : r ∈ raws c.gs) : outVal c.m.map env r = outVal al.defs env r := by
  have h1 := hw.dom r (by rw [hw.out]; exact hr)
  cases hg : c.m.map.get? r with
  | none => simp [hg] at h1
  | some a =>
    have h2 := hw.agree _ (Dict.mem_of_get? hg)
    simp only at h2
    simp [outVal, lookupAng, hg, h2]

/-- `bind` of a well-formed circuit: every parametric gate carries the value, at the given
    parameter values, of the angle function recorded when its raw parameter was created -/
theorem bind_eq_spec_defs {al : Alloc K} {c : LC K} (hw : LinWF al c) (vals : List K) :
    c.bind vals = specBindGs al.defs (mkEnv c.m.inP vals) c.gs := by
  rw [bind_eq_specBind hw.out]
  exact specBindGs_congr (fun r hr => outVal_agree hw _ hr)

end bindspec

/-! ### circuit-level operations preserve the invariant -/
section ops
variable {K : Type} [Num K]

/-- plain (Rust) circuit: every raw parameter was created with the trivial definition -/
def PlainWF (al : Alloc K) (gs : List (PG K)) : Prop := ∀ r ∈ raws gs, al.defs.get? r = some (.par r)

def CircWF (al : Alloc K) : Circ K → Prop
  | .lin c => LinWF al c
  | .plain _ gs => PlainWF al gs

def SrcWF (al : Alloc K) : SrcV K → Prop
  | .circ c => CircWF al c
  | _ => True

theorem CircWF.ext {al al' : Alloc K} {c : Circ K} (h : CircWF al c) (e : Ext al al') : CircWF al' c := by
  cases c with
  | lin c => exact LinWF.ext h e
  | plain n gs => exact fun r hr => e.2 _ _ (h r hr)

theorem view_wf {al : Alloc K} {c : Circ K} (h : CircWF al c) : LinWF al c.view := by
  cases c with
  | lin c => exact h
  | plain n gs =>
    refine ⟨rfl, ?_, ?_⟩
    · intro r hr
      apply Dict.isSome_get?_setAll
      right
      simp only [Circ.view, plainMapping] at hr
      simp only [List.map_map, List.mem_map]
      exact ⟨r, hr, rfl⟩
    · intro kv hk
      simp only [Circ.view, plainMapping] at hk
      cases Dict.mem_setAll hk with
      | inl h1 => simp at h1
      | inr h1 =>
        simp only [List.mem_map] at h1
        obtain ⟨r, hr, e⟩ := h1
        subst e
        exact h r hr

theorem addGatesL_spec (c : LC K) (gs : List (FG K)) :
    ∃ pre : List (FG K), (addGatesL c gs).1 = { c with gs := c.gs ++ pre.map .fixed } := by
  induction gs generalizing c with
  | nil => exact ⟨[], by simp [addGatesL]⟩
  | cons g r ih =>
    simp only [addGatesL]
    cases h : c.addGate g with
    | error e => exact ⟨[], by simp⟩
    | ok c' =>
      simp only
      obtain ⟨pre, hp⟩ := ih c'
      refine ⟨g :: pre, ?_⟩
      rw [hp, addGate_ok h]
      simp

theorem addGatesL_ok {c c' : LC K} {gs : List (FG K)} (h : addGatesL c gs = (c', none)) :
    c' = { c with gs := c.gs ++ gs.map .fixed } := by
  induction gs generalizing c with
  | nil => simp only [addGatesL] at h; injection h with h; subst h; simp
  | cons g r ih =>
    simp only [addGatesL] at h
    cases hg : c.addGate g with
    | error e => rw [hg] at h; simp at h
    | ok c1 =>
      rw [hg] at h
      rw [ih h, addGate_ok hg]
      simp

theorem raws_map_fixed (gs : List (FG K)) : raws (gs.map PG.fixed) = [] := by
  induction gs with
  | nil => rfl
  | cons g r ih => simpa [raws] using ih

theorem addFixed_wf {al : Alloc K} {c : LC K} (hw : LinWF al c) (pre : List (FG K)) :
    LinWF al { c with gs := c.gs ++ pre.map .fixed } :=
  ⟨by simp [raws_append, raws_map_fixed, hw.out], hw.dom, hw.agree⟩

theorem addGatesL_wf {al : Alloc K} {c : LC K} (hw : LinWF al c) (gs : List (FG K)) :
    LinWF al (addGatesL c gs).1 := by
  obtain ⟨pre, hp⟩ := addGatesL_spec c gs
  rw [hp]; exact addFixed_wf hw pre

theorem keys_of_dom {V : Type} {d : Dict V} {k : PId} (h : (d.get? k).isSome) : k ∈ d.map (·.1) := by
  cases hg : d.get? k with
  | none => simp [hg] at h
  | some v => exact List.mem_map.mpr ⟨(k, v), Dict.mem_of_get? hg, rfl⟩

theorem combine_wf {al : Alloc K} {c v : LC K} (hc : LinWF al c) (hv : LinWF al v) :
    LinWF al { c with m := c.m.combine v.m, gs := c.gs ++ v.gs } := by
  refine ⟨?_, ?_, ?_⟩
  · simp [Mapping.combine, raws_append, hc.out, hv.out]
  · intro r hr
    simp only [Mapping.combine, List.mem_append] at hr
    apply Dict.isSome_get?_setAll
    cases hr with
    | inl h => left; exact hc.dom r h
    | inr h => right; exact keys_of_dom (hv.dom r h)
  · intro kv hk
    cases Dict.mem_setAll hk with
    | inl h => exact hc.agree kv h
    | inr h => exact hv.agree kv h

theorem extend_wf {al : Alloc K} {c : LC K} {s : SrcV K} (hc : LinWF al c) (hs : SrcWF al s) :
    LinWF al (c.extend s).1 := by
  cases s with
  | circ o =>
    simp only [LC.extend]
    split
    · exact hc
    · exact combine_wf hc (view_wf hs)
  | lit gs => exact addGatesL_wf hc gs
  | qc n gs =>
    simp only [LC.extend]
    split
    · exact hc
    · exact addGatesL_wf hc gs

theorem plus_wf {al : Alloc K} {c r : LC K} {s : SrcV K} (hc : LinWF al c) (hs : SrcWF al s)
    (h : c.plus s = .ok r) : LinWF al r := by
  unfold LC.plus at h
  split at h
  · rename_i r1 h1
    have w1 : LinWF al r1 := by
      have e : r1 = ((emptyLC c.n : LC K).extend (.circ (.lin c))).1 := by rw [h1]
      rw [e]; exact extend_wf (empty_wf al c.n) hc
    split at h
    · rename_i r2 h2
      injection h with h; subst h
      have e : r2 = (r1.extend s).1 := by rw [h2]
      rw [e]; exact extend_wf w1 hs
    · cases h
  · cases h

theorem rplus_wf {al : Alloc K} {c r : LC K} {s : SrcV K} (hc : LinWF al c) (hs : SrcWF al s)
    (h : c.rplus s = .ok r) : LinWF al r := by
  unfold LC.rplus at h
  split at h
  · rename_i r1 h1
    have w1 : LinWF al r1 := by
      have e : r1 = ((emptyLC c.n : LC K).extend s).1 := by rw [h1]
      rw [e]; exact extend_wf (empty_wf al c.n) hs
    split at h
    · rename_i r2 h2
      injection h with h; subst h
      have e : r2 = (r1.extend (.circ (.lin c))).1 := by rw [h2]
      rw [e]; exact extend_wf w1 hc
    · cases h
  · cases h

/-! plain circuits -/
theorem addGatesP_prefix (n : Nat) (acc gs : List (PG K)) :
    ∃ pre, pre <+: gs ∧ (addGatesP n acc gs).1 = acc ++ pre := by
  induction gs generalizing acc with
  | nil => exact ⟨[], List.prefix_refl _, by simp [addGatesP]⟩
  | cons g r ih =>
    cases g with
    | fixed f =>
      simp only [addGatesP]
      split
      · obtain ⟨pre, hp, he⟩ := ih (acc ++ [.fixed f])
        exact ⟨.fixed f :: pre, List.cons_prefix_cons.mpr ⟨rfl, hp⟩, by rw [he]; simp⟩
      · exact ⟨[], List.nil_prefix, by simp⟩
    | par k ts ids p =>
      simp only [addGatesP]
      split
      · obtain ⟨pre, hp, he⟩ := ih (acc ++ [.par k ts ids p])
        exact ⟨.par k ts ids p :: pre, List.cons_prefix_cons.mpr ⟨rfl, hp⟩, by rw [he]; simp⟩
      · exact ⟨[], List.nil_prefix, by simp⟩

theorem raws_prefix_subset {a b : List (PG K)} (h : a <+: b) : ∀ r ∈ raws a, r ∈ raws b := by
  obtain ⟨t, ht⟩ := h
  intro r hr
  rw [← ht, raws_append]
  exact List.mem_append_left _ hr

theorem plainWF_append {al : Alloc K} {a b : List (PG K)} (ha : PlainWF al a) (hb : PlainWF al b) :
    PlainWF al (a ++ b) := by
  intro r hr
  rw [raws_append] at hr
  cases List.mem_append.mp hr with
  | inl h => exact ha r h
  | inr h => exact hb r h

theorem addGatesP_wf {al : Alloc K} {n : Nat} {acc gs : List (PG K)} (ha : PlainWF al acc)
    (hg : PlainWF al gs) : PlainWF al (addGatesP n acc gs).1 := by
  obtain ⟨pre, hp, he⟩ := addGatesP_prefix n acc gs
  rw [he]
  exact plainWF_append ha (fun r hr => hg r (raws_prefix_subset hp r hr))

theorem plainWF_fixed (al : Alloc K) (fs : List (FG K)) : PlainWF al (fs.map .fixed) := by
  intro r hr; rw [raws_map_fixed] at hr; simp at hr

theorem plainExtend_wf {al : Alloc K} {n : Nat} {gs : List (PG K)} {s : SrcV K}
    (hg : PlainWF al gs) (hs : SrcWF al s) : PlainWF al (plainExtend n gs s).1 := by
  cases s with
  | circ o =>
    cases o with
    | lin c => exact hg
    | plain n' gs' => exact addGatesP_wf hg hs
  | lit fs => exact addGatesP_wf hg (plainWF_fixed al fs)
  | qc n' fs => exact addGatesP_wf hg (plainWF_fixed al fs)

theorem plainWF_nil (al : Alloc K) : PlainWF al ([] : List (PG K)) := by
  intro r hr; simp [raws] at hr

theorem plainPlus_wf {al : Alloc K} {n : Nat} {gs : List (PG K)} {s : SrcV K} {r : Circ K}
    (hg : PlainWF al gs) (hs : SrcWF al s) (h : plainPlus n gs s = .ok r) : CircWF al r := by
  have first : ∀ g1, (plainExtend n gs s) = (g1, none) → PlainWF al g1 := by
    intro g1 h1
    have e : g1 = (plainExtend n gs s).1 := by rw [h1]
    rw [e]; exact plainExtend_wf hg hs
  cases s with
  | lit fs =>
    unfold plainPlus at h
    split at h
    · rename_i g1 h1; injection h with h; subst h; exact first g1 h1
    · cases h
  | qc n' fs =>
    unfold plainPlus at h
    split at h
    · rename_i g1 h1; injection h with h; subst h; exact first g1 h1
    · cases h
  | circ o =>
    cases o with
    | lin c =>
      unfold plainPlus at h
      split at h
      · rename_i g1 h1; injection h with h; subst h; exact first g1 h1
      · cases h
    | plain n2 gs2 =>
      unfold plainPlus at h
      split at h
      · rename_i g1 h1; injection h with h; subst h; exact first g1 h1
      · simp only at h
        split at h
        · rename_i g1 h1
          have w1 : PlainWF al g1 := by
            have e : g1 = (addGatesP n2 [] gs).1 := by rw [h1]
            rw [e]; exact addGatesP_wf (plainWF_nil al) hg
          split at h
          · rename_i g2 h2
            injection h with h; subst h
            have e : g2 = (addGatesP n2 g1 gs2).1 := by rw [h2]
            show PlainWF al g2
            rw [e]; exact addGatesP_wf w1 hs
          · cases h
        · cases h

theorem plainRPlus_wf {al : Alloc K} {n : Nat} {gs : List (PG K)} {s : SrcV K} {r : Circ K}
    (hg : PlainWF al gs) (hs : SrcWF al s) (h : plainRPlus n gs s = .ok r) : CircWF al r := by
  unfold plainRPlus at h
  split at h
  · rename_i g1 h1
    have w1 : PlainWF al g1 := by
      have e : g1 = (plainExtend n [] s).1 := by rw [h1]
      rw [e]; exact plainExtend_wf (plainWF_nil al) hs
    split at h
    · rename_i g2 h2
      injection h with h; subst h
      have e : g2 = (addGatesP n g1 gs).1 := by rw [h2]
      show PlainWF al g2
      rw [e]; exact addGatesP_wf w1 hg
    · cases h
  · cases h

end ops

end QV.C10
