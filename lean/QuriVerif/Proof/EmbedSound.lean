import QuriVerif.Proof.MatSound
import QuriVerif.Proof.AngleSubst
import Mathlib.Data.List.Nodup
/-
  From a template on wires `0..nq-1` to arbitrary circuits (generic field `K`, on top of `Proof/MatSound`).

    * §A  placement: `semCirc_relabel` – the operator of a gate list relabelled by an injective `σ`
          into `n` wires is `⟦gs⟧ ⊗ 1` w.r.t. the frame `W = [σ 0, …, σ (nq-1)]`; `placed_scalar`.
          (Bit arithmetic: `bitAt_val`, `bitAt_ext`, `place_spec`, `locIdx_map`, `clearBits_place`,
          `locIdx_place`, `eq_iff_frame`.)
    * §B  contexts: `actCirc` (a gate list acting on an arbitrary operator), `actCirc_eq_sum`
          (composition = matrix product over the `2^n` rows), linearity, row congruence, `replace_sound`.
    * §C  whole circuits: `flatMap_scalar` – gate-wise rewriting preserves the operator up to a
          non-zero scalar.
    * templates: `Template.placed_sound` / `placed_exact` (placement of a kernel-checked template) and
          `Template.instance_sound` / `instance_exact` (placement + substitution of affine angles for
          the template variables, using `Proof/AngleSubst`).
  `semCirc` does not depend on `hζ`, `hρ`; they only enter through the `Template.check…` theorems.
-/

namespace QV

/-- the same gate on other wires -/
def Gate.relabel (σ : ℕ → ℕ) (g : Gate) : Gate :=
  { g with targets := g.targets.map σ, controls := g.controls.map σ }

end QV

namespace QV.MatSound
open QV QV.Poly

/-! ## A. Placement: a circuit on wires `0..nq-1`, relabelled by `σ` into `n` qubits -/

theorem relabel_wires (σ : ℕ → ℕ) (g : Gate) : (g.relabel σ).wires = g.wires.map σ := by
  simp [Gate.relabel, Gate.wires]

theorem relabel_localMat (σ : ℕ → ℕ) (g : Gate) : (g.relabel σ).localMat = g.localMat := by
  unfold Gate.localMat
  simp [Gate.relabel, Gate.p]

/-! ### bits of `val`, extensionality -/

theorem bitAt_add_mul_pow (a c n w : ℕ) (ha : a < 2 ^ n) :
    Gate.bitAt (a + c * 2 ^ n) w = if w < n then Gate.bitAt a w else Gate.bitAt c (w - n) := by
  unfold Gate.bitAt
  split
  · rename_i h
    obtain ⟨d, rfl⟩ : ∃ d, n = w + d + 1 := ⟨n - w - 1, by omega⟩
    have e : c * 2 ^ (w + d + 1) = (c * 2 ^ d * 2) * 2 ^ w := by rw [pow_succ, pow_add]; ring
    rw [e, Nat.add_mul_div_right _ _ (Nat.two_pow_pos _)]
    omega
  · rename_i h
    obtain ⟨d, rfl⟩ : ∃ d, w = n + d := ⟨w - n, by omega⟩
    rw [Nat.add_sub_cancel_left, pow_add, ← Nat.div_div_eq_div_mul,
      Nat.add_mul_div_right _ _ (Nat.two_pow_pos _), Nat.div_eq_of_lt ha, Nat.zero_add]

theorem bitAt_eq_zero_of_lt (x n v : ℕ) (hx : x < 2 ^ n) (hv : n ≤ v) : Gate.bitAt x v = 0 := by
  unfold Gate.bitAt
  have : x < 2 ^ v := lt_of_lt_of_le hx (Nat.pow_le_pow_right (by norm_num) hv)
  rw [Nat.div_eq_of_lt this]

theorem bitAt_val (n : ℕ) (b : ℕ → ℕ) (hb : ∀ w, b w ≤ 1) (w : ℕ) :
    Gate.bitAt (val n b) w = if w < n then b w else 0 := by
  induction n with
  | zero => simp [val, Gate.bitAt]
  | succ n ih =>
    rw [val, bitAt_add_mul_pow _ _ _ _ (val_lt n b hb)]
    by_cases h : w < n
    · rw [if_pos h, ih, if_pos h, if_pos (by omega)]
    · rw [if_neg h]
      by_cases e : w = n
      · subst e
        have := hb w
        simp [Gate.bitAt]; omega
      · rw [if_neg (by omega)]
        have h1 : b n < 2 ^ 1 := by have := hb n; omega
        exact bitAt_eq_zero_of_lt _ 1 _ h1 (by omega)

theorem bitAt_ext (n x y : ℕ) (hx : x < 2 ^ n) (hy : y < 2 ^ n)
    (h : ∀ w, w < n → Gate.bitAt x w = Gate.bitAt y w) : x = y := by
  have e1 := val_bitAt x n
  have e2 := val_bitAt y n
  rw [Nat.mod_eq_of_lt hx] at e1
  rw [Nat.mod_eq_of_lt hy] at e2
  rw [← e1, ← e2]
  exact val_congr n _ _ h

/-! ### bits of `locIdx`, `clearBits`, `clearBits + spread` -/

theorem getD_eq_getElem' {α : Type} (l : List α) (d : α) {i : ℕ} (h : i < l.length) :
    l.getD i d = l[i] := by
  simp [List.getD_eq_getElem?_getD, h]

theorem getD_mem (ws : List ℕ) {i : ℕ} (h : i < ws.length) : ws.getD i 0 ∈ ws := by
  rw [getD_eq_getElem' _ _ h]; exact List.getElem_mem h

theorem exists_getD_of_mem (ws : List ℕ) {v : ℕ} (h : v ∈ ws) : ∃ i, i < ws.length ∧ ws.getD i 0 = v := by
  obtain ⟨i, hi, e⟩ := List.getElem_of_mem h
  exact ⟨i, hi, by rw [getD_eq_getElem' _ _ hi, e]⟩

theorem locIdx_snoc (ws : List ℕ) (w x : ℕ) :
    Gate.locIdx (ws ++ [w]) x = Gate.locIdx ws x + Gate.bitAt x w * 2 ^ ws.length := by
  unfold Gate.locIdx
  rw [List.length_append, List.length_singleton, List.range_succ,
    List.zip_append (by simp), List.foldl_append]
  simp

theorem locIdx_val (x : ℕ) (ws : List ℕ) :
    Gate.locIdx ws x = val ws.length (fun i => Gate.bitAt x (ws.getD i 0)) := by
  induction ws using List.reverseRec with
  | nil => simp [Gate.locIdx, val]
  | append_singleton ws w ih =>
    rw [locIdx_snoc, ih, List.length_append, List.length_singleton, val]
    congr 1
    · apply val_congr
      intro i hi
      simp [List.getD_eq_getElem?_getD, List.getElem?_append_left hi]
    · simp [List.getD_eq_getElem?_getD]

theorem locIdx_lt (ws : List ℕ) (x : ℕ) : Gate.locIdx ws x < 2 ^ ws.length := by
  rw [locIdx_val]; exact val_lt _ _ (fun _ => bitAt_le_one _ _)

theorem bitAt_locIdx (ws : List ℕ) (x i : ℕ) :
    Gate.bitAt (Gate.locIdx ws x) i = if i < ws.length then Gate.bitAt x (ws.getD i 0) else 0 := by
  rw [locIdx_val, bitAt_val _ _ (fun _ => bitAt_le_one _ _)]

theorem clearBits_eq_val (n : ℕ) (ws : List ℕ) (x : ℕ) (hnd : ws.Nodup) (hw : ∀ w ∈ ws, w < n)
    (hx : x < 2 ^ n) :
    Gate.clearBits ws x = val n (fun v => if v ∈ ws then 0 else Gate.bitAt x v) := by
  have := clearBits_val x n ws (Gate.bitAt x) hnd hw (fun _ _ => rfl)
  rw [val_bitAt, Nat.mod_eq_of_lt hx] at this
  exact this

theorem clearBits_lt (n : ℕ) (ws : List ℕ) (x : ℕ) (hnd : ws.Nodup) (hw : ∀ w ∈ ws, w < n)
    (hx : x < 2 ^ n) : Gate.clearBits ws x < 2 ^ n := by
  rw [clearBits_eq_val n ws x hnd hw hx]
  apply val_lt
  intro v; by_cases e : v ∈ ws <;> simp [e, bitAt_le_one]

theorem bitAt_clearBits (n : ℕ) (ws : List ℕ) (x : ℕ) (hnd : ws.Nodup) (hw : ∀ w ∈ ws, w < n)
    (hx : x < 2 ^ n) (v : ℕ) :
    Gate.bitAt (Gate.clearBits ws x) v = if v ∈ ws then 0 else Gate.bitAt x v := by
  rw [clearBits_eq_val n ws x hnd hw hx, bitAt_val]
  · by_cases hv : v < n
    · rw [if_pos hv]
    · rw [if_neg hv, bitAt_eq_zero_of_lt x n v hx (by omega)]; simp
  · intro v; by_cases e : v ∈ ws <;> simp [e, bitAt_le_one]

/-- `spread_val` with the digits made explicit -/
theorem spread_val' (l n : ℕ) : ∀ (ws : List ℕ) (s : ℕ), ws.Nodup → (∀ w ∈ ws, w < n) →
    ∃ c : ℕ → ℕ, (∀ v, c v ≤ 1) ∧ (∀ v, v ∉ ws → c v = 0) ∧
      (∀ i, i < ws.length → c (ws.getD i 0) = Gate.bitAt l (s + i)) ∧
      ∀ a, (List.zip (List.range' s ws.length) ws).foldl
          (fun a (i, w) => a + Gate.bitAt l i * 2 ^ w) a = a + val n c := by
  intro ws
  induction ws with
  | nil => intro s _ _; exact ⟨fun _ => 0, by simp, by simp, by simp, by simp [val_zero]⟩
  | cons w ws ih =>
    intro s hnd hlt
    rw [List.nodup_cons] at hnd
    obtain ⟨c, hc1, hc0, hci, hc⟩ := ih (s + 1) hnd.2 (fun v hv => hlt v (by simp [hv]))
    refine ⟨fun v => if v = w then Gate.bitAt l s else c v, ?_, ?_, ?_, ?_⟩
    · intro v; by_cases e : v = w
      · simp [e, bitAt_le_one]
      · simp [e, hc1]
    · intro v hv
      simp only [List.mem_cons, not_or] at hv
      simp [hv.1, hc0 v hv.2]
    · intro i hi
      cases i with
      | zero => simp
      | succ i =>
        have hi' : i < ws.length := by simpa using hi
        have hm := getD_mem ws hi'
        have hne : ws.getD i 0 ≠ w := fun h => hnd.1 (h ▸ hm)
        rw [List.getD_cons_succ]
        simp only [hne, if_false]
        rw [hci i hi']; congr 1; omega
    · intro a
      rw [List.length_cons, List.range'_succ, List.zip_cons_cons, List.foldl_cons, hc]
      have e : val n (fun v => if v = w then Gate.bitAt l s else c v)
          = val n (fun v => if v = w then Gate.bitAt l s else 0) + val n c := by
        rw [← val_add]
        apply val_congr
        intro v _
        by_cases e1 : v = w
        · simp [e1, hc0 w hnd.1]
        · simp [e1]
      rw [e, val_single n w _ (hlt w (by simp))]
      dsimp only
      omega

/-- the row `clearBits ws x + spread ws l` read by `embedAct`, characterised by its bits:
    bit `ws[i]` is bit `i` of `l`, all other bits are those of `x` -/
theorem place_spec (n : ℕ) (ws : List ℕ) (x l : ℕ) (hnd : ws.Nodup) (hw : ∀ w ∈ ws, w < n)
    (hx : x < 2 ^ n) :
    Gate.clearBits ws x + Gate.spread ws l < 2 ^ n ∧
    (∀ i, i < ws.length →
      Gate.bitAt (Gate.clearBits ws x + Gate.spread ws l) (ws.getD i 0) = Gate.bitAt l i) ∧
    (∀ v, v ∉ ws → Gate.bitAt (Gate.clearBits ws x + Gate.spread ws l) v = Gate.bitAt x v) := by
  obtain ⟨c, hc1, hc0, hci, hc⟩ := spread_val' l n ws 0 hnd hw
  have e2 : Gate.spread ws l = val n c := by
    have := hc 0
    rw [Nat.zero_add, ← List.range_eq_range'] at this
    exact this
  have hb : ∀ v, (if v ∈ ws then 0 else Gate.bitAt x v) + c v ≤ 1 := by
    intro v
    by_cases e : v ∈ ws
    · simp [e, hc1]
    · simp [e, hc0 v e, bitAt_le_one]
  rw [clearBits_eq_val n ws x hnd hw hx, e2, ← val_add]
  refine ⟨val_lt _ _ hb, ?_, ?_⟩
  · intro i hi
    have hm := getD_mem ws hi
    rw [bitAt_val _ _ hb, if_pos (hw _ hm)]
    rw [if_pos hm, hci i hi, Nat.zero_add, Nat.zero_add]
  · intro v hv
    rw [bitAt_val _ _ hb]
    by_cases h : v < n
    · simp [h, hv, hc0 v hv]
    · rw [if_neg h, bitAt_eq_zero_of_lt x n v hx (by omega)]

/-! ### the frame `W = [σ 0, …, σ (nq-1)]` -/

/-- `σ` places the `nq` template wires injectively among `n` wires -/
structure Placement (σ : ℕ → ℕ) (nq n : ℕ) : Prop where
  inj : ∀ a, a < nq → ∀ b, b < nq → σ a = σ b → a = b
  lt : ∀ q, q < nq → σ q < n

/-- images of the template wires, in order -/
def frame (σ : ℕ → ℕ) (nq : ℕ) : List ℕ := (List.range nq).map σ

section Frame
variable {σ : ℕ → ℕ} {nq n : ℕ}

theorem frame_length : (frame σ nq).length = nq := by simp [frame]

theorem frame_getD {q : ℕ} (hq : q < nq) : (frame σ nq).getD q 0 = σ q :=
  getD_map_range σ nq q 0 hq

theorem mem_frame {v : ℕ} : v ∈ frame σ nq ↔ ∃ q, q < nq ∧ σ q = v := by simp [frame]

theorem frame_nodup (P : Placement σ nq n) : (frame σ nq).Nodup :=
  List.Nodup.map_on (fun a ha b hb h => P.inj a (by simpa using ha) b (by simpa using hb) h)
    List.nodup_range

theorem frame_lt (P : Placement σ nq n) : ∀ w ∈ frame σ nq, w < n := by
  intro w hw
  obtain ⟨q, hq, rfl⟩ := mem_frame.mp hw
  exact P.lt q hq

theorem map_nodup (P : Placement σ nq n) (ws : List ℕ) (hnd : ws.Nodup) (hw : ∀ w ∈ ws, w < nq) :
    (ws.map σ).Nodup :=
  List.Nodup.map_on (fun a ha b hb h => P.inj a (hw a ha) b (hw b hb) h) hnd

theorem map_lt (P : Placement σ nq n) (ws : List ℕ) (hw : ∀ w ∈ ws, w < nq) :
    ∀ w ∈ ws.map σ, w < n := by
  intro w h
  obtain ⟨q, hq, rfl⟩ := List.mem_map.mp h
  exact P.lt q (hw q hq)

theorem map_sub_frame (ws : List ℕ) (hw : ∀ w ∈ ws, w < nq) {v : ℕ} (h : v ∈ ws.map σ) :
    v ∈ frame σ nq := by
  obtain ⟨q, hq, rfl⟩ := List.mem_map.mp h
  exact mem_frame.mpr ⟨q, hw q hq, rfl⟩

theorem mem_map_iff (P : Placement σ nq n) (ws : List ℕ) (hw : ∀ w ∈ ws, w < nq) {q : ℕ}
    (hq : q < nq) : σ q ∈ ws.map σ ↔ q ∈ ws := by
  constructor
  · intro h
    obtain ⟨q', hq', e⟩ := List.mem_map.mp h
    rw [← P.inj q' (hw q' hq') q hq e]; exact hq'
  · intro h; exact List.mem_map.mpr ⟨q, h, rfl⟩

theorem map_getD (ws : List ℕ) {i : ℕ} (hi : i < ws.length) :
    (ws.map σ).getD i 0 = σ (ws.getD i 0) := by
  simp [List.getD_eq_getElem?_getD, hi]

/-- bit `q` of the local index w.r.t. the frame is bit `σ q` -/
theorem bitAt_locIdx_frame (x : ℕ) {q : ℕ} (hq : q < nq) :
    Gate.bitAt (Gate.locIdx (frame σ nq) x) q = Gate.bitAt x (σ q) := by
  rw [bitAt_locIdx, frame_length, if_pos hq, frame_getD hq]

/-- a basis index is determined by its part outside the frame and its local index in the frame -/
theorem eq_iff_frame (P : Placement σ nq n) (r j : ℕ) (hr : r < 2 ^ n) (hj : j < 2 ^ n) :
    r = j ↔ Gate.clearBits (frame σ nq) r = Gate.clearBits (frame σ nq) j ∧
      Gate.locIdx (frame σ nq) r = Gate.locIdx (frame σ nq) j := by
  constructor
  · intro h; subst h; exact ⟨rfl, rfl⟩
  · intro ⟨h1, h2⟩
    apply bitAt_ext n r j hr hj
    intro v _
    by_cases hv : v ∈ frame σ nq
    · obtain ⟨q, hq, rfl⟩ := mem_frame.mp hv
      rw [← bitAt_locIdx_frame r hq, ← bitAt_locIdx_frame j hq, h2]
    · have e1 := bitAt_clearBits n _ r (frame_nodup P) (frame_lt P) hr v
      have e2 := bitAt_clearBits n _ j (frame_nodup P) (frame_lt P) hj v
      rw [if_neg hv] at e1 e2
      rw [← e1, ← e2, h1]

/-- local index of a relabelled wire list = local index, in the template, of the frame index -/
theorem locIdx_map (ws : List ℕ) (hw : ∀ w ∈ ws, w < nq) (r : ℕ) :
    Gate.locIdx (ws.map σ) r = Gate.locIdx ws (Gate.locIdx (frame σ nq) r) := by
  apply bitAt_ext ws.length
  · have := locIdx_lt (ws.map σ) r; rwa [List.length_map] at this
  · exact locIdx_lt _ _
  · intro i hi
    rw [bitAt_locIdx, bitAt_locIdx, List.length_map, if_pos hi, if_pos hi, map_getD ws hi,
      bitAt_locIdx_frame _ (hw _ (getD_mem ws hi))]

/-- the relabelled gate does not touch the bits outside the frame -/
theorem clearBits_place (P : Placement σ nq n) (ws : List ℕ) (hnd : ws.Nodup)
    (hw : ∀ w ∈ ws, w < nq) (r l : ℕ) (hr : r < 2 ^ n) :
    Gate.clearBits (frame σ nq) (Gate.clearBits (ws.map σ) r + Gate.spread (ws.map σ) l)
      = Gate.clearBits (frame σ nq) r := by
  obtain ⟨h1, _, h3⟩ := place_spec n (ws.map σ) r l (map_nodup P ws hnd hw) (map_lt P ws hw) hr
  apply bitAt_ext n
  · exact clearBits_lt n _ _ (frame_nodup P) (frame_lt P) h1
  · exact clearBits_lt n _ _ (frame_nodup P) (frame_lt P) hr
  · intro v _
    rw [bitAt_clearBits n _ _ (frame_nodup P) (frame_lt P) h1,
      bitAt_clearBits n _ _ (frame_nodup P) (frame_lt P) hr]
    by_cases hv : v ∈ frame σ nq
    · rw [if_pos hv, if_pos hv]
    · rw [if_neg hv, if_neg hv]
      exact h3 v (fun h => hv (map_sub_frame ws hw h))

/-- … and acts inside the frame like the template gate acts on the local index -/
theorem locIdx_place (P : Placement σ nq n) (ws : List ℕ) (hnd : ws.Nodup)
    (hw : ∀ w ∈ ws, w < nq) (r l : ℕ) (hr : r < 2 ^ n) :
    Gate.locIdx (frame σ nq) (Gate.clearBits (ws.map σ) r + Gate.spread (ws.map σ) l)
      = Gate.clearBits ws (Gate.locIdx (frame σ nq) r) + Gate.spread ws l := by
  obtain ⟨_, h2, h3⟩ := place_spec n (ws.map σ) r l (map_nodup P ws hnd hw) (map_lt P ws hw) hr
  have hy : Gate.locIdx (frame σ nq) r < 2 ^ nq := by
    have := locIdx_lt (frame σ nq) r; rwa [frame_length] at this
  obtain ⟨g1, g2, g3⟩ := place_spec nq ws (Gate.locIdx (frame σ nq) r) l hnd hw hy
  apply bitAt_ext nq
  · have := locIdx_lt (frame σ nq) (Gate.clearBits (ws.map σ) r + Gate.spread (ws.map σ) l)
    rwa [frame_length] at this
  · exact g1
  · intro q hq
    rw [bitAt_locIdx_frame _ hq]
    by_cases hm : q ∈ ws
    · obtain ⟨i, hi, rfl⟩ := exists_getD_of_mem ws hm
      rw [g2 i hi, ← map_getD (σ := σ) ws hi]
      exact h2 i (by rwa [List.length_map])
    · rw [g3 q hm, bitAt_locIdx_frame _ hq]
      exact h3 _ (fun h => hm ((mem_map_iff P ws hw hq).mp h))

end Frame

/-! ### the placement theorem -/

section Place
variable {K : Type} [Field K] {ζ : K} {ρ : ℕ → K} {σ : ℕ → ℕ} {nq n : ℕ}

theorem wellFormed_relabel (P : Placement σ nq n) (gs : List Gate) (wf : WellFormed nq gs) :
    WellFormed n (gs.map (Gate.relabel σ)) := by
  intro g' hg'
  obtain ⟨g, hg, rfl⟩ := List.mem_map.mp hg'
  rw [relabel_wires]
  exact ⟨map_nodup P _ (wf g hg).1 (wf g hg).2, map_lt P _ (wf g hg).2⟩

/-- **Placement.**  The operator of a template-level gate list `gs` (wires `< nq`) relabelled by an
    injective `σ` into `n` wires is `⟦gs⟧ ⊗ 1`: with `W = frame σ nq`, the entry `(r, j)` is the
    entry `(locIdx W r, locIdx W j)` of `⟦gs⟧` if `r` and `j` agree outside `W`, and `0` otherwise. -/
theorem semCirc_relabel (P : Placement σ nq n) (gs : List Gate) (wf : WellFormed nq gs) :
    ∀ r j, r < 2 ^ n → j < 2 ^ n →
    semCirc ζ ρ (gs.map (Gate.relabel σ)) r j
      = if Gate.clearBits (frame σ nq) r = Gate.clearBits (frame σ nq) j
        then semCirc ζ ρ gs (Gate.locIdx (frame σ nq) r) (Gate.locIdx (frame σ nq) j) else 0 := by
  induction gs using List.reverseRec with
  | nil =>
    intro r j hr hj
    show (idMat r j : K) = if _ then (idMat _ _ : K) else 0
    unfold idMat
    have := eq_iff_frame P r j hr hj
    by_cases e : r = j
    · subst e; simp
    · rw [if_neg e]
      by_cases h1 : Gate.clearBits (frame σ nq) r = Gate.clearBits (frame σ nq) j
      · rw [if_pos h1]
        by_cases h2 : Gate.locIdx (frame σ nq) r = Gate.locIdx (frame σ nq) j
        · exact absurd (this.mpr ⟨h1, h2⟩) e
        · rw [if_neg h2]
      · rw [if_neg h1]
  | append_singleton gs g ih =>
    intro r j hr hj
    have wf' : WellFormed nq gs := fun g' hg' => wf g' (by simp [hg'])
    obtain ⟨hnd, hw⟩ := wf g (by simp)
    have hr' : ∀ l, Gate.clearBits (g.wires.map σ) r + Gate.spread (g.wires.map σ) l < 2 ^ n :=
      fun l => (place_spec n _ r l (map_nodup P _ hnd hw) (map_lt P _ hw) hr).1
    rw [List.map_append, List.map_singleton, semCirc_snoc, semCirc_snoc, relabel_localMat,
      relabel_wires]
    unfold embedAct
    rw [List.length_map]
    by_cases hc : Gate.clearBits (frame σ nq) r = Gate.clearBits (frame σ nq) j
    · rw [if_pos hc]
      congr 1
      apply List.map_congr_left
      intro l _
      rw [locIdx_map (nq := nq) _ hw r, ih wf' _ j (hr' l) hj, clearBits_place P _ hnd hw r l hr,
        if_pos hc, locIdx_place P _ hnd hw r l hr]
    · rw [if_neg hc]
      apply sum_map_zero
      intro l _
      rw [ih wf' _ j (hr' l) hj, clearBits_place P _ hnd hw r l hr, if_neg hc, mul_zero]

/-- a scalar relation between two template-level lists survives placement -/
theorem placed_scalar (P : Placement σ nq n) (gs gs' : List Gate) (wf : WellFormed nq gs)
    (wf' : WellFormed nq gs') (c : K)
    (h : ∀ i, i < 2 ^ nq → ∀ j, j < 2 ^ nq → semCirc ζ ρ gs i j = c * semCirc ζ ρ gs' i j) :
    ∀ r, r < 2 ^ n → ∀ j, j < 2 ^ n →
    semCirc ζ ρ (gs.map (Gate.relabel σ)) r j = c * semCirc ζ ρ (gs'.map (Gate.relabel σ)) r j := by
  intro r hr j hj
  have hl : ∀ x, Gate.locIdx (frame σ nq) x < 2 ^ nq := by
    intro x; have := locIdx_lt (frame σ nq) x; rwa [frame_length] at this
  rw [semCirc_relabel P gs wf r j hr hj, semCirc_relabel P gs' wf' r j hr hj]
  by_cases hc : Gate.clearBits (frame σ nq) r = Gate.clearBits (frame σ nq) j
  · rw [if_pos hc, if_pos hc, h _ (hl r) _ (hl j)]
  · rw [if_neg hc, if_neg hc, mul_zero]

end Place

/-! ## B. Contexts: composition is the matrix product over the `2^n` basis rows -/

section Context
variable {K : Type} [Field K]

theorem sum_map_mul_left {α : Type} (l : List α) (c : K) (f : α → K) :
    (l.map fun x => c * f x).sum = c * (l.map f).sum := by
  induction l with
  | nil => simp
  | cons a l ih => simp only [List.map_cons, List.sum_cons, ih, mul_add]

theorem sum_map_mul_right {α : Type} (l : List α) (c : K) (f : α → K) :
    (l.map fun x => f x * c).sum = (l.map f).sum * c := by
  induction l with
  | nil => simp
  | cons a l ih => simp only [List.map_cons, List.sum_cons, ih, add_mul]

theorem sum_map_add' {α : Type} (l : List α) (f g : α → K) :
    (l.map fun x => f x + g x).sum = (l.map f).sum + (l.map g).sum := by
  induction l with
  | nil => simp
  | cons a l ih => simp only [List.map_cons, List.sum_cons, ih]; ring

theorem sum_map_comm {α β : Type} (l1 : List α) (l2 : List β) (f : α → β → K) :
    (l1.map fun x => (l2.map fun y => f x y).sum).sum
      = (l2.map fun y => (l1.map fun x => f x y).sum).sum := by
  induction l1 with
  | nil =>
    rw [List.map_nil, List.sum_nil]
    exact (sum_map_zero _ _ (fun _ _ => by simp)).symm
  | cons a l ih => simp only [List.map_cons, List.sum_cons, ih, sum_map_add']

theorem sum_range_ite (N r : ℕ) (hr : r < N) (f : ℕ → K) :
    ((List.range N).map fun k => (idMat r k : K) * f k).sum = f r := by
  induction N with
  | zero => omega
  | succ N ih =>
    rw [List.range_succ, List.map_append, List.sum_append]
    by_cases e : r = N
    · subst e
      rw [sum_map_zero _ _ (fun k hk => by
        have : k < r := List.mem_range.mp hk
        have : r ≠ k := by omega
        simp [idMat, this])]
      simp [idMat]
    · rw [ih (by omega)]
      simp [idMat, e]

variable (ζ : K) (ρ : ℕ → K)

/-- the gate list acting (from the left) on an arbitrary operator `A`; `semCirc gs = actCirc gs 1` -/
def actCirc (gs : List Gate) (A : ℕ → ℕ → K) : ℕ → ℕ → K :=
  gs.foldl (fun A g => embedAct (evalMat ζ ρ g.localMat.m) g.wires A) A

variable {ζ ρ}

theorem semCirc_eq_actCirc (gs : List Gate) : semCirc ζ ρ gs = actCirc ζ ρ gs idMat := rfl

theorem actCirc_append (a b : List Gate) (A : ℕ → ℕ → K) :
    actCirc ζ ρ (a ++ b) A = actCirc ζ ρ b (actCirc ζ ρ a A) := by
  simp [actCirc, List.foldl_append]

theorem semCirc_append (a b : List Gate) :
    semCirc ζ ρ (a ++ b) = actCirc ζ ρ b (semCirc ζ ρ a) := by
  rw [semCirc_eq_actCirc, actCirc_append]; rfl

theorem actCirc_cons (g : Gate) (gs : List Gate) (A : ℕ → ℕ → K) :
    actCirc ζ ρ (g :: gs) A = actCirc ζ ρ gs (embedAct (evalMat ζ ρ g.localMat.m) g.wires A) := rfl

theorem actCirc_snoc (gs : List Gate) (g : Gate) (A : ℕ → ℕ → K) :
    actCirc ζ ρ (gs ++ [g]) A = embedAct (evalMat ζ ρ g.localMat.m) g.wires (actCirc ζ ρ gs A) := by
  rw [actCirc_append]; rfl

theorem embedAct_smul (L : ℕ → ℕ → K) (ws : List ℕ) (c : K) (A : ℕ → ℕ → K) :
    embedAct L ws (fun r j => c * A r j) = fun r j => c * embedAct L ws A r j := by
  funext r j
  unfold embedAct
  rw [← sum_map_mul_left]
  congr 1
  apply List.map_congr_left
  intro l _
  ring

/-- linearity -/
theorem actCirc_smul (gs : List Gate) (c : K) : ∀ A : ℕ → ℕ → K,
    actCirc ζ ρ gs (fun r j => c * A r j) = fun r j => c * actCirc ζ ρ gs A r j := by
  induction gs with
  | nil => intro A; rfl
  | cons g gs ih => intro A; rw [actCirc_cons, embedAct_smul, ih]; rfl

/-- for well-formed lists only rows `< 2^n` (of the same column) are ever read -/
theorem actCirc_congr (n : ℕ) (gs : List Gate) (wf : WellFormed n gs) (j : ℕ) :
    ∀ A B : ℕ → ℕ → K, (∀ r, r < 2 ^ n → A r j = B r j) →
    ∀ r, r < 2 ^ n → actCirc ζ ρ gs A r j = actCirc ζ ρ gs B r j := by
  induction gs with
  | nil => intro A B h r hr; exact h r hr
  | cons g gs ih =>
    intro A B h r hr
    have wg := wf g (by simp)
    rw [actCirc_cons, actCirc_cons]
    apply ih (fun g' hg' => wf g' (by simp [hg'])) _ _ _ r hr
    intro r' hr'
    apply embedAct_congr
    intro l
    exact h _ (clearBits_add_spread_lt n g.wires r' l wg.1 wg.2 hr')

/-- **composition = matrix product** over the `2^n` basis rows -/
theorem actCirc_eq_sum (n : ℕ) (gs : List Gate) (wf : WellFormed n gs) (A : ℕ → ℕ → K) :
    ∀ r j, r < 2 ^ n →
    actCirc ζ ρ gs A r j = ((List.range (2 ^ n)).map fun k => semCirc ζ ρ gs r k * A k j).sum := by
  induction gs using List.reverseRec with
  | nil => intro r j hr; exact (sum_range_ite (2 ^ n) r hr (fun k => A k j)).symm
  | append_singleton gs g ih =>
    intro r j hr
    have wf' : WellFormed n gs := fun g' hg' => wf g' (by simp [hg'])
    have wg := wf g (by simp)
    rw [actCirc_snoc]
    simp only [semCirc_snoc]
    unfold embedAct
    have e1 : ∀ l, evalMat ζ ρ g.localMat.m (Gate.locIdx g.wires r) l
          * actCirc ζ ρ gs A (Gate.clearBits g.wires r + Gate.spread g.wires l) j
        = ((List.range (2 ^ n)).map fun k => evalMat ζ ρ g.localMat.m (Gate.locIdx g.wires r) l
          * semCirc ζ ρ gs (Gate.clearBits g.wires r + Gate.spread g.wires l) k * A k j).sum := by
      intro l
      rw [ih wf' _ j (clearBits_add_spread_lt n g.wires r l wg.1 wg.2 hr), ← sum_map_mul_left]
      congr 1
      apply List.map_congr_left
      intro k _
      ring
    simp only [e1]
    rw [sum_map_comm]
    congr 1
    apply List.map_congr_left
    intro k _
    rw [sum_map_mul_right]

/-- **Replacement in a context.**  If `⟦mid⟧ = c · ⟦mid'⟧` on the `2^n × 2^n` block then the same holds
    for the whole circuit with `mid` replaced by `mid'` (any prefix, well-formed suffix). -/
theorem replace_sound (n : ℕ) (pre mid mid' post : List Gate) (wfm : WellFormed n mid)
    (wfm' : WellFormed n mid') (wfp : WellFormed n post) (c : K)
    (h : ∀ r, r < 2 ^ n → ∀ k, k < 2 ^ n → semCirc ζ ρ mid r k = c * semCirc ζ ρ mid' r k) :
    ∀ r, r < 2 ^ n → ∀ j,
    semCirc ζ ρ (pre ++ mid ++ post) r j = c * semCirc ζ ρ (pre ++ mid' ++ post) r j := by
  intro r hr j
  rw [semCirc_append, semCirc_append, semCirc_append, semCirc_append]
  have hmid : ∀ r, r < 2 ^ n → actCirc ζ ρ mid (semCirc ζ ρ pre) r j
      = (fun r j => c * actCirc ζ ρ mid' (semCirc ζ ρ pre) r j) r j := by
    intro r hr
    rw [actCirc_eq_sum n mid wfm _ r j hr]
    show _ = c * actCirc ζ ρ mid' (semCirc ζ ρ pre) r j
    rw [actCirc_eq_sum n mid' wfm' _ r j hr, ← sum_map_mul_left]
    congr 1
    apply List.map_congr_left
    intro k hk
    rw [h r hr k (List.mem_range.mp hk)]
    ring
  rw [actCirc_congr n post wfp j _
    (fun r j => c * actCirc ζ ρ mid' (semCirc ζ ρ pre) r j) hmid r hr, actCirc_smul]

/-! ## C. Whole circuits: gate-wise rewriting preserves the operator up to a non-zero scalar -/

/-- **Gate-wise rewriting is sound.**  If every gate `g` of a well-formed `n`-qubit circuit is replaced
    by a well-formed list `d g` whose operator is a non-zero multiple of the gate's, the operator of
    the rewritten circuit is a non-zero multiple of the original's. -/
theorem flatMap_scalar (n : ℕ) (d : Gate → List Gate) (gs : List Gate) (wf : WellFormed n gs)
    (wfd : ∀ g ∈ gs, WellFormed n (d g))
    (h : ∀ g ∈ gs, ∃ c : K, c ≠ 0 ∧
      ∀ r, r < 2 ^ n → ∀ k, k < 2 ^ n → semCirc ζ ρ (d g) r k = c * semCirc ζ ρ [g] r k) :
    ∃ c : K, c ≠ 0 ∧ ∀ r, r < 2 ^ n → ∀ j,
      semCirc ζ ρ (gs.flatMap d) r j = c * semCirc ζ ρ gs r j := by
  induction gs using List.reverseRec with
  | nil => exact ⟨1, one_ne_zero, fun r _ j => by simp⟩
  | append_singleton gs g ih =>
    obtain ⟨c, hc, hgs⟩ := ih (fun g' hg' => wf g' (by simp [hg']))
      (fun g' hg' => wfd g' (by simp [hg'])) (fun g' hg' => h g' (by simp [hg']))
    obtain ⟨cg, hcg, hg⟩ := h g (by simp)
    have wg : WellFormed n [g] := fun g' hg' => wf g' (by simp at hg'; simp [hg'])
    refine ⟨cg * c, mul_ne_zero hcg hc, fun r hr j => ?_⟩
    rw [List.flatMap_append, List.flatMap_singleton, semCirc_append, semCirc_append,
      actCirc_eq_sum n (d g) (wfd g (by simp)) _ r j hr, actCirc_eq_sum n [g] wg _ r j hr,
      ← sum_map_mul_left]
    congr 1
    apply List.map_congr_left
    intro k hk
    have hk' : k < 2 ^ n := List.mem_range.mp hk
    rw [hg r hr k hk', hgs k hk' j]
    ring

end Context

/-! ## Templates placed in a circuit -/

section Templates
variable {K : Type} [Field K] {ζ : K} {ρ : ℕ → K} {σ : ℕ → ℕ} {n : ℕ}

theorem eval_sqrt2_ne_zero (hζ : ζ ^ 8 = -1) (h2 : (2 : K) ≠ 0) : eval ζ ρ Poly.sqrt2 ≠ 0 := by
  intro h
  have := eval_sqrt2_sq (ρ := ρ) hζ
  rw [h, mul_zero] at this
  exact h2 this.symm

/-- **A `check`-ed template, placed.**  The body placed on wires `σ 0, …, σ (nq-1)` of an `n`-qubit
    register is a non-zero multiple of the target gate placed on the same wires.  (`check` only gives
    linear dependence; that neither operator vanishes at this assignment is an explicit hypothesis –
    it holds for every unitary.) -/
theorem Template.placed_sound (hζ : ζ ^ 8 = -1) (hρ : ∀ j, ρ j ≠ 0) (t : Template)
    (h : t.check = true) (wfb : WellFormed t.nq t.body) (wft : WellFormed t.nq [t.target])
    (P : Placement σ t.nq n)
    (k l : ℕ) (hk : k < 2 ^ t.nq) (hneT : semCirc ζ ρ [t.target] k l ≠ 0)
    (k' l' : ℕ) (hk' : k' < 2 ^ t.nq) (hneB : semCirc ζ ρ t.body k' l' ≠ 0) :
    ∃ c : K, c ≠ 0 ∧ ∀ r, r < 2 ^ n → ∀ j, j < 2 ^ n →
      semCirc ζ ρ (t.body.map (Gate.relabel σ)) r j = c * semCirc ζ ρ [t.target.relabel σ] r j := by
  obtain ⟨c, hc⟩ := Template.check_sem_scalar hζ hρ t h wfb wft k l hk hneT
  refine ⟨c, ?_, ?_⟩
  · intro h0
    apply hneB
    rw [hc k' l' hk', h0, zero_mul]
  · exact placed_scalar P t.body [t.target] wfb wft c (fun i hi j _ => hc i j hi)

/-- **A `checkExact`-ed template, placed**: the scalar is the explicit power of `√2`, no side
    conditions on the operators. -/
theorem Template.placed_exact (hζ : ζ ^ 8 = -1) (hρ : ∀ j, ρ j ≠ 0) (h2 : (2 : K) ≠ 0) (t : Template)
    (h : t.checkExact = true) (wfb : WellFormed t.nq t.body) (wft : WellFormed t.nq [t.target])
    (P : Placement σ t.nq n) :
    ∀ r, r < 2 ^ n → ∀ j, j < 2 ^ n →
      semCirc ζ ρ (t.body.map (Gate.relabel σ)) r j
        = (eval ζ ρ Poly.sqrt2 ^ semK t.body / eval ζ ρ Poly.sqrt2 ^ semK [t.target])
          * semCirc ζ ρ [t.target.relabel σ] r j := by
  have hs : eval ζ ρ Poly.sqrt2 ^ semK [t.target] ≠ 0 := pow_ne_zero _ (eval_sqrt2_ne_zero hζ h2)
  apply placed_scalar P t.body [t.target] wfb wft
  intro i hi j _
  have := Template.checkExact_sem hζ hρ t h wfb wft i j hi
  rw [div_mul_eq_mul_div, eq_div_iff hs, mul_comm]
  exact this

theorem Template.placed_exact_ne_zero (hζ : ζ ^ 8 = -1) (h2 : (2 : K) ≠ 0) (t : Template) :
    eval ζ ρ Poly.sqrt2 ^ semK t.body / eval ζ ρ Poly.sqrt2 ^ semK [t.target] ≠ 0 :=
  div_ne_zero (pow_ne_zero _ (eval_sqrt2_ne_zero hζ h2)) (pow_ne_zero _ (eval_sqrt2_ne_zero hζ h2))

/-! ### instances of a template: placed on arbitrary wires AND with arbitrary affine angles -/

theorem relabel_subst (σ : ℕ → ℕ) (as : List Angle) (g : Gate) :
    (Gate.subst as g).relabel σ = Gate.subst as (g.relabel σ) := rfl

theorem map_relabel_subst (σ : ℕ → ℕ) (as : List Angle) (gs : List Gate) :
    (gs.map (Gate.subst as)).map (Gate.relabel σ) = (gs.map (Gate.relabel σ)).map (Gate.subst as) := by
  rw [List.map_map, List.map_map]; rfl

theorem semCirc_instance (hζ : ζ ^ 8 = -1) (hρ : ∀ j, ρ j ≠ 0) (as : List Angle) (gs : List Gate)
    (hk : ∀ g ∈ gs, g.kind ≠ .UnitaryMatrix) :
    semCirc ζ ρ ((gs.map (Gate.subst as)).map (Gate.relabel σ))
      = semCirc ζ (substRho ζ ρ as) (gs.map (Gate.relabel σ)) := by
  rw [map_relabel_subst, semCirc_subst hζ hρ]
  intro g' hg'
  obtain ⟨g, hg, rfl⟩ := List.mem_map.mp hg'
  exact hk g hg

/-- **Every instance of a `check`-ed template.**  Substituting affine angles `as` for the template's
    variables and placing it on wires `σ 0, …, σ (nq-1)` of an `n`-qubit register, the body's operator
    is a non-zero multiple of the target's (non-vanishing of the two template operators at the
    induced assignment is a hypothesis, see `Template.placed_sound`). -/
theorem Template.instance_sound (hζ : ζ ^ 8 = -1) (hρ : ∀ j, ρ j ≠ 0) (t : Template)
    (h : t.check = true) (wfb : WellFormed t.nq t.body) (wft : WellFormed t.nq [t.target])
    (P : Placement σ t.nq n) (as : List Angle)
    (hkb : ∀ g ∈ t.body, g.kind ≠ .UnitaryMatrix) (hkt : t.target.kind ≠ .UnitaryMatrix)
    (k l : ℕ) (hk : k < 2 ^ t.nq) (hneT : semCirc ζ (substRho ζ ρ as) [t.target] k l ≠ 0)
    (k' l' : ℕ) (hk' : k' < 2 ^ t.nq) (hneB : semCirc ζ (substRho ζ ρ as) t.body k' l' ≠ 0) :
    ∃ c : K, c ≠ 0 ∧ ∀ r, r < 2 ^ n → ∀ j, j < 2 ^ n →
      semCirc ζ ρ ((t.body.map (Gate.subst as)).map (Gate.relabel σ)) r j
        = c * semCirc ζ ρ [(t.target.subst as).relabel σ] r j := by
  have e1 := semCirc_instance (σ := σ) hζ hρ as t.body hkb
  have e2 := semCirc_instance (σ := σ) hζ hρ as [t.target] (by simpa using hkt)
  simp only [List.map_cons, List.map_nil] at e2
  rw [e1, e2]
  exact Template.placed_sound hζ (substRho_ne_zero hζ hρ as) t h wfb wft P k l hk hneT k' l' hk' hneB

/-- **Every instance of a `checkExact`-ed template**: explicit scalar, no side conditions. -/
theorem Template.instance_exact (hζ : ζ ^ 8 = -1) (hρ : ∀ j, ρ j ≠ 0) (h2 : (2 : K) ≠ 0)
    (t : Template) (h : t.checkExact = true) (wfb : WellFormed t.nq t.body)
    (wft : WellFormed t.nq [t.target]) (P : Placement σ t.nq n) (as : List Angle)
    (hkb : ∀ g ∈ t.body, g.kind ≠ .UnitaryMatrix) (hkt : t.target.kind ≠ .UnitaryMatrix) :
    ∀ r, r < 2 ^ n → ∀ j, j < 2 ^ n →
      semCirc ζ ρ ((t.body.map (Gate.subst as)).map (Gate.relabel σ)) r j
        = (eval ζ ρ Poly.sqrt2 ^ semK t.body / eval ζ ρ Poly.sqrt2 ^ semK [t.target])
          * semCirc ζ ρ [(t.target.subst as).relabel σ] r j := by
  have e1 := semCirc_instance (σ := σ) hζ hρ as t.body hkb
  have e2 := semCirc_instance (σ := σ) hζ hρ as [t.target] (by simpa using hkt)
  simp only [List.map_cons, List.map_nil] at e2
  rw [e1, e2]
  have := Template.placed_exact hζ (substRho_ne_zero hζ hρ as) h2 t h wfb wft P
  simpa only [eval_sqrt2] using this

end Templates

end QV.MatSound
