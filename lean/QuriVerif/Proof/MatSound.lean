import QuriVerif.Proof.PolySound
import QuriVerif.Found.Template
import Mathlib.Data.List.Induction
/-
  Soundness of the matrix layer (`Found/Mat`, `Found/Gate`, `Found/Template`) on top of
  `Proof/PolySound`.

  For ANY field `K`, `ζ : K` with `ζ^8 = -1` and `ρ : ℕ → K` with all `ρ j ≠ 0`:
    * §1  `evalMat`, `embedAct` : the (short, trusted) specification;
    * §2  `Gate.applyTo` is the textbook embedded gate action (`evalMat_applyTo`), `circMat` is the
          composition of these actions (`evalMat_circMat`, scale exponent `circMat_k`);
    * §3  `Mat.propTo` / `SMat.propTo` (`propTo_sound`: all 2×2 minors vanish) and `SMat.eq`
          (`smat_eq_sound`) are sound for the evaluated matrices;
    * §4  hence `T.check = true` / `T.checkExact = true` (discharged by `decide +kernel`) are
          statements about operators over `K` for every assignment of the angle variables
          (`Template.check_sem`, `Template.check_sem_scalar`, `Template.checkExact_sem`).
  Instantiate `K = ℂ`, `ζ = exp(iπ/8)`, `ρ j = exp(iφⱼ/2)` for the intended reading.
-/

namespace QV.MatSound
open QV QV.Poly

variable {K : Type} [Field K] (ζ : K) (ρ : ℕ → K)

/-! ## 1. Semantics (trusted specification) -/

/-- value of entry `j` of a row of polynomials; positions beyond the row are `0` -/
def evalRow (row : List Poly) (j : ℕ) : K := eval ζ ρ (row.getD j [])

/-- value of entry `(i, j)` of a list-of-rows matrix; positions outside are `0` -/
def evalMat (M : Mat) (i j : ℕ) : K := evalRow ζ ρ (M.getD i []) j

/-- textbook action of a gate with local matrix `L` on wires `ws`, from the left, on `A` -/
def embedAct (L : ℕ → ℕ → K) (ws : List ℕ) (A : ℕ → ℕ → K) (r j : ℕ) : K :=
  ((List.range (2 ^ ws.length)).map fun l =>
    L (Gate.locIdx ws r) l * A (Gate.clearBits ws r + Gate.spread ws l) j).sum

variable {ζ ρ}

/-! ## 2. `applyTo` and `circMat` -/

theorem evalRow_nil (j : ℕ) : evalRow ζ ρ [] j = 0 := by
  simp [evalRow, eval_nil]

theorem evalRow_cons_zero (a : Poly) (as : List Poly) : evalRow ζ ρ (a :: as) 0 = eval ζ ρ a := by
  simp [evalRow]

theorem evalRow_cons_succ (a : Poly) (as : List Poly) (j : ℕ) :
    evalRow ζ ρ (a :: as) (j + 1) = evalRow ζ ρ as j := by
  simp [evalRow]

theorem eval_isZero (p : Poly) (h : p.isZero = true) : eval ζ ρ p = 0 := by
  cases p with
  | nil => rfl
  | cons t p => simp [Poly.isZero] at h

theorem evalRow_rowAxpy (hζ : ζ ^ 8 = -1) (hρ : ∀ j, ρ j ≠ 0) (p : Poly) (x y : List Poly) (j : ℕ) :
    evalRow ζ ρ (Gate.rowAxpy p x y) j = eval ζ ρ p * evalRow ζ ρ x j + evalRow ζ ρ y j := by
  induction x generalizing y j with
  | nil => simp [Gate.rowAxpy, evalRow_nil]
  | cons a as ih =>
    cases y with
    | nil =>
      cases j with
      | zero => simp [Gate.rowAxpy, evalRow_cons_zero, evalRow_nil, eval_mul hζ hρ]
      | succ j => simp [Gate.rowAxpy, evalRow_cons_succ, ih, evalRow_nil]
    | cons b bs =>
      cases j with
      | zero => simp [Gate.rowAxpy, evalRow_cons_zero, eval_mul hζ hρ, eval_add]
      | succ j => simp [Gate.rowAxpy, evalRow_cons_succ, ih]

theorem sum_map_zero {α : Type} (l : List α) (f : α → K) (h : ∀ x ∈ l, f x = 0) :
    (l.map f).sum = 0 := by
  induction l with
  | nil => rfl
  | cons a l ih =>
    simp only [List.map_cons, List.sum_cons]
    rw [h a (by simp), ih (fun x hx => h x (by simp [hx])), add_zero]

/-- the `foldr` of `applyTo` accumulates the linear combination of the selected rows -/
theorem evalRow_foldr (hζ : ζ ^ 8 = -1) (hρ : ∀ j, ρ j ≠ 0) (M : Mat) (f : ℕ → ℕ)
    (zs : List (ℕ × Poly)) (j : ℕ) :
    evalRow ζ ρ (zs.foldr (fun (l, p) acc =>
        if p.isZero then acc else Gate.rowAxpy p (M.getD (f l) []) acc) []) j
      = (zs.map fun x => eval ζ ρ x.2 * evalMat ζ ρ M (f x.1) j).sum := by
  induction zs with
  | nil => simp [evalRow_nil]
  | cons z zs ih =>
    obtain ⟨l, p⟩ := z
    simp only [List.foldr_cons, List.map_cons, List.sum_cons]
    by_cases hp : p.isZero = true
    · simp only [hp, if_true, ih, eval_isZero p hp, zero_mul, zero_add]
    · simp only [hp, Bool.false_eq_true, if_false, evalRow_rowAxpy hζ hρ, ih, evalMat]

/-- zipping with a range truncates at the range and pads (by `F l [] = 0`) beyond the list -/
theorem sum_zip_range' (F : ℕ → Poly → K) (hF : ∀ l, F l [] = 0) (N : ℕ) :
    ∀ (s : ℕ) (lr : List Poly),
    ((List.zip (List.range' s N) lr).map fun x => F x.1 x.2).sum
      = ((List.range' s N).map fun l => F l (lr.getD (l - s) [])).sum := by
  induction N with
  | zero => intro s lr; simp
  | succ N ih =>
    intro s lr
    rw [List.range'_succ]
    cases lr with
    | nil =>
      rw [List.zip_nil_right]
      symm
      apply sum_map_zero
      intro x _
      simp [hF]
    | cons p ps =>
      simp only [List.zip_cons_cons, List.map_cons, List.sum_cons, ih (s + 1) ps,
        Nat.sub_self, List.getD_cons_zero]
      congr 1
      apply congrArg
      apply List.map_congr_left
      intro l hl
      have : s + 1 ≤ l := (List.mem_range'_1.mp hl).1
      have e : l - s = (l - (s + 1)) + 1 := by omega
      rw [e, List.getD_cons_succ]

theorem getD_ge {α : Type} (l : List α) (d : α) {i : ℕ} (h : l.length ≤ i) : l.getD i d = d := by
  simp [List.getD_eq_getElem?_getD, List.getElem?_eq_none h]

theorem getD_map_range {α : Type} (f : ℕ → α) (N r : ℕ) (d : α) (hr : r < N) :
    ((List.range N).map f).getD r d = f r := by
  simp [List.getD_eq_getElem?_getD, hr]

/-- **`applyTo` is the embedded gate action.**  No hypothesis on the shape of the local matrix is
    needed: `zip` truncates local rows longer than `2^|ws|`, and entries beyond a shorter local
    row are `eval [] = 0`, exactly as `evalMat` reads them. -/
theorem evalMat_applyTo (hζ : ζ ^ 8 = -1) (hρ : ∀ j, ρ j ≠ 0) (n : ℕ) (g : Gate) (M : Mat)
    (r j : ℕ) (hr : r < 2 ^ n) :
    evalMat ζ ρ (g.applyTo n M) r j
      = embedAct (evalMat ζ ρ g.localMat.m) g.wires (evalMat ζ ρ M) r j := by
  unfold Gate.applyTo
  simp only []
  rw [evalMat, getD_map_range _ _ _ _ hr]
  rw [evalRow_foldr hζ hρ M (fun l => Gate.clearBits g.wires r + Gate.spread g.wires l)]
  rw [List.range_eq_range']
  rw [sum_zip_range' (fun l p => eval ζ ρ p * evalMat ζ ρ M (Gate.clearBits g.wires r + Gate.spread g.wires l) j)
    (by intro l; simp [eval_nil])]
  simp [embedAct, evalMat, evalRow, List.range_eq_range']

/-- rows `≥ 2^n` do not exist in the result of `applyTo` -/
theorem evalMat_applyTo_ge (n : ℕ) (g : Gate) (M : Mat) (r j : ℕ) (hr : 2 ^ n ≤ r) :
    evalMat ζ ρ (g.applyTo n M) r j = 0 := by
  unfold Gate.applyTo
  simp only []
  rw [evalMat, getD_ge _ _ (by simpa using hr), evalRow_nil]

theorem circMat_snoc (n : ℕ) (gs : List Gate) (g : Gate) :
    circMat n (gs ++ [g]) = ⟨g.applyTo n (circMat n gs).m, (circMat n gs).k + g.localMat.k⟩ := by
  simp [circMat, List.foldl_append]

theorem circMat_snoc_k (n : ℕ) (gs : List Gate) (g : Gate) :
    (circMat n (gs ++ [g])).k = (circMat n gs).k + g.localMat.k := by
  rw [circMat_snoc]

theorem evalMat_circMat_snoc (hζ : ζ ^ 8 = -1) (hρ : ∀ j, ρ j ≠ 0) (n : ℕ) (gs : List Gate)
    (g : Gate) (r j : ℕ) (hr : r < 2 ^ n) :
    evalMat ζ ρ (circMat n (gs ++ [g])).m r j
      = embedAct (evalMat ζ ρ g.localMat.m) g.wires (evalMat ζ ρ (circMat n gs).m) r j := by
  rw [circMat_snoc]
  exact evalMat_applyTo hζ hρ n g _ r j hr

theorem eval_one : eval ζ ρ Poly.one = 1 := by
  simp [eval, Poly.one, evalTerm, evalMono, evalExps]

/-- the identity matrix: for a row index in range, ALL column indices are right
    (`j ≥ N` gives `0`, and then `i ≠ j`) -/
theorem evalMat_identity (N i j : ℕ) (hi : i < N) :
    evalMat ζ ρ (Mat.identity N) i j = if i = j then 1 else 0 := by
  unfold Mat.identity Mat.ofFn
  rw [evalMat, getD_map_range _ _ _ _ hi, evalRow]
  by_cases hj : j < N
  · rw [getD_map_range _ _ _ _ hj]
    by_cases e : i = j
    · simp [e, eval_one]
    · simp [e, eval_nil]
  · rw [getD_ge _ _ (by simpa using hj)]
    have : i ≠ j := by omega
    simp [this, eval_nil]

theorem evalMat_circMat_nil (n i j : ℕ) (hi : i < 2 ^ n) :
    evalMat ζ ρ (circMat n []).m i j = if i = j then 1 else 0 :=
  evalMat_identity _ i j hi

/-! ### Bit arithmetic: the rows read by `embedAct` stay inside `2^n`

`val n b = Σ_{w<n} b w · 2^w`.  For distinct wires `< n`, `clearBits ws x` is `x` with the bits
at `ws` zeroed, `spread ws l` only has bits at `ws`, so the sum has all bits `≤ 1` below `n`. -/

def val : ℕ → (ℕ → ℕ) → ℕ
  | 0, _ => 0
  | n + 1, b => val n b + b n * 2 ^ n

theorem val_lt (n : ℕ) (b : ℕ → ℕ) (hb : ∀ w, b w ≤ 1) : val n b < 2 ^ n := by
  induction n with
  | zero => simp [val]
  | succ n ih =>
    have h1 : b n * 2 ^ n ≤ 1 * 2 ^ n := Nat.mul_le_mul_right _ (hb n)
    rw [val, pow_succ]; omega

theorem val_congr (n : ℕ) (b c : ℕ → ℕ) (h : ∀ w, w < n → b w = c w) : val n b = val n c := by
  induction n with
  | zero => rfl
  | succ n ih =>
    rw [val, val, ih (fun w hw => h w (by omega)), h n (by omega)]

theorem val_add (n : ℕ) (b c : ℕ → ℕ) : val n (fun w => b w + c w) = val n b + val n c := by
  induction n with
  | zero => rfl
  | succ n ih => simp only [val, ih, Nat.add_mul]; omega

theorem val_zero (n : ℕ) : val n (fun _ => 0) = 0 := by
  induction n with
  | zero => rfl
  | succ n ih => simp [val, ih]

theorem val_single (n w k : ℕ) (hw : w < n) : val n (fun v => if v = w then k else 0) = k * 2 ^ w := by
  induction n with
  | zero => omega
  | succ n ih =>
    rw [val]
    by_cases e : w = n
    · subst e
      rw [val_congr w _ (fun _ => 0) (fun v hv => by simp; omega), val_zero]
      simp
    · rw [ih (by omega)]
      have : n ≠ w := fun h => e h.symm
      simp [this]

theorem val_bitAt (x n : ℕ) : val n (Gate.bitAt x) = x % 2 ^ n := by
  induction n with
  | zero => simp [val, Nat.mod_one]
  | succ n ih => rw [val, ih, Nat.mod_pow_succ, Gate.bitAt, Nat.mul_comm]

/-- zeroing one digit -/
theorem val_split (n w : ℕ) (b : ℕ → ℕ) (hw : w < n) :
    val n b = val n (fun v => if v = w then 0 else b v) + b w * 2 ^ w := by
  rw [← val_single n w (b w) hw, ← val_add]
  apply val_congr
  intro v _
  by_cases e : v = w <;> simp [e]

theorem clearBits_val (x n : ℕ) : ∀ (ws : List ℕ) (b : ℕ → ℕ), ws.Nodup → (∀ w ∈ ws, w < n) →
    (∀ w ∈ ws, b w = Gate.bitAt x w) →
    ws.foldl (fun a w => a - Gate.bitAt x w * 2 ^ w) (val n b)
      = val n (fun v => if v ∈ ws then 0 else b v) := by
  intro ws
  induction ws with
  | nil => intro b _ _ _; simp
  | cons w ws ih =>
    intro b hnd hlt hb
    rw [List.nodup_cons] at hnd
    rw [List.foldl_cons]
    have e : val n b - Gate.bitAt x w * 2 ^ w = val n (fun v => if v = w then 0 else b v) := by
      rw [val_split n w b (hlt w (by simp)), hb w (by simp)]; omega
    rw [e, ih _ hnd.2 (fun v hv => hlt v (by simp [hv]))]
    · apply val_congr
      intro v _
      by_cases e1 : v = w
      · simp [e1]
      · simp [e1]
    · intro v hv
      have : v ≠ w := fun h => hnd.1 (h ▸ hv)
      simp [this, hb v (by simp [hv])]

theorem bitAt_le_one (x w : ℕ) : Gate.bitAt x w ≤ 1 := by
  unfold Gate.bitAt; omega

theorem spread_val (l n : ℕ) : ∀ (ws : List ℕ) (s : ℕ), ws.Nodup → (∀ w ∈ ws, w < n) →
    ∃ c : ℕ → ℕ, (∀ v, c v ≤ 1) ∧ (∀ v, v ∉ ws → c v = 0) ∧
      ∀ a, (List.zip (List.range' s ws.length) ws).foldl
          (fun a (i, w) => a + Gate.bitAt l i * 2 ^ w) a = a + val n c := by
  intro ws
  induction ws with
  | nil => intro s _ _; exact ⟨fun _ => 0, by simp, by simp, by simp [val_zero]⟩
  | cons w ws ih =>
    intro s hnd hlt
    rw [List.nodup_cons] at hnd
    obtain ⟨c, hc1, hc0, hc⟩ := ih (s + 1) hnd.2 (fun v hv => hlt v (by simp [hv]))
    refine ⟨fun v => if v = w then Gate.bitAt l s else c v, ?_, ?_, ?_⟩
    · intro v; by_cases e : v = w
      · simp [e, bitAt_le_one]
      · simp [e, hc1]
    · intro v hv
      simp only [List.mem_cons, not_or] at hv
      simp [hv.1, hc0 v hv.2]
    · intro a
      rw [List.length_cons, List.range'_succ, List.zip_cons_cons, List.foldl_cons, hc]
      have e : val n (fun v => if v = w then Gate.bitAt l s else c v)
          = val n (fun v => if v = w then Gate.bitAt l s else 0) + val n c := by
        rw [← val_add]
        apply val_congr
        intro v _
        by_cases e1 : v = w
        · simp [e1, hc0 w hnd.1]
        · simp [e1]
      rw [e, val_single n w _ (hlt w (by simp))]
      dsimp only
      omega

/-- **row bound**: for distinct wires below `n`, the rows of the previous matrix that the
    embedded gate reads for an in-range row are in range -/
theorem clearBits_add_spread_lt (n : ℕ) (ws : List ℕ) (x l : ℕ) (hnd : ws.Nodup)
    (hw : ∀ w ∈ ws, w < n) (hx : x < 2 ^ n) :
    Gate.clearBits ws x + Gate.spread ws l < 2 ^ n := by
  obtain ⟨c, hc1, hc0, hc⟩ := spread_val l n ws 0 hnd hw
  have e1 : Gate.clearBits ws x = val n (fun v => if v ∈ ws then 0 else Gate.bitAt x v) := by
    have := clearBits_val x n ws (Gate.bitAt x) hnd hw (fun _ _ => rfl)
    rw [val_bitAt, Nat.mod_eq_of_lt hx] at this
    exact this
  have e2 : Gate.spread ws l = val n c := by
    have := hc 0
    rw [Nat.zero_add, ← List.range_eq_range'] at this
    exact this
  rw [e1, e2, ← val_add]
  apply val_lt
  intro v
  by_cases e : v ∈ ws
  · simp [e, hc1]
  · simp [e, hc0 v e, bitAt_le_one]

/-! ### Semantics of a gate list -/

variable (ζ ρ)

/-- identity operator -/
def idMat : ℕ → ℕ → K := fun i j => if i = j then 1 else 0

/-- the gate list as an operator (first gate applied first), up to the scale `(1/√2)^(semK gs)` -/
def semCirc (gs : List Gate) : ℕ → ℕ → K :=
  gs.foldl (fun A g => embedAct (evalMat ζ ρ g.localMat.m) g.wires A) idMat

/-- accumulated power of `1/√2` -/
def semK (gs : List Gate) : ℕ := (gs.map fun g => g.localMat.k).sum

/-- every gate acts on distinct wires below `n` -/
def WellFormed (n : ℕ) (gs : List Gate) : Prop :=
  ∀ g ∈ gs, g.wires.Nodup ∧ ∀ w ∈ g.wires, w < n

variable {ζ ρ}

theorem semCirc_snoc (gs : List Gate) (g : Gate) :
    semCirc ζ ρ (gs ++ [g]) = embedAct (evalMat ζ ρ g.localMat.m) g.wires (semCirc ζ ρ gs) := by
  simp [semCirc, List.foldl_append]

theorem embedAct_congr (L : ℕ → ℕ → K) (ws : List ℕ) (A B : ℕ → ℕ → K) (r j : ℕ)
    (h : ∀ l, A (Gate.clearBits ws r + Gate.spread ws l) j = B (Gate.clearBits ws r + Gate.spread ws l) j) :
    embedAct L ws A r j = embedAct L ws B r j := by
  unfold embedAct
  congr 1
  apply List.map_congr_left
  intro l _
  rw [h l]

theorem circMat_k (n : ℕ) (gs : List Gate) : (circMat n gs).k = semK gs := by
  induction gs using List.reverseRec with
  | nil => rfl
  | append_singleton gs g ih => rw [circMat_snoc_k, ih]; simp [semK]

/-- **`circMat` computes the operator of the gate list.**
    The induction needs the rows that `embedAct` reads (`clearBits ws r + spread ws l`) to be
    `< 2^n` again; this is `clearBits_add_spread_lt` and holds iff wires are distinct and `< n`
    (for repeated wires, e.g. `ws = [0,0]`, `n = 1`, `r = 1`, `l = 3`, the index is `2`), hence the
    `WellFormed` hypothesis.  `evalMat_circMat_trunc` below is the hypothesis-free variant. -/
theorem evalMat_circMat (hζ : ζ ^ 8 = -1) (hρ : ∀ j, ρ j ≠ 0) (n : ℕ) (gs : List Gate)
    (wf : WellFormed n gs) : ∀ r j, r < 2 ^ n →
    evalMat ζ ρ (circMat n gs).m r j = semCirc ζ ρ gs r j := by
  induction gs using List.reverseRec with
  | nil => intro r j hr; exact evalMat_circMat_nil n r j hr
  | append_singleton gs g ih =>
    intro r j hr
    have wf' : WellFormed n gs := fun g' hg' => wf g' (by simp [hg'])
    have wg := wf g (by simp)
    rw [evalMat_circMat_snoc hζ hρ n gs g r j hr, semCirc_snoc]
    apply embedAct_congr
    intro l
    exact ih wf' _ j (clearBits_add_spread_lt n g.wires r l wg.1 wg.2 hr)

variable (ζ ρ)

/-- gate action on a `2^n`-row array that is `0` outside -/
def embedActN (n : ℕ) (L : ℕ → ℕ → K) (ws : List ℕ) (A : ℕ → ℕ → K) (r j : ℕ) : K :=
  if r < 2 ^ n then embedAct L ws A r j else 0

/-- what `circMat n gs` computes for ARBITRARY gate lists (wires out of range read zero rows) -/
def semCircN (n : ℕ) (gs : List Gate) : ℕ → ℕ → K :=
  gs.foldl (fun A g => embedActN n (evalMat ζ ρ g.localMat.m) g.wires A)
    (fun i j => if i < 2 ^ n then idMat i j else 0)

variable {ζ ρ}

/-- hypothesis-free description of `circMat`, valid for all `r j` -/
theorem evalMat_circMat_trunc (hζ : ζ ^ 8 = -1) (hρ : ∀ j, ρ j ≠ 0) (n : ℕ) (gs : List Gate) :
    ∀ r j, evalMat ζ ρ (circMat n gs).m r j = semCircN ζ ρ n gs r j := by
  induction gs using List.reverseRec with
  | nil =>
    intro r j
    by_cases hr : r < 2 ^ n
    · simp only [semCircN, List.foldl_nil, hr, if_true]; exact evalMat_circMat_nil n r j hr
    · simp only [semCircN, List.foldl_nil, hr, if_false]
      rw [circMat, List.foldl_nil, SMat.identity, evalMat, getD_ge _ _ (by simp [Mat.identity, Mat.ofFn]; omega), evalRow_nil]
  | append_singleton gs g ih =>
    intro r j
    have e : semCircN ζ ρ n (gs ++ [g])
        = embedActN n (evalMat ζ ρ g.localMat.m) g.wires (semCircN ζ ρ n gs) := by
      simp [semCircN, List.foldl_append]
    rw [e, embedActN]
    by_cases hr : r < 2 ^ n
    · rw [if_pos hr, evalMat_circMat_snoc hζ hρ n gs g r j hr]
      exact embedAct_congr _ _ _ _ _ _ (fun l => ih _ j)
    · rw [if_neg hr, circMat_snoc]
      exact evalMat_applyTo_ge n g _ r j (by omega)

/-! ## 3. Soundness of the decision procedures `Mat.propTo`, `SMat.propTo`, `SMat.eq` -/

instance : LawfulBEq Mono where
  rfl := by intro a; exact (mono_beq_iff a a).mpr rfl
  eq_of_beq := by intro a b h; exact (mono_beq_iff a b).mp h

theorem evalRow_ge (row : List Poly) (j : ℕ) (h : row.length ≤ j) : evalRow ζ ρ row j = 0 := by
  rw [evalRow, getD_ge _ _ h, eval_nil]

theorem shape_getD : ∀ (a b : Mat), a.map List.length = b.map List.length →
    ∀ i, (a.getD i []).length = (b.getD i []).length
  | [], [], _, i => by simp
  | [], _ :: _, h, _ => by simp at h
  | _ :: _, [], h, _ => by simp at h
  | r :: a, s :: b, h, i => by
    simp only [List.map_cons, List.cons.injEq] at h
    cases i with
    | zero => simpa using h.1
    | succ i => simpa using shape_getD a b h.2 i

theorem mem_zip_getD : ∀ (r s : List Poly), r.length = s.length → ∀ j, j < r.length →
    (r.getD j [], s.getD j []) ∈ List.zip r s
  | [], _, _, j, hj => by simp at hj
  | _ :: _, [], h, _, _ => by simp at h
  | x :: r, y :: s, h, j, hj => by
    cases j with
    | zero => simp
    | succ j =>
      have := mem_zip_getD r s (by simpa using h) j (by simpa using hj)
      rw [List.getD_cons_succ, List.getD_cons_succ, List.zip_cons_cons]
      exact List.mem_cons_of_mem _ this

/-- with equal row shapes, flattening aligns the entries of the two matrices -/
theorem mem_zip_flat : ∀ (a b : Mat), a.map List.length = b.map List.length →
    ∀ i j, j < (a.getD i []).length →
    ((a.getD i []).getD j [], (b.getD i []).getD j []) ∈ List.zip (Mat.flat a) (Mat.flat b)
  | [], _, _, i, j, hj => by simp at hj
  | _ :: _, [], h, _, _, _ => by simp at h
  | r :: a, s :: b, h, i, j, hj => by
    simp only [List.map_cons, List.cons.injEq] at h
    have e : List.zip (Mat.flat (r :: a)) (Mat.flat (s :: b))
        = List.zip r s ++ List.zip (Mat.flat a) (Mat.flat b) := by
      show List.zip (r ++ Mat.flat a) (s ++ Mat.flat b) = _
      exact List.zip_append h.1
    rw [e, List.mem_append]
    cases i with
    | zero => left; exact mem_zip_getD r s h.1 j (by simpa using hj)
    | succ i => right; exact mem_zip_flat a b h.2 i j (by simpa using hj)

/-- **`Mat.propTo` is sound**: all 2×2 minors of the pair of evaluated matrices vanish, for all
    indices (outside the common shape both matrices are `0`). -/
theorem propTo_sound (hζ : ζ ^ 8 = -1) (hρ : ∀ j, ρ j ≠ 0) (a b : Mat)
    (h : Mat.propTo a b = true) (i j k l : ℕ) :
    evalMat ζ ρ a i j * evalMat ζ ρ b k l = evalMat ζ ρ a k l * evalMat ζ ρ b i j := by
  simp only [Mat.propTo, Bool.and_eq_true, beq_iff_eq, List.all_eq_true] at h
  obtain ⟨⟨hs, _⟩, hall⟩ := h
  have hlen := shape_getD a b hs
  by_cases h1 : j < (a.getD i []).length
  · by_cases h2 : l < (a.getD k []).length
    · have m1 := mem_zip_flat a b hs i j h1
      have m2 := mem_zip_flat a b hs k l h2
      have := hall _ m1 _ m2
      exact cross_sound hζ hρ _ _ _ _ this
    · have z1 : evalMat ζ ρ a k l = 0 := evalRow_ge _ _ (by omega)
      have z2 : evalMat ζ ρ b k l = 0 := evalRow_ge _ _ (by rw [← hlen]; omega)
      rw [z1, z2]; ring
  · have z1 : evalMat ζ ρ a i j = 0 := evalRow_ge _ _ (by omega)
    have z2 : evalMat ζ ρ b i j = 0 := evalRow_ge _ _ (by rw [← hlen]; omega)
    rw [z1, z2]; ring

theorem smat_propTo_sound (hζ : ζ ^ 8 = -1) (hρ : ∀ j, ρ j ≠ 0) (a b : SMat)
    (h : SMat.propTo a b = true) (i j k l : ℕ) :
    evalMat ζ ρ a.m i j * evalMat ζ ρ b.m k l = evalMat ζ ρ a.m k l * evalMat ζ ρ b.m i j := by
  simp only [SMat.propTo, Bool.and_eq_true] at h
  exact propTo_sound hζ hρ a.m b.m h.1.1 i j k l

/-- vanishing minors (on the rows satisfying `P`) + one non-zero entry of `B` ⇒ `A` is a scalar
    multiple of `B` (on those rows); generic field fact, `c = A k l / B k l` -/
theorem exists_scalar_of_cross {A B : ℕ → ℕ → K} (P : ℕ → Prop)
    (h : ∀ i j k l, P i → P k → A i j * B k l = A k l * B i j) (k l : ℕ) (hk : P k)
    (hB : B k l ≠ 0) :
    ∃ c : K, ∀ i j, P i → A i j = c * B i j := by
  refine ⟨A k l / B k l, fun i j hi => ?_⟩
  rw [div_mul_eq_mul_div, eq_div_iff hB]
  exact h i j k l hi hk

/-! ### exact equality -/

theorem eval_pow (hζ : ζ ^ 8 = -1) (hρ : ∀ j, ρ j ≠ 0) (p : Poly) (n : ℕ) :
    eval ζ ρ (SMat.pow p n) = eval ζ ρ p ^ n := by
  induction n with
  | zero => simp [SMat.pow, eval_one]
  | succ n ih => rw [SMat.pow, eval_mul hζ hρ, ih, pow_succ, mul_comm]

theorem eval_sqrt2 : eval ζ ρ Poly.sqrt2 = ζ ^ 2 - ζ ^ 6 := by
  have e2 : Poly.uPow 2 = [(⟨2, []⟩, 1)] := by decide
  have e6 : Poly.uPow 6 = [(⟨6, []⟩, 1)] := by decide
  rw [Poly.sqrt2, eval_sub, e2, e6]
  simp [eval, evalTerm, evalMono, evalExps]

/-- `sqrt2` really denotes a square root of two -/
theorem eval_sqrt2_sq (hζ : ζ ^ 8 = -1) : eval ζ ρ Poly.sqrt2 * eval ζ ρ Poly.sqrt2 = 2 := by
  rw [eval_sqrt2]
  have h12 : ζ ^ 12 = -ζ ^ 4 := by
    have : ζ ^ 12 = ζ ^ 8 * ζ ^ 4 := by ring
    rw [this, hζ]; ring
  have : (ζ ^ 2 - ζ ^ 6) * (ζ ^ 2 - ζ ^ 6) = ζ ^ 4 - 2 * ζ ^ 8 + ζ ^ 12 := by ring
  rw [this, hζ, h12]; ring

theorem evalRow_map_mul (hζ : ζ ^ 8 = -1) (hρ : ∀ j, ρ j ≠ 0) (p : Poly) :
    ∀ (row : List Poly) (j : ℕ),
    evalRow ζ ρ (row.map (Poly.mul p)) j = eval ζ ρ p * evalRow ζ ρ row j
  | [], j => by simp [evalRow_nil]
  | a :: as, 0 => by simp [evalRow_cons_zero, eval_mul hζ hρ]
  | a :: as, j + 1 => by simpa [evalRow_cons_succ] using evalRow_map_mul hζ hρ p as j

theorem evalMat_smulP (hζ : ζ ^ 8 = -1) (hρ : ∀ j, ρ j ≠ 0) (p : Poly) :
    ∀ (M : Mat) (i j : ℕ),
    evalMat ζ ρ (Mat.smulP p M) i j = eval ζ ρ p * evalMat ζ ρ M i j
  | [], i, j => by simp [Mat.smulP, evalMat, evalRow_nil]
  | r :: M, 0, j => by simpa [Mat.smulP, evalMat] using evalRow_map_mul hζ hρ p r j
  | r :: M, i + 1, j => by simpa [Mat.smulP, evalMat] using evalMat_smulP hζ hρ p M i j

/-- **`SMat.eq` is sound**: `√2^{b.k} · a.m = √2^{a.k} · b.m` entrywise, i.e. the denoted matrices
    `(1/√2)^{a.k} a.m` and `(1/√2)^{b.k} b.m` coincide -/
theorem smat_eq_sound (hζ : ζ ^ 8 = -1) (hρ : ∀ j, ρ j ≠ 0) (a b : SMat)
    (h : SMat.eq a b = true) (i j : ℕ) :
    eval ζ ρ Poly.sqrt2 ^ b.k * evalMat ζ ρ a.m i j
      = eval ζ ρ Poly.sqrt2 ^ a.k * evalMat ζ ρ b.m i j := by
  have e : Mat.smulP (SMat.pow Poly.sqrt2 b.k) a.m = Mat.smulP (SMat.pow Poly.sqrt2 a.k) b.m := by
    simpa [SMat.eq] using h
  have := congrArg (fun M => evalMat ζ ρ M i j) e
  simpa only [evalMat_smulP hζ hρ, eval_pow hζ hρ] using this

/-- the same with the model's own `pow` -/
theorem smat_eq_sound_pow (hζ : ζ ^ 8 = -1) (hρ : ∀ j, ρ j ≠ 0) (a b : SMat)
    (h : SMat.eq a b = true) (i j : ℕ) :
    eval ζ ρ (SMat.pow Poly.sqrt2 b.k) * evalMat ζ ρ a.m i j
      = eval ζ ρ (SMat.pow Poly.sqrt2 a.k) * evalMat ζ ρ b.m i j := by
  rw [eval_pow hζ hρ, eval_pow hζ hρ]; exact smat_eq_sound hζ hρ a b h i j

/-! ## 4. What a discharged `Template.check` / `Template.checkExact` obligation means -/

theorem gate_mat_m (n : ℕ) (g : Gate) : (g.mat n).m = (circMat n [g]).m := rfl

theorem gate_mat_k (n : ℕ) (g : Gate) : (g.mat n).k = g.localMat.k := rfl

instance (n : ℕ) (gs : List Gate) : Decidable (WellFormed n gs) := by
  unfold WellFormed; infer_instance

/-- `check` at the level of the list matrices: no side conditions, all indices -/
theorem Template.check_sound (hζ : ζ ^ 8 = -1) (hρ : ∀ j, ρ j ≠ 0) (t : Template)
    (h : t.check = true) (i j k l : ℕ) :
    evalMat ζ ρ (circMat t.nq t.body).m i j * evalMat ζ ρ (t.target.mat t.nq).m k l
      = evalMat ζ ρ (circMat t.nq t.body).m k l * evalMat ζ ρ (t.target.mat t.nq).m i j :=
  smat_propTo_sound hζ hρ _ _ h i j k l

/-- **`check` semantically**: for every field `K`, `ζ` with `ζ^8 = -1` and non-zero values `ρ` of the
    angle variables, the operator of the body and the operator of the target gate have vanishing
    2×2 minors on the `2^nq` rows, i.e. they are linearly dependent. -/
theorem Template.check_sem (hζ : ζ ^ 8 = -1) (hρ : ∀ j, ρ j ≠ 0) (t : Template)
    (h : t.check = true) (wfb : WellFormed t.nq t.body) (wft : WellFormed t.nq [t.target])
    (i j k l : ℕ) (hi : i < 2 ^ t.nq) (hk : k < 2 ^ t.nq) :
    semCirc ζ ρ t.body i j * semCirc ζ ρ [t.target] k l
      = semCirc ζ ρ t.body k l * semCirc ζ ρ [t.target] i j := by
  have := Template.check_sound hζ hρ t h i j k l
  rw [gate_mat_m] at this
  rwa [evalMat_circMat hζ hρ _ _ wfb i j hi, evalMat_circMat hζ hρ _ _ wfb k l hk,
    evalMat_circMat hζ hρ _ _ wft i j hi, evalMat_circMat hζ hρ _ _ wft k l hk] at this

/-- if moreover some entry of the target operator is non-zero at this assignment, the body is a
    scalar multiple of the target -/
theorem Template.check_sem_scalar (hζ : ζ ^ 8 = -1) (hρ : ∀ j, ρ j ≠ 0) (t : Template)
    (h : t.check = true) (wfb : WellFormed t.nq t.body) (wft : WellFormed t.nq [t.target])
    (k l : ℕ) (hk : k < 2 ^ t.nq) (hne : semCirc ζ ρ [t.target] k l ≠ 0) :
    ∃ c : K, ∀ i j, i < 2 ^ t.nq → semCirc ζ ρ t.body i j = c * semCirc ζ ρ [t.target] i j :=
  exists_scalar_of_cross (fun i => i < 2 ^ t.nq)
    (fun i j k l hi hk => Template.check_sem hζ hρ t h wfb wft i j k l hi hk) k l hk hne

/-- `checkExact` at the level of the list matrices -/
theorem Template.checkExact_sound (hζ : ζ ^ 8 = -1) (hρ : ∀ j, ρ j ≠ 0) (t : Template)
    (h : t.checkExact = true) (i j : ℕ) :
    eval ζ ρ Poly.sqrt2 ^ t.target.localMat.k * evalMat ζ ρ (circMat t.nq t.body).m i j
      = eval ζ ρ Poly.sqrt2 ^ semK t.body * evalMat ζ ρ (t.target.mat t.nq).m i j := by
  have := smat_eq_sound hζ hρ _ _ h i j
  rwa [gate_mat_k, circMat_k] at this

/-- **`checkExact` semantically**: with `s = eval sqrt2` (`s * s = 2` by `eval_sqrt2_sq`),
    `s^{k_target} · ⟦body⟧ = s^{k_body} · ⟦target⟧`, i.e. the scaled operators
    `(1/√2)^{k_body} ⟦body⟧` and `(1/√2)^{k_target} ⟦target⟧` are equal, phase included. -/
theorem Template.checkExact_sem (hζ : ζ ^ 8 = -1) (hρ : ∀ j, ρ j ≠ 0) (t : Template)
    (h : t.checkExact = true) (wfb : WellFormed t.nq t.body) (wft : WellFormed t.nq [t.target])
    (i j : ℕ) (hi : i < 2 ^ t.nq) :
    eval ζ ρ Poly.sqrt2 ^ semK [t.target] * semCirc ζ ρ t.body i j
      = eval ζ ρ Poly.sqrt2 ^ semK t.body * semCirc ζ ρ [t.target] i j := by
  have := Template.checkExact_sound hζ hρ t h i j
  rw [gate_mat_m] at this
  rw [evalMat_circMat hζ hρ _ _ wfb i j hi, evalMat_circMat hζ hρ _ _ wft i j hi] at this
  simpa [semK] using this

/-! ### smoke test: a kernel-checked template, read semantically -/

section Example

private def exT : Template := ⟨1, G .Z [] [0], [G .S [] [0], G .S [] [0]]⟩

private theorem exT_check : exT.check = true := by decide +kernel
private theorem exT_exact : exT.checkExact = true := by decide +kernel
private theorem exT_wfb : WellFormed exT.nq exT.body := by decide
private theorem exT_wft : WellFormed exT.nq [exT.target] := by decide

/-- `S;S` equals `Z` exactly, for every model of the ring -/
example (hζ : ζ ^ 8 = -1) (hρ : ∀ j, ρ j ≠ 0) (i j : ℕ) (hi : i < 2) :
    semCirc ζ ρ [G .S [] [0], G .S [] [0]] i j = semCirc ζ ρ [G .Z [] [0]] i j := by
  have := Template.checkExact_sem hζ hρ exT exT_exact exT_wfb exT_wft i j hi
  simpa [semK, exT, G, Gate.localMat] using this

end Example

end QV.MatSound
