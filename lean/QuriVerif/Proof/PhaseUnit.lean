import Mathlib.Analysis.Complex.Basic
/-
  "Non-zero factor" ⇒ "global phase", independent of any property's tables (used by C01Phase, C12Phase).

    * `rowNormSq d F i`  – squared Euclidean norm of row `i` of the `d × d` block of `F`;
    * `scalar_normSq`    – if `F = z • G` on the block, then `‖row i of F‖² = |z|² ‖row i of G‖²`;
    * `unit_phase`       – equal non-zero norm of one row on both sides forces `‖z‖ = 1`;
    * `unit_phase_of_unitary` – the textbook form: `F`, `G` with unit rows on the block;
    * `rowNormSq_idMat`  – rows of the identity have norm 1.
-/
namespace QV.Phase

/-- squared norm of row `i` of the `d × d` block -/
noncomputable def rowNormSq (d : ℕ) (F : ℕ → ℕ → ℂ) (i : ℕ) : ℝ :=
  ((List.range d).map fun k => Complex.normSq (F i k)).sum

theorem sum_map_mul_left (l : List ℕ) (a : ℝ) (f : ℕ → ℝ) :
    (l.map fun k => a * f k).sum = a * (l.map f).sum := by
  induction l with
  | nil => simp
  | cons x l ih => simp only [List.map_cons, List.sum_cons, ih]; ring

theorem sum_map_congr (l : List ℕ) (f g : ℕ → ℝ) (h : ∀ k ∈ l, f k = g k) :
    (l.map f).sum = (l.map g).sum := by
  induction l with
  | nil => rfl
  | cons x l ih =>
    simp only [List.map_cons, List.sum_cons]
    rw [h x (by simp), ih (fun k hk => h k (by simp [hk]))]

/-- proportional blocks have proportional row norms -/
theorem scalar_normSq (d : ℕ) (F G : ℕ → ℕ → ℂ) (z : ℂ)
    (h : ∀ r, r < d → ∀ j, j < d → F r j = z * G r j) (i : ℕ) (hi : i < d) :
    rowNormSq d F i = Complex.normSq z * rowNormSq d G i := by
  unfold rowNormSq
  rw [← sum_map_mul_left]
  apply sum_map_congr
  intro k hk
  rw [h i hi k (List.mem_range.mp hk), Complex.normSq_mul]

/-- **the factor is a phase**: equal non-zero row norms force `|z| = 1` -/
theorem unit_phase (d : ℕ) (F G : ℕ → ℕ → ℂ) (z : ℂ)
    (h : ∀ r, r < d → ∀ j, j < d → F r j = z * G r j) (i : ℕ) (hi : i < d)
    (hn : rowNormSq d F i = rowNormSq d G i) (hG : rowNormSq d G i ≠ 0) : ‖z‖ = 1 := by
  have e := scalar_normSq d F G z h i hi
  rw [hn] at e
  have h1 : Complex.normSq z = 1 := by
    have : (Complex.normSq z - 1) * rowNormSq d G i = 0 := by linarith
    rcases mul_eq_zero.mp this with h | h
    · linarith
    · exact absurd h hG
  rw [Complex.normSq_eq_norm_sq] at h1
  have h0 : 0 ≤ ‖z‖ := norm_nonneg z
  nlinarith [h1, h0]

/-- rows orthonormal on the block (only the diagonal part is needed) -/
def RowsNormal (d : ℕ) (F : ℕ → ℕ → ℂ) : Prop := ∀ i, i < d → rowNormSq d F i = 1

/-- **textbook form**: two operators with unit rows that are proportional differ by a unit-modulus factor -/
theorem unit_phase_of_unitary (d : ℕ) (hd : 0 < d) (F G : ℕ → ℕ → ℂ) (z : ℂ)
    (h : ∀ r, r < d → ∀ j, j < d → F r j = z * G r j)
    (hF : RowsNormal d F) (hG : RowsNormal d G) : ‖z‖ = 1 :=
  unit_phase d F G z h 0 hd (by rw [hF 0 hd, hG 0 hd]) (by rw [hG 0 hd]; exact one_ne_zero)

/-- rows of the identity block have norm one -/
theorem rowNormSq_id (d i : ℕ) (hi : i < d) :
    rowNormSq d (fun r j => if r = j then (1 : ℂ) else 0) i = 1 := by
  unfold rowNormSq
  induction d with
  | zero => omega
  | succ d ih =>
    rw [List.range_succ, List.map_append, List.sum_append]
    by_cases h : i < d
    · rw [ih h]
      have : i ≠ d := by omega
      simp [this]
    · have e : i = d := by omega
      subst e
      have z : ((List.range i).map fun k => Complex.normSq (if i = k then (1 : ℂ) else 0)).sum = 0 := by
        apply List.sum_eq_zero
        intro x hx
        obtain ⟨k, hk, rfl⟩ := List.mem_map.mp hx
        have : i ≠ k := by have := List.mem_range.mp hk; omega
        simp [this]
      rw [z]; simp

end QV.Phase
