import QuriVerif.Proof.BasisSound
import QuriVerif.Model.C19Lib
/-
  C19 (gate level) over the concrete operator semantics, generic field part.

    * §1  `ctrlOp c κ A` – the SPEC of "controlled-A with control wire `c`" on basis indices, independent of
          the matrix code of `ctrlGate`; `ctrlGate_spec`: the operator of `ctrlGate g` (any gate kind, any
          angles), placed anywhere, IS `ctrlOp` of the operator of `g` on the shifted wires;
    * §2  literal-matrix gates without angle variables are invariant under angle substitution
          (`Mat.closedB`, `semCirc_subst'`), and `ctrlGate` commutes with substitution (`ctrlGate_subst`);
    * §3  a discharged `CTemplate.check`: `CTemplate.placed_exact` (all placements), `CTemplate.instance_exact`
          (all placements and all affine angle substitutions), `CTemplate.instance_spec` (the same against
          the spec `ctrlOp`);
    * §4  inverse rows: a `checkExact`-ed template whose target is the `Identity` gate has the identity
          operator (`identity_template_exact`).
  All statements carry the explicit power of `√2` (`s2 ζ = ζ² − ζ⁶`): `semCirc` is the operator times
  `√2^(semK gs)`; `Props/C19Lift` divides it out.
-/
namespace QV.MatSound
open QV QV.Poly QV.C19Lib

variable {K : Type} [Field K] {ζ : K} {ρ : ℕ → K}

/-! ### §1  the spec of a controlled operator -/

/-- **controlled-`A`, control on wire `c`**: on basis indices whose `c`-bit is set in both row and column
    the entry of `A`; otherwise `κ` times the identity (`κ = 1` for honest operators; `κ = √2^k` when `A` is
    carried with the integer scale `√2^k`).  `A` is meant to act on wires other than `c`. -/
def ctrlOp (c : ℕ) (κ : K) (A : ℕ → ℕ → K) (r j : ℕ) : K :=
  if Gate.bitAt r c = 1 ∧ Gate.bitAt j c = 1 then A r j else if r = j then κ else 0

theorem evalMat_ofFn_rc (R C : ℕ) (f : ℕ → ℕ → Poly) (i j : ℕ) :
    evalMat ζ ρ (Mat.ofFn R C f) i j = if i < R ∧ j < C then eval ζ ρ (f i j) else 0 := by
  unfold evalMat evalRow Mat.ofFn
  by_cases hi : i < R
  · rw [getD_map_range _ R i [] hi]
    by_cases hj : j < C
    · rw [getD_map_range _ C j [] hj, if_pos ⟨hi, hj⟩]
    · rw [getD_ge _ _ (by simpa using Nat.le_of_not_lt hj), if_neg (fun h => hj h.2)]; rfl
  · have e : ((List.range R).map fun i => (List.range C).map fun j => f i j).getD i [] = [] :=
      getD_ge _ _ (by simpa using Nat.le_of_not_lt hi)
    rw [e, if_neg (fun h => hi h.1)]
    simp [eval_nil]

/-- the scale `√2` of the ring, as a field element -/
def s2 (ζ : K) : K := ζ ^ 2 - ζ ^ 6

theorem eval_sqrt2' : eval ζ ρ Poly.sqrt2 = s2 ζ := eval_sqrt2

/-- entries of the local matrix of a controlled gate -/
theorem evalMat_ctrlMat (hζ : ζ ^ 8 = -1) (hρ : ∀ j, ρ j ≠ 0) (L : Mat) (k d a b : ℕ) :
    evalMat ζ ρ (ctrlMat L k d) a b
      = if a < 2 * d ∧ b < 2 * d then
          (if a % 2 = 1 ∧ b % 2 = 1 then evalMat ζ ρ L (a / 2) (b / 2)
           else if a = b then s2 ζ ^ k else 0)
        else 0 := by
  unfold ctrlMat
  rw [evalMat_ofFn_rc]
  congr 1
  by_cases h1 : a % 2 = 1 ∧ b % 2 = 1
  · have : (a % 2 == 1 && b % 2 == 1) = true := by simp [h1.1, h1.2]
    rw [if_pos h1, if_pos this]; rfl
  · have : (a % 2 == 1 && b % 2 == 1) = false := by
      rw [Bool.and_eq_false_iff]
      by_cases ha : a % 2 = 1
      · right; simpa using fun hb => h1 ⟨ha, hb⟩
      · left; simpa using ha
    rw [if_neg h1, this]
    by_cases e : a = b
    · have : (a == b) = true := by simpa using e
      simp only [Bool.false_eq_true, if_false, this, if_true, if_pos e]
      rw [eval_pow hζ hρ, eval_sqrt2']
    · have : (a == b) = false := by simpa using e
      simp only [Bool.false_eq_true, if_false, this, if_neg e]
      exact eval_nil

/-! bits of the local index with one more wire in front -/

theorem bitAt_zero_mod (a : ℕ) : Gate.bitAt a 0 = a % 2 := by simp [Gate.bitAt]

theorem bitAt_half (a i : ℕ) : Gate.bitAt (a / 2) i = Gate.bitAt a (i + 1) := by
  unfold Gate.bitAt
  rw [Nat.div_div_eq_div_mul, pow_succ, Nat.mul_comm]

theorem locIdx_cons_mod (c : ℕ) (ws : List ℕ) (x : ℕ) :
    Gate.locIdx (c :: ws) x % 2 = Gate.bitAt x c := by
  rw [← bitAt_zero_mod, bitAt_locIdx]
  simp

theorem locIdx_cons_half (c : ℕ) (ws : List ℕ) (x : ℕ) :
    Gate.locIdx (c :: ws) x / 2 = Gate.locIdx ws x := by
  have h1 : Gate.locIdx (c :: ws) x / 2 < 2 ^ ws.length := by
    have := locIdx_lt (c :: ws) x
    rw [List.length_cons, pow_succ] at this
    omega
  apply bitAt_ext ws.length _ _ h1 (locIdx_lt ws x)
  intro i hi
  rw [bitAt_half, bitAt_locIdx, bitAt_locIdx, if_pos hi, if_pos (by simpa using hi)]
  simp

/-- two indices agree outside `ws` iff their cleared forms agree -/
theorem clearBits_eq_iff (n : ℕ) (ws : List ℕ) (hnd : ws.Nodup) (hw : ∀ w ∈ ws, w < n) (r j : ℕ)
    (hr : r < 2 ^ n) (hj : j < 2 ^ n) :
    Gate.clearBits ws r = Gate.clearBits ws j ↔
      ∀ v, v < n → v ∉ ws → Gate.bitAt r v = Gate.bitAt j v := by
  constructor
  · intro h v _ hv
    have := congrArg (fun y => Gate.bitAt y v) h
    simp only [bitAt_clearBits n ws _ hnd hw hr, bitAt_clearBits n ws _ hnd hw hj, if_neg hv] at this
    exact this
  · intro h
    apply bitAt_ext n _ _ (clearBits_lt n ws r hnd hw hr) (clearBits_lt n ws j hnd hw hj)
    intro v hv
    rw [bitAt_clearBits n ws r hnd hw hr, bitAt_clearBits n ws j hnd hw hj]
    by_cases e : v ∈ ws
    · rw [if_pos e, if_pos e]
    · rw [if_neg e, if_neg e]; exact h v hv e

theorem clearBits_cons_iff (n c : ℕ) (ws : List ℕ) (hnd : (c :: ws).Nodup)
    (hw : ∀ w ∈ c :: ws, w < n) (r j : ℕ) (hr : r < 2 ^ n) (hj : j < 2 ^ n) :
    Gate.clearBits ws r = Gate.clearBits ws j ↔
      Gate.clearBits (c :: ws) r = Gate.clearBits (c :: ws) j ∧ Gate.bitAt r c = Gate.bitAt j c := by
  have hnd' : ws.Nodup := (List.nodup_cons.mp hnd).2
  have hc : c ∉ ws := (List.nodup_cons.mp hnd).1
  have hw' : ∀ w ∈ ws, w < n := fun w h => hw w (List.mem_cons_of_mem _ h)
  rw [clearBits_eq_iff n ws hnd' hw' r j hr hj, clearBits_eq_iff n (c :: ws) hnd hw r j hr hj]
  constructor
  · intro h
    exact ⟨fun v hv hvn => h v hv (fun hm => hvn (List.mem_cons_of_mem _ hm)),
      h c (hw c (List.mem_cons_self ..)) hc⟩
  · intro ⟨h1, h2⟩ v hv hvn
    by_cases e : v = c
    · rw [e]; exact h2
    · exact h1 v hv (by simp [e, hvn])

/-- **one controlled gate against the spec**: a gate `U` on wires `c :: ws` whose local matrix is
    `ctrlMat L k 2^|ws|`, and a gate `g'` on wires `ws` with local matrix `(L, k)` -/
theorem ctrl_single (hζ : ζ ^ 8 = -1) (hρ : ∀ j, ρ j ≠ 0) (n c : ℕ) (ws : List ℕ) (U g' : Gate)
    (hU : U.wires = c :: ws) (hg : g'.wires = ws)
    (hUm : U.localMat.m = ctrlMat g'.localMat.m g'.localMat.k (2 ^ ws.length))
    (hnd : (c :: ws).Nodup) (hw : ∀ w ∈ c :: ws, w < n)
    (r j : ℕ) (hr : r < 2 ^ n) (hj : j < 2 ^ n) :
    semCirc ζ ρ [U] r j = ctrlOp c (s2 ζ ^ g'.localMat.k) (semCirc ζ ρ [g']) r j := by
  have hnd' : ws.Nodup := (List.nodup_cons.mp hnd).2
  have hw' : ∀ w ∈ ws, w < n := fun w h => hw w (List.mem_cons_of_mem _ h)
  have hlr := locIdx_lt (c :: ws) r
  have hlj := locIdx_lt (c :: ws) j
  rw [List.length_cons, pow_succ, Nat.mul_comm] at hlr hlj
  have hinner : evalMat ζ ρ (ctrlMat g'.localMat.m g'.localMat.k (2 ^ ws.length))
      (Gate.locIdx (c :: ws) r) (Gate.locIdx (c :: ws) j)
      = if Gate.bitAt r c = 1 ∧ Gate.bitAt j c = 1 then
          evalMat ζ ρ g'.localMat.m (Gate.locIdx ws r) (Gate.locIdx ws j)
        else if Gate.locIdx (c :: ws) r = Gate.locIdx (c :: ws) j then s2 ζ ^ g'.localMat.k else 0 := by
    rw [evalMat_ctrlMat hζ hρ, if_pos ⟨hlr, hlj⟩, locIdx_cons_mod, locIdx_cons_mod, locIdx_cons_half,
      locIdx_cons_half]
  rw [semCirc_single n U (hU ▸ hnd) (hU ▸ hw) r j hr hj, hU, hUm, hinner]
  unfold ctrlOp
  by_cases hb : Gate.bitAt r c = 1 ∧ Gate.bitAt j c = 1
  · rw [if_pos hb, if_pos hb, semCirc_single n g' (hg ▸ hnd') (hg ▸ hw') r j hr hj, hg]
    have hiff := clearBits_cons_iff n c ws hnd hw r j hr hj
    by_cases h1 : Gate.clearBits (c :: ws) r = Gate.clearBits (c :: ws) j
    · rw [if_pos h1, if_pos (hiff.mpr ⟨h1, hb.1.trans hb.2.symm⟩)]
    · rw [if_neg h1, if_neg (fun h => h1 (hiff.mp h).1)]
  · rw [if_neg hb, if_neg hb]
    have hiff := eq_iff_ws n (c :: ws) hnd hw r j hr hj
    by_cases h1 : Gate.clearBits (c :: ws) r = Gate.clearBits (c :: ws) j
    · rw [if_pos h1]
      by_cases h2 : Gate.locIdx (c :: ws) r = Gate.locIdx (c :: ws) j
      · rw [if_pos h2, if_pos (hiff.mpr ⟨h1, h2⟩)]
      · rw [if_neg h2, if_neg (fun h => h2 (hiff.mp h).2)]
    · rw [if_neg h1, if_neg (fun h => h1 (hiff.mp h).1)]

theorem ctrlGate_wires (g : Gate) : (ctrlGate g).wires = 0 :: g.wires.map (· + 1) := rfl

theorem ctrlGate_localMat (g : Gate) : (ctrlGate g).localMat
    = ⟨ctrlMat g.localMat.m g.localMat.k (2 ^ g.wires.length), g.localMat.k⟩ := rfl

/-- **`ctrlGate` meets the spec, for every gate kind, all angles, every placement**: with the control
    (template wire 0) sent to `σ 0` and wire `w` of `g` sent to `σ (w+1)` -/
theorem ctrlGate_spec (hζ : ζ ^ 8 = -1) (hρ : ∀ j, ρ j ≠ 0) (g : Gate) {σ : ℕ → ℕ} {nq n : ℕ}
    (P : Placement σ nq n) (hq : 0 < nq) (hnd : g.wires.Nodup) (hw : ∀ w ∈ g.wires, w + 1 < nq)
    (r j : ℕ) (hr : r < 2 ^ n) (hj : j < 2 ^ n) :
    semCirc ζ ρ [(ctrlGate g).relabel σ] r j
      = ctrlOp (σ 0) (s2 ζ ^ g.localMat.k) (semCirc ζ ρ [g.relabel fun w => σ (w + 1)]) r j := by
  have h := ctrl_single (ζ := ζ) (ρ := ρ) hζ hρ n (σ 0) (g.wires.map fun w => σ (w + 1))
    ((ctrlGate g).relabel σ) (g.relabel fun w => σ (w + 1))
    (by rw [relabel_wires, ctrlGate_wires, List.map_cons, List.map_map]; rfl)
    (relabel_wires _ g)
    (by rw [relabel_localMat, relabel_localMat, ctrlGate_localMat, List.length_map])
    (by
      rw [List.nodup_cons]
      constructor
      · intro hm
        obtain ⟨w, hwm, he⟩ := List.mem_map.mp hm
        have := P.inj (w + 1) (hw w hwm) 0 hq he
        omega
      · refine List.Nodup.map_on ?_ hnd
        intro a ha b hb hab
        have := P.inj (a + 1) (hw a ha) (b + 1) (hw b hb) hab
        omega)
    (by
      intro w hm
      rcases List.mem_cons.mp hm with rfl | hm'
      · exact P.lt 0 hq
      · obtain ⟨v, hv, rfl⟩ := List.mem_map.mp hm'
        exact P.lt (v + 1) (hw v hv))
    r j hr hj
  rw [relabel_localMat] at h
  exact h

/-! ### §2  angle substitution, literal matrices, `ctrlGate` -/

/-- no angle variable occurs in the polynomial / matrix -/
def Poly.closedB (p : Poly) : Bool := p.all fun t => t.1.ex.isEmpty
def Mat.closedB (M : Mat) : Bool := M.all fun row => row.all Poly.closedB

theorem eval_closed (ρ ρ' : ℕ → K) (p : Poly) (h : Poly.closedB p = true) :
    eval ζ ρ p = eval ζ ρ' p := by
  unfold eval
  congr 1
  apply List.map_congr_left
  intro t ht
  have := List.all_eq_true.mp h t ht
  have he : t.1.ex = [] := by simpa using this
  simp [evalTerm, evalMono, he, evalExps]

theorem evalMat_closed (ρ ρ' : ℕ → K) (M : Mat) (h : Mat.closedB M = true) (i j : ℕ) :
    evalMat ζ ρ M i j = evalMat ζ ρ' M i j := by
  unfold evalMat evalRow
  apply eval_closed
  by_cases hi : i < M.length
  · have e1 : M.getD i [] = M[i] := by simp [List.getD_eq_getElem?_getD, hi]
    have hr := List.all_eq_true.mp h _ (List.getElem_mem hi)
    rw [e1]
    by_cases hj : j < M[i].length
    · have e2 : M[i].getD j [] = M[i][j] := by simp [List.getD_eq_getElem?_getD, hj]
      rw [e2]
      exact List.all_eq_true.mp hr _ (List.getElem_mem hj)
    · rw [getD_ge _ _ (Nat.le_of_not_lt hj)]; rfl
  · rw [getD_ge _ _ (Nat.le_of_not_lt hi)]; rfl

/-- gates for which angle substitution is covered: not a literal matrix, or a literal matrix without
    angle variables -/
def SubstOK (g : Gate) : Prop := g.kind ≠ .UnitaryMatrix ∨ (g.kind = .UnitaryMatrix ∧ Mat.closedB g.umat = true)

instance (g : Gate) : Decidable (SubstOK g) := by unfold SubstOK; infer_instance

theorem localMat_um (g : Gate) (h : g.kind = .UnitaryMatrix) : g.localMat = ⟨g.umat, g.matk⟩ := by
  unfold Gate.localMat
  rw [h]

theorem localMat_substOK (hζ : ζ ^ 8 = -1) (hρ : ∀ j, ρ j ≠ 0) (as : List Angle) (g : Gate)
    (h : SubstOK g) (i j : ℕ) :
    evalMat ζ ρ (g.subst as).localMat.m i j = evalMat ζ (substRho ζ ρ as) g.localMat.m i j := by
  rcases h with h | ⟨hk, hc⟩
  · exact localMat_gate_subst hζ hρ as g h i j
  · have e1 : (g.subst as).localMat = ⟨g.umat, g.matk⟩ := localMat_um (g.subst as) hk
    rw [e1, localMat_um g hk]
    exact evalMat_closed _ _ _ hc i j

/-- **angle substitution for circuits that may contain closed literal matrices** -/
theorem semCirc_subst' (hζ : ζ ^ 8 = -1) (hρ : ∀ j, ρ j ≠ 0) (as : List Angle) (gs : List Gate)
    (hk : ∀ g ∈ gs, SubstOK g) :
    semCirc ζ ρ (gs.map (Gate.subst as)) = semCirc ζ (substRho ζ ρ as) gs := by
  induction gs using List.reverseRec with
  | nil => rfl
  | append_singleton gs g ih =>
    have e : evalMat ζ ρ (g.subst as).localMat.m = evalMat ζ (substRho ζ ρ as) g.localMat.m := by
      funext i j; exact localMat_substOK hζ hρ as g (hk g (by simp)) i j
    rw [List.map_append, List.map_singleton, semCirc_snoc, semCirc_snoc,
      ih (fun g' hg' => hk g' (by simp [hg'])), e]
    rfl

theorem substOK_relabel (σ : ℕ → ℕ) (g : Gate) (h : SubstOK g) : SubstOK (g.relabel σ) := h

theorem semCirc_one (g : Gate) :
    semCirc ζ ρ [g] = embedAct (evalMat ζ ρ g.localMat.m) g.wires idMat := rfl

/-- **`ctrlGate` commutes with angle substitution**: the controlled gate of the instantiated gate, read
    under `ρ`, is the controlled template gate read under the substituted values -/
theorem ctrlGate_subst (hζ : ζ ^ 8 = -1) (hρ : ∀ j, ρ j ≠ 0) (as : List Angle) (g : Gate)
    (hk : g.kind ≠ .UnitaryMatrix) (σ : ℕ → ℕ) :
    semCirc ζ ρ [(ctrlGate (g.subst as)).relabel σ]
      = semCirc ζ (substRho ζ ρ as) [(ctrlGate g).relabel σ] := by
  rw [semCirc_one, semCirc_one]
  have hwires : ((ctrlGate (g.subst as)).relabel σ).wires = ((ctrlGate g).relabel σ).wires := rfl
  rw [hwires]
  congr 1
  funext a b
  rw [relabel_localMat, relabel_localMat, ctrlGate_localMat, ctrlGate_localMat]
  have hw : (g.subst as).wires = g.wires := rfl
  rw [hw, localMat_k_subst, evalMat_ctrlMat hζ hρ,
    evalMat_ctrlMat hζ (substRho_ne_zero hζ hρ as)]
  congr 1
  congr 1
  exact localMat_gate_subst hζ hρ as g hk _ _

/-! ### §3  what a discharged `CTemplate.check` means -/

/-- a controlled row as an ordinary exact template -/
def _root_.QV.C19Lib.CTemplate.toTemplate (t : CTemplate) : Template := ⟨t.nq, ctrlGate t.target, t.body⟩

theorem _root_.QV.C19Lib.CTemplate.check_eq (t : CTemplate) : t.check = t.toTemplate.checkExact := rfl

/-- well-formedness of a controlled row on `nq` wires: body on wires `< nq`; the target's wires, shifted by
    one (wire 0 is the control), distinct and `< nq` -/
def _root_.QV.C19Lib.CTemplate.WF (t : CTemplate) : Prop :=
  WellFormed t.nq t.body ∧ 0 < t.nq ∧ t.target.wires.Nodup ∧ ∀ w ∈ t.target.wires, w + 1 < t.nq

instance (t : CTemplate) : Decidable t.WF := by unfold CTemplate.WF; infer_instance

theorem _root_.QV.C19Lib.CTemplate.wf_ctrl (t : CTemplate) (h : t.WF) : WellFormed t.nq [ctrlGate t.target] := by
  intro g hg
  simp only [List.mem_singleton] at hg
  subst hg
  rw [ctrlGate_wires]
  obtain ⟨_, hq, hnd, hw⟩ := h
  refine ⟨?_, ?_⟩
  · rw [List.nodup_cons]
    constructor
    · intro hm
      obtain ⟨w, _, he⟩ := List.mem_map.mp hm
      omega
    · exact List.Nodup.map_on (fun a _ b _ hab => by omega) hnd
  · intro w hm
    rcases List.mem_cons.mp hm with rfl | hm'
    · exact hq
    · obtain ⟨v, hv, rfl⟩ := List.mem_map.mp hm'
      exact hw v hv

theorem semK_ctrl (g : Gate) : semK [ctrlGate g] = g.localMat.k := by
  simp [semK, ctrlGate_localMat]

/-- **a checked controlled row, placed anywhere** (no substitution; any body, literal matrices allowed):
    `⟦body⟧ = √2^(k_body − k_target) · ⟦Controlled(target)⟧`, i.e. the honest operators are EQUAL -/
theorem _root_.QV.C19Lib.CTemplate.placed_exact (hζ : ζ ^ 8 = -1) (hρ : ∀ j, ρ j ≠ 0) (h2 : (2 : K) ≠ 0)
    (t : CTemplate) (h : t.check = true) (wf : t.WF) {σ : ℕ → ℕ} {n : ℕ} (P : Placement σ t.nq n) :
    ∀ r, r < 2 ^ n → ∀ j, j < 2 ^ n →
      semCirc ζ ρ (t.body.map (Gate.relabel σ)) r j
        = (s2 ζ ^ semK t.body / s2 ζ ^ t.target.localMat.k)
          * semCirc ζ ρ [(ctrlGate t.target).relabel σ] r j := by
  have := Template.placed_exact hζ hρ h2 t.toTemplate h wf.1 (t.wf_ctrl wf) P
  simpa only [eval_sqrt2', CTemplate.toTemplate, semK_ctrl] using this

/-- **every instance of a checked controlled row**: all placements, all affine angle substitutions -/
theorem _root_.QV.C19Lib.CTemplate.instance_exact (hζ : ζ ^ 8 = -1) (hρ : ∀ j, ρ j ≠ 0) (h2 : (2 : K) ≠ 0)
    (t : CTemplate) (h : t.check = true) (wf : t.WF) {σ : ℕ → ℕ} {n : ℕ} (P : Placement σ t.nq n)
    (as : List Angle) (hkb : ∀ g ∈ t.body, SubstOK g) (hkt : t.target.kind ≠ .UnitaryMatrix) :
    ∀ r, r < 2 ^ n → ∀ j, j < 2 ^ n →
      semCirc ζ ρ ((t.body.map (Gate.subst as)).map (Gate.relabel σ)) r j
        = (s2 ζ ^ semK t.body / s2 ζ ^ t.target.localMat.k)
          * semCirc ζ ρ [(ctrlGate (t.target.subst as)).relabel σ] r j := by
  rw [map_relabel_subst, semCirc_subst' hζ hρ as _ (by
    intro g hg
    obtain ⟨g0, hg0, rfl⟩ := List.mem_map.mp hg
    exact substOK_relabel σ g0 (hkb g0 hg0)), ctrlGate_subst hζ hρ as t.target hkt σ]
  exact CTemplate.placed_exact hζ (substRho_ne_zero hζ hρ as) h2 t h wf P

/-- … against the spec: the instantiated body is `ctrlOp (σ 0)` of the instantiated target on the wires
    `σ (w+1)` -/
theorem _root_.QV.C19Lib.CTemplate.instance_spec (hζ : ζ ^ 8 = -1) (hρ : ∀ j, ρ j ≠ 0) (h2 : (2 : K) ≠ 0)
    (t : CTemplate) (h : t.check = true) (wf : t.WF) {σ : ℕ → ℕ} {n : ℕ} (P : Placement σ t.nq n)
    (as : List Angle) (hkb : ∀ g ∈ t.body, SubstOK g) (hkt : t.target.kind ≠ .UnitaryMatrix) :
    ∀ r, r < 2 ^ n → ∀ j, j < 2 ^ n →
      semCirc ζ ρ ((t.body.map (Gate.subst as)).map (Gate.relabel σ)) r j
        = (s2 ζ ^ semK t.body / s2 ζ ^ t.target.localMat.k)
          * ctrlOp (σ 0) (s2 ζ ^ t.target.localMat.k)
              (semCirc ζ ρ [(t.target.subst as).relabel fun w => σ (w + 1)]) r j := by
  intro r hr j hj
  rw [CTemplate.instance_exact hζ hρ h2 t h wf P as hkb hkt r hr j hj,
    ctrlGate_spec hζ hρ (t.target.subst as) P wf.2.1 wf.2.2.1 wf.2.2.2 r j hr hj, localMat_k_subst]

/-- the same without substitution, any body -/
theorem _root_.QV.C19Lib.CTemplate.placed_spec (hζ : ζ ^ 8 = -1) (hρ : ∀ j, ρ j ≠ 0) (h2 : (2 : K) ≠ 0)
    (t : CTemplate) (h : t.check = true) (wf : t.WF) {σ : ℕ → ℕ} {n : ℕ} (P : Placement σ t.nq n) :
    ∀ r, r < 2 ^ n → ∀ j, j < 2 ^ n →
      semCirc ζ ρ (t.body.map (Gate.relabel σ)) r j
        = (s2 ζ ^ semK t.body / s2 ζ ^ t.target.localMat.k)
          * ctrlOp (σ 0) (s2 ζ ^ t.target.localMat.k)
              (semCirc ζ ρ [t.target.relabel fun w => σ (w + 1)]) r j := by
  intro r hr j hj
  rw [CTemplate.placed_exact hζ hρ h2 t h wf P r hr j hj,
    ctrlGate_spec hζ hρ t.target P wf.2.1 wf.2.2.1 wf.2.2.2 r j hr hj]

/-! ### §4  inverse rows: the target is the identity -/

theorem identity_gate_entry (n : ℕ) (g : Gate) (hk : g.kind = .Identity) (t : ℕ) (hw : g.wires = [t])
    (ht : t < n) (r j : ℕ) (hr : r < 2 ^ n) : semCirc ζ ρ [g] r j = idMat r j := by
  have hid : IsIdGate ζ ρ n g := by
    refine ⟨by rw [hw]; simp, by intro w h; rw [hw] at h; simp at h; omega, ?_⟩
    intro a b ha hb
    rw [hw] at ha hb
    have ha' : a < 2 := by simpa using ha
    have hb' : b < 2 := by simpa using hb
    have hl : g.localMat.m = [[Poly.one, []], [[], Poly.one]] := by
      unfold Gate.localMat; rw [hk]
    rw [hl]
    rcases two_cases ha' with rfl | rfl <;> rcases two_cases hb' with rfl | rfl <;>
      simp [evalMat, evalRow, eval_one, eval_nil, idMat]
  exact actCirc_idGates n [g] (fun g' hg' => by
    simp only [List.mem_singleton] at hg'; subst hg'; exact hid) j idMat r hr

/-- **inverse / self-inverse rows**: a `checkExact`-ed template whose target is an `Identity` gate on wire 0
    has, at every placement and for all substituted angles, `√2^(k_body)` times the identity operator -/
theorem identity_template_exact (hζ : ζ ^ 8 = -1) (hρ : ∀ j, ρ j ≠ 0) (h2 : (2 : K) ≠ 0)
    (t : Template) (h : t.checkExact = true) (wfb : WellFormed t.nq t.body) (hq : 0 < t.nq)
    (htk : t.target.kind = .Identity) (htw : t.target.wires = [0]) {σ : ℕ → ℕ} {n : ℕ}
    (P : Placement σ t.nq n) (as : List Angle) (hkb : ∀ g ∈ t.body, g.kind ≠ .UnitaryMatrix) :
    ∀ r, r < 2 ^ n → ∀ j, j < 2 ^ n →
      semCirc ζ ρ ((t.body.map (Gate.subst as)).map (Gate.relabel σ)) r j
        = s2 ζ ^ semK t.body * idMat r j := by
  intro r hr j hj
  have wft : WellFormed t.nq [t.target] := by
    intro g hg; simp only [List.mem_singleton] at hg; subst hg
    rw [htw]
    exact ⟨by simp, by intro w hw; simp at hw; omega⟩
  have := Template.instance_exact hζ hρ h2 t h wfb wft P as hkb (by rw [htk]; decide) r hr j hj
  rw [this, eval_sqrt2']
  have hk0 : semK [t.target] = 0 := by
    simp only [semK, List.map_cons, List.map_nil, List.sum_cons, List.sum_nil, add_zero]
    unfold Gate.localMat; rw [htk]
  rw [hk0, pow_zero, div_one]
  congr 1
  exact identity_gate_entry n ((t.target.subst as).relabel σ) htk (σ 0) (by
    rw [relabel_wires]
    show (t.target.wires).map σ = [σ 0]
    rw [htw]; rfl) (P.lt 0 hq) r j hr

/-! ### §5  the honest operators: the scale divided out -/

theorem scale_cancel (a b x : K) (ha : a ≠ 0) : a / b * x / a = x / b := by
  rw [div_mul_eq_mul_div, div_div, mul_comm b a, ← div_div, mul_div_cancel_left₀ _ ha]

theorem s2_ne_zero (hζ : ζ ^ 8 = -1) (h2 : (2 : K) ≠ 0) : s2 ζ ≠ 0 := by
  have := eval_sqrt2_ne_zero (ζ := ζ) (ρ := fun _ => (1 : K)) hζ h2
  rwa [eval_sqrt2'] at this

theorem semK_relabel (σ : ℕ → ℕ) (gs : List Gate) : semK (gs.map (Gate.relabel σ)) = semK gs := by
  unfold semK
  rw [List.map_map]
  congr 1
  apply List.map_congr_left
  intro g _
  simp only [Function.comp, relabel_localMat]

variable (ζ ρ) in
/-- the operator denoted by a gate list: `semCirc` with its power of `√2` divided out -/
def uop (gs : List Gate) (r j : ℕ) : K := semCirc ζ ρ gs r j / s2 ζ ^ semK gs

theorem ctrlOp_div (c : ℕ) (κ : K) (hκ : κ ≠ 0) (A : ℕ → ℕ → K) (r j : ℕ) :
    ctrlOp c κ A r j / κ = ctrlOp c 1 (fun r j => A r j / κ) r j := by
  unfold ctrlOp
  split
  · rfl
  · split
    · exact div_self hκ
    · exact zero_div _

/-- **(1) `ctrlGate g` IS controlled-`g`**, honest operators, every gate kind, all angles, all placements -/
theorem ctrlGate_spec_uop (hζ : ζ ^ 8 = -1) (hρ : ∀ j, ρ j ≠ 0) (h2 : (2 : K) ≠ 0) (g : Gate)
    {σ : ℕ → ℕ} {nq n : ℕ} (P : Placement σ nq n) (hq : 0 < nq) (hnd : g.wires.Nodup)
    (hw : ∀ w ∈ g.wires, w + 1 < nq) (r j : ℕ) (hr : r < 2 ^ n) (hj : j < 2 ^ n) :
    uop ζ ρ [(ctrlGate g).relabel σ] r j
      = ctrlOp (σ 0) 1 (uop ζ ρ [g.relabel fun w => σ (w + 1)]) r j := by
  have hk1 : semK [(ctrlGate g).relabel σ] = g.localMat.k := by
    rw [← List.map_singleton, semK_relabel, semK_ctrl]
  have hk2 : semK [g.relabel fun w => σ (w + 1)] = g.localMat.k := by
    rw [← List.map_singleton, semK_relabel]; simp [semK]
  unfold uop
  rw [hk1, ctrlGate_spec hζ hρ g P hq hnd hw r j hr hj,
    ctrlOp_div _ _ (pow_ne_zero _ (s2_ne_zero hζ h2))]
  congr 1
  funext a b
  rw [hk2]

/-- **(2) every instance of a checked controlled row, honest operators**: EQUAL to the controlled gate of
    the instantiated target, and to the spec `ctrlOp` of the instantiated target -/
theorem _root_.QV.C19Lib.CTemplate.instance_uop (hζ : ζ ^ 8 = -1) (hρ : ∀ j, ρ j ≠ 0)
    (h2 : (2 : K) ≠ 0) (t : CTemplate) (h : t.check = true) (wf : t.WF) {σ : ℕ → ℕ} {n : ℕ}
    (P : Placement σ t.nq n) (as : List Angle) (hkb : ∀ g ∈ t.body, SubstOK g)
    (hkt : t.target.kind ≠ .UnitaryMatrix) (r : ℕ) (hr : r < 2 ^ n) (j : ℕ) (hj : j < 2 ^ n) :
    uop ζ ρ ((t.body.map (Gate.subst as)).map (Gate.relabel σ)) r j
      = uop ζ ρ [(ctrlGate (t.target.subst as)).relabel σ] r j ∧
    uop ζ ρ ((t.body.map (Gate.subst as)).map (Gate.relabel σ)) r j
      = ctrlOp (σ 0) 1 (uop ζ ρ [(t.target.subst as).relabel fun w => σ (w + 1)]) r j := by
  have hs := s2_ne_zero (ζ := ζ) hζ h2
  have e1 : uop ζ ρ ((t.body.map (Gate.subst as)).map (Gate.relabel σ)) r j
      = uop ζ ρ [(ctrlGate (t.target.subst as)).relabel σ] r j := by
    unfold uop
    have hk1 : semK [(ctrlGate (t.target.subst as)).relabel σ] = t.target.localMat.k := by
      rw [← List.map_singleton, semK_relabel, semK_ctrl, localMat_k_subst]
    rw [semK_relabel, semK_subst, hk1, t.instance_exact hζ hρ h2 h wf P as hkb hkt r hr j hj]
    exact scale_cancel _ _ _ (pow_ne_zero _ hs)
  refine ⟨e1, ?_⟩
  rw [e1]
  exact ctrlGate_spec_uop hζ hρ h2 (t.target.subst as) P wf.2.1 wf.2.2.1 wf.2.2.2 r j hr hj

/-- the same without substitution: any body and target (literal matrices with variables allowed) -/
theorem _root_.QV.C19Lib.CTemplate.placed_uop (hζ : ζ ^ 8 = -1) (hρ : ∀ j, ρ j ≠ 0)
    (h2 : (2 : K) ≠ 0) (t : CTemplate) (h : t.check = true) (wf : t.WF) {σ : ℕ → ℕ} {n : ℕ}
    (P : Placement σ t.nq n) (r : ℕ) (hr : r < 2 ^ n) (j : ℕ) (hj : j < 2 ^ n) :
    uop ζ ρ (t.body.map (Gate.relabel σ)) r j = uop ζ ρ [(ctrlGate t.target).relabel σ] r j ∧
    uop ζ ρ (t.body.map (Gate.relabel σ)) r j
      = ctrlOp (σ 0) 1 (uop ζ ρ [t.target.relabel fun w => σ (w + 1)]) r j := by
  have hs := s2_ne_zero (ζ := ζ) hζ h2
  have e1 : uop ζ ρ (t.body.map (Gate.relabel σ)) r j
      = uop ζ ρ [(ctrlGate t.target).relabel σ] r j := by
    unfold uop
    have hk1 : semK [(ctrlGate t.target).relabel σ] = t.target.localMat.k := by
      rw [← List.map_singleton, semK_relabel, semK_ctrl]
    rw [semK_relabel, hk1, t.placed_exact hζ hρ h2 h wf P r hr j hj]
    exact scale_cancel _ _ _ (pow_ne_zero _ hs)
  refine ⟨e1, ?_⟩
  rw [e1]
  exact ctrlGate_spec_uop hζ hρ h2 t.target P wf.2.1 wf.2.2.1 wf.2.2.2 r j hr hj

/-- **inverse rows, honest operators**: the instantiated body is exactly the identity operator -/
theorem identity_template_uop (hζ : ζ ^ 8 = -1) (hρ : ∀ j, ρ j ≠ 0) (h2 : (2 : K) ≠ 0)
    (t : Template) (h : t.checkExact = true) (wfb : WellFormed t.nq t.body) (hq : 0 < t.nq)
    (htk : t.target.kind = .Identity) (htw : t.target.wires = [0]) {σ : ℕ → ℕ} {n : ℕ}
    (P : Placement σ t.nq n) (as : List Angle) (hkb : ∀ g ∈ t.body, g.kind ≠ .UnitaryMatrix)
    (r : ℕ) (hr : r < 2 ^ n) (j : ℕ) (hj : j < 2 ^ n) :
    uop ζ ρ ((t.body.map (Gate.subst as)).map (Gate.relabel σ)) r j = idMat r j := by
  unfold uop
  rw [semK_relabel, semK_subst,
    identity_template_exact hζ hρ h2 t h wfb hq htk htw P as hkb r hr j hj]
  exact mul_div_cancel_left₀ _ (pow_ne_zero _ (s2_ne_zero hζ h2))

end QV.MatSound
