import QuriVerif.Proof.PassSound5
import QuriVerif.Proof.RotSound
/-
  `pauliRotDecPass` (C01) and the final pipeline theorem: no pending primitive pass is left.
-/
namespace QV.MatSound
open QV QV.Poly QV.C01 QV.C16

variable {K : Type} [Field K] {ζ : K} {ρ : ℕ → K}

/-- the basis-change gates emitted by `rotGates` -/
theorem rotGates_plus (l : List (ℕ × ℕ)) :
    (l.filterMap fun (x : ℕ × ℕ) =>
        if x.2 == 1 then some ({ kind := .H, targets := [x.1] } : NGate)
        else if x.2 == 2 then
          some { kind := .RX, targets := [x.1], params := [AngleLike.ofQuarterPi ((1 : Int) * 2)] }
        else none).map NGate.toGate = BpL l := by
  induction l with
  | nil => rfl
  | cons x l ih =>
    obtain ⟨q, p⟩ := x
    have e : BpL ((q, p) :: l) = bPlus q p ++ BpL l := by simp [BpL]
    rw [e, ← ih, List.filterMap_cons]
    by_cases h1 : p = 1
    · subst h1; rfl
    · by_cases h2 : p = 2
      · subst h2; rfl
      · simp [h1, h2, bPlus]

theorem rotGates_minus (l : List (ℕ × ℕ)) :
    (l.filterMap fun (x : ℕ × ℕ) =>
        if x.2 == 1 then some ({ kind := .H, targets := [x.1] } : NGate)
        else if x.2 == 2 then
          some { kind := .RX, targets := [x.1], params := [AngleLike.ofQuarterPi ((-1 : Int) * 2)] }
        else none).map NGate.toGate = BmL l := by
  induction l with
  | nil => rfl
  | cons x l ih =>
    obtain ⟨q, p⟩ := x
    have e : BmL ((q, p) :: l) = bMinus q p ++ BmL l := by simp [BmL]
    rw [e, ← ih, List.filterMap_cons]
    by_cases h1 : p = 1
    · subst h1; rfl
    · by_cases h2 : p = 2
      · subst h2; rfl
      · simp [h1, h2, bMinus]

/-- the `RZ` in the middle of the decomposition -/
def rzOf (g : NGate) (q0 : ℕ) : NGate := { kind := .RZ, targets := [q0], params := g.params }

/-- the gate list emitted by `PauliRotationDecomposeTranspiler.decompose`, as gates -/
theorem pauliRotDec_toGate (g : NGate) (q0 : ℕ) (rest : List ℕ) (ht : g.targets = q0 :: rest) :
    (pauliRotDec g).map NGate.toGate
      = BpL (List.zip g.targets g.paulis)
        ++ (cnotList q0 rest.reverse ++ [NGate.toGate (rzOf g q0)] ++ cnotList q0 rest)
        ++ BmL (List.zip g.targets g.paulis) := by
  unfold pauliRotDec
  rw [ht]
  simp only [List.map_append, List.map_map]
  have e1 := rotGates_plus (List.zip g.targets g.paulis)
  have e2 := rotGates_minus (List.zip g.targets g.paulis)
  unfold rotGates
  rw [ht] at e1 e2 ⊢
  rw [e1, e2]
  simp only [List.append_assoc]
  rfl

theorem mem_pauliRotDec {n : ℕ} (g : NGate) (hnd : g.targets.Nodup) (hlt : ∀ w ∈ g.targets, w < n)
    (hp : g.params.length = 1) : ∀ g' ∈ pauliRotDec g, gInv n g' = true := by
  intro g' hg'
  unfold pauliRotDec at hg'
  cases ht : g.targets with
  | nil => rw [ht] at hg'; simp at hg'
  | cons q0 rest =>
    rw [ht] at hg'
    have hq0 : q0 < n := hlt q0 (by rw [ht]; simp)
    have hrest : ∀ q ∈ rest, q ≠ q0 ∧ q < n := by
      intro q hq
      rw [ht, List.nodup_cons] at hnd
      exact ⟨fun e => hnd.1 (e ▸ hq), hlt q (by rw [ht]; simp [hq])⟩
    have hrot : ∀ (s : Int), ∀ x ∈ rotGates s g, gInv n x = true := by
      intro s x hx
      unfold rotGates at hx
      obtain ⟨⟨q, p⟩, hm, hq⟩ := List.mem_filterMap.mp hx
      have hqn := hlt q (List.of_mem_zip hm).1
      rw [gInv_iff]
      simp only [] at hq
      split_ifs at hq <;> simp only [Option.some.injEq] at hq <;> subst hq <;>
        exact ⟨by simp, by intro w hw; simp at hw; omega, by simp [arityOK, kindArity]⟩
    have hcn : ∀ q ∈ rest, gInv n ({ kind := .CNOT, controls := [q], targets := [q0] } : NGate) = true := by
      intro q hq
      have := hrest q hq
      rw [gInv_iff]
      exact ⟨by simp [this.1], by intro w hw; simp at hw; rcases hw with rfl | rfl <;> omega,
        by simp [arityOK, kindArity]⟩
    simp only [List.mem_append, List.mem_map, List.mem_reverse, List.mem_singleton] at hg'
    rcases hg' with (((h | ⟨q, hq, rfl⟩) | rfl) | ⟨q, hq, rfl⟩) | h
    · exact hrot 1 g' h
    · exact hcn q hq
    · rw [gInv_iff]
      exact ⟨by simp, by intro w hw; simp at hw; omega, by simp [arityOK, kindArity, hp]⟩
    · exact hcn q hq
    · exact hrot (-1) g' h

/-- `PauliRotationDecomposeTranspiler`, every number of targets -/
theorem pauliRotDecPass_ok (hζ : ζ ^ 8 = -1) (hρ : ∀ j, ρ j ≠ 0) (h16 : ρ 0 ^ 16 = ζ)
    (h2 : (2 : K) ≠ 0) (n : ℕ) (c : List NGate) (hc : CInv n c) :
    CInv n (pauliRotDecPass c) ∧ OpEqv ζ ρ n c (pauliRotDecPass c) := by
  unfold pauliRotDecPass
  have key : ∀ g ∈ c, CInv n (if g.kind == .PauliRotation then pauliRotDec g else [g]) ∧
      OpEqv ζ ρ n [g] (if g.kind == .PauliRotation then pauliRotDec g else [g]) := by
    intro g hg
    have hgi := CInv_iff.mp hc g hg
    by_cases hk : g.kind = .PauliRotation
    · have hb : (g.kind == Kind.PauliRotation) = true := by simp [hk]
      rw [if_pos hb]
      obtain ⟨hnd, hlt, har⟩ := gInv_iff.mp hgi
      rw [hk] at har
      simp only [arityOK, kindArity, Bool.and_eq_true, beq_iff_eq, List.all_eq_true,
        Bool.or_eq_true] at har
      obtain ⟨⟨⟨hc0, hp1⟩, hlen⟩, hval⟩ := har
      have hcn : g.controls = [] := List.eq_nil_of_length_eq_zero hc0
      rw [hcn, List.nil_append] at hnd hlt
      have hval' : ∀ pid ∈ g.paulis, pid = 1 ∨ pid = 2 ∨ pid = 3 := by
        intro pid hpid
        rcases hval pid hpid with (h | h) | h
        · exact Or.inl h
        · exact Or.inr (Or.inl h)
        · exact Or.inr (Or.inr h)
      refine ⟨CInv_iff.mpr (mem_pauliRotDec g hnd hlt hp1), ?_⟩
      have hgw : (NGate.toGate g).wires = g.targets := by
        show g.controls ++ g.targets = _; rw [hcn]; rfl
      cases ht : g.targets with
      | nil =>
        -- no targets: a global phase
        have hdec : pauliRotDec g = [] := by unfold pauliRotDec; rw [ht]
        rw [hdec]
        have hw0 : eval ζ ρ (((NGate.toGate g).p 0).ph (-1)) ≠ 0 := by
          rw [eval_ph hζ]; exact zpow_ne_zero _ (theta_ne_zero hζ hρ _)
        refine OpEqv.of_singleton (2 * eval ζ ρ (((NGate.toGate g).p 0).ph (-1)))⁻¹
          (inv_ne_zero (mul_ne_zero h2 hw0)) (fun r hr k hk' => ?_)
        have hP := pauli_gate_eq (ζ := ζ) (ρ := ρ) hζ n
          ({ NGate.toGate g with kind := .Pauli } : Gate) rfl hcn (by
            show g.targets.Nodup; exact hnd) (by show ∀ w ∈ g.targets, w < n; exact hlt)
          hlen.symm r k hr hk'
        have hz : List.zip ({ NGate.toGate g with kind := .Pauli } : Gate).targets
            ({ NGate.toGate g with kind := .Pauli } : Gate).paulis = [] := by
          show List.zip g.targets g.paulis = []; rw [ht]; rfl
        rw [hz] at hP
        rw [semCirc_pauliRot hζ hρ n (NGate.toGate g) hk (by rw [hgw]; exact hnd)
          (by rw [hgw]; exact hlt) hcn r k hr hk', hP]
        show (idMat r k : K) = _ * (_ * idMat r k - _ * idMat r k)
        have e : (eval ζ ρ ((NGate.toGate g).p 0).ph + eval ζ ρ (((NGate.toGate g).p 0).ph (-1)))
              * (idMat r k : K)
            - (eval ζ ρ ((NGate.toGate g).p 0).ph - eval ζ ρ (((NGate.toGate g).p 0).ph (-1)))
              * idMat r k
            = (2 * eval ζ ρ (((NGate.toGate g).p 0).ph (-1))) * idMat r k := by ring
        rw [e, ← mul_assoc, inv_mul_cancel₀ (mul_ne_zero h2 hw0), one_mul]
      | cons q0 rest =>
        have hmain := fun r hr k hk' => pauliRot_dec_ok (ζ := ζ) (ρ := ρ) hζ hρ h16 n
          (NGate.toGate g) hk hcn q0 rest ht hnd hlt hlen.symm hval'
          (NGate.toGate (rzOf g q0)) rfl rfl rfl r k hr hk'
        have hcl := cL_ne_zero (K := K) h2 (List.zip g.targets g.paulis)
        refine OpEqv.of_singleton (cL (List.zip g.targets g.paulis) * (2 : K)⁻¹)
          (mul_ne_zero hcl (inv_ne_zero h2)) (fun r hr k hk' => ?_)
        rw [pauliRotDec_toGate g q0 rest ht]
        have this : 2 * semCirc ζ ρ (BpL (List.zip g.targets g.paulis)
            ++ (cnotList q0 rest.reverse ++ [NGate.toGate (rzOf g q0)] ++ cnotList q0 rest)
            ++ BmL (List.zip g.targets g.paulis)) r k
            = cL (List.zip g.targets g.paulis) * semCirc ζ ρ [NGate.toGate g] r k :=
          hmain r hr k hk'
        have e : semCirc ζ ρ (BpL (List.zip g.targets g.paulis)
            ++ (cnotList q0 rest.reverse ++ [NGate.toGate (rzOf g q0)] ++ cnotList q0 rest)
            ++ BmL (List.zip g.targets g.paulis)) r k
            = (2 : K)⁻¹ * (2 * semCirc ζ ρ (BpL (List.zip g.targets g.paulis)
              ++ (cnotList q0 rest.reverse ++ [NGate.toGate (rzOf g q0)] ++ cnotList q0 rest)
              ++ BmL (List.zip g.targets g.paulis)) r k) := by
          rw [← mul_assoc, inv_mul_cancel₀ h2, one_mul]
        rw [e, this]
        ring
    · have hb : (g.kind == Kind.PauliRotation) = false := by simp [hk]
      rw [hb]
      exact ⟨CInv_singleton.mpr hgi, OpEqv.refl n [g]⟩
  exact ⟨CInv_flatMap _ (fun g hg => (key g hg).1), OpEqv.flatMap n c _ hc key⟩

/-- every primitive pass -/
theorem prim_ok6 (hζ : ζ ^ 8 = -1) (hρ : ∀ j, ρ j ≠ 0) (h16 : ρ 0 ^ 16 = ζ) (h2 : (2 : K) ≠ 0)
    (e : Env) (E : EnvOK4 ζ ρ e) (n : ℕ) (p : Pass)
    (hp : p.prim = true) (hf : p.fits n = true) (hl : p.ladderGood e = true) :
    PrimOK ζ ρ e n p := by
  cases p with
  | pauliRotDec =>
    intro fuel c c' hc h
    have : pauliRotDecPass c = c' := by simpa [runPass] using h
    subst this
    exact pauliRotDecPass_ok hζ hρ h16 h2 n c hc
  | _ => exact prim_ok5 hζ hρ h16 h2 e E n _ rfl hp hf hl

/-- **Pipeline soundness, final form**: for an environment with certified tables, EVERY pipeline –
    every `Pass` constructor, including the nested `RotationConversionTranspiler` and
    `GateSetConversionTranspiler` pipelines – that `runSeq` completes maps a circuit satisfying the
    invariant to a circuit satisfying the invariant with the same operator up to a non-zero scalar.
    Side conditions on the passes: `idInsert m` needs `m ≤ n`; a `ladder` pass must select certified
    ladders.  (`cliffApprox`, an approximation, is not executed by `runPass`.) -/
theorem runSeq_sound6 (hζ : ζ ^ 8 = -1) (hρ : ∀ j, ρ j ≠ 0) (h16 : ρ 0 ^ 16 = ζ)
    (h2 : (2 : K) ≠ 0) (e : Env) (E : EnvOK4 ζ ρ e) (n : ℕ)
    (fuel : ℕ) (ps : List Pass) (c c' : List NGate)
    (hf : ∀ p ∈ ps, p.fits n = true ∧ p.ladderGood e = true)
    (hc : CInv n c) (h : runSeq e fuel ps c = .ok c') : CInv n c' ∧ OpEqv ζ ρ n c c' :=
  (run_sound e n (fun p => p.fits n = true ∧ p.ladderGood e = true)
    (fun rots fav _ p hp => ⟨rotConvPipeline_fits n rots fav p hp,
      rotConvPipeline_ladderGood e rots fav p hp⟩)
    (fun gs _ _ p hp => ⟨gateSetPipeline_fits n gs p hp,
      gateSetPipeline_ladderGood e E.base.std gs p hp⟩)
    (fun p hp hq => prim_ok6 hζ hρ h16 h2 e E n p hp hq.1 hq.2) fuel).2 ps c c' hf hc h

/-- the same for a single pass (`runPass`) -/
theorem runPass_sound6 (hζ : ζ ^ 8 = -1) (hρ : ∀ j, ρ j ≠ 0) (h16 : ρ 0 ^ 16 = ζ)
    (h2 : (2 : K) ≠ 0) (e : Env) (E : EnvOK4 ζ ρ e) (n : ℕ)
    (fuel : ℕ) (p : Pass) (c c' : List NGate)
    (hf : p.fits n = true ∧ p.ladderGood e = true)
    (hc : CInv n c) (h : runPass e fuel p c = .ok c') : CInv n c' ∧ OpEqv ζ ρ n c c' :=
  (run_sound e n (fun p => p.fits n = true ∧ p.ladderGood e = true)
    (fun rots fav _ p hp => ⟨rotConvPipeline_fits n rots fav p hp,
      rotConvPipeline_ladderGood e rots fav p hp⟩)
    (fun gs _ _ p hp => ⟨gateSetPipeline_fits n gs p hp,
      gateSetPipeline_ladderGood e E.base.std gs p hp⟩)
    (fun p hp hq => prim_ok6 hζ hρ h16 h2 e E n p hp hq.1 hq.2) fuel).1 p c c' hf hc h

end QV.MatSound
