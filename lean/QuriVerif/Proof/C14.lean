import QuriVerif.Model.C14
import Mathlib.Tactic.Ring
import Mathlib.Tactic.LinearCombination
/-
  C14 — helper lemmas: finite sums over lists in a commutative ring, the loop invariants of the
  spatial→spin expansion, the core/active index loop, the algebra of the effective-core formulas and of the
  determinant-energy identity.
-/
set_option linter.unusedSimpArgs false
set_option linter.unusedVariables false
set_option linter.unusedSectionVars false
namespace QV.C14

/-! ## finite sums -/
section Sums
variable {R : Type} [CommRing R]

@[simp] theorem sumOver_nil (f : Nat → R) : sumOver [] f = 0 := rfl

@[simp] theorem sumOver_cons (a : Nat) (l : List Nat) (f : Nat → R) :
    sumOver (a :: l) f = f a + sumOver l f := by
  simp [sumOver]

theorem sumOver_append (l₁ l₂ : List Nat) (f : Nat → R) :
    sumOver (l₁ ++ l₂) f = sumOver l₁ f + sumOver l₂ f := by
  induction l₁ with
  | nil => simp
  | cons a l ih => simp [ih]; ring

theorem sumOver_congr {l : List Nat} {f g : Nat → R} (h : ∀ i ∈ l, f i = g i) :
    sumOver l f = sumOver l g := by
  induction l with
  | nil => rfl
  | cons a l ih =>
    simp only [sumOver_cons]
    rw [h a (by simp), ih (fun i hi => h i (by simp [hi]))]

theorem sumOver_zero (l : List Nat) : sumOver l (fun _ => (0 : R)) = 0 := by
  induction l with
  | nil => rfl
  | cons a l ih => simp [ih]

theorem sumOver_add (l : List Nat) (f g : Nat → R) :
    sumOver l (fun i => f i + g i) = sumOver l f + sumOver l g := by
  induction l with
  | nil => simp
  | cons a l ih => simp [ih]; ring

theorem sumOver_sub (l : List Nat) (f g : Nat → R) :
    sumOver l (fun i => f i - g i) = sumOver l f - sumOver l g := by
  induction l with
  | nil => simp
  | cons a l ih => simp [ih]; ring

theorem sumOver_mul_left (l : List Nat) (c : R) (f : Nat → R) :
    sumOver l (fun i => c * f i) = c * sumOver l f := by
  induction l with
  | nil => simp
  | cons a l ih => simp [ih]; ring

theorem sumOver_mul_right (l : List Nat) (c : R) (f : Nat → R) :
    sumOver l (fun i => f i * c) = sumOver l f * c := by
  induction l with
  | nil => simp
  | cons a l ih => simp [ih]; ring

theorem sumOver_comm (l₁ l₂ : List Nat) (f : Nat → Nat → R) :
    sumOver l₁ (fun a => sumOver l₂ fun b => f a b) = sumOver l₂ (fun b => sumOver l₁ fun a => f a b) := by
  induction l₁ with
  | nil => simp [sumOver_zero]
  | cons a l ih => simp only [sumOver_cons, ih, sumOver_add]

theorem sumOver_map (l : List Nat) (φ : Nat → Nat) (f : Nat → R) :
    sumOver (l.map φ) f = sumOver l (fun i => f (φ i)) := by
  induction l with
  | nil => rfl
  | cons a l ih => simp [ih]

/-- summing over the positions of a list = summing over its entries -/
theorem sumTo_getD (l : List Nat) (f : Nat → R) :
    sumTo l.length (fun a => f (l.getD a 0)) = sumOver l f := by
  induction l with
  | nil => rfl
  | cons x l ih =>
    unfold sumTo at *
    rw [List.length_cons, List.range_succ_eq_map, sumOver_cons, sumOver_map]
    simp only [List.getD_cons_zero, sumOver_cons]
    congr 1

/-- the spin orbitals of a list of spatial orbitals -/
theorem sumOver_spin (l : List Nat) (f : Nat → R) :
    sumOver (l.flatMap fun i => [2 * i, 2 * i + 1]) f = sumOver l (fun i => f (2 * i) + f (2 * i + 1)) := by
  induction l with
  | nil => rfl
  | cons a l ih =>
    rw [List.flatMap_cons, sumOver_append, ih]
    simp only [sumOver_cons, sumOver_nil]; ring

theorem twice_eq (x : R) : twice x = 2 * x := by unfold twice; ring

end Sums

/-! ## effective core energy / one-body / two-body -/
section Eff
variable {R : Type} [CommRing R]

theorem effCoreEnergy_eq (ec : R) (h : T2 R) (g : T4 R) (core : List Nat) :
    effCoreEnergy ec h g core
      = ec + (2 * sumOver core (fun i => h i i)
              + sumOver core (fun i => sumOver core fun j => 2 * g i j j i - g i j i j)) := by
  unfold effCoreEnergy
  simp only [trace2, trace4_03, trace4_02, ix2, ix4, twice_eq]
  rw [sumTo_getD core (fun i => h i i)]
  have e1 : (sumTo core.length fun a => sumTo core.length fun a_1 =>
        g (core.getD a_1 0) (core.getD a 0) (core.getD a 0) (core.getD a_1 0))
      = sumOver core (fun i => sumOver core fun j => g i j j i) := by
    rw [sumTo_getD core (fun b => sumTo core.length fun a_1 => g (core.getD a_1 0) b b (core.getD a_1 0))]
    rw [sumOver_comm]
    refine sumOver_congr fun b _ => ?_
    exact (sumTo_getD core (fun a => g a b b a)).symm ▸ rfl
  have e2 : (sumTo core.length fun a => sumTo core.length fun a_1 =>
        g (core.getD a_1 0) (core.getD a 0) (core.getD a_1 0) (core.getD a 0))
      = sumOver core (fun i => sumOver core fun j => g i j i j) := by
    rw [sumTo_getD core (fun b => sumTo core.length fun a_1 => g (core.getD a_1 0) b (core.getD a_1 0) b)]
    rw [sumOver_comm]
    refine sumOver_congr fun b _ => ?_
    exact (sumTo_getD core (fun a => g a b a b)).symm ▸ rfl
  rw [e1, e2]
  have e3 : sumOver core (fun i => sumOver core fun j => 2 * g i j j i - g i j i j)
      = 2 * sumOver core (fun i => sumOver core fun j => g i j j i)
        - sumOver core (fun i => sumOver core fun j => g i j i j) := by
    rw [← sumOver_mul_left, ← sumOver_sub]
    refine sumOver_congr fun i _ => ?_
    rw [← sumOver_mul_left, ← sumOver_sub]
  rw [e3]; ring

theorem range_getD {p n : Nat} (hp : p < n) : (List.range n).getD p 0 = p := by
  simp [List.getD_eq_getElem?_getD, List.getElem?_range hp]

theorem effOneBody_eq (n : Nat) (h : T2 R) (g : T4 R) (core act : List Nat) (u v : Nat)
    (hu : act.getD u 0 < n) (hv : act.getD v 0 < n) :
    effOneBody n h g core act u v
      = h (act.getD u 0) (act.getD v 0)
        + (2 * sumOver core (fun i => g i (act.getD u 0) (act.getD v 0) i)
           - sumOver core (fun i => g i (act.getD u 0) i (act.getD v 0))) := by
  unfold effOneBody
  simp only [trace4_03, trace4_02, ix2, ix4, twice_eq, range_getD hu, range_getD hv]
  rw [sumTo_getD core (fun i => g i (act.getD u 0) (act.getD v 0) i),
    sumTo_getD core (fun i => g i (act.getD u 0) i (act.getD v 0))]
  ring

theorem effTwoBody_eq (g : T4 R) (act : List Nat) (a b c d : Nat) :
    effTwoBody g act a b c d = g (act.getD a 0) (act.getD b 0) (act.getD c 0) (act.getD d 0) := rfl

end Eff

/-! ## spatial → spin expansion: loop invariants -/
section Spin
variable {α : Type} [Zero α]

theorem spin1Step_apply (h arr : T2 α) (t : Nat × Nat) (X Y : Nat) :
    spin1Step h arr t X Y
      = if X / 2 = t.1 ∧ Y / 2 = t.2 ∧ X % 2 = Y % 2 then h t.1 t.2 else arr X Y := by
  unfold spin1Step upd2
  by_cases c : X / 2 = t.1 ∧ Y / 2 = t.2 ∧ X % 2 = Y % 2
  · rw [if_pos c]
    by_cases c2 : X = 2 * t.1 + 1 ∧ Y = 2 * t.2 + 1
    · rw [if_pos c2]
    · rw [if_neg c2, if_pos (by omega)]
  · rw [if_neg c, if_neg (by omega), if_neg (by omega)]

theorem spin1_foldl (h : T2 α) (L : List (Nat × Nat)) (arr : T2 α) (X Y : Nat) :
    (L.foldl (spin1Step h) arr) X Y
      = if (X / 2, Y / 2) ∈ L ∧ X % 2 = Y % 2 then h (X / 2) (Y / 2) else arr X Y := by
  induction L generalizing arr with
  | nil => simp
  | cons t L ih =>
    rw [List.foldl_cons, ih, spin1Step_apply]
    by_cases c1 : (X / 2, Y / 2) ∈ L ∧ X % 2 = Y % 2
    · rw [if_pos c1, if_pos ⟨List.mem_cons_of_mem _ c1.1, c1.2⟩]
    · rw [if_neg c1]
      by_cases c2 : X / 2 = t.1 ∧ Y / 2 = t.2 ∧ X % 2 = Y % 2
      · have ht : t = (X / 2, Y / 2) := Prod.ext c2.1.symm c2.2.1.symm
        rw [if_pos c2, if_pos ⟨by rw [ht]; exact List.mem_cons_self, c2.2.2⟩, ← c2.1, ← c2.2.1]
      · rw [if_neg c2, if_neg]
        rintro ⟨hm, hp⟩
        rcases List.mem_cons.1 hm with e | e
        · exact c2 ⟨by rw [← e], by rw [← e], hp⟩
        · exact c1 ⟨e, hp⟩

theorem mem_pairs (k a b : Nat) : (a, b) ∈ pairs k ↔ a < k ∧ b < k := by
  simp [pairs, List.mem_flatMap, List.mem_map, List.mem_range]

theorem spin1Arr_eq (k : Nat) (h : T2 α) (X Y : Nat) :
    spin1Arr k h X Y = if X / 2 < k ∧ Y / 2 < k ∧ X % 2 = Y % 2 then h (X / 2) (Y / 2) else 0 := by
  unfold spin1Arr
  rw [spin1_foldl]
  simp only [mem_pairs, and_assoc]

theorem spin2Step_apply (g arr : T4 α) (t : Nat × Nat × Nat × Nat) (X0 X1 X2 X3 : Nat) :
    spin2Step g arr t X0 X1 X2 X3
      = if X0 / 2 = t.1 ∧ X1 / 2 = t.2.1 ∧ X2 / 2 = t.2.2.1 ∧ X3 / 2 = t.2.2.2 ∧ X0 % 2 = X3 % 2 ∧ X1 % 2 = X2 % 2
        then g t.1 t.2.1 t.2.2.1 t.2.2.2 else arr X0 X1 X2 X3 := by
  unfold spin2Step upd4
  by_cases c : X0 / 2 = t.1 ∧ X1 / 2 = t.2.1 ∧ X2 / 2 = t.2.2.1 ∧ X3 / 2 = t.2.2.2 ∧ X0 % 2 = X3 % 2 ∧ X1 % 2 = X2 % 2
  · rw [if_pos c]
    by_cases c4 : X0 = 2 * t.1 + 1 ∧ X1 = 2 * t.2.1 + 1 ∧ X2 = 2 * t.2.2.1 + 1 ∧ X3 = 2 * t.2.2.2 + 1
    · rw [if_pos c4]
    · rw [if_neg c4]
      by_cases c3 : X0 = 2 * t.1 ∧ X1 = 2 * t.2.1 ∧ X2 = 2 * t.2.2.1 ∧ X3 = 2 * t.2.2.2
      · rw [if_pos c3]
      · rw [if_neg c3]
        by_cases c2 : X0 = 2 * t.1 + 1 ∧ X1 = 2 * t.2.1 ∧ X2 = 2 * t.2.2.1 ∧ X3 = 2 * t.2.2.2 + 1
        · rw [if_pos c2]
        · rw [if_neg c2, if_pos (by omega)]
  · rw [if_neg c]
    rw [if_neg (by omega), if_neg (by omega), if_neg (by omega), if_neg (by omega)]

theorem spin2_foldl (g : T4 α) (L : List (Nat × Nat × Nat × Nat)) (arr : T4 α) (X0 X1 X2 X3 : Nat) :
    (L.foldl (spin2Step g) arr) X0 X1 X2 X3
      = if (X0 / 2, X1 / 2, X2 / 2, X3 / 2) ∈ L ∧ X0 % 2 = X3 % 2 ∧ X1 % 2 = X2 % 2
        then g (X0 / 2) (X1 / 2) (X2 / 2) (X3 / 2) else arr X0 X1 X2 X3 := by
  induction L generalizing arr with
  | nil => simp
  | cons t L ih =>
    rw [List.foldl_cons, ih, spin2Step_apply]
    by_cases c1 : (X0 / 2, X1 / 2, X2 / 2, X3 / 2) ∈ L ∧ X0 % 2 = X3 % 2 ∧ X1 % 2 = X2 % 2
    · rw [if_pos c1, if_pos ⟨List.mem_cons_of_mem _ c1.1, c1.2⟩]
    · rw [if_neg c1]
      by_cases c2 : X0 / 2 = t.1 ∧ X1 / 2 = t.2.1 ∧ X2 / 2 = t.2.2.1 ∧ X3 / 2 = t.2.2.2 ∧ X0 % 2 = X3 % 2 ∧ X1 % 2 = X2 % 2
      · have ht : t = (X0 / 2, X1 / 2, X2 / 2, X3 / 2) :=
          Prod.ext c2.1.symm (Prod.ext c2.2.1.symm (Prod.ext c2.2.2.1.symm c2.2.2.2.1.symm))
        rw [if_pos c2, if_pos ⟨by rw [ht]; exact List.mem_cons_self, c2.2.2.2.2⟩,
          ← c2.1, ← c2.2.1, ← c2.2.2.1, ← c2.2.2.2.1]
      · rw [if_neg c2, if_neg]
        rintro ⟨hm, hp⟩
        rcases List.mem_cons.1 hm with e | e
        · exact c2 ⟨by rw [← e], by rw [← e], by rw [← e], by rw [← e], hp⟩
        · exact c1 ⟨e, hp⟩

theorem mem_quads (k a b c d : Nat) : (a, b, c, d) ∈ quads k ↔ a < k ∧ b < k ∧ c < k ∧ d < k := by
  simp [quads, List.mem_flatMap, List.mem_map, List.mem_range]

theorem spin2Arr_eq (k : Nat) (g : T4 α) (X0 X1 X2 X3 : Nat) :
    spin2Arr k g X0 X1 X2 X3
      = if X0 / 2 < k ∧ X1 / 2 < k ∧ X2 / 2 < k ∧ X3 / 2 < k ∧ X0 % 2 = X3 % 2 ∧ X1 % 2 = X2 % 2
        then g (X0 / 2) (X1 / 2) (X2 / 2) (X3 / 2) else 0 := by
  unfold spin2Arr
  rw [spin2_foldl]
  simp only [mem_quads, and_assoc]

end Spin

/-! ## AO → MO -/
section AO
variable {R : Type} [CommRing R]

theorem ao2mo1_eq (conj : R → R) (n : Nat) (C h : T2 R) (p q : Nat) :
    ao2mo1 conj n C h p q = sumTo n fun a => sumTo n fun b => conj (C a p) * h a b * C b q := by
  unfold ao2mo1 matmul conjT sumTo
  simp only [← sumOver_mul_right]
  rw [sumOver_comm]

/-- what the four `tensordot`s and the two `transpose`s compute, without any hypothesis -/
theorem ao2mo2_eq (conj : R → R) (n : Nat) (C : T2 R) (A : T4 R) (p q r s : Nat) :
    ao2mo2 conj n C A p q r s
      = sumTo n fun d => sumTo n fun c => sumTo n fun b => sumTo n fun a =>
          conj (C d p) * C c s * conj (C b q) * C a r * A a c d b := by
  unfold ao2mo2 transposeAx tdot sumTo
  simp only [Nat.zero_ne_one, OfNat.ofNat_ne_zero, OfNat.zero_ne_ofNat, OfNat.ofNat_ne_one,
    OfNat.one_ne_ofNat, ↓reduceIte, Nat.reduceEqDiff, ← sumOver_mul_left]
  refine sumOver_congr fun d _ => sumOver_congr fun c _ => sumOver_congr fun b _ => sumOver_congr fun a _ => ?_
  ring

/-- the documented physicist-ordered contraction, for AO tensors with `A[w,x,y,z] = A[y,z,w,x]` -/
theorem ao2mo2_spec (conj : R → R) (n : Nat) (C : T2 R) (A : T4 R)
    (hsym : ∀ w x y z, A w x y z = A y z w x) (p q r s : Nat) :
    ao2mo2 conj n C A p q r s
      = sumTo n fun w => sumTo n fun x => sumTo n fun y => sumTo n fun z =>
          conj (C w p) * conj (C x q) * C y r * C z s * A w x y z := by
  rw [ao2mo2_eq]
  unfold sumTo
  refine sumOver_congr fun w _ => ?_
  rw [sumOver_comm]
  refine sumOver_congr fun x _ => ?_
  rw [sumOver_comm]
  refine sumOver_congr fun y _ => sumOver_congr fun z _ => ?_
  rw [hsym w x y z]; ring

end AO

/-! ## core / active index selection -/
section Core

/-- the non-active orbitals below `N`, ascending -/
def nonActive (act : List Int) (N : Nat) : List Nat :=
  (List.range N).filter fun (i : Nat) => decide (¬ (i : Int) ∈ act)

def castL (l : List Nat) : List Int := l.map fun i : Nat => (i : Int)

theorem fillCore_eq (k : Nat) (act : List Int) (L : List Nat) (occ : List Int) (h : occ.length ≤ k) :
    fillCore (k : Int) act L occ
      = occ ++ castL ((L.filter fun (i : Nat) => decide (¬ (i : Int) ∈ act)).take (k - occ.length)) := by
  induction L generalizing occ with
  | nil => simp [fillCore, castL]
  | cons i rest ih =>
    unfold fillCore
    by_cases hl : (occ.length : Int) = (k : Int)
    · rw [if_pos hl]
      have : k - occ.length = 0 := by omega
      simp [this, castL]
    · rw [if_neg hl]
      have hlt : occ.length < k := by omega
      by_cases hi : (i : Int) ∈ act
      · simp only [hi, if_true]
        rw [ih occ h]
        simp [List.filter_cons, hi]
      · simp only [hi, if_false]
        rw [ih _ (by simp; omega)]
        have e : k - occ.length = (k - (occ ++ [(i : Int)]).length) + 1 := by simp; omega
        rw [e]
        simp [List.filter_cons, hi, castL]

theorem length_filter_add (p : Nat → Bool) (L : List Nat) :
    (L.filter p).length + (L.filter fun i => !p i).length = L.length := by
  induction L with
  | nil => rfl
  | cons x L ih =>
    by_cases hx : p x <;> simp [List.filter_cons, hx] <;> omega

/-- pigeonhole: a duplicate-free list of naturals has at most `act.length` members in `act` -/
theorem length_filter_mem_le (L : List Nat) (hL : L.Nodup) (act : List Int) :
    (L.filter fun (i : Nat) => decide ((i : Int) ∈ act)).length ≤ act.length := by
  induction L generalizing act with
  | nil => simp
  | cons x L ih =>
    have hx : x ∉ L := (List.nodup_cons.1 hL).1
    have hL' : L.Nodup := (List.nodup_cons.1 hL).2
    by_cases hm : (x : Int) ∈ act
    · have hcongr : (L.filter fun (i : Nat) => decide ((i : Int) ∈ act))
          = (L.filter fun (i : Nat) => decide ((i : Int) ∈ act.erase (x : Int))) := by
        apply List.filter_congr
        intro y hy
        have hne : (y : Int) ≠ (x : Int) := by
          intro e; exact hx (by have : y = x := by omega
                                rw [← this]; exact hy)
        simp [List.mem_erase_of_ne hne]
      have := ih hL' (act.erase (x : Int))
      rw [List.length_erase_of_mem hm] at this
      have hpos : 0 < act.length := List.length_pos_of_mem hm
      simp only [List.filter_cons, hm, decide_true, if_true, List.length_cons, hcongr]
      omega
    · simp only [List.filter_cons, hm, decide_false]
      exact ih hL' act

theorem nonActive_length_ge (act : List Int) (k o : Nat) (h : act.length = o) :
    k ≤ (nonActive act (k + o)).length := by
  unfold nonActive
  have h1 := length_filter_add (fun (i : Nat) => decide ((i : Int) ∈ act)) (List.range (k + o))
  have h2 := length_filter_mem_le (List.range (k + o)) List.nodup_range act
  have e : (List.range (k + o)).filter (fun (i : Nat) => !decide ((i : Int) ∈ act))
      = (List.range (k + o)).filter (fun (i : Nat) => decide (¬ (i : Int) ∈ act)) := by
    apply List.filter_congr; intro y _; simp
  rw [e, List.length_range] at h1
  omega

theorem nonActive_sorted (act : List Int) (N : Nat) : (nonActive act N).Pairwise (· < ·) :=
  List.Pairwise.sublist List.filter_sublist List.pairwise_lt_range

theorem mem_nonActive {act : List Int} {N j : Nat} : j ∈ nonActive act N ↔ j < N ∧ ¬ (j : Int) ∈ act := by
  simp [nonActive, List.mem_filter, List.mem_range]

/-- in an ascending list, everything smaller than a member of the first `k` entries is itself among the first `k` -/
theorem mem_take_of_lt {F : List Nat} (hs : F.Pairwise (· < ·)) {k c j : Nat}
    (hc : c ∈ F.take k) (hj : j ∈ F) (hlt : j < c) : j ∈ F.take k := by
  rw [← List.take_append_drop k F] at hs hj
  rcases List.mem_append.1 hj with h | h
  · exact h
  · have := (List.pairwise_append.1 hs).2.2 c hc j h
    omega

end Core
/-! ## determinant energies -/
section Det
variable {R : Type} [CommRing R]

theorem d0 (i : Nat) : 2 * i / 2 = i := by omega
theorem d1 (i : Nat) : (2 * i + 1) / 2 = i := by omega
theorem m0 (i : Nat) : 2 * i % 2 = 0 := by omega
theorem m1 (i : Nat) : (2 * i + 1) % 2 = 1 := by omega

theorem liftSpin_div (act : List Nat) (U : Nat) : liftSpin act U / 2 = act.getD (U / 2) 0 := by
  unfold liftSpin; omega
theorem liftSpin_mod (act : List Nat) (U : Nat) : liftSpin act U % 2 = U % 2 := by
  unfold liftSpin; omega

/-- one pair of spin orbitals in the determinant energy, in terms of the spatial Coulomb / exchange integrals -/
def pairTerm (i2 : R) (J K : Nat → Nat → R) (P Q : Nat) : R :=
  i2 * J (P / 2) (Q / 2) - i2 * (if P % 2 = Q % 2 then K (P / 2) (Q / 2) else 0)

theorem spin1Arr_diag (n : Nat) (h : T2 R) (P : Nat) (hP : P / 2 < n) :
    spin1Arr n h P P = h (P / 2) (P / 2) := by
  rw [spin1Arr_eq]; simp [hP]

theorem spin2Arr_J (n : Nat) (g : T4 R) (P Q : Nat) (hP : P / 2 < n) (hQ : Q / 2 < n) :
    spin2Arr n g P Q Q P = g (P / 2) (Q / 2) (Q / 2) (P / 2) := by
  rw [spin2Arr_eq]; simp [hP, hQ]

theorem spin2Arr_K (n : Nat) (g : T4 R) (P Q : Nat) (hP : P / 2 < n) (hQ : Q / 2 < n) :
    spin2Arr n g P Q P Q = if P % 2 = Q % 2 then g (P / 2) (Q / 2) (P / 2) (Q / 2) else 0 := by
  rw [spin2Arr_eq]
  by_cases e : P % 2 = Q % 2
  · simp [hP, hQ, e]
  · rw [if_neg e, if_neg (by tauto)]

theorem detEnergy_spin (c i2 : R) (h : T2 R) (g : T4 R) (n : Nat) (D : List Nat) (hD : ∀ P ∈ D, P / 2 < n) :
    detEnergy c (spin1Arr n h) (fun P Q R' S' => i2 * spin2Arr n g P Q R' S') D
      = c + sumOver D (fun P => h (P / 2) (P / 2))
          + sumOver D (fun P => sumOver D fun Q =>
              pairTerm i2 (fun p q => g p q q p) (fun p q => g p q p q) P Q) := by
  unfold detEnergy
  congr 1
  · congr 1
    exact sumOver_congr fun P hP => spin1Arr_diag n h P (hD P hP)
  · refine sumOver_congr fun P hP => sumOver_congr fun Q hQ => ?_
    show i2 * spin2Arr n g P Q Q P - i2 * spin2Arr n g P Q P Q = _
    rw [spin2Arr_J n g P Q (hD P hP) (hD Q hQ), spin2Arr_K n g P Q (hD P hP) (hD Q hQ)]
    rfl

theorem pairTerm_spin_left (i2 : R) (h2 : 2 * i2 = 1) (J K : Nat → Nat → R) (i Q : Nat) :
    pairTerm i2 J K (2 * i) Q + pairTerm i2 J K (2 * i + 1) Q = J i (Q / 2) - i2 * K i (Q / 2) := by
  unfold pairTerm
  rw [d0, d1, m0, m1]
  rcases Nat.mod_two_eq_zero_or_one Q with e | e <;> simp [e] <;> linear_combination (J i (Q / 2)) * h2

theorem pairTerm_spin_right (i2 : R) (h2 : 2 * i2 = 1) (J K : Nat → Nat → R) (P j : Nat) :
    pairTerm i2 J K P (2 * j) + pairTerm i2 J K P (2 * j + 1) = J (P / 2) j - i2 * K (P / 2) j := by
  unfold pairTerm
  rw [d0, d1, m0, m1]
  rcases Nat.mod_two_eq_zero_or_one P with e | e <;> simp [e] <;> linear_combination (J (P / 2) j) * h2


theorem pair_sum_core_core (i2 : R) (h2 : 2 * i2 = 1) (J K : Nat → Nat → R) (core : List Nat) :
    sumOver (core.flatMap fun i => [2 * i, 2 * i + 1]) (fun P =>
        sumOver (core.flatMap fun i => [2 * i, 2 * i + 1]) fun Q => pairTerm i2 J K P Q)
      = sumOver core (fun i => sumOver core fun j => 2 * J i j - K i j) := by
  rw [sumOver_spin]
  refine sumOver_congr fun i _ => ?_
  rw [sumOver_spin, sumOver_spin, ← sumOver_add]
  refine sumOver_congr fun j _ => ?_
  rw [pairTerm_spin_right i2 h2, pairTerm_spin_right i2 h2, d0, d1]
  linear_combination (-(K i j)) * h2

theorem pair_sum_core_act (i2 : R) (h2 : 2 * i2 = 1) (J K : Nat → Nat → R) (core act S : List Nat) :
    sumOver (core.flatMap fun i => [2 * i, 2 * i + 1]) (fun P =>
        sumOver (S.map (liftSpin act)) fun Q => pairTerm i2 J K P Q)
      = sumOver S (fun U => sumOver core fun i =>
          J i (act.getD (U / 2) 0) - i2 * K i (act.getD (U / 2) 0)) := by
  rw [sumOver_comm, sumOver_map]
  refine sumOver_congr fun U _ => ?_
  rw [sumOver_spin]
  refine sumOver_congr fun i _ => ?_
  rw [pairTerm_spin_left i2 h2, liftSpin_div]

theorem pair_sum_act_core (i2 : R) (h2 : 2 * i2 = 1) (J K : Nat → Nat → R) (core act S : List Nat) :
    sumOver (S.map (liftSpin act)) (fun P =>
        sumOver (core.flatMap fun i => [2 * i, 2 * i + 1]) fun Q => pairTerm i2 J K P Q)
      = sumOver S (fun U => sumOver core fun j =>
          J (act.getD (U / 2) 0) j - i2 * K (act.getD (U / 2) 0) j) := by
  rw [sumOver_map]
  refine sumOver_congr fun U _ => ?_
  rw [sumOver_spin]
  refine sumOver_congr fun j _ => ?_
  rw [pairTerm_spin_right i2 h2, liftSpin_div]

/-- the double sum over a determinant `core² ∪ lifted S`, split into core–core, core–active and active–active parts -/
theorem pair_sum_split (i2 : R) (h2 : 2 * i2 = 1) (J K : Nat → Nat → R)
    (hJ : ∀ a b, J a b = J b a) (hK : ∀ a b, K a b = K b a) (core act S : List Nat) :
    sumOver (fullDet core act S) (fun P => sumOver (fullDet core act S) fun Q => pairTerm i2 J K P Q)
      = sumOver core (fun i => sumOver core fun j => 2 * J i j - K i j)
        + sumOver S (fun U => 2 * sumOver core (fun i => J i (act.getD (U / 2) 0))
                              - sumOver core (fun i => K i (act.getD (U / 2) 0)))
        + sumOver S (fun U => sumOver S fun V => pairTerm i2 J K (liftSpin act U) (liftSpin act V)) := by
  unfold fullDet
  simp only [sumOver_append, sumOver_add]
  rw [pair_sum_core_core i2 h2, pair_sum_core_act i2 h2, pair_sum_act_core i2 h2]
  have e : sumOver S (fun U => sumOver core fun i =>
          J i (act.getD (U / 2) 0) - i2 * K i (act.getD (U / 2) 0))
        + sumOver S (fun U => sumOver core fun j =>
          J (act.getD (U / 2) 0) j - i2 * K (act.getD (U / 2) 0) j)
      = sumOver S (fun U => 2 * sumOver core (fun i => J i (act.getD (U / 2) 0))
                              - sumOver core (fun i => K i (act.getD (U / 2) 0))) := by
    rw [← sumOver_add]
    refine sumOver_congr fun U _ => ?_
    rw [← sumOver_add, ← sumOver_mul_left, ← sumOver_sub]
    refine sumOver_congr fun i _ => ?_
    rw [hJ (act.getD (U / 2) 0) i, hK (act.getD (U / 2) 0) i]
    linear_combination (-(K i (act.getD (U / 2) 0))) * h2
  rw [sumOver_map S (liftSpin act)]
  have e4 : ∀ U, sumOver (S.map (liftSpin act)) (fun Q => pairTerm i2 J K (liftSpin act U) Q)
      = sumOver S fun V => pairTerm i2 J K (liftSpin act U) (liftSpin act V) := fun U => sumOver_map S _ _
  simp only [e4]
  rw [← e]; ring


theorem getD_lt_of_forall {act : List Nat} {n u : Nat} (hact : ∀ a ∈ act, a < n) (hu : u < act.length) :
    act.getD u 0 < n := by
  have e : act.getD u 0 = act[u] := by simp [List.getD_eq_getElem?_getD, List.getElem?_eq_getElem hu]
  rw [e]
  exact hact _ (List.getElem_mem hu)

theorem fullDet_div_lt {core act S : List Nat} {n : Nat}
    (hcore : ∀ i ∈ core, i < n) (hact : ∀ a ∈ act, a < n) (hS : ∀ U ∈ S, U < 2 * act.length) :
    ∀ P ∈ fullDet core act S, P / 2 < n := by
  intro P hP
  unfold fullDet at hP
  rcases List.mem_append.1 hP with hc | ha
  · obtain ⟨i, hi, hPi⟩ := List.mem_flatMap.1 hc
    have := hcore i hi
    simp at hPi
    omega
  · obtain ⟨U, hU, rfl⟩ := List.mem_map.1 ha
    rw [liftSpin_div]
    exact getD_lt_of_forall hact (by have := hS U hU; omega)

/-- **Determinant energies are preserved by the active-space reduction** (Slater–Condon diagonal rule,
    `InteractionOperator` convention with the factor `i2 = 1/2` on the two-body tensor). -/
theorem detEnergy_active_space (c i2 : R) (h2 : 2 * i2 = 1) (h : T2 R) (g : T4 R) (n : Nat)
    (core act S : List Nat) (hsym : ∀ p q r s, g p q r s = g q p s r)
    (hcore : ∀ i ∈ core, i < n) (hact : ∀ a ∈ act, a < n) (hS : ∀ U ∈ S, U < 2 * act.length) :
    detEnergy c (spin1Arr n h) (fun P Q R' S' => i2 * spin2Arr n g P Q R' S') (fullDet core act S)
      = detEnergy (effCoreEnergy c h g core) (spin1Arr act.length (effOneBody n h g core act))
          (fun P Q R' S' => i2 * spin2Arr act.length (effTwoBody g act) P Q R' S') S := by
  rw [detEnergy_spin c i2 h g n _ (fullDet_div_lt hcore hact hS)]
  rw [detEnergy_spin _ i2 _ _ act.length S (fun U hU => by have := hS U hU; omega)]
  rw [pair_sum_split i2 h2 _ _ (fun a b => hsym a b b a) (fun a b => hsym a b a b)]
  rw [effCoreEnergy_eq]
  -- one-body part of the full determinant
  have e1 : sumOver (fullDet core act S) (fun P => h (P / 2) (P / 2))
      = 2 * sumOver core (fun i => h i i) + sumOver S (fun U => h (act.getD (U / 2) 0) (act.getD (U / 2) 0)) := by
    unfold fullDet
    rw [sumOver_append, sumOver_spin, sumOver_map, ← sumOver_mul_left]
    congr 1
    · refine sumOver_congr fun i _ => ?_
      rw [d0, d1]; ring
    · refine sumOver_congr fun U _ => ?_
      rw [liftSpin_div]
  -- one-body part of the reduced determinant
  have e2 : sumOver S (fun U => effOneBody n h g core act (U / 2) (U / 2))
      = sumOver S (fun U => h (act.getD (U / 2) 0) (act.getD (U / 2) 0))
        + sumOver S (fun U => 2 * sumOver core (fun i => g i (act.getD (U / 2) 0) (act.getD (U / 2) 0) i)
            - sumOver core (fun i => g i (act.getD (U / 2) 0) i (act.getD (U / 2) 0))) := by
    rw [← sumOver_add]
    refine sumOver_congr fun U hU => ?_
    have hu : act.getD (U / 2) 0 < n := getD_lt_of_forall hact (by have := hS U hU; omega)
    rw [effOneBody_eq n h g core act (U / 2) (U / 2) hu hu]
  -- two-body part of the reduced determinant
  have e3 : sumOver S (fun U => sumOver S fun V =>
        pairTerm i2 (fun p q => effTwoBody g act p q q p) (fun p q => effTwoBody g act p q p q) U V)
      = sumOver S (fun U => sumOver S fun V =>
        pairTerm i2 (fun p q => g p q q p) (fun p q => g p q p q) (liftSpin act U) (liftSpin act V)) := by
    refine sumOver_congr fun U _ => sumOver_congr fun V _ => ?_
    unfold pairTerm
    simp only [effTwoBody_eq, liftSpin_div, liftSpin_mod]
  rw [e1, e2, e3]
  ring

end Det

/-! ## the pipeline on in-range natural index lists -/
section Pipe
variable {α : Type} [Zero α] [Add α] [Sub α] [Mul α]

theorem normIdx_cast {n i : Nat} (h : i < n) : normIdx n (i : Int) = .ok i := by
  unfold normIdx
  rw [if_pos ⟨by omega, by omega⟩]
  simp

theorem mapM_normIdx_castL (n : Nat) (l : List Nat) (h : ∀ i ∈ l, i < n) :
    (castL l).mapM (normIdx n) = .ok l := by
  induction l with
  | nil => rfl
  | cons x l ih =>
    have hx := h x (by simp)
    have hl := ih (fun i hi => h i (by simp [hi]))
    unfold castL at *
    simp only [List.map_cons, List.mapM_cons, normIdx_cast hx, hl]
    rfl

theorem activeSpaceSpatialIdx_castL (s : ESet α) (core act : List Nat)
    (hc : ∀ i ∈ core, i < s.dim) (ha : ∀ i ∈ act, i < s.dim) :
    activeSpaceSpatialIdx s (castL core) (castL act)
      = .ok ⟨effCoreEnergy s.const s.h s.g core, effOneBody s.dim s.h s.g core act, effTwoBody s.g act, act.length⟩ := by
  unfold activeSpaceSpatialIdx
  rw [mapM_normIdx_castL _ _ hc, mapM_normIdx_castL _ _ ha]
  rfl

end Pipe
end QV.C14
