import QuriVerif.Model.C11
/-
  C11 — helper lemmas (core Lean only).
-/
namespace QV.C11

/-! ### (a) chunk arithmetic -/

theorem sum_map_range_zero (g : Nat → Nat) (c : Nat) (h : ∀ i, i < c → g i = 0) :
    ((List.range c).map g).sum = 0 := by
  induction c with
  | zero => simp
  | succ c ih =>
    have h1 := ih (fun i hi => h i (Nat.lt_succ_of_lt hi))
    have h2 := h c (Nat.lt_succ_self c)
    simp [List.range_succ, List.sum_append, h1, h2]

/-- telescoping: `Σ_{i<c} g (i+1) + g 0 = Σ_{i<c} g i + g c` -/
theorem sum_range_shift (g : Nat → Nat) (c : Nat) :
    ((List.range c).map (fun i => g (i + 1))).sum + g 0 = ((List.range c).map g).sum + g c := by
  induction c with
  | zero => simp
  | succ c ih =>
    simp only [List.range_succ, List.map_append, List.sum_append, List.map_cons, List.map_nil,
      List.sum_cons, List.sum_nil]
    omega

/-- Hermite-style identity: the chunk sizes add up to the number of inputs. -/
theorem counts_sum (n c : Nat) (hc : 0 < c) : (counts n c).sum = n := by
  unfold counts
  induction n with
  | zero =>
    apply sum_map_range_zero
    intro i hi
    simp [Nat.div_eq_of_lt hi]
  | succ n ih =>
    have hfun : (List.range c).map (fun i => (n + 1 + i) / c)
        = (List.range c).map (fun i => (n + (i + 1)) / c) := by
      apply List.map_congr_left
      intro i _
      congr 1
      omega
    rw [hfun]
    have hs := sum_range_shift (fun j => (n + j) / c) c
    simp only [Nat.add_zero] at hs
    have hd : (n + c) / c = n / c + 1 := Nat.add_div_right n hc
    omega

theorem counts_length (n c : Nat) : (counts n c).length = c := by simp [counts]

theorem mem_counts {n c a : Nat} (h : a ∈ counts n c) : ∃ i, i < c ∧ a = (n + i) / c := by
  simp only [counts, List.mem_map, List.mem_range] at h
  obtain ⟨i, hi, rfl⟩ := h
  exact ⟨i, hi, rfl⟩

theorem counts_bounds (n c a : Nat) (hc : 0 < c) (h : a ∈ counts n c) : n / c ≤ a ∧ a ≤ n / c + 1 := by
  obtain ⟨i, hi, rfl⟩ := mem_counts h
  constructor
  · exact Nat.div_le_div_right (Nat.le_add_right n i)
  · have h1 : (n + i) / c ≤ (n + c) / c := Nat.div_le_div_right (by omega)
    have h2 : (n + c) / c = n / c + 1 := Nat.add_div_right n hc
    omega

/-- structural version of the slicing -/
def splitBy {α : Type} : List Nat → List α → List (List α)
  | [], _ => []
  | k :: ks, xs => xs.take k :: splitBy ks (xs.drop k)

theorem splitBy_flatten {α : Type} (cs : List Nat) (xs : List α) :
    (splitBy cs xs).flatten = xs.take cs.sum := by
  induction cs generalizing xs with
  | nil => simp [splitBy]
  | cons k ks ih => simp [splitBy, ih, List.take_add]

theorem splitBy_lengths {α : Type} (cs : List Nat) (xs : List α) (h : cs.sum ≤ xs.length) :
    (splitBy cs xs).map List.length = cs := by
  induction cs generalizing xs with
  | nil => simp [splitBy]
  | cons k ks ih =>
    simp only [List.sum_cons] at h
    simp only [splitBy, List.map_cons, List.length_take]
    rw [ih (xs.drop k) (by simp only [List.length_drop]; omega)]
    congr 1
    omega

theorem psum_zero (cs : List Nat) : psum cs 0 = 0 := by simp [psum]

theorem psum_cons_succ (k : Nat) (ks : List Nat) (i : Nat) : psum (k :: ks) (i + 1) = k + psum ks i := by
  simp [psum]

theorem slice_shift {α : Type} (xs : List α) (k a b : Nat) :
    slice xs (k + a) (k + b) = slice (xs.drop k) a b := by
  simp only [slice, List.drop_drop, Nat.add_sub_add_left]

theorem slices_eq_splitBy {α : Type} (cs : List Nat) (xs : List α) :
    (List.range cs.length).map (fun i => slice xs (psum cs i) (psum cs (i + 1))) = splitBy cs xs := by
  induction cs generalizing xs with
  | nil => simp [splitBy]
  | cons k ks ih =>
    rw [List.length_cons, List.range_succ_eq_map, List.map_cons, List.map_map, splitBy, ← ih (xs.drop k)]
    rw [List.cons.injEq]
    refine ⟨by simp [psum, slice], ?_⟩
    · apply List.map_congr_left
      intro i _
      show slice xs (psum (k :: ks) (i + 1)) (psum (k :: ks) (i + 1 + 1))
        = slice (xs.drop k) (psum ks i) (psum ks (i + 1))
      rw [psum_cons_succ, psum_cons_succ, slice_shift]

theorem chunks_eq_splitBy {α : Type} (xs : List α) (c : Nat) :
    chunks xs c = splitBy (counts xs.length c) xs := by
  have h := slices_eq_splitBy (counts xs.length c) xs
  rw [counts_length] at h
  exact h

theorem zipWith_replicate_left {κ α ρ : Type} (f : κ → α → ρ) (a : κ) (l : List α) (k : Nat)
    (h : l.length ≤ k) : List.zipWith f (List.replicate k a) l = l.map (f a) := by
  induction l generalizing k with
  | nil => simp
  | cons x xs ih =>
    cases k with
    | zero => simp at h
    | succ k =>
      simp only [List.length_cons, Nat.add_le_add_iff_right] at h
      simp [List.replicate_succ, ih k h]

theorem hom_nil {α ρ : Type} (f : List α → List ρ) (hom : ∀ a b, f (a ++ b) = f a ++ f b) : f [] = [] := by
  have h := congrArg List.length (hom [] [])
  simp only [List.append_nil, List.length_append] at h
  exact List.eq_nil_of_length_eq_zero (by omega)

theorem hom_flatten {α ρ : Type} (f : List α → List ρ) (hom : ∀ a b, f (a ++ b) = f a ++ f b)
    (ls : List (List α)) : (ls.map f).flatten = f ls.flatten := by
  induction ls with
  | nil => simp [hom_nil f hom]
  | cons l ls ih => simp [ih, hom]

theorem getD_of_ge {α : Type} (l : List α) (i : Nat) (d : α) (h : l.length ≤ i) : l.getD i d = d := by
  simp [List.getD_eq_getElem?_getD, List.getElem?_eq_none h]

theorem getD_mem {α : Type} (l : List α) (i : Nat) (d : α) (h : i < l.length) : l.getD i d ∈ l := by
  simp [List.getD_eq_getElem?_getD, List.getElem?_eq_getElem h]

/-! ### (b) task system -/

@[simp] theorem upd_same {β : Type} (f : Nat → β) (k : Nat) (v : β) : upd f k v k = v := by simp [upd]

theorem upd_other {β : Type} (f : Nat → β) (k : Nat) (v : β) (x : Nat) (h : x ≠ k) : upd f k v x = f x := by
  simp [upd, h]

theorem mem_reads_cons (x : Nat) (i : Instr) (r : List Instr) :
    x ∈ reads (i :: r) ↔ x ∈ i.reads ∨ x ∈ reads r := by simp [reads]

theorem mem_writes_cons (x : Nat) (i : Instr) (r : List Instr) :
    x ∈ writes (i :: r) ↔ x ∈ i.writes ∨ x ∈ writes r := by simp [writes]

theorem mem_footprint_cons (x : Nat) (i : Instr) (r : List Instr) :
    x ∈ footprint (i :: r) ↔ x ∈ i.reads ∨ x ∈ i.writes ∨ x ∈ footprint r := by
  simp only [footprint, List.mem_append, mem_reads_cons, mem_writes_cons]
  constructor
  · rintro ((h | h) | (h | h))
    · exact Or.inl h
    · exact Or.inr (Or.inr (Or.inl h))
    · exact Or.inr (Or.inl h)
    · exact Or.inr (Or.inr (Or.inr h))
  · rintro (h | h | h | h)
    · exact Or.inl (Or.inl h)
    · exact Or.inr (Or.inl h)
    · exact Or.inl (Or.inr h)
    · exact Or.inr (Or.inr h)

theorem writes_suffix {p q : List Instr} (h : p <:+ q) {x : Nat} (hx : x ∈ writes p) : x ∈ writes q := by
  obtain ⟨pre, rfl⟩ := h
  simp only [writes, List.flatMap_append, List.mem_append]
  exact Or.inr hx

theorem footprint_suffix {p q : List Instr} (h : p <:+ q) {x : Nat} (hx : x ∈ footprint p) : x ∈ footprint q := by
  obtain ⟨pre, rfl⟩ := h
  simp only [footprint, reads, writes, List.flatMap_append, List.mem_append] at hx ⊢
  rcases hx with hx | hx
  · exact Or.inl (Or.inr hx)
  · exact Or.inr (Or.inr hx)

/-- a statement changes only the cells it writes -/
theorem iexec_frame (S : Sem) (i : Instr) (m : Nat → Int) (x : Nat) (h : x ∉ i.writes) :
    iexec S i m x = m x := by
  cases i <;> simp [Instr.writes] at h <;> simp [iexec, upd, h]

/-- the value a statement writes depends only on the cells it reads -/
theorem iexec_congr (S : Sem) (i : Instr) (m m' : Nat → Int) (x : Nat)
    (hr : ∀ y, y ∈ i.reads → m y = m' y) (hx : m x = m' x) : iexec S i m x = iexec S i m' x := by
  cases i with
  | set d v => simp only [iexec, upd]; split <;> simp [hx]
  | app d f a b =>
    have ha := hr a (by simp [Instr.reads])
    have hb := hr b (by simp [Instr.reads])
    simp only [iexec, upd]; split <;> simp [hx, ha, hb]
  | lookup d k => simp only [iexec, upd]; split <;> simp [hx]
  | publish k s => simpa [iexec] using hx
  | emit s => simpa [iexec] using hx

theorem iout_congr (S : Sem) (p : List Instr) (m m' : Nat → Int)
    (h : ∀ x, x ∈ footprint p → m x = m' x) : iout S p m = iout S p m' := by
  induction p generalizing m m' with
  | nil => simp [iout]
  | cons i r ih =>
    have hstep : ∀ x, x ∈ footprint r → iexec S i m x = iexec S i m' x := by
      intro x hx
      apply iexec_congr
      · intro y hy
        exact h y ((mem_footprint_cons y i r).2 (Or.inl hy))
      · exact h x ((mem_footprint_cons x i r).2 (Or.inr (Or.inr hx)))
    have hrest : ∀ x, x ∈ footprint r → m x = m' x := fun x hx =>
      h x ((mem_footprint_cons x i r).2 (Or.inr (Or.inr hx)))
    cases i with
    | emit s =>
      have hs : m s = m' s := h s ((mem_footprint_cons s _ r).2 (Or.inl (by simp [Instr.reads])))
      simp only [iout, hs, ih m m' hrest]
    | set d v => simp only [iout]; exact ih _ _ hstep
    | app d f a b => simp only [iout]; exact ih _ _ hstep
    | lookup d k => simp only [iout]; exact ih _ _ hstep
    | publish k s => simp only [iout]; exact ih _ _ hstep

theorem publishOK_congr (S : Sem) (p : List Instr) (m m' : Nat → Int)
    (h : ∀ x, x ∈ footprint p → m x = m' x) : publishOK S p m = publishOK S p m' := by
  induction p generalizing m m' with
  | nil => simp [publishOK]
  | cons i r ih =>
    have hstep : ∀ x, x ∈ footprint r → iexec S i m x = iexec S i m' x := by
      intro x hx
      apply iexec_congr
      · intro y hy
        exact h y ((mem_footprint_cons y i r).2 (Or.inl hy))
      · exact h x ((mem_footprint_cons x i r).2 (Or.inr (Or.inr hx)))
    have hrest : ∀ x, x ∈ footprint r → m x = m' x := fun x hx =>
      h x ((mem_footprint_cons x i r).2 (Or.inr (Or.inr hx)))
    cases i with
    | publish k s =>
      have hs : m s = m' s := h s ((mem_footprint_cons s _ r).2 (Or.inl (by simp [Instr.reads])))
      simp only [publishOK, hs, ih m m' hrest]
    | set d v => simp only [publishOK]; exact ih _ _ hstep
    | app d f a b => simp only [publishOK]; exact ih _ _ hstep
    | lookup d k => simp only [publishOK]; exact ih _ _ hstep
    | emit s => simp only [publishOK]; exact ih _ _ hstep

theorem lookup_cacheOK (S : Sem) (c : List (Nat × Int)) (h : cacheOK S c = true) (k : Nat) :
    (c.lookup k).getD (S.build k) = S.build k := by
  induction c with
  | nil => simp
  | cons kv c ih =>
    obtain ⟨k', v⟩ := kv
    simp only [cacheOK, List.all_cons, Bool.and_eq_true, beq_iff_eq] at h
    have ih' := ih (by simpa [cacheOK] using h.2)
    by_cases hk : k = k'
    · subst hk
      simp [List.lookup, h.1]
    · have : (k == k') = false := by simpa using hk
      simp [List.lookup, this, ih']

/-- with a cache that only holds fully built values, a statement acts on the cells exactly as
    it does for a task on its own -/
theorem exec_cells (S : Sem) (t : Nat) (i : Instr) (s : St) (h : cacheOK S s.cache = true) :
    (exec S t i s).cells = iexec S i s.cells := by
  cases i with
  | lookup d k => simp only [exec, iexec, lookup_cacheOK S s.cache h k]
  | set d v => rfl
  | app d f a b => rfl
  | publish k src => rfl
  | emit src => rfl

/-- the invariant of every reachable system state -/
structure Inv (S : Sem) (P : Nat → List Instr) (m0 : Nat → Int) (o0 : Nat → List Int) (y : Sys) : Prop where
  cache : cacheOK S y.st.cache = true
  suffix : ∀ t, y.progs t <:+ P t
  pub : ∀ t, publishOK S (y.progs t) y.st.cells = true
  out : ∀ t, y.st.out t ++ iout S (y.progs t) y.st.cells = o0 t ++ iout S (P t) m0

def PrivateP (P : Nat → List Instr) : Prop :=
  ∀ t u, t ≠ u → ∀ x, x ∈ writes (P u) → x ∉ footprint (P t)

theorem isPrivate_spec (ps : List (List Instr)) (h : isPrivate ps = true) : PrivateP (progOf ps) := by
  intro t u htu x hx hf
  by_cases hu : u < ps.length
  · by_cases ht : t < ps.length
    · simp only [isPrivate, List.all_eq_true, List.mem_range] at h
      have h1 := h t ht u hu
      simp only [Bool.or_eq_true, beq_iff_eq, List.all_eq_true] at h1
      rcases h1 with h1 | h1
      · exact htu h1
      · have h2 := h1 x hx
        simp only [Bool.not_eq_eq_eq_not, Bool.not_true, List.contains_eq_mem,
          decide_eq_false_iff_not] at h2
        exact h2 hf
    · have : progOf ps t = [] := getD_of_ge _ _ _ (by omega)
      simp [this, footprint, reads, writes] at hf
  · have : progOf ps u = [] := getD_of_ge _ _ _ (by omega)
    simp [this, writes] at hx

theorem inv_init (S : Sem) (ps : List (List Instr)) (m0 : Nat → Int) (c0 : List (Nat × Int))
    (o0 : Nat → List Int) (hc : cacheOK S c0 = true) (hp : ps.all (fun p => publishOK S p m0) = true) :
    Inv S (progOf ps) m0 o0 (init ps m0 c0 o0) := by
  refine ⟨hc, fun t => List.suffix_refl _, ?_, fun t => rfl⟩
  intro t
  simp only [init, progOf]
  by_cases ht : t < ps.length
  · simp only [List.all_eq_true] at hp
    exact hp _ (getD_mem ps t [] ht)
  · rw [getD_of_ge _ _ _ (by omega)]
    rfl

theorem inv_step (S : Sem) (P : Nat → List Instr) (m0 : Nat → Int) (o0 : Nat → List Int)
    (hpriv : PrivateP P) (u : Nat) (y : Sys) (h : Inv S P m0 o0 y) : Inv S P m0 o0 (stepTask S u y) := by
  unfold stepTask
  cases hpu : y.progs u with
  | nil => simpa using h
  | cons i rest =>
    simp only
    have hcells : (exec S u i y.st).cells = iexec S i y.st.cells := exec_cells S u i y.st h.cache
    have hsufu : (i :: rest) <:+ P u := hpu ▸ h.suffix u
    -- cells in the footprint of another task are untouched
    have hframe : ∀ t, t ≠ u → ∀ x, x ∈ footprint (y.progs t) →
        (exec S u i y.st).cells x = y.st.cells x := by
      intro t htu x hx
      rw [hcells]
      apply iexec_frame
      intro hw
      have hwu : x ∈ writes (P u) :=
        writes_suffix hsufu ((mem_writes_cons x i rest).2 (Or.inl hw))
      exact hpriv t u htu x hwu (footprint_suffix (h.suffix t) hx)
    have hpubu : publishOK S (i :: rest) y.st.cells = true := hpu ▸ h.pub u
    have houtu := h.out u
    rw [hpu] at houtu
    refine ⟨?_, ?_, ?_, ?_⟩
    · -- cache
      cases i with
      | publish k src =>
        simp only [publishOK, Bool.and_eq_true, beq_iff_eq] at hpubu
        simp only [exec, cacheOK, List.all_cons, Bool.and_eq_true, beq_iff_eq]
        exact ⟨hpubu.1, by simpa [cacheOK] using h.cache⟩
      | set d v => exact h.cache
      | app d f a b => exact h.cache
      | lookup d k => exact h.cache
      | emit s => exact h.cache
    · -- suffix
      intro t
      dsimp only
      by_cases htu : t = u
      · subst htu
        simp only [upd_same]
        exact List.IsSuffix.trans (List.suffix_cons i rest) hsufu
      · rw [upd_other _ _ _ _ htu]
        exact h.suffix t
    · -- publishOK
      intro t
      dsimp only
      by_cases htu : t = u
      · subst htu
        simp only [upd_same]
        rw [hcells]
        cases i with
        | publish k src =>
          simp only [publishOK, Bool.and_eq_true] at hpubu
          simpa [iexec] using hpubu.2
        | set d v => simpa [publishOK] using hpubu
        | app d f a b => simpa [publishOK] using hpubu
        | lookup d k => simpa [publishOK] using hpubu
        | emit s => simpa [publishOK] using hpubu
      · rw [upd_other _ _ _ _ htu]
        rw [publishOK_congr S (y.progs t) _ y.st.cells (hframe t htu)]
        exact h.pub t
    · -- outputs
      intro t
      dsimp only
      by_cases htu : t = u
      · subst htu
        simp only [upd_same]
        rw [← houtu, hcells]
        cases i with
        | emit s => simp [exec, iout, iexec]
        | set d v => simp [exec, iout]
        | app d f a b => simp [exec, iout]
        | lookup d k => simp [exec, iout]
        | publish k src => simp [exec, iout, iexec]
      · rw [upd_other _ _ _ _ htu]
        rw [iout_congr S (y.progs t) _ y.st.cells (hframe t htu)]
        have ho : (exec S u i y.st).out t = y.st.out t := by
          cases i <;> simp [exec, upd_other _ _ _ _ htu]
        rw [ho]
        exact h.out t

theorem inv_run (S : Sem) (P : Nat → List Instr) (m0 : Nat → Int) (o0 : Nat → List Int)
    (hpriv : PrivateP P) (sched : List Nat) (y : Sys) (h : Inv S P m0 o0 y) :
    Inv S P m0 o0 (runSched S sched y) := by
  induction sched generalizing y with
  | nil => exact h
  | cons t ts ih => exact ih _ (inv_step S P m0 o0 hpriv t y h)

/-! #### which schedules are complete -/

theorem stepTask_progs (S : Sem) (u t : Nat) (y : Sys) :
    (stepTask S u y).progs t = if u = t then (y.progs t).tail else y.progs t := by
  unfold stepTask
  cases hpu : y.progs u with
  | nil =>
    by_cases h : u = t
    · subst h; simp [hpu]
    · simp [h]
  | cons i rest =>
    by_cases h : u = t
    · subst h; simp [hpu]
    · have : t ≠ u := fun e => h e.symm
      simp [h, upd_other _ _ _ _ this]

/-- after a schedule, task `t` has executed as many statements as it was scheduled -/
theorem runSched_progs (S : Sem) (sched : List Nat) (y : Sys) (t : Nat) :
    (runSched S sched y).progs t = (y.progs t).drop (sched.count t) := by
  induction sched generalizing y with
  | nil => simp [runSched]
  | cons u us ih =>
    simp only [runSched, ih, stepTask_progs, List.count_cons]
    by_cases h : u = t
    · subst h
      simp [List.drop_tail]
    · have : (u == t) = false := by simpa using h
      simp [h, this]

theorem complete_iff (n : Nat) (y : Sys) : complete n y = true ↔ ∀ t, t < n → y.progs t = [] := by
  simp [complete, List.all_eq_true, List.isEmpty_iff]

theorem count_seqSchedFrom (s t : Nat) (ps : List (List Instr)) :
    (seqSchedFrom s ps).count t = if s ≤ t then (ps.getD (t - s) []).length else 0 := by
  induction ps generalizing s with
  | nil => simp [seqSchedFrom]
  | cons p r ih =>
    simp only [seqSchedFrom, List.count_append, List.count_replicate, ih]
    by_cases h1 : s = t
    · subst h1
      simp
      intro h
      omega
    · have hb : (s == t) = false := by simpa using h1
      by_cases h2 : s < t
      · have e : t - s = (t - (s + 1)) + 1 := by omega
        have h3 : s + 1 ≤ t := h2
        have h4 : s ≤ t := Nat.le_of_lt h2
        simp [hb, h3, h4, e]
      · have h3 : ¬ (s + 1 ≤ t) := by omega
        have h4 : ¬ (s ≤ t) := by omega
        simp [hb, h3, h4]

end QV.C11
