import QuriVerif.Model.C13
/-
  Helper lemmas for C13 (core Lean only).
-/
namespace QV.C13

/-! ## bits -/

theorem testBit_packBits (l : List Bool) (i : Nat) : (packBits l).testBit i = l.getD i false := by
  induction l generalizing i with
  | nil => simp [packBits]
  | cons x xs ih =>
    cases i with
    | zero =>
      cases x <;> simp [packBits, Nat.testBit_zero] <;> omega
    | succ i =>
      have h : ((if x then 1 else 0) + 2 * packBits xs) / 2 = packBits xs := by
        cases x <;> simp <;> omega
      simp only [packBits, Nat.testBit_succ, h, ih, List.getD_cons_succ]

theorem packBits_div_two (x : Bool) (xs : List Bool) : packBits (x :: xs) / 2 = packBits xs := by
  cases x <;> simp [packBits] <;> omega

theorem packBits_testBit_zero (x : Bool) (xs : List Bool) : (packBits (x :: xs)).testBit 0 = x := by
  have := testBit_packBits (x :: xs) 0
  simpa using this

theorem packBits_lt (l : List Bool) : packBits l < 2 ^ l.length := by
  induction l with
  | nil => simp [packBits]
  | cons x xs ih =>
    simp only [packBits, List.length_cons, Nat.pow_succ]
    cases x <;> simp <;> omega

theorem parityLow_zero (k : Nat) : parityLow 0 k = false := by
  induction k with
  | zero => rfl
  | succ k ih => simp [parityLow, ih]

theorem parityLow_xor (a b k : Nat) : parityLow (a ^^^ b) k = Bool.xor (parityLow a k) (parityLow b k) := by
  induction k generalizing a b with
  | zero => rfl
  | succ k ih =>
    simp only [parityLow, Nat.xor_div_two, ih, Nat.testBit_xor]
    cases a.testBit 0 <;> cases b.testBit 0 <;> cases parityLow (a / 2) k <;> cases parityLow (b / 2) k <;> rfl

theorem parityLow_two_pow_and (r q k : Nat) (h : r < k) : parityLow (2 ^ r &&& q) k = q.testBit r := by
  induction k generalizing r q with
  | zero => omega
  | succ k ih =>
    cases r with
    | zero =>
      have h2 : (2 ^ 0 &&& q) / 2 = 0 := by
        simp
      simp only [parityLow, h2, parityLow_zero, Bool.xor_false]
      simp
    | succ r =>
      have h2 : (2 ^ (r + 1) &&& q) / 2 = 2 ^ r &&& (q / 2) := by
        rw [Nat.and_div_two, Nat.pow_succ, Nat.mul_div_cancel _ (by decide : 0 < 2)]
      have h3 : (2 ^ (r + 1) &&& q).testBit 0 = false := by
        simp
      simp only [parityLow, h2, h3, ih r (q / 2) (by omega), Bool.false_xor, Nat.testBit_succ]

/-! ## comb -/

theorem comb_zero (rows : List Nat) : comb rows 0 = 0 := by
  induction rows with
  | nil => rfl
  | cons r rs ih => simp [comb, ih]

theorem ite_xor_bool (a b : Bool) (r : Nat) :
    (if Bool.xor a b then r else 0) = (if a then r else 0) ^^^ (if b then r else 0) := by
  cases a <;> cases b <;> simp

theorem comb_xor (rows : List Nat) (s t : Nat) : comb rows (s ^^^ t) = comb rows s ^^^ comb rows t := by
  induction rows generalizing s t with
  | nil => simp [comb]
  | cons r rs ih =>
    simp only [comb, Nat.testBit_xor, Nat.xor_div_two, ih, ite_xor_bool]
    ac_rfl

theorem comb_two_pow (rows : List Nat) (i : Nat) : comb rows (2 ^ i) = rowAt rows i := by
  induction rows generalizing i with
  | nil => simp [comb, rowAt]
  | cons r rs ih =>
    cases i with
    | zero =>
      simp [comb, rowAt, comb_zero]
    | succ i =>
      have h : (2 ^ (i + 1)).testBit 0 = false := by simp
      have h2 : 2 ^ (i + 1) / 2 = 2 ^ i := by
        rw [Nat.pow_succ, Nat.mul_div_cancel _ (by decide : 0 < 2)]
      simp only [comb, h, h2, ih]
      simp [rowAt]

/-- `(s·M)·q = s·(M q)`: the dot product of a combination of rows with `q` is the combination of the
    rows' dot products -/
theorem comb_dot (M : List Nat) (s q w : Nat) :
    parityLow (comb M s &&& q) w =
      parityLow (s &&& packBits (M.map fun r => parityLow (r &&& q) w)) M.length := by
  induction M generalizing s with
  | nil => simp [comb, parityLow, parityLow_zero]
  | cons r rs ih =>
    simp only [comb, List.map_cons, List.length_cons, parityLow, Nat.and_xor_distrib_right, parityLow_xor,
      Nat.and_div_two, packBits_div_two, ih, Nat.testBit_and, packBits_testBit_zero]
    cases s.testBit 0 <;> simp [parityLow_zero]

/-! ## the state mapper and its inverse -/

theorem getD_map_range (f : Nat → Bool) (n i : Nat) :
    ((List.range n).map f).getD i false = (decide (i < n) && f i) := by
  by_cases h : i < n <;> simp [List.getD_eq_getElem?_getD, h]

theorem getD_append_falses (l : List Bool) (i : Nat) :
    (l ++ [false, false]).getD i false = l.getD i false := by
  induction l generalizing i with
  | nil =>
    match i with
    | 0 => rfl
    | 1 => rfl
    | _ + 2 => simp
  | cons x xs ih =>
    cases i with
    | zero => rfl
    | succ i => simpa using ih i

theorem packBits_map_range_testBit (x n : Nat) : packBits ((List.range n).map x.testBit) = x % 2 ^ n := by
  apply Nat.eq_of_testBit_eq
  intro i
  rw [testBit_packBits, getD_map_range, Nat.testBit_mod_two_pow]

theorem matVec_ok (m : BMat) (v : BArr) (h : m.all (fun r => r.len == v.len) = true) :
    matVec m v = .ok (BArr.ofBools (m.map fun r => parityLow (r.b &&& v.b) v.len)) := by
  simp [matVec, h, pure, Except.pure]

theorem qubitVector_len (m : Mapping) (hwf : m.wf = true) (bits : Nat) :
    (qubitVector m bits).len = m.nSpin := by
  simp only [Mapping.wf, Bool.and_eq_true, Bool.or_eq_true, decide_eq_true_eq, bne_iff_ne, ne_eq] at hwf
  obtain ⟨_, hk⟩ := hwf
  cases hkind : m.kind <;>
    simp [qubitVector, BArr.ofBools, augment, Mapping.nQubits, hkind] at *
  omega

theorem qubitVector_b (m : Mapping) (bits : Nat) (hb : bits < 2 ^ m.nQubits) :
    (qubitVector m bits).b = bits := by
  apply Nat.eq_of_testBit_eq
  intro i
  have key : (packBits ((List.range m.nQubits).map bits.testBit)).testBit i = bits.testBit i := by
    rw [packBits_map_range_testBit, Nat.testBit_mod_two_pow]
    by_cases h : i < m.nQubits
    · simp [h]
    · have : bits.testBit i = false :=
        Nat.testBit_lt_two_pow (Nat.lt_of_lt_of_le hb (Nat.pow_le_pow_right (by decide) (by omega)))
      simp [h, this]
  cases hkind : m.kind <;>
    simp only [qubitVector, BArr.ofBools, augment, hkind] <;>
    first
      | exact key
      | (rw [testBit_packBits, getD_append_falses, ← testBit_packBits]; exact key)

theorem contains_occupancySet (signs : List Bool) (ov : BArr) (i : Nat) (hi : i < ov.len) :
    (occupancySet signs ov).contains i = (ov.get i != signs.getD i false) := by
  simp only [occupancySet, List.contains_eq_mem, List.mem_filter, List.mem_range, hi, true_and]
  cases (ov.get i != signs.getD i false) <;> simp

theorem occVector_occupancySet (m : Mapping) (ov : BArr) (hlen : ov.len = m.nSpin) (hb : ov.b < 2 ^ ov.len) :
    occVector m (occupancySet m.signs ov) = ⟨ov.b, m.nSpin⟩ := by
  have hmap : ((List.range m.nSpin).map fun i =>
        Bool.xor ((occupancySet m.signs ov).contains i) (m.signs.getD i false)) =
      (List.range m.nSpin).map ov.b.testBit := by
    apply List.map_congr_left
    intro i hi
    have hi' : i < ov.len := by rw [hlen]; exact List.mem_range.mp hi
    rw [contains_occupancySet _ _ _ hi']
    simp only [BArr.get]
    cases ov.b.testBit i <;> cases m.signs.getD i false <;> rfl
  simp only [occVector, BArr.ofBools, hmap, packBits_map_range_testBit, List.length_map, List.length_range]
  rw [← hlen, Nat.mod_eq_of_lt hb]

theorem leftIdOn_spec {nq : Nat} {T M : List Nat} (h : leftIdOn nq T M = true) {r : Nat} (hr : r < nq) :
    comb M (rowAt T r) = 2 ^ r := by
  simp only [leftIdOn, List.all_eq_true, List.mem_range, beq_iff_eq] at h
  exact h r hr

theorem wf_parts (m : Mapping) (hwf : m.wf = true) :
    m.invMat.length = m.nSpin ∧ (∀ r ∈ m.invMat, r.len = m.nSpin) ∧
    m.transMat.length = m.nSpin ∧ (∀ r ∈ m.transMat, r.len = m.nSpin) ∧ m.signs.length = m.nSpin ∧
    m.nQubits ≤ m.nSpin := by
  simp only [Mapping.wf, Bool.and_eq_true, beq_iff_eq, List.all_eq_true] at hwf
  obtain ⟨⟨⟨⟨⟨h1, h2⟩, h3⟩, h4⟩, h5⟩, _⟩ := hwf
  refine ⟨h1, h2, h3, h4, h5, ?_⟩
  cases hk : m.kind <;> simp [Mapping.nQubits, hk]

theorem all_len_of (rows : BMat) (v : BArr) (n : Nat) (h : ∀ r ∈ rows, r.len = n) (hv : v.len = n) :
    rows.all (fun r => r.len == v.len) = true := by
  simp only [List.all_eq_true, beq_iff_eq]
  intro r hr
  rw [h r hr, hv]

/-- the result of `m.invMat @ qubit_vector` for in-range bits -/
def invVec (m : Mapping) (bits : Nat) : BArr :=
  BArr.ofBools (m.invMat.map fun r => parityLow (r.b &&& bits) m.nSpin)

theorem invStateMapper_ok (m : Mapping) (hwf : m.wf = true) (bits : Nat) (hb : bits < 2 ^ m.nQubits) :
    invStateMapper m bits = .ok (occupancySet m.signs (invVec m bits)) := by
  obtain ⟨_, h2, _, _, _, _⟩ := wf_parts m hwf
  have hl := qubitVector_len m hwf bits
  simp only [invStateMapper, matVec_ok _ _ (all_len_of _ _ _ h2 hl), qubitVector_b m bits hb, hl, invVec]
  rfl

theorem stateCore_invVec (m : Mapping) (hwf : m.wf = true) (hid : m.leftId = true)
    (bits : Nat) (hb : bits < 2 ^ m.nQubits) :
    stateCore m ⟨(invVec m bits).b, m.nSpin⟩ = .ok bits := by
  obtain ⟨h1, _, h3, h4, _, hq⟩ := wf_parts m hwf
  have hall : m.transMat.all (fun r => r.len == (⟨(invVec m bits).b, m.nSpin⟩ : BArr).len) = true :=
    all_len_of _ _ _ h4 rfl
  simp only [stateCore, matVec_ok _ _ hall, bind, Except.bind, pure, Except.pure, BArr.ofBools,
    Nat.and_two_pow_sub_one_eq_mod]
  congr 1
  apply Nat.eq_of_testBit_eq
  intro r
  rw [Nat.testBit_mod_two_pow]
  by_cases hr : r < m.nQubits
  · have hrT : r < m.transMat.length := by omega
    have hM : (m.invMat.map (·.b)).length = m.nSpin := by simp [h1]
    simp only [hr, decide_true, Bool.true_and, testBit_packBits, List.getD_eq_getElem?_getD,
      List.getElem?_map, List.getElem?_eq_getElem hrT, Option.map_some, Option.getD_some]
    have hc : comb (m.invMat.map (·.b)) (m.transMat[r]).b = 2 ^ r := by
      have := leftIdOn_spec hid hr
      simpa [rowAt, List.getD_eq_getElem?_getD, List.getElem?_map, List.getElem?_eq_getElem hrT] using this
    have hcd := comb_dot (m.invMat.map (·.b)) (m.transMat[r]).b bits m.nSpin
    rw [hc, hM, List.map_map] at hcd
    rw [parityLow_two_pow_and r bits m.nSpin (by omega)] at hcd
    rw [hcd]
    rfl
  · have : bits.testBit r = false :=
      Nat.testBit_lt_two_pow (Nat.lt_of_lt_of_le hb (Nat.pow_le_pow_right (by decide) (by omega)))
    simp [hr, this]

theorem state_after_inv_core (m : Mapping) (hwf : m.wf = true) (hid : m.leftId = true)
    (bits : Nat) (hb : bits < 2 ^ m.nQubits) :
    ∃ occ, invStateMapper m bits = .ok occ ∧ stateCore m (occVector m occ) = .ok bits := by
  refine ⟨_, invStateMapper_ok m hwf bits hb, ?_⟩
  obtain ⟨h1, _, _, _, _, _⟩ := wf_parts m hwf
  have hlen : (invVec m bits).len = m.nSpin := by simp [invVec, BArr.ofBools, h1]
  have hlt : (invVec m bits).b < 2 ^ (invVec m bits).len := by
    simp only [invVec, BArr.ofBools]
    exact packBits_lt _
  rw [occVector_occupancySet m _ hlen hlt]
  exact stateCore_invVec m hwf hid bits hb

theorem occVector_b_testBit (m : Mapping) (occ : List Nat) (i : Nat) :
    (occVector m occ).b.testBit i = (decide (i < m.nSpin) && Bool.xor (occ.contains i) (m.signs.getD i false)) := by
  simp only [occVector, BArr.ofBools, testBit_packBits]
  exact getD_map_range _ _ _

theorem stateCore_ok (m : Mapping) (hwf : m.wf = true) (v : BArr) (hv : v.len = m.nSpin) :
    stateCore m v = .ok (packBits (m.transMat.map fun r => parityLow (r.b &&& v.b) m.nSpin) % 2 ^ m.nQubits) := by
  obtain ⟨_, _, _, h4, _, _⟩ := wf_parts m hwf
  simp only [stateCore, matVec_ok _ _ (all_len_of _ _ _ h4 hv), bind, Except.bind, pure, Except.pure,
    BArr.ofBools, Nat.and_two_pow_sub_one_eq_mod, hv]

/-- row `i` of `inv` dotted with `trans · v` gives back bit `i` of `v` (when `inv · trans = 1`) -/
theorem dot_inv_state (m : Mapping) (hwf : m.wf = true) (hid : m.rightId = true) (v i : Nat) (hi : i < m.nSpin) :
    parityLow ((rowAt (m.invMat.map (·.b)) i) &&&
      packBits (m.transMat.map fun r => parityLow (r.b &&& v) m.nSpin)) m.nSpin = v.testBit i := by
  obtain ⟨h1, _, h3, _, _, _⟩ := wf_parts m hwf
  have hT : (m.transMat.map (·.b)).length = m.nSpin := by simp [h3]
  have hc : comb (m.transMat.map (·.b)) (rowAt (m.invMat.map (·.b)) i) = 2 ^ i := leftIdOn_spec hid hi
  have hcd := comb_dot (m.transMat.map (·.b)) (rowAt (m.invMat.map (·.b)) i) v m.nSpin
  rw [hc, hT, List.map_map, parityLow_two_pow_and i _ m.nSpin hi] at hcd
  exact hcd.symm

theorem inv_after_state_core (m : Mapping) (hwf : m.wf = true) (hid : m.rightId = true)
    (hk : m.nQubits = m.nSpin) (occ : List Nat) :
    ∃ bits, stateCore m (occVector m occ) = .ok bits ∧ bits < 2 ^ m.nQubits ∧
      invStateMapper m bits = .ok (occOf m.nSpin occ) := by
  obtain ⟨h1, _, h3, _, _, _⟩ := wf_parts m hwf
  have hvl : (occVector m occ).len = m.nSpin := by simp [occVector, BArr.ofBools]
  refine ⟨_, stateCore_ok m hwf _ hvl, Nat.mod_lt _ (Nat.two_pow_pos _), ?_⟩
  rw [invStateMapper_ok m hwf _ (Nat.mod_lt _ (Nat.two_pow_pos _))]
  congr 1
  have hlt : packBits (m.transMat.map fun r => parityLow (r.b &&& (occVector m occ).b) m.nSpin) < 2 ^ m.nQubits := by
    have h := packBits_lt (m.transMat.map fun r => parityLow (r.b &&& (occVector m occ).b) m.nSpin)
    rw [List.length_map, h3] at h
    rw [hk]
    exact h
  rw [Nat.mod_eq_of_lt hlt]
  have hlen : (invVec m (packBits (m.transMat.map fun r => parityLow (r.b &&& (occVector m occ).b) m.nSpin))).len
      = m.nSpin := by simp [invVec, BArr.ofBools, h1]
  simp only [occupancySet, occOf, hlen]
  apply List.filter_congr
  intro i hi
  have hi' : i < m.nSpin := List.mem_range.mp hi
  have hiM : i < m.invMat.length := by omega
  have hd := dot_inv_state m hwf hid (occVector m occ).b i hi'
  simp only [rowAt, List.getD_eq_getElem?_getD, List.getElem?_map, List.getElem?_eq_getElem hiM, Option.map_some,
    Option.getD_some] at hd
  simp only [BArr.get, invVec, BArr.ofBools, testBit_packBits, List.getD_eq_getElem?_getD, List.getElem?_map,
    List.getElem?_eq_getElem hiM, Option.map_some, Option.getD_some, hd, occVector_b_testBit]
  simp only [hi', decide_true, Bool.true_and]
  generalize occ.contains i = c
  generalize m.signs[i]?.getD false = s
  cases c <;> cases s <;> rfl

theorem readback_core (m : Mapping) (hwf : m.wf = true) (hid : m.rightId = true)
    (hk : m.nQubits = m.nSpin) (occ : List Nat) (bits : Nat) (h : stateCore m (occVector m occ) = .ok bits)
    (i : Nat) (hi : i < m.nSpin) : numberReads m i bits = occ.contains i := by
  obtain ⟨_, _, h3, _, _, _⟩ := wf_parts m hwf
  have hvl : (occVector m occ).len = m.nSpin := by simp [occVector, BArr.ofBools]
  rw [stateCore_ok m hwf _ hvl] at h
  have hlt : packBits (m.transMat.map fun r => parityLow (r.b &&& (occVector m occ).b) m.nSpin) < 2 ^ m.nQubits := by
    have h := packBits_lt (m.transMat.map fun r => parityLow (r.b &&& (occVector m occ).b) m.nSpin)
    rw [List.length_map, h3] at h
    rw [hk]
    exact h
  rw [Nat.mod_eq_of_lt hlt] at h
  injection h with h
  subst h
  simp only [numberReads, dot_inv_state m hwf hid _ i hi, occVector_b_testBit, hi, decide_true, Bool.true_and]
  generalize occ.contains i = c
  generalize m.signs.getD i false = s
  cases c <;> cases s <;> rfl

/-! ## Gauss–Jordan: rows, lengths, monadic plumbing -/

theorem bind_ok {α β : Type} {x : R α} {f : α → R β} {b : β} (h : (x >>= f) = .ok b) :
    ∃ a, x = .ok a ∧ f a = .ok b := by
  cases x with
  | error e => simp [bind, Except.bind] at h
  | ok a => exact ⟨a, rfl, h⟩

theorem rowAt_set (rows : List Nat) (i x k : Nat) :
    rowAt (rows.set i x) k = if k = i ∧ i < rows.length then x else rowAt rows k := by
  simp only [rowAt, List.getD_eq_getElem?_getD, List.getElem?_set]
  by_cases h1 : i = k
  · subst h1
    by_cases h2 : i < rows.length
    · simp [h2]
    · simp [h2]
  · have : ¬ (k = i ∧ i < rows.length) := fun h => h1 h.1.symm
    simp [h1, this]

theorem rowAt_of_le (rows : List Nat) (i : Nat) (h : rows.length ≤ i) : rowAt rows i = 0 := by
  simp [rowAt, List.getD_eq_getElem?_getD, List.getElem?_eq_none h]

@[simp] theorem length_addRow (rows : List Nat) (i p : Nat) : (addRow rows i p).length = rows.length := by
  simp [addRow]

@[simp] theorem length_swapRows (rows : List Nat) (i j : Nat) : (swapRows rows i j).length = rows.length := by
  simp [swapRows]

theorem rowAt_addRow (rows : List Nat) (i p k : Nat) (hi : i < rows.length) :
    rowAt (addRow rows i p) k = if k = i then rowAt rows i ^^^ rowAt rows p else rowAt rows k := by
  simp [addRow, rowAt_set, hi]

theorem rowAt_swapRows (rows : List Nat) (i j k : Nat) (hi : i < rows.length) (hj : j < rows.length) :
    rowAt (swapRows rows i j) k =
      if k = j then rowAt rows i else if k = i then rowAt rows j else rowAt rows k := by
  simp [swapRows, rowAt_set, hi, hj]

/-- a predicate on integer rows that is closed under the row operations -/
structure XorClosed (P : Nat → Prop) : Prop where
  zero : P 0
  xor : ∀ a b, P a → P b → P (a ^^^ b)

def AllP (P : Nat → Prop) (rows : List Nat) : Prop := ∀ r ∈ rows, P r

theorem AllP.at_ {P : Nat → Prop} (hP : XorClosed P) {rows : List Nat} (h : AllP P rows) (i : Nat) :
    P (rowAt rows i) := by
  by_cases hi : i < rows.length
  · have : rowAt rows i = rows[i] := by simp [rowAt, List.getD_eq_getElem?_getD, hi]
    rw [this]
    exact h _ (List.getElem_mem hi)
  · rw [rowAt_of_le _ _ (Nat.le_of_not_lt hi)]
    exact hP.zero

theorem AllP.setRow {P : Nat → Prop} {rows : List Nat} (h : AllP P rows) (i x : Nat) (hx : P x) :
    AllP P (rows.set i x) := by
  intro r hr
  rcases List.mem_or_eq_of_mem_set hr with h1 | h1
  · exact h r h1
  · rw [h1]; exact hx

theorem AllP.add {P : Nat → Prop} (hP : XorClosed P) {rows : List Nat} (h : AllP P rows) (i p : Nat) :
    AllP P (addRow rows i p) :=
  h.setRow _ _ (hP.xor _ _ (h.at_ hP i) (h.at_ hP p))

theorem AllP.swap {P : Nat → Prop} (hP : XorClosed P) {rows : List Nat} (h : AllP P rows) (i j : Nat) :
    AllP P (swapRows rows i j) :=
  (h.setRow _ _ (h.at_ hP j)).setRow _ _ (h.at_ hP i)

/-- what every loop of `inverse` preserves: the number of rows and any xor-closed row predicate -/
def Keeps (P : Nat → Prop) (st st' : GJ) : Prop :=
  st'.rows.length = st.rows.length ∧ (AllP P st.rows → AllP P st'.rows)

theorem Keeps.refl (P : Nat → Prop) (st : GJ) : Keeps P st st := ⟨rfl, id⟩

theorem Keeps.trans {P : Nat → Prop} {a b c : GJ} (h1 : Keeps P a b) (h2 : Keeps P b c) : Keeps P a c :=
  ⟨h2.1.trans h1.1, fun h => h2.2 (h1.2 h)⟩

theorem elimOne_keeps {P : Nat → Prop} (hP : XorClosed P) {j i : Nat} {val : Bool} {st st' : GJ}
    (h : elimOne j i val st = .ok st') : Keeps P st st' := by
  unfold elimOne at h
  split at h
  · cases hp : st.piv with
    | none => simp [hp] at h
    | some p =>
      simp only [hp, pure, Except.pure, Except.ok.injEq] at h
      subst h
      exact ⟨by simp, fun hA => hA.add hP i p⟩
  · simp only [pure, Except.pure, Except.ok.injEq] at h
    subst h
    exact Keeps.refl P st

theorem elimUp_keeps {P : Nat → Prop} (hP : XorClosed P) {j : Nat} (k : Nat) {i : Nat} {st st' : GJ}
    (h : elimUp j i k st = .ok st') : Keeps P st st' := by
  induction k generalizing i st with
  | zero =>
    simp only [elimUp, pure, Except.pure, Except.ok.injEq] at h
    subst h
    exact Keeps.refl P st
  | succ k ih =>
    simp only [elimUp] at h
    obtain ⟨st1, h1, h2⟩ := bind_ok h
    exact (elimOne_keeps hP h1).trans (ih h2)

theorem pivotUp_keeps {P : Nat → Prop} (hP : XorClosed P) (n j : Nat) (st : GJ) : Keeps P st (pivotUp n j st) := by
  unfold pivotUp
  split
  · rename_i i _
    by_cases hij : i = j
    · simp [hij]
      exact ⟨rfl, id⟩
    · have : (i != j) = true := by simp [hij]
      simp only [this, ↓reduceIte]
      exact ⟨by simp, fun hA => hA.swap hP i j⟩
  · exact Keeps.refl P st

theorem fwdCol_keeps {P : Nat → Prop} (hP : XorClosed P) {n j : Nat} {st st' : GJ}
    (h : fwdCol n j st = .ok st') : Keeps P st st' :=
  (pivotUp_keeps hP n j st).trans (elimUp_keeps hP _ h)

theorem fwd_keeps {P : Nat → Prop} (hP : XorClosed P) {n : Nat} (k : Nat) {j : Nat} {st st' : GJ}
    (h : fwd n j k st = .ok st') : Keeps P st st' := by
  induction k generalizing j st with
  | zero =>
    simp only [fwd, pure, Except.pure, Except.ok.injEq] at h
    subst h
    exact Keeps.refl P st
  | succ k ih =>
    simp only [fwd] at h
    obtain ⟨st1, h1, h2⟩ := bind_ok h
    exact (fwdCol_keeps hP h1).trans (ih h2)

theorem pivotDown_rows (n j : Nat) (st : GJ) : (pivotDown n j st).rows = st.rows := by
  unfold pivotDown
  split <;> rfl

theorem elimDown_keeps {P : Nat → Prop} (hP : XorClosed P) {j : Nat} (i : Nat) {st st' : GJ}
    (h : elimDown j i st = .ok st') : Keeps P st st' := by
  induction i generalizing st with
  | zero =>
    simp only [elimDown, pure, Except.pure, Except.ok.injEq] at h
    subst h
    exact Keeps.refl P st
  | succ i ih =>
    simp only [elimDown] at h
    obtain ⟨st1, h1, h2⟩ := bind_ok h
    exact (elimOne_keeps hP h1).trans (ih h2)

theorem bwd_keeps {P : Nat → Prop} (hP : XorClosed P) {n : Nat} (j : Nat) {st st' : GJ}
    (h : bwd n j st = .ok st') : Keeps P st st' := by
  induction j generalizing st with
  | zero =>
    simp only [bwd, pure, Except.pure, Except.ok.injEq] at h
    subst h
    exact Keeps.refl P st
  | succ j ih =>
    simp only [bwd] at h
    obtain ⟨st1, h1, h2⟩ := bind_ok h
    have hk := elimDown_keeps hP j h1
    have hk' : Keeps P st st1 := ⟨by rw [hk.1, pivotDown_rows], fun hA => hk.2 (by rw [pivotDown_rows]; exact hA)⟩
    exact hk'.trans (ih h2)

theorem gaussJordan_keeps {P : Nat → Prop} (hP : XorClosed P) {n : Nat} {rows rows' : List Nat}
    (h : gaussJordan n rows = .ok rows') : rows'.length = rows.length ∧ (AllP P rows → AllP P rows') := by
  simp only [gaussJordan] at h
  obtain ⟨st1, h1, h⟩ := bind_ok h
  obtain ⟨st2, h2, h⟩ := bind_ok h
  simp only [pure, Except.pure, Except.ok.injEq] at h
  subst h
  have k := (fwd_keeps hP n h1).trans (bwd_keeps hP n h2)
  exact k

/-! ## `inverse` on a square matrix: set-up, and the row-space invariant (no hypothesis on pivots) -/

theorem mk?_ok (rows : List BArr) (L : Nat) (h : ∀ r ∈ rows, r.len = L) : BMat.mk? rows = .ok rows := by
  cases rows with
  | nil => rfl
  | cons r0 rs =>
    have h0 : r0.len = L := h r0 (List.mem_cons_self)
    have : rs.all (fun r => r.len == r0.len) = true := by
      simp only [List.all_eq_true, beq_iff_eq]
      intro r hr
      rw [h r (List.mem_cons_of_mem _ hr), h0]
    simp [BMat.mk?, this, pure, Except.pure]

theorem squareWf_spec {mat : BMat} (h : squareWf mat = true) :
    ∀ r ∈ mat, r.len = mat.length ∧ r.b < 2 ^ mat.length := by
  simp only [squareWf, List.all_eq_true, Bool.and_eq_true, beq_iff_eq, decide_eq_true_eq] at h
  exact h

theorem zipChain_eye (n : Nat) (mat : List BArr) (i : Nat) (hlen : ∀ r ∈ mat, r.len = n) (hi : i + mat.length ≤ n) :
    (zipChain mat (eyeFrom n i mat.length)).map (·.b) = augRowsFrom n i (mat.map (·.b)) ∧
    (∀ r ∈ zipChain mat (eyeFrom n i mat.length), r.len = n + n) ∧
    (zipChain mat (eyeFrom n i mat.length)).length = mat.length := by
  induction mat generalizing i with
  | nil => simp [zipChain, augRowsFrom]
  | cons a as ih =>
    have ha : a.len = n := hlen a List.mem_cons_self
    have has : ∀ r ∈ as, r.len = n := fun r hr => hlen r (List.mem_cons_of_mem _ hr)
    simp only [List.length_cons] at hi
    obtain ⟨h1, h2, h3⟩ := ih (i + 1) has (by omega)
    have hpow : 2 ^ i % 2 ^ n = 2 ^ i := Nat.mod_eq_of_lt (Nat.pow_lt_pow_right (by decide) (by omega))
    refine ⟨?_, ?_, ?_⟩
    · simp only [List.length_cons, eyeFrom, zipChain, List.map_cons, augRowsFrom, h1, BArr.chain, ha, hpow]
    · intro r hr
      simp only [List.length_cons, eyeFrom, zipChain, List.mem_cons] at hr
      rcases hr with hr | hr
      · rw [hr]; simp [BArr.chain, ha]
      · exact h2 r hr
    · simp only [List.length_cons, eyeFrom, zipChain, h3]

theorem hstack_eye {mat : BMat} (h : squareWf mat = true) :
    ∃ aug, hstack mat (eye mat.length) = .ok aug ∧ aug.map (·.b) = augRows (mat.map (·.b)) ∧
      (∀ r ∈ aug, r.len = mat.length + mat.length) ∧ aug.length = mat.length := by
  have hs := squareWf_spec h
  obtain ⟨h1, h2, h3⟩ := zipChain_eye mat.length mat 0 (fun r hr => (hs r hr).1) (by omega)
  have hel : (eyeFrom mat.length 0 mat.length).length = mat.length := by
    generalize mat.length = n
    suffices ∀ k i, (eyeFrom n i k).length = k from this _ _
    intro k
    induction k with
    | zero => intro i; rfl
    | succ k ih => intro i; simp [eyeFrom, ih]
  refine ⟨zipChain mat (eyeFrom mat.length 0 mat.length), ?_, ?_, h2, h3⟩
  · simp only [hstack, eye, hel, bne_self_eq_false, Bool.false_eq_true, ↓reduceIte]
    exact mk?_ok _ _ h2
  · simpa [augRows] using h1

theorem rowAt_augRowsFrom (n i0 : Nat) (as : List Nat) (k : Nat) (hk : k < as.length) :
    rowAt (augRowsFrom n i0 as) k = rowAt as k % 2 ^ n + 2 ^ n * 2 ^ (i0 + k) := by
  induction as generalizing i0 k with
  | nil => simp at hk
  | cons a as ih =>
    cases k with
    | zero => simp [augRowsFrom, rowAt]
    | succ k =>
      simp only [List.length_cons] at hk
      have := ih (i0 + 1) k (by omega)
      simp only [rowAt, augRowsFrom, List.getD_cons_succ] at this ⊢
      rw [this]
      congr 3
      omega

theorem length_augRowsFrom (n i0 : Nat) (as : List Nat) : (augRowsFrom n i0 as).length = as.length := by
  induction as generalizing i0 with
  | nil => rfl
  | cons a as ih => simp [augRowsFrom, ih]

/-- the row-space predicate: the left block of an augmented row is the combination of the rows of `A`
    selected by its right block -/
def RowSpace (A : List Nat) (n : Nat) (r : Nat) : Prop :=
  r < 2 ^ (n + n) ∧ r % 2 ^ n = comb A (r / 2 ^ n)

theorem rowSpace_closed (A : List Nat) (n : Nat) : XorClosed (RowSpace A n) where
  zero := by
    refine ⟨Nat.two_pow_pos _, ?_⟩
    simp [comb_zero]
  xor := by
    intro a b ⟨ha1, ha2⟩ ⟨hb1, hb2⟩
    refine ⟨Nat.xor_lt_two_pow ha1 hb1, ?_⟩
    rw [Nat.xor_mod_two_pow, Nat.xor_div_two_pow, comb_xor, ha2, hb2]

theorem two_pow_succ_le {i n : Nat} (h : i < n) : 2 ^ i + 1 ≤ 2 ^ n :=
  Nat.pow_lt_pow_right (by decide) h

theorem augRow_facts (a n i : Nat) (ha : a < 2 ^ n) (hi : i < n) :
    a % 2 ^ n + 2 ^ n * 2 ^ i < 2 ^ (n + n) ∧ (a % 2 ^ n + 2 ^ n * 2 ^ i) % 2 ^ n = a ∧
      (a % 2 ^ n + 2 ^ n * 2 ^ i) / 2 ^ n = 2 ^ i := by
  have hpos : 0 < 2 ^ n := Nat.two_pow_pos n
  rw [Nat.mod_eq_of_lt ha]
  refine ⟨?_, ?_, ?_⟩
  · have h1 : a + 2 ^ n * 2 ^ i < 2 ^ n * (2 ^ i + 1) := by
      rw [Nat.mul_add, Nat.mul_one]; omega
    have h2 : 2 ^ n * (2 ^ i + 1) ≤ 2 ^ n * 2 ^ n := Nat.mul_le_mul_left _ (two_pow_succ_le hi)
    rw [Nat.pow_add]
    omega
  · rw [Nat.add_mul_mod_self_left, Nat.mod_eq_of_lt ha]
  · rw [Nat.add_mul_div_left _ _ hpos, Nat.div_eq_of_lt ha, Nat.zero_add]

theorem augRows_rowSpace (A : List Nat) (hA : ∀ a ∈ A, a < 2 ^ A.length) :
    AllP (RowSpace A A.length) (augRows A) := by
  intro r hr
  obtain ⟨k, hk, hrk⟩ := List.getElem_of_mem hr
  have hk' : k < A.length := by simpa [augRows, length_augRowsFrom] using hk
  have hrow : r = rowAt (augRows A) k := by
    simp [rowAt, List.getD_eq_getElem?_getD, hk, hrk]
  have hAk : rowAt A k < 2 ^ A.length := by
    have : rowAt A k = A[k] := by simp [rowAt, List.getD_eq_getElem?_getD, hk']
    rw [this]; exact hA _ (List.getElem_mem hk')
  rw [hrow, augRows, rowAt_augRowsFrom _ _ _ _ hk', Nat.zero_add]
  obtain ⟨f1, f2, f3⟩ := augRow_facts (rowAt A k) A.length k hAk hk'
  exact ⟨f1, by rw [f2, f3, comb_two_pow]⟩

theorem zipRows_dropLow (n : Nat) (aug : List BArr) (rows : List Nat) (hl : aug.length = rows.length)
    (ha : ∀ r ∈ aug, r.len = n + n) :
    (zipRows aug rows).map (fun r => r.dropLow n) = rows.map fun b => (⟨b % 2 ^ (n + n) / 2 ^ n, n⟩ : BArr) := by
  induction aug generalizing rows with
  | nil =>
    cases rows with
    | nil => rfl
    | cons _ _ => simp at hl
  | cons a as ih =>
    cases rows with
    | nil => simp at hl
    | cons b bs =>
      have h1 : a.len = n + n := ha a List.mem_cons_self
      simp only [zipRows, List.map_cons]
      rw [ih bs (by simpa using hl) (fun r hr => ha r (List.mem_cons_of_mem _ hr))]
      simp [BArr.dropLow, h1]

/-- unfolding `inverse` on a square matrix: it fails exactly when Gauss–Jordan fails, and otherwise the
    result rows are the right blocks of the final augmented rows -/
theorem inverse_square {mat : BMat} (hwf : squareWf mat = true) :
    (∀ e, gaussJordan mat.length (augRows (mat.map (·.b))) = .error e → inverse mat = .error e) ∧
    (∀ rows, gaussJordan mat.length (augRows (mat.map (·.b))) = .ok rows →
      inverse mat = .ok (rows.map fun b => (⟨b % 2 ^ (mat.length + mat.length) / 2 ^ mat.length, mat.length⟩ : BArr))) := by
  obtain ⟨aug, h1, h2, h3, h4⟩ := hstack_eye hwf
  constructor
  · intro e he
    simp [inverse, inverseAug, h1, h2, he, bind, Except.bind]
  · intro rows hr
    have hlen : rows.length = mat.length := by
      have := (gaussJordan_keeps (rowSpace_closed [] 0) hr).1
      simpa [augRows, length_augRowsFrom] using this
    have hz := zipRows_dropLow mat.length aug rows (by omega) h3
    simp only [inverse, inverseAug, h1, h2, hr, bind, Except.bind, pure, Except.pure, hz]
    exact mk?_ok _ mat.length (by simp)

/-- T1 (no hypothesis on pivots, singular input included): every row `Bᵢ` of the result of `inverse`
    selects a combination of the rows of the input that equals the left block of the final augmented row -/
theorem inverse_rowspace {mat B : BMat} (hwf : squareWf mat = true) (h : inverse mat = .ok B) :
    ∃ rows, gaussJordan mat.length (augRows (mat.map (·.b))) = .ok rows ∧ rows.length = mat.length ∧
      B = rows.map (fun b => (⟨b / 2 ^ mat.length, mat.length⟩ : BArr)) ∧
      ∀ i, comb (mat.map (·.b)) (rowAt (B.map (·.b)) i) = rowAt rows i % 2 ^ mat.length := by
  obtain ⟨hE, hO⟩ := inverse_square hwf
  cases hg : gaussJordan mat.length (augRows (mat.map (·.b))) with
  | error e => rw [hE e hg] at h; cases h
  | ok rows =>
    have hA : ∀ a ∈ mat.map (·.b), a < 2 ^ (mat.map (·.b)).length := by
      intro a ha
      obtain ⟨r, hr, rfl⟩ := List.mem_map.mp ha
      simpa using (squareWf_spec hwf r hr).2
    have hinit := augRows_rowSpace (mat.map (·.b)) hA
    simp only [List.length_map] at hinit
    obtain ⟨hlen, hkeep⟩ := gaussJordan_keeps (rowSpace_closed (mat.map (·.b)) mat.length) hg
    have hfin := hkeep hinit
    have hB : B = rows.map (fun b => (⟨b / 2 ^ mat.length, mat.length⟩ : BArr)) := by
      rw [hO rows hg] at h
      injection h with h
      rw [← h]
      apply List.map_congr_left
      intro b hb
      rw [Nat.mod_eq_of_lt (hfin b hb).1]
    refine ⟨rows, rfl, by simpa [augRows, length_augRowsFrom] using hlen, hB, ?_⟩
    intro i
    have hrow : rowAt (B.map (·.b)) i = rowAt rows i / 2 ^ mat.length := by
      rw [hB]
      simp only [rowAt, List.map_map, List.getD_eq_getElem?_getD, List.getElem?_map]
      cases rows[i]? <;> simp
    rw [hrow]
    exact ((hfin.at_ (rowSpace_closed _ _) i).2).symm

/-! ## forward elimination when every pivot is found: the left block becomes unit upper triangular -/

theorem findUp_spec {rows : List Nat} {j : Nat} (k : Nat) {i i0 : Nat} (h : findUp rows j i k = some i0) :
    i ≤ i0 ∧ i0 < i + k ∧ (rowAt rows i0).testBit j = true := by
  induction k generalizing i with
  | zero => simp [findUp] at h
  | succ k ih =>
    simp only [findUp] at h
    split at h
    · injection h with h
      subst h
      exact ⟨Nat.le_refl _, by omega, by assumption⟩
    · obtain ⟨a, b, c⟩ := ih h
      exact ⟨by omega, by omega, c⟩

/-- a predicate on the row list preserved by adding one row to a *different* row and by exchanging two rows -/
structure OpClosed (Q : List Nat → Prop) : Prop where
  add : ∀ rows i p, i < rows.length → p < rows.length → i ≠ p → Q rows → Q (addRow rows i p)
  swap : ∀ rows i j, i < rows.length → j < rows.length → i ≠ j → Q rows → Q (swapRows rows i j)

theorem opClosed_true : OpClosed (fun _ => True) := ⟨fun _ _ _ _ _ _ _ => trivial, fun _ _ _ _ _ _ _ => trivial⟩

structure FwdInv (Q : List Nat → Prop) (n j i : Nat) (st : GJ) : Prop where
  len : st.rows.length = n
  piv : st.piv = some j
  tri : ∀ c, c < j → ∀ r, c ≤ r → r < n → (rowAt st.rows r).testBit c = decide (r = c)
  pj : (rowAt st.rows j).testBit j = true
  cleared : ∀ r, j < r → r < i → (rowAt st.rows r).testBit j = false
  q : Q st.rows

theorem elimUp_fwd {Q : List Nat → Prop} (hQ : OpClosed Q) {n j : Nat} (hj : j < n) (k : Nat) {i : Nat} {st : GJ}
    (hinv : FwdInv Q n j i st)
    (hji : j ≤ i) (hik : i + k = n) : ∃ st', elimUp j i k st = .ok st' ∧ FwdInv Q n j n st' := by
  induction k generalizing i st with
  | zero =>
    have : i = n := by omega
    subst this
    exact ⟨st, rfl, hinv⟩
  | succ k ih =>
    simp only [elimUp]
    by_cases hij : i = j
    · -- the pivot row itself: bit is set, nothing happens
      subst hij
      have h1 : elimOne i i (i == i) st = .ok st := by
        simp [elimOne, hinv.pj, pure, Except.pure]
      simp only [h1, bind, Except.bind]
      exact ih ⟨hinv.len, hinv.piv, hinv.tri, hinv.pj, fun r h1 h2 => by omega, hinv.q⟩ (by omega) (by omega)
    · have hlt : j < i := by omega
      have hval : (i == j) = false := by simp [hij]
      by_cases hbit : (rowAt st.rows i).testBit j = true
      · have h1 : elimOne j i (i == j) st = .ok { st with rows := addRow st.rows i j } := by
          simp [elimOne, hval, hbit, hinv.piv, pure, Except.pure]
        simp only [h1, bind, Except.bind]
        have hi : i < st.rows.length := by rw [hinv.len]; omega
        refine ih ⟨by simp [hinv.len], hinv.piv, ?_, ?_, ?_,
          hQ.add _ i j hi (by rw [hinv.len]; exact hj) hij hinv.q⟩ (by omega) (by omega)
        · intro c hc r hcr hr
          simp only [rowAt_addRow _ _ _ _ hi]
          by_cases hri : r = i
          · subst hri
            simp only [↓reduceIte, Nat.testBit_xor]
            rw [hinv.tri c hc r hcr hr, hinv.tri c hc j (by omega) hj]
            have h1 : decide (r = c) = false := by simp; omega
            have h2 : decide (j = c) = false := by simp; omega
            simp [h1, h2]
          · simp only [hri, ↓reduceIte]
            exact hinv.tri c hc r hcr hr
        · simp only [rowAt_addRow _ _ _ _ hi]
          have : ¬ j = i := by omega
          simp only [this, ↓reduceIte]
          exact hinv.pj
        · intro r h1 h2
          simp only [rowAt_addRow _ _ _ _ hi]
          by_cases hri : r = i
          · subst hri
            simp [hbit, hinv.pj]
          · simp only [hri, ↓reduceIte]
            exact hinv.cleared r h1 (by omega)
      · have hbit' : (rowAt st.rows i).testBit j = false := by simpa using hbit
        have h1 : elimOne j i (i == j) st = .ok st := by
          simp [elimOne, hval, hbit', pure, Except.pure]
        simp only [h1, bind, Except.bind]
        refine ih ⟨hinv.len, hinv.piv, hinv.tri, hinv.pj, ?_, hinv.q⟩ (by omega) (by omega)
        intro r h1 h2
        by_cases hri : r = i
        · subst hri; exact hbit'
        · exact hinv.cleared r h1 (by omega)

/-- the left block is unit upper triangular in its first `j` columns -/
def UpTo (Q : List Nat → Prop) (n j : Nat) (rows : List Nat) : Prop :=
  rows.length = n ∧ (∀ c, c < j → ∀ r, c ≤ r → r < n → (rowAt rows r).testBit c = decide (r = c)) ∧ Q rows

theorem fwdCol_found {Q : List Nat → Prop} (hQ : OpClosed Q) {n j : Nat} (hj : j < n) {st : GJ}
    (hU : UpTo Q n j st.rows) {i0 : Nat}
    (hf : findUp st.rows j j (n - j) = some i0) :
    ∃ st', fwdCol n j st = .ok st' ∧ UpTo Q n (j + 1) st'.rows ∧ st'.piv = some j := by
  obtain ⟨hlen, htri, hq⟩ := hU
  obtain ⟨h1, h2, h3⟩ := findUp_spec _ hf
  have hi0 : i0 < n := by omega
  -- state after the pivot search
  have hinv : FwdInv Q n j j (pivotUp n j st) := by
    simp only [pivotUp, hf]
    by_cases hij : i0 = j
    · subst hij
      simp only [bne_self_eq_false, Bool.false_eq_true, ↓reduceIte]
      exact ⟨hlen, rfl, htri, h3, fun r a b => by omega, hq⟩
    · have hne : (i0 != j) = true := by simp [hij]
      simp only [hne, ↓reduceIte]
      have hi0' : i0 < st.rows.length := by omega
      have hj' : j < st.rows.length := by omega
      refine ⟨by simp [hlen], rfl, ?_, ?_, fun r a b => by omega, hQ.swap _ i0 j hi0' hj' hij hq⟩
      · intro c hc r hcr hr
        simp only [rowAt_swapRows _ _ _ _ hi0' hj']
        by_cases hrj : r = j
        · subst hrj
          simp only [↓reduceIte]
          rw [htri c hc i0 (by omega) hi0]
          have a1 : decide (i0 = c) = false := by simp; omega
          have a2 : decide (r = c) = false := by simp; omega
          rw [a1, a2]
        · by_cases hri : r = i0
          · subst hri
            simp only [hrj, ↓reduceIte]
            rw [htri c hc j (by omega) hj]
            have a1 : decide (j = c) = false := by simp; omega
            have a2 : decide (r = c) = false := by simp; omega
            rw [a1, a2]
          · simp only [hrj, hri, ↓reduceIte]
            exact htri c hc r hcr hr
      · simp only [rowAt_swapRows _ _ _ _ hi0' hj', ↓reduceIte]
        exact h3
  obtain ⟨st', he, hfin⟩ := elimUp_fwd hQ hj (n - j) hinv (Nat.le_refl _) (by omega)
  refine ⟨st', he, ⟨hfin.len, ?_, hfin.q⟩, hfin.piv⟩
  intro c hc r hcr hr
  by_cases hcj : c = j
  · subst hcj
    by_cases hrc : r = c
    · subst hrc; simp [hfin.pj]
    · rw [hfin.cleared r (by omega) hr]; simp [hrc]
  · exact hfin.tri c (by omega) r hcr hr

theorem fwd_pivots {Q : List Nat → Prop} (hQ : OpClosed Q) {n : Nat} (k : Nat) {j : Nat} {st : GJ}
    (hU : UpTo Q n j st.rows) (hjk : j + k = n)
    (hp : fwdPivots n j k st = true) :
    ∃ st', fwd n j k st = .ok st' ∧ UpTo Q n n st'.rows ∧ (0 < k → st'.piv.isSome) := by
  induction k generalizing j st with
  | zero =>
    have : j = n := by omega
    subst this
    exact ⟨st, rfl, hU, fun h => by omega⟩
  | succ k ih =>
    simp only [fwdPivots, Bool.and_eq_true] at hp
    obtain ⟨hsome, hrest⟩ := hp
    obtain ⟨i0, hi0⟩ := Option.isSome_iff_exists.mp hsome
    obtain ⟨st1, h1, hU1, hp1⟩ := fwdCol_found hQ (by omega : j < n) hU hi0
    simp only [h1] at hrest
    obtain ⟨st', h2, hU2, hp2⟩ := ih hU1 (by omega) hrest
    refine ⟨st', ?_, hU2, ?_⟩
    · simp only [fwd, h1, bind, Except.bind]
      exact h2
    · intro _
      cases k with
      | zero =>
        simp only [fwd, pure, Except.pure, Except.ok.injEq] at h2
        subst h2
        simp [hp1]
      | succ k => exact hp2 (by omega)

/-! ## backward elimination on a unit upper triangular left block: it becomes the identity -/

structure BwdInv (Q : List Nat → Prop) (n j : Nat) (rows : List Nat) : Prop where
  len : rows.length = n
  tri : ∀ c, c < n → ∀ r, c ≤ r → r < n → (rowAt rows r).testBit c = decide (r = c)
  /-- columns `≥ j` are already clear above the diagonal -/
  up : ∀ c, j ≤ c → c < n → ∀ r, r < c → (rowAt rows r).testBit c = false
  q : Q rows

theorem findDown_tri {n j : Nat} {rows : List Nat} (hj : j < n)
    (htri : ∀ r, j ≤ r → r < n → (rowAt rows r).testBit j = decide (r = j)) (hi : Nat) (h1 : j < hi) (h2 : hi ≤ n) :
    findDown rows j j hi = some j := by
  induction hi with
  | zero => omega
  | succ hi ih =>
    simp only [findDown]
    have hlt : ¬ hi < j := by omega
    simp only [hlt, ↓reduceIte]
    by_cases hhj : hi = j
    · subst hhj
      simp [htri hi (Nat.le_refl _) hj]
    · have : (rowAt rows hi).testBit j = false := by
        rw [htri hi (by omega) (by omega)]; simp [hhj]
      simp only [this, Bool.false_eq_true, ↓reduceIte]
      exact ih (by omega) (by omega)

structure DownInv (Q : List Nat → Prop) (n j i : Nat) (st : GJ) : Prop where
  len : st.rows.length = n
  piv : st.piv = some j
  tri : ∀ c, c < n → ∀ r, c ≤ r → r < n → (rowAt st.rows r).testBit c = decide (r = c)
  up : ∀ c, j < c → c < n → ∀ r, r < c → (rowAt st.rows r).testBit c = false
  cleared : ∀ r, i ≤ r → r < j → (rowAt st.rows r).testBit j = false
  q : Q st.rows

theorem elimDown_bwd {Q : List Nat → Prop} (hQ : OpClosed Q) {n j : Nat} (hj : j < n) (i : Nat) {st : GJ}
    (hinv : DownInv Q n j i st) (hij : i ≤ j) :
    ∃ st', elimDown j i st = .ok st' ∧ DownInv Q n j 0 st' := by
  induction i generalizing st with
  | zero => exact ⟨st, rfl, hinv⟩
  | succ i ih =>
    simp only [elimDown]
    by_cases hbit : (rowAt st.rows i).testBit j = true
    · have h1 : elimOne j i false st = .ok { st with rows := addRow st.rows i j } := by
        simp [elimOne, hbit, hinv.piv, pure, Except.pure]
      simp only [h1, bind, Except.bind]
      have hi : i < st.rows.length := by rw [hinv.len]; omega
      -- the pivot row is the unit vector e_j on the left block
      have hrowj : ∀ c, c < n → (rowAt st.rows j).testBit c = decide (j = c) := by
        intro c hc
        by_cases hcj : c ≤ j
        · exact hinv.tri c hc j hcj hj
        · rw [hinv.up c (by omega) hc j (by omega)]
          have : ¬ j = c := by omega
          simp [this]
      refine ih ⟨by simp [hinv.len], hinv.piv, ?_, ?_, ?_,
        hQ.add _ i j hi (by rw [hinv.len]; exact hj) (by omega) hinv.q⟩ (by omega)
      · intro c hc r hcr hr
        simp only [rowAt_addRow _ _ _ _ hi]
        by_cases hri : r = i
        · subst hri
          simp only [↓reduceIte, Nat.testBit_xor, hrowj c hc, hinv.tri c hc r hcr hr]
          have : ¬ j = c := by omega
          simp [this]
        · simp only [hri, ↓reduceIte]
          exact hinv.tri c hc r hcr hr
      · intro c hjc hc r hrc
        simp only [rowAt_addRow _ _ _ _ hi]
        by_cases hri : r = i
        · subst hri
          simp only [↓reduceIte, Nat.testBit_xor, hrowj c hc, hinv.up c hjc hc r hrc]
          have : ¬ j = c := by omega
          simp [this]
        · simp only [hri, ↓reduceIte]
          exact hinv.up c hjc hc r hrc
      · intro r h1 h2
        simp only [rowAt_addRow _ _ _ _ hi]
        by_cases hri : r = i
        · subst hri
          simp [hbit, hrowj j hj]
        · simp only [hri, ↓reduceIte]
          exact hinv.cleared r (by omega) h2
    · have hbit' : (rowAt st.rows i).testBit j = false := by simpa using hbit
      have h1 : elimOne j i false st = .ok st := by
        simp [elimOne, hbit', pure, Except.pure]
      simp only [h1, bind, Except.bind]
      refine ih ⟨hinv.len, hinv.piv, hinv.tri, hinv.up, ?_, hinv.q⟩ (by omega)
      intro r h1 h2
      by_cases hri : r = i
      · subst hri; exact hbit'
      · exact hinv.cleared r (by omega) h2

theorem bwd_tri {Q : List Nat → Prop} (hQ : OpClosed Q) {n : Nat} (j : Nat) {st : GJ}
    (hinv : BwdInv Q n j st.rows) (hjn : j ≤ n) :
    ∃ st', bwd n j st = .ok st' ∧ BwdInv Q n 0 st'.rows := by
  induction j generalizing st with
  | zero => exact ⟨st, rfl, hinv⟩
  | succ j ih =>
    have hj : j < n := by omega
    have hfd : findDown st.rows j j n = some j :=
      findDown_tri hj (fun r a b => hinv.tri j hj r a b) n hj (Nat.le_refl _)
    have hpd : pivotDown n j st = { st with piv := some j } := by simp [pivotDown, hfd]
    have hd : DownInv Q n j j (pivotDown n j st) := by
      rw [hpd]
      exact ⟨hinv.len, rfl, hinv.tri, fun c a b r d => hinv.up c (by omega) b r d, fun r a b => by omega, hinv.q⟩
    obtain ⟨st1, h1, hfin⟩ := elimDown_bwd hQ hj j hd (Nat.le_refl _)
    have hb : BwdInv Q n j st1.rows := by
      refine ⟨hfin.len, hfin.tri, ?_, hfin.q⟩
      intro c hjc hc r hrc
      by_cases hcj : c = j
      · subst hcj; exact hfin.cleared r (Nat.zero_le _) hrc
      · exact hfin.up c (by omega) hc r hrc
    obtain ⟨st', h2, hfin'⟩ := ih hb (by omega)
    refine ⟨st', ?_, hfin'⟩
    simp only [bwd, h1, bind, Except.bind]
    exact h2

theorem bwdInv_zero_identity {Q : List Nat → Prop} {n : Nat} {rows : List Nat} (h : BwdInv Q n 0 rows)
    (r : Nat) (hr : r < n) :
    rowAt rows r % 2 ^ n = 2 ^ r := by
  apply Nat.eq_of_testBit_eq
  intro c
  rw [Nat.testBit_mod_two_pow, Nat.testBit_two_pow]
  by_cases hc : c < n
  · simp only [hc, decide_true, Bool.true_and]
    by_cases hcr : c ≤ r
    · exact h.tri c hc r hcr hr
    · rw [h.up c (Nat.zero_le _) hc r (by omega)]
      have : ¬ r = c := by omega
      simp [this]
  · have : ¬ r = c := by omega
    simp [hc, this]

/-- Gauss–Jordan with every pivot found: no exception, and the left block ends as the identity -/
theorem gaussJordan_pivots {Q : List Nat → Prop} (hQ : OpClosed Q) {n : Nat} {rows : List Nat}
    (hlen : rows.length = n) (hq : Q rows)
    (hp : fwdPivots n 0 n ⟨rows, none⟩ = true) :
    ∃ rows', gaussJordan n rows = .ok rows' ∧ rows'.length = n ∧ (∀ r, r < n → rowAt rows' r % 2 ^ n = 2 ^ r) ∧
      Q rows' := by
  have hU : UpTo Q n 0 (⟨rows, none⟩ : GJ).rows := ⟨hlen, fun c hc => by omega, hq⟩
  obtain ⟨st1, h1, hU1, _⟩ := fwd_pivots hQ n hU (by omega) hp
  have hb : BwdInv Q n n st1.rows := ⟨hU1.1, hU1.2.1, fun c a b => by omega, hU1.2.2⟩
  obtain ⟨st2, h2, hfin⟩ := bwd_tri hQ n hb (Nat.le_refl _)
  refine ⟨st2.rows, ?_, hfin.len, fun r hr => bwdInv_zero_identity hfin r hr, hfin.q⟩
  simp only [gaussJordan, h1, h2, bind, Except.bind, pure, Except.pure]

theorem leftIdOn_of {nq : Nat} {T M : List Nat} (h : ∀ r, r < nq → comb M (rowAt T r) = 2 ^ r) :
    leftIdOn nq T M = true := by
  simp only [leftIdOn, List.all_eq_true, List.mem_range, beq_iff_eq]
  exact h

/-- T2: on a square matrix for which the first loop nest finds every pivot, `inverse` returns (no
    exception) a square matrix `B` with `B · mat = 1` -/
theorem inverse_sound_core {mat : BMat} (hwf : squareWf mat = true) (hp : pivotsFound (mat.map (·.b)) = true) :
    ∃ B, inverse mat = .ok B ∧ B.length = mat.length ∧ squareWf B = true ∧
      leftIdOn mat.length (B.map (·.b)) (mat.map (·.b)) = true := by
  have hlenA : (augRows (mat.map (·.b))).length = mat.length := by simp [augRows, length_augRowsFrom]
  simp only [pivotsFound, List.length_map] at hp
  obtain ⟨rows', hg, hlen', hid, _⟩ := gaussJordan_pivots opClosed_true hlenA trivial hp
  obtain ⟨_, hO⟩ := inverse_square hwf
  have hinv := hO rows' hg
  obtain ⟨rows, hg2, _, hB, hcomb⟩ := inverse_rowspace hwf hinv
  rw [hg] at hg2
  injection hg2 with hg2
  subst hg2
  refine ⟨_, hinv, by simp [hlen'], ?_, ?_⟩
  · -- shape of the result
    have hA : ∀ a ∈ mat.map (·.b), a < 2 ^ (mat.map (·.b)).length := by
      intro a ha
      obtain ⟨r, hr, rfl⟩ := List.mem_map.mp ha
      simpa using (squareWf_spec hwf r hr).2
    have hinit := augRows_rowSpace (mat.map (·.b)) hA
    simp only [List.length_map] at hinit
    have hfin := (gaussJordan_keeps (rowSpace_closed (mat.map (·.b)) mat.length) hg).2 hinit
    simp only [squareWf, List.all_eq_true, Bool.and_eq_true, beq_iff_eq, decide_eq_true_eq, List.length_map, hlen']
    intro r hr
    obtain ⟨b, hb, rfl⟩ := List.mem_map.mp hr
    refine ⟨rfl, ?_⟩
    have hlt := (hfin b hb).1
    rw [Nat.mod_eq_of_lt hlt]
    apply Nat.div_lt_of_lt_mul
    rw [← Nat.pow_add]
    exact hlt
  · apply leftIdOn_of
    intro r hr
    rw [hcomb r, hid r hr]

/-! ## the Jordan–Wigner post-selection filter -/

theorem countBelow_succ_front (p : Nat → Bool) (k : Nat) :
    countBelow p (k + 1) = (if p 0 then 1 else 0) + countBelow (fun i => p (i + 1)) k := by
  simp only [countBelow, List.range_succ_eq_map, List.filter_cons, List.filter_map]
  cases p 0 <;> simp [Function.comp_def] <;> omega

theorem countBelow_succ_back (p : Nat → Bool) (k : Nat) :
    countBelow p (k + 1) = countBelow p k + (if p k then 1 else 0) := by
  simp only [countBelow, List.range_succ, List.filter_append, List.length_append, List.filter_cons, List.filter_nil]
  cases p k <;> simp

theorem countBelow_extend (p : Nat → Bool) (L N : Nat) (hLN : L ≤ N) (hp : ∀ i, L ≤ i → p i = false) :
    countBelow p N = countBelow p L := by
  induction N with
  | zero =>
    have : L = 0 := by omega
    subst this; rfl
  | succ N ih =>
    by_cases h : L = N + 1
    · subst h; rfl
    · rw [countBelow_succ_back, hp N (by omega), ih (by omega)]
      simp

theorem countBelow_congr (p q : Nat → Bool) (N : Nat) (h : ∀ i, p i = q i) : countBelow p N = countBelow q N := by
  have : p = q := funext h
  rw [this]

theorem countTrue_cons (x : Bool) (xs : List Bool) : countTrue (x :: xs) = (if x then 1 else 0) + countTrue xs := by
  cases x <;> simp [countTrue] <;> omega

theorem countTrue_eq_countBelow (ds : List Bool) :
    countTrue ds = countBelow (fun i => ds.getD i false) ds.length := by
  induction ds with
  | nil => rfl
  | cons x xs ih =>
    rw [countTrue_cons, List.length_cons, countBelow_succ_front, ih]
    simp

theorem evens_cons (x : Bool) (xs : List Bool) : evens (x :: xs) = x :: odds xs := by
  cases xs with
  | nil => rfl
  | cons y ys => rfl

theorem evens_odds_count (ds : List Bool) :
    countTrue (evens ds) = countBelow (fun i => i % 2 == 0 && ds.getD i false) ds.length ∧
    countTrue (odds ds) = countBelow (fun i => i % 2 == 1 && ds.getD i false) ds.length := by
  induction ds with
  | nil => exact ⟨rfl, rfl⟩
  | cons x xs ih =>
    obtain ⟨ihe, iho⟩ := ih
    constructor
    · rw [evens_cons, countTrue_cons, iho, List.length_cons, countBelow_succ_front]
      have hc : countBelow (fun i => (i + 1) % 2 == 0 && (x :: xs).getD (i + 1) false) xs.length =
          countBelow (fun i => i % 2 == 1 && xs.getD i false) xs.length := by
        apply countBelow_congr
        intro i
        have : ((i + 1) % 2 == 0) = (i % 2 == 1) := by
          rcases Nat.mod_two_eq_zero_or_one i with h | h <;> simp [Nat.add_mod, h]
        simp [this]
      rw [hc]
      simp
    · rw [List.length_cons, countBelow_succ_front]
      simp only [odds, ihe]
      have h0 : ((0 % 2 == 1) && (x :: xs).getD 0 false) = false := by simp
      rw [h0]
      simp only [Bool.false_eq_true, ↓reduceIte, Nat.zero_add]
      apply countBelow_congr
      intro i
      have : ((i + 1) % 2 == 1) = (i % 2 == 0) := by
        rcases Nat.mod_two_eq_zero_or_one i with h | h <;> simp [Nat.add_mod, h]
      simp [this]

/-- the fuel of `bitsLE` suffices: the digit list has exactly the bits of `x` -/
theorem bitsLE_getD (f x i : Nat) (h : x < 2 ^ f) : (bitsLE f x).getD i false = x.testBit i := by
  induction f generalizing x i with
  | zero =>
    have : x = 0 := by simpa using h
    subst this
    simp [bitsLE]
  | succ f ih =>
    simp only [bitsLE]
    by_cases hx : x = 0
    · subst hx; simp
    · simp only [hx, ↓reduceIte]
      cases i with
      | zero => simp
      | succ i =>
        have : x / 2 < 2 ^ f := by
          rw [Nat.pow_succ] at h; omega
        simp only [List.getD_cons_succ, ih (x / 2) i this, Nat.testBit_succ]

theorem bits_count (q : Nat → Bool) (bits N : Nat) (hN : bits < 2 ^ N) :
    countBelow (fun i => q i && (bitsLE bits bits).getD i false) (bitsLE bits bits).length =
      countBelow (fun i => q i && bits.testBit i) N := by
  have hg : ∀ i, (bitsLE bits bits).getD i false = bits.testBit i :=
    fun i => bitsLE_getD bits bits i Nat.lt_two_pow_self
  have e1 : countBelow (fun i => q i && (bitsLE bits bits).getD i false) (bitsLE bits bits).length =
      countBelow (fun i => q i && bits.testBit i) (bitsLE bits bits).length :=
    countBelow_congr _ _ _ (fun i => by rw [hg i])
  rw [e1]
  have e2 := countBelow_extend (fun i => q i && bits.testBit i) (bitsLE bits bits).length
    ((bitsLE bits bits).length + N) (by omega) (by
      intro i hi
      have : bits.testBit i = false := by
        rw [← hg i]
        simp [List.getD_eq_getElem?_getD, List.getElem?_eq_none hi]
      simp [this])
  have e3 := countBelow_extend (fun i => q i && bits.testBit i) N
    ((bitsLE bits bits).length + N) (by omega) (by
      intro i hi
      have : bits.testBit i = false :=
        Nat.testBit_lt_two_pow (Nat.lt_of_lt_of_le hN (Nat.pow_le_pow_right (by decide) hi))
      simp [this])
  rw [← e2, e3]

theorem jw_filter_spec_core (ne : Nat) (sz2 : Option Int) (bits N : Nat) (hN : bits < 2 ^ N) :
    jwFilter ne sz2 bits = true ↔
      countBelow (fun i => bits.testBit i) N = ne ∧
      ∀ s, sz2 = some s →
        (countBelow (fun i => i % 2 == 0 && bits.testBit i) N : Int) -
          (countBelow (fun i => i % 2 == 1 && bits.testBit i) N : Int) = s := by
  have hall : countTrue (bitsLE bits bits) = countBelow (fun i => bits.testBit i) N := by
    rw [countTrue_eq_countBelow]
    have := bits_count (fun _ => true) bits N hN
    simpa using this
  obtain ⟨he, ho⟩ := evens_odds_count (bitsLE bits bits)
  rw [bits_count (fun i => i % 2 == 0) bits N hN] at he
  rw [bits_count (fun i => i % 2 == 1) bits N hN] at ho
  cases sz2 with
  | none => simp [jwFilter, hall]
  | some s =>
    simp only [jwFilter, hall, he, ho]
    constructor
    · intro h
      split at h
      · cases h
      · rename_i hne
        refine ⟨by simpa using h, ?_⟩
        intro s' hs'
        injection hs' with hs'
        subst hs'
        simpa using hne
    · intro ⟨h1, h2⟩
      have := h2 s rfl
      simp [this, h1]

/-! ## spin and parity factors -/

theorem occSz2_spec_core (occ : List Nat) :
    occSz2 occ = ((occ.filter fun i => i % 2 == 0).length : Int) - ((occ.filter fun i => i % 2 == 1).length : Int) ∧
    occ.length = (occ.filter fun i => i % 2 == 0).length + (occ.filter fun i => i % 2 == 1).length := by
  induction occ with
  | nil => exact ⟨rfl, rfl⟩
  | cons i is ih =>
    obtain ⟨ih1, ih2⟩ := ih
    rcases Nat.mod_two_eq_zero_or_one i with h | h
    · simp only [occSz2, h, List.filter_cons, List.length_cons, ih1, ih2]
      simp
      omega
    · simp only [occSz2, h, List.filter_cons, List.length_cons, ih1, ih2]
      simp
      omega

theorem scbk_parity_core (occ : List Nat) :
    scbkParityFactor occ.length (occSz2 occ) =
      (((occ.filter fun i => i % 2 == 0).length % 2 != 0), (occ.length % 2 != 0)) := by
  obtain ⟨h1, h2⟩ := occSz2_spec_core occ
  have hsum : (occ.length : Int) + occSz2 occ = 2 * ((occ.filter fun i => i % 2 == 0).length : Int) := by
    rw [h1]; omega
  simp only [scbkParityFactor, hsum]
  rw [Int.mul_tdiv_cancel_left _ (by decide : (2 : Int) ≠ 0)]
  congr 1
  generalize (occ.filter fun i => i % 2 == 0).length = u
  rcases Nat.mod_two_eq_zero_or_one u with h | h <;> simp [h] <;> omega

/-! ## the filters that go through the inverse state mapper -/

theorem hasDup_false_iff (l : List Nat) : hasDup l = false ↔ l.Nodup := by
  induction l with
  | nil => simp [hasDup]
  | cons x xs ih =>
    simp only [hasDup, Bool.or_eq_false_iff, ih, List.nodup_cons, List.contains_eq_mem, decide_eq_false_iff_not]

theorem nodup_occupancySet (signs : List Bool) (ov : BArr) : (occupancySet signs ov).Nodup :=
  List.Nodup.sublist List.filter_sublist List.nodup_range

theorem nodup_occOf (n : Nat) (occ : List Nat) : (occOf n occ).Nodup :=
  List.Nodup.sublist List.filter_sublist List.nodup_range

theorem occSz2_perm {a b : List Nat} (h : a.Perm b) : occSz2 a = occSz2 b := by
  induction h with
  | nil => rfl
  | cons x _ ih => simp [occSz2, ih]
  | swap x y l => simp only [occSz2]; omega
  | trans _ _ ih1 ih2 => exact ih1.trans ih2

theorem occOf_perm (n : Nat) (occ : List Nat) (hnd : occ.Nodup) (hlt : ∀ i ∈ occ, i < n) : (occOf n occ).Perm occ := by
  rw [List.perm_ext_iff_of_nodup (nodup_occOf n occ) hnd]
  intro a
  simp only [occOf, List.mem_filter, List.mem_range, List.contains_eq_mem, decide_eq_true_eq]
  exact ⟨fun h => h.2, fun h => ⟨hlt a h, h⟩⟩

theorem stateChecks_ok (m : Mapping) (occ : List Nat) (hnd : hasDup occ = false)
    (hnf : ∀ k, m.nFermions = some k → occ.length = k) (hsz : ∀ s, m.sz2 = some s → occSz2 occ = s) :
    stateChecks m occ = .ok () := by
  simp only [stateChecks, hnd, Bool.false_eq_true, ↓reduceIte]
  cases h1 : m.nFermions with
  | none =>
    cases h2 : m.sz2 with
    | none => rfl
    | some s => simp [hsz s h2]; rfl
  | some k =>
    cases h2 : m.sz2 with
    | none => simp [hnf k h1]; rfl
    | some s => simp [hnf k h1, hsz s h2]; rfl

theorem invFilter_true_inv {m : Mapping} (hwf : m.wf = true) {ne : Nat} {s : Int} {bits : Nat}
    (h : invFilter m m.nQubits ne (some s) bits = .ok true) :
    bits < 2 ^ m.nQubits ∧ (occupancySet m.signs (invVec m bits)).length = ne ∧
      occSz2 (occupancySet m.signs (invVec m bits)) = s := by
  unfold invFilter at h
  by_cases hb : bits ≥ 2 ^ m.nQubits
  · simp [hb, bind, Except.bind, throw, throwThe, MonadExceptOf.throw] at h
  · have hb' : bits < 2 ^ m.nQubits := by omega
    simp only [hb, ↓reduceIte, invStateMapper_ok m hwf bits hb', bind, Except.bind, pure, Except.pure] at h
    split at h
    · cases h
    · rename_i hsz
      injection h with h
      exact ⟨hb', by simpa using h, by simpa using hsz⟩

/-- every bitstring a BK/SCBK filter accepts is the image, under the state mapper, of an occupation with the
    requested electron number and spin (needs only `trans · inv = 1` on the first `n_qubits` rows) -/
theorem filter_accepts_only_images_core (m : Mapping) (hwf : m.wf = true) (hid : m.leftId = true)
    (ne : Nat) (s : Int) (bits : Nat)
    (hnf : ∀ k, m.nFermions = some k → k = ne) (hsz : ∀ t, m.sz2 = some t → t = s)
    (h : invFilter m m.nQubits ne (some s) bits = .ok true) :
    ∃ occ, occ.length = ne ∧ occSz2 occ = s ∧ stateMapper m occ = .ok bits := by
  obtain ⟨hb, hl, hs⟩ := invFilter_true_inv hwf h
  obtain ⟨occ, ho, hst⟩ := state_after_inv_core m hwf hid bits hb
  rw [invStateMapper_ok m hwf bits hb] at ho
  injection ho with ho
  subst ho
  refine ⟨_, hl, hs, ?_⟩
  have hc := stateChecks_ok m _ ((hasDup_false_iff _).mpr (nodup_occupancySet m.signs (invVec m bits)))
    (fun k hk => by rw [hl, hnf k hk]) (fun t ht => by rw [hs, hsz t ht])
  simp only [stateMapper, hc, bind, Except.bind]
  exact hst

/-- conversely (JW/BK: `inv · trans = 1`, no dropped qubits) every image of such an occupation is accepted -/
theorem filter_accepts_all_images_core (m : Mapping) (hwf : m.wf = true) (hid : m.rightId = true)
    (hk : m.nQubits = m.nSpin) (ne : Nat) (s : Int) (occ : List Nat) (bits : Nat)
    (hnd : hasDup occ = false) (hlt : ∀ i ∈ occ, i < m.nSpin) (hl : occ.length = ne) (hs : occSz2 occ = s)
    (h : stateMapper m occ = .ok bits) :
    invFilter m m.nQubits ne (some s) bits = .ok true := by
  obtain ⟨bits', h1, h2, h3⟩ := inv_after_state_core m hwf hid hk occ
  have hb : bits = bits' := by
    simp only [stateMapper] at h
    obtain ⟨_, _, h⟩ := bind_ok h
    rw [h1] at h
    injection h with h
    exact h.symm
  subst hb
  have hperm := occOf_perm m.nSpin occ ((hasDup_false_iff _).mp hnd) hlt
  have hng : ¬ bits ≥ 2 ^ m.nQubits := by omega
  simp only [invFilter, hng, ↓reduceIte, h3, bind, Except.bind, pure, Except.pure,
    occSz2_perm hperm, hs, bne_self_eq_false, Bool.false_eq_true, hperm.length_eq, hl, beq_self_eq_true]

/-! ## the generated instance table -/

theorem Inst.check_spec (i : Inst) (h : i.check = true) (nf : Option Nat) (sz2 : Option Int) :
    ∃ m, i.mapping nf sz2 = some m ∧ m.wf = true ∧ m.leftId = true ∧
      (i.kind ≠ .scbk → m.rightId = true ∧ m.nQubits = m.nSpin ∧ pivotsFound i.rows = true) := by
  unfold Inst.check at h
  unfold Inst.mapping at h ⊢
  cases hinv : inverse i.invMat with
  | error e => simp [hinv] at h
  | ok T =>
    simp only [hinv, Bool.and_eq_true, Bool.or_eq_true, beq_iff_eq] at h
    obtain ⟨⟨⟨hwf, hl⟩, _⟩, hr⟩ := h
    refine ⟨_, rfl, ?_, ?_, ?_⟩
    · simpa [Mapping.wf] using hwf
    · simpa [Mapping.leftId, Mapping.nQubits] using hl
    · intro hk
      rcases hr with hr | hr
      · exact absurd hr hk
      · refine ⟨by simpa [Mapping.rightId] using hr.2, ?_, hr.1⟩
        cases hkind : i.kind <;> simp_all [Mapping.nQubits]

/-! ## which inputs make `inverse` raise: exactly a zero first column (UnboundLocalError) -/

theorem elimOne_piv {j i : Nat} {val : Bool} {st : GJ} (hp : st.piv.isSome = true) :
    ∃ st', elimOne j i val st = .ok st' ∧ st'.piv.isSome = true := by
  obtain ⟨p, hp'⟩ := Option.isSome_iff_exists.mp hp
  unfold elimOne
  split
  · simp [hp', pure, Except.pure]
  · exact ⟨st, rfl, hp⟩

theorem elimUp_piv {j : Nat} (k : Nat) {i : Nat} {st : GJ} (hp : st.piv.isSome = true) :
    ∃ st', elimUp j i k st = .ok st' ∧ st'.piv.isSome = true := by
  induction k generalizing i st with
  | zero => exact ⟨st, rfl, hp⟩
  | succ k ih =>
    obtain ⟨st1, h1, hp1⟩ := elimOne_piv (j := j) (i := i) (val := i == j) hp
    obtain ⟨st2, h2, hp2⟩ := ih (i := i + 1) hp1
    exact ⟨st2, by simp only [elimUp, h1, bind, Except.bind]; exact h2, hp2⟩

theorem pivotUp_piv (n j : Nat) {st : GJ} (hp : st.piv.isSome = true) : (pivotUp n j st).piv.isSome = true := by
  unfold pivotUp
  split
  · rfl
  · exact hp

theorem fwd_piv {n : Nat} (k : Nat) {j : Nat} {st : GJ} (hp : st.piv.isSome = true) :
    ∃ st', fwd n j k st = .ok st' ∧ st'.piv.isSome = true := by
  induction k generalizing j st with
  | zero => exact ⟨st, rfl, hp⟩
  | succ k ih =>
    obtain ⟨st1, h1, hp1⟩ := elimUp_piv (j := j) (n - j) (i := j) (pivotUp_piv n j hp)
    obtain ⟨st2, h2, hp2⟩ := ih (j := j + 1) hp1
    exact ⟨st2, by simp only [fwd, fwdCol, h1, bind, Except.bind]; exact h2, hp2⟩

theorem elimDown_piv {j : Nat} (i : Nat) {st : GJ} (hp : st.piv.isSome = true) :
    ∃ st', elimDown j i st = .ok st' ∧ st'.piv.isSome = true := by
  induction i generalizing st with
  | zero => exact ⟨st, rfl, hp⟩
  | succ i ih =>
    obtain ⟨st1, h1, hp1⟩ := elimOne_piv (j := j) (i := i) (val := false) hp
    obtain ⟨st2, h2, hp2⟩ := ih hp1
    exact ⟨st2, by simp only [elimDown, h1, bind, Except.bind]; exact h2, hp2⟩

theorem pivotDown_piv (n j : Nat) {st : GJ} (hp : st.piv.isSome = true) : (pivotDown n j st).piv.isSome = true := by
  unfold pivotDown
  split
  · rfl
  · exact hp

theorem bwd_piv {n : Nat} (j : Nat) {st : GJ} (hp : st.piv.isSome = true) :
    ∃ st', bwd n j st = .ok st' ∧ st'.piv.isSome = true := by
  induction j generalizing st with
  | zero => exact ⟨st, rfl, hp⟩
  | succ j ih =>
    obtain ⟨st1, h1, hp1⟩ := elimDown_piv (j := j) j (pivotDown_piv n j hp)
    obtain ⟨st2, h2, hp2⟩ := ih hp1
    exact ⟨st2, by simp only [bwd, h1, bind, Except.bind]; exact h2, hp2⟩

theorem findUp_none {rows : List Nat} {j : Nat} (k : Nat) {i : Nat}
    (h : ∀ r, i ≤ r → r < i + k → (rowAt rows r).testBit j = false) : findUp rows j i k = none := by
  induction k generalizing i with
  | zero => rfl
  | succ k ih =>
    simp only [findUp, h i (Nat.le_refl _) (by omega), Bool.false_eq_true, ↓reduceIte]
    exact ih (fun r a b => h r (by omega) (by omega))

theorem findUp_some {rows : List Nat} {j : Nat} (k : Nat) {i r : Nat} (h1 : i ≤ r) (h2 : r < i + k)
    (hb : (rowAt rows r).testBit j = true) : (findUp rows j i k).isSome = true := by
  induction k generalizing i with
  | zero => omega
  | succ k ih =>
    simp only [findUp]
    split
    · rfl
    · rename_i hne
      have : i ≠ r := fun e => hne (e ▸ hb)
      exact ih (by omega) (by omega)

theorem augRows_testBit_zero (A : List Nat) (hA : ∀ a ∈ A, a < 2 ^ A.length) (k : Nat) (hk : k < A.length) :
    (rowAt (augRows A) k).testBit 0 = (rowAt A k).testBit 0 := by
  have hAk : rowAt A k < 2 ^ A.length := by
    have : rowAt A k = A[k] := by simp [rowAt, List.getD_eq_getElem?_getD, hk]
    rw [this]; exact hA _ (List.getElem_mem hk)
  rw [augRows, rowAt_augRowsFrom _ _ _ _ hk, Nat.mod_eq_of_lt hAk]
  have hn : A.length = (A.length - 1) + 1 := by omega
  simp only [Nat.testBit_zero]
  rw [hn, Nat.pow_succ, Nat.mul_comm (2 ^ (A.length - 1)) 2, Nat.mul_assoc, Nat.add_mul_mod_self_left]

/-- T4a: on a square matrix with a non-zero first column `inverse` raises nothing (whatever else is singular) -/
theorem inverse_total_core {mat : BMat} (hwf : squareWf mat = true)
    (hcol : ∃ r, r < mat.length ∧ (rowAt (mat.map (·.b)) r).testBit 0 = true) : ∃ B, inverse mat = .ok B := by
  obtain ⟨r, hr, hb⟩ := hcol
  have hA : ∀ a ∈ mat.map (·.b), a < 2 ^ (mat.map (·.b)).length := by
    intro a ha
    obtain ⟨x, hx, rfl⟩ := List.mem_map.mp ha
    simpa using (squareWf_spec hwf x hx).2
  have hb' : (rowAt (augRows (mat.map (·.b))) r).testBit 0 = true := by
    rw [augRows_testBit_zero _ hA r (by simpa using hr)]; exact hb
  obtain ⟨_, hO⟩ := inverse_square hwf
  suffices ∃ rows, gaussJordan mat.length (augRows (mat.map (·.b))) = .ok rows by
    obtain ⟨rows, h⟩ := this
    exact ⟨_, hO rows h⟩
  obtain ⟨n, hn⟩ : ∃ n, mat.length = n + 1 := ⟨mat.length - 1, by omega⟩
  rw [hn]
  have hfind : (findUp (augRows (mat.map (·.b))) 0 0 (n + 1)).isSome = true :=
    findUp_some (n + 1) (Nat.zero_le r) (by omega) hb'
  have hpiv : (pivotUp (n + 1) 0 ⟨augRows (mat.map (·.b)), none⟩).piv.isSome = true := by
    obtain ⟨i0, hi0⟩ := Option.isSome_iff_exists.mp hfind
    simp only [pivotUp, Nat.sub_zero, hi0]
    rfl
  obtain ⟨st1, h1, hp1⟩ := elimUp_piv (j := 0) (n + 1 - 0) (i := 0) hpiv
  obtain ⟨st2, h2, hp2⟩ := fwd_piv (n := n + 1) n (j := 1) hp1
  obtain ⟨st3, h3, _⟩ := bwd_piv (n := n + 1) (n + 1) hp2
  refine ⟨st3.rows, ?_⟩
  simp only [gaussJordan, fwd, fwdCol, h1, bind, Except.bind, pure, Except.pure]
  simp only [Nat.zero_add] at h2 ⊢
  simp only [h2, h3]

/-- T4b: on a non-empty square matrix whose first column is zero `inverse` raises UnboundLocalError -/
theorem inverse_unbound_core {mat : BMat} (hwf : squareWf mat = true) (hne : 0 < mat.length)
    (hcol : ∀ r, r < mat.length → (rowAt (mat.map (·.b)) r).testBit 0 = false) :
    inverse mat = .error .unboundLocalError := by
  have hA : ∀ a ∈ mat.map (·.b), a < 2 ^ (mat.map (·.b)).length := by
    intro a ha
    obtain ⟨x, hx, rfl⟩ := List.mem_map.mp ha
    simpa using (squareWf_spec hwf x hx).2
  obtain ⟨hE, _⟩ := inverse_square hwf
  apply hE
  obtain ⟨n, hn⟩ : ∃ n, mat.length = n + 1 := ⟨mat.length - 1, by omega⟩
  have hcol' : ∀ r, 0 ≤ r → r < 0 + (n + 1) → (rowAt (augRows (mat.map (·.b))) r).testBit 0 = false := by
    intro r _ hr
    have hr' : r < mat.length := by omega
    rw [augRows_testBit_zero _ hA r (by simpa using hr')]
    exact hcol r hr'
  rw [hn]
  have hfind := findUp_none (rows := augRows (mat.map (·.b))) (j := 0) (n + 1) (i := 0) hcol'
  have h0 : (rowAt (augRows (mat.map (·.b))) 0).testBit 0 = false := hcol' 0 (Nat.le_refl _) (by omega)
  simp only [gaussJordan, fwd, fwdCol, pivotUp, Nat.sub_zero, hfind, elimUp, elimOne, h0, bind, Except.bind]
  rfl

/-! ## FermionCreationTerm -/

theorem countGreater_append (x : Nat) (l m : List Nat) :
    countGreater x (l ++ m) = countGreater x l + countGreater x m := by
  induction l with
  | nil => simp [countGreater]
  | cons y ys ih => simp [countGreater, ih]; omega

theorem inversion_swap_core (l1 l2 : List Nat) (a b : Nat) (h : a ≠ b) :
    inversionNumber (l1 ++ a :: b :: l2) + (if a > b then 0 else 1) =
      inversionNumber (l1 ++ b :: a :: l2) + (if a > b then 1 else 0) := by
  induction l1 with
  | nil =>
    simp only [List.nil_append, inversionNumber, countGreater]
    by_cases hab : a > b
    · have : ¬ b > a := by omega
      simp [hab, this]; omega
    · have : b > a := by omega
      simp [hab, this]; omega
  | cons x xs ih =>
    simp only [List.cons_append, inversionNumber, countGreater_append, countGreater]
    omega

theorem countGreater_insertSorted (x y : Nat) (l : List Nat) :
    countGreater x (insertSorted y l) = countGreater x (y :: l) := by
  induction l with
  | nil => rfl
  | cons z zs ih =>
    simp only [insertSorted]
    split
    · rfl
    · simp only [countGreater, ih]; omega

theorem countGreater_zero_of_le (y z : Nat) (hle : y ≤ z) (zs : List Nat) (hz : countGreater z zs = 0) :
    countGreater y zs = 0 := by
  induction zs with
  | nil => rfl
  | cons w ws ihw =>
    simp only [countGreater] at hz ⊢
    have h1 : ¬ z > w := by
      intro h; simp [h] at hz
    have h2 : countGreater z ws = 0 := by omega
    have h3 : ¬ y > w := by omega
    simp [h3, ihw h2]

theorem inversion_insertSorted (y : Nat) (l : List Nat) (hl : inversionNumber l = 0) :
    inversionNumber (insertSorted y l) = 0 := by
  induction l with
  | nil => rfl
  | cons z zs ih =>
    simp only [inversionNumber] at hl
    have hz : countGreater z zs = 0 := by omega
    have hzs : inversionNumber zs = 0 := by omega
    simp only [insertSorted]
    split
    · rename_i hle
      have hy := countGreater_zero_of_le y z hle zs hz
      have : ¬ y > z := by omega
      simp [inversionNumber, countGreater, this, hy, hz, hzs]
    · rename_i hle
      have : ¬ z > y := by omega
      simp [inversionNumber, countGreater_insertSorted, countGreater, this, hz, ih hzs]

theorem inversion_sorted_core (l : List Nat) : inversionNumber (sortNat l) = 0 := by
  induction l with
  | nil => rfl
  | cons x xs ih => exact inversion_insertSorted x _ ih

/-! ## the result of `inverse` is also a right inverse (span invariant: the row operations are invertible) -/

theorem xor_alg1 (r c x : Nat) : x ^^^ c = (r ^^^ c) ^^^ (r ^^^ x) := by
  apply Nat.eq_of_testBit_eq
  intro k
  simp only [Nat.testBit_xor]
  cases r.testBit k <;> cases c.testBit k <;> cases x.testBit k <;> rfl

theorem xor_alg2 (t a b : Nat) : (t ^^^ b) ^^^ (a ^^^ (a ^^^ b)) = t := by
  apply Nat.eq_of_testBit_eq
  intro k
  simp only [Nat.testBit_xor]
  cases t.testBit k <;> cases a.testBit k <;> cases b.testBit k <;> rfl

theorem comb_set (rows : List Nat) (i x sel : Nat) (hi : i < rows.length) :
    comb (rows.set i x) sel = comb rows sel ^^^ (if sel.testBit i then rowAt rows i ^^^ x else 0) := by
  induction rows generalizing i sel with
  | nil => simp at hi
  | cons r rs ih =>
    cases i with
    | zero =>
      simp only [List.set_cons_zero, comb, rowAt, List.getD_cons_zero]
      cases sel.testBit 0
      · simp
      · simp only [↓reduceIte]
        exact xor_alg1 r _ x
    | succ i =>
      simp only [List.length_cons] at hi
      simp only [List.set_cons_succ, comb, ih i (sel / 2) (by omega), Nat.testBit_succ, rowAt, List.getD_cons_succ]
      rw [Nat.xor_assoc]

/-- every initial row is a GF(2) combination of the current rows -/
def Spans (init rows : List Nat) : Prop := ∀ k, ∃ sel, comb rows sel = rowAt init k

theorem spans_add (init rows : List Nat) (i p : Nat) (hi : i < rows.length) (hip : i ≠ p) (h : Spans init rows) :
    Spans init (addRow rows i p) := by
  intro k
  obtain ⟨sel, hsel⟩ := h k
  by_cases hb : sel.testBit i = true
  · refine ⟨sel ^^^ 2 ^ p, ?_⟩
    have hb' : (sel ^^^ 2 ^ p).testBit i = true := by
      have : ¬ p = i := fun e => hip e.symm
      simp [Nat.testBit_xor, hb, this]
    simp only [addRow, comb_set _ _ _ _ hi, hb', ↓reduceIte, comb_xor, comb_two_pow, hsel]
    exact xor_alg2 _ _ _
  · refine ⟨sel, ?_⟩
    have hb' : sel.testBit i = false := by simpa using hb
    simp [addRow, comb_set _ _ _ _ hi, hb', hsel]

theorem ext_rowAt (l1 l2 : List Nat) (hl : l1.length = l2.length) (h : ∀ k, rowAt l1 k = rowAt l2 k) : l1 = l2 := by
  apply List.ext_getElem hl
  intro k h1 h2
  have := h k
  simpa [rowAt, List.getD_eq_getElem?_getD, h1, h2] using this

theorem swapRows_eq_adds (rows : List Nat) (i j : Nat) (hi : i < rows.length) (hj : j < rows.length) (hij : i ≠ j) :
    swapRows rows i j = addRow (addRow (addRow rows i j) j i) i j := by
  apply ext_rowAt
  · simp
  · intro k
    have h1 : i < (addRow rows i j).length := by simpa using hi
    have h2 : j < (addRow rows i j).length := by simpa using hj
    have h3 : i < (addRow (addRow rows i j) j i).length := by simpa using hi
    have hji : ¬ j = i := fun e => hij e.symm
    rw [rowAt_swapRows _ _ _ _ hi hj]
    simp only [rowAt_addRow _ _ _ _ h3, rowAt_addRow _ _ _ _ h2, rowAt_addRow _ _ _ _ hi]
    by_cases hkj : k = j
    · subst hkj
      simp only [hji, ↓reduceIte]
      apply Nat.eq_of_testBit_eq
      intro c
      simp only [Nat.testBit_xor]
      cases (rowAt rows i).testBit c <;> cases (rowAt rows k).testBit c <;> rfl
    · by_cases hki : k = i
      · subst hki
        simp only [hkj, ↓reduceIte, hji]
        apply Nat.eq_of_testBit_eq
        intro c
        simp only [Nat.testBit_xor]
        cases (rowAt rows k).testBit c <;> cases (rowAt rows j).testBit c <;> rfl
      · simp only [hkj, hki, ↓reduceIte]

theorem spans_closed (init : List Nat) : OpClosed (Spans init) where
  add := fun rows i p hi _ hip h => spans_add init rows i p hi hip h
  swap := by
    intro rows i j hi hj hij h
    rw [swapRows_eq_adds rows i j hi hj hij]
    have h1 := spans_add init rows i j hi hij h
    have h2 := spans_add init _ j i (by simpa using hj) (fun e => hij e.symm) h1
    exact spans_add init _ i j (by simpa using hi) hij h2

theorem spans_refl (init : List Nat) : Spans init init := fun k => ⟨2 ^ k, comb_two_pow init k⟩

theorem rowAt_map (f : Nat → Nat) (hf : f 0 = 0) (l : List Nat) (k : Nat) : rowAt (l.map f) k = f (rowAt l k) := by
  simp only [rowAt, List.getD_eq_getElem?_getD, List.getElem?_map]
  cases l[k]? <;> simp [hf]

theorem comb_map_mod (rows : List Nat) (s n : Nat) : comb rows s % 2 ^ n = comb (rows.map (· % 2 ^ n)) s := by
  induction rows generalizing s with
  | nil => simp [comb]
  | cons r rs ih =>
    simp only [comb, List.map_cons, Nat.xor_mod_two_pow, ih]
    cases s.testBit 0 <;> simp

theorem comb_map_div (rows : List Nat) (s n : Nat) : comb rows s / 2 ^ n = comb (rows.map (· / 2 ^ n)) s := by
  induction rows generalizing s with
  | nil => simp [comb]
  | cons r rs ih =>
    simp only [comb, List.map_cons, Nat.xor_div_two_pow, ih]
    cases s.testBit 0 <;> simp

theorem comb_mod_len (rows : List Nat) (s : Nat) : comb rows s = comb rows (s % 2 ^ rows.length) := by
  induction rows generalizing s with
  | nil => simp [comb]
  | cons r rs ih =>
    have h0 : (s % 2 ^ (rs.length + 1)).testBit 0 = s.testBit 0 := by
      simp
    have h1 : (s % 2 ^ (rs.length + 1)) / 2 = (s / 2) % 2 ^ rs.length := by
      apply Nat.eq_of_testBit_eq
      intro c
      simp only [Nat.testBit_div_two, Nat.testBit_mod_two_pow]
      by_cases hc : c < rs.length
      · have : c + 1 < rs.length + 1 := by omega
        simp [hc, this]
      · have : ¬ c + 1 < rs.length + 1 := by omega
        simp [hc, this]
    simp only [comb, List.length_cons, h0, h1]
    rw [ih (s / 2)]

theorem testBit_comb (M : List Nat) (s c : Nat) :
    (comb M s).testBit c = parityLow (s &&& packBits (M.map fun r => r.testBit c)) M.length := by
  have h := comb_dot M s (2 ^ c) (c + 1)
  have e1 : ∀ x, parityLow (x &&& 2 ^ c) (c + 1) = x.testBit c := by
    intro x
    rw [Nat.and_comm]
    exact parityLow_two_pow_and c x (c + 1) (by omega)
  rw [e1] at h
  rw [h]
  congr 2
  congr 1
  apply List.map_congr_left
  intro r _
  exact e1 r

/-- a row list that is the identity on its first `n` columns combines to the selector itself -/
theorem comb_identity (M : List Nat) (n : Nat) (hlen : M.length = n) (hid : ∀ r, r < n → rowAt M r = 2 ^ r) (s : Nat) :
    comb M s = s % 2 ^ n := by
  apply Nat.eq_of_testBit_eq
  intro c
  rw [testBit_comb, Nat.testBit_mod_two_pow, hlen]
  have hlist : (M.map fun r => r.testBit c) = (List.range n).map fun r => decide (r = c) := by
    apply List.ext_getElem
    · simp [hlen]
    · intro k h1 h2
      have hk : k < n := by simpa [hlen] using h1
      have hM : M[k]'(by omega) = 2 ^ k := by
        have := hid k hk
        simpa [rowAt, List.getD_eq_getElem?_getD, List.getElem?_eq_getElem (show k < M.length by omega)] using this
      simp [hM, Nat.testBit_two_pow]
  rw [hlist]
  by_cases hc : c < n
  · have hp : packBits ((List.range n).map fun r => decide (r = c)) = 2 ^ c := by
      apply Nat.eq_of_testBit_eq
      intro i
      rw [testBit_packBits, getD_map_range, Nat.testBit_two_pow]
      by_cases hic : i = c
      · subst hic; simp [hc]
      · have : ¬ c = i := fun e => hic e.symm
        simp [hic, this]
    rw [hp, Nat.and_comm, parityLow_two_pow_and c s n hc]
    simp [hc]
  · have hp : packBits ((List.range n).map fun r => decide (r = c)) = 0 := by
      apply Nat.eq_of_testBit_eq
      intro i
      rw [testBit_packBits, getD_map_range]
      by_cases hin : i < n
      · have : ¬ i = c := by omega
        simp [this]
      · simp [hin]
    simp [hp, hc, parityLow_zero]

theorem rowAt_lt_of_all (A : List Nat) (N : Nat) (hA : ∀ a ∈ A, a < N) (k : Nat) (hk : k < A.length) :
    rowAt A k < N := by
  have : rowAt A k = A[k] := by simp [rowAt, List.getD_eq_getElem?_getD, hk]
  rw [this]
  exact hA _ (List.getElem_mem hk)

/-- T3: with every pivot found, the result `B` of `inverse` also satisfies `mat · B = 1` -/
theorem inverse_right_core {mat : BMat} (hwf : squareWf mat = true) (hp : pivotsFound (mat.map (·.b)) = true) :
    ∃ B, inverse mat = .ok B ∧ leftIdOn mat.length (mat.map (·.b)) (B.map (·.b)) = true := by
  have hlenA : (augRows (mat.map (·.b))).length = mat.length := by simp [augRows, length_augRowsFrom]
  have hA : ∀ a ∈ mat.map (·.b), a < 2 ^ (mat.map (·.b)).length := by
    intro a ha
    obtain ⟨r, hr, rfl⟩ := List.mem_map.mp ha
    simpa using (squareWf_spec hwf r hr).2
  simp only [pivotsFound, List.length_map] at hp
  obtain ⟨rows', hg, hlen', hid, hspan⟩ :=
    gaussJordan_pivots (spans_closed (augRows (mat.map (·.b)))) hlenA (spans_refl _) hp
  obtain ⟨_, hO⟩ := inverse_square hwf
  have hinv := hO rows' hg
  obtain ⟨rows, hg2, _, hB, _⟩ := inverse_rowspace hwf hinv
  rw [hg] at hg2
  injection hg2 with hg2
  subst hg2
  refine ⟨_, hinv, ?_⟩
  apply leftIdOn_of
  intro k hk
  obtain ⟨sel, hsel⟩ := hspan k
  -- the k-th initial row
  have hk' : k < (mat.map (·.b)).length := by simpa using hk
  have hAk : rowAt (mat.map (·.b)) k < 2 ^ mat.length := by
    have := rowAt_lt_of_all (mat.map (·.b)) _ hA k hk'
    simpa using this
  have hinit : rowAt (augRows (mat.map (·.b))) k =
      rowAt (mat.map (·.b)) k % 2 ^ mat.length + 2 ^ mat.length * 2 ^ k := by
    have := rowAt_augRowsFrom (mat.map (·.b)).length 0 (mat.map (·.b)) k hk'
    simpa [augRows] using this
  obtain ⟨_, f2, f3⟩ := augRow_facts (rowAt (mat.map (·.b)) k) mat.length k hAk hk
  rw [hinit] at hsel
  -- left block: the selector is row k of mat
  have hsel_lo : sel % 2 ^ mat.length = rowAt (mat.map (·.b)) k := by
    have h1 := comb_map_mod rows' sel mat.length
    rw [hsel, f2] at h1
    have h2 := comb_identity (rows'.map (· % 2 ^ mat.length)) mat.length (by simp [hlen'])
      (fun r hr => by rw [rowAt_map _ (by simp)]; exact hid r hr) sel
    rw [h2] at h1
    exact h1.symm
  -- right block: the same selector combines the rows of B to e_k
  have hsel_hi : comb (rows'.map (· / 2 ^ mat.length)) sel = 2 ^ k := by
    have h1 := comb_map_div rows' sel mat.length
    rw [hsel, f3] at h1
    exact h1.symm
  have hBb : (List.map (fun x => x.b)
      (List.map (fun b => ({ b := b % 2 ^ (mat.length + mat.length) / 2 ^ mat.length, len := mat.length } : BArr)) rows')) =
      rows'.map (· / 2 ^ mat.length) := by
    rw [hB]
    simp [List.map_map, Function.comp_def]
  rw [hBb, ← hsel_lo]
  have hm := comb_mod_len (rows'.map (· / 2 ^ mat.length)) sel
  simp only [List.length_map, hlen'] at hm
  rw [← hm]
  exact hsel_hi

/-- for ANY number-operator rows on which Gauss–Jordan finds every pivot, the constructed JW/BK-type mapping
    satisfies all hypotheses of the round-trip theorems -/
theorem Inst.of_pivots (i : Inst) (hk : i.kind ≠ .scbk) (hn : i.rows.length = i.n) (hs : i.signs.length = i.n)
    (hlt : ∀ a ∈ i.rows, a < 2 ^ i.n) (hp : pivotsFound i.rows = true) (nf : Option Nat) (sz2 : Option Int) :
    ∃ m, i.mapping nf sz2 = some m ∧ m.wf = true ∧ m.leftId = true ∧ m.rightId = true ∧ m.nQubits = m.nSpin := by
  have hlenM : i.invMat.length = i.n := by simp [Inst.invMat, hn]
  have hb : i.invMat.map (·.b) = i.rows := by simp [Inst.invMat, List.map_map, Function.comp_def]
  have hwf : squareWf i.invMat = true := by
    simp only [squareWf, List.all_eq_true, Bool.and_eq_true, beq_iff_eq, decide_eq_true_eq, hlenM]
    intro r hr
    simp only [Inst.invMat, List.mem_map] at hr
    obtain ⟨a, ha, rfl⟩ := hr
    exact ⟨rfl, hlt a ha⟩
  rw [← hb] at hp
  obtain ⟨B, hB, hBlen, hBwf, hleft⟩ := inverse_sound_core hwf hp
  obtain ⟨B', hB', hright⟩ := inverse_right_core hwf hp
  rw [hB] at hB'
  injection hB' with hB'
  subst hB'
  rw [hlenM, hb] at hleft hright
  rw [hlenM] at hBlen
  have hBs := squareWf_spec hBwf
  have hmap : i.mapping nf sz2 = some (⟨i.kind, i.n, nf, sz2, i.invMat, i.signs, B⟩ : Mapping) := by
    simp only [Inst.mapping, hB]
  refine ⟨_, hmap, ?_, ?_, ?_, ?_⟩
  · have w1 : (i.invMat.length == i.n) = true := by simp [hlenM]
    have w2 : i.invMat.all (fun r => r.len == i.n) = true := by
      simp only [List.all_eq_true, beq_iff_eq]
      intro r hr
      simp only [Inst.invMat, List.mem_map] at hr
      obtain ⟨a, _, rfl⟩ := hr
      rfl
    have w3 : (B.length == i.n) = true := by simp [hBlen]
    have w4 : B.all (fun r => r.len == i.n) = true := by
      simp only [List.all_eq_true, beq_iff_eq]
      intro r hr
      rw [(hBs r hr).1, hBlen]
    have w5 : (i.signs.length == i.n) = true := by simp [hs]
    have w6 : (i.kind != .scbk || decide (2 ≤ i.n)) = true := by simp [hk]
    simp only [Mapping.wf, w1, w2, w3, w4, w5, w6, Bool.and_self]
  · simp only [Mapping.leftId, Mapping.nQubits, hb]
    exact hleft
  · simp only [Mapping.rightId, hb]
    exact hright
  · cases hkind : i.kind <;> simp_all [Mapping.nQubits]

end QV.C13
