import QuriVerif.Proof.RotSound
/-
  C16, `comp_basis_superposition`: the circuit emitted by the model (`Model/C16.supCircuit`) for
  `(a, pa)`, `(b, pb)` with symbolic angles θ (variable 0), φ (variable 1) maps `|0…0⟩` – as a column
  of the operator `semCirc` of `Found/Gate.lean`, for EVERY register size – to ONE non-zero scalar times
      2cos θ · i^pa · |a⟩  +  e^{iφ} · 2 sin θ · i^pb · |b⟩
  (the factor 2 is the integer scaling of the `PauliRotation` local matrix, scale exponent 2).
  Generic field part.

    * §1  lists of X gates (`xlist_col`), `xGates`;
    * §2  the all-X `PauliRotation` column;
    * §3  the prepared column (`sup_col_raw`) and the algebra (`sup_col`).
-/
namespace QV.MatSound
open QV QV.Poly QV.C01 QV.C16

variable {K : Type} [Field K] {ζ : K} {ρ : ℕ → K}

/-! ## 1. lists of X gates -/

/-- `X` on every wire of `ts`, in order -/
def xList (ts : List ℕ) : List Gate := ts.map fun t => G .X [] [t]

theorem col_x (n q : ℕ) (hq : q < n) (b : ℕ) (hb : b < 2 ^ n) :
    IsCol ζ ρ n [G .X [] [q]] b (b ^^^ 2 ^ q) 1 :=
  ⟨flip_lt n b q hb hq, fun r hr =>
    col_flip n q _ rfl hq (fun _ => 1) (evalMat_X q) r b hr hb⟩

theorem wf_xList (n : ℕ) (ts : List ℕ) (ht : ∀ t ∈ ts, t < n) : WellFormed n (xList ts) := by
  intro g hg
  obtain ⟨q, hq, rfl⟩ := List.mem_map.mp hg
  exact (wf_single n q .X (ht q hq)) _ (by simp)

theorem xor_maskOf_cons (x t : ℕ) (ts : List ℕ) :
    x ^^^ maskOf (t :: ts) = (x ^^^ 2 ^ t) ^^^ maskOf ts := by
  have gen : ∀ (l : List ℕ) (m : ℕ), l.foldl (fun m t => m ^^^ 2 ^ t) m = m ^^^ maskOf l := by
    intro l
    induction l using List.reverseRec with
    | nil => intro m; simp [maskOf]
    | append_singleton l t ih =>
      intro m
      rw [List.foldl_append, maskOf_append, ih]
      simp [Nat.xor_assoc]
  have : maskOf (t :: ts) = 2 ^ t ^^^ maskOf ts := by
    unfold maskOf
    rw [List.foldl_cons, Nat.zero_xor]
    exact gen ts (2 ^ t)
  rw [this, Nat.xor_assoc]

/-- a list of X gates maps `|x⟩` to `|x xor mask⟩` -/
theorem xlist_col (n : ℕ) : ∀ (ts : List ℕ), (∀ t ∈ ts, t < n) → ∀ x, x < 2 ^ n →
    IsCol ζ ρ n (xList ts) x (x ^^^ maskOf ts) 1 := by
  intro ts
  induction ts with
  | nil => intro _ x hx; simpa [maskOf, xList] using IsCol.nil (ζ := ζ) (ρ := ρ) n x hx
  | cons t ts ih =>
    intro ht x hx
    have c1 := col_x (ζ := ζ) (ρ := ρ) n t (ht t (by simp)) x hx
    have c2 := ih (fun t' h => ht t' (by simp [h])) _ c1.1
    have := IsCol.append (A := [G .X [] [t]]) c1 c2 (wf_xList n ts (fun t' h => ht t' (by simp [h])))
    rw [one_mul, ← xor_maskOf_cons] at this
    exact this

theorem rotTargets_lt (n m : ℕ) : ∀ t ∈ rotTargets n m, t < n := by
  induction n with
  | zero => intro t h; simp [rotTargets] at h
  | succ n ih =>
    intro t h
    simp only [rotTargets, List.mem_append] at h
    rcases h with h | h
    · have := ih t h; omega
    · split at h
      · simp at h; omega
      · simp at h

theorem rotTargets_nodup (n m : ℕ) : (rotTargets n m).Nodup := by
  induction n with
  | zero => simp [rotTargets]
  | succ n ih =>
    simp only [rotTargets]
    split
    · rw [List.nodup_append]
      refine ⟨ih, by simp, ?_⟩
      intro a ha b hb
      have hbn : b = n := by simpa using hb
      have := rotTargets_lt n m a ha
      omega
    · simpa using ih

/-- the X prefix of `ComputationalBasisState.circuit` is the X list on the set bits -/
theorem xGates_toGate (n bits : ℕ) :
    (xGates n bits).map RGate.toGate = xList (rotTargets n bits) := by
  induction n with
  | zero => rfl
  | succ n ih =>
    simp only [xGates, rotTargets, List.map_append, ih, xList]
    split <;> rfl

/-- the X prefix prepares `|bits⟩` from `|0…0⟩` -/
theorem xGates_col (n bits : ℕ) (h : bits < 2 ^ n) :
    IsCol ζ ρ n ((xGates n bits).map RGate.toGate) 0 bits 1 := by
  have := xlist_col (ζ := ζ) (ρ := ρ) n (rotTargets n bits) (rotTargets_lt n bits) 0
    (Nat.two_pow_pos n)
  rw [Nat.zero_xor, maskOf_rotTargets, Nat.mod_eq_of_lt h] at this
  rw [xGates_toGate]
  exact this

/-- after a prefix that prepares `|a⟩`, the column is the column `a` of the rest -/
theorem col_after {n : ℕ} {A B : List Gate} {b0 a : ℕ} (hA : IsCol ζ ρ n A b0 a 1)
    (wfB : WellFormed n B) (r : ℕ) (hr : r < 2 ^ n) :
    semCirc ζ ρ (A ++ B) r b0 = semCirc ζ ρ B r a := by
  rw [semCirc_append, actCirc_eq_sum n B wfB _ r _ hr]
  rw [List.map_congr_left (g := fun k => semCirc ζ ρ B r k * (if k = a then (1 : K) else 0))
    (fun k hk => by rw [hA.2 k (List.mem_range.mp hk)])]
  rw [sum_ite_right _ _ hA.1, mul_one]

/-! ## 2. the all-X `PauliRotation` -/

theorem idFactors_allX (ts : List ℕ) :
    idFactors (List.zip ts (ts.map fun _ => 1)) = ts.map fun t => (t, P1.X) := by
  induction ts with
  | nil => rfl
  | cons t ts ih =>
    simp only [List.map_cons, List.zip_cons_cons]
    unfold idFactors at ih ⊢
    rw [List.filterMap_cons, ih]
    rfl

/-- the all-X `PauliRotation` with angle `β` on `ts` (`rotGate ts = allXRot ts rotAngle`) -/
def allXRot (ts : List ℕ) (β : Angle) : RGate :=
  { kind := .PauliRotation, targets := ts, paulis := ts.map (fun _ => 1), params := [β] }

/-- column `a` of the all-X `PauliRotation` on `ts`: `(v+w)·e_a − (v−w)·e_{a xor mask}` -/
theorem allX_rot_col (hζ : ζ ^ 8 = -1) (hρ : ∀ j, ρ j ≠ 0) (n : ℕ) (ts : List ℕ)
    (hnd : ts.Nodup) (hlt : ∀ t ∈ ts, t < n) (β : Angle) (r a : ℕ) (hr : r < 2 ^ n)
    (ha : a < 2 ^ n) :
    semCirc ζ ρ [RGate.toGate (allXRot ts β)] r a
      = (eval ζ ρ (β.ph 1) + eval ζ ρ (β.ph (-1))) * (if r = a then 1 else 0)
        - (eval ζ ρ (β.ph 1) - eval ζ ρ (β.ph (-1))) * (if r = a ^^^ maskOf ts then 1 else 0) := by
  have hP := pauli_gate_eq (ζ := ζ) (ρ := ρ) hζ n
    ({ (RGate.toGate (allXRot ts β)) with kind := .Pauli } : Gate) rfl rfl hnd hlt
    (by simp [allXRot, RGate.toGate]) r a hr ha
  have hx := (xlist_col (ζ := ζ) (ρ := ρ) n ts hlt a ha).2 r hr
  have efs : factorGates (idFactors (List.zip ts (ts.map fun _ => 1))) = xList ts := by
    rw [idFactors_allX]; simp [factorGates, xList, kindOfP1, List.map_map, Function.comp_def]
  have hP' : semCirc ζ ρ [({ (RGate.toGate (allXRot ts β)) with kind := .Pauli } : Gate)] r a
      = semCirc ζ ρ (factorGates (idFactors (List.zip ts (ts.map fun _ => 1)))) r a := hP
  have hwires : (RGate.toGate (allXRot ts β)).wires = ts := by
    simp [RGate.toGate, allXRot, Gate.wires]
  rw [semCirc_pauliRot hζ hρ n (RGate.toGate (allXRot ts β)) rfl (by rw [hwires]; exact hnd)
    (by rw [hwires]; exact hlt) rfl r a hr ha, hP', efs, hx]
  rfl

/-! ## 3. the prepared column -/

/-- column `0` of `X-prefix(a) · allXRot(a xor b) · RZ(d)`: amplitude `rz(a)·(v+w)` at `a`,
    `−rz(b)·(v−w)` at `b`, zero elsewhere -/
theorem sup_col_raw (hζ : ζ ^ 8 = -1) (hρ : ∀ j, ρ j ≠ 0) (n a b d : ℕ) (ha : a < 2 ^ n)
    (hb : b < 2 ^ n) (hd : d < n) (β : Angle) (rz : Gate) (hk : rz.kind = .RZ)
    (hw : rz.wires = [d]) (r : ℕ) (hr : r < 2 ^ n) :
    semCirc ζ ρ ((xGates n a).map RGate.toGate
        ++ [RGate.toGate (allXRot (rotTargets n (a ^^^ b)) β), rz]) r 0
      = (if Gate.bitAt r d = 0 then eval ζ ρ ((rz.p 0).ph (-1)) else eval ζ ρ ((rz.p 0).ph 1))
        * ((eval ζ ρ (β.ph 1) + eval ζ ρ (β.ph (-1))) * (if r = a then 1 else 0)
          - (eval ζ ρ (β.ph 1) - eval ζ ρ (β.ph (-1))) * (if r = b then 1 else 0)) := by
  have hts_lt := rotTargets_lt n (a ^^^ b)
  have hts_nd := rotTargets_nodup n (a ^^^ b)
  have wfPR : WellFormed n [RGate.toGate (allXRot (rotTargets n (a ^^^ b)) β)] := by
    intro g hg; simp only [List.mem_singleton] at hg; subst hg
    have : (RGate.toGate (allXRot (rotTargets n (a ^^^ b)) β)).wires = rotTargets n (a ^^^ b) := by
      simp [RGate.toGate, allXRot, Gate.wires]
    rw [this]; exact ⟨hts_nd, hts_lt⟩
  have wfrz : WellFormed n [rz] := by
    intro g hg; simp only [List.mem_singleton] at hg; subst hg
    rw [hw]; exact ⟨by simp, by intro w h; simp at h; omega⟩
  have hmask : a ^^^ maskOf (rotTargets n (a ^^^ b)) = b := by
    rw [maskOf_rotTargets, Nat.mod_eq_of_lt (Nat.xor_lt_two_pow ha hb), xor_xor_self_left]
  have e0 : [RGate.toGate (allXRot (rotTargets n (a ^^^ b)) β), rz]
      = [RGate.toGate (allXRot (rotTargets n (a ^^^ b)) β)] ++ [rz] := rfl
  rw [e0, col_after (xGates_col (ζ := ζ) (ρ := ρ) n a ha) (WellFormed.append wfPR wfrz) r hr]
  rw [semCirc_append, actCirc_eq_sum n [rz] wfrz _ r _ hr]
  rw [List.map_congr_left (g := fun k => (idMat r k : K) *
      ((if Gate.bitAt r d = 0 then eval ζ ρ ((rz.p 0).ph (-1)) else eval ζ ρ ((rz.p 0).ph 1))
        * semCirc ζ ρ [RGate.toGate (allXRot (rotTargets n (a ^^^ b)) β)] k a)) (fun k hkm => by
    have hk' := List.mem_range.mp hkm
    rw [(col_rz (ζ := ζ) (ρ := ρ) n d hd rz hk hw k hk').2 r hr]
    by_cases e : r = k
    · subst e; simp [idMat]
    · simp [idMat, e])]
  rw [sum_range_ite _ _ hr, allX_rot_col hζ hρ n _ hts_nd hts_lt β r a hr ha, hmask]

/-- `2 cos θ`, `2 sin θ`, `e^{iφ}`, `i^k` in the field (`ρ 0 = e^{iθ/2}`, `ρ 1 = e^{iφ/2}`, `ζ^4 = i`) -/
def twoCosK (ρ : ℕ → K) : K := ρ 0 ^ (2 : ℤ) + ρ 0 ^ (-2 : ℤ)
def twoSinK (ζ : K) (ρ : ℕ → K) : K := -(ζ ^ 4) * (ρ 0 ^ (2 : ℤ) - ρ 0 ^ (-2 : ℤ))
def ePhiK (ρ : ℕ → K) : K := ρ 1 ^ (2 : ℤ)
def iPowK (ζ : K) (k : ℤ) : K := ζ ^ (4 * k)

/-- the amplitude that the emitted `RZ` puts on `|b⟩` (and its inverse on `|a⟩`) -/
def rzU (ζ : K) (ρ : ℕ → K) (pa pb : ℤ) : K := ζ ^ (2 * (pb - pa) - 2) * ρ 1

/-- the global factor -/
def supPhase (ζ : K) (ρ : ℕ → K) (pa pb : ℤ) : K := (rzU ζ ρ pa pb)⁻¹ * iPowK ζ (-pa)

theorem theta_rotAngle : theta ζ ρ rotAngle = ρ 0 ^ (-2 : ℤ) := by
  simp [theta, rotAngle, evalExps]

theorem theta_rzAngle (sgn pa pb : ℤ) :
    theta ζ ρ (rzAngle sgn pa pb) = ζ ^ (sgn * (2 * (pb - pa) - 2)) * ρ 1 ^ sgn := by
  simp [theta, rzAngle, evalExps]

theorem rzU_ne_zero (hζ : ζ ^ 8 = -1) (hρ : ∀ j, ρ j ≠ 0) (pa pb : ℤ) : rzU ζ ρ pa pb ≠ 0 :=
  mul_ne_zero (zpow_ne_zero _ (zeta_ne_zero hζ)) (hρ 1)

theorem supPhase_ne_zero (hζ : ζ ^ 8 = -1) (hρ : ∀ j, ρ j ≠ 0) (pa pb : ℤ) :
    supPhase ζ ρ pa pb ≠ 0 :=
  mul_ne_zero (inv_ne_zero (rzU_ne_zero hζ hρ pa pb)) (zpow_ne_zero _ (zeta_ne_zero hζ))

/-- `U² = i^(pb−pa) · (−i) · e^{iφ}` -/
theorem rzU_sq (hζ : ζ ^ 8 = -1) (pa pb : ℤ) :
    rzU ζ ρ pa pb * rzU ζ ρ pa pb = iPowK ζ (-pa) * ePhiK ρ * (-(ζ ^ 4)) * iPowK ζ pb := by
  have h0 := zeta_ne_zero hζ
  unfold rzU iPowK ePhiK
  have e1 : ζ ^ (2 * (pb - pa) - 2) * ζ ^ (2 * (pb - pa) - 2)
      = ζ ^ (4 * -pa) * ζ ^ (-4 : ℤ) * ζ ^ (4 * pb) := by
    rw [← zpow_add₀ h0, ← zpow_add₀ h0, ← zpow_add₀ h0]; congr 1; ring
  have e2 : ρ 1 * ρ 1 = ρ 1 ^ (2 : ℤ) := by rw [zpow_ofNat]; ring
  calc ζ ^ (2 * (pb - pa) - 2) * ρ 1 * (ζ ^ (2 * (pb - pa) - 2) * ρ 1)
      = (ζ ^ (2 * (pb - pa) - 2) * ζ ^ (2 * (pb - pa) - 2)) * (ρ 1 * ρ 1) := by ring
    _ = _ := by rw [e1, e2, zeta_zpow_neg4 hζ]; ring

theorem iPowK_cancel (hζ : ζ ^ 8 = -1) (k : ℤ) : iPowK ζ (-k) * iPowK ζ k = 1 := by
  unfold iPowK
  rw [← zpow_add₀ (zeta_ne_zero hζ)]
  have : 4 * -k + 4 * k = 0 := by ring
  rw [this, zpow_zero]

/-- the `RZ` angle of the model, as the amplitude `U` / `U⁻¹` -/
theorem theta_rz_pos (pa pb : ℤ) : theta ζ ρ (rzAngle 1 pa pb) = rzU ζ ρ pa pb := by
  rw [theta_rzAngle]; simp [rzU]

theorem theta_rz_neg (pa pb : ℤ) :
    theta ζ ρ (rzAngle (-1) pa pb) = (rzU ζ ρ pa pb)⁻¹ := by
  rw [theta_rzAngle]
  unfold rzU
  rw [mul_inv, ← zpow_neg, zpow_neg_one]
  congr 2
  ring

/-- **`comp_basis_superposition`, a ≠ b**: with `d` a bit where `a` and `b` differ and the sign the
    model chooses, column `0` of the emitted circuit is
    `supPhase · ( 2cos θ · i^pa · e_a + e^{iφ} · 2 sin θ · i^pb · e_b )`, `supPhase ≠ 0` -/
theorem sup_col (hζ : ζ ^ 8 = -1) (hρ : ∀ j, ρ j ≠ 0) (n a b d : ℕ) (ha : a < 2 ^ n)
    (hb : b < 2 ^ n) (hd : d < n) (hab : a.testBit d ≠ b.testBit d) (pa pb : ℤ)
    (r : ℕ) (hr : r < 2 ^ n) :
    semCirc ζ ρ ((xGates n a).map RGate.toGate
        ++ [RGate.toGate (rotGate (rotTargets n (a ^^^ b))),
            RGate.toGate (rzGate d (if b.testBit d then 1 else -1) pa pb)]) r 0
      = supPhase ζ ρ pa pb *
        (if r = a then twoCosK ρ * iPowK ζ pa
         else if r = b then ePhiK ρ * twoSinK ζ ρ * iPowK ζ pb else 0) := by
  have hne : a ≠ b := fun e => hab (by rw [e])
  have hU := rzU_ne_zero (ζ := ζ) (ρ := ρ) hζ hρ pa pb
  have hraw := sup_col_raw (ζ := ζ) (ρ := ρ) hζ hρ n a b d ha hb hd rotAngle
    (RGate.toGate (rzGate d (if b.testBit d then 1 else -1) pa pb)) rfl rfl r hr
  have e0 : rotGate (rotTargets n (a ^^^ b)) = allXRot (rotTargets n (a ^^^ b)) rotAngle := rfl
  rw [e0, hraw]
  have hp : (RGate.toGate (rzGate d (if b.testBit d then 1 else -1) pa pb)).p 0
      = rzAngle (if b.testBit d then 1 else -1) pa pb := rfl
  rw [hp]
  simp only [eval_ph hζ, theta_rotAngle, zpow_one, zpow_neg_one]
  have hv : (ρ 0 ^ (-2 : ℤ))⁻¹ = ρ 0 ^ (2 : ℤ) := by rw [← zpow_neg]; norm_num
  rw [hv]
  -- amplitude of the RZ on r = a and r = b
  have hbita := bitAt_eq_testBit a d
  have hbitb := bitAt_eq_testBit b d
  have hsq := rzU_sq (ζ := ζ) (ρ := ρ) hζ pa pb
  have hcan := iPowK_cancel (ζ := ζ) hζ pa
  by_cases hbd : b.testBit d = true
  · have had : a.testBit d = false := by
      cases h : a.testBit d
      · rfl
      · exact absurd (h.trans hbd.symm) hab
    simp only [hbd, if_true, theta_rz_pos]
    by_cases e1 : r = a
    · subst e1
      rw [hbita, had]
      simp only [if_neg hne, Bool.false_eq_true, if_false, if_true]
      unfold supPhase twoCosK
      linear_combination (-((rzU ζ ρ pa pb)⁻¹ * (ρ 0 ^ (2 : ℤ) + ρ 0 ^ (-2 : ℤ)))) * hcan
    · by_cases e2 : r = b
      · subst e2
        rw [hbitb, hbd]
        simp only [if_neg e1, if_true, if_false, one_ne_zero]
        unfold supPhase twoSinK
        have hinv : (rzU ζ ρ pa pb)⁻¹ * rzU ζ ρ pa pb = 1 := inv_mul_cancel₀ hU
        linear_combination (-(rzU ζ ρ pa pb * (ρ 0 ^ (2 : ℤ) - ρ 0 ^ (-2 : ℤ)))) * hinv
          + ((rzU ζ ρ pa pb)⁻¹ * (ρ 0 ^ (2 : ℤ) - ρ 0 ^ (-2 : ℤ))) * hsq
      · simp [e1, e2]
  · have hbd' : b.testBit d = false := by simpa using hbd
    have had : a.testBit d = true := by
      cases h : a.testBit d
      · exact absurd (h.trans hbd'.symm) hab
      · rfl
    simp only [hbd', Bool.false_eq_true, if_false, theta_rz_neg, inv_inv]
    by_cases e1 : r = a
    · subst e1
      rw [hbita, had]
      simp only [if_neg hne, if_true, one_ne_zero, if_false]
      unfold supPhase twoCosK
      linear_combination (-((rzU ζ ρ pa pb)⁻¹ * (ρ 0 ^ (2 : ℤ) + ρ 0 ^ (-2 : ℤ)))) * hcan
    · by_cases e2 : r = b
      · subst e2
        rw [hbitb, hbd']
        simp only [if_neg e1, Bool.false_eq_true, if_false, if_true]
        unfold supPhase twoSinK
        have hinv : (rzU ζ ρ pa pb)⁻¹ * rzU ζ ρ pa pb = 1 := inv_mul_cancel₀ hU
        linear_combination (-(rzU ζ ρ pa pb * (ρ 0 ^ (2 : ℤ) - ρ 0 ^ (-2 : ℤ)))) * hinv
          + ((rzU ζ ρ pa pb)⁻¹ * (ρ 0 ^ (2 : ℤ) - ρ 0 ^ (-2 : ℤ))) * hsq
      · simp [e1, e2]

/-- **`comp_basis_superposition`, a = b**: the model returns the X prefix only (θ, φ are ignored);
    column `0` is exactly `e_a` -/
theorem sup_col_same (n a : ℕ) (ha : a < 2 ^ n) (r : ℕ) (hr : r < 2 ^ n) :
    semCirc ζ ρ ((xGates n a).map RGate.toGate) r 0 = if r = a then 1 else 0 :=
  (xGates_col (ζ := ζ) (ρ := ρ) n a ha).2 r hr

/-! ### link to the model: `supCircuit`, and the ring elements of `Props/C16` -/

/-- **the circuit the model emits**: whenever `comp_basis_superposition` returns a circuit for
    `a ≠ b` (same qubit count, both in range), column `0` of its operator is
    `supPhase · (2cos θ·i^pa·e_a + e^{iφ}·2 sin θ·i^pb·e_b)` with `supPhase ≠ 0` -/
theorem supCircuit_col (hζ : ζ ^ 8 = -1) (hρ : ∀ j, ρ j ≠ 0) (sa sb : CB) (gs : List RGate)
    (hn : sa.n = sb.n) (hwa : sa.wf) (hwb : sb.wf) (hne : sa.bits ≠ sb.bits)
    (h : supCircuit sa sb = .ok gs) (r : ℕ) (hr : r < 2 ^ sa.n) :
    semCirc ζ ρ (gs.map RGate.toGate) r 0
      = supPhase ζ ρ sa.phase sb.phase *
        (if r = sa.bits then twoCosK ρ * iPowK ζ sa.phase
         else if r = sb.bits then ePhiK ρ * twoSinK ζ ρ * iPowK ζ sb.phase else 0) := by
  obtain ⟨d, hd, hgs⟩ := supCircuit_shape sa sb gs hn hne h
  have hbit := (lowestFrom_spec _ _ _ _ hd).1
  unfold CB.wf at hwa hwb
  rw [← hn] at hwb
  have hx : sa.bits ^^^ sb.bits < 2 ^ sa.n := Nat.xor_lt_two_pow hwa hwb
  have hdn : d < sa.n := by
    apply Decidable.byContradiction
    intro hc
    have : sa.bits ^^^ sb.bits < 2 ^ d :=
      lt_of_lt_of_le hx (Nat.pow_le_pow_right (by norm_num) (by omega))
    rw [Nat.testBit_lt_two_pow this] at hbit
    cases hbit
  have hab : sa.bits.testBit d ≠ sb.bits.testBit d := by
    rw [Nat.testBit_xor] at hbit
    intro e; rw [e] at hbit; simp at hbit
  rw [hgs, List.map_append]
  exact sup_col hζ hρ sa.n sa.bits sb.bits d hwa hwb hdn hab sa.phase sb.phase r hr

/-- the a = b case of the model -/
theorem supCircuit_col_same (sa sb : CB) (gs : List RGate) (hn : sa.n = sb.n) (hwa : sa.wf)
    (he : sa.bits = sb.bits) (h : supCircuit sa sb = .ok gs) (r : ℕ) (hr : r < 2 ^ sa.n) :
    semCirc ζ ρ (gs.map RGate.toGate) r 0 = if r = sa.bits then 1 else 0 := by
  unfold supCircuit at h
  simp only [hn, ne_eq, not_true_eq_false, if_false, he, if_true] at h
  have : gs = xGates sa.n sa.bits := by
    have := (Except.ok.inj h).symm
    rw [this, hn, he]
  rw [this]
  exact sup_col_same sa.n sa.bits hwa r hr

/-- the field constants are the values of the ring elements used in `Props/C16` -/
theorem eval_twoCos (hζ : ζ ^ 8 = -1) : eval ζ ρ C16.twoCos = twoCosK ρ := by
  unfold C16.twoCos twoCosK
  rw [eval_add, eval_phase hζ, eval_phase hζ]
  simp [evalExps]

theorem eval_ePhi (hζ : ζ ^ 8 = -1) : eval ζ ρ C16.ePhi = ePhiK ρ := by
  unfold C16.ePhi ePhiK
  rw [eval_phase hζ]
  simp [evalExps]

theorem eval_iPowP (hζ : ζ ^ 8 = -1) (k : ℤ) : eval ζ ρ (C16.iPowP k) = iPowK ζ k := by
  unfold C16.iPowP iPowK
  exact eval_uPow hζ _

theorem eval_twoSin (hζ : ζ ^ 8 = -1) (hρ : ∀ j, ρ j ≠ 0) : eval ζ ρ C16.twoSin = twoSinK ζ ρ := by
  unfold C16.twoSin twoSinK
  rw [eval_neg, eval_mul hζ hρ, eval_sub, eval_phase hζ, eval_phase hζ, eval_I]
  simp [evalExps]

/-- `targetA pa = 2cos θ · i^pa`, `targetB pb = e^{iφ} · 2 sin θ · i^pb` -/
theorem eval_targetA (hζ : ζ ^ 8 = -1) (hρ : ∀ j, ρ j ≠ 0) (pa : ℤ) :
    eval ζ ρ (C16.targetA pa) = twoCosK ρ * iPowK ζ pa := by
  unfold C16.targetA
  rw [eval_mul hζ hρ, eval_twoCos hζ, eval_iPowP hζ]

theorem eval_targetB (hζ : ζ ^ 8 = -1) (hρ : ∀ j, ρ j ≠ 0) (pb : ℤ) :
    eval ζ ρ (C16.targetB pb) = ePhiK ρ * twoSinK ζ ρ * iPowK ζ pb := by
  unfold C16.targetB
  rw [eval_mul hζ hρ, eval_mul hζ hρ, eval_ePhi hζ, eval_twoSin hζ hρ, eval_iPowP hζ]
  ring

/-- `globalPhase` of `Model/C16` evaluates to `supPhase` -/
theorem eval_globalPhase (hζ : ζ ^ 8 = -1) (hρ : ∀ j, ρ j ≠ 0) (bd : Bool) (pa pb : ℤ) :
    eval ζ ρ (C16.globalPhase bd pa pb) = supPhase ζ ρ pa pb := by
  unfold C16.globalPhase supPhase
  simp only []
  rw [eval_mul hζ hρ, eval_iPowP hζ]
  congr 1
  cases bd
  · simp only [Bool.false_eq_true, if_false]
    rw [eval_ph hζ, zpow_one, theta_rz_neg]
  · simp only [if_true]
    rw [eval_ph hζ, zpow_neg_one, theta_rz_pos]

end QV.MatSound
