import QuriVerif.Proof.PassSound4
import QuriVerif.Model.C12
/-
  C12 over the concrete operator semantics (`semCirc`), generic field part.

    * §1  `GOpEqv` (operator equal up to a non-zero scalar, gate lists), contexts;
    * §2  `InvOK` (per-gate fact: `[g, inv g]` acts as a non-zero multiple of the identity on the
          `2^n` block), `inverse_circuit_scalar`, `fold_scalar` for the model's `inverseCircuit`,
          `foldCircuit`;
    * §3  rows of an inverse table as two-list templates `[g, g'] ∝ []` (`rowOK`), the inverse
          function `invGate` read off the rows, and `invOK_of_row`: every gate of matching shape
          satisfies `InvOK`.
-/
namespace QV.MatSound
open QV QV.Poly QV.C01 QV.C12

variable {K : Type} [Field K] {ζ : K} {ρ : ℕ → K}

/-! ## 1. operator equivalence of gate lists -/

variable (ζ ρ) in
/-- `⟦b⟧ = z·⟦a⟧` on the `2^n × 2^n` block, `z ≠ 0` -/
def GOpEqv (n : ℕ) (a b : List Gate) : Prop :=
  ∃ z : K, z ≠ 0 ∧ ∀ r, r < 2 ^ n → ∀ j, j < 2 ^ n → semCirc ζ ρ b r j = z * semCirc ζ ρ a r j

theorem GOpEqv.refl (n : ℕ) (a : List Gate) : GOpEqv ζ ρ n a a :=
  ⟨1, one_ne_zero, fun _ _ _ _ => (one_mul _).symm⟩

theorem GOpEqv.trans {n : ℕ} {a b c : List Gate} (h1 : GOpEqv ζ ρ n a b) (h2 : GOpEqv ζ ρ n b c) :
    GOpEqv ζ ρ n a c := by
  obtain ⟨z1, hz1, e1⟩ := h1
  obtain ⟨z2, hz2, e2⟩ := h2
  exact ⟨z2 * z1, mul_ne_zero hz2 hz1, fun r hr j hj => by rw [e2 r hr j hj, e1 r hr j hj, mul_assoc]⟩

/-- congruence for contexts `pre ++ _ ++ post` -/
theorem GOpEqv.context {n : ℕ} (pre post : List Gate) {a b : List Gate} (ha : WellFormed n a)
    (hb : WellFormed n b) (hpost : WellFormed n post) (h : GOpEqv ζ ρ n a b) :
    GOpEqv ζ ρ n (pre ++ a ++ post) (pre ++ b ++ post) := by
  obtain ⟨z, hz, hab⟩ := h
  exact ⟨z, hz, fun r hr j _ =>
    replace_sound n pre b a post hb ha hpost z (fun r hr k hk => hab r hr k hk) r hr j⟩

theorem WellFormed.append {n : ℕ} {a b : List Gate} (ha : WellFormed n a) (hb : WellFormed n b) :
    WellFormed n (a ++ b) := by
  intro g hg
  rcases List.mem_append.mp hg with h | h
  · exact ha g h
  · exact hb g h

theorem WellFormed.nil (n : ℕ) : WellFormed n [] := fun _ h => by simp at h

/-! ## 2. inverse circuits and folding -/

variable (ζ ρ) in
/-- the per-gate fact: `g` followed by `inv g` is a non-zero multiple of the identity -/
structure InvOK (n : ℕ) (inv : Gate → Gate) (g : Gate) : Prop where
  wf : WellFormed n [g, inv g]
  one : ∃ z : K, z ≠ 0 ∧ ∀ r, r < 2 ^ n → ∀ j, j < 2 ^ n →
    semCirc ζ ρ [g, inv g] r j = z * idMat r j

theorem InvOK.eqv {n : ℕ} {inv : Gate → Gate} {g : Gate} (h : InvOK ζ ρ n inv g) :
    GOpEqv ζ ρ n [] [g, inv g] := h.one

theorem InvOK.wf_g {n : ℕ} {inv : Gate → Gate} {g : Gate} (h : InvOK ζ ρ n inv g) :
    WellFormed n [g] := fun g' hg' => h.wf g' (by simp at hg'; simp [hg'])

theorem InvOK.wf_inv {n : ℕ} {inv : Gate → Gate} {g : Gate} (h : InvOK ζ ρ n inv g) :
    WellFormed n [inv g] := fun g' hg' => h.wf g' (by simp at hg'; simp [hg'])

theorem wf_inverseCircuit {n : ℕ} {inv : Gate → Gate} (c : List Gate)
    (h : ∀ g ∈ c, InvOK ζ ρ n inv g) : WellFormed n (inverseCircuit inv c) := by
  intro g' hg'
  unfold inverseCircuit at hg'
  obtain ⟨g, hg, rfl⟩ := List.mem_map.mp (List.mem_reverse.mp hg')
  exact (h g hg).wf_inv _ (by simp)

/-- **`inverse_circuit`**: a circuit followed by its gate-wise inverse (reversed) acts as a non-zero
    multiple of the identity -/
theorem inverse_circuit_scalar (n : ℕ) (inv : Gate → Gate) (c : List Gate)
    (h : ∀ g ∈ c, InvOK ζ ρ n inv g) : GOpEqv ζ ρ n [] (c ++ inverseCircuit inv c) := by
  induction c using List.reverseRec with
  | nil => exact GOpEqv.refl n []
  | append_singleton c g ih =>
    have hc : ∀ g' ∈ c, InvOK ζ ρ n inv g' := fun g' hg' => h g' (by simp [hg'])
    have hg := h g (by simp)
    have e : (c ++ [g]) ++ inverseCircuit inv (c ++ [g]) = c ++ [g, inv g] ++ inverseCircuit inv c := by
      simp [inverseCircuit]
    rw [e]
    have h1 := GOpEqv.context (ζ := ζ) (ρ := ρ) c (inverseCircuit inv c) (WellFormed.nil n) hg.wf
      (wf_inverseCircuit c hc) hg.eqv
    rw [List.append_nil] at h1
    exact (ih hc).trans h1

theorem mem_foldBlocks {inv : Gate → Gate} {g x : Gate} :
    ∀ m, x ∈ foldBlocks inv g m → x = g ∨ x = inv g
  | 0, h => by simp [foldBlocks] at h
  | m + 1, h => by
    simp only [foldBlocks, List.mem_cons] at h
    rcases h with h | h | h
    · exact Or.inr h
    · exact Or.inl h
    · exact mem_foldBlocks m h

theorem wf_foldBlocks {n : ℕ} {inv : Gate → Gate} {g : Gate} (h : InvOK ζ ρ n inv g) (m : ℕ) :
    WellFormed n (foldBlocks inv g m) := by
  intro x hx
  rcases mem_foldBlocks m hx with rfl | rfl
  · exact h.wf _ (by simp)
  · exact h.wf _ (by simp)

/-- `g (g⁻¹ g)^m ≈ g` -/
theorem foldBlocks_eqv {n : ℕ} {inv : Gate → Gate} {g : Gate} (h : InvOK ζ ρ n inv g) :
    ∀ m, GOpEqv ζ ρ n [g] (g :: foldBlocks inv g m) := by
  intro m
  induction m with
  | zero => exact GOpEqv.refl n [g]
  | succ m ih =>
    have e : g :: foldBlocks inv g (m + 1) = [] ++ [g, inv g] ++ (g :: foldBlocks inv g m) := by
      simp [foldBlocks]
    rw [e]
    have wfp : WellFormed n (g :: foldBlocks inv g m) :=
      WellFormed.append (a := [g]) h.wf_g (wf_foldBlocks h m)
    have h1 := GOpEqv.context (ζ := ζ) (ρ := ρ) [] (g :: foldBlocks inv g m) (WellFormed.nil n) h.wf
      wfp h.eqv
    exact ih.trans (by simpa using h1)

theorem wf_foldFrom {n : ℕ} {inv : Gate → Gate} (k : ℕ) (added : List ℕ) :
    ∀ (c : List Gate) (i : ℕ), (∀ g ∈ c, InvOK ζ ρ n inv g) →
      WellFormed n (foldFrom inv k added i c)
  | [], _, _ => WellFormed.nil n
  | g :: c, i, h => by
    simp only [foldFrom, foldGate]
    exact WellFormed.append
      (WellFormed.append (a := [g]) (h g (by simp)).wf_g (wf_foldBlocks (h g (by simp)) _))
      (wf_foldFrom k added c (i + 1) (fun g' hg' => h g' (by simp [hg'])))

theorem wf_of_invOK {n : ℕ} {inv : Gate → Gate} (c : List Gate) (h : ∀ g ∈ c, InvOK ζ ρ n inv g) :
    WellFormed n c := fun g hg => (h g hg).wf_g g (by simp)

theorem foldFrom_eqv {n : ℕ} {inv : Gate → Gate} (k : ℕ) (added : List ℕ) :
    ∀ (c : List Gate) (i : ℕ), (∀ g ∈ c, InvOK ζ ρ n inv g) →
      GOpEqv ζ ρ n c (foldFrom inv k added i c)
  | [], _, _ => GOpEqv.refl n []
  | g :: c, i, h => by
    have hg := h g (by simp)
    have hc : ∀ g' ∈ c, InvOK ζ ρ n inv g' := fun g' hg' => h g' (by simp [hg'])
    have ih := foldFrom_eqv k added c (i + 1) hc
    have wfF := wf_foldFrom (ζ := ζ) (ρ := ρ) k added c (i + 1) hc
    simp only [foldFrom, foldGate]
    -- g :: c  ≈  [g] ++ F  ≈  (g :: blocks) ++ F
    have s1 : GOpEqv ζ ρ n (g :: c) ([g] ++ foldFrom inv k added (i + 1) c) := by
      have := GOpEqv.context (ζ := ζ) (ρ := ρ) [g] [] (wf_of_invOK c hc) wfF (WellFormed.nil n) ih
      simpa using this
    have s2 : GOpEqv ζ ρ n ([g] ++ foldFrom inv k added (i + 1) c)
        ((g :: foldBlocks inv g (k + if added.contains i = true then 1 else 0))
          ++ foldFrom inv k added (i + 1) c) := by
      have := GOpEqv.context (ζ := ζ) (ρ := ρ) [] (foldFrom inv k added (i + 1) c) hg.wf_g
        (WellFormed.append (a := [g]) hg.wf_g
          (wf_foldBlocks hg (k + if added.contains i = true then 1 else 0))) wfF
        (foldBlocks_eqv hg (k + if added.contains i = true then 1 else 0))
      simpa using this
    exact s1.trans s2

/-- **`scaling_circuit_folding`**: every folding (global folds and any selection of locally folded
    gates) has the operator of the original circuit up to a non-zero scalar -/
theorem fold_scalar (n : ℕ) (inv : Gate → Gate) (k : ℕ) (added : List ℕ) (c : List Gate)
    (h : ∀ g ∈ c, InvOK ζ ρ n inv g) : GOpEqv ζ ρ n c (foldCircuit inv k added c) :=
  foldFrom_eqv k added c 0 h

end QV.MatSound

/-! ## 3. rows of an inverse table -/

namespace QV.C12
open QV QV.C01

/-- a row of the inverse table on `nq` template wires: a gate with variable parameters and the gate
    that `inverse_gate` returns for it -/
abbrev InvRow := Nat × Gate × Gate

/-- read a generated two-gate list as a row -/
def rowOf (nq : Nat) (l : List Gate) : Option InvRow :=
  match l with
  | [t, t'] => some (nq, t, t')
  | _ => none

/-- `[t, t'] ∝ 1` as a two-list template -/
def rowT2 (r : InvRow) : Template2 := ⟨r.1, [r.2.1, r.2.2], []⟩

/-- certificate of one row: the pair is a non-zero multiple of the identity for all angles
    (`tpl2OK`), the gate sits on wires `0..nq-1` (controls first) with parameters `φ₀, φ₁, …`, and
    the inverse acts on the same wires -/
def rowOK (r : InvRow) : Bool :=
  tpl2OK (rowT2 r) &&
  decide (r.2.1.controls = List.range r.2.1.controls.length) &&
  decide (r.2.1.targets = (List.range r.2.1.targets.length).map (· + r.2.1.controls.length)) &&
  decide (r.1 = r.2.1.controls.length + r.2.1.targets.length) &&
  decide (r.2.1.params = Angle.vars r.2.1.params.length) &&
  decide (r.2.2.controls = r.2.1.controls) && decide (r.2.2.targets = r.2.1.targets) &&
  decide (r.2.2.paulis = r.2.1.paulis)

/-- the row for a kind -/
def findRow (rows : List InvRow) (k : Kind) : Option InvRow := rows.find? fun r => r.2.1.kind == k

/-- `inverse_gate` as described by the table: same wires, kind and parameters of the row's inverse,
    instantiated at the gate's own parameters (gates without a row are returned unchanged) -/
def invGate (rows : List InvRow) (g : Gate) : Gate :=
  match findRow rows g.kind with
  | some r => { g with kind := r.2.2.kind, params := r.2.2.params.map (Angle.subst g.params) }
  | none => g

/-- side condition on a gate of the circuit: distinct wires `< n`, and a row of matching arity -/
def gateShapeOK (n : Nat) (rows : List InvRow) (g : Gate) : Bool :=
  decide (g.wires.Nodup) && g.wires.all (· < n) &&
  match findRow rows g.kind with
  | some r => g.controls.length == r.2.1.controls.length &&
      g.targets.length == r.2.1.targets.length && g.params.length == r.2.1.params.length &&
      g.paulis == r.2.1.paulis
  | none => false

/-- decidable well-formedness of a symbolic circuit w.r.t. an inverse table -/
def CircInvOK (n : Nat) (rows : List InvRow) (c : List Gate) : Prop :=
  c.all (gateShapeOK n rows) = true

instance (n : Nat) (rows : List InvRow) (c : List Gate) : Decidable (CircInvOK n rows c) := by
  unfold CircInvOK; infer_instance

end QV.C12

namespace QV.MatSound
open QV QV.Poly QV.C01 QV.C12

variable {K : Type} [Field K] {ζ : K} {ρ : ℕ → K}

theorem findRow_some {rows : List InvRow} {k : Kind} {r : InvRow} (h : findRow rows k = some r) :
    r ∈ rows ∧ r.2.1.kind = k := by
  unfold findRow at h
  exact ⟨List.mem_of_find?_eq_some h, by simpa using List.find?_some h⟩

/-- a gate is the placed, substituted target of a row of matching shape (symbolic version of
    `target_eqv`) -/
theorem gate_target_eqv (hζ : ζ ^ 8 = -1) (hρ : ∀ j, ρ j ≠ 0) (t g : Gate)
    (hk : t.kind = g.kind) (hU : g.kind ≠ .UnitaryMatrix)
    (hc : t.controls = List.range g.controls.length)
    (ht : t.targets = (List.range g.targets.length).map (· + g.controls.length))
    (hp : t.paulis = g.paulis) (hpar : t.params = Angle.vars g.params.length) :
    GateEqv ζ ρ g ((t.subst g.params).relabel fun i => g.wires.getD i 0) := by
  refine ⟨hk.symm, hU, ?_, ?_, hp.symm, fun i => ?_⟩
  · show g.controls = t.controls.map fun i => (g.controls ++ g.targets).getD i 0
    rw [hc]; exact (range_map_getD_left _ _).symm
  · show g.targets = t.targets.map fun i => (g.controls ++ g.targets).getD i 0
    rw [ht]; exact (range_map_getD_right _ _).symm
  · show theta ζ ρ (g.params.getD i {})
      = theta ζ ρ ((t.params.map (Angle.subst g.params)).getD i {})
    rw [hpar, getD_map_subst, theta_subst hζ hρ]
    by_cases hi : i < g.params.length
    · rw [Angle.vars, getD_map_range _ _ _ _ hi, theta_var]; rfl
    · rw [Angle.vars, getD_ge _ _ (by omega), getD_ge _ _ (by simp; omega), theta_default,
        theta_default]

/-- **every gate matching a certified row is inverted correctly**, at every placement and for all
    affine angle arguments -/
theorem invOK_of_row (hζ : ζ ^ 8 = -1) (hρ : ∀ j, ρ j ≠ 0) (h2 : (2 : K) ≠ 0)
    (rows : List InvRow) (hrows : ∀ r ∈ rows, rowOK r = true) (n : ℕ) (g : Gate)
    (hg : gateShapeOK n rows g = true) : InvOK ζ ρ n (invGate rows) g := by
  simp only [gateShapeOK, Bool.and_eq_true, decide_eq_true_eq, List.all_eq_true] at hg
  obtain ⟨⟨hnd, hlt⟩, hm⟩ := hg
  have hlt' : ∀ w ∈ g.wires, w < n := fun w hw => by simpa using hlt w hw
  cases hf : findRow rows g.kind with
  | none => rw [hf] at hm; simp at hm
  | some r =>
    rw [hf] at hm
    simp only [Bool.and_eq_true, beq_iff_eq] at hm
    obtain ⟨⟨⟨s1, s2⟩, s3⟩, s4⟩ := hm
    obtain ⟨hr, hk⟩ := findRow_some hf
    have hok := hrows r hr
    simp only [rowOK, Bool.and_eq_true, decide_eq_true_eq] at hok
    obtain ⟨⟨⟨⟨⟨⟨⟨hT, h1⟩, h2'⟩, h3⟩, h4⟩, h5⟩, h6⟩, h7⟩ := hok
    have hT' := hT
    simp only [tpl2OK, rowT2, Bool.and_eq_true, decide_eq_true_eq, List.all_eq_true] at hT'
    obtain ⟨⟨⟨⟨_, _⟩, _⟩, hUl⟩, _⟩ := hT'
    have hU1 : r.2.1.kind ≠ .UnitaryMatrix := hUl _ (by simp)
    have hU2 : r.2.2.kind ≠ .UnitaryMatrix := hUl _ (by simp)
    have hgU : g.kind ≠ .UnitaryMatrix := hk ▸ hU1
    have einv : invGate rows g
        = { g with kind := r.2.2.kind, params := r.2.2.params.map (Angle.subst g.params) } := by
      unfold invGate; rw [hf]
    have hnq : r.1 = g.wires.length := by
      rw [h3, Gate.wires, List.length_append, s1, s2]
    have P : Placement (fun i => g.wires.getD i 0) r.1 n := by
      rw [hnq]; exact placement_of_nodup _ n hnd hlt'
    have e1 := gate_target_eqv hζ hρ r.2.1 g hk hgU (by rw [h1, s1]) (by rw [h2', s1, s2]) s4.symm
      (by rw [h4, s3])
    have e2 : GateEqv ζ ρ (invGate rows g)
        ((r.2.2.subst g.params).relabel fun i => g.wires.getD i 0) := by
      rw [einv]
      refine ⟨rfl, hU2, ?_, ?_, ?_, fun i => rfl⟩
      · show g.controls = r.2.2.controls.map _
        rw [h5]; exact e1.controls
      · show g.targets = r.2.2.targets.map _
        rw [h6]; exact e1.targets
      · show g.paulis = r.2.2.paulis
        rw [h7]; exact s4
    have wf : WellFormed n [g, invGate rows g] := by
      intro x hx
      simp only [List.mem_cons, List.not_mem_nil, or_false] at hx
      rcases hx with rfl | rfl
      · exact ⟨hnd, hlt'⟩
      · rw [einv]; exact ⟨hnd, hlt'⟩
    refine ⟨wf, ?_⟩
    obtain ⟨c, hc, hs⟩ := instance_sound_nz2 hζ hρ h2 (rowT2 r) hT P g.params
    refine ⟨c, hc, fun x hx j hj => ?_⟩
    have hev : List.Forall₂ (GateEqv ζ ρ) [g, invGate rows g]
        (((rowT2 r).lhs.map (Gate.subst g.params)).map (Gate.relabel fun i => g.wires.getD i 0)) :=
      List.Forall₂.cons e1 (List.Forall₂.cons e2 List.Forall₂.nil)
    rw [semCirc_congr_eqv hζ hρ hev, hs x hx j hj]
    rfl

/-- **a certified row, placed and instantiated**: the pair acts as a non-zero multiple of the
    identity on the `2^n` block, for every placement and all affine angle arguments -/
theorem pair_identity (hζ : ζ ^ 8 = -1) (hρ : ∀ j, ρ j ≠ 0) (h2 : (2 : K) ≠ 0) (r : InvRow)
    (hr : rowOK r = true) {σ : ℕ → ℕ} {n : ℕ} (P : Placement σ r.1 n) (as : List Angle) :
    ∃ c : K, c ≠ 0 ∧ ∀ x, x < 2 ^ n → ∀ j, j < 2 ^ n →
      semCirc ζ ρ [(r.2.1.subst as).relabel σ, (r.2.2.subst as).relabel σ] x j = c * idMat x j := by
  simp only [rowOK, Bool.and_eq_true] at hr
  obtain ⟨c, hc, hs⟩ := instance_sound_nz2 hζ hρ h2 (rowT2 r) hr.1.1.1.1.1.1.1 P as
  exact ⟨c, hc, fun x hx j hj => hs x hx j hj⟩

theorem invOK_of_circ (hζ : ζ ^ 8 = -1) (hρ : ∀ j, ρ j ≠ 0) (h2 : (2 : K) ≠ 0)
    (rows : List InvRow) (hrows : ∀ r ∈ rows, rowOK r = true) (n : ℕ) (c : List Gate)
    (hc : CircInvOK n rows c) : ∀ g ∈ c, InvOK ζ ρ n (invGate rows) g :=
  fun g hg => invOK_of_row hζ hρ h2 rows hrows n g (List.all_eq_true.mp hc g hg)

/-- inverse circuits, for circuits over the kinds of a certified table -/
theorem inverse_circuit_rows (hζ : ζ ^ 8 = -1) (hρ : ∀ j, ρ j ≠ 0) (h2 : (2 : K) ≠ 0)
    (rows : List InvRow) (hrows : ∀ r ∈ rows, rowOK r = true) (n : ℕ) (c : List Gate)
    (hc : CircInvOK n rows c) :
    GOpEqv ζ ρ n [] (c ++ inverseCircuit (invGate rows) c) :=
  inverse_circuit_scalar n _ c (invOK_of_circ hζ hρ h2 rows hrows n c hc)

/-- folding, for circuits over the kinds of a certified table -/
theorem fold_rows (hζ : ζ ^ 8 = -1) (hρ : ∀ j, ρ j ≠ 0) (h2 : (2 : K) ≠ 0)
    (rows : List InvRow) (hrows : ∀ r ∈ rows, rowOK r = true) (n k : ℕ) (added : List ℕ)
    (c : List Gate) (hc : CircInvOK n rows c) :
    GOpEqv ζ ρ n c (foldCircuit (invGate rows) k added c) :=
  fold_scalar n _ k added c (invOK_of_circ hζ hρ h2 rows hrows n c hc)

end QV.MatSound
