import QuriVerif.Proof.C05Label
/- C05: `pauli_product` (dict of pauli1, loop over pauli2, delete on equal letters, phase product)
   computes the entry-wise product of the finite maps and the total phase: the tie from the
   algorithm to the dense specification. -/
namespace QV.C05

def DictOK (d : List (Nat × P1)) : Prop := (d.map (·.1)).Nodup ∧ ∀ e ∈ d, e.2 ≠ P1.I

theorem lookup_eq_dget (d : List (Nat × P1)) (i : Nat) : lookup d i = (dget d i).getD .I := by
  induction d with
  | nil => rfl
  | cons e r ih =>
    obtain ⟨j, q⟩ := e
    simp only [lookup, dget]
    split <;> simp_all

theorem mem_of_dget {d : List (Nat × P1)} {i : Nat} {a : P1} (h : dget d i = some a) : (i, a) ∈ d := by
  induction d with
  | nil => simp [dget] at h
  | cons e r ih =>
    obtain ⟨j, q⟩ := e
    simp only [dget] at h
    split at h
    · simp_all
    · exact List.mem_cons_of_mem _ (ih h)

theorem lookup_dset (d : List (Nat × P1)) (i : Nat) (p : P1) (j : Nat) :
    lookup (dset d i p) j = if j = i then p else lookup d j := by
  induction d with
  | nil => simp [dset, lookup, eq_comm]
  | cons e r ih =>
    obtain ⟨k, q⟩ := e
    simp only [dset]
    split
    · rename_i hk; subst hk
      simp only [lookup]
      by_cases h : k = j
      · simp [h]
      · have h' : ¬ j = k := fun e => h e.symm
        simp [h, h']
    · rename_i hk
      simp only [lookup, ih]
      by_cases h : k = j
      · subst h; simp [hk]
      · simp [h]

theorem idx_dset {d : List (Nat × P1)} {i : Nat} {p : P1} {x : Nat}
    (h : x ∈ (dset d i p).map (·.1)) : x = i ∨ x ∈ d.map (·.1) := by
  induction d with
  | nil => simp [dset] at h; exact Or.inl h
  | cons e r ih =>
    obtain ⟨k, q⟩ := e
    simp only [dset] at h
    split at h
    · right; simpa using h
    · simp only [List.map_cons, List.mem_cons] at h ⊢
      rcases h with h | h
      · exact Or.inr (Or.inl h)
      · rcases ih h with h | h
        · exact Or.inl h
        · exact Or.inr (Or.inr h)

theorem mem_dset {d : List (Nat × P1)} {i : Nat} {p : P1} {e : Nat × P1}
    (h : e ∈ dset d i p) : e = (i, p) ∨ e ∈ d := by
  induction d with
  | nil => simp [dset] at h; exact Or.inl h
  | cons x r ih =>
    obtain ⟨k, q⟩ := x
    simp only [dset] at h
    split at h
    · rename_i hk
      rcases List.mem_cons.1 h with h | h
      · left; rw [h, hk]
      · right; exact List.mem_cons_of_mem _ h
    · rcases List.mem_cons.1 h with h | h
      · right; rw [h]; exact List.mem_cons_self
      · rcases ih h with h | h
        · exact Or.inl h
        · exact Or.inr (List.mem_cons_of_mem _ h)

theorem dictOK_dset {d : List (Nat × P1)} (h : DictOK d) (i : Nat) {p : P1} (hp : p ≠ .I) : DictOK (dset d i p) := by
  refine ⟨?_, ?_⟩
  · have hn := h.1
    clear h
    induction d with
    | nil => simp [dset]
    | cons e r ih =>
      obtain ⟨k, q⟩ := e
      rw [List.map_cons, List.nodup_cons] at hn
      simp only [dset]
      split
      · simpa using hn
      · rename_i hk
        rw [List.map_cons, List.nodup_cons]
        refine ⟨?_, ih hn.2⟩
        intro hx
        rcases idx_dset hx with hx | hx
        · exact hk hx
        · exact hn.1 hx
  · intro e he
    rcases mem_dset he with rfl | he
    · exact hp
    · exact h.2 e he

theorem mem_ddel {d : List (Nat × P1)} {i : Nat} {e : Nat × P1} (h : e ∈ ddel d i) : e ∈ d := by
  induction d with
  | nil => simp [ddel] at h
  | cons x r ih =>
    obtain ⟨k, q⟩ := x
    simp only [ddel] at h
    split at h
    · exact List.mem_cons_of_mem _ h
    · rcases List.mem_cons.1 h with h | h
      · rw [h]; exact List.mem_cons_self
      · exact List.mem_cons_of_mem _ (ih h)

theorem dictOK_ddel {d : List (Nat × P1)} (h : DictOK d) (i : Nat) : DictOK (ddel d i) := by
  refine ⟨?_, fun e he => h.2 e (mem_ddel he)⟩
  have hn := h.1
  clear h
  induction d with
  | nil => simp [ddel]
  | cons e r ih =>
    obtain ⟨k, q⟩ := e
    rw [List.map_cons, List.nodup_cons] at hn
    simp only [ddel]
    split
    · exact hn.2
    · rw [List.map_cons, List.nodup_cons]
      refine ⟨?_, ih hn.2⟩
      intro hx
      obtain ⟨e, he, hek⟩ := List.mem_map.1 hx
      exact hn.1 (List.mem_map.2 ⟨e, mem_ddel he, hek⟩)

theorem lookup_ddel {d : List (Nat × P1)} (hn : (d.map (·.1)).Nodup) (i j : Nat) :
    lookup (ddel d i) j = if j = i then .I else lookup d j := by
  induction d with
  | nil => simp [ddel, lookup]
  | cons e r ih =>
    obtain ⟨k, q⟩ := e
    rw [List.map_cons, List.nodup_cons] at hn
    simp only [ddel]
    split
    · rename_i hk; subst hk
      by_cases h : j = k
      · subst h
        simp only [if_true]
        exact lookup_eq_I_of_not_idx fun e he hej => hn.1 (hej ▸ List.mem_map_of_mem (f := (·.1)) he)
      · simp [lookup, h, eq_comm]
    · rename_i hk
      simp only [lookup, ih hn.2]
      by_cases h : k = j
      · subst h; simp [hk]
      · simp [h]

/-- one loop iteration: entry `(i, a)` of pauli2 multiplies position `i` from the right -/
theorem prodStep_spec {d : List (Nat × P1)} (hd : DictOK d) (k i : Nat) {a : P1} (ha : a ≠ .I) :
    DictOK (prodStep (d, k) (i, a)).1 ∧
    (∀ j, lookup (prodStep (d, k) (i, a)).1 j = if j = i then (P1.mul (lookup d i) a).1 else lookup d j) ∧
    (prodStep (d, k) (i, a)).2 % 4 = (k + (P1.mul (lookup d i) a).2) % 4 := by
  have hl := lookup_eq_dget d i
  unfold prodStep
  simp only
  cases hg : dget d i with
  | none =>
    rw [hg] at hl
    simp only [Option.getD_none] at hl
    simp only [hl, mul_I_left]
    exact ⟨dictOK_dset hd i ha, lookup_dset d i a, by omega⟩
  | some x =>
    rw [hg] at hl
    simp only [Option.getD_some] at hl
    have hx : x ≠ .I := hd.2 (i, x) (mem_of_dget hg)
    simp only [hl]
    unfold prodTable
    simp only
    by_cases hm : (P1.mul x a).1 = .I
    · have hm' := mul_eq_I hx ha hm
      rw [if_pos hm]
      simp only
      refine ⟨dictOK_ddel hd i, ?_, by rw [hm'.2, Nat.add_zero]⟩
      intro j
      rw [lookup_ddel hd.1, hm]
    · rw [if_neg hm]
      simp only
      exact ⟨dictOK_dset hd i hm, lookup_dset d i _, by omega⟩

/-- the whole loop -/
theorem fold_spec (es : List (Nat × P1)) (hn : (es.map (·.1)).Nodup) (hI : ∀ e ∈ es, e.2 ≠ P1.I)
    (d : List (Nat × P1)) (k : Nat) (hd : DictOK d) :
    DictOK (es.foldl prodStep (d, k)).1 ∧
    (∀ j, lookup (es.foldl prodStep (d, k)).1 j = (P1.mul (lookup d j) (lookup es j)).1) ∧
    (es.foldl prodStep (d, k)).2 % 4 = (k + (es.map fun e => (P1.mul (lookup d e.1) e.2).2).sum) % 4 := by
  induction es generalizing d k with
  | nil => simp [lookup, mul_I_right, hd]
  | cons e r ih =>
    obtain ⟨i, a⟩ := e
    rw [List.map_cons, List.nodup_cons] at hn
    have ha : a ≠ .I := hI (i, a) (by simp)
    have hs := prodStep_spec hd k i ha
    have hri : lookup r i = .I :=
      lookup_eq_I_of_not_idx fun e he hei => hn.1 (hei ▸ List.mem_map_of_mem (f := (·.1)) he)
    rw [List.foldl_cons]
    have hst : prodStep (d, k) (i, a) = ((prodStep (d, k) (i, a)).1, (prodStep (d, k) (i, a)).2) := rfl
    rw [hst]
    have := ih hn.2 (fun e he => hI e (by simp [he])) _ (prodStep (d, k) (i, a)).2 hs.1
    refine ⟨this.1, ?_, ?_⟩
    · intro j
      rw [this.2.1 j, hs.2.1 j]
      simp only [lookup]
      by_cases hj : j = i
      · subst hj; simp [hri, mul_I_right]
      · have hj' : ¬ i = j := fun e => hj e.symm
        simp [hj, hj']
    · rw [this.2.2]
      have hsum : (r.map fun e => (P1.mul (lookup (prodStep (d, k) (i, a)).1 e.1) e.2).2).sum
          = (r.map fun e => (P1.mul (lookup d e.1) e.2).2).sum := by
        congr 1
        apply List.map_congr_left
        intro e he
        rw [hs.2.1 e.1]
        have : e.1 ≠ i := fun hei => hn.1 (hei ▸ List.mem_map_of_mem (f := (·.1)) he)
        simp [this]
      rw [hsum, List.map_cons, List.sum_cons]
      have := hs.2.2
      dsimp only at this ⊢
      omega

theorem bound_le {l : List (Nat × P1)} {N : Nat} (h : ∀ e ∈ l, e.1 < N) : bound l ≤ N := by
  induction l with
  | nil => simp [bound]
  | cons e r ih =>
    obtain ⟨i, a⟩ := e
    simp only [bound]
    have := h (i, a) (by simp)
    have := ih fun e he => h e (by simp [he])
    simp at *; omega

theorem valid_dictOK {l : Label} (h : Valid l) : DictOK l := ⟨valid_nodup h, h.2⟩

/-- **`pauli_product` computes the entry-wise product of the two finite maps**; its phase exponent
    is the sum of the per-qubit exponents (mod 4) -/
theorem pauliProduct_spec {p q : Label} (hp : Valid p) (hq : Valid q) :
    Valid (pauliProduct p q).1 ∧
    (∀ j, lookup (pauliProduct p q).1 j = (P1.mul (lookup p j) (lookup q j)).1) ∧
    ∀ N, bound q ≤ N →
      (pauliProduct p q).2 % 4 = psum (fun j => (P1.mul (lookup p j) (lookup q j)).2) 0 N % 4 := by
  have h := fold_spec q (valid_nodup hq) hq.2 p 0 (valid_dictOK hp)
  unfold pauliProduct
  simp only
  refine ⟨valid_canon (fun_of_nodup h.1.1) h.1.2, ?_, ?_⟩
  · intro j
    rw [lookup_canon (fun_of_nodup h.1.1), h.2.1]
  · intro N hN
    rw [h.2.2, Nat.zero_add]
    rw [sum_entries (fun j a => (P1.mul (lookup p j) a).2) (fun j => by simp [mul_I_right]) q (valid_nodup hq) N
      (fun e he => Nat.lt_of_lt_of_le (idx_lt_bound he) hN)]

theorem bound_product_le {p q : Label} (hp : Valid p) (hq : Valid q) {N : Nat} (h1 : bound p ≤ N) (h2 : bound q ≤ N) :
    bound (pauliProduct p q).1 ≤ N := by
  have h := pauliProduct_spec hp hq
  apply bound_le
  intro e he
  have hne := lookup_ne_I_of_mem h.1 he
  rw [h.2.1] at hne
  by_cases hlt : e.1 < N
  · exact hlt
  · exfalso
    apply hne
    rw [lookup_bound (l := p) (by omega), lookup_bound (l := q) (by omega)]
    rfl

theorem actL_eq {l : Label} {N : Nat} (h : bound l ≤ N) (b : Nat) : actL l b = actD (toDense l N) b := by
  obtain ⟨m, rfl⟩ := Nat.exists_eq_add_of_le h
  unfold actL toDense
  rw [actD_tab_bound (lookup l) (bound l) m b fun j hj => lookup_bound hj]

/-- the product label in dense form is the dense product -/
theorem pauliProduct_dense {p q : Label} (hp : Valid p) (hq : Valid q) {N : Nat} (_h1 : bound p ≤ N) (h2 : bound q ≤ N) :
    toDense (pauliProduct p q).1 N = (mulD (toDense p N) (toDense q N)).1 ∧
    (pauliProduct p q).2 % 4 = (mulD (toDense p N) (toDense q N)).2 % 4 := by
  have h := pauliProduct_spec hp hq
  unfold toDense
  rw [mulD_tab, mulD_tab_phase, h.2.2 N h2]
  exact ⟨tab_congr _ _ 0 N fun j _ _ => h.2.1 j, rfl⟩

/-- **`pauli_product` is the matrix product**: `P (Q |b>) = i^k R |b>` for `(R, k) = pauli_product(P, Q)`,
    arbitrary overlaps, all basis states -/
theorem pauliProduct_act {p q : Label} (hp : Valid p) (hq : Valid q) (b : Nat) :
    (actL p (actL q b).2).2 = (actL (pauliProduct p q).1 b).2 ∧
    ((actL q b).1 + (actL p (actL q b).2).1) % 4 = ((pauliProduct p q).2 + (actL (pauliProduct p q).1 b).1) % 4 := by
  have h1 : bound p ≤ max (bound p) (bound q) := Nat.le_max_left _ _
  have h2 : bound q ≤ max (bound p) (bound q) := Nat.le_max_right _ _
  have h3 := bound_product_le hp hq h1 h2
  have hd := pauliProduct_dense hp hq h1 h2
  rw [actL_eq h2 b, actL_eq h1, actL_eq h3 b, hd.1]
  have := actD_mul (toDense p (max (bound p) (bound q))) (toDense q (max (bound p) (bound q))) b
  refine ⟨this.1, ?_⟩
  have h4 := this.2
  have h5 := hd.2
  omega

end QV.C05
